import QecVerif.Model.Merge
import Mathlib.Data.List.Perm.Basic
import Mathlib.Data.List.Nodup
import Mathlib.Data.List.Induction
import Mathlib.Algebra.BigOperators.Group.List.Basic
import Mathlib.Algebra.Field.Rat
import Mathlib.Tactic.Ring
/-
  Lemmas for C05 (`merge`): a canonical description of `foldRecs l []`.

  * `foldRecs l [] = .ok gs` implies `MergeInv l gs`: the keys of `gs` are the distinct keys of `l`, and
    every `g ∈ gs` satisfies `IsGroupOf l g` (scalar sums / array sums over the key class of `l`).
  * `foldRecs l [] = .error e` implies `e = .value` and `Mismatch l`.
  * `IsGroupOf l g` is permutation invariant in `l` and determines `g` from its key.
-/
namespace Qec

/-! ### `Same`: equality of results up to output order -/

def Same (a b : Except MergeErr (List Group)) : Prop :=
  (∀ e, a = .error e ↔ b = .error e) ∧
  (∀ ga, a = .ok ga → ∃ gb, b = .ok gb ∧ ga.Perm gb)

theorem Same.refl (a : Except MergeErr (List Group)) : Same a a :=
  ⟨fun _ => Iff.rfl, fun ga h => ⟨ga, h, List.Perm.refl _⟩⟩

theorem Same.of_eq {a b : Except MergeErr (List Group)} (h : a = b) : Same a b := h ▸ Same.refl a

theorem Same.trans {a b c : Except MergeErr (List Group)} (h₁ : Same a b) (h₂ : Same b c) :
    Same a c := by
  refine ⟨fun e => (h₁.1 e).trans (h₂.1 e), fun ga h => ?_⟩
  obtain ⟨gb, hb, p₁⟩ := h₁.2 ga h
  obtain ⟨gc, hc, p₂⟩ := h₂.2 gb hb
  exact ⟨gc, hc, p₁.trans p₂⟩

/-- the final `rateOk` check of `merge` -/
def finish (a : Except MergeErr (List Group)) : Except MergeErr (List Group) :=
  match a with
  | .error e => .error e
  | .ok gs => if gs.all rateOk then .ok gs else .error .zeroDivision

theorem merge_eq_finish (ls : List (List RawRec)) : merge ls = finish (foldRecs ls.flatten []) := by
  unfold merge finish
  cases foldRecs ls.flatten [] <;> rfl

theorem Same.finish {a b : Except MergeErr (List Group)} (h : Same a b) :
    Same (finish a) (finish b) := by
  cases a with
  | error e =>
    have hb : b = .error e := (h.1 e).1 rfl
    subst hb
    exact Same.refl _
  | ok ga =>
    obtain ⟨gb, hb, hp⟩ := h.2 ga rfl
    subst hb
    have hall : ga.all rateOk = gb.all rateOk := hp.all_eq
    unfold Qec.finish
    simp only [hall]
    by_cases hc : gb.all rateOk = true
    · simp only [hc, if_true]
      exact ⟨fun e => by simp, fun ga' h' => by
        cases h'
        exact ⟨gb, rfl, hp⟩⟩
    · simp only [hc]
      exact Same.refl _

theorem finish_ok {a : Except MergeErr (List Group)} {gs : List Group} (h : finish a = .ok gs) :
    a = .ok gs ∧ gs.all rateOk = true := by
  unfold finish at h
  cases a with
  | error e => cases h
  | ok ga =>
    by_cases hc : ga.all rateOk = true
    · simp only [hc, if_true] at h
      cases h
      exact ⟨rfl, hc⟩
    · simp only [hc] at h
      cases h

theorem finish_error_value {a : Except MergeErr (List Group)} :
    finish a = .error .value ↔ a = .error .value := by
  unfold finish
  cases a with
  | error e => simp
  | ok ga =>
    by_cases hc : ga.all rateOk = true
    · simp [hc]
    · simp [hc]

/-! ### `foldRecs` basics -/

theorem foldRecs_append (l₁ l₂ : List RawRec) (gs : List Group) :
    foldRecs (l₁ ++ l₂) gs =
      match foldRecs l₁ gs with
      | .ok gs' => foldRecs l₂ gs'
      | .error e => .error e := by
  induction l₁ generalizing gs with
  | nil => simp [foldRecs]
  | cons r rs ih =>
    simp only [List.cons_append, foldRecs]
    cases insertRec r gs with
    | ok gs' => simp [ih]
    | error e => simp

theorem foldRecs_single (r : RawRec) (gs : List Group) : foldRecs [r] gs = insertRec r gs := by
  simp only [foldRecs]
  cases insertRec r gs <;> rfl

theorem foldRecs_snoc (l : List RawRec) (r : RawRec) :
    foldRecs (l ++ [r]) [] =
      match foldRecs l [] with
      | .ok gs => insertRec r gs
      | .error e => .error e := by
  rw [foldRecs_append]
  cases foldRecs l [] with
  | ok gs => simp [foldRecs_single]
  | error e => rfl

/-! ### `insertRec` -/

def fresh (r : RawRec) : Group :=
  { key := keyOf r, sums := sumsOf r, lc := arrOf r.lc, cv := arrOf r.cv }

theorem insertRec_fresh (r : RawRec) (gs : List Group) (h : ∀ g ∈ gs, g.key ≠ keyOf r) :
    insertRec r gs = .ok (gs ++ [fresh r]) := by
  induction gs with
  | nil => rfl
  | cons g gs ih =>
    have hg : g.key ≠ keyOf r := h g (by simp)
    have ih' := ih (fun x hx => h x (by simp [hx]))
    simp [insertRec, hg, ih']

theorem insertRec_ok {r : RawRec} {gs gs' : List Group} (h : insertRec r gs = .ok gs') :
    ((∀ g ∈ gs, g.key ≠ keyOf r) ∧ gs' = gs ++ [fresh r]) ∨
    (∃ pre g post lc cv, gs = pre ++ g :: post ∧ g.key = keyOf r ∧ (∀ x ∈ pre, x.key ≠ keyOf r) ∧
      addArr g.lc (arrOf r.lc) = some lc ∧ addArr g.cv (arrOf r.cv) = some cv ∧
      gs' = pre ++ { key := g.key, sums := (sumsOf r).add g.sums, lc := lc, cv := cv } :: post) := by
  induction gs generalizing gs' with
  | nil =>
    left
    simp only [insertRec] at h
    cases h
    exact ⟨by simp, rfl⟩
  | cons g gs ih =>
    by_cases hk : g.key = keyOf r
    · right
      simp only [insertRec, hk, if_true] at h
      cases hlc : addArr g.lc (arrOf r.lc) with
      | none => simp [hlc] at h
      | some lc =>
        cases hcv : addArr g.cv (arrOf r.cv) with
        | none => simp [hlc, hcv] at h
        | some cv =>
          simp only [hlc, hcv] at h
          cases h
          exact ⟨[], g, gs, lc, cv, rfl, hk, by simp, hlc, hcv, by simp [hk]⟩
    · simp only [insertRec, hk, if_false] at h
      cases hrec : insertRec r gs with
      | error e => simp [hrec] at h
      | ok gs'' =>
        simp only [hrec] at h
        cases h
        rcases ih hrec with ⟨hne, heq⟩ | ⟨pre, g₀, post, lc, cv, hgs, hk₀, hpre, hlc, hcv, heq⟩
        · left
          refine ⟨?_, by simp [heq]⟩
          intro x hx
          rcases List.mem_cons.1 hx with rfl | hx
          · exact hk
          · exact hne x hx
        · right
          refine ⟨g :: pre, g₀, post, lc, cv, by simp [hgs], hk₀, ?_, hlc, hcv, by simp [heq]⟩
          intro x hx
          rcases List.mem_cons.1 hx with rfl | hx
          · exact hk
          · exact hpre x hx

theorem insertRec_error {r : RawRec} {gs : List Group} {e : MergeErr} (h : insertRec r gs = .error e) :
    e = .value ∧ ∃ g ∈ gs, g.key = keyOf r ∧
      (addArr g.lc (arrOf r.lc) = none ∨ addArr g.cv (arrOf r.cv) = none) := by
  induction gs with
  | nil => simp [insertRec] at h
  | cons g gs ih =>
    by_cases hk : g.key = keyOf r
    · simp only [insertRec, hk, if_true] at h
      cases hlc : addArr g.lc (arrOf r.lc) with
      | none =>
        simp only [hlc] at h
        cases h
        exact ⟨rfl, g, by simp, hk, Or.inl hlc⟩
      | some lc =>
        cases hcv : addArr g.cv (arrOf r.cv) with
        | none =>
          simp only [hlc, hcv] at h
          cases h
          exact ⟨rfl, g, by simp, hk, Or.inr hcv⟩
        | some cv => simp [hlc, hcv] at h
    · simp only [insertRec, hk, if_false] at h
      cases hrec : insertRec r gs with
      | ok gs'' => simp [hrec] at h
      | error e' =>
        simp only [hrec] at h
        cases h
        obtain ⟨he, g₀, hg₀, hk₀, hor⟩ := ih hrec
        exact ⟨he, g₀, by simp [hg₀], hk₀, hor⟩

/-! ### array specification -/

theorem addArr_none_iff (s a : Option (List Int)) :
    addArr s a = none ↔ s.map List.length ≠ a.map List.length := by
  cases s <;> cases a <;> simp [addArr]

/-- `out` is the element-wise sum of the (equal-shape) optional arrays `vals` -/
def ArrSpec (vals : List (Option (List Int))) (out : Option (List Int)) : Prop :=
  (out = none → ∀ a ∈ vals, a = none) ∧
  (∀ v, out = some v →
    (∀ a ∈ vals, ∃ w, a = some w ∧ w.length = v.length) ∧
    ∀ i, i < v.length → v[i]? = some ((vals.map fun a => (a.getD []).getD i 0).sum))

theorem ArrSpec.shape_eq {vals out} (h : ArrSpec vals out) {a} (ha : a ∈ vals) :
    a.map List.length = out.map List.length := by
  cases out with
  | none => simp [h.1 rfl a ha]
  | some v =>
    obtain ⟨w, rfl, hw⟩ := (h.2 v rfl).1 a ha
    simp [hw]

theorem arrSpec_single (a : Option (List Int)) : ArrSpec [a] a := by
  refine ⟨fun h => by simp [h], fun v hv => ?_⟩
  subst hv
  refine ⟨by simp, fun i hi => ?_⟩
  simp [List.getD_eq_getElem?_getD, List.getElem?_eq_getElem hi]

theorem ArrSpec.snoc {vals s a out} (h : ArrSpec vals s) (hadd : addArr s a = some out) :
    ArrSpec (vals ++ [a]) out := by
  cases s with
  | none =>
    cases a with
    | some v => simp [addArr] at hadd
    | none =>
      simp only [addArr, Option.some.injEq] at hadd
      subst hadd
      refine ⟨fun _ b hb => ?_, fun v hv => by cases hv⟩
      rcases List.mem_append.1 hb with hb | hb
      · exact h.1 rfl b hb
      · simpa using hb
  | some s =>
    cases a with
    | none => simp [addArr] at hadd
    | some v =>
      by_cases hlen : s.length = v.length
      · simp only [addArr, hlen, ne_eq, not_true_eq_false, if_false, Option.some.injEq] at hadd
        subst hadd
        refine ⟨fun hv => (by cases hv), fun v' hv' => ?_⟩
        cases hv'
        obtain ⟨hmem, hidx⟩ := h.2 s rfl
        have hzl : (List.zipWith (· + ·) s v).length = s.length := by simp [hlen]
        refine ⟨fun b hb => ?_, fun i hi => ?_⟩
        · rcases List.mem_append.1 hb with hb | hb
          · obtain ⟨w, hw, hwl⟩ := hmem b hb
            exact ⟨w, hw, by rw [hzl]; exact hwl⟩
          · refine ⟨v, by simpa using hb, by rw [hzl]; exact hlen.symm⟩
        · have his : i < s.length := by rw [← hzl]; exact hi
          have hiv : i < v.length := by rw [← hlen]; exact his
          have hs := hidx i his
          rw [List.getElem?_eq_getElem his, Option.some.injEq] at hs
          rw [List.getElem?_eq_getElem hi, List.getElem_zipWith, hs]
          simp [List.getD_eq_getElem?_getD, List.getElem?_eq_getElem hiv]
      · simp [addArr, hlen] at hadd

theorem ArrSpec.perm {vals vals' out} (hp : vals.Perm vals') (h : ArrSpec vals out) :
    ArrSpec vals' out := by
  refine ⟨fun ho a ha => h.1 ho a (hp.mem_iff.2 ha), fun v hv => ?_⟩
  obtain ⟨hmem, hidx⟩ := h.2 v hv
  refine ⟨fun a ha => hmem a (hp.mem_iff.2 ha), fun i hi => ?_⟩
  rw [hidx i hi, (hp.map _).sum_eq]

theorem ArrSpec.unique {vals o₁ o₂} (hne : vals ≠ []) (h₁ : ArrSpec vals o₁) (h₂ : ArrSpec vals o₂) :
    o₁ = o₂ := by
  obtain ⟨a, ha⟩ := List.exists_mem_of_ne_nil vals hne
  cases o₁ with
  | none =>
    cases o₂ with
    | none => rfl
    | some v₂ =>
      have := h₁.1 rfl a ha
      obtain ⟨w, hw, _⟩ := (h₂.2 v₂ rfl).1 a ha
      simp [this] at hw
  | some v₁ =>
    cases o₂ with
    | none =>
      have := h₂.1 rfl a ha
      obtain ⟨w, hw, _⟩ := (h₁.2 v₁ rfl).1 a ha
      simp [this] at hw
    | some v₂ =>
      obtain ⟨hm₁, hi₁⟩ := h₁.2 v₁ rfl
      obtain ⟨hm₂, hi₂⟩ := h₂.2 v₂ rfl
      obtain ⟨w₁, hw₁, hl₁⟩ := hm₁ a ha
      obtain ⟨w₂, hw₂, hl₂⟩ := hm₂ a ha
      have hww : w₁ = w₂ := by rw [hw₁] at hw₂; exact Option.some.inj hw₂
      have hlen : v₁.length = v₂.length := by rw [← hl₁, ← hl₂, hww]
      congr 1
      apply List.ext_getElem?
      intro i
      by_cases hi : i < v₁.length
      · rw [hi₁ i hi, hi₂ i (hlen ▸ hi)]
      · rw [List.getElem?_eq_none (by omega), List.getElem?_eq_none (by omega)]

/-! ### key classes and the group specification -/

def cls (l : List RawRec) (k : Key) : List RawRec := l.filter (fun r => keyOf r = k)

theorem mem_cls {l : List RawRec} {k : Key} {r : RawRec} : r ∈ cls l k ↔ r ∈ l ∧ keyOf r = k := by
  simp [cls]

theorem cls_snoc_ne {l : List RawRec} {r : RawRec} {k : Key} (h : keyOf r ≠ k) :
    cls (l ++ [r]) k = cls l k := by
  simp [cls, List.filter_append, h]

theorem cls_snoc_eq {l : List RawRec} {r : RawRec} {k : Key} (h : keyOf r = k) :
    cls (l ++ [r]) k = cls l k ++ [r] := by
  simp [cls, List.filter_append, h]

theorem cls_eq_nil {l : List RawRec} {k : Key} (h : ∀ r ∈ l, keyOf r ≠ k) : cls l k = [] := by
  simp only [cls, List.filter_eq_nil_iff]
  intro r hr
  simpa using h r hr

theorem cls_perm {l₁ l₂ : List RawRec} (hp : l₁.Perm l₂) (k : Key) : (cls l₁ k).Perm (cls l₂ k) :=
  hp.filter _

structure IsGroupOf (l : List RawRec) (g : Group) : Prop where
  ne : ∃ r ∈ l, keyOf r = g.key
  nRun : g.sums.nRun = ((cls l g.key).map (·.nRun)).sum
  nSuccess : g.sums.nSuccess = ((cls l g.key).map (·.nSuccess)).sum
  nFail : g.sums.nFail = ((cls l g.key).map (·.nFail)).sum
  ewTotal : g.sums.ewTotal = ((cls l g.key).map (·.ewTotal)).sum
  wall : g.sums.wall = ((cls l g.key).map (·.wall)).sum
  lc : ArrSpec ((cls l g.key).map (fun r => arrOf r.lc)) g.lc
  cv : ArrSpec ((cls l g.key).map (fun r => arrOf r.cv)) g.cv

theorem IsGroupOf.cls_ne {l g} (h : IsGroupOf l g) : cls l g.key ≠ [] := by
  obtain ⟨r, hr, hk⟩ := h.ne
  exact List.ne_nil_of_mem (mem_cls.2 ⟨hr, hk⟩)

theorem IsGroupOf.perm {l₁ l₂ g} (hp : l₁.Perm l₂) (h : IsGroupOf l₁ g) : IsGroupOf l₂ g := by
  have hc := cls_perm hp g.key
  obtain ⟨r, hr, hk⟩ := h.ne
  exact
    { ne := ⟨r, hp.mem_iff.1 hr, hk⟩
      nRun := by rw [h.nRun, (hc.map _).sum_eq]
      nSuccess := by rw [h.nSuccess, (hc.map _).sum_eq]
      nFail := by rw [h.nFail, (hc.map _).sum_eq]
      ewTotal := by rw [h.ewTotal, (hc.map _).sum_eq]
      wall := by rw [h.wall, (hc.map _).sum_eq]
      lc := h.lc.perm (hc.map _)
      cv := h.cv.perm (hc.map _) }

theorem IsGroupOf.unique {l g g'} (h : IsGroupOf l g) (h' : IsGroupOf l g') (hk : g.key = g'.key) :
    g = g' := by
  have hne : cls l g.key ≠ [] := h.cls_ne
  obtain ⟨k, s, lc, cv⟩ := g
  obtain ⟨k', s', lc', cv'⟩ := g'
  simp only at hk
  subst hk
  have hlc : lc = lc' := ArrSpec.unique (by simpa using hne) h.lc h'.lc
  have hcv : cv = cv' := ArrSpec.unique (by simpa using hne) h.cv h'.cv
  have hs : s = s' := by
    obtain ⟨a, b, c, d, e⟩ := s
    obtain ⟨a', b', c', d', e'⟩ := s'
    have h1 := h.nRun; have h2 := h.nFail; have h3 := h.nSuccess; have h4 := h.ewTotal
    have h5 := h.wall
    have h1' := h'.nRun; have h2' := h'.nFail; have h3' := h'.nSuccess; have h4' := h'.ewTotal
    have h5' := h'.wall
    simp only at h1 h2 h3 h4 h5 h1' h2' h3' h4' h5'
    simp only [Sums.mk.injEq]
    exact ⟨h1.trans h1'.symm, h2.trans h2'.symm, h3.trans h3'.symm, h4.trans h4'.symm,
      h5.trans h5'.symm⟩
  rw [hlc, hcv, hs]

theorem IsGroupOf.shape_lc {l g} (h : IsGroupOf l g) {r} (hr : r ∈ l) (hk : keyOf r = g.key) :
    (arrOf r.lc).map List.length = g.lc.map List.length :=
  h.lc.shape_eq (List.mem_map.2 ⟨r, mem_cls.2 ⟨hr, hk⟩, rfl⟩)

theorem IsGroupOf.shape_cv {l g} (h : IsGroupOf l g) {r} (hr : r ∈ l) (hk : keyOf r = g.key) :
    (arrOf r.cv).map List.length = g.cv.map List.length :=
  h.cv.shape_eq (List.mem_map.2 ⟨r, mem_cls.2 ⟨hr, hk⟩, rfl⟩)

theorem IsGroupOf.snoc_ne {l g r} (h : IsGroupOf l g) (hk : keyOf r ≠ g.key) :
    IsGroupOf (l ++ [r]) g := by
  obtain ⟨r', hr', hk'⟩ := h.ne
  exact
    { ne := ⟨r', by simp [hr'], hk'⟩
      nRun := by rw [cls_snoc_ne hk]; exact h.nRun
      nSuccess := by rw [cls_snoc_ne hk]; exact h.nSuccess
      nFail := by rw [cls_snoc_ne hk]; exact h.nFail
      ewTotal := by rw [cls_snoc_ne hk]; exact h.ewTotal
      wall := by rw [cls_snoc_ne hk]; exact h.wall
      lc := by rw [cls_snoc_ne hk]; exact h.lc
      cv := by rw [cls_snoc_ne hk]; exact h.cv }

theorem isGroupOf_fresh {l : List RawRec} {r : RawRec} (h : ∀ r' ∈ l, keyOf r' ≠ keyOf r) :
    IsGroupOf (l ++ [r]) (fresh r) := by
  have hc : cls (l ++ [r]) (fresh r).key = [r] := by
    show cls (l ++ [r]) (keyOf r) = [r]
    rw [cls_snoc_eq rfl, cls_eq_nil h]; rfl
  exact
    { ne := ⟨r, by simp, rfl⟩
      nRun := by rw [hc]; simp [fresh, sumsOf]
      nSuccess := by rw [hc]; simp [fresh, sumsOf]
      nFail := by rw [hc]; simp [fresh, sumsOf]
      ewTotal := by rw [hc]; simp [fresh, sumsOf]
      wall := by rw [hc]; simp [fresh, sumsOf]
      lc := by rw [hc]; exact arrSpec_single _
      cv := by rw [hc]; exact arrSpec_single _ }

theorem IsGroupOf.snoc_eq {l g r lc cv} (h : IsGroupOf l g) (hk : g.key = keyOf r)
    (hlc : addArr g.lc (arrOf r.lc) = some lc) (hcv : addArr g.cv (arrOf r.cv) = some cv) :
    IsGroupOf (l ++ [r]) { key := g.key, sums := (sumsOf r).add g.sums, lc := lc, cv := cv } := by
  obtain ⟨r', hr', hk'⟩ := h.ne
  have hc : cls (l ++ [r]) g.key = cls l g.key ++ [r] := cls_snoc_eq hk.symm
  exact
    { ne := ⟨r', by simp [hr'], hk'⟩
      nRun := by
        show _ = ((cls (l ++ [r]) g.key).map _).sum
        rw [hc]; simp [Sums.add, sumsOf, h.nRun, add_comm]
      nSuccess := by
        show _ = ((cls (l ++ [r]) g.key).map _).sum
        rw [hc]; simp [Sums.add, sumsOf, h.nSuccess, add_comm]
      nFail := by
        show _ = ((cls (l ++ [r]) g.key).map _).sum
        rw [hc]; simp [Sums.add, sumsOf, h.nFail, add_comm]
      ewTotal := by
        show _ = ((cls (l ++ [r]) g.key).map _).sum
        rw [hc]; simp [Sums.add, sumsOf, h.ewTotal, add_comm]
      wall := by
        show _ = ((cls (l ++ [r]) g.key).map _).sum
        rw [hc]; simp [Sums.add, sumsOf, h.wall, add_comm]
      lc := by
        show ArrSpec ((cls (l ++ [r]) g.key).map _) lc
        rw [hc, List.map_append]; exact h.lc.snoc hlc
      cv := by
        show ArrSpec ((cls (l ++ [r]) g.key).map _) cv
        rw [hc, List.map_append]; exact h.cv.snoc hcv }

/-! ### the fold invariant -/

structure MergeInv (l : List RawRec) (gs : List Group) : Prop where
  nodup : (gs.map (·.key)).Nodup
  keys : ∀ k, k ∈ gs.map (·.key) ↔ ∃ r ∈ l, keyOf r = k
  grp : ∀ g ∈ gs, IsGroupOf l g

/-- two records of one key class differ in presence or length of an array -/
def Mismatch (l : List RawRec) : Prop :=
  ∃ r₁ ∈ l, ∃ r₂ ∈ l, keyOf r₁ = keyOf r₂ ∧
    ((arrOf r₁.lc).map List.length ≠ (arrOf r₂.lc).map List.length ∨
     (arrOf r₁.cv).map List.length ≠ (arrOf r₂.cv).map List.length)

theorem Mismatch.perm {l₁ l₂ : List RawRec} (hp : l₁.Perm l₂) (h : Mismatch l₁) : Mismatch l₂ := by
  obtain ⟨r₁, h₁, r₂, h₂, hk, hor⟩ := h
  exact ⟨r₁, hp.mem_iff.1 h₁, r₂, hp.mem_iff.1 h₂, hk, hor⟩

theorem Mismatch.snoc {l : List RawRec} (r : RawRec) (h : Mismatch l) : Mismatch (l ++ [r]) := by
  obtain ⟨r₁, h₁, r₂, h₂, hk, hor⟩ := h
  exact ⟨r₁, by simp [h₁], r₂, by simp [h₂], hk, hor⟩

theorem inv_nil : MergeInv [] [] :=
  { nodup := by simp, keys := by simp, grp := by simp }

theorem MergeInv.exists_group {l gs} (hI : MergeInv l gs) {r} (hr : r ∈ l) :
    ∃ g ∈ gs, g.key = keyOf r := by
  have : keyOf r ∈ gs.map (·.key) := (hI.keys _).2 ⟨r, hr, rfl⟩
  obtain ⟨g, hg, hk⟩ := List.mem_map.1 this
  exact ⟨g, hg, hk⟩

theorem MergeInv.not_mismatch {l gs} (hI : MergeInv l gs) : ¬ Mismatch l := by
  rintro ⟨r₁, h₁, r₂, h₂, hk, hor⟩
  obtain ⟨g, hg, hgk⟩ := hI.exists_group h₁
  have hG := hI.grp g hg
  rcases hor with h | h
  · exact h ((hG.shape_lc h₁ hgk.symm).trans (hG.shape_lc h₂ (hk ▸ hgk.symm)).symm)
  · exact h ((hG.shape_cv h₁ hgk.symm).trans (hG.shape_cv h₂ (hk ▸ hgk.symm)).symm)

theorem MergeInv.step {l gs r gs'} (hI : MergeInv l gs) (h : insertRec r gs = .ok gs') :
    MergeInv (l ++ [r]) gs' := by
  rcases insertRec_ok h with ⟨hne, rfl⟩ | ⟨pre, g, post, lc, cv, rfl, hk, hpre, hlc, hcv, rfl⟩
  · have hl : ∀ r' ∈ l, keyOf r' ≠ keyOf r := by
      intro r' hr' heq
      obtain ⟨g, hg, hgk⟩ := hI.exists_group hr'
      exact hne g hg (hgk.trans heq)
    refine ⟨?_, ?_, ?_⟩
    · rw [List.map_append, List.nodup_append]
      refine ⟨hI.nodup, by simp, ?_⟩
      intro a ha b hb hab
      simp only [List.map_cons, List.map_nil, List.mem_singleton] at hb
      obtain ⟨g, hg, hgk⟩ := List.mem_map.1 ha
      exact hne g hg (by rw [hgk, hab, hb]; rfl)
    · intro k
      rw [List.map_append, List.mem_append, hI.keys k]
      constructor
      · rintro (⟨r', hr', hk'⟩ | hk')
        · exact ⟨r', by simp [hr'], hk'⟩
        · simp only [List.map_cons, List.map_nil, List.mem_singleton] at hk'
          exact ⟨r, by simp, hk'.symm⟩
      · rintro ⟨r', hr', hk'⟩
        rcases List.mem_append.1 hr' with hr' | hr'
        · exact Or.inl ⟨r', hr', hk'⟩
        · right
          simp only [List.mem_singleton] at hr'
          subst hr'
          simp [fresh, hk']
    · intro g hg
      rcases List.mem_append.1 hg with hg | hg
      · exact (hI.grp g hg).snoc_ne (fun heq => hne g hg heq.symm)
      · simp only [List.mem_singleton] at hg
        subst hg
        exact isGroupOf_fresh hl
  · have hnd := hI.nodup
    have hkeys : ((pre ++ { key := g.key, sums := (sumsOf r).add g.sums, lc := lc, cv := cv } :: post).map
        (·.key)) = (pre ++ g :: post).map (·.key) := by simp
    have hpost : ∀ x ∈ post, x.key ≠ keyOf r := by
      intro x hx heq
      rw [List.map_append, List.map_cons, List.nodup_append] at hnd
      have := (List.nodup_cons.1 hnd.2.1).1
      exact this (List.mem_map.2 ⟨x, hx, heq.trans hk.symm⟩)
    refine ⟨?_, ?_, ?_⟩
    · rw [hkeys]; exact hnd
    · intro k
      rw [hkeys, hI.keys k]
      constructor
      · rintro ⟨r', hr', hk'⟩
        exact ⟨r', by simp [hr'], hk'⟩
      · rintro ⟨r', hr', hk'⟩
        rcases List.mem_append.1 hr' with hr' | hr'
        · exact ⟨r', hr', hk'⟩
        · simp only [List.mem_singleton] at hr'
          subst hr'
          have : g.key ∈ (pre ++ g :: post).map (·.key) := List.mem_map.2 ⟨g, by simp, rfl⟩
          rw [hI.keys, hk, hk'] at this
          exact this
    · intro x hx
      rcases List.mem_append.1 hx with hx | hx
      · exact (hI.grp x (by simp [hx])).snoc_ne (fun heq => hpre x hx heq.symm)
      · rcases List.mem_cons.1 hx with rfl | hx
        · exact (hI.grp g (by simp)).snoc_eq hk hlc hcv
        · exact (hI.grp x (by simp [hx])).snoc_ne (fun heq => hpost x hx heq.symm)

theorem MergeInv.step_error {l gs r e} (hI : MergeInv l gs) (h : insertRec r gs = .error e) :
    e = .value ∧ Mismatch (l ++ [r]) := by
  obtain ⟨he, g, hg, hk, hor⟩ := insertRec_error h
  refine ⟨he, ?_⟩
  have hG := hI.grp g hg
  obtain ⟨r', hr', hk'⟩ := hG.ne
  refine ⟨r', by simp [hr'], r, by simp, hk'.trans hk, ?_⟩
  rcases hor with h | h
  · left
    rw [hG.shape_lc hr' hk']
    exact (addArr_none_iff _ _).1 h
  · right
    rw [hG.shape_cv hr' hk']
    exact (addArr_none_iff _ _).1 h

theorem foldRecs_spec (l : List RawRec) :
    (∀ gs, foldRecs l [] = .ok gs → MergeInv l gs) ∧
    (∀ e, foldRecs l [] = .error e → e = .value ∧ Mismatch l) := by
  induction l using List.reverseRecOn with
  | nil =>
    refine ⟨fun gs h => ?_, fun e h => ?_⟩
    · simp only [foldRecs] at h
      cases h
      exact inv_nil
    · simp [foldRecs] at h
  | append_singleton l r ih =>
    rw [foldRecs_snoc]
    cases hf : foldRecs l [] with
    | error e =>
      obtain ⟨he, hm⟩ := ih.2 e hf
      refine ⟨fun gs h => (by cases h), fun e' h => ?_⟩
      cases h
      exact ⟨he, hm.snoc r⟩
    | ok gs =>
      have hI := ih.1 gs hf
      exact ⟨fun gs' h => hI.step h, fun e h => hI.step_error h⟩

theorem foldRecs_inv {l gs} (h : foldRecs l [] = .ok gs) : MergeInv l gs := (foldRecs_spec l).1 gs h

theorem foldRecs_error {l e} (h : foldRecs l [] = .error e) : e = .value ∧ Mismatch l :=
  (foldRecs_spec l).2 e h

theorem foldRecs_error_iff (l : List RawRec) : foldRecs l [] = .error .value ↔ Mismatch l := by
  constructor
  · exact fun h => (foldRecs_error h).2
  · intro hm
    cases hf : foldRecs l [] with
    | error e => rw [(foldRecs_error hf).1]
    | ok gs => exact absurd hm (foldRecs_inv hf).not_mismatch

/-! ### order insensitivity -/

theorem MergeInv.mem_transfer {l₁ l₂ ga gb} (hp : l₁.Perm l₂) (ha : MergeInv l₁ ga) (hb : MergeInv l₂ gb)
    {g : Group} (hg : g ∈ ga) : g ∈ gb := by
  have hG : IsGroupOf l₂ g := (ha.grp g hg).perm hp
  obtain ⟨r, hr, hk⟩ := hG.ne
  obtain ⟨g', hg', hk'⟩ := hb.exists_group hr
  have : g = g' := hG.unique (hb.grp g' hg') (hk.symm.trans hk'.symm)
  exact this ▸ hg'

theorem foldRecs_perm {l₁ l₂ : List RawRec} (hp : l₁.Perm l₂) :
    Same (foldRecs l₁ []) (foldRecs l₂ []) := by
  cases h₁ : foldRecs l₁ [] with
  | error e₁ =>
    obtain ⟨he₁, hm⟩ := foldRecs_error h₁
    subst he₁
    rw [(foldRecs_error_iff l₂).2 (hm.perm hp)]
    exact Same.refl _
  | ok ga =>
    have ha := foldRecs_inv h₁
    cases h₂ : foldRecs l₂ [] with
    | error e₂ =>
      exact absurd ((foldRecs_error h₂).2.perm hp.symm) ha.not_mismatch
    | ok gb =>
      have hb := foldRecs_inv h₂
      refine ⟨fun e => by simp, fun ga' h => ?_⟩
      cases h
      refine ⟨gb, rfl, ?_⟩
      refine (List.perm_ext_iff_of_nodup (List.Nodup.of_map _ ha.nodup)
        (List.Nodup.of_map _ hb.nodup)).2 (fun g => ?_)
      exact ⟨ha.mem_transfer hp hb, hb.mem_transfer hp.symm ha⟩

/-! ### idempotence -/

theorem fresh_toRaw (g : Group) : fresh g.toRaw = g := by
  obtain ⟨k, s, lc, cv⟩ := g
  cases lc <;> cases cv <;> rfl

theorem keyOf_toRaw (g : Group) : keyOf g.toRaw = g.key := by
  show (fresh g.toRaw).key = g.key
  rw [fresh_toRaw]

theorem foldRecs_toRaw (gs acc : List Group) (h : ((acc ++ gs).map (·.key)).Nodup) :
    foldRecs (gs.map Group.toRaw) acc = .ok (acc ++ gs) := by
  induction gs generalizing acc with
  | nil => simp [foldRecs]
  | cons g gs ih =>
    have hfr : ∀ x ∈ acc, x.key ≠ keyOf g.toRaw := by
      intro x hx heq
      rw [keyOf_toRaw] at heq
      rw [List.map_append, List.map_cons, List.nodup_append] at h
      exact h.2.2 _ (List.mem_map.2 ⟨x, hx, rfl⟩) _ (by simp) heq
    simp only [List.map_cons, foldRecs, insertRec_fresh _ _ hfr, fresh_toRaw]
    rw [ih (acc ++ [g]) (by simpa using h)]
    simp

theorem foldRecs_toRaw_of_fold {l gs} (h : foldRecs l [] = .ok gs) :
    foldRecs (gs.map Group.toRaw) [] = .ok gs := by
  have := foldRecs_toRaw gs [] (by simpa using (foldRecs_inv h).nodup)
  simpa using this

/-- replacing a prefix by its merge result does not change the fold -/
theorem foldRecs_prefix_toRaw {l gs} (h : foldRecs l [] = .ok gs) (s : List RawRec) :
    foldRecs (gs.map Group.toRaw ++ s) [] = foldRecs (l ++ s) [] := by
  rw [foldRecs_append, foldRecs_append, h, foldRecs_toRaw_of_fold h]

theorem foldRecs_nested {l₁ l₂ g₁ g₂} (h₁ : foldRecs l₁ [] = .ok g₁) (h₂ : foldRecs l₂ [] = .ok g₂) :
    Same (foldRecs (g₁.map Group.toRaw ++ g₂.map Group.toRaw) []) (foldRecs (l₁ ++ l₂) []) := by
  rw [foldRecs_prefix_toRaw h₁]
  refine (foldRecs_perm (List.perm_append_comm)).trans ?_
  rw [foldRecs_prefix_toRaw h₂]
  exact foldRecs_perm List.perm_append_comm

/-! ### representation independence -/

theorem insertRec_congr {r r' : RawRec} (hk : keyOf r' = keyOf r) (hs : sumsOf r' = sumsOf r)
    (hlc : arrOf r'.lc = arrOf r.lc) (hcv : arrOf r'.cv = arrOf r.cv) (gs : List Group) :
    insertRec r' gs = insertRec r gs := by
  induction gs with
  | nil => simp [insertRec, hk, hs, hlc, hcv]
  | cons g gs ih => simp [insertRec, hk, hs, hlc, hcv, ih]

theorem foldRecs_map_congr (f : RawRec → RawRec)
    (hf : ∀ r, keyOf (f r) = keyOf r ∧ sumsOf (f r) = sumsOf r ∧
      arrOf (f r).lc = arrOf r.lc ∧ arrOf (f r).cv = arrOf r.cv)
    (l : List RawRec) (gs : List Group) : foldRecs (l.map f) gs = foldRecs l gs := by
  induction l generalizing gs with
  | nil => rfl
  | cons r rs ih =>
    obtain ⟨h1, h2, h3, h4⟩ := hf r
    simp only [List.map_cons, foldRecs, insertRec_congr h1 h2 h3 h4]
    cases insertRec r gs with
    | ok gs' => simp [ih]
    | error e => rfl

end Qec
