/-
  Helper lemmas for Props/C02/SmwpmEven.lean:
  * parity of the number of defective clusters (one non-fused Y-defect) of ANY list of even clusters: it is the parity
    of the number of X-type indices and of the number of Z-type indices the clusters hold;
  * number of defects of an array of rows vs. weight of the XOR of the rows;
  * the class argument for NECESSITY of the existence conditions: if every edge of a graph joins two nodes of a class or
    two nodes outside it, a perfect matching leaves an even number of nodes in the class.
-/
import QecVerif.Lemmas.SmwpmExists2
namespace Qec.SmwpmEven
open Qec Qec.Smwpm Qec.SmwpmL Qec.SmwpmX

/-! ## counting -/

theorem filter_split {α : Type} (p : α → Bool) : ∀ (l : List α),
    (l.filter p).length + (l.filter fun a => !p a).length = l.length
  | [] => rfl
  | a :: l => by
    have ih := filter_split p l
    cases h : p a <;> simp [h] <;> omega

theorem flatten_even {α : Type} : ∀ (cls : List (List α)), (∀ cl ∈ cls, cl.length % 2 = 0) →
    cls.flatten.length % 2 = 0
  | [], _ => rfl
  | cl :: cls, h => by
    have a := h cl (by simp)
    have b := flatten_even cls (fun c hc => h c (by simp [hc]))
    rw [List.flatten_cons, List.length_append]; omega

/-- **parity of the number of defective clusters**: for ANY list of clusters of even length the `_ClusterNode`s exist and
    the number of defective ones has the parity of the number of X-type indices — and of the number of Z-type indices —
    held by the clusters -/
theorem defective_parity (cls : List (List TIdx)) (heven : ∀ cl ∈ cls, cl.length % 2 = 0) :
    ∃ nsr, realNodes cls = .ok nsr ∧ nDefective nsr % 2 = (cls.flatten.filter isX).length % 2 ∧
      nDefective nsr % 2 = (cls.flatten.filter fun k => !isX k).length % 2 := by
  obtain ⟨_, nsr, _, _, hnsr, _, _, _, _, _⟩ := clusters_spec cls heven
  have hpar := T.realNodes_parity cls nsr hnsr
  have h1 := filter_split isX cls.flatten
  have h2 := flatten_even cls heven
  exact ⟨nsr, hnsr, hpar, by omega⟩

/-- what the toric `_cluster_graph` does with the nodes: empty graph, `assert` failure, or all nodes -/
theorem clusterNodes_eq (cls : List (List TIdx)) (nsr : List ClNode) (h : realNodes cls = .ok nsr) :
    Toric.clusterNodes cls =
      if nDefective nsr = 0 then .ok [] else if nDefective nsr % 2 ≠ 0 then .error .oddDefective else .ok nsr := by
  unfold Toric.clusterNodes; rw [h]

/-! ## defects of the rows vs. weight of their XOR -/

/-- number of set bits -/
def wt (r : BVec) : Nat := r.count true

theorem pick_length {ι : Type} : ∀ (plaqs : List ι) (r : BVec), r.length = plaqs.length →
    (Pairing.pick plaqs r).length = wt r
  | [], r, h => by
    have : r = [] := List.eq_nil_of_length_eq_zero (by simpa using h)
    subst this; rfl
  | p :: ps, [], h => by simp at h
  | p :: ps, x :: r, h => by
    have ih := pick_length ps r (by simpa using h)
    unfold wt at ih ⊢
    cases x
    · have : Pairing.pick (p :: ps) (false :: r) = Pairing.pick ps r := by simp [Pairing.pick]
      rw [this, ih]; simp
    · have : Pairing.pick (p :: ps) (true :: r) = p :: Pairing.pick ps r := by simp [Pairing.pick]
      rw [this, List.length_cons, ih]; simp

theorem wX_true (plaqs : List Dec.Idx2) (r : BVec) (h : r.length = plaqs.length) :
    T.wX (fun _ => true) plaqs r = wt r := by
  unfold T.wX
  rw [List.filter_true]
  exact pick_length plaqs r h

theorem xorAll_length (m : Nat) : ∀ (rows : List BVec) (acc : BVec), acc.length = m → (∀ r ∈ rows, r.length = m) →
    (rows.foldl xorV acc).length = m
  | [], acc, h, _ => h
  | r :: rows, acc, h, hr => by
    apply xorAll_length m rows
    · unfold xorV; rw [List.length_zipWith, h, hr r (by simp)]; omega
    · intro r' h'; exact hr r' (by simp [h'])

/-! ## the class argument -/

theorem ends_filter_even {α : Type} (P : α → Bool) : ∀ (m : List (α × α)), (∀ x ∈ m, P x.1 = P x.2) →
    ((Dec.ends m).filter P).length % 2 = 0
  | [], _ => rfl
  | x :: m, h => by
    have ih := ends_filter_even P m (fun y hy => h y (by simp [hy]))
    have hx := h x (by simp)
    rw [ends_cons]
    cases h1 : P x.1 <;> cases h2 : P x.2 <;> rw [h1, h2] at hx <;> simp [h1, h2] at hx ⊢ <;> omega

/-- **class argument**: `ms` has distinct endpoints and every pair has both or none of its nodes in the class
    "orientation `o` and `Q`"; then every duplicate-free list `D` of exactly the indices `k` whose `o`-node is an
    endpoint and which satisfy `Q` has even length -/
theorem class_even (ms : List (Node × Node)) (hnd : (Dec.ends ms).Nodup) (o : Bool) (Q : TIdx → Bool)
    (hedge : ∀ x ∈ ms, (x.1.2 == o && Q x.1.1) = (x.2.2 == o && Q x.2.1))
    (D : List TIdx) (hD : D.Nodup) (hmem : ∀ k, k ∈ D ↔ ((k, o) ∈ Dec.ends ms ∧ Q k = true)) :
    D.length % 2 = 0 := by
  have h := ends_filter_even (fun n : Node => (n.2 == o && Q n.1)) ms hedge
  have hinj : Function.Injective (fun k : TIdx => ((k, o) : Node)) := fun a b hab => (Prod.mk.inj hab).1
  have hperm : (D.map fun k : TIdx => ((k, o) : Node)).Perm ((Dec.ends ms).filter fun n : Node => (n.2 == o && Q n.1)) := by
    rw [List.perm_ext_iff_of_nodup (hD.map hinj) (hnd.filter _)]
    intro n
    rw [List.mem_map, List.mem_filter]
    constructor
    · rintro ⟨k, hk, rfl⟩
      obtain ⟨h1, h2⟩ := (hmem k).mp hk
      exact ⟨h1, by simp [h2]⟩
    · rintro ⟨h1, h2⟩
      simp only [Bool.and_eq_true, beq_iff_eq] at h2
      refine ⟨n.1, (hmem n.1).mpr ⟨?_, h2.2⟩, ?_⟩
      · rw [← h2.1]; exact h1
      · rw [← h2.1]
  have := hperm.length_eq
  rw [List.length_map] at this
  omega

/-- what `_add_edge` demands of an edge -/
theorem addEdgeOk_spec (fl : Flags) (a b : Node) (h : addEdgeOk fl a b = true) :
    a.2 = b.2 ∧ (fl.q01 = true → a.1.1 = b.1.1) ∧ (fl.pZero = true → sp a.1 = sp b.1) ∧
      (fl.etaNone = true → if a.2 = true then a.1.2.2 = b.1.2.2 else a.1.2.1 = b.1.2.1) := by
  unfold addEdgeOk at h
  simp only [Bool.and_eq_true, beq_iff_eq, Bool.not_eq_true', Bool.and_eq_false_imp, decide_eq_false_iff_not,
    Decidable.not_not] at h
  obtain ⟨⟨⟨h1, h2⟩, h3⟩, h4⟩ := h
  refine ⟨h1, h2, ?_, ?_⟩
  · intro hp
    have := h3 hp
    simpa using this
  · intro he
    have := h4 he
    split at this <;> simp_all


/-! ## classes of nodes that a perfect matching of the symmetry graph matches within themselves -/

/-- the line coordinate of an index: `y` for a row node, `x` for a column node -/
def crd : Bool → TIdx → Int
  | true, k => k.2.2
  | false, k => k.2.1

/-- membership in a group of `T.groupsSpace`: one time step, or all -/
def inG : Option Nat → TIdx → Bool
  | some t, k => decide (k.1 = (t : Int))
  | none, _ => true

theorem group_q01 (q : Bool) (n : Nat) (g : Option Nat) (hg : g ∈ T.groupsSpace q n) (t : Nat) (h : g = some t) :
    q = true ∧ t < n := by
  rcases (SmwpmX2.P.mem_groups q n g).mp hg with ⟨h1, t', h2, h3⟩ | ⟨_, h3⟩
  · rw [h3] at h; cases h; exact ⟨h1, h2⟩
  · rw [h3] at h; cases h

/-- time-like edges stay inside a group -/
theorem inG_edge (fl : Flags) (n : Nat) (g : Option Nat) (hg : g ∈ T.groupsSpace fl.q01 n) (a b : Node)
    (hab : addEdgeOk fl a b = true) : inG g a.1 = inG g b.1 := by
  cases g with
  | none => rfl
  | some t =>
    have := (addEdgeOk_spec fl a b hab).2.1 (group_q01 _ _ _ hg t rfl).1
    show decide (a.1.1 = (t : Int)) = decide (b.1.1 = (t : Int))
    rw [this]

/-- at infinite bias an edge joins two nodes of the same line -/
theorem crd_edge (fl : Flags) (he : fl.etaNone = true) (o : Bool) (a b : Node) (hab : addEdgeOk fl a b = true)
    (ho : a.2 = o) : crd o a.1 = crd o b.1 := by
  have h4 := (addEdgeOk_spec fl a b hab).2.2.2 he
  subst ho
  cases h : a.2 <;> rw [h] at h4 <;> simp at h4 <;> exact h4

namespace T
open Qec.SmwpmL.T

theorem edge_spec (fl : Flags) (R C : Int) (rows : List BVec) (e : Node × Node)
    (h : e ∈ Toric.graphEdges fl R C rows) : addEdgeOk fl e.1 e.2 = true := by
  unfold Toric.graphEdges at h
  by_cases hf : fl.etaNone = true
  · rw [if_pos hf] at h
    simp only [List.mem_flatMap] at h
    obtain ⟨_, _, line, _, hl⟩ := h
    exact mem_pairsOf_filter _ _ e hl
  · rw [if_neg hf] at h
    exact mem_pairsOf_filter _ _ e h

/-- **class argument on the torus**: if `_add_edge` only makes edges between two `o`-nodes inside the class `Q` or two
    outside it, a perfect matching of the symmetry graph leaves an even number of nodes in the class -/
theorem class_even_T (fl : Flags) (R C : Int) (rows : List BVec) (ms : List (Node × Node))
    (hpm : Dec.isPerfectMatchingOfGraph (Toric.graphNodes R C rows) (Toric.graphEdges fl R C rows) ms = true)
    (o : Bool) (Q : TIdx → Bool) (hQ : ∀ a b : Node, addEdgeOk fl a b = true → a.2 = o → Q a.1 = Q b.1)
    (D : List TIdx) (hD : D.Nodup) (hmem : ∀ k, k ∈ D ↔ (SmwpmL.T.IsNode R C rows k ∧ Q k = true)) :
    D.length % 2 = 0 := by
  have F := SmwpmL.T.matchFacts fl R C rows ms hpm
  have key : ∀ a b : Node, addEdgeOk fl a b = true → (a.2 == o && Q a.1) = (b.2 == o && Q b.1) := by
    intro a b hab
    have h1 := (addEdgeOk_spec fl a b hab).1
    rw [← h1]
    by_cases ho : a.2 = o
    · rw [hQ a b hab ho]
    · have : (a.2 == o) = false := by simpa using ho
      rw [this]; rfl
  apply class_even ms F.nodup o Q _ D hD
  · intro k; rw [hmem, F.node]
  · intro x hx
    rcases Dec.pm_edges _ _ _ hpm x hx with h | h
    · exact key _ _ (edge_spec fl R C rows _ h)
    · exact (key _ _ (edge_spec fl R C rows _ h)).symm

/-- **necessity at infinite bias** (rotated toric): a perfect matching of the symmetry graph leaves an even number of
    defects of every group on every line -/
theorem line_even_of_pm (fl : Flags) (he : fl.etaNone = true) (R C : Int) (rows : List BVec) (ms : List (Node × Node))
    (hpm : Dec.isPerfectMatchingOfGraph (Toric.graphNodes R C rows) (Toric.graphEdges fl R C rows) ms = true)
    (g : Option Nat) (hg : g ∈ T.groupsSpace fl.q01 rows.length) (o : Bool) (j : Int) :
    ((T.usedSpace R C rows g).filter fun k => decide (crd o k = j)).length % 2 = 0 := by
  apply class_even_T fl R C rows ms hpm o (fun k => decide (crd o k = j) && inG g k)
  · intro a b hab ho
    show (decide (crd o a.1 = j) && inG g a.1) = (decide (crd o b.1 = j) && inG g b.1)
    rw [crd_edge fl he o a b hab ho, inG_edge fl _ g hg a b hab]
  · exact (T.usedSpace_nodup R C rows g).filter _
  · intro k
    rw [List.mem_filter, ← T.node_iff_defect]
    cases g with
    | none =>
      simp only [T.usedSpace, T.mem_allDefects, inG, Bool.and_true]
    | some t =>
      have ht := (group_q01 _ _ _ hg t rfl).2
      simp only [T.usedSpace, inG, Bool.and_eq_true, decide_eq_true_eq]
      constructor
      · rintro ⟨h1, h2⟩
        exact ⟨⟨t, ht, h1⟩, h2, ((T.mem_defectsAt R C rows t k).mp h1).1⟩
      · rintro ⟨⟨t', _, h1⟩, h2, h3⟩
        have := ((T.mem_defectsAt R C rows t' k).mp h1).1
        have : t' = t := by omega
        subst this
        exact ⟨h1, h2⟩

theorem no_defect_of_ge (R C : Int) (rows : List BVec) (t : Nat) (ht : rows.length ≤ t) (p : Dec.Idx2) :
    Toric.isDefect R C rows t p = false := by
  unfold Toric.isDefect
  have : rows.getD t [] = [] := by
    rw [List.getD_eq_getElem?_getD, List.getElem?_eq_none ht]; rfl
  rw [this]
  have : RotatedToric.syndromeToPlaquettes R C [] = [] := SmwpmX2.pick_nil _
  rw [this]; simp

theorem usedTimes_nodup (R C : Int) (rows : List BVec) (p : Dec.Idx2) : (T.usedTimes R C rows p).Nodup :=
  (List.nodup_range.filter _).map (tix_inj_t p)

/-- **necessity for `p = 0`** (rotated toric): a perfect matching of the symmetry graph leaves every plaquette a defect
    at an even number of time steps — at none without time-like edges -/
theorem time_even_of_pm (fl : Flags) (hp : fl.pZero = true) (R C : Int) (rows : List BVec) (ms : List (Node × Node))
    (hpm : Dec.isPerfectMatchingOfGraph (Toric.graphNodes R C rows) (Toric.graphEdges fl R C rows) ms = true) :
    (∀ p, ((List.range rows.length).countP fun t => Toric.isDefect R C rows t p) % 2 = 0) ∧
    (fl.q01 = true → ∀ t p, Toric.isDefect R C rows t p = false) := by
  have hsp : ∀ (p : Dec.Idx2) (a b : Node), addEdgeOk fl a b = true → decide (sp a.1 = p) = decide (sp b.1 = p) := by
    intro p a b hab
    rw [(addEdgeOk_spec fl a b hab).2.2.1 hp]
  constructor
  · intro p
    have := class_even_T fl R C rows ms hpm true (fun k => decide (sp k = p)) (fun a b hab _ => hsp p a b hab)
      (T.usedTimes R C rows p) (usedTimes_nodup R C rows p) (by
        intro k
        rw [T.mem_usedTimes, decide_eq_true_eq]
        constructor
        · rintro ⟨t, h1, h2, rfl⟩
          exact ⟨⟨(T.defect_inB R C rows t p h2).2, t, rfl, h1, h2⟩, rfl⟩
        · rintro ⟨⟨_, t, h1, h2, h3⟩, rfl⟩
          exact ⟨t, h2, h3, (tix_sp k t h1).symm⟩)
    unfold T.usedTimes at this
    rw [List.length_map, ← List.countP_eq_length_filter] at this
    exact this
  · intro hq t p
    by_cases ht : t < rows.length
    · cases hd : Toric.isDefect R C rows t p with
      | false => rfl
      | true =>
        exfalso
        have := class_even_T fl R C rows ms hpm true (fun k => decide (sp k = p) && decide (k.1 = (t : Int)))
          (fun a b hab _ => by
            show (decide (sp a.1 = p) && decide (a.1.1 = (t : Int))) = (decide (sp b.1 = p) && decide (b.1.1 = (t : Int)))
            rw [hsp p a b hab, (addEdgeOk_spec fl a b hab).2.1 hq])
          [tix t p] (List.nodup_singleton _) (by
            intro k
            rw [List.mem_singleton, Bool.and_eq_true, decide_eq_true_eq, decide_eq_true_eq]
            constructor
            · rintro rfl
              exact ⟨⟨(T.defect_inB R C rows t p hd).2, t, rfl, ht, hd⟩, rfl, rfl⟩
            · rintro ⟨_, rfl, h3⟩
              exact (tix_sp k t h3).symm)
        simp at this
    · exact no_defect_of_ge R C rows t (by omega) p

end T

namespace P
open RotatedPlanar RotatedPlanarCode

theorem edge_spec (fl : Flags) (R C : Int) (rows : List BVec) (e : Node × Node)
    (h : e ∈ graphEdges fl R C rows) : e.1.1 = e.2.1 ∨ addEdgeOk fl e.1 e.2 = true := by
  have hp : ∀ byRow, e ∈ passEdges fl R C rows byRow → e.1.1 = e.2.1 ∨ addEdgeOk fl e.1 e.2 = true := by
    intro byRow h
    unfold passEdges at h
    rcases List.mem_append.mp h with h | h
    · left
      unfold twinEdges at h
      rw [List.mem_map] at h
      obtain ⟨v, _, rfl⟩ := h
      rfl
    · right
      by_cases hf : fl.etaNone = true
      · rw [if_pos hf, List.mem_flatMap] at h
        obtain ⟨line, _, hl⟩ := h
        exact mem_pairsOf_filter _ _ e hl
      · rw [if_neg hf] at h
        exact mem_pairsOf_filter _ _ e h
  unfold graphEdges at h
  rcases List.mem_append.mp h with h | h <;> exact hp _ h

/-- **class argument on the planar lattice**: a class `Q` of `o`-nodes that `_add_edge` respects and that contains no
    virtual plaquette (so no twin edge leaves it) holds an even number of nodes whenever a perfect matching exists -/
theorem class_even_P (fl : Flags) (R C : Int) (hR : 0 ≤ R) (hC : 0 ≤ C) (rows : List BVec) (ms : List (Node × Node))
    (hpm : Dec.isPerfectMatchingOfGraph (graphNodes R C rows) (graphEdges fl R C rows) ms = true)
    (o : Bool) (Q : TIdx → Bool) (hQ : ∀ a b : Node, addEdgeOk fl a b = true → a.2 = o → Q a.1 = Q b.1)
    (hnv : ∀ k, Q k = true → SmwpmL.IsNode R C rows k → isVirtualPlaquette R C k.2.1 k.2.2 = false)
    (D : List TIdx) (hD : D.Nodup) (hmem : ∀ k, k ∈ D ↔ (SmwpmL.IsNode R C rows k ∧ Q k = true)) :
    D.length % 2 = 0 := by
  have F := SmwpmL.matchFacts fl R C hR hC rows ms hpm
  have key : ∀ a b : Node, addEdgeOk fl a b = true → (a.2 == o && Q a.1) = (b.2 == o && Q b.1) := by
    intro a b hab
    have h1 := (addEdgeOk_spec fl a b hab).1
    rw [← h1]
    by_cases ho : a.2 = o
    · rw [hQ a b hab ho]
    · have : (a.2 == o) = false := by simpa using ho
      rw [this]; rfl
  apply class_even ms F.nodup o Q _ D hD
  · intro k; rw [hmem, F.node]
  · intro x hx
    by_cases hidx : x.1.1 = x.2.1
    · have hv := F.twinVirtual x hx hidx
      have hn : SmwpmL.IsNode R C rows x.1.1 :=
        (F.node x.1.1 x.1.2).mp ((mem_ends ms _).mpr ⟨x, hx, Or.inl rfl⟩)
      have hq : Q x.1.1 = false := by
        cases h : Q x.1.1 with
        | false => rfl
        | true => have := hnv _ h hn; rw [hv] at this; cases this
      rw [← hidx, hq]; simp
    · rcases Dec.pm_edges _ _ _ hpm x hx with h | h
      · rcases edge_spec fl R C rows _ h with h' | h'
        · exact absurd h' hidx
        · exact key _ _ h'
      · rcases edge_spec fl R C rows _ h with h' | h'
        · exact absurd h'.symm hidx
        · exact (key _ _ h').symm

theorem isNode_of_defect (R C : Int) (rows : List BVec) (t : Nat) (ht : t < rows.length) (k : TIdx)
    (hk : k ∈ defectsAt R C rows t) : SmwpmL.IsNode R C rows k := by
  obtain ⟨h1, h2⟩ := (SmwpmX.mem_defectsAt R C rows t k).mp hk
  exact ⟨plaqIn_inGrid R C _ (defect_plaqIn R C rows t _ h2), t, h1, ht, Or.inr h2⟩

/-- **necessity at infinite bias** (rotated planar): on a line that holds no virtual plaquette a perfect matching of the
    symmetry graph leaves an even number of defects of every group -/
theorem line_even_of_pm (fl : Flags) (he : fl.etaNone = true) (R C : Int) (hR : 0 ≤ R) (hC : 0 ≤ C)
    (rows : List BVec) (ms : List (Node × Node))
    (hpm : Dec.isPerfectMatchingOfGraph (graphNodes R C rows) (graphEdges fl R C rows) ms = true)
    (g : Option Nat) (hg : g ∈ T.groupsSpace fl.q01 rows.length) (o : Bool) (j : Int)
    (hline : ∀ k : TIdx, crd o k = j → InGrid R C (sp k) → isVirtualPlaquette R C k.2.1 k.2.2 = false) :
    ((SmwpmX2.P.usedSpace R C rows g).filter fun k => decide (crd o k = j)).length % 2 = 0 := by
  apply class_even_P fl R C hR hC rows ms hpm o (fun k => decide (crd o k = j) && inG g k)
  · intro a b hab ho
    show (decide (crd o a.1 = j) && inG g a.1) = (decide (crd o b.1 = j) && inG g b.1)
    rw [crd_edge fl he o a b hab ho, inG_edge fl _ g hg a b hab]
  · intro k hq hn
    simp only [Bool.and_eq_true, decide_eq_true_eq] at hq
    exact hline k hq.1 hn.1
  · exact (SmwpmX2.P.usedSpace_nodup R C rows g).filter _
  · intro k
    rw [List.mem_filter]
    have hnode : ∀ t : Nat, t < rows.length → crd o k = j →
        (k ∈ defectsAt R C rows t ↔ SmwpmL.IsNode R C rows k ∧ k.1 = (t : Int)) := by
      intro t ht hc
      constructor
      · intro h; exact ⟨isNode_of_defect R C rows t ht k h, ((SmwpmX.mem_defectsAt R C rows t k).mp h).1⟩
      · rintro ⟨⟨h1, t', h2, h3, h4⟩, h5⟩
        have : t' = t := by omega
        subst this
        rcases h4 with h4 | h4
        · have := hline k hc h1; rw [h4] at this; cases this
        · exact (SmwpmX.mem_defectsAt R C rows t' k).mpr ⟨h2, h4⟩
    cases g with
    | none =>
      simp only [SmwpmX2.P.usedSpace, SmwpmX2.P.mem_allDefects, inG, Bool.and_true, decide_eq_true_eq]
      constructor
      · rintro ⟨⟨t, ht, h1⟩, h2⟩
        exact ⟨((hnode t ht h2).mp h1).1, h2⟩
      · rintro ⟨h1, h2⟩
        have hn := h1
        obtain ⟨_, t, h3, h4, _⟩ := h1
        exact ⟨⟨t, h4, (hnode t h4 h2).mpr ⟨hn, h3⟩⟩, h2⟩
    | some t =>
      have ht := (group_q01 _ _ _ hg t rfl).2
      simp only [SmwpmX2.P.usedSpace, inG, Bool.and_eq_true, decide_eq_true_eq]
      constructor
      · rintro ⟨h1, h2⟩
        obtain ⟨h3, h4⟩ := (hnode t ht h2).mp h1
        exact ⟨h3, h2, h4⟩
      · rintro ⟨h1, h2, h3⟩
        exact ⟨(hnode t ht h2).mpr ⟨h1, h3⟩, h2⟩

/-- an interior row / column whose two boundary plaquettes are not virtual holds no virtual plaquette -/
theorem row_no_virtual (R C y : Int) (h0 : 0 ≤ y) (h1 : y ≤ R - 2) (hl : isVirtualPlaquette R C (-1) y = false)
    (hr : isVirtualPlaquette R C (C - 1) y = false) (k : TIdx) (hk : crd true k = y) (_hg : InGrid R C (sp k)) :
    isVirtualPlaquette R C k.2.1 k.2.2 = false := by
  cases hv : isVirtualPlaquette R C k.2.1 k.2.2 with
  | false => rfl
  | true =>
    exfalso
    have hk' : k.2.2 = y := hk
    obtain ⟨hb, _⟩ := (SmwpmX2.P.virt_iff R C k.2.1 k.2.2).mp hv
    rw [hk'] at hv
    rcases hb with h | h | h | h
    · rw [h, hl] at hv; cases hv
    · rw [h, hr] at hv; cases hv
    · omega
    · omega

theorem col_no_virtual (R C x : Int) (h0 : 0 ≤ x) (h1 : x ≤ C - 2) (hb : isVirtualPlaquette R C x (-1) = false)
    (ht : isVirtualPlaquette R C x (R - 1) = false) (k : TIdx) (hk : crd false k = x) (_hg : InGrid R C (sp k)) :
    isVirtualPlaquette R C k.2.1 k.2.2 = false := by
  cases hv : isVirtualPlaquette R C k.2.1 k.2.2 with
  | false => rfl
  | true =>
    exfalso
    have hk' : k.2.1 = x := hk
    obtain ⟨hb', _⟩ := (SmwpmX2.P.virt_iff R C k.2.1 k.2.2).mp hv
    rw [hk'] at hv
    rcases hb' with h | h | h | h
    · omega
    · omega
    · rw [h, hb] at hv; cases hv
    · rw [h, ht] at hv; cases hv

theorem no_defect_of_ge (R C : Int) (rows : List BVec) (t : Nat) (ht : rows.length ≤ t) (p : Dec.Idx2) :
    isDefect R C rows t p = false := by
  unfold isDefect
  have : rows.getD t [] = [] := by
    rw [List.getD_eq_getElem?_getD, List.getElem?_eq_none ht]; rfl
  rw [this]
  have : syndromeToPlaquettes R C [] = [] := SmwpmX2.pick_nil _
  rw [this]; simp

theorem usedTimes_nodup (R C : Int) (rows : List BVec) (p : Dec.Idx2) : (SmwpmX.usedTimes R C rows p).Nodup :=
  (List.nodup_range.filter _).map (tix_inj_t p)

/-- **necessity for `p = 0`** (rotated planar) -/
theorem time_even_of_pm (fl : Flags) (hp : fl.pZero = true) (R C : Int) (hR : 0 ≤ R) (hC : 0 ≤ C)
    (rows : List BVec) (ms : List (Node × Node))
    (hpm : Dec.isPerfectMatchingOfGraph (graphNodes R C rows) (graphEdges fl R C rows) ms = true) :
    (∀ p, ((List.range rows.length).countP fun t => isDefect R C rows t p) % 2 = 0) ∧
    (fl.q01 = true → ∀ t p, isDefect R C rows t p = false) := by
  have hsp : ∀ (p : Dec.Idx2) (a b : Node), addEdgeOk fl a b = true → decide (sp a.1 = p) = decide (sp b.1 = p) := by
    intro p a b hab
    rw [(addEdgeOk_spec fl a b hab).2.2.1 hp]
  have hdv : ∀ (t : Nat) (p : Dec.Idx2), isDefect R C rows t p = true → isVirtualPlaquette R C p.1 p.2 = false :=
    fun t p hd => plaqIn_not_virtual R C p (defect_plaqIn R C rows t p hd)
  have hnode : ∀ (t : Nat) (p : Dec.Idx2), t < rows.length → isDefect R C rows t p = true →
      SmwpmL.IsNode R C rows (tix t p) :=
    fun t p ht hd => ⟨plaqIn_inGrid R C _ (defect_plaqIn R C rows t p hd), t, rfl, ht, Or.inr hd⟩
  constructor
  · intro p
    by_cases hex : ∃ t, t < rows.length ∧ isDefect R C rows t p = true
    · obtain ⟨t0, ht0, hd0⟩ := hex
      have hpv := hdv t0 p hd0
      have := class_even_P fl R C hR hC rows ms hpm true (fun k => decide (sp k = p))
        (fun a b hab _ => hsp p a b hab)
        (fun k hq _ => by
          have : sp k = p := by simpa using hq
          rw [← this] at hpv; exact hpv)
        (SmwpmX.usedTimes R C rows p) (usedTimes_nodup R C rows p) (by
          intro k
          rw [SmwpmX.mem_usedTimes, decide_eq_true_eq]
          constructor
          · rintro ⟨t, h1, h2, rfl⟩
            exact ⟨hnode t p h1 h2, rfl⟩
          · rintro ⟨⟨_, t, h1, h2, h3⟩, rfl⟩
            rcases h3 with h3 | h3
            · rw [show isVirtualPlaquette R C k.2.1 k.2.2 = isVirtualPlaquette R C (sp k).1 (sp k).2 from rfl,
                hpv] at h3; cases h3
            · exact ⟨t, h2, h3, (tix_sp k t h1).symm⟩)
      unfold SmwpmX.usedTimes at this
      rw [List.length_map, ← List.countP_eq_length_filter] at this
      exact this
    · have : ((List.range rows.length).countP fun t => isDefect R C rows t p) = 0 := by
        rw [List.countP_eq_zero]
        intro t ht hd
        exact hex ⟨t, List.mem_range.mp ht, hd⟩
      rw [this]
  · intro hq t p
    by_cases ht : t < rows.length
    · cases hd : isDefect R C rows t p with
      | false => rfl
      | true =>
        exfalso
        have hpv := hdv t p hd
        have := class_even_P fl R C hR hC rows ms hpm true (fun k => decide (sp k = p) && decide (k.1 = (t : Int)))
          (fun a b hab _ => by
            show (decide (sp a.1 = p) && decide (a.1.1 = (t : Int))) = (decide (sp b.1 = p) && decide (b.1.1 = (t : Int)))
            rw [hsp p a b hab, (addEdgeOk_spec fl a b hab).2.1 hq])
          (fun k hq' _ => by
            simp only [Bool.and_eq_true, decide_eq_true_eq] at hq'
            rw [← hq'.1] at hpv; exact hpv)
          [tix t p] (List.nodup_singleton _) (by
            intro k
            rw [List.mem_singleton, Bool.and_eq_true, decide_eq_true_eq, decide_eq_true_eq]
            constructor
            · rintro rfl
              exact ⟨hnode t p ht hd, rfl, rfl⟩
            · rintro ⟨_, rfl, h3⟩
              exact (tix_sp k t h3).symm)
        simp at this
    · exact no_defect_of_ge R C rows t (by omega) p

end P

end Qec.SmwpmEven
