/-
  Helper lemmas for Props/C02/Smwpm.lean — the endpoint lemma of `RotatedPlanarSMWPMDecoder._path_operator`
  (Model/Smwpm.lean `pathSites` / `pathOpT`): for grid indices `a ≠ b` of the same type, the site path (diagonal
  until in line, then straight) meets a same-type in-lattice plaquette `p` in an odd number of sites iff `p` is
  exactly one of `a`, `b`.

  Proof idea: every site `s` is the common corner of exactly two plaquettes of a given type, `P` and its reflection
  `2s − P − (1,1)`.  Walking along the path and reflecting the current plaquette through the current site gives a
  chain of same-type plaquettes from `a`; the invariant `WInv` (offset of the site within the current plaquette
  agrees with the direction of travel, and a parity condition for the coordinates that are already in line) shows the
  next site is again a corner of the reflected plaquette and that the chain ends at `b`.  The overlap parities
  telescope.
-/
import QecVerif.Lemmas.SmwpmFinal
namespace Qec.SmwpmL
open Qec Qec.Smwpm Qec.Dec Qec.RotatedPlanar Qec.RotatedPlanarCode Qec.Symp

/-- one coordinate of the walk invariant: `c` current site coordinate, `q` current plaquette coordinate, `e` end site
    coordinate, `b` end plaquette coordinate, `n` remaining steps -/
def CInv (n : Nat) (c q e b : Int) : Prop :=
  0 ≤ c - q ∧ c - q ≤ 1 ∧ -(n : Int) ≤ e - c ∧ e - c ≤ n ∧ (e - c > 0 → c - q = 1) ∧ (e - c < 0 → c - q = 0) ∧
  ((c - q) + n + (e - c)) % 2 = (b - e + 1) % 2 ∧ 0 ≤ b - e + 1 ∧ b - e + 1 ≤ 1

def WInv (n : Nat) (cur P e b : Idx2) : Prop :=
  CInv n cur.1 P.1 e.1 b.1 ∧ CInv n cur.2 P.2 e.2 b.2 ∧
  (e.1 - cur.1 = n ∨ e.1 - cur.1 = -(n : Int) ∨ e.2 - cur.2 = n ∨ e.2 - cur.2 = -(n : Int))

/-- reflection of the plaquette `P` through its corner `s` -/
def refl (P s : Idx2) : Idx2 := (2 * s.1 - P.1 - 1, 2 * s.2 - P.2 - 1)

theorem bne_chain (x y z : Bool) : ((x != y) ^^ (y != z)) = (x != z) := by
  cases x <;> cases y <;> cases z <;> rfl

theorem bne_decide (A B C : Prop) [Decidable A] [Decidable B] [Decidable C] (h : A ↔ ¬ (B ↔ C)) :
    decide A = (decide B != decide C) := by
  by_cases hB : B <;> by_cases hC : C <;> by_cases hA : A <;> simp_all

/-- a site is a corner of exactly two plaquettes of a given type: `P` and its reflection -/
theorem site_bit (p P cur : Idx2) (h1 : 0 ≤ cur.1 - P.1 ∧ cur.1 - P.1 ≤ 1) (h2 : 0 ≤ cur.2 - P.2 ∧ cur.2 - P.2 ≤ 1)
    (hpar : (p.1 - p.2) % 2 = (P.1 - P.2) % 2) :
    decide ((cur.1 = p.1 ∨ cur.1 = p.1 + 1) ∧ (cur.2 = p.2 ∨ cur.2 = p.2 + 1)) =
      (decide (p = P) != decide (p = refl P cur)) := by
  apply bne_decide
  rw [Prod.ext_iff, Prod.ext_iff]
  simp only [refl]
  omega

/-- **the walk**: overlap parity of the remaining path with a same-type plaquette `p` -/
theorem walk_overlap (R C : Int) (p : Idx2) (n : Nat) : ∀ (cur P e b : Idx2), WInv n cur P e b →
    SiteIn R C cur.1 cur.2 → SiteIn R C e.1 e.2 → (p.1 - p.2) % 2 = (P.1 - P.2) % 2 →
    xorSum (walkSites n cur e) (fun s => inSiteBounds R C s.1 s.2 && occ (plaquetteSites p.1 p.2) s) =
      (decide (p = P) != decide (p = b)) := by
  induction n with
  | zero =>
    intro cur P e b hI hc he hpar
    obtain ⟨h1, h2, _⟩ := hI
    unfold CInv at h1 h2
    have hb : b = refl P cur := by
      apply Prod.ext <;> simp only [refl] <;> omega
    simp only [walkSites, xorSum_cons, xorSum_nil, Bool.xor_false]
    rw [(inSiteBounds_iff R C _ _).mpr hc, Bool.true_and, occ_plaq, hb]
    exact site_bit p P cur ⟨h1.1, h1.2.1⟩ ⟨h2.1, h2.2.1⟩ hpar
  | succ n ih =>
    intro cur P e b hI hc he hpar
    obtain ⟨h1, h2, h3⟩ := hI
    unfold CInv at h1 h2
    have hne : cur ≠ e := by
      intro hh; rw [hh] at h3; omega
    unfold walkSites
    rw [if_neg hne, xorSum_cons]
    have hstep : WInv n (step1 e.1 cur.1, step1 e.2 cur.2) (refl P cur) e b := by
      unfold WInv CInv step1 refl
      simp only
      refine ⟨?_, ?_, ?_⟩
      · split <;> [skip; split] <;> omega
      · split <;> [skip; split] <;> omega
      · split <;> [skip; split] <;> split <;> [skip; split; skip; split; skip; split] <;> omega
    have hc' : SiteIn R C (step1 e.1 cur.1) (step1 e.2 cur.2) := by
      unfold SiteIn step1 at *
      split <;> [skip; split] <;> split <;> [skip; split; skip; split; skip; split] <;> omega
    have hpar' : (p.1 - p.2) % 2 = ((refl P cur).1 - (refl P cur).2) % 2 := by
      simp only [refl]; omega
    rw [ih _ _ e b hstep hc' he hpar', (inSiteBounds_iff R C _ _).mpr hc, Bool.true_and, occ_plaq,
      site_bit p P cur ⟨h1.1, h1.2.1⟩ ⟨h2.1, h2.2.1⟩ hpar]
    exact bne_chain _ _ _

/-- the invariant holds at the start of `_path_operator`'s loop, and the start / end sites are in the lattice -/
theorem path_init (R C : Int) (hR : 1 ≤ R) (hC : 1 ≤ C) (a b : Idx2) (ha : InGrid R C a) (hb : InGrid R C b) (hab : a ≠ b)
    (hpar : (a.1 - a.2) % 2 = (b.1 - b.2) % 2) :
    WInv (max ((startEnd a.1 b.1).2 - (startEnd a.1 b.1).1).natAbs ((startEnd a.2 b.2).2 - (startEnd a.2 b.2).1).natAbs)
        ((startEnd a.1 b.1).1, (startEnd a.2 b.2).1) a ((startEnd a.1 b.1).2, (startEnd a.2 b.2).2) b ∧
      SiteIn R C (startEnd a.1 b.1).1 (startEnd a.2 b.2).1 ∧ SiteIn R C (startEnd a.1 b.1).2 (startEnd a.2 b.2).2 := by
  have hne : a.1 ≠ b.1 ∨ a.2 ≠ b.2 := by
    by_cases h1 : a.1 = b.1
    · right; intro h2; exact hab (Prod.ext h1 h2)
    · exact Or.inl h1
  unfold InGrid at ha hb
  unfold WInv CInv SiteIn startEnd
  simp only
  split <;> [skip; split] <;> split <;> [skip; split; skip; split; skip; split] <;> simp only <;> omega

theorem opOf_not (z : Bool) : (if z = true then P1.X else P1.Z) = opOf (!z) := by cases z <;> rfl

/-- **endpoint lemma of `_path_operator`** for all lattice sizes: between grid indices of the same type the path
    operator anticommutes exactly with the in-lattice members of `{a, b}` -/
theorem path_syndrome (R C : Int) (hR : 1 ≤ R) (hC : 1 ≤ C) (a b : Idx2) (ha : InGrid R C a) (hb : InGrid R C b)
    (hty : isZPlaquette a.1 a.2 = isZPlaquette b.1 b.2) :
    synd (stabilizers R C) (pathOpT R C a b) =
      (plaquetteIndices R C).map fun p => (decide (p = a) != decide (p = b)) := by
  rw [stabilizers_eq_map]
  unfold synd
  rw [List.map_map]
  apply List.map_congr_left
  intro p _
  simp only [Function.comp]
  by_cases hab : a = b
  · unfold pathOpT
    rw [if_pos hab, identity_eq, bsp_zeros_left, hab]; simp
  · have hpath : pathOpT R C a b =
        sites R C (opOf (!isZPlaquette a.1 a.2)) (identity R C) (pathSites a b) := by
      unfold pathOpT; rw [if_neg hab, opOf_not]
    rw [hpath]
    unfold stabOp
    by_cases ht : isZPlaquette p.1 p.2 = isZPlaquette a.1 a.2
    · rw [bsp_flip, bsp_sites_diff' R C (isZPlaquette p.1 p.2) (!isZPlaquette a.1 a.2) (by rw [ht])]
      have hpa : (p.1 - p.2) % 2 = (a.1 - a.2) % 2 := by
        have h1 := isZPlaquette_iff p.1 p.2
        have h2 := isZPlaquette_iff a.1 a.2
        rw [ht] at h1
        have := Int.emod_two_eq (p.1 - p.2)
        have := Int.emod_two_eq (a.1 - a.2)
        cases hz : isZPlaquette a.1 a.2
        · rw [hz] at h1 h2; simp at h1 h2; omega
        · rw [hz] at h1 h2; simp at h1 h2; omega
      have hpar : (a.1 - a.2) % 2 = (b.1 - b.2) % 2 := by
        have h1 := isZPlaquette_iff a.1 a.2
        have h2 := isZPlaquette_iff b.1 b.2
        rw [hty] at h1
        have := Int.emod_two_eq (a.1 - a.2)
        have := Int.emod_two_eq (b.1 - b.2)
        cases hz : isZPlaquette b.1 b.2
        · rw [hz] at h1 h2; simp at h1 h2; omega
        · rw [hz] at h1 h2; simp at h1 h2; omega
      obtain ⟨hI, hs, he⟩ := path_init R C hR hC a b ha hb hab hpar
      exact walk_overlap R C p _ _ a _ b hI hs he hpa
    · have hz : (!isZPlaquette a.1 a.2) = isZPlaquette p.1 p.2 := by
        cases h1 : isZPlaquette a.1 a.2 <;> cases h2 : isZPlaquette p.1 p.2 <;> simp_all
      rw [hz, bsp_sites_same]
      have hpa : ¬ p = a := fun h => ht (by rw [h])
      have hpb : ¬ p = b := fun h => ht (by rw [h, hty])
      simp [hpa, hpb]

end Qec.SmwpmL
