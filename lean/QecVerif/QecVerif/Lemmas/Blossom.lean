/-
  Helper lemmas for Props/C13/Blossom.lean: the rounding `roundHalfAway` of `blossom5.weight_to_int_fn` and sums of
  rounded weights over lists of pairs.
-/
import QecVerif.Model.Matching
import Mathlib.Data.Rat.Floor
import Mathlib.Algebra.Order.Ring.Rat
import Mathlib.Algebra.Order.Ring.Abs
import Mathlib.Tactic.Linarith
import Mathlib.Tactic.Ring
import Mathlib.Tactic.Positivity
namespace Qec.Blossom
open Qec Qec.Matching

theorem floor_def (x : Rat) : x.floor = ⌊x⌋ := rfl

theorem roundHalfAway_nonneg {x : Rat} (h : 0 ≤ x) : roundHalfAway x = ⌊x + 1 / 2⌋ := by
  unfold roundHalfAway; rw [if_pos h]; rfl

theorem roundHalfAway_neg {x : Rat} (h : ¬ 0 ≤ x) : roundHalfAway x = -⌊-x + 1 / 2⌋ := by
  unfold roundHalfAway; rw [if_neg h]; rfl

/-- cast of an integer list sum -/
theorem cast_sum_map {α} (r : α → Int) (L : List α) :
    (((L.map r).sum : Int) : Rat) = (L.map fun p => (r p : Rat)).sum := by
  induction L with
  | nil => simp
  | cons a L ih => simp [List.sum_cons, ih]

/-- the sum of the rounded weights over a list of pairs stays within `e` per pair of `s` times the sum of the weights -/
theorem sum_round_close {α} (w : α → Rat) (r : α → Int) (s e : Rat)
    (hr : ∀ p, |(r p : Rat) - s * w p| ≤ e) (L : List α) :
    |(L.map fun p => (r p : Rat)).sum - s * (L.map w).sum| ≤ e * L.length := by
  induction L with
  | nil => simp
  | cons a L ih =>
    simp only [List.map_cons, List.sum_cons, List.length_cons]
    have h1 := hr a
    have : (r a : Rat) + (L.map fun p => (r p : Rat)).sum - s * (w a + (L.map w).sum) =
        ((r a : Rat) - s * w a) + ((L.map fun p => (r p : Rat)).sum - s * (L.map w).sum) := by ring
    rw [this]
    calc |((r a : Rat) - s * w a) + ((L.map fun p => (r p : Rat)).sum - s * (L.map w).sum)|
        ≤ |(r a : Rat) - s * w a| + |(L.map fun p => (r p : Rat)).sum - s * (L.map w).sum| := abs_add_le _ _
      _ ≤ e + e * L.length := add_le_add h1 ih
      _ = e * ((L.length + 1 : Nat) : Rat) := by push_cast; ring

end Qec.Blossom
