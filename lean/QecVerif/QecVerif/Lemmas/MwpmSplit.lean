/-
  Helper lemmas for C14, MWPM part: an X-type toggle program changes only the X half of a binary
  symplectic vector and its effect there depends only on that half (and dually for Z); the planar
  and toric `path` / `applyMates` are such programs.
-/
import QecVerif.Model.Lattice.Planar
import QecVerif.Model.Lattice.Toric
import QecVerif.Lemmas.GF2
namespace Qec.MwpmSplit
open Qec

/-! ### toggling and the two halves -/

theorem take_toggle (v : BVec) (n i : Nat) : (toggle v i).take n = toggle (v.take n) i := by
  apply List.ext_getElem?
  intro j
  simp only [toggle, List.getElem?_modify, List.getElem?_take]
  split <;> split <;> simp_all

theorem drop_toggle_add (v : BVec) (n f : Nat) : (toggle v (n + f)).drop n = toggle (v.drop n) f := by
  apply List.ext_getElem?
  intro j
  simp only [toggle, List.getElem?_modify, List.getElem?_drop]
  simp

theorem drop_toggle_lt (v : BVec) (n f : Nat) (h : f < n) : (toggle v f).drop n = v.drop n := by
  apply List.ext_getElem?
  intro j
  simp only [toggle, List.getElem?_modify, List.getElem?_drop]
  have : ¬ (f = n + j) := by omega
  simp [this]

theorem take_toggle_add (v : BVec) (n f : Nat) : (toggle v (n + f)).take n = v.take n := by
  apply List.ext_getElem?
  intro j
  simp only [toggle, List.getElem?_modify, List.getElem?_take]
  split
  · have : ¬ (n + f = j) := by omega
    simp [this]
  · rfl

theorem toggle_length (v : BVec) (i : Nat) : (toggle v i).length = v.length := by
  simp [toggle]

theorem xHalf_eq_take (v : BVec) (n : Nat) (h : v.length = 2 * n) : xHalf v = v.take n := by
  unfold xHalf; rw [h]; congr 1; omega

theorem zHalf_eq_drop (v : BVec) (n : Nat) (h : v.length = 2 * n) : zHalf v = v.drop n := by
  unfold zHalf; rw [h]; congr 1; omega

/-! ### X-like and Z-like maps -/

/-- `g` keeps the length, leaves the Z half alone and acts on the X half by a map of that half only -/
def XLike (n : Nat) (g : BVec → BVec) : Prop :=
  ∃ h : BVec → BVec, ∀ v : BVec, v.length = 2 * n →
    (g v).length = 2 * n ∧ xHalf (g v) = h (xHalf v) ∧ zHalf (g v) = zHalf v

def ZLike (n : Nat) (g : BVec → BVec) : Prop :=
  ∃ h : BVec → BVec, ∀ v : BVec, v.length = 2 * n →
    (g v).length = 2 * n ∧ zHalf (g v) = h (zHalf v) ∧ xHalf (g v) = xHalf v

theorem XLike.id (n : Nat) : XLike n (fun v => v) := ⟨fun x => x, fun _ hv => ⟨hv, rfl, rfl⟩⟩
theorem ZLike.id (n : Nat) : ZLike n (fun v => v) := ⟨fun x => x, fun _ hv => ⟨hv, rfl, rfl⟩⟩

theorem XLike.comp {n : Nat} {g1 g2 : BVec → BVec} (h1 : XLike n g1) (h2 : XLike n g2) :
    XLike n (fun v => g2 (g1 v)) := by
  obtain ⟨a1, p1⟩ := h1; obtain ⟨a2, p2⟩ := h2
  refine ⟨fun x => a2 (a1 x), fun v hv => ?_⟩
  obtain ⟨l1, x1, z1⟩ := p1 v hv
  obtain ⟨l2, x2, z2⟩ := p2 (g1 v) l1
  exact ⟨l2, by rw [x2, x1], by rw [z2, z1]⟩

theorem ZLike.comp {n : Nat} {g1 g2 : BVec → BVec} (h1 : ZLike n g1) (h2 : ZLike n g2) :
    ZLike n (fun v => g2 (g1 v)) := by
  obtain ⟨a1, p1⟩ := h1; obtain ⟨a2, p2⟩ := h2
  refine ⟨fun x => a2 (a1 x), fun v hv => ?_⟩
  obtain ⟨l1, x1, z1⟩ := p1 v hv
  obtain ⟨l2, x2, z2⟩ := p2 (g1 v) l1
  exact ⟨l2, by rw [x2, x1], by rw [z2, z1]⟩

theorem XLike.applyOp (n f : Nat) (hf : f < n) : XLike n (fun v => applyOp n P1.X v f) := by
  refine ⟨fun x => toggle x f, fun v hv => ?_⟩
  have e : Qec.applyOp n P1.X v f = toggle v f := by simp [Qec.applyOp, P1.xBit, P1.zBit]
  have hl : (toggle v f).length = 2 * n := by rw [toggle_length, hv]
  simp only [e]
  refine ⟨hl, ?_, ?_⟩
  · rw [xHalf_eq_take _ n hl, xHalf_eq_take _ n hv, take_toggle]
  · rw [zHalf_eq_drop _ n hl, zHalf_eq_drop _ n hv, drop_toggle_lt _ _ _ hf]

theorem ZLike.applyOp (n f : Nat) : ZLike n (fun v => applyOp n P1.Z v f) := by
  refine ⟨fun x => toggle x f, fun v hv => ?_⟩
  have e : Qec.applyOp n P1.Z v f = toggle v (n + f) := by simp [Qec.applyOp, P1.xBit, P1.zBit]
  have hl : (toggle v (n + f)).length = 2 * n := by rw [toggle_length, hv]
  simp only [e]
  refine ⟨hl, ?_, ?_⟩
  · rw [zHalf_eq_drop _ n hl, zHalf_eq_drop _ n hv, drop_toggle_add]
  · rw [xHalf_eq_take _ n hl, xHalf_eq_take _ n hv, take_toggle_add]

/-- a left fold of X-like steps is X-like -/
theorem XLike.foldl {α} (n : Nat) (step : BVec → α → BVec) (l : List α)
    (h : ∀ a ∈ l, XLike n (fun v => step v a)) : XLike n (fun v => l.foldl step v) := by
  induction l with
  | nil => exact XLike.id n
  | cons a l ih =>
    simp only [List.foldl_cons]
    exact XLike.comp (h a (by simp)) (ih (fun b hb => h b (by simp [hb])))

theorem ZLike.foldl {α} (n : Nat) (step : BVec → α → BVec) (l : List α)
    (h : ∀ a ∈ l, ZLike n (fun v => step v a)) : ZLike n (fun v => l.foldl step v) := by
  induction l with
  | nil => exact ZLike.id n
  | cons a l ih =>
    simp only [List.foldl_cons]
    exact ZLike.comp (h a (by simp)) (ih (fun b hb => h b (by simp [hb])))

/-! ### steps that may fail independently of the vector (the `IndexError` of `translation`) -/

/-- `F` either fails for every input or is an X-like total map -/
def StepX (n : Nat) {ε} (F : BVec → Except ε BVec) : Prop :=
  (∃ err, ∀ v, F v = .error err) ∨ (∃ g, XLike n g ∧ ∀ v, F v = .ok (g v))

def StepZ (n : Nat) {ε} (F : BVec → Except ε BVec) : Prop :=
  (∃ err, ∀ v, F v = .error err) ∨ (∃ g, ZLike n g ∧ ∀ v, F v = .ok (g v))

theorem StepX.foldlM {α ε} (n : Nat) (step : BVec → α → Except ε BVec) (l : List α)
    (h : ∀ a ∈ l, StepX n (fun v => step v a)) : StepX n (fun v => l.foldlM step v) := by
  induction l with
  | nil => exact Or.inr ⟨fun v => v, XLike.id n, fun v => rfl⟩
  | cons a l ih =>
    have ih' := ih (fun b hb => h b (by simp [hb]))
    rcases h a (by simp) with ⟨err, he⟩ | ⟨g, hg, hgo⟩
    · exact Or.inl ⟨err, fun v => by simp [List.foldlM_cons, he v, bind, Except.bind]⟩
    · rcases ih' with ⟨err, he⟩ | ⟨g2, hg2, hgo2⟩
      · exact Or.inl ⟨err, fun v => by simp [List.foldlM_cons, hgo v, bind, Except.bind, he]⟩
      · exact Or.inr ⟨fun v => g2 (g v), XLike.comp hg hg2,
          fun v => by simp [List.foldlM_cons, hgo v, bind, Except.bind, hgo2]⟩

theorem StepZ.foldlM {α ε} (n : Nat) (step : BVec → α → Except ε BVec) (l : List α)
    (h : ∀ a ∈ l, StepZ n (fun v => step v a)) : StepZ n (fun v => l.foldlM step v) := by
  induction l with
  | nil => exact Or.inr ⟨fun v => v, ZLike.id n, fun v => rfl⟩
  | cons a l ih =>
    have ih' := ih (fun b hb => h b (by simp [hb]))
    rcases h a (by simp) with ⟨err, he⟩ | ⟨g, hg, hgo⟩
    · exact Or.inl ⟨err, fun v => by simp [List.foldlM_cons, he v, bind, Except.bind]⟩
    · rcases ih' with ⟨err, he⟩ | ⟨g2, hg2, hgo2⟩
      · exact Or.inl ⟨err, fun v => by simp [List.foldlM_cons, hgo v, bind, Except.bind, he]⟩
      · exact Or.inr ⟨fun v => g2 (g v), ZLike.comp hg hg2,
          fun v => by simp [List.foldlM_cons, hgo v, bind, Except.bind, hgo2]⟩

/-- **the split**, abstractly: run an X-type program `FX` and then a Z-type program `FZ` from `v0`;
    the X half of the result is the X half of running `FX` alone, the Z half that of `FZ` alone -/
theorem split_of_steps {ε} (n : Nat) (FX FZ : BVec → Except ε BVec) (hX : StepX n FX) (hZ : StepZ n FZ)
    (v0 v : BVec) (h0 : v0.length = 2 * n) (h : (FX v0 >>= FZ) = .ok v) :
    ∃ vp vd, FX v0 = .ok vp ∧ FZ v0 = .ok vd ∧
      xHalf v = xHalf vp ∧ zHalf v = zHalf vd ∧ zHalf vp = zHalf v0 ∧ xHalf vd = xHalf v0 := by
  rcases hX with ⟨err, he⟩ | ⟨gx, ⟨ax, px⟩, hgx⟩
  · simp [he v0, bind, Except.bind] at h
  · rcases hZ with ⟨err, he⟩ | ⟨gz, ⟨az, pz⟩, hgz⟩
    · simp [hgx v0, he, bind, Except.bind] at h
    · simp only [hgx v0, hgz, bind, Except.bind, Except.ok.injEq] at h
      obtain ⟨l1, x1, z1⟩ := px v0 h0
      obtain ⟨l2, z2, x2⟩ := pz (gx v0) l1
      obtain ⟨l3, z3, x3⟩ := pz v0 h0
      refine ⟨gx v0, gz v0, hgx v0, hgz v0, ?_, ?_, z1, x3⟩
      · rw [← h, x2]
      · rw [← h, z2, z1, z3]

/-! ### planar -/

section planar
open Qec.Planar

/-- the C07 index fact used here: in-bounds sites are numbered below `n` -/
def PlanarFlattenBound (R C : Int) : Prop :=
  ∀ r c : Int, inBounds R C r c = true → isSite r c = true →
    (flatten R C r c).toNat < (nQubits R C).toNat

theorem planar_site_X (R C : Int) (hf : PlanarFlattenBound R C) (rc : Int × Int)
    (hs : isSite rc.1 rc.2 = true) : XLike (nQubits R C).toNat (fun v => site R C P1.X v rc) := by
  unfold site
  by_cases hb : inBounds R C rc.1 rc.2 = true
  · simp only [hb, if_true]
    exact XLike.applyOp _ _ (hf rc.1 rc.2 hb hs)
  · simp only [hb]
    exact XLike.id _

theorem planar_site_Z (R C : Int) (rc : Int × Int) :
    ZLike (nQubits R C).toNat (fun v => site R C P1.Z v rc) := by
  unfold site
  by_cases hb : inBounds R C rc.1 rc.2 = true
  · simp only [hb, if_true]
    exact ZLike.applyOp _ _
  · simp only [hb]
    exact ZLike.id _

/-- every index visited by a path from a plaquette is a site index -/
theorem planar_pathSites_isSite (a : Int × Int) (rs cs : Int) (ha : isPlaquette a.1 a.2 = true)
    (rc : Int × Int) (h : rc ∈ pathSites a rs cs) : isSite rc.1 rc.2 = true := by
  have ha' : (a.1 + a.2) % 2 = 1 := by simpa [isPlaquette] using ha
  simp only [pathSites, List.mem_append] at h
  simp only [isSite, isPlaquette, Bool.not_eq_true', beq_eq_false_iff_ne, ne_eq]
  rcases h with h | h
  · split at h <;>
    · obtain ⟨i, _, rfl⟩ := List.mem_map.mp h
      simp only
      omega
  · split at h <;>
    · obtain ⟨i, _, rfl⟩ := List.mem_map.mp h
      simp only
      omega

theorem planar_path_step (R C : Int) (hf : PlanarFlattenBound R C) (ab : (Int × Int) × (Int × Int)) :
    (isPrimal ab.1.1 ab.1.2 = true → StepX (nQubits R C).toNat (fun v => path R C v ab.1 ab.2)) ∧
    (isPrimal ab.1.1 ab.1.2 = false → StepZ (nQubits R C).toNat (fun v => path R C v ab.1 ab.2)) := by
  constructor
  · intro hp
    unfold path
    cases ht : translation R C ab.1 ab.2 with
    | error e => exact Or.inl ⟨e, fun v => rfl⟩
    | ok t =>
      obtain ⟨rs, cs⟩ := t
      have hpl : isPlaquette ab.1.1 ab.1.2 = true := by
        unfold translation at ht
        by_cases h : isPlaquette ab.1.1 ab.1.2 = true
        · exact h
        · simp [h] at ht
      refine Or.inr ⟨fun v => sites R C P1.X v (pathSites ab.1 rs cs), ?_, fun v => by simp [hp]⟩
      unfold sites
      exact XLike.foldl _ _ _ (fun rc hrc =>
        planar_site_X R C hf rc (planar_pathSites_isSite ab.1 rs cs hpl rc hrc))
  · intro hp
    unfold path
    cases ht : translation R C ab.1 ab.2 with
    | error e => exact Or.inl ⟨e, fun v => rfl⟩
    | ok t =>
      obtain ⟨rs, cs⟩ := t
      refine Or.inr ⟨fun v => sites R C P1.Z v (pathSites ab.1 rs cs), ?_, fun v => by simp [hp]⟩
      unfold sites
      exact ZLike.foldl _ _ _ (fun rc _ => planar_site_Z R C rc)

end planar

/-! ### toric -/

section toric
open Qec.Toric

/-- the C07 index fact used here: every (normalised) index is numbered below `n` -/
def ToricFlattenBound (R C : Int) : Prop :=
  ∀ i : Idx, (Toric.flatten R C i).toNat < (Toric.nQubits R C).toNat

theorem toric_path_step (R C : Int) (hf : ToricFlattenBound R C) (ab : Idx × Idx) :
    ((norm R C ab.1).1 = primalIndex →
      StepX (Toric.nQubits R C).toNat (fun v => Toric.path R C v ab.1 ab.2)) ∧
    ((norm R C ab.1).1 ≠ primalIndex →
      StepZ (Toric.nQubits R C).toNat (fun v => Toric.path R C v ab.1 ab.2)) := by
  constructor
  · intro hp
    unfold Toric.path
    cases ht : Toric.translation R C ab.1 ab.2 with
    | error e => exact Or.inl ⟨e, fun v => rfl⟩
    | ok t =>
      obtain ⟨rs, cs⟩ := t
      refine Or.inr ⟨fun v => Toric.sites R C P1.X v (Toric.pathSites R C ab.1 rs cs), ?_,
        fun v => by simp [pathOp, hp]⟩
      unfold Toric.sites
      exact XLike.foldl _ _ _ (fun i _ => by
        unfold Toric.site
        exact XLike.applyOp _ _ (hf i))
  · intro hp
    unfold Toric.path
    cases ht : Toric.translation R C ab.1 ab.2 with
    | error e => exact Or.inl ⟨e, fun v => rfl⟩
    | ok t =>
      obtain ⟨rs, cs⟩ := t
      refine Or.inr ⟨fun v => Toric.sites R C P1.Z v (Toric.pathSites R C ab.1 rs cs), ?_,
        fun v => by simp [pathOp, hp]⟩
      unfold Toric.sites
      exact ZLike.foldl _ _ _ (fun i _ => by
        unfold Toric.site
        exact ZLike.applyOp _ _)

end toric

end Qec.MwpmSplit
