/-
  Helper lemmas for the planar Y decoder, part 11: the sample recovery is Y-only for every lattice, and the two cosets
  whose probabilities `decode` compares contain every Y-only operator with the given syndrome.
-/
import QecVerif.Lemmas.PlanarYRestCount
namespace Qec.PlanarYL
open Qec Qec.Planar Qec.Symp Qec.PlanarCode Qec.PlanarY

/-! ### every value of the residual look-up table is Y-only -/

theorem addOne_pred (P : BVec → Prop) (S : List BVec) (skip : Bool) (m : List (BVec × BVec)) (o : BVec)
    (hm : ∀ e ∈ m, P e.2) (ho : P o) : ∀ e ∈ addOne S skip m o, P e.2 := by
  unfold addOne
  split
  · exact hm
  · split
    · exact hm
    · intro e he
      rcases List.mem_append.mp he with he | he
      · exact hm e he
      · simp only [List.mem_singleton] at he
        subst he
        exact ho

theorem addEntries_pred (P : BVec → Prop) (S : List BVec) (skip : Bool) (ops : List BVec) (m : List (BVec × BVec))
    (hm : ∀ e ∈ m, P e.2) (ho : ∀ o ∈ ops, P o) : ∀ e ∈ addEntries S m ops skip, P e.2 := by
  rw [addEntries_eq]
  induction ops generalizing m with
  | nil => exact hm
  | cons o ops ih =>
    simp only [List.foldl_cons]
    exact ih _ (addOne_pred P S skip m o hm (ho o List.mem_cons_self)) (fun o' ho' => ho o' (List.mem_cons_of_mem _ ho'))

theorem xorSet_ysym (n : Nat) (set : List BVec) (h : ∀ v ∈ set, YSym n v) : YSym n (xorSet (2 * n) set) := by
  induction set with
  | nil => exact ysym_zeros n
  | cons v set ih =>
    have hlen : AllLen (2 * n) set := fun r hr => (h r (List.mem_cons_of_mem _ hr)).1
    rw [xorSet_cons _ v set (h v List.mem_cons_self).1 hlen]
    exact ysym_xorV n _ _ (h v List.mem_cons_self) (ih (fun r hr => h r (List.mem_cons_of_mem _ hr)))

theorem boundaryOps_ysym (R C : Int) (hR : 2 ≤ R) (hC : 2 ≤ C) : ∀ o ∈ boundaryOps R C, YSym (nq R C) o := by
  intro o ho
  by_cases h : R < C
  · rw [boundaryOps_right R C h] at ho
    rcases List.mem_map.mp ho with ⟨i, _, rfl⟩
    exact bopR_ysym R C hR hC i
  · rw [boundaryOps_down R C h] at ho
    rcases List.mem_map.mp ho with ⟨i, _, rfl⟩
    exact bop_ysym R C hR hC i

theorem residualMap_ysym (R C : Int) (hR : 2 ≤ R) (hC : 2 ≤ C) : ∀ e ∈ residualMap R C, YSym (nq R C) e.2 := by
  have h1 : ∀ e ∈ stage1 R C, YSym (nq R C) e.2 :=
    addEntries_pred _ _ _ _ _ (fun e he => by simp at he) (boundaryOps_ysym R C hR hC)
  have h2 : ∀ e ∈ stage2 R C, YSym (nq R C) e.2 := by
    apply addEntries_pred _ _ _ _ _ h1
    intro o ho
    rcases List.mem_map.mp ho with ⟨sub, hsub, rfl⟩
    apply xorSet_ysym
    intro v hv
    have := (sublist_of_mem_allCombinations _ _ hsub).subset hv
    rcases List.mem_map.mp this with ⟨e, he, rfl⟩
    exact h1 e he
  rw [residualMap_eq]
  apply addEntries_pred _ _ _ _ _ h2
  intro o ho
  simp only [List.mem_singleton] at ho
  subst ho
  rw [identity_eq]
  exact ysym_zeros _

/-- **`_sample_recovery` is Y-only** and reproduces the syndrome, for every lattice and every Y-only error -/
theorem sample_ysym (R C : Int) (hR : 2 ≤ R) (hC : 2 ≤ C) (e : BVec) (he : YSym (nq R C) e) :
    ∃ r, sampleRecovery R C (syndrome R C e) = .ok r ∧ YSym (nq R C) r ∧ syndrome R C r = syndrome R C e := by
  cases hc : coprime R C with
  | true =>
    rcases sample_coprime R C hR hC hc _ (syndrome_length R C e) with ⟨r, hr, _, hy, hsyn, _⟩
    exact ⟨r, hr, hy, hsyn⟩
  | false =>
    rcases sample_syndrome_nc R C hR hC hc e he with ⟨r, hr, _, hsyn⟩
    refine ⟨r, hr, ?_, hsyn⟩
    have hps := partialSum_ysym R C hR hC e
    unfold sampleRecovery sampleRecoveryWith at hr
    rw [combinedPartial_nc R C _ hc] at hr
    simp only at hr
    split at hr
    · have := Except.ok.inj hr
      subst this
      apply ysym_xorV _ _ _ hps
      unfold residualRecoveryIn
      cases hlk : lookup (residualMap R C)
          (xorV (syndrome R C e) (syndrome R C (partialSum R C (syndrome R C e)))) with
      | none => rw [Option.getD_none, identity_eq]; exact ysym_zeros _
      | some v =>
        rcases lookup_some _ _ _ hlk with ⟨en, hen, _, hv⟩
        rw [Option.getD_some, ← hv]
        exact residualMap_ysym R C hR hC en hen
    · have := Except.ok.inj hr
      subst this
      exact hps

/-! ### the two cosets of `decode` are exhaustive -/

theorem bit_of_syndrome_eq (R C : Int) (a b : BVec) (h : syndrome R C a = syndrome R C b) (q : Int × Int)
    (hq : RealP R C q) : bsp a (stabOp R C q) = bsp b (stabOp R C q) := by
  rw [syndrome_eq_map, syndrome_eq_map] at h
  exact (List.map_inj_left.mp h) q ((mem_plaquetteIndices R C q).mpr hq)

/-- **the cosets of `decode` are exhaustive**: with `r1` the sample recovery, `l` the all-Y logical and `ys` the all-Y
    stabilizers, every Y-only operator with the syndrome of the error is `g · r1` or `g · r1 · l` for some `g ∈ ys` -/
theorem cosets_exhaustive (R C : Int) (hR : 2 ≤ R) (hC : 2 ≤ C) (e : BVec) (he : YSym (nq R C) e) :
    ∃ r1 l ys, sampleRecovery R C (syndrome R C e) = .ok r1 ∧ yLogical R C = .ok l ∧ yStabilizers R C = .ok ys ∧
      (∀ g ∈ ys, YSym (nq R C) (xorV g r1) ∧ syndrome R C (xorV g r1) = syndrome R C e ∧
        YSym (nq R C) (xorV g (xorV r1 l)) ∧ syndrome R C (xorV g (xorV r1 l)) = syndrome R C e) ∧
      ∀ e', YSym (nq R C) e' → syndrome R C e' = syndrome R C e →
        e' ∈ ys.map (fun g => xorV g r1) ∨ e' ∈ ys.map (fun g => xorV g (xorV r1 l)) := by
  rcases sample_ysym R C hR hC e he with ⟨r1, hr1, hy1, hs1⟩
  rcases yLogical_spec R C hR hC with ⟨l, hl, hly, hlsyn, _⟩
  rcases yStabilizers_spec R C hR hC with ⟨ys, hys, _, hall⟩
  have zero_syn : ∀ v, YSym (nq R C) v → (∀ q, RealP R C q → bsp (stabOp R C q) v = false) → ∀ w, YSym (nq R C) w →
      syndrome R C (xorV v w) = syndrome R C w := by
    intro v hv hvz w hw
    rw [syndrome_eq_map, syndrome_eq_map]
    apply List.map_congr_left
    intro q hq
    have hq' := (mem_plaquetteIndices R C q).mp hq
    rw [bsp_xorV_left _ _ _ (by rw [hv.1, hw.1]),
      bsp_comm v _ (by rw [hv.1, stabOp_length]) (by rw [hv.1]; omega), hvz q hq', Bool.false_xor]
  have hy2 : YSym (nq R C) (xorV r1 l) := ysym_xorV _ _ _ hy1 hly
  have hs2 : syndrome R C (xorV r1 l) = syndrome R C e := by
    rw [xorV_comm, zero_syn l hly hlsyn r1 hy1, hs1]
  refine ⟨r1, l, ys, hr1, hl, hys, ?_, ?_⟩
  · intro g hg
    have hgg := hall g hg
    exact ⟨ysym_xorV _ _ _ hgg.1 hy1, by rw [zero_syn g hgg.1 hgg.2.1 r1 hy1, hs1],
      ysym_xorV _ _ _ hgg.1 hy2, by rw [zero_syn g hgg.1 hgg.2.1 _ hy2, hs2]⟩
  · intro e' he' hse'
    have hin : InY R C (xorV e' r1) := by
      refine ⟨ysym_xorV _ _ _ he' hy1, ?_⟩
      intro q hq
      have hlen : (xorV e' r1).length = 2 * nq R C := (ysym_xorV _ _ _ he' hy1).1
      rw [bsp_comm _ _ (by rw [hlen, stabOp_length]) (by rw [stabOp_length]; omega),
        bsp_xorV_left _ _ _ (by rw [he'.1, hy1.1]),
        bit_of_syndrome_eq R C e' r1 (by rw [hse', hs1]) q hq, Bool.xor_self]
    rcases ycentraliser_complete R C hR hC _ hin with ⟨ys', l', hys', hl', h⟩
    have e1 : ys' = ys := Except.ok.inj (hys'.symm.trans hys)
    have e2 : l' = l := Except.ok.inj (hl'.symm.trans hl)
    subst e1 e2
    have back : xorV (xorV e' r1) r1 = e' := by
      rw [xorV_assoc, xorV_self, xorV_zeros_right _ _ (by rw [he'.1, hy1.1])]
    rcases h with h | ⟨s, hs, hsl⟩
    · left
      exact List.mem_map.mpr ⟨_, h, back⟩
    · right
      refine List.mem_map.mpr ⟨s, hs, ?_⟩
      show xorV s (xorV r1 l') = e'
      rw [xorV_comm r1 l', ← xorV_assoc, ← hsl, back]

end Qec.PlanarYL
