/-
  Helpers for `Props/C17/MeasureMore.lean` (C17, distributional statements, second round).

  * `abs_prod_sub_prod_le` — telescoping bound `|∏ a_i − ∏ b_i| ≤ Σ |a_i − b_i|` for
    `a_i, b_i ∈ [0,1]`.
  * `gridCount_le`, `gridFreq_mem` — a grid frequency is a number in `[0,1]`.
  * `sum_abs_prod_sub_prod_le` — the ℓ¹ (total-variation) version for product laws on a finite
    alphabet: `Σ_e |∏ a (e i) − ∏ b (e i)| ≤ n · Σ_x |a x − b x|` for probability vectors `a`, `b`.
  * `infinitePi_map_comp_injective` — the law of finitely many DISTINCT coordinates of an infinite
    i.i.d. stream is the finite product law.

  Only used by `Props/C17/MeasureMore.lean`; never linked into the driver.
-/
import QecVerif.Lemmas.StreamMeasure
import Mathlib.Algebra.Order.BigOperators.Ring.Finset
import Mathlib.Probability.ProductMeasure

namespace Qec.C17More
open Qec Qec.Stream Qec.StreamMeasure MeasureTheory Finset

/-! ### telescoping -/

/-- `|∏ a_i − ∏ b_i| ≤ Σ |a_i − b_i|` for numbers in `[0,1]` -/
theorem abs_prod_sub_prod_le {ι : Type*} (s : Finset ι) (a b : ι → ℝ)
    (ha : ∀ i ∈ s, 0 ≤ a i ∧ a i ≤ 1) (hb : ∀ i ∈ s, 0 ≤ b i ∧ b i ≤ 1) :
    |∏ i ∈ s, a i - ∏ i ∈ s, b i| ≤ ∑ i ∈ s, |a i - b i| := by
  classical
  induction s using Finset.induction_on with
  | empty => simp
  | insert j s hj ih =>
      rw [Finset.prod_insert hj, Finset.prod_insert hj, Finset.sum_insert hj]
      have ha' : ∀ i ∈ s, 0 ≤ a i ∧ a i ≤ 1 := fun i hi => ha i (Finset.mem_insert_of_mem hi)
      have hb' : ∀ i ∈ s, 0 ≤ b i ∧ b i ≤ 1 := fun i hi => hb i (Finset.mem_insert_of_mem hi)
      have ih' := ih ha' hb'
      obtain ⟨a0, a1⟩ := ha j (Finset.mem_insert_self j s)
      have hB0 : 0 ≤ ∏ i ∈ s, b i := Finset.prod_nonneg fun i hi => (hb' i hi).1
      have hB1 : ∏ i ∈ s, b i ≤ 1 :=
        Finset.prod_le_one (fun i hi => (hb' i hi).1) fun i hi => (hb' i hi).2
      have e : a j * ∏ i ∈ s, a i - b j * ∏ i ∈ s, b i
          = a j * (∏ i ∈ s, a i - ∏ i ∈ s, b i) + (a j - b j) * ∏ i ∈ s, b i := by ring
      rw [e]
      calc |a j * (∏ i ∈ s, a i - ∏ i ∈ s, b i) + (a j - b j) * ∏ i ∈ s, b i|
          ≤ |a j * (∏ i ∈ s, a i - ∏ i ∈ s, b i)| + |(a j - b j) * ∏ i ∈ s, b i| := abs_add_le _ _
        _ = a j * |∏ i ∈ s, a i - ∏ i ∈ s, b i| + |a j - b j| * ∏ i ∈ s, b i := by
            rw [abs_mul, abs_mul, abs_of_nonneg a0, abs_of_nonneg hB0]
        _ ≤ 1 * |∏ i ∈ s, a i - ∏ i ∈ s, b i| + |a j - b j| * 1 := by
            gcongr
        _ ≤ |a j - b j| + ∑ i ∈ s, |a i - b i| := by linarith

/-! ### grid frequencies are numbers in `[0,1]` -/

theorem gridCount_le (N : ℕ) (A : Set ℝ) : gridCount N A ≤ N := by
  classical
  unfold gridCount
  calc _ ≤ (Finset.univ : Finset (Fin N)).card := Finset.card_filter_le _ _
    _ = N := by simp

theorem gridFreq_mem (N : ℕ) (hN : 0 < N) (A : Set ℝ) :
    0 ≤ (gridCount N A : ℝ) / N ∧ (gridCount N A : ℝ) / N ≤ 1 := by
  have hNr : (0 : ℝ) < N := by exact_mod_cast hN
  refine ⟨by positivity, ?_⟩
  rw [div_le_one hNr]
  exact_mod_cast gridCount_le N A

/-! ### the infinite stream of independent uniforms -/

/-- the law of an infinite stream of independent uniforms on `[0,1)`: the infinite product measure
    (`MeasureTheory.Measure.infinitePi`) of copies of `uniform01` on `ℕ → ℝ` -/
noncomputable def uniformStream : Measure (ℕ → ℝ) := Measure.infinitePi fun _ : ℕ => uniform01

instance : IsProbabilityMeasure uniformStream := by unfold uniformStream; infer_instance

/-- box formula on the stream: prescribing events on finitely many positions -/
theorem uniformStream_box (S : Finset ℕ) (A : ℕ → Set ℝ) (hA : ∀ i ∈ S, MeasurableSet (A i)) :
    uniformStream (Set.pi S A) = ∏ i ∈ S, uniform01 (A i) :=
  Measure.infinitePi_pi _ hA

/-- the law of finitely many DISTINCT positions of the stream is the finite product law: reading
    the stream at the positions `φ k` (`φ` injective) yields `ι` independent uniforms -/
theorem uniformStream_map_comp {ι : Type} [Fintype ι] (φ : ι → ℕ) (hφ : Function.Injective φ) :
    Measure.map (fun (s : ℕ → ℝ) (k : ι) => s (φ k)) uniformStream = uniformPi ι := by
  classical
  have hm : Measurable (fun (s : ℕ → ℝ) (k : ι) => s (φ k)) :=
    measurable_pi_lambda _ fun k => measurable_pi_apply _
  symm
  unfold uniformPi
  refine Measure.pi_eq fun A hA => ?_
  rw [Measure.map_apply hm (MeasurableSet.univ_pi hA)]
  let A' : ℕ → Set ℝ := fun j => if h : ∃ k, φ k = j then A h.choose else Set.univ
  have hA'φ : ∀ k, A' (φ k) = A k := by
    intro k
    have h : ∃ k', φ k' = φ k := ⟨k, rfl⟩
    simp only [A', dif_pos h]
    rw [hφ h.choose_spec]
  have hpre : (fun (s : ℕ → ℝ) (k : ι) => s (φ k)) ⁻¹' Set.pi Set.univ A
      = Set.pi (Finset.univ.image φ : Finset ℕ) A' := by
    ext s
    simp only [Set.mem_preimage, Set.mem_pi, Set.mem_univ, true_implies, Finset.coe_image,
      Finset.coe_univ, Set.image_univ, Set.mem_range]
    constructor
    · rintro h j ⟨k, rfl⟩; rw [hA'φ]; exact h k
    · intro h k; rw [← hA'φ]; exact h _ ⟨k, rfl⟩
  rw [hpre, uniformStream_box, Finset.prod_image fun a _ b _ h => hφ h]
  · exact Finset.prod_congr rfl fun k _ => by rw [hA'φ]
  · intro j hj
    obtain ⟨k, _, rfl⟩ := Finset.mem_image.mp hj
    rw [hA'φ]; exact hA k

/-- mixed-radix uniqueness: `a·L + k` with `k < L` determines `a` and `k` -/
theorem mul_add_inj {L a a' k k' : ℕ} (hk : k < L) (hk' : k' < L) (h : a * L + k = a' * L + k') :
    a = a' ∧ k = k' := by
  have hL : 0 < L := by omega
  have h1 : (a * L + k) / L = a := by
    rw [Nat.add_comm, Nat.add_mul_div_right _ _ hL, Nat.div_eq_of_lt hk, Nat.zero_add]
  have h2 : (a' * L + k') / L = a' := by
    rw [Nat.add_comm, Nat.add_mul_div_right _ _ hL, Nat.div_eq_of_lt hk', Nat.zero_add]
  have ha : a = a' := by rw [← h1, ← h2, h]
  subst ha
  exact ⟨rfl, by omega⟩

/-! ### ℓ¹ distance of product laws on a finite alphabet -/

/-- ℓ¹ (twice total-variation) telescoping for product laws: for probability vectors `a`, `b` on a
    finite alphabet, `Σ_e |∏ a (e i) − ∏ b (e i)| ≤ n · Σ_x |a x − b x|` -/
theorem sum_abs_prod_sub_prod_le {α : Type} [Fintype α] (a b : α → ℝ) (ha : ∀ x, 0 ≤ a x)
    (hb : ∀ x, 0 ≤ b x) (ha1 : ∑ x, a x = 1) (hb1 : ∑ x, b x = 1) (n : ℕ) :
    ∑ e : Fin n → α, |∏ i, a (e i) - ∏ i, b (e i)| ≤ n * ∑ x, |a x - b x| := by
  induction n with
  | zero => simp
  | succ n ih =>
      have hB : ∑ e : Fin n → α, ∏ i, b (e i) = 1 := by
        rw [← Fintype.sum_pow, hb1, one_pow]
      rw [← (Fin.consEquiv fun _ : Fin (n + 1) => α).sum_comp, Fintype.sum_prod_type]
      simp only [Fin.consEquiv_apply, Fin.prod_univ_succ, Fin.cons_zero, Fin.cons_succ]
      have hterm : ∀ (x : α) (e : Fin n → α),
          |a x * ∏ i, a (e i) - b x * ∏ i, b (e i)|
            ≤ a x * |∏ i, a (e i) - ∏ i, b (e i)| + |a x - b x| * ∏ i, b (e i) := by
        intro x e
        have hB0 : 0 ≤ ∏ i, b (e i) := Finset.prod_nonneg fun i _ => hb _
        have e1 : a x * ∏ i, a (e i) - b x * ∏ i, b (e i)
            = a x * (∏ i, a (e i) - ∏ i, b (e i)) + (a x - b x) * ∏ i, b (e i) := by ring
        rw [e1]
        refine (abs_add_le _ _).trans ?_
        rw [abs_mul, abs_mul, abs_of_nonneg (ha x), abs_of_nonneg hB0]
      calc ∑ x, ∑ e : Fin n → α, |a x * ∏ i, a (e i) - b x * ∏ i, b (e i)|
          ≤ ∑ x, ∑ e : Fin n → α,
              (a x * |∏ i, a (e i) - ∏ i, b (e i)| + |a x - b x| * ∏ i, b (e i)) :=
            Finset.sum_le_sum fun x _ => Finset.sum_le_sum fun e _ => hterm x e
        _ = (∑ x, a x) * (∑ e : Fin n → α, |∏ i, a (e i) - ∏ i, b (e i)|)
              + (∑ x, |a x - b x|) * ∑ e : Fin n → α, ∏ i, b (e i) := by
            simp only [Finset.sum_add_distrib, ← Finset.mul_sum, ← Finset.sum_mul]
        _ ≤ ((n + 1 : ℕ) : ℝ) * ∑ x, |a x - b x| := by
            rw [ha1, hB]; push_cast; linarith

/-- the cells of the letters partition the grid: the grid frequencies of the four letters are a
    probability vector, for ANY thresholds -/
theorem gridCount_cells_sum (N : ℕ) (cdf : List ℝ) :
    ∑ P : P1, gridCount N {u | pauliOfReal cdf u = P} = N := by
  classical
  have h := Finset.card_eq_sum_card_fiberwise
    (f := fun k : Fin N => pauliOfReal cdf (((k : ℕ) : ℝ) / N))
    (s := Finset.univ) (t := Finset.univ) (fun _ _ => Finset.mem_coe.mpr (Finset.mem_univ _))
  rw [Finset.card_univ, Fintype.card_fin] at h
  conv_rhs => rw [h]
  refine Finset.sum_congr rfl fun P _ => ?_
  unfold gridCount
  congr 1
  ext k
  simp

theorem card_P1 : (Finset.univ : Finset P1).card = 4 := by rw [P1_univ]; rfl

theorem sum_P1 (g : P1 → ℝ) : ∑ P, g P = g P1.I + g P1.X + g P1.Y + g P1.Z := by
  rw [P1_univ, Finset.sum_insert (by decide), Finset.sum_insert (by decide),
    Finset.sum_insert (by decide), Finset.sum_singleton]
  ring

open Classical in
/-- grid vs continuous law of a box: if every side `A i` has grid frequency within `1/N` of `p i`
    (`p i ∈ [0,1]`), the fraction of the grid points of `[0,1)^ι` in the box is within `|ι| / N` of
    `∏ p i` -/
theorem grid_box_error {ι : Type} [Fintype ι] [DecidableEq ι] (N : ℕ) (hN : 0 < N)
    (A : ι → Set ℝ) (p : ι → ℝ) (hp : ∀ i, 0 ≤ p i ∧ p i ≤ 1)
    (h : ∀ i, |(gridCount N (A i) : ℝ) / N - p i| < 1 / N) :
    |((Finset.univ.filter fun k : ι → Fin N => ∀ i, ((((k i : Fin N) : ℕ) : ℝ) / N) ∈ A i).card : ℝ)
        / (N : ℝ) ^ Fintype.card ι - ∏ i, p i| ≤ (Fintype.card ι : ℝ) / N := by
  rw [grid_box_count, Nat.cast_prod]
  have e : (∏ i, (gridCount N (A i) : ℝ)) / (N : ℝ) ^ Fintype.card ι
      = ∏ i, ((gridCount N (A i) : ℝ) / N) := by
    rw [Finset.prod_div_distrib, Finset.prod_const, Finset.card_univ]
  rw [e]
  refine (abs_prod_sub_prod_le Finset.univ _ _ (fun i _ => gridFreq_mem N hN _)
    (fun i _ => hp i)).trans ?_
  calc ∑ i, |(gridCount N (A i) : ℝ) / N - p i| ≤ ∑ _i : ι, (1 : ℝ) / N :=
        Finset.sum_le_sum fun i _ => (h i).le
    _ = (Fintype.card ι : ℝ) / N := by
        rw [Finset.sum_const, Finset.card_univ, nsmul_eq_mul]; ring

end Qec.C17More
