/-
  C10 — the shared bra / ket optimisation `_tn_contract_optimized` of the rotated MPS decoders
  (Model/PlanarRmpsTn.lean: `columnStack`, `partialTn`, `cosetValue`, `optimized`) is exact: helper lemmas for
  Props/C10/PlanarRmpsNetwork.lean.

  Route: a partial contraction only reads the columns it visits (`contract_congr`), so the bra / ket of `tns[0]` are
  the bra / ket of `tns[j]` when the two networks agree outside the column range `[left_stop, right_stop]`; the
  right-to-left contraction of `column_stack(bra, middle columns, ket)` is the C11 split-and-recombine tensor `splitT`
  of `tns[j]` (the last pairwise step pairs the bra with everything swept so far), hence its merged grid tensor.
-/
import QecVerif.Model.PlanarRmpsTn
import QecVerif.Lemmas.TensorPad
namespace Qec.OptContract
open Qec Qec.Tensor Qec.TensorAlg Qec.TensorBridge Qec.TensorModel Qec.TensorExact Qec.TensorPad Qec.PlanarRmpsTn

/-! ### a contraction reads only the columns of its range -/

theorem contract_congr (tn tn' : Net) (start stop step : Option Int) (hn : tn.ncols = tn'.ncols)
    (hcols : ∀ cr, colRange start stop step tn.ncols = .ok cr → ∀ c ∈ cr, tn.col c = tn'.col c) :
    contract tn none false start stop step none = contract tn' none false start stop step none := by
  rw [contract_unfold, contract_unfold, ← hn]
  simp only [maskOK, Bool.not_true, Bool.false_eq_true, if_false]
  cases hcr : colRange start stop step tn.ncols with
  | error e => rfl
  | ok cr =>
    have h := hcols cr hcr
    simp only [contractCols, Option.map_none, ← hn]
    rw [List.map_congr_left (fun c hc => by rw [h c hc] :
      ∀ c ∈ cr, (tn.col c, (none : Option (List Bool))) = (tn'.col c, none))]

/-! ### `np.column_stack` -/

theorem list_eq_range_map {α : Type} (l : List α) (d : α) : l = (List.range l.length).map fun r => l.getD r d := by
  apply List.ext_getElem
  · simp
  · intro i h1 h2
    simp [List.getD_eq_getElem?_getD, List.getElem?_eq_getElem h1]

theorem columnStack_col (n : ℕ) (cols : List MPS) (c : ℕ) (hc : c < cols.length)
    (hl : (cols.getD c []).length = n) : (columnStack n cols).col c = cols.getD c [] := by
  rw [list_eq_range_map (cols.getD c []) none, hl]
  unfold Net.col Net.site columnStack
  simp only
  apply List.map_congr_left
  intro r hr
  have hr := List.mem_range.mp hr
  have hlt : r * cols.length + c < n * cols.length := lt_mul_of _ _ _ _ hr hc
  rw [getD_ofFn _ _ _ hlt]
  simp only
  rw [decode_mod _ _ _ hc, decode_div _ _ _ hc]

/-! ### lists of columns -/

theorem down_append (s k j : ℕ) : down s (k + j) = down (s + k) j ++ down s k := by
  induction j with
  | zero => rfl
  | succ j ih =>
    show (s + (k + j)) :: down s (k + j) = ((s + k + j) :: down (s + k) j) ++ down s k
    rw [ih, Nat.add_assoc]; rfl

theorem down_shift (a s k : ℕ) : down (s + a) k = (down s k).map (· + a) := by
  induction k with
  | zero => rfl
  | succ k ih =>
    show (s + a + k) :: down (s + a) k = ((s + k) :: down s k).map (· + a)
    rw [ih, List.map_cons]; congr 1; omega

theorem mem_down (s k c : ℕ) : c ∈ down s k ↔ s ≤ c ∧ c < s + k := by
  rw [down_eq, List.mem_reverse, List.mem_range'_1]

theorem rlfull_snoc (acc acc' : Col ℤ) (cs : List (Col ℤ)) (d : Col ℤ)
    (he : (acc.1 :: acc.2).map (·.w) = (acc'.1 :: acc'.2).map (·.w)) (h : RLFull acc cs)
    (hd : FullMatch d (cs.foldl (fun _ c => c) acc')) : RLFull acc (cs ++ [d]) := by
  induction cs generalizing acc acc' with
  | nil =>
    refine ⟨?_, trivial⟩
    unfold FullMatch at hd ⊢
    rw [he]; exact hd
  | cons x xs ih =>
    obtain ⟨h1, h2⟩ := h
    exact ⟨h1, ih x x rfl h2 hd⟩

theorem forall2_append {α β : Type} {R : α → β → Prop} {l1 l3 : List α} {l2 l4 : List β}
    (h1 : List.Forall₂ R l1 l2) (h2 : List.Forall₂ R l3 l4) : List.Forall₂ R (l1 ++ l3) (l2 ++ l4) := by
  induction h1 with
  | nil => exact h2
  | cons h _ ih => exact List.Forall₂.cons h ih

/-! ### the function-level identity -/

/-- sweeping right to left over the ket columns, then the middle columns, then pairing with the bra is the C11
    split-and-recombine column -/
theorem rlSweep_three (g : ℕ → ℕ → F4 ℤ) (m a w b : ℕ) (L : Col ℤ) :
    rlSweep (rlSweep (gcol g m (a + w + 1 + b)) ((down (a + w + 1) b).map (gcol g m)))
        ((down (a + 1) w).map (gcol g m) ++ [L])
      = hzipCol L (rlSweep (gcol g m (a + w + 1 + b)) ((down (a + 1) (w + b)).map (gcol g m))) := by
  unfold rlSweep
  rw [List.foldl_append, List.foldl_cons, List.foldl_nil, ← List.foldl_append, ← List.map_append,
    down_append (a + 1) w b, show a + 1 + w = a + w + 1 by omega]

/-! ### one coset of `_tn_contract_optimized`, bra and ket taken from the same network -/

theorem cosetValue_self (tn : Net) (m a w b n : ℕ) (hn : n = a + w + 1 + b) (hc : Compat tn m n)
    (hp : PaddedRows tn) (bra ket : MPS)
    (hbra : contract tn none false none (some ((a + 1 : ℕ) : ℤ)) none none = .ok (.part (some bra) 1))
    (hket : contract tn none false (some (-1)) (some ((a + w : ℕ) : ℤ)) (some (-1)) none
      = .ok (.part (some ket) 1)) :
    cosetValue (a + 1) (a + w) none false bra ket 1 1 none tn = .ok (scalar (gridT (netF tn) m n)) := by
  subst hn
  have hn1 : a + w + 1 + b = a + 1 + (w + b) := by omega
  have hc1 : Compat tn m (a + 1 + (w + b)) := hn1 ▸ hc
  have hok := hc.ok
  have hok1 := hc1.ok
  obtain ⟨hdn, hde, hds, hdw⟩ := gridT_dims hc
  -- the shared partial contractions
  obtain ⟨lm, hl, hlr, hlp⟩ := contract_part_lr' tn m _ hc a (by omega)
  obtain ⟨rm, hr, hrr, hrp⟩ := contract_part_rl' tn m (a + w) b hc
  rw [show (((a + w + 1 : ℕ) : ℤ) - 1) = ((a + w : ℕ) : ℤ) by push_cast; omega] at hr
  obtain rfl : lm = bra := by
    have := hl.symm.trans hbra
    simpa using this
  obtain rfl : rm = ket := by
    have := hr.symm.trans hket
    simpa using this
  have hlen_l : lm.length = tn.nrows := by
    have := congrArg List.length hlp; simpa using this
  have hlen_r : rm.length = tn.nrows := by
    have := congrArg List.length hrp; simpa using this
  -- names
  set G := gcol (netF tn) m with hG
  set L := lrSweep (G 0) ((List.range' 1 a).map G) with hL
  set K := rlSweep (G (a + w + 1 + b)) ((down (a + w + 1) b).map G) with hK
  -- bond facts
  have eL := lrSweep_e_full _ (G 0) _ rfl (by simpa using lrfull_grid hok a 0 (by omega))
  have e1 := foldl_last_up G 0 a
  simp only [Nat.zero_add] at e1
  rw [e1] at eL
  have eK := rlSweep_w_full _ (G (a + w + 1 + b)) _ rfl (rlfull_grid hok b (a + w + 1) (le_refl _))
  rw [foldl_last_down G (a + w + 1) b] at eK
  have hfull : RLFull K ((down (a + 1) w).map G ++ [L]) := by
    have h1 : RLFull (G (a + 1 + w)) ((down (a + 1) w).map G) := rlfull_grid hok w (a + 1) (by omega)
    rw [show a + 1 + w = a + w + 1 by omega] at h1
    refine rlfull_snoc K (G (a + w + 1)) _ L eK (rlfull_congr _ _ _ eK.symm h1) ?_
    have := foldl_last_down G (a + 1) w
    rw [show a + 1 + w = a + w + 1 by omega] at this
    rw [this]
    unfold FullMatch
    rw [eL]
    exact (lrfull_grid hok 1 a (by omega)).1
  -- the columns of the partially contracted network
  obtain ⟨cols, hcolsdef⟩ : ∃ cols, cols = lm :: ((List.range' (a + 1) w).map tn.col ++ [rm]) := ⟨_, rfl⟩
  obtain ⟨P, hPdef⟩ : ∃ P, P = columnStack tn.nrows cols := ⟨_, rfl⟩
  have hPeq : partialTn (a + 1) (a + w) lm rm tn = P := by
    unfold partialTn
    rw [show a + w + 1 - (a + 1) = w by omega, ← hcolsdef, hPdef]
  have hcolsLen : cols.length = w + 2 := by
    rw [hcolsdef]
    simp only [List.length_cons, List.length_append, List.length_map, List.length_range', List.length_nil]
  have hPn : P.ncols = w + 2 := by rw [hPdef]; exact hcolsLen
  have hget0 : cols.getD 0 [] = lm := by rw [hcolsdef]; rfl
  have hgetmid : ∀ c', c' < w → cols.getD (c' + 1) [] = tn.col (c' + 1 + a) := by
    intro c' hc'
    rw [hcolsdef]
    simp only [List.getD_eq_getElem?_getD, List.getElem?_cons_succ]
    rw [List.getElem?_append_left (by simp; omega)]
    simp only [List.getElem?_map, List.getElem?_range', hc', if_true, Option.map_some, Option.getD_some,
      Nat.one_mul]
    congr 1; omega
  have hgetlast : cols.getD (w + 1) [] = rm := by
    rw [hcolsdef]
    simp only [List.getD_eq_getElem?_getD, List.getElem?_cons_succ]
    rw [List.getElem?_append_right (by simp)]
    simp
  have hcol0 : P.col 0 = lm := by
    have := columnStack_col tn.nrows cols 0 (by rw [hcolsLen]; omega) (by rw [hget0]; exact hlen_l)
    rw [hget0, ← hPdef] at this
    exact this
  have hcolmid : ∀ c, 1 ≤ c → c ≤ w → P.col c = tn.col (c + a) := by
    intro c h1 h2
    obtain ⟨c', rfl⟩ : ∃ c', c = c' + 1 := ⟨c - 1, by omega⟩
    have := columnStack_col tn.nrows cols (c' + 1) (by rw [hcolsLen]; omega)
      (by rw [hgetmid c' (by omega)]; simp [Net.col])
    rw [hgetmid c' (by omega), ← hPdef] at this
    exact this
  have hcollast : P.col (w + 1) = rm := by
    have := columnStack_col tn.nrows cols (w + 1) (by rw [hcolsLen]; omega) (by rw [hgetlast]; exact hlen_r)
    rw [hgetlast, ← hPdef] at this
    exact this
  have hcols : (down 0 (w + 1)).map (fun c => (P.col c, (none : Option (List Bool))))
      = (down (a + 1) w).map (fun c => (tn.col c, (none : Option (List Bool)))) ++ [(lm, none)] := by
    have : down 0 (w + 1) = down 1 w ++ down 0 1 := by
      have := down_append 0 1 w; rw [show 1 + w = w + 1 by omega, Nat.zero_add] at this; exact this
    rw [this, List.map_append]
    congr 1
    · have hs := down_shift a 1 w
      rw [show 1 + a = a + 1 by omega] at hs
      rw [hs, List.map_map]
      apply List.map_congr_left
      intro c hc
      obtain ⟨h1, h2⟩ := (mem_down 1 w c).mp hc
      simp only [Function.comp]
      rw [hcolmid c h1 (by omega)]
    · show [(P.col (0 + 0), none)] = [(lm, none)]
      rw [hcol0]
  -- the sweep
  obtain ⟨res, hsw, hrep, hpres⟩ := sweep_rl_rep' true
    ((down (a + 1) w).map (fun c => (tn.col c, (none : Option (List Bool)))) ++ [(lm, none)])
    ((down (a + 1) w).map G ++ [L])
    (forall2_append (forall2_cols' tn m hc.nrows (down (a + 1) w)) (List.Forall₂.cons hlr List.Forall₂.nil))
    rm 1 K hrr hfull
  rw [rlSweep_three (netF tn) m a w b L] at hrep
  -- the ladder
  have hlrok := lrok_grid hok1 a 0 (by omega)
  have hrlok := rlok_grid hok1 (w + b) (a + 1) (le_refl _)
  simp only [Nat.zero_add] at hlrok
  have hLok : ColOK L := lrSweep_ok _ _ (gcol_ok hok1 0 (by omega)) hlrok
  have hRok := (rlSweep_w_ok _ (gcol (netF tn) m (a + 1 + (w + b))) _ rfl
    (gcol_ok hok1 (a + 1 + (w + b)) (le_refl _)) hrlok).2
  have eR := rlSweep_w_full _ (gcol (netF tn) m (a + 1 + (w + b))) _ rfl
    (rlfull_grid hok1 (w + b) (a + 1) (le_refl _))
  rw [foldl_last_down (gcol (netF tn) m) (a + 1) (w + b)] at eR
  rw [← hn1] at hRok eR
  have hm : (L.1 :: L.2).map (·.e)
      = ((rlSweep (G (a + w + 1 + b)) ((down (a + 1) (w + b)).map G)).1 ::
        (rlSweep (G (a + w + 1 + b)) ((down (a + 1) (w + b)).map G)).2).map (·.w) := by
    rw [eL, eR]; exact (lrfull_grid hok 1 a (by omega)).1
  have hlen : L.2.length = (rlSweep (G (a + w + 1 + b)) ((down (a + 1) (w + b)).map G)).2.length := by
    have := length_eq_of_map_eq hm
    simpa using this
  have hcok : ColOK (hzipCol L (rlSweep (G (a + w + 1 + b)) ((down (a + 1) (w + b)).map G))) :=
    vchain_hzip _ _ _ _ hlen hLok hRok
  have hpad : PadOKb (res.map Option.isSome) := by
    rw [hpres, List.map_append, List.foldl_append, List.map_map]
    simp only [Function.comp_def, pres_col, List.map_cons, List.map_nil, List.foldl_cons, List.foldl_nil]
    rw [hrp, foldl_or, hlp, List.zipWith_map_left, List.zipWith_map_right, List.zipWith_self]
    apply padOK_of_padded tn hp
    intro r _
    rw [hc.ncols]
    simp only [Bool.or_eq_true, List.any_eq_true, mem_down, List.mem_range'_1]
    constructor
    · rintro (((h0 | ⟨c, ⟨_, h2⟩, h3⟩) | ⟨c, ⟨_, h2⟩, h3⟩) | (h0 | ⟨c, ⟨_, h2⟩, h3⟩))
      · exact ⟨a + w + 1 + b, by omega, h0⟩
      · exact ⟨c, by omega, h3⟩
      · exact ⟨c, by omega, h3⟩
      · exact ⟨0, by omega, h0⟩
      · exact ⟨c, by omega, h3⟩
    · rintro ⟨c, h1, h2⟩
      by_cases h0 : c = 0
      · subst h0; exact Or.inr (Or.inl h2)
      · by_cases h3 : c ≤ a
        · exact Or.inr (Or.inr ⟨c, ⟨by omega, by omega⟩, h2⟩)
        · by_cases h4 : c ≤ a + w
          · exact Or.inl (Or.inr ⟨c, ⟨by omega, by omega⟩, h2⟩)
          · by_cases h5 : c = a + w + 1 + b
            · subst h5; exact Or.inl (Or.inl (Or.inl h2))
            · exact Or.inl (Or.inl (Or.inr ⟨c, ⟨by omega, by omega⟩, h2⟩))
  obtain ⟨t, ht, et⟩ := contractLadder_rep' res _ hrep hcok hpad
  have e : splitT (netF tn) m a (w + b) = gridT (netF tn) m (a + w + 1 + b) := by
    rw [splitT_eq_gridT hok1, hn1]
  have et' : Eqv (toF t) (splitT (netF tn) m a (w + b)) := by
    unfold splitT
    rw [← hn1]
    exact et
  have hsc := asScalar_rep t _ et' (by rw [e]; exact hdn) (by rw [e]; exact hde) (by rw [e]; exact hds)
    (by rw [e]; exact hdw)
  rw [e] at hsc
  -- run the model
  have hd2 : down 0 (w + 2) = (w + 1) :: down 0 (w + 1) := by
    show (0 + (w + 1)) :: down 0 (w + 1) = _
    rw [Nat.zero_add]
  have hfullb : (w + 2 == ((w + 1) :: down 0 (w + 1)).length) = true := by simp [down_eq]
  unfold cosetValue
  simp only [Option.map_none]
  rw [hPeq]
  simp only [contract, maskOK, Bool.not_true, Bool.false_eq_true, if_false, colRange_rev, hPn, hd2, contractCols,
    List.map_cons, Option.map_none, hfullb, hcollast, hcols]
  simp only [show decide ((-1 : ℤ) > 0) = false by decide, hsw, finish, if_true, ht, hsc, one_mul, mul_one]

/-- **one coset of `_tn_contract_optimized`**: with the bra / ket taken from a network `tn0` that agrees with `tn`
    outside the columns `a+1 … a+w` (= `left_stop … right_stop`), the recombined value is the merged grid tensor of
    `tn` -/
theorem cosetValue_exact (tn0 tn : Net) (m a w b n : ℕ) (hn : n = a + w + 1 + b) (hc : Compat tn m n)
    (hp : PaddedRows tn) (hcols0 : tn0.ncols = tn.ncols)
    (hagree : ∀ c, (c ≤ a ∨ a + w < c) → c ≤ n → tn0.col c = tn.col c) (bra ket : MPS)
    (hbra : contract tn0 none false none (some ((a + 1 : ℕ) : ℤ)) none none = .ok (.part (some bra) 1))
    (hket : contract tn0 none false (some (-1)) (some ((a + w : ℕ) : ℤ)) (some (-1)) none
      = .ok (.part (some ket) 1)) :
    cosetValue (a + 1) (a + w) none false bra ket 1 1 none tn = .ok (scalar (gridT (netF tn) m n)) := by
  apply cosetValue_self tn m a w b n hn hc hp bra ket
  · rw [← hbra]
    symm
    apply contract_congr tn0 tn _ _ _ hcols0
    intro cr hcr c hcc
    rw [hcols0, hc.ncols, colRange_stop (n + 1) (a + 1) (by omega)] at hcr
    obtain rfl : List.range (a + 1) = cr := by simpa using hcr
    have := List.mem_range.mp hcc
    exact hagree c (Or.inl (by omega)) (by omega)
  · rw [← hket]
    symm
    apply contract_congr tn0 tn _ _ _ hcols0
    intro cr hcr c hcc
    have hst : ((a + w : ℕ) : ℤ) = (((a + w + 1 : ℕ) : ℤ) - 1) := by push_cast; omega
    rw [hcols0, hc.ncols, hst, colRange_rstop (n + 1) (a + w + 1) (by omega) (by omega)] at hcr
    obtain rfl : down (a + w + 1) (n + 1 - (a + w + 1)) = cr := by simpa using hcr
    obtain ⟨h1, h2⟩ := (mem_down _ _ _).mp hcc
    exact hagree c (Or.inr (by omega)) (by omega)

/-! ### the whole of `_tn_contract_optimized` -/

theorem mapM_ok {α β : Type} (f : α → Except Err β) (g : α → β) (l : List α) (h : ∀ x ∈ l, f x = .ok (g x)) :
    l.mapM f = .ok (l.map g) := by
  induction l with
  | nil => rfl
  | cons x xs ih =>
    rw [List.mapM_cons, h x (List.mem_cons_self ..), ih (fun y hy => h y (List.mem_cons_of_mem _ hy))]
    rfl

/-- **`_tn_contract_optimized` is exact.**  `tns = tn0 :: rest` are compatible padded networks of shape
    `(m+1) x (n+1)`, `n = a + w + 1 + b`, that agree with `tn0` outside the columns `left_stop = a+1 … right_stop = a+w`:
    the procedure (shared bra of columns `0 … a` and ket of columns `n … a+w+1` of `tn0`, the middle columns of `tns[j]`
    stacked between them, contracted right to left, multipliers) returns for every `j` the scalar of the merged grid
    tensor of `tns[j]`. -/
theorem optimized_exact (R C : Int) (tn0 : Net) (rest : List Net) (m a w b n : ℕ) (hn : n = a + w + 1 + b)
    (hls : leftStop R C = a + 1) (hrs : rightStop R C tn0 = a + w)
    (hall : ∀ tn ∈ tn0 :: rest, Compat tn m n ∧ PaddedRows tn ∧
      ∀ c, (c ≤ a ∨ a + w < c) → c ≤ n → tn0.col c = tn.col c) :
    optimized R C none false (tn0 :: rest) none
      = .ok (a + 1, a + w, (tn0 :: rest).map fun tn => scalar (gridT (netF tn) m n)) := by
  have hc0 := (hall tn0 (List.mem_cons_self ..)).1
  obtain ⟨bra, hbra, -, -⟩ := contract_part_lr' tn0 m n hc0 a (by omega)
  have hc0' : Compat tn0 m (a + w + 1 + b) := hn ▸ hc0
  obtain ⟨ket, hket, -, -⟩ := contract_part_rl' tn0 m (a + w) b hc0'
  rw [show (((a + w + 1 : ℕ) : ℤ) - 1) = ((a + w : ℕ) : ℤ) by push_cast; omega] at hket
  unfold optimized
  simp only [hls, hrs, hbra, hket]
  rw [mapM_ok _ (fun tn => scalar (gridT (netF tn) m n))]
  intro tn htn
  obtain ⟨h1, h2, h3⟩ := hall tn htn
  exact cosetValue_exact tn0 tn m a w b n hn h1 h2 (by rw [hc0.ncols, h1.ncols]) h3 bra ket hbra hket

end Qec.OptContract
