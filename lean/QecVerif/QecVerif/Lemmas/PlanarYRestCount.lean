/-
  Helper lemmas for the planar Y decoder, part 10: the Y-only centraliser of the plaquettes has at most 2^gcd(R, C)
  elements.  A Y-only operator commuting with every plaquette is the XOR, over a backward light cone, of its first row
  reflected at the left and right walls (d'Alembert on the diagonals); the lower wall makes the reflected first row
  4R-periodic, the reflections make it 4C-periodic and symmetric, hence it has period 4·gcd and is determined by the
  sites (0, 0), (0, 2), …, (0, 2·gcd − 2).
-/
import QecVerif.Lemmas.PlanarYRestNodup
import Mathlib.Data.Int.GCD
import Mathlib.Data.List.Perm.Subperm
namespace Qec.PlanarYL
open Qec Qec.Planar Qec.Symp Qec.PlanarCode Qec.PlanarY

/-! ### the triangle wave of the reflections at the left / right walls -/

/-- distance to the nearest multiple of 4N, capped by the reflection at 2N: 0, 1, …, 2N, 2N − 1, …, 1, 0, … -/
def Tw (N y : Nat) : Nat := if y % (4 * N) ≤ 2 * N then y % (4 * N) else 4 * N - y % (4 * N)

theorem Tw_le (N y : Nat) (hN : 0 < N) : Tw N y ≤ 2 * N := by
  unfold Tw
  have := Nat.mod_lt y (by omega : 0 < 4 * N)
  split <;> omega

theorem Tw_period (N y : Nat) : Tw N (y + 4 * N) = Tw N y := by
  unfold Tw; rw [Nat.add_mod_right]

theorem Tw_small (N y : Nat) (h : y ≤ 2 * N) (hN : 0 < N) : Tw N y = y := by
  unfold Tw
  rw [Nat.mod_eq_of_lt (by omega)]
  rw [if_pos h]

theorem Tw_reflect (N z : Nat) (h1 : 1 ≤ z) (h2 : z < 4 * N) : Tw N (4 * N - z) = Tw N z := by
  unfold Tw
  rw [Nat.mod_eq_of_lt (by omega : 4 * N - z < 4 * N), Nat.mod_eq_of_lt h2]
  split <;> split <;> omega

theorem Tw_parity (N y : Nat) (hN : 0 < N) : Tw N y % 2 = y % 2 := by
  unfold Tw
  have h : y % (4 * N) % 2 = y % 2 := Nat.mod_mod_of_dvd y ⟨2 * N, by omega⟩
  have := Nat.mod_lt y (by omega : 0 < 4 * N)
  split <;> omega

/-- three consecutive values of the triangle wave: a bounce at a wall, or a straight step -/
theorem Tw_step (N y : Nat) (hN : 0 < N) (hy : 1 ≤ y) :
    (Tw N y = 0 ∧ Tw N (y - 1) = 1 ∧ Tw N (y + 1) = 1) ∨
    (Tw N y = 2 * N ∧ Tw N (y - 1) = 2 * N - 1 ∧ Tw N (y + 1) = 2 * N - 1) ∨
    (0 < Tw N y ∧ Tw N y < 2 * N ∧
      ((Tw N (y - 1) + 1 = Tw N y ∧ Tw N (y + 1) = Tw N y + 1) ∨
       (Tw N (y - 1) = Tw N y + 1 ∧ Tw N (y + 1) + 1 = Tw N y))) := by
  have hL : 1 < 4 * N := by omega
  have s1 := succ_mod y (4 * N) hL
  have s0 := succ_mod (y - 1) (4 * N) hL
  rw [show y - 1 + 1 = y by omega] at s0
  have l0 := Nat.mod_lt (y - 1) (by omega : 0 < 4 * N)
  have l1 := Nat.mod_lt y (by omega : 0 < 4 * N)
  unfold Tw
  generalize (y - 1) % (4 * N) = a at *
  generalize y % (4 * N) = m at *
  generalize (y + 1) % (4 * N) = c at *
  have r0 : (a + 1 = 4 * N ∧ m = 0) ∨ (a + 1 < 4 * N ∧ m = a + 1) := by
    by_cases e0 : a + 1 = 4 * N
    · rw [if_pos e0] at s0; exact Or.inl ⟨e0, s0⟩
    · rw [if_neg e0] at s0; exact Or.inr ⟨by omega, s0⟩
  have r1 : (m + 1 = 4 * N ∧ c = 0) ∨ (m + 1 < 4 * N ∧ c = m + 1) := by
    by_cases e1 : m + 1 = 4 * N
    · rw [if_pos e1] at s1; exact Or.inl ⟨e1, s1⟩
    · rw [if_neg e1] at s1; exact Or.inr ⟨by omega, s1⟩
  clear s0 s1
  split_ifs <;> omega

/-! ### periodic Boolean sequences -/

theorem period_mul (e : Nat → Bool) (p : Nat) (hp : ∀ z, e (z + p) = e z) (n z : Nat) : e (z + n * p) = e z := by
  induction n with
  | zero => simp
  | succ n ih => rw [Nat.succ_mul, ← Nat.add_assoc, hp, ih]

theorem xorSum_range_shift (n : Nat) (a : Nat → Bool) :
    xorSum (List.range n) (fun j => a (j + 1)) = (xorSum (List.range (n + 1)) a ^^ a 0) := by
  induction n with
  | zero => simp
  | succ n ih =>
    rw [List.range_succ, xorSum_append, ih, List.range_succ (n := n + 1), xorSum_append]
    simp only [xorSum_cons, xorSum_nil, Bool.xor_false]
    generalize xorSum (List.range (n + 1)) a = A
    cases A <;> cases a 0 <;> cases a (n + 1) <;> rfl

/-! ### the operator reflected at the left / right walls and its light-cone formula -/

/-- zero-extended site bit -/
def bz (R C : Int) (g : BVec) (s : Int × Int) : Bool := inBounds R C s.1 s.2 && sbit R C g s

theorem bz_out (R C : Int) (g : BVec) (s : Int × Int)
    (h : ¬ (0 ≤ s.1 ∧ s.1 ≤ 2 * R - 2 ∧ 0 ≤ s.2 ∧ s.2 ≤ 2 * C - 2)) : bz R C g s = false := by
  unfold bz
  rw [inBounds_eq_decide, decide_eq_false h, Bool.false_and]

theorem bz_congr (R C : Int) (g : BVec) (s s' : Int × Int) (h1 : s.1 = s'.1) (h2 : s.2 = s'.2) :
    bz R C g s = bz R C g s' := by
  rw [Prod.ext h1 h2]

/-- the operator on the strip reflected at the left and right walls: `x` = row + 1, `y` = unfolded column + 1 -/
def Ext (R C : Int) (g : BVec) (x y : Nat) : Bool := bz R C g ((x : Int) - 1, (Tw C.toNat y : Int) - 1)

theorem ext_square (R C : Int) (hR : 2 ≤ R) (hC : 2 ≤ C) (g : BVec) (hg : YSym (nq R C) g)
    (hz : ∀ q, RealP R C q → bsp g (stabOp R C q) = false) (x y : Nat) (hx1 : 1 ≤ x) (hx2 : x + 1 ≤ 2 * R.toNat)
    (hy : 1 ≤ y) (hpar : (x + y) % 2 = 1) :
    Ext R C g (x + 1) y = (Ext R C g (x - 1) y ^^ (Ext R C g x (y - 1) ^^ Ext R C g x (y + 1))) := by
  have hN : 0 < C.toNat := by omega
  have hp := Tw_parity C.toNat y hN
  rcases Tw_step C.toNat y hN hy with h | h | ⟨h1, h2, h3⟩
  · have o1 : Ext R C g (x + 1) y = false := by
      unfold Ext; apply bz_out; simp only; rw [h.1]; omega
    have o2 : Ext R C g (x - 1) y = false := by
      unfold Ext; apply bz_out; simp only; rw [h.1]; omega
    have o3 : Ext R C g x (y - 1) = Ext R C g x (y + 1) := by
      unfold Ext; rw [h.2.1, h.2.2]
    rw [o1, o2, o3]; simp
  · have o1 : Ext R C g (x + 1) y = false := by
      unfold Ext; apply bz_out; simp only; rw [h.1]; omega
    have o2 : Ext R C g (x - 1) y = false := by
      unfold Ext; apply bz_out; simp only; rw [h.1]; omega
    have o3 : Ext R C g x (y - 1) = Ext R C g x (y + 1) := by
      unfold Ext; rw [h.2.1, h.2.2]
    rw [o1, o2, o3]; simp
  · have hq : RealP R C ((x : Int) - 1, (Tw C.toNat y : Int) - 1) := by
      unfold RealP; simp only; omega
    have key := hz _ hq
    rw [bsp_ysym R C hR hC g hg _ hq, xorSum_plaq] at key
    simp only at key
    have eS : Ext R C g (x + 1) y = bz R C g ((x : Int) - 1 + 1, (Tw C.toNat y : Int) - 1) := by
      unfold Ext; apply bz_congr <;> simp only <;> omega
    have eN : Ext R C g (x - 1) y = bz R C g ((x : Int) - 1 - 1, (Tw C.toNat y : Int) - 1) := by
      unfold Ext; apply bz_congr <;> simp only <;> omega
    rcases h3 with ⟨a, b⟩ | ⟨a, b⟩
    · have eW : Ext R C g x (y - 1) = bz R C g ((x : Int) - 1, (Tw C.toNat y : Int) - 1 - 1) := by
        unfold Ext; apply bz_congr <;> simp only <;> omega
      have eE : Ext R C g x (y + 1) = bz R C g ((x : Int) - 1, (Tw C.toNat y : Int) - 1 + 1) := by
        unfold Ext; apply bz_congr <;> simp only <;> omega
      rw [eS, eN, eW, eE]
      unfold bz
      revert key
      generalize (inBounds R C ((x : Int) - 1 - 1) ((Tw C.toNat y : Int) - 1) &&
        sbit R C g ((x : Int) - 1 - 1, (Tw C.toNat y : Int) - 1)) = n1
      generalize (inBounds R C ((x : Int) - 1 + 1) ((Tw C.toNat y : Int) - 1) &&
        sbit R C g ((x : Int) - 1 + 1, (Tw C.toNat y : Int) - 1)) = n2
      generalize (inBounds R C ((x : Int) - 1) ((Tw C.toNat y : Int) - 1 - 1) &&
        sbit R C g ((x : Int) - 1, (Tw C.toNat y : Int) - 1 - 1)) = n3
      generalize (inBounds R C ((x : Int) - 1) ((Tw C.toNat y : Int) - 1 + 1) &&
        sbit R C g ((x : Int) - 1, (Tw C.toNat y : Int) - 1 + 1)) = n4
      cases n1 <;> cases n2 <;> cases n3 <;> cases n4 <;> simp
    · have eW : Ext R C g x (y + 1) = bz R C g ((x : Int) - 1, (Tw C.toNat y : Int) - 1 - 1) := by
        unfold Ext; apply bz_congr <;> simp only <;> omega
      have eE : Ext R C g x (y - 1) = bz R C g ((x : Int) - 1, (Tw C.toNat y : Int) - 1 + 1) := by
        unfold Ext; apply bz_congr <;> simp only <;> omega
      rw [eS, eN, eW, eE]
      unfold bz
      revert key
      generalize (inBounds R C ((x : Int) - 1 - 1) ((Tw C.toNat y : Int) - 1) &&
        sbit R C g ((x : Int) - 1 - 1, (Tw C.toNat y : Int) - 1)) = n1
      generalize (inBounds R C ((x : Int) - 1 + 1) ((Tw C.toNat y : Int) - 1) &&
        sbit R C g ((x : Int) - 1 + 1, (Tw C.toNat y : Int) - 1)) = n2
      generalize (inBounds R C ((x : Int) - 1) ((Tw C.toNat y : Int) - 1 - 1) &&
        sbit R C g ((x : Int) - 1, (Tw C.toNat y : Int) - 1 - 1)) = n3
      generalize (inBounds R C ((x : Int) - 1) ((Tw C.toNat y : Int) - 1 + 1) &&
        sbit R C g ((x : Int) - 1, (Tw C.toNat y : Int) - 1 + 1)) = n4
      cases n1 <;> cases n2 <;> cases n3 <;> cases n4 <;> simp

/-- the reflected first row -/
def eRow (R C : Int) (g : BVec) (z : Nat) : Bool := Ext R C g 1 z

/-- XOR of the reflected first row over the backward light cone of `(x, y)` -/
def coneSum (R C : Int) (g : BVec) (x y : Nat) : Bool :=
  xorSum (List.range x) (fun j => eRow R C g (y - x + 1 + 2 * j))

theorem cone (R C : Int) (hR : 2 ≤ R) (hC : 2 ≤ C) (g : BVec) (hg : YSym (nq R C) g)
    (hz : ∀ q, RealP R C q → bsp g (stabOp R C q) = false) :
    ∀ x, x + 1 ≤ 2 * R.toNat →
      (∀ y, x ≤ y → (x + y) % 2 = 0 → Ext R C g x y = coneSum R C g x y) ∧
      (∀ y, x + 1 ≤ y → (x + 1 + y) % 2 = 0 → Ext R C g (x + 1) y = coneSum R C g (x + 1) y) := by
  intro x
  induction x with
  | zero =>
    intro _
    constructor
    · intro y _ _
      unfold coneSum Ext
      rw [List.range_zero, xorSum_nil]
      apply bz_out; simp only; omega
    · intro y hy _
      unfold coneSum eRow
      rw [List.range_succ, List.range_zero]
      simp only [List.nil_append, xorSum_cons, xorSum_nil, Bool.xor_false]
      rw [show y - (0 + 1) + 1 + 2 * 0 = y by omega]
  | succ x ih =>
    intro hx
    rcases ih (by omega) with ⟨p0, p1⟩
    refine ⟨p1, ?_⟩
    intro y hy hpar
    have sq := ext_square R C hR hC g hg hz (x + 1) y (by omega) (by omega) (by omega) (by omega)
    rw [show x + 1 - 1 = x from rfl] at sq
    rw [sq, p0 y (by omega) (by omega), p1 (y - 1) (by omega) (by omega), p1 (y + 1) (by omega) (by omega)]
    unfold coneSum
    have c1 : xorSum (List.range (x + 1)) (fun j => eRow R C g (y - 1 - (x + 1) + 1 + 2 * j)) =
        xorSum (List.range (x + 1)) (fun j => eRow R C g (y - x - 1 + 2 * j)) := by
      apply xorSum_congr; intro j _; congr 1; omega
    have c2 : xorSum (List.range (x + 1)) (fun j => eRow R C g (y + 1 - (x + 1) + 1 + 2 * j)) =
        xorSum (List.range (x + 1)) (fun j => (fun i => eRow R C g (y - x - 1 + 2 * i)) (j + 1)) := by
      apply xorSum_congr; intro j _; simp only; congr 1; omega
    have c3 : xorSum (List.range x) (fun j => eRow R C g (y - x + 1 + 2 * j)) =
        xorSum (List.range x) (fun j => (fun i => eRow R C g (y - x - 1 + 2 * i)) (j + 1)) := by
      apply xorSum_congr; intro j _; simp only; congr 1; omega
    have c4 : xorSum (List.range (x + 1 + 1)) (fun j => eRow R C g (y - (x + 1 + 1) + 1 + 2 * j)) =
        xorSum (List.range (x + 1 + 1)) (fun i => eRow R C g (y - x - 1 + 2 * i)) := by
      apply xorSum_congr; intro j _; congr 1; omega
    rw [c1, c2, c3, c4, xorSum_range_shift (x + 1) (fun i => eRow R C g (y - x - 1 + 2 * i)),
      xorSum_range_shift x (fun i => eRow R C g (y - x - 1 + 2 * i))]
    generalize xorSum (List.range (x + 1 + 1)) (fun i => eRow R C g (y - x - 1 + 2 * i)) = A2
    generalize xorSum (List.range (x + 1)) (fun i => eRow R C g (y - x - 1 + 2 * i)) = A1
    generalize eRow R C g (y - x - 1 + 2 * 0) = a0
    cases A2 <;> cases A1 <;> cases a0 <;> rfl

/-- the lower wall: the reflected first row has period 4R (on odd positions) -/
theorem eRow_period_R (R C : Int) (hR : 2 ≤ R) (hC : 2 ≤ C) (g : BVec) (hg : YSym (nq R C) g)
    (hz : ∀ q, RealP R C q → bsp g (stabOp R C q) = false) (z : Nat) (hz1 : 1 ≤ z) (hodd : z % 2 = 1) :
    eRow R C g (z + 4 * R.toNat) = eRow R C g z := by
  have hc := (cone R C hR hC g hg hz (2 * R.toNat - 1) (by omega)).2
  rw [show 2 * R.toNat - 1 + 1 = 2 * R.toNat by omega] at hc
  have wall : ∀ y, Ext R C g (2 * R.toNat) y = false := by
    intro y; unfold Ext; apply bz_out; simp only; omega
  have s1 := hc (z + 2 * R.toNat - 1) (by omega) (by omega)
  have s2 := hc (z + 2 * R.toNat - 1 + 2) (by omega) (by omega)
  rw [wall] at s1 s2
  unfold coneSum at s1 s2
  have c1 : xorSum (List.range (2 * R.toNat)) (fun j => eRow R C g (z + 2 * R.toNat - 1 - 2 * R.toNat + 1 + 2 * j)) =
      xorSum (List.range (2 * R.toNat)) (fun j => eRow R C g (z + 2 * j)) := by
    apply xorSum_congr; intro j _; congr 1; omega
  have c2 : xorSum (List.range (2 * R.toNat))
      (fun j => eRow R C g (z + 2 * R.toNat - 1 + 2 - 2 * R.toNat + 1 + 2 * j)) =
      xorSum (List.range (2 * R.toNat)) (fun j => (fun i => eRow R C g (z + 2 * i)) (j + 1)) := by
    apply xorSum_congr; intro j _; simp only; congr 1; omega
  rw [c1] at s1
  rw [c2, xorSum_range_shift (2 * R.toNat) (fun i => eRow R C g (z + 2 * i)), List.range_succ, xorSum_append,
    ← s1] at s2
  simp only [xorSum_cons, xorSum_nil, Bool.xor_false, Bool.false_xor, Nat.mul_zero, Nat.add_zero] at s2
  rw [show z + 4 * R.toNat = z + 2 * (2 * R.toNat) by omega]
  revert s2
  generalize eRow R C g (z + 2 * (2 * R.toNat)) = u
  generalize eRow R C g z = v
  cases u <;> cases v <;> simp

/-! ### the reflected first row at odd positions: periods 2R, 2C, 2·gcd and the reflection -/

def eOdd (R C : Int) (g : BVec) (n : Nat) : Bool := eRow R C g (2 * n + 1)

theorem eOdd_top (R C : Int) (g : BVec) (i : Nat) (hi : i < C.toNat) : eOdd R C g i = bz R C g (0, 2 * (i : Int)) := by
  unfold eOdd eRow Ext
  rw [Tw_small C.toNat (2 * i + 1) (by omega) (by omega)]
  apply bz_congr <;> simp only <;> omega

theorem eOdd_period_R (R C : Int) (hR : 2 ≤ R) (hC : 2 ≤ C) (g : BVec) (hg : YSym (nq R C) g)
    (hz : ∀ q, RealP R C q → bsp g (stabOp R C q) = false) (n : Nat) :
    eOdd R C g (n + 2 * R.toNat) = eOdd R C g n := by
  unfold eOdd
  rw [show 2 * (n + 2 * R.toNat) + 1 = 2 * n + 1 + 4 * R.toNat by omega]
  exact eRow_period_R R C hR hC g hg hz (2 * n + 1) (by omega) (by omega)

theorem eOdd_period_C (R C : Int) (g : BVec) (n : Nat) : eOdd R C g (n + 2 * C.toNat) = eOdd R C g n := by
  unfold eOdd eRow Ext
  rw [show 2 * (n + 2 * C.toNat) + 1 = 2 * n + 1 + 4 * C.toNat by omega, Tw_period]

theorem eOdd_reflect (R C : Int) (g : BVec) (n : Nat) (hn : n < 2 * C.toNat) :
    eOdd R C g (2 * C.toNat - 1 - n) = eOdd R C g n := by
  unfold eOdd eRow Ext
  rw [show 2 * (2 * C.toNat - 1 - n) + 1 = 4 * C.toNat - (2 * n + 1) by omega,
    Tw_reflect C.toNat (2 * n + 1) (by omega) (by omega)]

theorem eOdd_period_g (R C : Int) (hR : 2 ≤ R) (hC : 2 ≤ C) (g : BVec) (hg : YSym (nq R C) g)
    (hz : ∀ q, RealP R C q → bsp g (stabOp R C q) = false) (n : Nat) :
    eOdd R C g (n + 2 * Nat.gcd R.toNat C.toNat) = eOdd R C g n := by
  have hgC : Nat.gcd R.toNat C.toNat ∣ C.toNat := Nat.gcd_dvd_right _ _
  have hle : Nat.gcd R.toNat C.toNat ≤ C.toNat := Nat.le_of_dvd (by omega) hgC
  by_cases he : Nat.gcd R.toNat C.toNat = C.toNat
  · rw [he]; exact eOdd_period_C R C g n
  · obtain ⟨m, _, hm⟩ := Nat.exists_mul_mod_eq_gcd (k := C.toNat) (n := R.toNat) (by omega)
    have hd := Nat.div_add_mod (R.toNat * m) C.toNat
    rw [hm] at hd
    have h1 := period_mul (eOdd R C g) (2 * C.toNat) (eOdd_period_C R C g) (R.toNat * m / C.toNat)
      (n + 2 * Nat.gcd R.toNat C.toNat)
    have h2 := period_mul (eOdd R C g) (2 * R.toNat) (eOdd_period_R R C hR hC g hg hz) m n
    have e1 : R.toNat * m / C.toNat * (2 * C.toNat) = 2 * (C.toNat * (R.toNat * m / C.toNat)) := by ring
    have e2 : m * (2 * R.toNat) = 2 * (R.toNat * m) := by ring
    rw [← h1, ← h2]
    congr 1
    omega

/-- **the first `gcd` sites of the first row determine the reflected first row** -/
theorem eOdd_zero (R C : Int) (hR : 2 ≤ R) (hC : 2 ≤ C) (g : BVec) (hg : YSym (nq R C) g)
    (hz : ∀ q, RealP R C q → bsp g (stabOp R C q) = false)
    (htop : ∀ i, i < Nat.gcd R.toNat C.toNat → sbit R C g (0, 2 * (i : Int)) = false) :
    ∀ n, eOdd R C g n = false := by
  have hgC : Nat.gcd R.toNat C.toNat ∣ C.toNat := Nat.gcd_dvd_right _ _
  have hle : Nat.gcd R.toNat C.toNat ≤ C.toNat := Nat.le_of_dvd (by omega) hgC
  have hpos : 0 < Nat.gcd R.toNat C.toNat := Nat.gcd_pos_of_pos_right _ (by omega)
  have low : ∀ i, i < Nat.gcd R.toNat C.toNat → eOdd R C g i = false := by
    intro i hi
    rw [eOdd_top R C g i (by omega)]
    unfold bz
    rw [htop i hi, Bool.and_false]
  have high : ∀ i, Nat.gcd R.toNat C.toNat ≤ i → i < 2 * Nat.gcd R.toNat C.toNat → eOdd R C g i = false := by
    intro i h1 h2
    obtain ⟨t, ht⟩ := hgC
    have ht1 : 1 ≤ t := by
      rcases Nat.eq_zero_or_pos t with h | h
      · subst h; simp at ht; omega
      · exact h
    have hp := period_mul (eOdd R C g) (2 * Nat.gcd R.toNat C.toNat) (eOdd_period_g R C hR hC g hg hz) (t - 1) i
    have e : i + (t - 1) * (2 * Nat.gcd R.toNat C.toNat) =
        2 * C.toNat - 1 - (2 * Nat.gcd R.toNat C.toNat - 1 - i) := by
      have : (t - 1) * (2 * Nat.gcd R.toNat C.toNat) = 2 * (Nat.gcd R.toNat C.toNat * t) - 2 * Nat.gcd R.toNat C.toNat := by
        obtain ⟨t', rfl⟩ : ∃ t', t = t' + 1 := ⟨t - 1, by omega⟩
        simp only [Nat.add_sub_cancel]
        rw [Nat.mul_succ]
        have : t' * (2 * Nat.gcd R.toNat C.toNat) = 2 * (Nat.gcd R.toNat C.toNat * t') := by ring
        omega
      rw [this, ← ht]
      omega
    rw [← hp, e, eOdd_reflect R C g _ (by omega)]
    exact low _ (by omega)
  intro n
  have hd := Nat.div_add_mod n (2 * Nat.gcd R.toNat C.toNat)
  have hlt := Nat.mod_lt n (by omega : 0 < 2 * Nat.gcd R.toNat C.toNat)
  have hp := period_mul (eOdd R C g) (2 * Nat.gcd R.toNat C.toNat) (eOdd_period_g R C hR hC g hg hz)
    (n / (2 * Nat.gcd R.toNat C.toNat)) (n % (2 * Nat.gcd R.toNat C.toNat))
  have e : n % (2 * Nat.gcd R.toNat C.toNat) + n / (2 * Nat.gcd R.toNat C.toNat) * (2 * Nat.gcd R.toNat C.toNat) = n := by
    rw [Nat.mul_comm (n / _)]; omega
  rw [e] at hp
  rw [hp]
  by_cases h : n % (2 * Nat.gcd R.toNat C.toNat) < Nat.gcd R.toNat C.toNat
  · exact low _ h
  · exact high _ (by omega) hlt

/-- **uniqueness**: a Y-only operator that commutes with every plaquette and has no Y on the sites
    `(0, 0), (0, 2), …, (0, 2·gcd − 2)` is the identity -/
theorem ycentraliser_unique (R C : Int) (hR : 2 ≤ R) (hC : 2 ≤ C) (g : BVec) (hg : YSym (nq R C) g)
    (hz : ∀ q, RealP R C q → bsp g (stabOp R C q) = false)
    (htop : ∀ i, i < Nat.gcd R.toNat C.toNat → sbit R C g (0, 2 * (i : Int)) = false) :
    g = zeros (2 * nq R C) := by
  have hrow := eOdd_zero R C hR hC g hg hz htop
  have hall : ∀ (n : Nat) (r c : Int), r ≤ n → SiteIn R C r c → sbit R C g (r, c) = false := by
    apply uniq_rows R C (sbit R C g)
    · intro q hq _
      rw [← bsp_ysym R C hR hC g hg q hq]
      exact hz q hq
    · intro c hs
      unfold SiteIn at hs
      have h := hrow (c / 2).toNat
      rw [eOdd_top R C g _ (by omega)] at h
      unfold bz at h
      have hb : inBounds R C 0 (2 * (((c / 2).toNat : Nat) : Int)) = true := by rw [inBounds_iff]; omega
      rw [hb, Bool.true_and, show (2 : Int) * (((c / 2).toNat : Nat) : Int) = c by omega] at h
      exact h
  apply bvec_ext
  · rw [hg.1, zeros_length]
  · intro j hj
    rw [getD_zeros]
    rw [hg.1] at hj
    have hlow : ∀ f, f < nq R C → g.getD f false = false := by
      intro f hf
      have hnq : ((nq R C : Nat) : Int) = nQubits R C := by
        unfold nq; have := nQubits_pos R C hR hC; omega
      rcases flatten_surj R C hR hC (f : Int) (by omega) (by omega) with ⟨r, c, hs, hfl⟩
      have := hall r.toNat r c (by unfold SiteIn at hs; omega) hs
      unfold sbit fl at this
      simp only at this
      rw [hfl] at this
      simpa using this
    by_cases hjn : j < nq R C
    · exact hlow j hjn
    · have := hg.2 (j - nq R C) (by omega)
      rw [show nq R C + (j - nq R C) = j by omega] at this
      rw [this]
      exact hlow _ (by omega)

/-! ### pigeonhole: 2^g distinct Boolean vectors of length g are all of them -/

def boolVecs : Nat → List (List Bool)
  | 0 => [[]]
  | g + 1 => (boolVecs g).map (false :: ·) ++ (boolVecs g).map (true :: ·)

theorem mem_boolVecs : ∀ (g : Nat) (v : List Bool), v ∈ boolVecs g ↔ v.length = g := by
  intro g
  induction g with
  | zero => intro v; simp [boolVecs]
  | succ g ih =>
    intro v
    simp only [boolVecs, List.mem_append, List.mem_map]
    constructor
    · rintro (⟨t, ht, rfl⟩ | ⟨t, ht, rfl⟩) <;> simp [(ih t).mp ht]
    · intro h
      cases v with
      | nil => simp at h
      | cons b t =>
        have ht : t ∈ boolVecs g := (ih t).mpr (by simpa using h)
        cases b
        · exact Or.inl ⟨t, ht, rfl⟩
        · exact Or.inr ⟨t, ht, rfl⟩

theorem boolVecs_length (g : Nat) : (boolVecs g).length = 2 ^ g := by
  induction g with
  | zero => rfl
  | succ g ih => simp only [boolVecs, List.length_append, List.length_map, ih, Nat.pow_succ]; omega

theorem pigeon_vecs (g : Nat) (L : List (List Bool)) (hn : L.Nodup) (hlen : ∀ v ∈ L, v.length = g)
    (hcard : L.length = 2 ^ g) (v : List Bool) (hv : v.length = g) : v ∈ L := by
  have hsub : L ⊆ boolVecs g := fun w hw => (mem_boolVecs g w).mpr (hlen w hw)
  have hperm := (List.Nodup.subperm hn hsub).perm_of_length_le (by rw [boolVecs_length, hcard])
  exact hperm.mem_iff.mpr ((mem_boolVecs g v).mpr hv)

/-! ### the Y-only centraliser -/

/-- a Y-only operator commuting with every plaquette generator -/
def InY (R C : Int) (v : BVec) : Prop := YSym (nq R C) v ∧ ∀ q, RealP R C q → bsp (stabOp R C q) v = false

theorem inY_xorV (R C : Int) (a b : BVec) (ha : InY R C a) (hb : InY R C b) : InY R C (xorV a b) := by
  refine ⟨ysym_xorV _ _ _ ha.1 hb.1, ?_⟩
  intro q hq
  rw [bsp_xorV_right _ _ _ (by rw [ha.1.1, hb.1.1]), ha.2 q hq, hb.2 q hq]; rfl

/-- the bits on the sites `(0, 0), (0, 2), …, (0, 2g − 2)` -/
def topBits (R C : Int) (g : Nat) (v : BVec) : List Bool := (List.range g).map (fun (i : Nat) => sbit R C v (0, 2 * (i : Int)))

theorem top_inj (R C : Int) (hR : 2 ≤ R) (hC : 2 ≤ C) (a b : BVec) (ha : InY R C a) (hb : InY R C b)
    (h : topBits R C (Nat.gcd R.toNat C.toNat) a = topBits R C (Nat.gcd R.toNat C.toNat) b) : a = b := by
  have hab := inY_xorV R C a b ha hb
  have hl : a.length = b.length := by rw [ha.1.1, hb.1.1]
  have hz : xorV a b = zeros (2 * nq R C) := by
    apply ycentraliser_unique R C hR hC _ hab.1
    · intro q hq
      rw [bsp_comm _ _ (by rw [hab.1.1, stabOp_length]) (by rw [hab.1.1]; omega)]
      exact hab.2 q hq
    · intro i hi
      have := (List.map_inj_left.mp h) i (List.mem_range.mpr hi)
      unfold sbit at this ⊢
      rw [getD_xorV _ _ hl, this, Bool.xor_self]
  have := xorV_cancel_left a b hl
  rw [hz, xorV_zeros_right a _ ha.1.1] at this
  exact this

/-- **the Y-only centraliser is exhausted**: every Y-only operator commuting with all plaquette generators is one of
    the `_y_stabilizers(code)` or one of them times `_y_logical(code)` -/
theorem ycentraliser_complete (R C : Int) (hR : 2 ≤ R) (hC : 2 ≤ C) (y : BVec) (hy : InY R C y) :
    ∃ ys l, yStabilizers R C = .ok ys ∧ yLogical R C = .ok l ∧ (y ∈ ys ∨ ∃ s ∈ ys, y = xorV s l) := by
  rcases yStabilizers_spec R C hR hC with ⟨ys, hys, hlen, hall⟩
  rcases yStabilizers_nodup R C hR hC with ⟨ys', hys', hnd⟩
  have e : ys' = ys := Except.ok.inj (hys'.symm.trans hys)
  subst e
  rcases yLogical_spec R C hR hC with ⟨l, hl, hly, hlsyn, hlog⟩
  have hlY : InY R C l := ⟨hly, hlsyn⟩
  have hysY : ∀ s ∈ ys', InY R C s := fun s hs => ⟨(hall s hs).1, (hall s hs).2.1⟩
  have hpos : 0 < Nat.gcd R.toNat C.toNat := Nat.gcd_pos_of_pos_right _ (by omega)
  -- the 2^gcd candidates
  have hK : ∀ k ∈ ys' ++ ys'.map (fun s => xorV s l), InY R C k := by
    intro k hk
    rcases List.mem_append.mp hk with hk | hk
    · exact hysY k hk
    · rcases List.mem_map.mp hk with ⟨s, hs, rfl⟩
      exact inY_xorV R C s l (hysY s hs) hlY
  have hKnd : (ys' ++ ys'.map (fun s => xorV s l)).Nodup := by
    rw [List.nodup_append]
    refine ⟨hnd, ?_, ?_⟩
    · apply nodup_map_on _ _ hnd
      intro a ha b hb hab
      have la : a.length = l.length := by rw [(hysY a ha).1.1, hly.1]
      have lb : b.length = l.length := by rw [(hysY b hb).1.1, hly.1]
      have h1 := xorV_cancel_left l a la.symm
      have h2 := xorV_cancel_left l b lb.symm
      rw [xorV_comm l a] at h1
      rw [xorV_comm l b] at h2
      have hab' : xorV a l = xorV b l := hab
      exact h1.symm.trans ((congrArg (xorV l) hab').trans h2)
    · intro a ha b hb hab
      rcases List.mem_map.mp hb with ⟨s, hs, rfl⟩
      have la := hall a ha
      have ls := hall s hs
      have hsl : s.length = l.length := by rw [ls.1.1, hly.1]
      have hX : bsp (logicalX R C) (xorV s l) = bsp (logicalX R C) l := by
        rw [bsp_xorV_right _ _ _ hsl, ls.2.2.1, Bool.false_xor]
      have hZ : bsp (logicalZ R C) (xorV s l) = bsp (logicalZ R C) l := by
        rw [bsp_xorV_right _ _ _ hsl, ls.2.2.2, Bool.false_xor]
      rw [← hab, la.2.2.1] at hX
      rw [← hab, la.2.2.2] at hZ
      rw [← hX, ← hZ] at hlog
      exact Bool.noConfusion hlog
  have hKlen : (ys' ++ ys'.map (fun s => xorV s l)).length = 2 ^ Nat.gcd R.toNat C.toNat := by
    rw [List.length_append, List.length_map, hlen]
    obtain ⟨g', hg'⟩ : ∃ g', Nat.gcd R.toNat C.toNat = g' + 1 := ⟨Nat.gcd R.toNat C.toNat - 1, by omega⟩
    rw [hg', Nat.add_sub_cancel, Nat.pow_succ]; omega
  have hmem := pigeon_vecs (Nat.gcd R.toNat C.toNat)
    ((ys' ++ ys'.map (fun s => xorV s l)).map (topBits R C (Nat.gcd R.toNat C.toNat)))
    (nodup_map_on _ _ hKnd (fun a ha b hb hab => top_inj R C hR hC a b (hK a ha) (hK b hb) hab))
    (by
      intro v hv
      rcases List.mem_map.mp hv with ⟨k, _, rfl⟩
      unfold topBits; rw [List.length_map, List.length_range])
    (by rw [List.length_map, hKlen])
    (topBits R C (Nat.gcd R.toNat C.toNat) y) (by unfold topBits; rw [List.length_map, List.length_range])
  rcases List.mem_map.mp hmem with ⟨k, hk, hkt⟩
  have hky : k = y := top_inj R C hR hC k y (hK k hk) hy hkt
  subst hky
  refine ⟨ys', l, hys, hl, ?_⟩
  rcases List.mem_append.mp hk with hk | hk
  · exact Or.inl hk
  · rcases List.mem_map.mp hk with ⟨s, hs, rfl⟩
    exact Or.inr ⟨s, hs, rfl⟩

/-- **`ystabs_count`**: `_y_stabilizers(code)` are ALL the Y-only operators commuting with every plaquette generator
    and with both logical operators -/
theorem ystabs_complete (R C : Int) (hR : 2 ≤ R) (hC : 2 ≤ C) (y : BVec) (hy : InY R C y)
    (hX : bsp (logicalX R C) y = false) (hZ : bsp (logicalZ R C) y = false) :
    ∃ ys, yStabilizers R C = .ok ys ∧ y ∈ ys := by
  rcases ycentraliser_complete R C hR hC y hy with ⟨ys, l, hys, hl, h | ⟨s, hs, rfl⟩⟩
  · exact ⟨ys, hys, h⟩
  · exfalso
    rcases yStabilizers_spec R C hR hC with ⟨ys', hys', _, hall⟩
    have e : ys' = ys := Except.ok.inj (hys'.symm.trans hys)
    subst e
    rcases yLogical_spec R C hR hC with ⟨l', hl', hly, _, hlog⟩
    have e : l' = l := Except.ok.inj (hl'.symm.trans hl)
    subst e
    have ls := hall s hs
    have hsl : s.length = l'.length := by rw [ls.1.1, hly.1]
    rw [bsp_xorV_right _ _ _ hsl, ls.2.2.1, Bool.false_xor] at hX
    rw [bsp_xorV_right _ _ _ hsl, ls.2.2.2, Bool.false_xor] at hZ
    rw [hX, hZ] at hlog
    exact Bool.noConfusion hlog

end Qec.PlanarYL
