/-
  Helper lemmas for the planar Y decoder (Model/PlanarY.lean): Y-type site operators, the bouncing cycle, the
  syndrome of a snake-fill (telescoping over rays and seeds), the residual look-up table.
-/
import QecVerif.Model.PlanarY
import QecVerif.Lemmas.Lattice.PlanarCode
namespace Qec.PlanarYL
open Qec Qec.Planar Qec.Symp Qec.PlanarCode Qec.PlanarY

/-! ### 1. Y-type site operators (generic) -/
section Y
variable {ι : Type} (n : Nat) (dom : ι → Bool) (flat : ι → Nat)

theorem gsite_Y (v : BVec) (i : ι) :
    gsite n dom flat P1.Y v i = if dom i then toggle (toggle v (flat i)) (n + flat i) else v := by
  simp [gsite, applyOp, P1.xBit, P1.zBit]

theorem bsp_ysites_right (a : BVec) (ha : a.length = 2 * n) (v : BVec) (hv : v.length = 2 * n)
    (l : List ι) (hl : FlatLt n dom flat l) :
    bsp a (gsites n dom flat P1.Y v l) =
      (bsp a v ^^ xorSum l (fun i => dom i && (a.getD (n + flat i) false ^^ a.getD (flat i) false))) := by
  induction l generalizing v with
  | nil => simp [gsites]
  | cons i l ih =>
    rw [gsites_cons, ih _ (by rw [gsite_length]; exact hv) hl.tail, gsite_Y, xorSum_cons]
    by_cases hb : dom i = true
    · have hf := hl i List.mem_cons_self hb
      rw [if_pos hb]
      have : bsp a (toggle (toggle v (flat i)) (n + flat i)) =
          (bsp a v ^^ (a.getD (n + flat i) false ^^ a.getD (flat i) false)) := by
        unfold bsp
        rw [dot_toggle _ _ _ (by rw [Symp.toggle_length, hv]; omega), dot_toggle _ _ _ (by rw [hv]; omega),
          swap_getD_lo a n _ ha hf, swap_getD_hi a n _ ha hf, Bool.xor_assoc]
      rw [this]
      simp [hb]
    · rw [if_neg hb]
      simp [hb]

theorem getD_ysites (v : BVec) (hv : v.length = 2 * n) (l : List ι) (hl : FlatLt n dom flat l) (j : Nat) :
    (gsites n dom flat P1.Y v l).getD j false =
      (v.getD j false ^^ xorSum l (fun i => dom i && (decide (flat i = j) ^^ decide (n + flat i = j)))) := by
  induction l generalizing v with
  | nil => simp [gsites]
  | cons i l ih =>
    rw [gsites_cons, ih _ (by rw [gsite_length]; exact hv) hl.tail, gsite_Y, xorSum_cons]
    by_cases hb : dom i = true
    · have hf := hl i List.mem_cons_self hb
      rw [if_pos hb, Symp.getD_toggle _ _ _ (by rw [Symp.toggle_length, hv]; omega),
        Symp.getD_toggle _ _ _ (by rw [hv]; omega)]
      simp [hb]
    · rw [if_neg hb]
      simp [hb]

end Y

/-! ### 2. planar Y operators -/

/-- the all-Y operator on a list of site indices -/
def yop (R C : Int) (l : List (Int × Int)) : BVec := sites R C P1.Y (identity R C) l

theorem yop_length (R C : Int) (l : List (Int × Int)) : (yop R C l).length = 2 * nq R C := by
  unfold yop; rw [sites_length, identity_length]

/-- adjacency bit: the site `s` is in bounds and one of the four sites of plaquette `q` -/
def adj (R C : Int) (q s : Int × Int) : Bool := inBounds R C s.1 s.2 && occ (plaquetteSites q.1 q.2) s

/-- a stabilizer generator against an all-Y operator: parity of the in-bounds sites of the list on the plaquette -/
theorem bsp_stab_yop (R C : Int) (hR : 2 ≤ R) (hC : 2 ≤ C) (q : Int × Int) (hq : RealP R C q)
    (l : List (Int × Int)) (hl : AllSites l) :
    bsp (stabOp R C q) (yop R C l) = xorSum l (adj R C q) := by
  have sq := allSites_plaq q.1 q.2 hq.2.2.2.2
  unfold yop
  rw [sites_eq_gsites, identity_eq,
    bsp_ysites_right (nq R C) (dom R C) (fl R C) _ (stabOp_length R C q) _ (zeros_length _) l
      (flatLt_of_allSites R C hR hC l hl), bsp_zeros_right, Bool.false_xor]
  apply xorSum_congr
  intro s hs
  unfold adj
  by_cases hb : inBounds R C s.1 s.2 = true
  · have e : dom R C s = true := hb
    rw [e, hb, Bool.true_and, Bool.true_and]
    have h1 := getD_siteop_same R C hR hC (isPrimal q.1 q.2) _ sq s (hl s hs) hb
    have h0 := getD_siteop_other R C hR hC (isPrimal q.1 q.2) _ sq s (hl s hs) hb
    unfold stabOp
    cases hz : isPrimal q.1 q.2
    · rw [hz] at h1 h0
      simp only [off, Bool.false_eq_true, if_false, Nat.zero_add, Bool.not_false, if_true] at h1 h0
      rw [h1, h0, Bool.false_xor]
    · rw [hz] at h1 h0
      simp only [off, Bool.false_eq_true, if_false, Nat.zero_add, Bool.not_true, if_true] at h1 h0
      rw [h1, h0, Bool.xor_false]
  · have e : dom R C s = false := by simpa [dom] using hb
    simp [e, hb]

/-- bits of an all-Y operator at an in-bounds site: both halves carry the occurrence parity -/
theorem getD_yop (R C : Int) (hR : 2 ≤ R) (hC : 2 ≤ C) (l : List (Int × Int)) (hl : AllSites l)
    (s : Int × Int) (h2 : (s.1 + s.2) % 2 = 0) (b2 : inBounds R C s.1 s.2 = true) :
    (yop R C l).getD (fl R C s) false = occ l s ∧ (yop R C l).getD (nq R C + fl R C s) false = occ l s := by
  have fs := fl_lt R C hR hC s h2 b2
  have hfl := flatLt_of_allSites R C hR hC l hl
  unfold yop
  rw [sites_eq_gsites, identity_eq]
  constructor
  · rw [getD_ysites (nq R C) (dom R C) (fl R C) _ (zeros_length _) l hfl, getD_zeros, Bool.false_xor,
      ← occF_eq_occ R C hR hC l hl s h2 b2]
    unfold occF
    apply xorSum_congr
    intro i hi
    by_cases hb : dom R C i = true
    · have : decide (nq R C + fl R C i = fl R C s) = false := by apply decide_eq_false; omega
      rw [this, Bool.xor_false]
    · simp [hb]
  · rw [getD_ysites (nq R C) (dom R C) (fl R C) _ (zeros_length _) l hfl, getD_zeros, Bool.false_xor,
      ← occF_eq_occ R C hR hC l hl s h2 b2]
    unfold occF
    apply xorSum_congr
    intro i hi
    by_cases hb : dom R C i = true
    · have fi := hfl i hi hb
      have : decide (fl R C i = nq R C + fl R C s) = false := by apply decide_eq_false; omega
      rw [this, Bool.false_xor]
      congr 1
      apply decide_eq_decide.mpr; omega
    · simp [hb]

/-! ### 3. the bouncing cycle -/

theorem getD_rangeUp (a b : Int) (i : Nat) (h : (i : Int) < b - a) : (rangeUp a b).getD i 0 = a + (i : Int) := by
  unfold rangeUp
  rw [List.getD_eq_getElem?_getD, List.getElem?_map, List.getElem?_range (by omega)]
  rfl

theorem getD_rangeDown (a b : Int) (i : Nat) (h : (i : Int) < a - b) : (rangeDown a b).getD i 0 = a - (i : Int) := by
  unfold rangeDown
  rw [List.getD_eq_getElem?_getD, List.getElem?_map, List.getElem?_range (by omega)]
  rfl

theorem rangeUp_length (a b : Int) : (rangeUp a b).length = (b - a).toNat := by simp [rangeUp]
theorem rangeDown_length (a b : Int) : (rangeDown a b).length = (a - b).toNat := by simp [rangeDown]

theorem cycDown_length (s M : Int) (hs : 0 ≤ s) (hM : s ≤ M) : (cycDown s M).length = (2 * M + 4).toNat := by
  simp only [cycDown, List.length_append, rangeUp_length, rangeDown_length]; omega

/-- the value of the cycle at position `i < 2M+4`: down from `s` to −1, up from 0 to M+1, down from M to s+1 -/
def CycVal (s M : Int) (i : Nat) (v : Int) : Prop :=
  ((i : Int) ≤ s + 1 ∧ v = s - i) ∨ (s + 1 < (i : Int) ∧ (i : Int) ≤ s + M + 3 ∧ v = i - s - 2) ∨
    (s + M + 3 < (i : Int) ∧ v = 2 * M + 4 + s - i)

theorem cycDown_getD (s M : Int) (hs : 0 ≤ s) (hM : s ≤ M) (i : Nat) (hi : (i : Int) < 2 * M + 4) :
    CycVal s M i ((cycDown s M).getD i 0) := by
  unfold cycDown CycVal
  rw [List.getD_eq_getElem?_getD]
  by_cases h1 : (i : Int) ≤ s + 1
  · rw [List.getElem?_append_left (by rw [rangeDown_length]; omega), ← List.getD_eq_getElem?_getD,
      getD_rangeDown _ _ _ (by omega)]
    omega
  · rw [List.getElem?_append_right (by rw [rangeDown_length]; omega), rangeDown_length]
    by_cases h2 : (i : Int) ≤ s + M + 3
    · rw [List.getElem?_append_left (by rw [rangeUp_length]; omega), ← List.getD_eq_getElem?_getD,
        getD_rangeUp _ _ _ (by omega)]
      omega
    · rw [List.getElem?_append_right (by rw [rangeUp_length]; omega), rangeUp_length,
        ← List.getD_eq_getElem?_getD, getD_rangeDown _ _ _ (by omega)]
      omega

/-- the column (row) a ray visits at step `k` -/
def W (s M : Int) (k : Nat) : Int := cyc (cycDown s M) k

theorem W_spec (s M : Int) (hs : 0 ≤ s) (hM : s ≤ M) (k : Nat) :
    CycVal s M (k % (2 * M + 4).toNat) (W s M k) := by
  unfold W cyc
  rw [cycDown_length s M hs hM]
  apply cycDown_getD s M hs hM
  have : k % (2 * M + 4).toNat < (2 * M + 4).toNat := Nat.mod_lt _ (by omega)
  omega

theorem succ_mod (j L : Nat) (hL : 1 < L) : (j + 1) % L = if j % L + 1 = L then 0 else j % L + 1 := by
  have h := Nat.mod_lt j (by omega : 0 < L)
  rw [Nat.add_mod, Nat.mod_eq_of_lt hL]
  split
  · next e => rw [e, Nat.mod_self]
  · next e => exact Nat.mod_eq_of_lt (by omega)

/-- three consecutive values: a bounce just beyond a boundary, or a straight step inside -/
def Triple (M a b c : Int) : Prop :=
  (b = -1 ∧ a = 0 ∧ c = 0) ∨ (b = M + 1 ∧ a = M ∧ c = M) ∨
    (0 ≤ b ∧ b ≤ M ∧ ((a = b + 1 ∧ c = b - 1) ∨ (a = b - 1 ∧ c = b + 1)))

theorem W_zero (s M : Int) (hs : 0 ≤ s) (hM : s ≤ M) : W s M 0 = s := by
  have h := W_spec s M hs hM 0
  rw [Nat.zero_mod] at h
  unfold CycVal at h; omega

theorem W_one (s M : Int) (hs : 0 ≤ s) (hM : s ≤ M) : W s M 1 = s - 1 := by
  have h := W_spec s M hs hM 1
  rw [Nat.mod_eq_of_lt (by omega)] at h
  unfold CycVal at h; omega

theorem W_triple (s M : Int) (hs : 0 ≤ s) (hM : s ≤ M) (k : Nat) :
    Triple M (W s M k) (W s M (k + 1)) (W s M (k + 2)) := by
  have h0 := W_spec s M hs hM k
  have h1 := W_spec s M hs hM (k + 1)
  have h2 := W_spec s M hs hM (k + 2)
  have hL : 1 < (2 * M + 4).toNat := by omega
  have hlt := Nat.mod_lt k (by omega : 0 < (2 * M + 4).toNat)
  rw [show k + 2 = (k + 1) + 1 from rfl, succ_mod (k + 1) _ hL] at h2
  rw [succ_mod k _ hL] at h1 h2
  generalize k % (2 * M + 4).toNat = i at *
  generalize W s M k = a at *
  generalize W s M (k + 1) = b at *
  generalize W s M (k + 1 + 1) = c at *
  unfold CycVal at h0 h1 h2
  unfold Triple
  by_cases e1 : i + 1 = (2 * M + 4).toNat
  · rw [if_pos e1] at h1 h2
    simp only [Nat.zero_add] at h2
    rw [if_neg (by omega)] at h2
    rcases h0 with h0 | h0 | h0 <;> rcases h1 with h1 | h1 | h1 <;> rcases h2 with h2 | h2 | h2 <;> omega
  · rw [if_neg e1] at h1 h2
    by_cases e2 : i + 1 + 1 = (2 * M + 4).toNat
    · rw [if_pos e2] at h2
      rcases h0 with h0 | h0 | h0 <;> rcases h1 with h1 | h1 | h1 <;> rcases h2 with h2 | h2 | h2 <;> omega
    · rw [if_neg e2] at h2
      rcases h0 with h0 | h0 | h0 <;> rcases h1 with h1 | h1 | h1 <;> rcases h2 with h2 | h2 | h2 <;> omega

/-! ### 4. the syndrome of a snake-fill: telescoping over the steps of a ray and over the seeds -/

theorem xorSum_range_telescope (k : Nat) (f g : Nat → Bool) (h : ∀ i, i < k → f i = (g i ^^ g (i + 1))) :
    xorSum (List.range k) f = (g 0 ^^ g k) := by
  induction k with
  | zero => simp
  | succ k ih =>
    rw [List.range_succ, xorSum_append, ih (fun i hi => h i (by omega))]
    simp only [xorSum_cons, xorSum_nil, Bool.xor_false]
    rw [h k (by omega)]
    cases g 0 <;> cases g k <;> cases g (k + 1) <;> rfl

theorem xorSum_flatMap {α β : Type} (l : List α) (F : α → List β) (f : β → Bool) :
    xorSum (l.flatMap F) f = xorSum l (fun x => xorSum (F x) f) := by
  induction l with
  | nil => rfl
  | cons x l ih => rw [List.flatMap_cons, xorSum_append, ih, xorSum_cons]

/-- adjacency on a lattice with index maxima `(Mr, Mc)`: `s` is in bounds and next to the plaquette `q` -/
def adjG (Mr Mc : Int) (q s : Int × Int) : Bool :=
  decide ((0 ≤ s.1 ∧ s.1 ≤ Mr ∧ 0 ≤ s.2 ∧ s.2 ≤ Mc) ∧
    ((s.2 = q.2 ∧ (s.1 = q.1 - 1 ∨ s.1 = q.1 + 1)) ∨ (s.1 = q.1 ∧ (s.2 = q.2 - 1 ∨ s.2 = q.2 + 1))))

theorem adj_eq_adjG (R C : Int) (q s : Int × Int) : adj R C q s = adjG (2 * R - 2) (2 * C - 2) q s := by
  obtain ⟨r, c⟩ := s
  unfold adj adjG
  rw [occ_plaq, inBounds_eq_decide, ← Bool.decide_and]

def swap (p : Int × Int) : Int × Int := (p.2, p.1)

theorem adjG_swap (Mr Mc : Int) (q s : Int × Int) : adjG Mr Mc q (swap s) = adjG Mc Mr (swap q) s := by
  unfold adjG swap
  apply decide_eq_decide.mpr
  simp only
  omega

/-- one ray of a downward snake-fill on a lattice with maxima `(Mr, Mc)` -/
def rayD (Mr Mc : Int) (seed : Int × Int) : List (Int × Int) :=
  (List.range (Mr + 1 - seed.1).toNat).map fun (j : Nat) => (seed.1 + (j : Int), W seed.2 Mc j)

/-- the column before step `j` (one to the right of the seed before the first step) -/
def U (s M : Int) : Nat → Int
  | 0 => s + 1
  | j + 1 => W s M j

theorem U_triple (s M : Int) (hs : 0 ≤ s) (hM : s ≤ M) (j : Nat) : Triple M (U s M j) (U s M (j + 1)) (U s M (j + 2)) := by
  cases j with
  | zero =>
    simp only [U]
    rw [W_zero s M hs hM, W_one s M hs hM]
    unfold Triple; omega
  | succ j => exact W_triple s M hs hM j

/-- a ray anticommutes, above the last row, exactly with the plaquettes north and east of its seed -/
theorem ray_bit (Mr Mc : Int) (seed q : Int × Int) (h0 : 0 ≤ seed.1) (h1 : seed.1 ≤ Mr) (h2 : 0 ≤ seed.2)
    (h3 : seed.2 ≤ Mc) (q0 : 0 ≤ q.1) (q1 : q.1 < Mr) (q2 : 0 ≤ q.2) (q3 : q.2 ≤ Mc) :
    xorSum (rayD Mr Mc seed) (adjG Mr Mc q) =
      (decide (q = (seed.1 - 1, seed.2)) ^^ decide (q = (seed.1, seed.2 + 1))) := by
  obtain ⟨sr, sc⟩ := seed
  obtain ⟨qr, qc⟩ := q
  simp only at h0 h1 h2 h3 q0 q1 q2 q3
  unfold rayD
  rw [xorSum_map]
  simp only
  have key := xorSum_range_telescope (Mr + 1 - sr).toNat
    (fun j => adjG Mr Mc (qr, qc) (sr + (j : Int), W sc Mc j))
    (fun j => decide ((qr = sr + (j : Int) - 1 ∧ qc = U sc Mc (j + 1)) ∨ (qr = sr + (j : Int) ∧ qc = U sc Mc j)))
    (by
      intro j hj
      have t := U_triple sc Mc h2 h3 j
      rw [show U sc Mc (j + 2) = W sc Mc (j + 1) from rfl, show U sc Mc (j + 1) = W sc Mc j from rfl] at t
      rw [show U sc Mc (j + 1 + 1) = W sc Mc (j + 1) from rfl, show U sc Mc (j + 1) = W sc Mc j from rfl]
      generalize U sc Mc j = a at *
      generalize W sc Mc j = b at *
      generalize W sc Mc (j + 1) = c at *
      unfold adjG
      simp only
      rw [xor_decide]
      apply decide_eq_decide.mpr
      unfold Triple at t
      push_cast
      omega)
  have e : decide ((qr = sr + ((Mr + 1 - sr).toNat : Int) - 1 ∧ qc = U sc Mc ((Mr + 1 - sr).toNat + 1)) ∨
      (qr = sr + ((Mr + 1 - sr).toNat : Int) ∧ qc = U sc Mc (Mr + 1 - sr).toNat)) = false := by
    apply decide_eq_false; omega
  rw [key, e, Bool.xor_false, xor_decide, show U sc Mc (0 + 1) = W sc Mc 0 from rfl,
    show U sc Mc 0 = sc + 1 from rfl, W_zero sc Mc h2 h3]
  apply decide_eq_decide.mpr
  simp only [Prod.mk.injEq]
  push_cast
  omega

/-- all rays of a downward snake-fill -/
def fillD (Mr Mc : Int) (start : Int × Int) : List (Int × Int) :=
  (List.range (min (Mr + 1 - start.1).toNat (Mc + 1 - start.2).toNat)).flatMap fun (k : Nat) =>
    rayD Mr Mc (start.1 + (k : Int), start.2 + (k : Int))

/-- a downward snake-fill anticommutes, above the last row, exactly with the plaquette north of its start -/
theorem fill_bit (Mr Mc : Int) (start q : Int × Int) (h0 : 0 ≤ start.1) (h1 : start.1 ≤ Mr) (h2 : 0 ≤ start.2)
    (h3 : start.2 ≤ Mc) (q0 : 0 ≤ q.1) (q1 : q.1 < Mr) (q2 : 0 ≤ q.2) (q3 : q.2 ≤ Mc) :
    xorSum (fillD Mr Mc start) (adjG Mr Mc q) = decide (q = (start.1 - 1, start.2)) := by
  obtain ⟨r0, c0⟩ := start
  obtain ⟨qr, qc⟩ := q
  simp only at h0 h1 h2 h3 q0 q1 q2 q3
  unfold fillD
  rw [xorSum_flatMap]
  simp only
  have key := xorSum_range_telescope (min (Mr + 1 - r0).toNat (Mc + 1 - c0).toNat)
    (fun k => xorSum (rayD Mr Mc (r0 + (k : Int), c0 + (k : Int))) (adjG Mr Mc (qr, qc)))
    (fun k => decide ((qr, qc) = (r0 + (k : Int) - 1, c0 + (k : Int))))
    (by
      intro k hk
      rw [ray_bit Mr Mc _ (qr, qc) (by simp only; omega) (by simp only; omega) (by simp only; omega)
        (by simp only; omega) q0 q1 q2 q3]
      congr 1
      apply decide_eq_decide.mpr
      simp only [Prod.mk.injEq]
      push_cast
      omega)
  rw [key]
  have e : decide ((qr, qc) = (r0 + ((min (Mr + 1 - r0).toNat (Mc + 1 - c0).toNat : Nat) : Int) - 1,
      c0 + ((min (Mr + 1 - r0).toNat (Mc + 1 - c0).toNat : Nat) : Int))) = false := by
    apply decide_eq_false
    simp only [Prod.mk.injEq]
    omega
  rw [e, Bool.xor_false]
  apply decide_eq_decide.mpr
  simp only [Prod.mk.injEq]
  omega

/-! ### 5. the model's snake-fill in terms of `fillD`; its syndrome -/

theorem W_parity (s M : Int) (hs : 0 ≤ s) (hM : s ≤ M) (k : Nat) : (W s M k + (k : Int)) % 2 = s % 2 := by
  have h := W_spec s M hs hM k
  have hd : (k % (2 * M + 4).toNat) % 2 = k % 2 := Nat.mod_mod_of_dvd k ⟨(M + 2).toNat, by omega⟩
  generalize k % (2 * M + 4).toNat = i at *
  unfold CycVal at h
  omega

theorem allSites_rayD (Mr Mc : Int) (seed : Int × Int) (h2 : 0 ≤ seed.2) (h3 : seed.2 ≤ Mc)
    (hp : (seed.1 + seed.2) % 2 = 0) : AllSites (rayD Mr Mc seed) := by
  intro rc hrc
  unfold rayD at hrc
  rcases List.mem_map.mp hrc with ⟨j, _, rfl⟩
  have := W_parity seed.2 Mc h2 h3 j
  simp only
  omega

theorem allSites_fillD (Mr Mc : Int) (start : Int × Int) (h2 : 0 ≤ start.2)
    (hp : (start.1 + start.2) % 2 = 0) : AllSites (fillD Mr Mc start) := by
  intro rc hrc
  unfold fillD at hrc
  rcases List.mem_flatMap.mp hrc with ⟨k, hk, hrc⟩
  have hk' := List.mem_range.mp hk
  exact allSites_rayD Mr Mc _ (by simp only; omega) (by simp only; omega) (by simp only; omega) rc hrc

theorem allSites_map_swap (l : List (Int × Int)) (h : AllSites l) : AllSites (l.map swap) := by
  intro rc hrc
  rcases List.mem_map.mp hrc with ⟨s, hs, rfl⟩
  have := h s hs
  simp only [swap]; omega

theorem snakeFillSites_down (R C : Int) (start : Int × Int) :
    snakeFillSites R C start true =
      if inBounds R C start.1 start.2 then fillD (maxRow R) (maxCol C) start else [] := by
  unfold snakeFillSites fillD fillSeeds
  split
  · rw [List.flatMap_map]; rfl
  · rfl

theorem snakeFillSites_right (R C : Int) (start : Int × Int) :
    snakeFillSites R C start false =
      if inBounds R C start.1 start.2 then (fillD (maxCol C) (maxRow R) (swap start)).map swap else [] := by
  unfold snakeFillSites fillD fillSeeds
  split
  · rw [List.flatMap_map, List.map_flatMap, Nat.min_comm]
    congr 1
    funext k
    simp only [raySites, rayD, swap, Bool.false_eq_true, if_false, List.map_map]
    rfl
  · rfl

theorem allSites_snakeFillSites (R C : Int) (start : Int × Int) (down : Bool) (hp : (start.1 + start.2) % 2 = 0) :
    AllSites (snakeFillSites R C start down) := by
  cases down
  · rw [snakeFillSites_right]
    split
    · next hb =>
      rw [inBounds_iff] at hb
      exact allSites_map_swap _ (allSites_fillD _ _ _ (by simp only [swap]; omega) (by simp only [swap]; omega))
    · intro rc hrc; simp at hrc
  · rw [snakeFillSites_down]
    split
    · next hb =>
      rw [inBounds_iff] at hb
      exact allSites_fillD _ _ _ (by omega) hp
    · intro rc hrc; simp at hrc

theorem snakeFill_eq_yop (R C : Int) (start : Int × Int) (down : Bool) :
    snakeFill R C start down = yop R C (snakeFillSites R C start down) := rfl

/-- **downward snake-fill**: above the last row it anticommutes exactly with the plaquette north of its start -/
theorem fill_syndrome_down (R C : Int) (hR : 2 ≤ R) (hC : 2 ≤ C) (start q : Int × Int)
    (hp : (start.1 + start.2) % 2 = 0) (hq : RealP R C q) (hlt : q.1 < maxRow R) :
    bsp (stabOp R C q) (snakeFill R C start true) = decide (q = (start.1 - 1, start.2)) := by
  rw [snakeFill_eq_yop, bsp_stab_yop R C hR hC q hq _ (allSites_snakeFillSites R C start true hp),
    snakeFillSites_down]
  unfold RealP at hq
  unfold maxRow at hlt
  split
  · next hb =>
    rw [inBounds_iff] at hb
    rw [xorSum_congr _ _ _ (fun s _ => adj_eq_adjG R C q s)]
    exact fill_bit (2 * R - 2) (2 * C - 2) start q (by omega) (by omega) (by omega) (by omega) (by omega)
      (by omega) (by omega) (by omega)
  · next hb =>
    rw [inBounds_iff] at hb
    symm
    simp only [xorSum_nil]
    apply decide_eq_false
    intro h
    rw [h] at hq hlt
    simp only at hq hlt
    omega

/-- **rightward snake-fill**: left of the last column it anticommutes exactly with the plaquette west of its start -/
theorem fill_syndrome_right (R C : Int) (hR : 2 ≤ R) (hC : 2 ≤ C) (start q : Int × Int)
    (hp : (start.1 + start.2) % 2 = 0) (hq : RealP R C q) (hlt : q.2 < maxCol C) :
    bsp (stabOp R C q) (snakeFill R C start false) = decide (q = (start.1, start.2 - 1)) := by
  rw [snakeFill_eq_yop, bsp_stab_yop R C hR hC q hq _ (allSites_snakeFillSites R C start false hp),
    snakeFillSites_right]
  unfold RealP at hq
  unfold maxCol at hlt
  split
  · next hb =>
    rw [inBounds_iff] at hb
    rw [xorSum_map, xorSum_congr _ _ _ (fun s _ => (adj_eq_adjG R C q (swap s)).trans (adjG_swap _ _ q s))]
    rw [show maxCol C = 2 * C - 2 from rfl, show maxRow R = 2 * R - 2 from rfl,
      fill_bit (2 * C - 2) (2 * R - 2) (swap start) (swap q) (by simp only [swap]; omega)
      (by simp only [swap]; omega) (by simp only [swap]; omega) (by simp only [swap]; omega)
      (by simp only [swap]; omega) (by simp only [swap]; omega) (by simp only [swap]; omega)
      (by simp only [swap]; omega)]
    apply decide_eq_decide.mpr
    obtain ⟨a, b⟩ := q
    obtain ⟨c, d⟩ := start
    simp only [swap, Prod.mk.injEq]
    omega
  · next hb =>
    rw [inBounds_iff] at hb
    symm
    simp only [xorSum_nil]
    apply decide_eq_false
    intro h
    rw [h] at hq hlt
    simp only at hq hlt
    omega

/-- **`_partial_recovery`**: away from the boundary the syndrome bits are pushed to (last row for R ≥ C, last column for
    R < C) the partial recovery of plaquette `p` anticommutes exactly with `p` -/
theorem partial_bit (R C : Int) (hR : 2 ≤ R) (hC : 2 ≤ C) (p q : Int × Int) (hp : RealP R C p) (hq : RealP R C q)
    (hlt : if R < C then q.2 < maxCol C else q.1 < maxRow R) :
    bsp (stabOp R C q) (partialRecovery R C p) = decide (q = p) := by
  have hb : inBounds R C p.1 p.2 = true := by rw [inBounds_iff]; unfold RealP at hp; omega
  unfold partialRecovery
  rw [hb]
  simp only [Bool.not_true, Bool.false_eq_true, if_false]
  unfold RealP at hp
  split
  · next h =>
    rw [if_pos h] at hlt
    rw [fill_syndrome_right R C hR hC _ q (by simp only; omega) hq hlt]
    apply decide_eq_decide.mpr
    obtain ⟨a, b⟩ := q
    obtain ⟨c, d⟩ := p
    simp only [Prod.mk.injEq]
    omega
  · next h =>
    rw [if_neg h] at hlt
    rw [fill_syndrome_down R C hR hC _ q (by simp only; omega) hq hlt]
    apply decide_eq_decide.mpr
    obtain ⟨a, b⟩ := q
    obtain ⟨c, d⟩ := p
    simp only [Prod.mk.injEq]
    omega

end Qec.PlanarYL
