/-
  The T-join lemma, generic: in ANY finite multigraph (edges = a list of ordered pairs over a type
  `V`, self loops and repeated edges allowed) with a function `dist : V → V → Nat` that is symmetric,
  satisfies the triangle inequality and is `≤ 1` on every edge, the set of odd-degree vertices has a
  perfect matching (a list of pairs in which every odd-degree vertex occurs exactly once and no
  other vertex occurs) of total `dist` at most the number of edges.

  Proof: induction on the edge list, one edge `(a, b)` at a time — adding the edge flips the parity
  of `a` and of `b`; re-route the at most two pairs that touch `a`, `b`:
    a, b both even before   →  add the pair (a, b)                       (+ dist a b ≤ 1)
    a odd (mate a'), b even →  replace (a, a') by (b, a')                (dist b a' ≤ 1 + dist a a')
    a, b odd, mates a', b'  →  replace (a, a'), (b, b') by (a', b')      (dist a' b' ≤ dist a' a + 1 + dist b b')
    a, b odd and mated      →  drop the pair (a, b).
  No trails, no connectivity, core Lean only.
-/
import QecVerif.Lemmas.Decoders
import QecVerif.Lemmas.Lattice.Toric
import QecVerif.Lemmas.Lattice.Planar
import QecVerif.Lemmas.Lattice.PlanarCode
import QecVerif.Lemmas.MwpmReduce
import QecVerif.Lemmas.MwpmSplit
namespace Qec.TJoin
open Qec Qec.Dec

variable {V : Type} [DecidableEq V]

/-- number of occurrences of `p` among the endpoints (= degree of `p`, a self loop counting twice) -/
def deg (m : List (V × V)) (p : V) : Nat := (ends m).count p

/-- total `dist` of a list of pairs -/
def cost (dist : V → V → Nat) (m : List (V × V)) : Nat := (m.map fun p => dist p.1 p.2).sum

/-- indicator -/
def ind (x p : V) : Nat := if x = p then 1 else 0

theorem ind_self (x : V) : ind x x = 1 := by simp [ind]
theorem ind_ne {x p : V} (h : x ≠ p) : ind x p = 0 := by simp [ind, h]
theorem ind_le (x p : V) : ind x p ≤ 1 := by unfold ind; split <;> omega

theorem deg_nil (p : V) : deg ([] : List (V × V)) p = 0 := rfl

theorem deg_cons (x : V × V) (l : List (V × V)) (p : V) :
    deg (x :: l) p = ind x.1 p + ind x.2 p + deg l p := by
  have he : ends (x :: l) = x.1 :: x.2 :: ends l := by simp [ends]
  unfold deg ind
  rw [he, List.count_cons, List.count_cons]
  by_cases h1 : x.1 = p <;> by_cases h2 : x.2 = p <;> simp [h1, h2] <;> omega

omit [DecidableEq V] in
theorem cost_nil (dist : V → V → Nat) : cost dist ([] : List (V × V)) = 0 := rfl

omit [DecidableEq V] in
theorem cost_cons (dist : V → V → Nat) (x : V × V) (l : List (V × V)) :
    cost dist (x :: l) = dist x.1 x.2 + cost dist l := by
  simp [cost]

/-- a vertex that occurs in a list of pairs can be brought to the front as a first component,
    keeping all degrees and (for a symmetric `dist`) the cost -/
theorem extract (dist : V → V → Nat) (hsymm : ∀ a b, dist a b = dist b a)
    (m : List (V × V)) (a : V) (h : 0 < deg m a) :
    ∃ a' m', (∀ v, deg m v = deg ((a, a') :: m') v) ∧ cost dist m = cost dist ((a, a') :: m') := by
  induction m with
  | nil => simp [deg_nil] at h
  | cons x l ih =>
    obtain ⟨x1, x2⟩ := x
    by_cases h1 : x1 = a
    · subst h1
      exact ⟨x2, l, fun _ => rfl, rfl⟩
    · by_cases h2 : x2 = a
      · subst h2
        refine ⟨x1, l, fun v => ?_, ?_⟩
        · rw [deg_cons, deg_cons]; simp only; omega
        · rw [cost_cons, cost_cons]; simp only; rw [hsymm]
      · have hl : 0 < deg l a := by
          rw [deg_cons, ind_ne h1, ind_ne h2] at h; simpa using h
        obtain ⟨a', m', hd, hc⟩ := ih hl
        refine ⟨a', (x1, x2) :: m', fun v => ?_, ?_⟩
        · have := hd v
          rw [deg_cons] at this
          rw [deg_cons, deg_cons, deg_cons, this]; simp only; omega
        · rw [cost_cons] at hc
          rw [cost_cons, cost_cons, cost_cons, hc]; simp only; omega

/-- **T-join lemma**: the odd-degree vertices of any edge list have a perfect matching of total
    distance at most the number of edges.  `deg M v = deg E v % 2` says: `v` occurs exactly once
    among the endpoints of `M` when its degree in `E` is odd, and not at all when it is even. -/
theorem tjoin (dist : V → V → Nat) (hsymm : ∀ a b, dist a b = dist b a)
    (htri : ∀ a b c, dist a c ≤ dist a b + dist b c)
    (E : List (V × V)) (hadj : ∀ e ∈ E, dist e.1 e.2 ≤ 1) :
    ∃ M : List (V × V), (∀ v, deg M v = deg E v % 2) ∧ cost dist M ≤ E.length := by
  induction E with
  | nil => exact ⟨[], fun v => by simp [deg_nil], by simp [cost_nil]⟩
  | cons e E ih =>
    obtain ⟨a, b⟩ := e
    obtain ⟨M, hM, hc⟩ := ih (fun e he => hadj e (by simp [he]))
    have hab : dist a b ≤ 1 := hadj (a, b) (by simp)
    simp only [List.length_cons]
    by_cases heq : a = b
    · subst heq
      refine ⟨M, fun v => ?_, by omega⟩
      rw [hM v, deg_cons]; simp only; omega
    · have hba : b ≠ a := fun h => heq h.symm
      have key : ∀ (M' : List (V × V)),
          (∀ v, deg M' v = (deg M v + ind a v + ind b v) % 2) →
          ∀ v, deg M' v = deg ((a, b) :: E) v % 2 := by
        intro M' h v
        rw [h v, hM v, deg_cons]; simp only; omega
      have hMa : deg M a ≤ 1 := by rw [hM]; omega
      have hMb : deg M b ≤ 1 := by rw [hM]; omega
      by_cases ha : deg M a = 0
      · by_cases hb : deg M b = 0
        · -- both even: add the pair
          refine ⟨(a, b) :: M, key _ (fun v => ?_), ?_⟩
          · rw [deg_cons]; simp only
            have h0 := hM v
            by_cases va : a = v
            · subst va; have i1 := ind_self a; have i2 := ind_ne hba; omega
            · by_cases vb : b = v
              · subst vb; have i1 := ind_self b; have i2 := ind_ne heq; omega
              · have i1 := ind_ne va; have i2 := ind_ne vb; omega
          · rw [cost_cons]; simp only; omega
        · -- b odd with mate b', a even: re-route to (a, b')
          obtain ⟨b', M', hd, hcost⟩ := extract dist hsymm M b (by omega)
          have hb1 : deg M b = 1 := by omega
          have e1 := hd b
          have e2 := hd a
          rw [deg_cons, ind_self] at e1
          rw [deg_cons, ind_ne hba] at e2
          simp only at e1 e2
          have hb'b : ind b' b = 0 := by omega
          have hM'b : deg M' b = 0 := by omega
          have hb'a : ind b' a = 0 := by omega
          have hM'a : deg M' a = 0 := by omega
          refine ⟨(a, b') :: M', key _ (fun v => ?_), ?_⟩
          · have e3 := hd v
            rw [deg_cons] at e3 ⊢; simp only at e3 ⊢
            have h0 := hM v
            by_cases va : a = v
            · subst va; have i1 := ind_self a; have i2 := ind_ne hba; omega
            · by_cases vb : b = v
              · subst vb; have i1 := ind_self b; have i2 := ind_ne heq; omega
              · have i1 := ind_ne va; have i2 := ind_ne vb; omega
          · rw [cost_cons] at hcost ⊢; simp only at hcost ⊢
            have := htri a b b'
            omega
      · have ha1 : deg M a = 1 := by omega
        obtain ⟨a', M', hd, hcost⟩ := extract dist hsymm M a (by omega)
        have e1 := hd a
        rw [deg_cons, ind_self] at e1; simp only at e1
        have ha'a : ind a' a = 0 := by omega
        have hM'a : deg M' a = 0 := by omega
        by_cases hb : deg M b = 0
        · -- a odd with mate a', b even: re-route to (b, a')
          have e2 := hd b
          rw [deg_cons, ind_ne heq] at e2; simp only at e2
          have ha'b : ind a' b = 0 := by omega
          have hM'b : deg M' b = 0 := by omega
          refine ⟨(b, a') :: M', key _ (fun v => ?_), ?_⟩
          · have e3 := hd v
            rw [deg_cons] at e3 ⊢; simp only at e3 ⊢
            have h0 := hM v
            by_cases va : a = v
            · subst va; have i1 := ind_self a; have i2 := ind_ne hba; omega
            · by_cases vb : b = v
              · subst vb; have i1 := ind_self b; have i2 := ind_ne heq; omega
              · have i1 := ind_ne va; have i2 := ind_ne vb; omega
          · rw [cost_cons] at hcost ⊢; simp only at hcost ⊢
            have := htri b a a'
            have := hsymm a b
            omega
        · have hb1 : deg M b = 1 := by omega
          have e2 := hd b
          rw [deg_cons, ind_ne heq] at e2; simp only at e2
          by_cases hm : a' = b
          · -- mated to each other: drop the pair
            subst hm
            rw [ind_self] at e2
            have hM'b : deg M' a' = 0 := by omega
            refine ⟨M', key _ (fun v => ?_), ?_⟩
            · have e3 := hd v
              rw [deg_cons] at e3; simp only at e3
              have h0 := hM v
              by_cases va : a = v
              · subst va; have i1 := ind_self a; have i2 := ind_ne hba; omega
              · by_cases vb : a' = v
                · subst vb; have i1 := ind_self a'; have i2 := ind_ne heq; omega
                · have i1 := ind_ne va; have i2 := ind_ne vb; omega
            · rw [cost_cons] at hcost; omega
          · -- distinct mates a', b': join them
            rw [ind_ne hm] at e2
            obtain ⟨b', M'', hd2, hcost2⟩ := extract dist hsymm M' b (by omega)
            have f1 := hd2 b
            have f2 := hd2 a
            rw [deg_cons, ind_self] at f1
            rw [deg_cons, ind_ne hba] at f2
            simp only at f1 f2
            have hb'b : ind b' b = 0 := by omega
            have hM''b : deg M'' b = 0 := by omega
            have hb'a : ind b' a = 0 := by omega
            have hM''a : deg M'' a = 0 := by omega
            refine ⟨(a', b') :: M'', key _ (fun v => ?_), ?_⟩
            · have e3 := hd v
              have f3 := hd2 v
              rw [deg_cons] at e3 f3 ⊢; simp only at e3 f3 ⊢
              have h0 := hM v
              by_cases va : a = v
              · subst va; have i1 := ind_self a; have i2 := ind_ne hba; omega
              · by_cases vb : b = v
                · subst vb; have i1 := ind_self b; have i2 := ind_ne heq; omega
                · have i1 := ind_ne va; have i2 := ind_ne vb; omega
            · rw [cost_cons] at hcost hcost2 ⊢; simp only at hcost hcost2 ⊢
              have t1 := htri a' a b'
              have t2 := htri a b b'
              have := hsymm a a'
              omega

/-- a pair of the list contributes to the degrees of its endpoints -/
theorem deg_ge_of_mem (m : List (V × V)) (x : V × V) (p : V) (h : x ∈ m) :
    ind x.1 p + ind x.2 p ≤ deg m p := by
  induction m with
  | nil => simp at h
  | cons y ys ih =>
    rw [deg_cons]
    rcases List.mem_cons.mp h with rfl | h
    · omega
    · have := ih h; omega

theorem deg_eq_zero_of_pred (m : List (V × V)) (P : V → Prop) (h : ∀ x ∈ m, P x.1 ∧ P x.2)
    (p : V) (hp : ¬ P p) : deg m p = 0 := by
  induction m with
  | nil => rfl
  | cons x xs ih =>
    rw [deg_cons, ih (fun y hy => h y (by simp [hy]))]
    have := h x (by simp)
    rw [ind_ne (fun e => hp (by rw [← e]; exact this.1)), ind_ne (fun e => hp (by rw [← e]; exact this.2))]

theorem mem_ends_of_deg_pos (m : List (V × V)) (p : V) (h : 0 < deg m p) :
    ∃ x ∈ m, x.1 = p ∨ x.2 = p := by
  have : p ∈ ends m := List.count_pos_iff.mp h
  unfold ends at this
  obtain ⟨x, hx, hp⟩ := List.mem_flatMap.mp this
  simp only [List.mem_cons, List.not_mem_nil, or_false] at hp
  exact ⟨x, hx, hp.imp Eq.symm Eq.symm⟩

omit [DecidableEq V] in
theorem length_ends (m : List (V × V)) : (ends m).length = 2 * m.length := by
  induction m with
  | nil => rfl
  | cons y ys ih =>
    have he : ends (y :: ys) = y.1 :: y.2 :: ends ys := by simp [ends]
    rw [he]; simp only [List.length_cons, ih]; omega

/-- **T-join lemma, matching form**: if `D` lists (without repetition) exactly the odd-degree vertices
    of the edge list `E`, then the complete graph on `D` has a perfect matching of total distance
    at most `|E|` — in particular `|D|` is even. -/
theorem tjoin_complete (dist : V → V → Nat) (hsymm : ∀ a b, dist a b = dist b a)
    (htri : ∀ a b c, dist a c ≤ dist a b + dist b c)
    (E : List (V × V)) (hadj : ∀ e ∈ E, dist e.1 e.2 ≤ 1)
    (D : List V) (hD : D.Nodup) (hodd : ∀ v, v ∈ D ↔ deg E v % 2 = 1) :
    ∃ M : List (V × V), isPerfectMatchingOfGraph D (pairsOf D) M = true ∧
      cost dist M ≤ E.length ∧ D.length = 2 * M.length := by
  obtain ⟨M, hM, hc⟩ := tjoin dist hsymm htri E hadj
  have hperm : (ends M).Perm D := by
    rw [List.perm_iff_count]
    intro v
    have h1 : (ends M).count v = deg E v % 2 := hM v
    rw [h1]
    by_cases hv : v ∈ D
    · rw [List.count_eq_one_of_mem hD hv]; exact (hodd v).mp hv
    · rw [List.count_eq_zero_of_not_mem hv]
      have := (hodd v).not.mp hv
      omega
  refine ⟨M, pm_of_perm D (pairsOf D) M hD hperm ?_, hc, ?_⟩
  · intro x hx
    have h1 : x.1 ∈ D := hperm.mem_iff.mp (by
      unfold ends; exact List.mem_flatMap.mpr ⟨x, hx, by simp⟩)
    have h2 : x.2 ∈ D := hperm.mem_iff.mp (by
      unfold ends; exact List.mem_flatMap.mpr ⟨x, hx, by simp⟩)
    have hne : x.1 ≠ x.2 := by
      intro e
      have := deg_ge_of_mem M x x.1 hx
      rw [ind_self, ← e, ind_self, hM] at this
      omega
    exact pairsOf_complete D x.1 x.2 h1 h2 hne
  · rw [← hperm.length_eq, length_ends]

/-! ## graphs with a boundary: from the T-join to a matching of the decoder's graph

  `ρ v` — `v` is a real vertex; every other vertex is a boundary (virtual) vertex, all of them at
  mutual distance 0.  `vp a` — the virtual vertex a real vertex `a` may be matched to in the decoder's
  graph, at weight `bd a`.  `dist2` — the metric among real vertices.  The decoder's graph has the
  real odd-degree vertices `ds`, a list `vnodes` of virtual vertices containing every `vp d`, the
  edges `(d, vp d)`, all pairs of `ds` and all pairs of `vnodes` (weight 0). -/

/-- `extract`, also keeping any symmetric property of the pairs -/
theorem extractP (dist : V → V → Nat) (hsymm : ∀ a b, dist a b = dist b a)
    (P : V → V → Prop) (hP : ∀ u v, P u v → P v u)
    (m : List (V × V)) (hm : ∀ x ∈ m, P x.1 x.2) (a : V) (h : 0 < deg m a) :
    ∃ a' m', (∀ v, deg m v = deg ((a, a') :: m') v) ∧ cost dist m = cost dist ((a, a') :: m') ∧
      P a a' ∧ ∀ x ∈ m', P x.1 x.2 := by
  induction m with
  | nil => simp [deg_nil] at h
  | cons x l ih =>
    obtain ⟨x1, x2⟩ := x
    have hx := hm (x1, x2) (by simp)
    have hl : ∀ y ∈ l, P y.1 y.2 := fun y hy => hm y (by simp [hy])
    by_cases h1 : x1 = a
    · subst h1
      exact ⟨x2, l, fun _ => rfl, rfl, hx, hl⟩
    · by_cases h2 : x2 = a
      · subst h2
        refine ⟨x1, l, fun v => ?_, ?_, hP _ _ hx, hl⟩
        · rw [deg_cons, deg_cons]; simp only; omega
        · rw [cost_cons, cost_cons]; simp only; rw [hsymm]
      · have hla : 0 < deg l a := by
          rw [deg_cons, ind_ne h1, ind_ne h2] at h; simpa using h
        obtain ⟨a', m', hd, hc, hp1, hp2⟩ := ih hl hla
        refine ⟨a', (x1, x2) :: m', fun v => ?_, ?_, hp1, ?_⟩
        · have := hd v
          rw [deg_cons] at this
          rw [deg_cons, deg_cons, deg_cons, this]; simp only; omega
        · rw [cost_cons] at hc
          rw [cost_cons, cost_cons, cost_cons, hc]; simp only; omega
        · intro y hy
          rcases List.mem_cons.mp hy with rfl | hy
          · exact hx
          · exact hp2 y hy

section boundary
variable (ρ : V → Bool) (vp : V → V) (bd : V → Nat) (d dist2 : V → V → Nat)

/-- the metric of the graph in which all non-real vertices are one point `∂` with
    `dist(a, ∂) = bd a` -/
def pd (a b : V) : Nat :=
  if ρ a then (if ρ b then min (dist2 a b) (bd a + bd b) else bd a) else (if ρ b then bd b else 0)

omit [DecidableEq V] in
theorem pd_symm (h2 : ∀ a b, dist2 a b = dist2 b a) (a b : V) : pd ρ bd dist2 a b = pd ρ bd dist2 b a := by
  unfold pd
  have := h2 a b
  cases ρ a <;> cases ρ b <;> simp <;> omega

omit [DecidableEq V] in
theorem pd_triangle (h2 : ∀ a b, dist2 a b = dist2 b a) (htri : ∀ a b c, dist2 a c ≤ dist2 a b + dist2 b c)
    (hlip : ∀ a b, bd a ≤ dist2 a b + bd b) (a b c : V) :
    pd ρ bd dist2 a c ≤ pd ρ bd dist2 a b + pd ρ bd dist2 b c := by
  unfold pd
  have t1 := htri a b c
  have l1 := hlip a b
  have l2 := hlip c b
  have l3 := hlip b a
  have l4 := hlip b c
  have s1 := h2 a b
  have s2 := h2 b c
  cases ρ a <;> cases ρ b <;> cases ρ c <;> simp <;> omega

/-- the pairs allowed in the decoder-shaped matching: two distinct real vertices, or a real vertex
    with its own virtual vertex -/
def Legal (a b : V) : Prop :=
  (ρ a = true ∧ ρ b = true ∧ a ≠ b) ∨ (ρ a = true ∧ b = vp a) ∨ (ρ b = true ∧ a = vp b)

omit [DecidableEq V] in
theorem Legal.symm {a b : V} (h : Legal ρ vp a b) : Legal ρ vp b a := by
  rcases h with ⟨h1, h2, h3⟩ | h | h
  · exact .inl ⟨h2, h1, fun e => h3 e.symm⟩
  · exact .inr (.inr h)
  · exact .inr (.inl h)

/-- send one more real vertex `a` to the boundary: to its own virtual vertex when that is free,
    otherwise pair it with the real vertex occupying it -/
theorem sendB (hvp : ∀ a, ρ a = true → ρ (vp a) = false) (hsymm : ∀ a b, d a b = d b a)
    (hd_vp : ∀ a, ρ a = true → d a (vp a) = bd a)
    (hd_same : ∀ a b, ρ a = true → ρ b = true → vp a = vp b → d a b ≤ bd a + bd b)
    (N : List (V × V)) (hleg : ∀ x ∈ N, Legal ρ vp x.1 x.2) (hv1 : ∀ w, ρ w = false → deg N w ≤ 1)
    (a : V) (ha : ρ a = true) (ha0 : deg N a = 0) :
    ∃ N', (∀ x ∈ N', Legal ρ vp x.1 x.2) ∧ (∀ w, ρ w = false → deg N' w ≤ 1) ∧
      (∀ v, ρ v = true → deg N' v = ind a v + deg N v) ∧ cost d N' ≤ cost d N + bd a := by
  have hva := hvp a ha
  by_cases hfree : deg N (vp a) = 0
  · refine ⟨(a, vp a) :: N, ?_, ?_, ?_, ?_⟩
    · intro x hx
      rcases List.mem_cons.mp hx with rfl | hx
      · exact .inr (.inl ⟨ha, rfl⟩)
      · exact hleg x hx
    · intro w hw
      rw [deg_cons]; simp only
      have h1 : ind a w = 0 := ind_ne (fun e => by rw [e] at ha; rw [ha] at hw; cases hw)
      by_cases e : vp a = w
      · subst e; rw [hfree]; have := ind_le (vp a) (vp a); omega
      · rw [ind_ne e]; have := hv1 w hw; omega
    · intro v hv
      rw [deg_cons]; simp only
      have : ind (vp a) v = 0 := ind_ne (fun e => by rw [e] at hva; rw [hva] at hv; cases hv)
      omega
    · rw [cost_cons]; simp only; rw [hd_vp a ha]; omega
  · obtain ⟨c, N'', hdeg, hcost, hlc, hleg''⟩ :=
      extractP d hsymm (Legal ρ vp) (fun _ _ h => Legal.symm ρ vp h) N hleg (vp a) (by omega)
    have hc : ρ c = true ∧ vp a = vp c := by
      rcases hlc with ⟨h1, _, _⟩ | ⟨h1, _⟩ | h
      · rw [hva] at h1; cases h1
      · rw [hva] at h1; cases h1
      · exact h
    have hca : c ≠ a := by
      intro e
      have := hdeg a
      rw [deg_cons, ← e, ind_self] at this; simp only at this
      rw [e] at this
      omega
    refine ⟨(a, c) :: N'', ?_, ?_, ?_, ?_⟩
    · intro x hx
      rcases List.mem_cons.mp hx with rfl | hx
      · exact .inl ⟨ha, hc.1, fun e => hca e.symm⟩
      · exact hleg'' x hx
    · intro w hw
      have h1 : ind a w = 0 := ind_ne (fun e => by rw [e] at ha; rw [ha] at hw; cases hw)
      have h2 : ind c w = 0 := ind_ne (fun e => by rw [e] at hc; rw [hc.1] at hw; cases hw)
      have := hdeg w
      rw [deg_cons] at this ⊢; simp only at this ⊢
      have := hv1 w hw
      omega
    · intro v hv
      have h1 : ind (vp a) v = 0 := ind_ne (fun e => by rw [e] at hva; rw [hva] at hv; cases hv)
      have := hdeg v
      rw [deg_cons] at this ⊢; simp only at this ⊢
      omega
    · rw [cost_cons] at hcost ⊢; simp only at hcost ⊢
      have h1 := hd_same a c ha hc.1 hc.2
      have h2 := hd_vp c hc.1
      rw [← hc.2, hsymm] at h2
      omega

/-- **from the T-join to a decoder-shaped matching**: a list of pairs `M` covering every vertex at most
    once is turned into a list of legal pairs covering the same real vertices (and every virtual
    vertex at most once) at no more cost than `M` has in the collapsed metric `pd` -/
theorem to_boundary_matching (hvp : ∀ a, ρ a = true → ρ (vp a) = false) (hsymm : ∀ a b, d a b = d b a)
    (hd_vp : ∀ a, ρ a = true → d a (vp a) = bd a)
    (hd_same : ∀ a b, ρ a = true → ρ b = true → vp a = vp b → d a b ≤ bd a + bd b)
    (hd_le : ∀ a b, ρ a = true → ρ b = true → d a b ≤ dist2 a b)
    (M : List (V × V)) (hM1 : ∀ v, deg M v ≤ 1) :
    ∃ N, (∀ x ∈ N, Legal ρ vp x.1 x.2) ∧ (∀ w, ρ w = false → deg N w ≤ 1) ∧
      (∀ v, ρ v = true → deg N v = deg M v) ∧ cost d N ≤ cost (pd ρ bd dist2) M := by
  induction M with
  | nil => exact ⟨[], by simp, fun w _ => by simp [deg_nil], fun v _ => rfl, by simp [cost_nil]⟩
  | cons p T ih =>
    obtain ⟨x, y⟩ := p
    have hT1 : ∀ v, deg T v ≤ 1 := fun v => by
      have := hM1 v; rw [deg_cons] at this; omega
    obtain ⟨N, hleg, hv1, hreal, hcost⟩ := ih hT1
    have hx1 := hM1 x
    have hy1 := hM1 y
    rw [deg_cons, ind_self] at hx1 hy1
    simp only at hx1 hy1
    have hxy : ind y x = 0 := by omega
    have hyx : ind x y = 0 := by omega
    have hTx : deg T x = 0 := by omega
    have hTy : deg T y = 0 := by omega
    rw [cost_cons]; simp only
    cases hx : ρ x <;> cases hy : ρ y
    · -- both virtual: drop the pair
      refine ⟨N, hleg, hv1, fun v hv => ?_, by omega⟩
      have i1 : ind x v = 0 := ind_ne (fun e => by rw [e] at hx; rw [hx] at hv; cases hv)
      have i2 : ind y v = 0 := ind_ne (fun e => by rw [e] at hy; rw [hy] at hv; cases hv)
      rw [deg_cons, hreal v hv]; simp only
      omega
    · -- y real, x virtual
      obtain ⟨N', h1, h2, h3, h4⟩ := sendB ρ vp bd d hvp hsymm hd_vp hd_same N hleg hv1 y hy
        (by rw [hreal y hy]; exact hTy)
      refine ⟨N', h1, h2, fun v hv => ?_, ?_⟩
      · have i1 : ind x v = 0 := ind_ne (fun e => by rw [e] at hx; rw [hx] at hv; cases hv)
        rw [h3 v hv, deg_cons, hreal v hv]; simp only
        omega
      · simp only [pd, hx, hy, Bool.false_eq_true, if_false, if_true]; omega
    · -- x real, y virtual
      obtain ⟨N', h1, h2, h3, h4⟩ := sendB ρ vp bd d hvp hsymm hd_vp hd_same N hleg hv1 x hx
        (by rw [hreal x hx]; exact hTx)
      refine ⟨N', h1, h2, fun v hv => ?_, ?_⟩
      · have i2 : ind y v = 0 := ind_ne (fun e => by rw [e] at hy; rw [hy] at hv; cases hv)
        rw [h3 v hv, deg_cons, hreal v hv]; simp only
        omega
      · simp only [pd, hx, hy, Bool.false_eq_true, if_false, if_true]; omega
    · -- both real
      have hne : x ≠ y := by
        intro e; rw [e, ind_self] at hyx; cases hyx
      by_cases hk : dist2 x y ≤ bd x + bd y
      · refine ⟨(x, y) :: N, ?_, ?_, fun v hv => ?_, ?_⟩
        · intro p hp
          rcases List.mem_cons.mp hp with rfl | hp
          · exact .inl ⟨hx, hy, hne⟩
          · exact hleg p hp
        · intro w hw
          have i1 : ind x w = 0 := ind_ne (fun e => by rw [e] at hx; rw [hx] at hw; cases hw)
          have i2 : ind y w = 0 := ind_ne (fun e => by rw [e] at hy; rw [hy] at hw; cases hw)
          rw [deg_cons]; simp only
          have := hv1 w hw; omega
        · rw [deg_cons, deg_cons, hreal v hv]
        · rw [cost_cons]; simp only
          have := hd_le x y hx hy
          simp only [pd, hx, hy, if_true]
          omega
      · obtain ⟨N1, a1, a2, a3, a4⟩ := sendB ρ vp bd d hvp hsymm hd_vp hd_same N hleg hv1 x hx
          (by rw [hreal x hx]; exact hTx)
        obtain ⟨N2, b1, b2, b3, b4⟩ := sendB ρ vp bd d hvp hsymm hd_vp hd_same N1 a1 a2 y hy
          (by rw [a3 y hy, hreal y hy, hTy, hyx])
        refine ⟨N2, b1, b2, fun v hv => ?_, ?_⟩
        · rw [b3 v hv, a3 v hv, deg_cons, hreal v hv]; simp only; omega
        · simp only [pd, hx, hy, if_true]; omega

omit [DecidableEq V] in
theorem cost_append (f : V → V → Nat) (a b : List (V × V)) : cost f (a ++ b) = cost f a + cost f b := by
  simp [cost]

omit [DecidableEq V] in
theorem cost_eq_zero (f : V → V → Nat) (m : List (V × V)) (h : ∀ x ∈ m, f x.1 x.2 = 0) : cost f m = 0 := by
  induction m with
  | nil => rfl
  | cons x xs ih => rw [cost_cons, h x (by simp), ih (fun y hy => h y (by simp [hy]))]

theorem count_filter_nodup (l : List V) (hl : l.Nodup) (p : V → Bool) (v : V) :
    (l.filter p).count v = if v ∈ l ∧ p v = true then 1 else 0 := by
  by_cases hv : v ∈ l ∧ p v = true
  · rw [if_pos hv, List.count_filter hv.2, List.count_eq_one_of_mem hl hv.1]
  · rw [if_neg hv]
    apply List.count_eq_zero_of_not_mem
    intro hm
    exact hv (List.mem_filter.mp hm)

/-- **T-join lemma for a graph with a boundary, in the decoder's shape**: `ds` = the real odd-degree
    vertices of the edge list `E`, `vnodes` = virtual vertices containing `vp d` for every `d ∈ ds`,
    with `|ds| + |vnodes|` even.  Then the graph with the edges `(d, vp d)`, all pairs of `ds` and all
    pairs of `vnodes` has a perfect matching of total weight (`d`; 0 among `vnodes`) at most `|E|`. -/
theorem tjoin_boundary (hvp : ∀ a, ρ a = true → ρ (vp a) = false) (hsymm : ∀ a b, d a b = d b a)
    (hd_vp : ∀ a, ρ a = true → d a (vp a) = bd a)
    (hd_same : ∀ a b, ρ a = true → ρ b = true → vp a = vp b → d a b ≤ bd a + bd b)
    (hd_le : ∀ a b, ρ a = true → ρ b = true → d a b ≤ dist2 a b)
    (h2 : ∀ a b, dist2 a b = dist2 b a) (htri2 : ∀ a b c, dist2 a c ≤ dist2 a b + dist2 b c)
    (hlip : ∀ a b, bd a ≤ dist2 a b + bd b)
    (E : List (V × V)) (hadj : ∀ e ∈ E, pd ρ bd dist2 e.1 e.2 ≤ 1)
    (ds : List V) (hds : ds.Nodup) (hodd : ∀ v, v ∈ ds ↔ ρ v = true ∧ deg E v % 2 = 1)
    (vnodes : List V) (hvn : vnodes.Nodup) (hvirt : ∀ w ∈ vnodes, ρ w = false)
    (hvpmem : ∀ a ∈ ds, vp a ∈ vnodes) (hpar : (ds.length + vnodes.length) % 2 = 0)
    (hd_out : ∀ x ∈ vnodes, ∀ y ∈ vnodes, d x y = 0) :
    ∃ M', isPerfectMatchingOfGraph (ds ++ vnodes)
        (ds.map (fun a => (a, vp a)) ++ pairsOf ds ++ pairsOf vnodes) M' = true ∧
      cost d M' ≤ E.length := by
  obtain ⟨M, hM, hMc⟩ := tjoin (pd ρ bd dist2) (pd_symm ρ bd dist2 h2)
    (pd_triangle ρ bd dist2 h2 htri2 hlip) E hadj
  obtain ⟨N, hleg, hv1, hreal, hNc⟩ := to_boundary_matching ρ vp bd d dist2 hvp hsymm hd_vp hd_same hd_le M
    (fun v => by rw [hM v]; omega)
  -- real vertices: covered once iff in `ds`
  have F1 : ∀ v, ρ v = true → deg N v = if v ∈ ds then 1 else 0 := by
    intro v hv
    rw [hreal v hv, hM v]
    by_cases hm : v ∈ ds
    · rw [if_pos hm]; exact ((hodd v).mp hm).2
    · rw [if_neg hm]
      have : ¬ (deg E v % 2 = 1) := fun h => hm ((hodd v).mpr ⟨hv, h⟩)
      omega
  have F2 : ∀ x ∈ N, ∀ u, (u = x.1 ∨ u = x.2) → ρ u = true → u ∈ ds := by
    intro x hx u hu hru
    have h1 := deg_ge_of_mem N x u hx
    have h2 : 1 ≤ ind x.1 u + ind x.2 u := by
      rcases hu with rfl | rfl
      · rw [ind_self]; omega
      · rw [ind_self]; omega
    have := F1 u hru
    by_cases hm : u ∈ ds
    · exact hm
    · rw [if_neg hm] at this; omega
  have F3 : ∀ w, ρ w = false → 0 < deg N w → w ∈ vnodes := by
    intro w hw hpos
    obtain ⟨x, hx, hxw⟩ := mem_ends_of_deg_pos N w hpos
    rcases hleg x hx with ⟨r1, r2, _⟩ | ⟨r1, e⟩ | ⟨r2, e⟩
    · rcases hxw with rfl | rfl
      · rw [r1] at hw; cases hw
      · rw [r2] at hw; cases hw
    · rcases hxw with rfl | rfl
      · rw [r1] at hw; cases hw
      · rw [e]; exact hvpmem _ (F2 x hx _ (.inl rfl) r1)
    · rcases hxw with rfl | rfl
      · rw [e]; exact hvpmem _ (F2 x hx _ (.inr rfl) r2)
      · rw [r2] at hw; cases hw
  have hdsreal : ∀ v ∈ ds, ρ v = true := fun v hv => ((hodd v).mp hv).1
  let free : V → Bool := fun w => deg N w == 0
  have hperm1 : (ends N).Perm (ds ++ vnodes.filter (fun w => !free w)) := by
    rw [List.perm_iff_count]
    intro v
    rw [List.count_append, count_filter_nodup vnodes hvn]
    show deg N v = _
    cases hv : ρ v
    · have c0 : ds.count v = 0 := List.count_eq_zero_of_not_mem (fun h => by
        rw [hdsreal v h] at hv; cases hv)
      rw [c0]
      have := hv1 v hv
      by_cases hz : deg N v = 0
      · rw [hz]; simp [free, hz]
      · have hin := F3 v hv (by omega)
        have : deg N v = 1 := by omega
        simp [free, this, hin]
    · have c0 : ¬ (v ∈ vnodes ∧ (!free v) = true) := fun h => by rw [hvirt v h.1] at hv; cases hv
      rw [if_neg c0, F1 v hv]
      by_cases hm : v ∈ ds
      · rw [if_pos hm, List.count_eq_one_of_mem hds hm]
      · rw [if_neg hm, List.count_eq_zero_of_not_mem hm]
  have hsplit : (vnodes.filter free ++ vnodes.filter (fun w => !free w)).Perm vnodes :=
    List.filter_append_perm free vnodes
  have hrest_even : (vnodes.filter free).length % 2 = 0 := by
    have l1 := hperm1.length_eq
    have l2 := hsplit.length_eq
    rw [length_ends, List.length_append] at l1
    rw [List.length_append] at l2
    omega
  have hrest_nd : (vnodes.filter free).Nodup := hvn.filter _
  refine ⟨N ++ pairUp (vnodes.filter free), pm_of_perm _ _ _ ?_ ?_ ?_, ?_⟩
  · rw [List.nodup_append]
    refine ⟨hds, hvn, fun a ha b hb e => ?_⟩
    have := hdsreal a ha
    rw [e, hvirt b hb] at this; cases this
  · rw [ends_append, ends_pairUp _ hrest_even]
    refine (hperm1.append_right _).trans ?_
    rw [List.append_assoc]
    exact List.Perm.append_left ds (List.perm_append_comm.trans hsplit)
  · intro x hx
    rcases List.mem_append.mp hx with hx | hx
    · rcases hleg x hx with ⟨r1, r2, hne⟩ | ⟨r1, e⟩ | ⟨r2, e⟩
      · have m1 := F2 x hx _ (.inl rfl) r1
        have m2 := F2 x hx _ (.inr rfl) r2
        rcases pairsOf_complete ds x.1 x.2 m1 m2 hne with h | h
        · exact .inl (List.mem_append_left _ (List.mem_append_right _ h))
        · exact .inr (List.mem_append_left _ (List.mem_append_right _ h))
      · refine .inl (List.mem_append_left _ (List.mem_append_left _ ?_))
        exact List.mem_map.mpr ⟨x.1, F2 x hx _ (.inl rfl) r1, by rw [← e]⟩
      · refine .inr (List.mem_append_left _ (List.mem_append_left _ ?_))
        exact List.mem_map.mpr ⟨x.2, F2 x hx _ (.inr rfl) r2, by rw [← e]⟩
    · obtain ⟨m1, m2, hne⟩ := pairUp_mem _ hrest_nd x hx
      rcases pairsOf_complete vnodes x.1 x.2 (List.mem_filter.mp m1).1 (List.mem_filter.mp m2).1 hne with h | h
      · exact .inl (List.mem_append_right _ h)
      · exact .inr (List.mem_append_right _ h)
  · rw [cost_append, cost_eq_zero d (pairUp (vnodes.filter free)) (fun x hx => by
      obtain ⟨m1, m2, _⟩ := pairUp_mem _ hrest_nd x hx
      exact hd_out _ (List.mem_filter.mp m1).1 _ (List.mem_filter.mp m2).1)]
    omega

end boundary

end Qec.TJoin

/-! ## the torus: the decoder's distance is a metric in which lattice neighbours are at distance ≤ 1 -/

namespace Qec.ChainToric
open Qec Qec.Dec Qec.Toric Qec.ToricLemmas Qec.TJoin Qec.NaiveDecode Qec.MwpmReduce

/-- a representative of a residue class that lies in `(-m/2, m/2]` has the least absolute value -/
theorem natAbs_le_of_congr {m t s : Int} (hm : 0 < m) (h1 : -m < 2 * t) (h2 : 2 * t ≤ m)
    (h : t % m = s % m) : t.natAbs ≤ s.natAbs := by
  have hd : m ∣ t - s := Int.dvd_of_emod_eq_zero (Int.emod_eq_emod_iff_emod_sub_eq_zero.mp h)
  obtain ⟨k, hk⟩ := hd
  rcases Int.lt_trichotomy k 0 with hneg | hz | hpos
  · have := Int.mul_le_mul_of_nonneg_left (show k ≤ -1 by omega) (show 0 ≤ m by omega)
    rw [Int.mul_neg, Int.mul_one] at this
    omega
  · subst hz
    rw [Int.mul_zero] at hk
    have : t = s := by omega
    rw [this]
  · have := Int.mul_le_mul_of_nonneg_left (show 1 ≤ k by omega) (show 0 ≤ m by omega)
    rw [Int.mul_one] at this
    omega

/-- triangle inequality for the cyclic step -/
theorem step_triangle {m : Int} (hm : 0 < m) (x y z : Int) :
    (step m x z).natAbs ≤ (step m x y).natAbs + (step m y z).natAbs := by
  have hb := step_bounds hm x z
  have e1 := step_emod hm x y
  have e2 := step_emod hm y z
  have e3 := step_emod hm x z
  have hs : (x + (step m x y + step m y z)) % m = z % m := by
    rw [← Int.add_assoc, ← Int.emod_add_emod, e1, Int.emod_add_emod, e2]
  have hc : (step m x z) % m = (step m x y + step m y z) % m := by
    have : (x + step m x z) % m = (x + (step m x y + step m y z)) % m := by rw [e3, hs]
    exact (emod_eq_iff_of_sub_eq (by omega)).mp this
  have := natAbs_le_of_congr hm hb.1 hb.2 hc
  omega

/-- the decoder's distance with the lattice check dropped (a total function) -/
def dist (R C : Int) (a b : Idx) : Nat := (step R a.2.1 b.2.1).natAbs + (step C a.2.2 b.2.2).natAbs

theorem dist_symm (R C : Int) (hR : 0 < R) (hC : 0 < C) (a b : Idx) : dist R C a b = dist R C b a := by
  unfold dist
  rw [step_natAbs_comm R _ _ hR, step_natAbs_comm C _ _ hC]

theorem dist_triangle (R C : Int) (hR : 0 < R) (hC : 0 < C) (a b c : Idx) :
    dist R C a c ≤ dist R C a b + dist R C b c := by
  unfold dist
  have := step_triangle hR a.2.1 b.2.1 c.2.1
  have := step_triangle hC a.2.2 b.2.2 c.2.2
  omega

/-- `ToricMWPMDecoder.distance`, totalised as in `toricWeightedEdges` -/
def toricDistT (R C : Int) (a b : Idx) : Nat :=
  match Toric.distance R C a b with | .ok d => d | .error _ => 0

theorem toricDistT_eq (R C : Int) (a b : Idx) (hab : a.1 % 2 = b.1 % 2) : toricDistT R C a b = dist R C a b := by
  unfold toricDistT
  rw [distance_eq_ok R C a b hab]
  rfl

/-! ### every qubit of the torus is an edge between two plaquettes of either lattice -/

theorem emod_eq_of_sub_eq_mul {m x y k : Int} (h : x - y = m * k) : x % m = y % m := by
  rw [Int.emod_eq_emod_iff_emod_sub_eq_zero, h, Int.mul_emod_right]

theorem step_one {m : Int} (hm : 2 ≤ m) (x y : Int) (h : (x + 1) % m = y % m) : step m x y = 1 :=
  (step_unique (by omega) x y 1 h (by omega) (by omega)).symm

theorem site_congr (R C : Int) (hR : 0 < R) (hC : 0 < C) (op : P1) (v : BVec) (s t : Idx)
    (h : norm R C s = norm R C t) : site R C op v s = site R C op v t := by
  unfold site
  rw [(flatten_inj R C hR hC s t).mpr h]

/-- the operator of the paths between plaquettes of lattice `l` -/
def opOf (l : Int) : P1 := if l = 0 then P1.X else P1.Z

/-- the two plaquettes of lattice `l` adjacent to the site `s`: for a site of the same lattice its
    N and S neighbours, for a site of the other lattice its W and E neighbours -/
def edge (R C : Int) (l : Int) (s : Idx) : Idx × Idx :=
  if s.1 = l then ((l, (s.2.1 - 1) % R, s.2.2), (l, s.2.1, s.2.2))
  else ((l, (s.2.1 - l) % R, (s.2.2 - 1 + l) % C), (l, (s.2.1 - l) % R, (s.2.2 + l) % C))

theorem edge_spec (R C : Int) (hR : 2 ≤ R) (hC : 2 ≤ C) (l : Int) (hl : l = 0 ∨ l = 1) (s : Idx)
    (hs : InLattice R C s) :
    InLattice R C (edge R C l s).1 ∧ InLattice R C (edge R C l s).2 ∧
    (edge R C l s).1.1 = l ∧ (edge R C l s).2.1 = l ∧
    dist R C (edge R C l s).1 (edge R C l s).2 ≤ 1 ∧
    path R C (identity R C) (edge R C l s).1 (edge R C l s).2 =
      .ok (site R C (opOf l) (identity R C) s) := by
  obtain ⟨s1, s2, s3, s4, s5, s6⟩ := hs
  have hR0 : (0 : Int) < R := by omega
  have hC0 : (0 : Int) < C := by omega
  have hl2 : l % 2 = l := by omega
  have hop : ∀ a : Idx, a.1 = l → pathOp R C a = opOf l := by
    intro a ha
    rw [pathOp_eq, ha, hl2]; rfl
  unfold edge
  by_cases hsl : s.1 = l
  · rw [if_pos hsl]
    dsimp only
    have b1 := Int.emod_nonneg (s.2.1 - 1) (show R ≠ 0 by omega)
    have b2 := Int.emod_lt_of_pos (s.2.1 - 1) hR0
    have st1 : step R ((s.2.1 - 1) % R) s.2.1 = 1 :=
      step_one hR _ _ (by rw [Int.emod_add_emod]; congr 1; omega)
    have st2 : step C s.2.2 s.2.2 = 0 := step_eq_zero hC0 _ _ rfl
    refine ⟨⟨by omega, by omega, b1, b2, s5, s6⟩, ⟨by omega, by omega, s3, s4, s5, s6⟩, rfl, rfl, ?_, ?_⟩
    · simp only [dist, st1, st2]; decide
    · rw [path_eq_ok R C _ _ _ (by rfl)]
      dsimp only
      rw [st1, st2, hop _ rfl]
      congr 1
      simp only [pathSites, sites, norm, show ¬((1 : Int) < 0) by decide, show ¬((0 : Int) < 0) by decide,
        if_false, show Int.natAbs 1 = 1 from rfl, show Int.natAbs 0 = 0 from rfl, List.range_one,
        List.range_zero, List.map_cons, List.map_nil, List.append_nil, List.foldl_cons, List.foldl_nil]
      apply site_congr R C hR0 hC0
      rw [norm_eq_iff]
      dsimp only
      refine ⟨by omega, ?_, by rw [Int.emod_emod]⟩
      rw [Int.emod_emod, Int.add_assoc, Int.emod_add_emod]
      congr 1
      simp only [Int.natCast_zero]
      omega
  · rw [if_neg hsl]
    dsimp only
    have b1 := Int.emod_nonneg (s.2.1 - l) (show R ≠ 0 by omega)
    have b2 := Int.emod_lt_of_pos (s.2.1 - l) hR0
    have c1 := Int.emod_nonneg (s.2.2 - 1 + l) (show C ≠ 0 by omega)
    have c2 := Int.emod_lt_of_pos (s.2.2 - 1 + l) hC0
    have d1 := Int.emod_nonneg (s.2.2 + l) (show C ≠ 0 by omega)
    have d2 := Int.emod_lt_of_pos (s.2.2 + l) hC0
    have st1 : step R ((s.2.1 - l) % R) ((s.2.1 - l) % R) = 0 := step_eq_zero hR0 _ _ rfl
    have st2 : step C ((s.2.2 - 1 + l) % C) ((s.2.2 + l) % C) = 1 :=
      step_one hC _ _ (by rw [Int.emod_add_emod, Int.emod_emod]; congr 1; omega)
    refine ⟨⟨by omega, by omega, b1, b2, c1, c2⟩, ⟨by omega, by omega, b1, b2, d1, d2⟩, rfl, rfl, ?_, ?_⟩
    · simp only [dist, st1, st2]; decide
    · rw [path_eq_ok R C _ _ _ (by rfl)]
      dsimp only
      rw [st1, st2, hop _ rfl]
      congr 1
      simp only [pathSites, sites, norm, show ¬((1 : Int) < 0) by decide, show ¬((0 : Int) < 0) by decide,
        if_false, show Int.natAbs 1 = 1 from rfl, show Int.natAbs 0 = 0 from rfl, List.range_one,
        List.range_zero, List.map_cons, List.map_nil, List.nil_append, List.foldl_cons, List.foldl_nil]
      apply site_congr R C hR0 hC0
      rw [norm_eq_iff]
      dsimp only
      rw [hl2]
      refine ⟨by omega, ?_, ?_⟩
      · rw [Int.emod_emod, Int.add_zero, Int.emod_add_emod]
        congr 1
        omega
      · rw [Int.emod_emod]
        have : (s.2.2 - 1 + l) % C - l + 1 + ((0 : Nat) : Int) = (s.2.2 - 1 + l) % C + (1 - l) := by
          simp only [Int.natCast_zero]; omega
        rw [this, Int.emod_add_emod]
        congr 1
        omega

/-! ### an X-type (Z-type) operator is the product of single-qubit operators on its support -/

theorem ext_getD (a b : BVec) (hl : a.length = b.length)
    (h : ∀ j, j < a.length → a.getD j false = b.getD j false) : a = b := by
  apply List.ext_getElem hl
  intro j h1 h2
  have := h j h1
  simpa [List.getD_eq_getElem?_getD, List.getElem?_eq_getElem h1, List.getElem?_eq_getElem h2] using this

/-- qubits with the X bit set / with the Z bit set -/
def suppX (n : Nat) (v : BVec) : List Nat := (List.range n).filter fun i => v.getD i false
def suppZ (n : Nat) (v : BVec) : List Nat := (List.range n).filter fun i => v.getD (n + i) false

theorem supp_lt (n : Nat) (g : Nat → Bool) : ∀ f ∈ (List.range n).filter g, f < n := by
  intro f hf
  exact List.mem_range.mp (List.mem_filter.mp hf).1

theorem supp_nodup (n : Nat) (g : Nat → Bool) : ((List.range n).filter g).Nodup :=
  List.nodup_range.filter _

theorem eq_applyOps_of_bits (n : Nat) (op : P1) (v : BVec) (g : Nat → Bool) (hv : v.length = 2 * n)
    (hx : ∀ i, i < n → v.getD i false = (op.xBit && g i))
    (hz : ∀ i, i < n → v.getD (n + i) false = (op.zBit && g i)) :
    v = applyOps n op (zeros (2 * n)) ((List.range n).filter g) := by
  have hlt := supp_lt n g
  have hnd := supp_nodup n g
  have hmem : ∀ i, i < n → decide (i ∈ (List.range n).filter g) = g i := by
    intro i hi
    cases hg : g i
    · simp [List.mem_filter, hg]
    · simp [List.mem_filter, hg, hi]
  apply ext_getD
  · simp [hv, zeros]
  · intro j hj
    rw [hv] at hj
    by_cases hjn : j < n
    · rw [getD_applyOps_x n op _ _ j (by simp [zeros]) hlt hjn, getD_zeros,
        xsum_decide_eq_of_nodup _ _ hnd, hmem j hjn, hx j hjn]
      simp
    · obtain ⟨i, rfl⟩ : ∃ i, j = n + i := ⟨j - n, by omega⟩
      have hi : i < n := by omega
      rw [getD_applyOps_z n op _ _ i (by simp [zeros]) hlt, getD_zeros,
        xsum_decide_eq_of_nodup _ _ hnd, hmem i hi, hz i hi]
      simp

theorem getD_xPart_lo (n : Nat) (v : BVec) (hv : v.length = 2 * n) (i : Nat) (hi : i < n) :
    (xPart v).getD i false = v.getD i false := by
  have h2 : v.length / 2 = n := by omega
  simp only [xPart, xHalf, h2, List.getD_eq_getElem?_getD]
  rw [List.getElem?_append_left (by simp; omega), List.getElem?_take, if_pos hi]

theorem getD_xPart_hi (n : Nat) (v : BVec) (hv : v.length = 2 * n) (i : Nat) :
    (xPart v).getD (n + i) false = false := by
  have h2 : v.length / 2 = n := by omega
  simp only [xPart, xHalf, zHalf, h2, List.getD_eq_getElem?_getD]
  rw [List.getElem?_append_right (by simp)]
  simp only [zeros, List.getElem?_replicate]
  split <;> rfl

theorem getD_zPart_lo (n : Nat) (v : BVec) (hv : v.length = 2 * n) (i : Nat) (hi : i < n) :
    (zPart v).getD i false = false := by
  have h2 : v.length / 2 = n := by omega
  simp only [zPart, xHalf, zHalf, h2, List.getD_eq_getElem?_getD]
  rw [List.getElem?_append_left (by simp [zeros]; omega)]
  simp only [zeros, List.getElem?_replicate]
  split <;> rfl

theorem getD_zPart_hi (n : Nat) (v : BVec) (hv : v.length = 2 * n) (i : Nat) :
    (zPart v).getD (n + i) false = v.getD (n + i) false := by
  have h2 : v.length / 2 = n := by omega
  simp only [zPart, xHalf, zHalf, h2, List.getD_eq_getElem?_getD]
  rw [List.getElem?_append_right (by simp [zeros])]
  simp only [zeros, List.getElem?_drop, List.length_replicate, List.length_take]
  congr 2; omega

theorem xPart_eq_applyOps (n : Nat) (v : BVec) (hv : v.length = 2 * n) :
    xPart v = applyOps n P1.X (zeros (2 * n)) (suppX n v) :=
  eq_applyOps_of_bits n P1.X (xPart v) _ (xPart_length v n hv)
    (fun i hi => by rw [getD_xPart_lo n v hv i hi]; simp [P1.xBit])
    (fun i _ => by rw [getD_xPart_hi n v hv i]; simp [P1.zBit])

theorem zPart_eq_applyOps (n : Nat) (v : BVec) (hv : v.length = 2 * n) :
    zPart v = applyOps n P1.Z (zeros (2 * n)) (suppZ n v) :=
  eq_applyOps_of_bits n P1.Z (zPart v) _ (zPart_length v n hv)
    (fun i hi => by rw [getD_zPart_lo n v hv i hi]; simp [P1.xBit])
    (fun i _ => by rw [getD_zPart_hi n v hv i]; simp [P1.zBit])

theorem bsfWt_xPart (n : Nat) (v : BVec) (hv : v.length = 2 * n) :
    bsfWt (xPart v) = (suppX n v).length := by
  rw [xPart_eq_applyOps n v hv]
  exact bsfWt_applyOps_zeros n P1.X _ (by decide) (supp_lt n _) (supp_nodup n _)

theorem bsfWt_zPart (n : Nat) (v : BVec) (hv : v.length = 2 * n) :
    bsfWt (zPart v) = (suppZ n v).length := by
  rw [zPart_eq_applyOps n v hv]
  exact bsfWt_applyOps_zeros n P1.Z _ (by decide) (supp_lt n _) (supp_nodup n _)

/-! ### from flat qubit numbers back to site indices -/

/-- the site with flat qubit number `f` (the index list of the code is in flat order) -/
def unflat (R C : Int) (f : Nat) : Idx := (indices R C).getD f (0, 0, 0)

theorem nQubits_toNat (R C : Int) (hR : 0 < R) (hC : 0 < C) :
    (nQubits R C).toNat = 2 * (R.toNat * C.toNat) := by
  have : nQubits R C = ((2 * (R.toNat * C.toNat) : Nat) : Int) := by
    unfold nQubits
    push_cast
    rw [Int.toNat_of_nonneg (show 0 ≤ R by omega), Int.toNat_of_nonneg (show 0 ≤ C by omega), Int.mul_assoc]
  rw [this, Int.toNat_natCast]

theorem unflat_spec (R C : Int) (hR : 0 < R) (hC : 0 < C) (f : Nat) (hf : f < (nQubits R C).toNat) :
    InLattice R C (unflat R C f) ∧ flatNat R C (unflat R C f) = f := by
  have hlen : f < (indices R C).length := by rw [length_indices, ← nQubits_toNat R C hR hC]; exact hf
  have hget : (indices R C)[f]? = some (unflat R C f) := by
    unfold unflat
    rw [List.getD_eq_getElem?_getD, List.getElem?_eq_getElem hlen]; rfl
  have hin : InLattice R C (unflat R C f) :=
    (mem_indices R C _).mp (List.mem_of_getElem? hget)
  refine ⟨hin, ?_⟩
  have h2 := getElem?_indices R C _ hin
  exact ((List.getElem?_inj hlen (indices_nodup R C)).mp (hget.trans h2.symm)).symm

theorem applyOps_eq_sites (R C : Int) (hR : 0 < R) (hC : 0 < C) (op : P1) (fs : List Nat)
    (hfs : ∀ f ∈ fs, f < (nQubits R C).toNat) :
    applyOps (nQubits R C).toNat op (zeros (2 * (nQubits R C).toNat)) fs =
      sites R C op (identity R C) (fs.map (unflat R C)) := by
  rw [sites_eq_applyOps, identity_eq_zeros, List.map_map]
  congr 1
  symm
  calc fs.map (flatNat R C ∘ unflat R C) = fs.map id :=
        List.map_congr_left fun f hf => (unflat_spec R C hR hC f (hfs f hf)).2
    _ = fs := List.map_id _

/-! ### a site-list operator is the XOR of the one-step paths across its sites -/

/-- edges (pairs of adjacent plaquettes of lattice `l`) of a list of sites -/
def edges (R C : Int) (l : Int) (L : List Idx) : List (Idx × Idx) := L.map (edge R C l)

theorem sites_eq_xorAll_paths (R C : Int) (hR : 2 ≤ R) (hC : 2 ≤ C) (l : Int) (hl : l = 0 ∨ l = 1)
    (L : List Idx) (hL : ∀ s ∈ L, InLattice R C s) :
    sites R C (opOf l) (identity R C) L =
      xorAll (2 * ToricL.nq R C) ((edges R C l L).map fun x => ToricL.pathT R C x.1 x.2) := by
  have h1 := foldl_step_eq_xorAll (2 * ToricL.nq R C) (site R C (opOf l))
    (fun v x h => by rw [ToricL.site_length, h]) (fun v x h => ToricL.site_xor R C _ v x h) L
  unfold sites
  rw [identity_eq_zeros]
  refine h1.trans ?_
  unfold edges
  rw [List.map_map]
  congr 1
  apply List.map_congr_left
  intro s hs
  have := (edge_spec R C hR hC l hl s (hL s hs)).2.2.2.2.2
  exact (ToricL.pathT_of_ok R C _ _ _ this).symm

/-! ### the error chain of lattice `l`: sites, edges, syndrome -/

/-- the X-component (lattice 0, primal plaquettes = Z-type stabilizers) resp. Z-component
    (lattice 1, dual plaquettes) of an error -/
def part (l : Int) (e : BVec) : BVec := if l = 0 then xPart e else zPart e

/-- the sites on which that component acts -/
def chainSites (R C : Int) (l : Int) (e : BVec) : List Idx :=
  (if l = 0 then suppX (ToricL.nq R C) e else suppZ (ToricL.nq R C) e).map (unflat R C)

/-- the component as an edge set of the lattice graph of plaquettes of lattice `l` -/
def chainEdges (R C : Int) (l : Int) (e : BVec) : List (Idx × Idx) := edges R C l (chainSites R C l e)

theorem part_length (R C : Int) (l : Int) (e : BVec) (he : e.length = 2 * ToricL.nq R C) :
    (part l e).length = 2 * ToricL.nq R C := by
  unfold part; split
  · exact xPart_length e _ he
  · exact zPart_length e _ he

theorem chainSites_inLattice (R C : Int) (hR : 0 < R) (hC : 0 < C) (l : Int) (e : BVec) :
    ∀ s ∈ chainSites R C l e, InLattice R C s := by
  intro s hs
  unfold chainSites at hs
  obtain ⟨f, hf, rfl⟩ := List.mem_map.mp hs
  refine (unflat_spec R C hR hC f ?_).1
  split at hf
  · exact supp_lt _ _ f hf
  · exact supp_lt _ _ f hf

theorem part_eq_sites (R C : Int) (hR : 0 < R) (hC : 0 < C) (l : Int) (hl : l = 0 ∨ l = 1) (e : BVec)
    (he : e.length = 2 * ToricL.nq R C) :
    part l e = sites R C (opOf l) (identity R C) (chainSites R C l e) := by
  unfold part chainSites opOf
  rcases hl with rfl | rfl
  · rw [if_pos rfl, if_pos rfl, if_pos rfl, xPart_eq_applyOps _ e he]
    exact applyOps_eq_sites R C hR hC _ _ (supp_lt _ _)
  · rw [if_neg (by decide), if_neg (by decide), if_neg (by decide), zPart_eq_applyOps _ e he]
    exact applyOps_eq_sites R C hR hC _ _ (supp_lt _ _)

theorem chainEdges_length (R C : Int) (l : Int) (hl : l = 0 ∨ l = 1) (e : BVec)
    (he : e.length = 2 * ToricL.nq R C) : (chainEdges R C l e).length = bsfWt (part l e) := by
  unfold chainEdges edges chainSites part
  rw [List.length_map, List.length_map]
  rcases hl with rfl | rfl
  · rw [if_pos rfl, if_pos rfl, bsfWt_xPart _ e he]
  · rw [if_neg (by decide), if_neg (by decide), bsfWt_zPart _ e he]

theorem chainEdges_spec (R C : Int) (hR : 2 ≤ R) (hC : 2 ≤ C) (l : Int) (hl : l = 0 ∨ l = 1) (e : BVec) :
    ∀ x ∈ chainEdges R C l e, ToricL.Ok R C x.1 x.2 ∧ x.1.1 = l ∧ x.2.1 = l ∧ dist R C x.1 x.2 ≤ 1 := by
  intro x hx
  unfold chainEdges edges at hx
  obtain ⟨s, hs, rfl⟩ := List.mem_map.mp hx
  obtain ⟨h1, h2, h3, h4, h5, _⟩ :=
    edge_spec R C hR hC l hl s (chainSites_inLattice R C (by omega) (by omega) l e s hs)
  exact ⟨⟨(mem_indices R C _).mpr h1, (mem_indices R C _).mpr h2, h3.trans h4.symm⟩, h3, h4, h5⟩

theorem part_eq_xorAll (R C : Int) (hR : 2 ≤ R) (hC : 2 ≤ C) (l : Int) (hl : l = 0 ∨ l = 1) (e : BVec)
    (he : e.length = 2 * ToricL.nq R C) :
    part l e = xorAll (2 * ToricL.nq R C) ((chainEdges R C l e).map fun x => ToricL.pathT R C x.1 x.2) := by
  rw [part_eq_sites R C (by omega) (by omega) l hl e he]
  exact sites_eq_xorAll_paths R C hR hC l hl _ (chainSites_inLattice R C (by omega) (by omega) l e)

/-- the syndrome of the component: a plaquette is a defect iff its degree in the chain is odd -/
theorem synd_part (R C : Int) (hR : 2 ≤ R) (hC : 2 ≤ C) (H : ToricL.Spec R C) (l : Int)
    (hl : l = 0 ∨ l = 1) (e : BVec) (he : e.length = 2 * ToricL.nq R C) :
    synd (stabilizers R C) (part l e) =
      (indices R C).map fun p => decide (deg (chainEdges R C l e) p % 2 = 1) := by
  rw [part_eq_xorAll R C hR hC l hl e he]
  exact Pairing.pairing (ToricL.pathSpec R C H) (chainEdges R C l e)
    (fun x hx => (chainEdges_spec R C hR hC l hl e x hx).1)

theorem deg_eq_zero_of_lattice (m : List (Idx × Idx)) (l : Int) (h : ∀ x ∈ m, x.1.1 = l ∧ x.2.1 = l)
    (p : Idx) (hp : p.1 ≠ l) : deg m p = 0 := by
  induction m with
  | nil => rfl
  | cons x xs ih =>
    rw [deg_cons, ih (fun y hy => h y (by simp [hy]))]
    have := h x (by simp)
    rw [ind_ne (fun e => hp (by rw [← e]; exact this.1)), ind_ne (fun e => hp (by rw [← e]; exact this.2))]

/-- **defects = odd-degree vertices**: the defects of lattice `l` in the syndrome of the whole error
    are exactly the plaquettes of odd degree in the chain of lattice `l` -/
theorem mem_toricDefects_iff (R C : Int) (hR : 2 ≤ R) (hC : 2 ≤ C) (H : ToricL.Spec R C) (l : Int)
    (hl : l = 0 ∨ l = 1) (e : BVec) (he : e.length = 2 * ToricL.nq R C) (p : Idx) :
    p ∈ toricDefects R C (synd (stabilizers R C) e) l ↔ deg (chainEdges R C l e) p % 2 = 1 := by
  have hx := synd_part R C hR hC H 0 (.inl rfl) e he
  have hz := synd_part R C hR hC H 1 (.inr rfl) e he
  have hxl := xPart_length e _ he
  have hzl := zPart_length e _ he
  have hsum : synd (stabilizers R C) e = (indices R C).map fun p =>
      xor (decide (deg (chainEdges R C 0 e) p % 2 = 1)) (decide (deg (chainEdges R C 1 e) p % 2 = 1)) := by
    rw [← Pairing.xorV_map_map, ← hx, ← hz]
    conv => lhs; rw [← xPart_xor_zPart e _ he]
    exact C09.synd_add _ _ _ (by rw [hxl, hzl]) (by rw [hxl]; omega)
      (fun r hr => by rw [ToricL.stabilizers_length R C r hr, hxl])
  have hs0 := fun x hx => (chainEdges_spec R C hR hC 0 (.inl rfl) e x hx)
  have hs1 := fun x hx => (chainEdges_spec R C hR hC 1 (.inr rfl) e x hx)
  unfold toricDefects
  rw [hsum]
  have : syndromeToPlaquettes R C ((indices R C).map fun p =>
      xor (decide (deg (chainEdges R C 0 e) p % 2 = 1)) (decide (deg (chainEdges R C 1 e) p % 2 = 1))) =
      (indices R C).filter fun p =>
      xor (decide (deg (chainEdges R C 0 e) p % 2 = 1)) (decide (deg (chainEdges R C 1 e) p % 2 = 1)) :=
    filterMap_sel_map (indices R C) _
  rw [this, List.mem_filter, List.mem_filter]
  simp only [beq_iff_eq]
  constructor
  · rintro ⟨⟨_, hb⟩, hpl⟩
    rcases hl with rfl | rfl
    · rw [deg_eq_zero_of_lattice _ 1 (fun x hx => ⟨(hs1 x hx).2.1, (hs1 x hx).2.2.1⟩) p (by omega)] at hb
      simpa using hb
    · rw [deg_eq_zero_of_lattice _ 0 (fun x hx => ⟨(hs0 x hx).2.1, (hs0 x hx).2.2.1⟩) p (by omega)] at hb
      simpa using hb
  · intro hodd
    obtain ⟨x, hx, hp⟩ := mem_ends_of_deg_pos (chainEdges R C l e) p (by omega)
    rcases hl with rfl | rfl
    · have hh := hs0 x hx
      have hpl : p.1 = 0 := by rcases hp with rfl | rfl <;> [exact hh.2.1; exact hh.2.2.1]
      have hpi : p ∈ indices R C := by rcases hp with rfl | rfl <;> [exact hh.1.1; exact hh.1.2.1]
      refine ⟨⟨hpi, ?_⟩, hpl⟩
      rw [deg_eq_zero_of_lattice _ 1 (fun x hx => ⟨(hs1 x hx).2.1, (hs1 x hx).2.2.1⟩) p (by omega)]
      simpa using hodd
    · have hh := hs1 x hx
      have hpl : p.1 = 1 := by rcases hp with rfl | rfl <;> [exact hh.2.1; exact hh.2.2.1]
      have hpi : p ∈ indices R C := by rcases hp with rfl | rfl <;> [exact hh.1.1; exact hh.1.2.1]
      refine ⟨⟨hpi, ?_⟩, hpl⟩
      rw [deg_eq_zero_of_lattice _ 0 (fun x hx => ⟨(hs0 x hx).2.1, (hs0 x hx).2.2.1⟩) p (by omega)]
      simpa using hodd

/-! ### the chain induces a perfect matching of the decoder's graph -/

theorem cost_congr {V : Type} (f g : V → V → Nat) (m : List (V × V))
    (h : ∀ x ∈ m, f x.1 x.2 = g x.1 x.2) : cost f m = cost g m := by
  unfold cost
  congr 1
  exact List.map_congr_left h

theorem toricDefects_nodup (R C : Int) (s : BVec) (l : Int) : (toricDefects R C s l).Nodup := by
  unfold toricDefects
  exact (Pairing.pick_nodup _ _ (indices_nodup R C)).filter _

/-- **chain → matching on the torus** (helper form): the defects of lattice `l` of ANY error `e` have
    a perfect matching in the decoder's graph (complete graph on the defects) whose total decoder
    distance is at most the weight of the component of `e` that causes them; in particular their
    number is even -/
theorem chain_matching (R C : Int) (hR : 2 ≤ R) (hC : 2 ≤ C) (H : ToricL.Spec R C) (l : Int)
    (hl : l = 0 ∨ l = 1) (e : BVec) (he : e.length = 2 * ToricL.nq R C) :
    ∃ M : List (Idx × Idx),
      isPerfectMatchingOfGraph (toricNodes (toricDefects R C (synd (stabilizers R C) e) l))
        (toricEdges (toricDefects R C (synd (stabilizers R C) e) l)) M = true ∧
      cost (toricDistT R C) M ≤ bsfWt (part l e) ∧
      (toricDefects R C (synd (stabilizers R C) e) l).length % 2 = 0 := by
  have hR0 : (0 : Int) < R := by omega
  have hC0 : (0 : Int) < C := by omega
  obtain ⟨M, hpm, hc, hlen⟩ := tjoin_complete (dist R C) (dist_symm R C hR0 hC0) (dist_triangle R C hR0 hC0)
    (chainEdges R C l e) (fun x hx => (chainEdges_spec R C hR hC l hl e x hx).2.2.2)
    (toricDefects R C (synd (stabilizers R C) e) l) (toricDefects_nodup R C _ l)
    (mem_toricDefects_iff R C hR hC H l hl e he)
  have hev : (toricDefects R C (synd (stabilizers R C) e) l).length % 2 = 0 := by omega
  refine ⟨M, ?_, ?_, hev⟩
  · rw [ToricL.toricNodes_even _ hev]
    exact hpm
  · rw [chainEdges_length R C l hl e he] at hc
    refine Nat.le_trans (Nat.le_of_eq ?_) hc
    apply cost_congr
    intro x hx
    have hin : ∀ v ∈ ends M, v.1 = l := fun v hv =>
      ((ToricL.mem_toricDefects R C _ l v).mp (pm_ends _ _ _ hpm v hv)).2
    have h1 := hin x.1 (by unfold ends; exact List.mem_flatMap.mpr ⟨x, hx, by simp⟩)
    have h2 := hin x.2 (by unfold ends; exact List.mem_flatMap.mpr ⟨x, hx, by simp⟩)
    exact toricDistT_eq R C x.1 x.2 (by rw [h1, h2])

/-! ### the toric generators are X-type or Z-type -/

theorem toric_isCSS (R C : Int) (hR : 0 < R) (hC : 0 < C) : IsCSS (stabilizers R C) := by
  intro row hrow
  simp only [stabilizers, List.mem_map] at hrow
  obtain ⟨i, _, rfl⟩ := hrow
  have hid : (identity R C).length = 2 * (nQubits R C).toNat := by simp [identity, zeros]
  unfold plaquette sites
  by_cases hc : ((norm R C i).1 == primalIndex) = true
  · right
    have hop : plaquetteOp R C i = P1.Z := by unfold plaquetteOp; rw [if_pos hc]
    rw [hop]
    obtain ⟨g, hg⟩ := MwpmSplit.ZLike.foldl (nQubits R C).toNat (site R C P1.Z) (plaquetteSites R C i)
      (fun a _ => by unfold site; exact MwpmSplit.ZLike.applyOp _ _)
    rw [(hg _ hid).2.2, identity_eq_zeros, xHalf_zeros_two_mul]
    exact isZero_zeros _
  · left
    have hop' : plaquetteOp R C i = P1.X := by unfold plaquetteOp; rw [if_neg hc]
    rw [hop']
    obtain ⟨g, hg⟩ := MwpmSplit.XLike.foldl (nQubits R C).toNat (site R C P1.X) (plaquetteSites R C i)
      (fun a _ => by unfold site; exact MwpmSplit.XLike.applyOp _ _ (flatNat_lt R C hR hC a))
    rw [(hg _ hid).2.2, identity_eq_zeros, zHalf_zeros_two_mul]
    exact isZero_zeros _

end Qec.ChainToric


/-! ## the planar code: plaquettes of one type + the boundary -/

namespace Qec.ChainPlanar
open Qec Qec.Dec Qec.Planar Qec.TJoin Qec.NaiveDecode Qec.MwpmReduce

/-- real (in-lattice) plaquette of type `t` (`true` = primal) -/
def rho (R C : Int) (t : Bool) (a : Idx2) : Bool :=
  isPlaquette a.1 a.2 && inBounds R C a.1 a.2 && (isPrimal a.1 a.2 == t)

theorem rho_iff (R C : Int) (t : Bool) (a : Idx2) :
    rho R C t a = true ↔ (a.1 + a.2) % 2 = 1 ∧ (0 ≤ a.1 ∧ a.1 ≤ 2 * R - 2 ∧ 0 ≤ a.2 ∧ a.2 ≤ 2 * C - 2) ∧
      isPrimal a.1 a.2 = t := by
  unfold rho
  simp only [Bool.and_eq_true, beq_iff_eq, isPlaquette_iff, inBounds_iff]
  exact and_assoc

/-- the plaquette metric on arbitrary index pairs (equals `|Δr|/2 + |Δc|/2` between plaquettes of one type) -/
def dist2 (a b : Idx2) : Nat := ((b.1 - a.1).natAbs + (b.2 - a.2).natAbs + 1) / 2

/-- distance to the nearer matching boundary of type `t` (rows −1, 2R−1 for primal; columns −1, 2C−1 for dual) -/
def bdP (R C : Int) (t : Bool) (a : Idx2) : Nat :=
  if t then (min (a.1 + 1).natAbs (2 * R - 1 - a.1).natAbs + 1) / 2
  else (min (a.2 + 1).natAbs (2 * C - 1 - a.2).natAbs + 1) / 2

theorem dist2_symm (a b : Idx2) : dist2 a b = dist2 b a := by unfold dist2; omega
theorem dist2_triangle (a b c : Idx2) : dist2 a c ≤ dist2 a b + dist2 b c := by unfold dist2; omega
theorem bdP_lip (R C : Int) (t : Bool) (a b : Idx2) : bdP R C t a ≤ dist2 a b + bdP R C t b := by
  unfold bdP dist2; cases t <;> simp only [if_true, Bool.false_eq_true, if_false] <;> omega

theorem vpT_primal (R C : Int) (a : Idx2) (hp : (a.1 + a.2) % 2 = 1) (ht : a.2 % 2 = 0) :
    vpT R C a = if (a.1 - 1).natAbs ≤ (2 * R - 3 - a.1).natAbs then (1 - 2, a.2) else (2 * R - 3 + 2, a.2) := by
  unfold vpT virtualPlaquette
  rw [(isPlaquette_iff _ _).mpr hp, (isPrimal_iff _ _).mpr ht]
  simp only [Bool.not_true, Bool.false_eq_true, if_false, if_true]
  by_cases hc : (a.1 - 1).natAbs ≤ (2 * R - 3 - a.1).natAbs <;> simp only [hc, if_true, if_false]

theorem vpT_dual (R C : Int) (a : Idx2) (hp : (a.1 + a.2) % 2 = 1) (ht : a.2 % 2 = 1) :
    vpT R C a = if (a.2 - 1).natAbs ≤ (2 * C - 3 - a.2).natAbs then (a.1, 1 - 2) else (a.1, 2 * C - 3 + 2) := by
  unfold vpT virtualPlaquette
  rw [(isPlaquette_iff _ _).mpr hp, (isPrimal_eq_false_iff _ _).mpr ht]
  simp only [Bool.not_true, Bool.false_eq_true, if_false]
  by_cases hc : (a.2 - 1).natAbs ≤ (2 * C - 3 - a.2).natAbs <;> simp only [hc, if_true, if_false]

/-- the decoder's distance between plaquettes of one type, at least one in the lattice -/
theorem distT_exact (R C : Int) (a b : Idx2) (ha : (a.1 + a.2) % 2 = 1) (hb : (b.1 + b.2) % 2 = 1)
    (hab : a.2 % 2 = b.2 % 2) (hin : inBounds R C a.1 a.2 = true ∨ inBounds R C b.1 b.2 = true) :
    distT R C a b = ((b.1 - a.1) / 2).natAbs + ((b.2 - a.2) / 2).natAbs := by
  unfold distT distance
  rw [translation_exact R C a b ((isPlaquette_iff _ _).mpr ha) ((isPlaquette_iff _ _).mpr hb)
    ((isPrimal_eq_iff _ _ _ _).mpr hab) hin]
  rfl

theorem rho_parity (R C : Int) (t : Bool) (a : Idx2) (h : rho R C t a = true) :
    (a.1 + a.2) % 2 = 1 ∧ (0 ≤ a.1 ∧ a.1 ≤ 2 * R - 2 ∧ 0 ≤ a.2 ∧ a.2 ≤ 2 * C - 2) ∧
      (t = true → a.2 % 2 = 0) ∧ (t = false → a.2 % 2 = 1) := by
  obtain ⟨h1, h2, h3⟩ := (rho_iff R C t a).mp h
  refine ⟨h1, h2, fun e => ?_, fun e => ?_⟩
  · rw [e] at h3; exact (isPrimal_iff _ _).mp h3
  · rw [e] at h3; exact (isPrimal_eq_false_iff _ _).mp h3

theorem rho_vp (R C : Int) (t : Bool) (a : Idx2) (h : rho R C t a = true) : rho R C t (vpT R C a) = false := by
  obtain ⟨h1, h2, h3, h4⟩ := rho_parity R C t a h
  have : inBounds R C (vpT R C a).1 (vpT R C a).2 = false := by
    rw [inBounds_eq_false_iff]
    cases t
    · rw [vpT_dual R C a h1 (h4 rfl)]; split <;> simp only <;> omega
    · rw [vpT_primal R C a h1 (h3 rfl)]; split <;> simp only <;> omega
  unfold rho
  rw [this]; simp

theorem distT_vp (R C : Int) (t : Bool) (a : Idx2) (h : rho R C t a = true) :
    distT R C a (vpT R C a) = bdP R C t a := by
  obtain ⟨h1, h2, h3, h4⟩ := rho_parity R C t a h
  have hin : inBounds R C a.1 a.2 = true := (inBounds_iff _ _ _ _).mpr h2
  cases t
  · have hc := h4 rfl
    have e := vpT_dual R C a h1 (h4 rfl)
    rw [distT_exact R C a _ h1 (by rw [e]; split <;> simp only <;> omega)
      (by rw [e]; split <;> simp only <;> omega) (.inl hin), e]
    unfold bdP
    split <;> simp only [Bool.false_eq_true, if_false] <;> omega
  · have hc := h3 rfl
    have e := vpT_primal R C a h1 (h3 rfl)
    rw [distT_exact R C a _ h1 (by rw [e]; split <;> simp only <;> omega)
      (by rw [e]; split <;> simp only <;> omega) (.inl hin), e]
    unfold bdP
    split <;> simp only [if_true] <;> omega

theorem distT_le_dist2 (R C : Int) (t : Bool) (a b : Idx2) (ha : rho R C t a = true) (hb : rho R C t b = true) :
    distT R C a b ≤ dist2 a b := by
  obtain ⟨a1, a2, a3, a4⟩ := rho_parity R C t a ha
  obtain ⟨b1, b2, b3, b4⟩ := rho_parity R C t b hb
  rw [distT_exact R C a b a1 b1 (by cases t <;> simp_all) (.inl ((inBounds_iff _ _ _ _).mpr a2))]
  unfold dist2
  have : a.2 % 2 = b.2 % 2 := by cases t <;> simp_all
  omega

theorem distT_same_vp (R C : Int) (t : Bool) (a b : Idx2) (ha : rho R C t a = true) (hb : rho R C t b = true)
    (hv : vpT R C a = vpT R C b) : distT R C a b ≤ bdP R C t a + bdP R C t b := by
  obtain ⟨a1, a2, a3, a4⟩ := rho_parity R C t a ha
  obtain ⟨b1, b2, b3, b4⟩ := rho_parity R C t b hb
  cases t
  · have ac := a4 rfl
    have bc := b4 rfl
    rw [distT_exact R C a b a1 b1 (by rw [a4 rfl, b4 rfl]) (.inl ((inBounds_iff _ _ _ _).mpr a2))]
    rw [vpT_dual R C a a1 (a4 rfl), vpT_dual R C b b1 (b4 rfl)] at hv
    unfold bdP
    simp only [Bool.false_eq_true, if_false]
    split at hv <;> split at hv <;> simp only [Prod.mk.injEq] at hv <;> omega
  · have ac := a3 rfl
    have bc := b3 rfl
    rw [distT_exact R C a b a1 b1 (by rw [a3 rfl, b3 rfl]) (.inl ((inBounds_iff _ _ _ _).mpr a2))]
    rw [vpT_primal R C a a1 (a3 rfl), vpT_primal R C b b1 (b3 rfl)] at hv
    unfold bdP
    simp only [if_true]
    split at hv <;> split at hv <;> simp only [Prod.mk.injEq] at hv <;> omega

/-- the decoder's distance is symmetric on all index pairs -/
theorem distT_symm (R C : Int) (a b : Idx2) : distT R C a b = distT R C b a := by
  unfold distT distance translation
  cases ha : isPlaquette a.1 a.2 <;> cases hb : isPlaquette b.1 b.2 <;>
    simp only [Bool.not_false, Bool.not_true, if_true, Bool.false_eq_true, if_false, Except.map]
  by_cases hp : isPrimal a.1 a.2 = isPrimal b.1 b.2
  · have hp' : isPrimal b.1 b.2 = isPrimal a.1 a.2 := hp.symm
    have h1 := (isPlaquette_iff _ _).mp ha
    have h2 := (isPlaquette_iff _ _).mp hb
    have h3 := (isPrimal_eq_iff _ _ _ _).mp hp
    rw [hp]
    simp only [bne_self_eq_false, Bool.false_eq_true, if_false]
    cases inBounds R C a.1 a.2 <;> cases inBounds R C b.1 b.2 <;>
      simp only [Bool.not_false, Bool.not_true, Bool.and_self, Bool.and_true, Bool.and_false, if_true,
        Bool.false_eq_true, if_false] <;> omega
  · have hp' : ¬ isPrimal b.1 b.2 = isPrimal a.1 a.2 := fun e => hp e.symm
    simp [hp, hp']

theorem distT_out (R C : Int) (a b : Idx2) (ha : inBounds R C a.1 a.2 = false) (hb : inBounds R C b.1 b.2 = false) :
    distT R C a b = 0 := by
  unfold distT distance translation
  rw [ha, hb]
  cases isPlaquette a.1 a.2 <;> cases isPlaquette b.1 b.2 <;>
    cases (isPrimal a.1 a.2 != isPrimal b.1 b.2) <;> rfl

/-! ### every qubit of the planar code is an edge between two plaquettes (real or virtual) of either type -/

def opOfP (t : Bool) : P1 := if t then P1.X else P1.Z

/-- the two plaquettes of type `t` adjacent to the site `s` (N/S or W/E neighbours) -/
def edgeP (t : Bool) (s : Idx2) : Idx2 × Idx2 :=
  if (s.1 % 2 == 0) == t then ((s.1 - 1, s.2), (s.1 + 1, s.2)) else ((s.1, s.2 - 1), (s.1, s.2 + 1))

theorem endpoint_of (R C : Int) (a : Idx2) (hp : (a.1 + a.2) % 2 = 1)
    (h1 : a.2 % 2 = 0 → -1 ≤ a.1 ∧ a.1 ≤ 2 * R - 1 ∧ 0 ≤ a.2 ∧ a.2 ≤ 2 * C - 2)
    (h2 : a.2 % 2 = 1 → 0 ≤ a.1 ∧ a.1 ≤ 2 * R - 2 ∧ -1 ≤ a.2 ∧ a.2 ≤ 2 * C - 1) :
    PlanarL.Endpoint R C a := by
  have hpl := (isPlaquette_iff a.1 a.2).mpr hp
  by_cases hin : 0 ≤ a.1 ∧ a.1 ≤ 2 * R - 2 ∧ 0 ≤ a.2 ∧ a.2 ≤ 2 * C - 2
  · exact .inl ⟨hpl, (inBounds_iff _ _ _ _).mpr hin⟩
  · refine .inr ⟨hpl, ?_⟩
    by_cases hc : a.2 % 2 = 0
    · have := h1 hc
      exact .inl ⟨(isPrimal_iff _ _).mpr hc, by omega, by omega, by omega⟩
    · have hc' : a.2 % 2 = 1 := by omega
      have := h2 hc'
      exact .inr ⟨(isPrimal_eq_false_iff _ _).mpr hc', by omega, by omega, by omega⟩

theorem rho_false_arith (R C : Int) (t : Bool) (a : Idx2) (h : rho R C t a = false)
    (hp : (a.1 + a.2) % 2 = 1) (hc : a.2 % 2 = if t then 0 else 1) :
    ¬ (0 ≤ a.1 ∧ a.1 ≤ 2 * R - 2 ∧ 0 ≤ a.2 ∧ a.2 ≤ 2 * C - 2) := by
  intro hb
  have : rho R C t a = true := (rho_iff R C t a).mpr ⟨hp, hb, by
    cases t
    · exact (isPrimal_eq_false_iff _ _).mpr (by simpa using hc)
    · exact (isPrimal_iff _ _).mpr (by simpa using hc)⟩
  rw [this] at h; cases h

theorem edgeP_spec (R C : Int) (hR : 2 ≤ R) (hC : 2 ≤ C) (t : Bool) (s : Idx2)
    (hs : (s.1 + s.2) % 2 = 0) (hb : 0 ≤ s.1 ∧ s.1 ≤ 2 * R - 2 ∧ 0 ≤ s.2 ∧ s.2 ≤ 2 * C - 2) :
    PlanarL.Endpoint R C (edgeP t s).1 ∧ PlanarL.Endpoint R C (edgeP t s).2 ∧
    isPrimal (edgeP t s).1.1 (edgeP t s).1.2 = t ∧ isPrimal (edgeP t s).2.1 (edgeP t s).2.2 = t ∧
    pd (rho R C t) (bdP R C t) dist2 (edgeP t s).1 (edgeP t s).2 ≤ 1 ∧
    path R C (identity R C) (edgeP t s).1 (edgeP t s).2 = .ok (site R C (opOfP t) (identity R C) s) := by
  have key : ∀ (a b : Idx2), (a.1 + a.2) % 2 = 1 → (b.1 + b.2) % 2 = 1 →
      a.2 % 2 = (if t then 0 else 1) → b.2 % 2 = (if t then 0 else 1) →
      (a.2 % 2 = 0 → -1 ≤ a.1 ∧ a.1 ≤ 2 * R - 1 ∧ 0 ≤ a.2 ∧ a.2 ≤ 2 * C - 2) →
      (a.2 % 2 = 1 → 0 ≤ a.1 ∧ a.1 ≤ 2 * R - 2 ∧ -1 ≤ a.2 ∧ a.2 ≤ 2 * C - 1) →
      (b.2 % 2 = 0 → -1 ≤ b.1 ∧ b.1 ≤ 2 * R - 1 ∧ 0 ≤ b.2 ∧ b.2 ≤ 2 * C - 2) →
      (b.2 % 2 = 1 → 0 ≤ b.1 ∧ b.1 ≤ 2 * R - 2 ∧ -1 ≤ b.2 ∧ b.2 ≤ 2 * C - 1) →
      ((b.1 - a.1 = 2 ∧ b.2 = a.2 ∧ s = (a.1 + 1, a.2)) ∨ (b.1 = a.1 ∧ b.2 - a.2 = 2 ∧ s = (a.1, a.2 + 1))) →
      PlanarL.Endpoint R C a ∧ PlanarL.Endpoint R C b ∧ isPrimal a.1 a.2 = t ∧ isPrimal b.1 b.2 = t ∧
      pd (rho R C t) (bdP R C t) dist2 a b ≤ 1 ∧
      path R C (identity R C) a b = .ok (site R C (opOfP t) (identity R C) s) := by
    intro a b ha hbp hac hbc ha1 ha2 hb1 hb2 hadj
    have hta : isPrimal a.1 a.2 = t := by
      cases t
      · exact (isPrimal_eq_false_iff _ _).mpr (by simpa using hac)
      · exact (isPrimal_iff _ _).mpr (by simpa using hac)
    have htb : isPrimal b.1 b.2 = t := by
      cases t
      · exact (isPrimal_eq_false_iff _ _).mpr (by simpa using hbc)
      · exact (isPrimal_iff _ _).mpr (by simpa using hbc)
    have hs1 : 0 ≤ s.1 ∧ s.1 ≤ 2 * R - 2 ∧ 0 ≤ s.2 ∧ s.2 ≤ 2 * C - 2 := hb
    refine ⟨endpoint_of R C a ha ha1 ha2, endpoint_of R C b hbp hb1 hb2, hta, htb, ?_, ?_⟩
    · -- distance in the collapsed metric
      unfold pd
      cases hra : rho R C t a <;> cases hrb : rho R C t b <;>
        simp only [Bool.false_eq_true, if_false, if_true]
      · omega
      · have na := rho_false_arith R C t a hra ha hac
        unfold bdP
        cases t <;> simp only [Bool.false_eq_true, if_false, if_true] at hac hbc ⊢ <;>
          rcases hadj with ⟨e1, e2, e3⟩ | ⟨e1, e2, e3⟩ <;> rw [e3] at hs1 <;> simp only at hs1 <;> omega
      · have nb := rho_false_arith R C t b hrb hbp hbc
        unfold bdP
        cases t <;> simp only [Bool.false_eq_true, if_false, if_true] at hac hbc ⊢ <;>
          rcases hadj with ⟨e1, e2, e3⟩ | ⟨e1, e2, e3⟩ <;> rw [e3] at hs1 <;> simp only at hs1 <;> omega
      · have : dist2 a b ≤ 1 := by
          unfold dist2
          rcases hadj with ⟨e1, e2, _⟩ | ⟨e1, e2, _⟩ <;> omega
        omega
    · -- the path is the single site
      have hin : inBounds R C a.1 a.2 = true ∨ inBounds R C b.1 b.2 = true := by
        rw [inBounds_iff, inBounds_iff]
        rcases hadj with ⟨e1, e2, e3⟩ | ⟨e1, e2, e3⟩ <;> rw [e3] at hs1 <;> simp only at hs1 <;> omega
      have htr := translation_exact R C a b ((isPlaquette_iff _ _).mpr ha) ((isPlaquette_iff _ _).mpr hbp)
        (hta.trans htb.symm) hin
      rw [path_eq_of_translation R C _ a b _ htr]
      have hop : pathOp a = opOfP t := by unfold pathOp opOfP; rw [hta]
      rw [hop]
      congr 1
      rcases hadj with ⟨e1, e2, e3⟩ | ⟨e1, e2, e3⟩
      · have r1 : (b.1 - a.1) / 2 = 1 := by omega
        have r2 : (b.2 - a.2) / 2 = 0 := by omega
        simp only [r1, r2, pathSites, sites, show ¬((1 : Int) < 0) by decide, show ¬((0 : Int) < 0) by decide,
          if_false, show Int.natAbs 1 = 1 from rfl, show Int.natAbs 0 = 0 from rfl, List.range_one,
          List.range_zero, List.map_cons, List.map_nil, List.append_nil, List.foldl_cons, List.foldl_nil]
        rw [e3]
        congr 1
        simp only [Int.natCast_zero, Int.mul_zero, Int.add_zero]
      · have r1 : (b.1 - a.1) / 2 = 0 := by omega
        have r2 : (b.2 - a.2) / 2 = 1 := by omega
        simp only [r1, r2, pathSites, sites, show ¬((1 : Int) < 0) by decide, show ¬((0 : Int) < 0) by decide,
          if_false, show Int.natAbs 1 = 1 from rfl, show Int.natAbs 0 = 0 from rfl, List.range_one,
          List.range_zero, List.map_cons, List.map_nil, List.nil_append, List.foldl_cons, List.foldl_nil]
        rw [e3]
        congr 1
        simp only [Int.natCast_zero, Int.mul_zero, Int.add_zero]
  unfold edgeP
  rcases Int.emod_two_eq s.1 with hr | hr
  · -- even row (then even column)
    cases t
    · rw [if_neg (by simp [hr])]
      exact key _ _ (by simp only; omega) (by simp only; omega) (by simp only [Bool.false_eq_true, if_false]; omega)
        (by simp only [Bool.false_eq_true, if_false]; omega) (by simp only; omega) (by simp only; omega)
        (by simp only; omega) (by simp only; omega)
        (.inr ⟨rfl, by simp only; omega, by apply Prod.ext <;> simp only <;> omega⟩)
    · rw [if_pos (by simp [hr])]
      exact key _ _ (by simp only; omega) (by simp only; omega) (by simp only [if_true]; omega)
        (by simp only [if_true]; omega) (by simp only; omega) (by simp only; omega)
        (by simp only; omega) (by simp only; omega)
        (.inl ⟨by simp only; omega, rfl, by apply Prod.ext <;> simp only <;> omega⟩)
  · -- odd row (then odd column)
    cases t
    · rw [if_pos (by simp [hr])]
      exact key _ _ (by simp only; omega) (by simp only; omega) (by simp only [Bool.false_eq_true, if_false]; omega)
        (by simp only [Bool.false_eq_true, if_false]; omega) (by simp only; omega) (by simp only; omega)
        (by simp only; omega) (by simp only; omega)
        (.inl ⟨by simp only; omega, rfl, by apply Prod.ext <;> simp only <;> omega⟩)
    · rw [if_neg (by simp [hr])]
      exact key _ _ (by simp only; omega) (by simp only; omega) (by simp only [if_true]; omega)
        (by simp only [if_true]; omega) (by simp only; omega) (by simp only; omega)
        (by simp only; omega) (by simp only; omega)
        (.inr ⟨rfl, by simp only; omega, by apply Prod.ext <;> simp only <;> omega⟩)

/-! ### from flat qubit numbers back to planar site indices; the chain of type `t` -/

def unflatP (R C : Int) (f : Nat) : Idx2 :=
  ((allIndices R C).find? fun s => isSite s.1 s.2 && ((flatten R C s.1 s.2).toNat == f)).getD (0, 0)

theorem unflatP_spec (R C : Int) (hR : 2 ≤ R) (hC : 2 ≤ C) (f : Nat) (hf : f < (nQubits R C).toNat) :
    ((unflatP R C f).1 + (unflatP R C f).2) % 2 = 0 ∧
    (0 ≤ (unflatP R C f).1 ∧ (unflatP R C f).1 ≤ 2 * R - 2 ∧ 0 ≤ (unflatP R C f).2 ∧
      (unflatP R C f).2 ≤ 2 * C - 2) ∧
    (flatten R C (unflatP R C f).1 (unflatP R C f).2).toNat = f := by
  obtain ⟨r, c, hsite, hfl⟩ := PlanarCode.flatten_surj R C hR hC (f : Int) (by omega) (by omega)
  unfold PlanarCode.SiteIn at hsite
  unfold unflatP
  cases hfind : (allIndices R C).find? fun s => isSite s.1 s.2 && ((flatten R C s.1 s.2).toNat == f) with
  | none =>
    exfalso
    have := List.find?_eq_none.mp hfind (r, c) ((mem_allIndices R C (r, c)).mpr
      ((inBounds_iff _ _ _ _).mpr ⟨hsite.1, hsite.2.1, hsite.2.2.1, hsite.2.2.2.1⟩))
    apply this
    simp only [Bool.and_eq_true, beq_iff_eq]
    exact ⟨(isSite_iff _ _).mpr hsite.2.2.2.2, by rw [hfl]; exact Int.toNat_natCast f⟩
  | some s =>
    have hp := List.find?_some hfind
    have hm := (mem_allIndices R C s).mp (List.mem_of_find?_eq_some hfind)
    simp only [Bool.and_eq_true, beq_iff_eq] at hp
    exact ⟨(isSite_iff _ _).mp hp.1, (inBounds_iff _ _ _ _).mp hm, hp.2⟩

theorem applyOps_eq_sitesP (R C : Int) (hR : 2 ≤ R) (hC : 2 ≤ C) (op : P1) (fs : List Nat)
    (hfs : ∀ f ∈ fs, f < (nQubits R C).toNat) (v : BVec) :
    ToricLemmas.applyOps (nQubits R C).toNat op v fs = sites R C op v (fs.map (unflatP R C)) := by
  induction fs generalizing v with
  | nil => rfl
  | cons f fs ih =>
    obtain ⟨_, hb, hfl⟩ := unflatP_spec R C hR hC f (hfs f (by simp))
    rw [ToricLemmas.applyOps_cons, ih (fun g hg => hfs g (by simp [hg]))]
    unfold sites
    rw [List.map_cons, List.foldl_cons]
    congr 1
    unfold site
    rw [if_pos ((inBounds_iff _ _ _ _).mpr hb), hfl]

/-- the X-component (primal, `t = true`) resp. Z-component (dual) of an error -/
def partP (t : Bool) (e : BVec) : BVec := if t then xPart e else zPart e

def chainSitesP (R C : Int) (t : Bool) (e : BVec) : List Idx2 :=
  (if t then ChainToric.suppX (PlanarL.nq R C) e else ChainToric.suppZ (PlanarL.nq R C) e).map (unflatP R C)

def chainEdgesP (R C : Int) (t : Bool) (e : BVec) : List (Idx2 × Idx2) := (chainSitesP R C t e).map (edgeP t)

theorem chainSitesP_spec (R C : Int) (hR : 2 ≤ R) (hC : 2 ≤ C) (t : Bool) (e : BVec) :
    ∀ s ∈ chainSitesP R C t e, (s.1 + s.2) % 2 = 0 ∧ (0 ≤ s.1 ∧ s.1 ≤ 2 * R - 2 ∧ 0 ≤ s.2 ∧ s.2 ≤ 2 * C - 2) := by
  intro s hs
  unfold chainSitesP at hs
  obtain ⟨f, hf, rfl⟩ := List.mem_map.mp hs
  have hlt : f < (nQubits R C).toNat := by
    cases t
    · exact ChainToric.supp_lt _ _ f hf
    · exact ChainToric.supp_lt _ _ f hf
  exact ⟨(unflatP_spec R C hR hC f hlt).1, (unflatP_spec R C hR hC f hlt).2.1⟩

theorem partP_eq_sites (R C : Int) (hR : 2 ≤ R) (hC : 2 ≤ C) (t : Bool) (e : BVec)
    (he : e.length = 2 * PlanarL.nq R C) :
    partP t e = sites R C (opOfP t) (identity R C) (chainSitesP R C t e) := by
  unfold partP chainSitesP opOfP
  cases t
  · simp only [Bool.false_eq_true, if_false]
    rw [ChainToric.zPart_eq_applyOps _ e he]
    exact applyOps_eq_sitesP R C hR hC _ _ (ChainToric.supp_lt _ _) _
  · simp only [if_true]
    rw [ChainToric.xPart_eq_applyOps _ e he]
    exact applyOps_eq_sitesP R C hR hC _ _ (ChainToric.supp_lt _ _) _

theorem chainEdgesP_length (R C : Int) (t : Bool) (e : BVec) (he : e.length = 2 * PlanarL.nq R C) :
    (chainEdgesP R C t e).length = bsfWt (partP t e) := by
  unfold chainEdgesP chainSitesP partP
  rw [List.length_map, List.length_map]
  cases t
  · simp only [Bool.false_eq_true, if_false]; rw [ChainToric.bsfWt_zPart _ e he]
  · simp only [if_true]; rw [ChainToric.bsfWt_xPart _ e he]

theorem chainEdgesP_spec (R C : Int) (hR : 2 ≤ R) (hC : 2 ≤ C) (t : Bool) (e : BVec) :
    ∀ x ∈ chainEdgesP R C t e, PlanarL.Ok R C x.1 x.2 ∧ isPrimal x.1.1 x.1.2 = t ∧ isPrimal x.2.1 x.2.2 = t ∧
      pd (rho R C t) (bdP R C t) dist2 x.1 x.2 ≤ 1 := by
  intro x hx
  unfold chainEdgesP at hx
  obtain ⟨s, hs, rfl⟩ := List.mem_map.mp hx
  obtain ⟨hsite, hb⟩ := chainSitesP_spec R C hR hC t e s hs
  obtain ⟨h1, h2, h3, h4, h5, _⟩ := edgeP_spec R C hR hC t s hsite hb
  exact ⟨⟨h3.trans h4.symm, .inl ⟨h1, h2⟩⟩, h3, h4, h5⟩

theorem partP_eq_xorAll (R C : Int) (hR : 2 ≤ R) (hC : 2 ≤ C) (t : Bool) (e : BVec)
    (he : e.length = 2 * PlanarL.nq R C) :
    partP t e = xorAll (2 * PlanarL.nq R C) ((chainEdgesP R C t e).map fun x => PlanarL.pathT R C x.1 x.2) := by
  rw [partP_eq_sites R C hR hC t e he]
  have h1 := foldl_step_eq_xorAll (2 * PlanarL.nq R C) (site R C (opOfP t))
    (fun v x h => by rw [PlanarL.site_length, h]) (fun v x h => PlanarL.site_xor R C _ v x h)
    (chainSitesP R C t e)
  have hid : identity R C = zeros (2 * PlanarL.nq R C) := rfl
  unfold sites
  rw [hid]
  refine h1.trans ?_
  unfold chainEdgesP
  rw [List.map_map]
  congr 1
  apply List.map_congr_left
  intro s hs
  obtain ⟨hsite, hb⟩ := chainSitesP_spec R C hR hC t e s hs
  have := (edgeP_spec R C hR hC t s hsite hb).2.2.2.2.2
  exact (PlanarL.pathT_of_ok R C _ _ _ this).symm

theorem synd_partP (R C : Int) (hR : 2 ≤ R) (hC : 2 ≤ C) (H : PlanarL.Spec R C) (t : Bool) (e : BVec)
    (he : e.length = 2 * PlanarL.nq R C) :
    synd (stabilizers R C) (partP t e) =
      (plaquetteIndices R C).map fun p => decide (deg (chainEdgesP R C t e) p % 2 = 1) := by
  rw [partP_eq_xorAll R C hR hC t e he]
  exact Pairing.pairing (PlanarL.pathSpec R C H) (chainEdgesP R C t e)
    (fun x hx => (chainEdgesP_spec R C hR hC t e x hx).1)

/-- **defects = real odd-degree vertices** (planar): the defects of type `t` in the syndrome of the whole
    error are exactly the in-lattice plaquettes of type `t` of odd degree in the chain of type `t` -/
theorem mem_planarDefects_iff (R C : Int) (hR : 2 ≤ R) (hC : 2 ≤ C) (H : PlanarL.Spec R C) (t : Bool)
    (e : BVec) (he : e.length = 2 * PlanarL.nq R C) (p : Idx2) :
    p ∈ planarDefects R C (synd (stabilizers R C) e) t ↔
      rho R C t p = true ∧ deg (chainEdgesP R C t e) p % 2 = 1 := by
  have hx := synd_partP R C hR hC H true e he
  have hz := synd_partP R C hR hC H false e he
  have hxl := xPart_length e _ he
  have hzl := zPart_length e _ he
  have hsum : synd (stabilizers R C) e = (plaquetteIndices R C).map fun p =>
      xor (decide (deg (chainEdgesP R C true e) p % 2 = 1)) (decide (deg (chainEdgesP R C false e) p % 2 = 1)) := by
    rw [← Pairing.xorV_map_map, ← hx, ← hz]
    conv => lhs; rw [← xPart_xor_zPart e _ he]
    exact C09.synd_add _ _ _ (by rw [hxl, hzl]) (by rw [hxl]; omega)
      (fun r hr => by rw [PlanarL.stabilizers_length R C r hr, hxl])
  have hother : ∀ (t' : Bool), t' ≠ t → rho R C t p = true → deg (chainEdgesP R C t' e) p = 0 := by
    intro t' ht' hp
    refine deg_eq_zero_of_pred _ (fun q => isPrimal q.1 q.2 = t')
      (fun x hx => ⟨(chainEdgesP_spec R C hR hC t' e x hx).2.1, (chainEdgesP_spec R C hR hC t' e x hx).2.2.1⟩) p ?_
    rw [((rho_iff R C t p).mp hp).2.2]
    exact fun e => ht' e.symm
  have hread : syndromeToPlaquettes R C ((plaquetteIndices R C).map fun p =>
      xor (decide (deg (chainEdgesP R C true e) p % 2 = 1)) (decide (deg (chainEdgesP R C false e) p % 2 = 1))) =
      (plaquetteIndices R C).filter fun p =>
      xor (decide (deg (chainEdgesP R C true e) p % 2 = 1)) (decide (deg (chainEdgesP R C false e) p % 2 = 1)) :=
    ToricLemmas.filterMap_sel_map (plaquetteIndices R C) _
  unfold planarDefects
  rw [hsum, hread, List.mem_filter, List.mem_filter]
  simp only [beq_iff_eq]
  constructor
  · rintro ⟨⟨hmem, hb⟩, hpt⟩
    have hreal := (H.plaquetteIndices_spec.2 p).mp hmem
    have hrho : rho R C t p = true :=
      (rho_iff R C t p).mpr ⟨(isPlaquette_iff _ _).mp hreal.1, (inBounds_iff _ _ _ _).mp hreal.2, hpt⟩
    refine ⟨hrho, ?_⟩
    cases t
    · rw [hother true (by decide) hrho] at hb; simpa using hb
    · rw [hother false (by decide) hrho] at hb; simpa using hb
  · rintro ⟨hrho, hodd⟩
    obtain ⟨h1, h2, h3⟩ := (rho_iff R C t p).mp hrho
    refine ⟨⟨(H.plaquetteIndices_spec.2 p).mpr ⟨(isPlaquette_iff _ _).mpr h1, (inBounds_iff _ _ _ _).mpr h2⟩, ?_⟩, h3⟩
    cases t
    · rw [hother true (by decide) hrho]; simpa using hodd
    · rw [hother false (by decide) hrho]; simpa using hodd

theorem planarDefects_nodup (R C : Int) (H : PlanarL.Spec R C) (s : BVec) (t : Bool) :
    (planarDefects R C s t).Nodup := by
  unfold planarDefects
  exact (Pairing.pick_nodup _ _ H.plaquetteIndices_spec.1).filter _

/-- **chain → matching on the planar code** (helper form): the decoder's graph of type `t` for the
    syndrome of ANY error `e` (defects, the nearest virtual plaquette of each, the extra node on odd
    totals; weights `distance`, 0 among virtual nodes) has a perfect matching of total weight at most
    the weight of the component of `e` that causes those defects -/
theorem chain_matching_planar (R C : Int) (hR : 2 ≤ R) (hC : 2 ≤ C) (H : PlanarL.Spec R C) (t : Bool)
    (e : BVec) (he : e.length = 2 * PlanarL.nq R C) :
    ∃ M : List (Idx2 × Idx2),
      isPerfectMatchingOfGraph (planarNodes R C t (planarDefects R C (synd (stabilizers R C) e) t))
        (planarEdges R C t (planarDefects R C (synd (stabilizers R C) e) t)) M = true ∧
      cost (distT R C) M ≤ bsfWt (partP t e) := by
  have hds := fun d hd => PlanarL.defects_real R C H (synd (stabilizers R C) e) t d hd
  obtain ⟨M, hM, hc⟩ := tjoin_boundary (rho R C t) (vpT R C) (bdP R C t) (distT R C) dist2
    (rho_vp R C t) (distT_symm R C) (distT_vp R C t) (distT_same_vp R C t) (distT_le_dist2 R C t)
    dist2_symm dist2_triangle (bdP_lip R C t)
    (chainEdgesP R C t e) (fun x hx => (chainEdgesP_spec R C hR hC t e x hx).2.2.2)
    (planarDefects R C (synd (stabilizers R C) e) t) (planarDefects_nodup R C H _ t)
    (mem_planarDefects_iff R C hR hC H t e he)
    (planarVNodes R C t (planarDefects R C (synd (stabilizers R C) e) t))
    (PlanarL.vnodes_nodup R C H t _ hds)
    (fun w hw => by
      have := (PlanarL.vnodes_out R C H t _ hds w hw).1.2
      unfold rho; rw [this]; simp)
    (fun a ha => PlanarL.vpT_mem_vnodes R C t _ a ha)
    (PlanarL.vnodes_parity R C t _)
    (fun x hx y hy => distT_out R C x y (PlanarL.vnodes_out R C H t _ hds x hx).1.2
      (PlanarL.vnodes_out R C H t _ hds y hy).1.2)
  rw [chainEdgesP_length R C t e he] at hc
  exact ⟨M, hM, hc⟩

/-! ### the planar generators are X-type or Z-type -/

theorem planar_isCSS (R C : Int) (hR : 2 ≤ R) (hC : 2 ≤ C) : IsCSS (stabilizers R C) := by
  intro row hrow
  simp only [stabilizers, List.mem_map] at hrow
  obtain ⟨rc, hrc, rfl⟩ := hrow
  have hpl := ((mem_plaquetteIndices R C rc).mp hrc).1
  have hid : (identity R C).length = 2 * (nQubits R C).toNat := by simp [identity, zeros]
  have hidz : identity R C = zeros (2 * (nQubits R C).toNat) := rfl
  have hf : MwpmSplit.PlanarFlattenBound R C := fun r c hb hs => flatten_toNat_lt R C r c hR hC hs hb
  unfold sites
  cases isPrimal rc.1 rc.2
  · left
    simp only [Bool.false_eq_true, if_false]
    obtain ⟨g, hg⟩ := MwpmSplit.XLike.foldl (nQubits R C).toNat (site R C P1.X) (plaquetteSites rc.1 rc.2)
      (fun a ha => MwpmSplit.planar_site_X R C hf a (allSites_plaquetteSites rc.1 rc.2 hpl a ha))
    rw [(hg _ hid).2.2, hidz, zHalf_zeros_two_mul]
    exact isZero_zeros _
  · right
    simp only [if_true]
    obtain ⟨g, hg⟩ := MwpmSplit.ZLike.foldl (nQubits R C).toNat (site R C P1.Z) (plaquetteSites rc.1 rc.2)
      (fun a _ => MwpmSplit.planar_site_Z R C a)
    rw [(hg _ hid).2.2, hidz, xHalf_zeros_two_mul]
    exact isZero_zeros _

end Qec.ChainPlanar
