/-
  The T-join lemma, generic: in ANY finite multigraph (edges = a list of ordered pairs over a type
  `V`, self loops and repeated edges allowed) with a function `dist : V → V → Nat` that is symmetric,
  satisfies the triangle inequality and is `≤ 1` on every edge, the set of odd-degree vertices has a
  perfect matching (a list of pairs in which every odd-degree vertex occurs exactly once and no
  other vertex occurs) of total `dist` at most the number of edges.

  Proof: induction on the edge list, one edge `(a, b)` at a time — adding the edge flips the parity
  of `a` and of `b`; re-route the at most two pairs that touch `a`, `b`:
    a, b both even before   →  add the pair (a, b)                       (+ dist a b ≤ 1)
    a odd (mate a'), b even →  replace (a, a') by (b, a')                (dist b a' ≤ 1 + dist a a')
    a, b odd, mates a', b'  →  replace (a, a'), (b, b') by (a', b')      (dist a' b' ≤ dist a' a + 1 + dist b b')
    a, b odd and mated      →  drop the pair (a, b).
  No trails, no connectivity, core Lean only.
-/
import QecVerif.Lemmas.Decoders
import QecVerif.Lemmas.Lattice.Toric
import QecVerif.Lemmas.MwpmReduce
import QecVerif.Lemmas.MwpmSplit
namespace Qec.TJoin
open Qec Qec.Dec

variable {V : Type} [DecidableEq V]

/-- number of occurrences of `p` among the endpoints (= degree of `p`, a self loop counting twice) -/
def deg (m : List (V × V)) (p : V) : Nat := (ends m).count p

/-- total `dist` of a list of pairs -/
def cost (dist : V → V → Nat) (m : List (V × V)) : Nat := (m.map fun p => dist p.1 p.2).sum

/-- indicator -/
def ind (x p : V) : Nat := if x = p then 1 else 0

theorem ind_self (x : V) : ind x x = 1 := by simp [ind]
theorem ind_ne {x p : V} (h : x ≠ p) : ind x p = 0 := by simp [ind, h]
theorem ind_le (x p : V) : ind x p ≤ 1 := by unfold ind; split <;> omega

theorem deg_nil (p : V) : deg ([] : List (V × V)) p = 0 := rfl

theorem deg_cons (x : V × V) (l : List (V × V)) (p : V) :
    deg (x :: l) p = ind x.1 p + ind x.2 p + deg l p := by
  have he : ends (x :: l) = x.1 :: x.2 :: ends l := by simp [ends]
  unfold deg ind
  rw [he, List.count_cons, List.count_cons]
  by_cases h1 : x.1 = p <;> by_cases h2 : x.2 = p <;> simp [h1, h2] <;> omega

omit [DecidableEq V] in
theorem cost_nil (dist : V → V → Nat) : cost dist ([] : List (V × V)) = 0 := rfl

omit [DecidableEq V] in
theorem cost_cons (dist : V → V → Nat) (x : V × V) (l : List (V × V)) :
    cost dist (x :: l) = dist x.1 x.2 + cost dist l := by
  simp [cost]

/-- a vertex that occurs in a list of pairs can be brought to the front as a first component,
    keeping all degrees and (for a symmetric `dist`) the cost -/
theorem extract (dist : V → V → Nat) (hsymm : ∀ a b, dist a b = dist b a)
    (m : List (V × V)) (a : V) (h : 0 < deg m a) :
    ∃ a' m', (∀ v, deg m v = deg ((a, a') :: m') v) ∧ cost dist m = cost dist ((a, a') :: m') := by
  induction m with
  | nil => simp [deg_nil] at h
  | cons x l ih =>
    obtain ⟨x1, x2⟩ := x
    by_cases h1 : x1 = a
    · subst h1
      exact ⟨x2, l, fun _ => rfl, rfl⟩
    · by_cases h2 : x2 = a
      · subst h2
        refine ⟨x1, l, fun v => ?_, ?_⟩
        · rw [deg_cons, deg_cons]; simp only; omega
        · rw [cost_cons, cost_cons]; simp only; rw [hsymm]
      · have hl : 0 < deg l a := by
          rw [deg_cons, ind_ne h1, ind_ne h2] at h; simpa using h
        obtain ⟨a', m', hd, hc⟩ := ih hl
        refine ⟨a', (x1, x2) :: m', fun v => ?_, ?_⟩
        · have := hd v
          rw [deg_cons] at this
          rw [deg_cons, deg_cons, deg_cons, this]; simp only; omega
        · rw [cost_cons] at hc
          rw [cost_cons, cost_cons, cost_cons, hc]; simp only; omega

/-- **T-join lemma**: the odd-degree vertices of any edge list have a perfect matching of total
    distance at most the number of edges.  `deg M v = deg E v % 2` says: `v` occurs exactly once
    among the endpoints of `M` when its degree in `E` is odd, and not at all when it is even. -/
theorem tjoin (dist : V → V → Nat) (hsymm : ∀ a b, dist a b = dist b a)
    (htri : ∀ a b c, dist a c ≤ dist a b + dist b c)
    (E : List (V × V)) (hadj : ∀ e ∈ E, dist e.1 e.2 ≤ 1) :
    ∃ M : List (V × V), (∀ v, deg M v = deg E v % 2) ∧ cost dist M ≤ E.length := by
  induction E with
  | nil => exact ⟨[], fun v => by simp [deg_nil], by simp [cost_nil]⟩
  | cons e E ih =>
    obtain ⟨a, b⟩ := e
    obtain ⟨M, hM, hc⟩ := ih (fun e he => hadj e (by simp [he]))
    have hab : dist a b ≤ 1 := hadj (a, b) (by simp)
    simp only [List.length_cons]
    by_cases heq : a = b
    · subst heq
      refine ⟨M, fun v => ?_, by omega⟩
      rw [hM v, deg_cons]; simp only; omega
    · have hba : b ≠ a := fun h => heq h.symm
      have key : ∀ (M' : List (V × V)),
          (∀ v, deg M' v = (deg M v + ind a v + ind b v) % 2) →
          ∀ v, deg M' v = deg ((a, b) :: E) v % 2 := by
        intro M' h v
        rw [h v, hM v, deg_cons]; simp only; omega
      have hMa : deg M a ≤ 1 := by rw [hM]; omega
      have hMb : deg M b ≤ 1 := by rw [hM]; omega
      by_cases ha : deg M a = 0
      · by_cases hb : deg M b = 0
        · -- both even: add the pair
          refine ⟨(a, b) :: M, key _ (fun v => ?_), ?_⟩
          · rw [deg_cons]; simp only
            have h0 := hM v
            by_cases va : a = v
            · subst va; have i1 := ind_self a; have i2 := ind_ne hba; omega
            · by_cases vb : b = v
              · subst vb; have i1 := ind_self b; have i2 := ind_ne heq; omega
              · have i1 := ind_ne va; have i2 := ind_ne vb; omega
          · rw [cost_cons]; simp only; omega
        · -- b odd with mate b', a even: re-route to (a, b')
          obtain ⟨b', M', hd, hcost⟩ := extract dist hsymm M b (by omega)
          have hb1 : deg M b = 1 := by omega
          have e1 := hd b
          have e2 := hd a
          rw [deg_cons, ind_self] at e1
          rw [deg_cons, ind_ne hba] at e2
          simp only at e1 e2
          have hb'b : ind b' b = 0 := by omega
          have hM'b : deg M' b = 0 := by omega
          have hb'a : ind b' a = 0 := by omega
          have hM'a : deg M' a = 0 := by omega
          refine ⟨(a, b') :: M', key _ (fun v => ?_), ?_⟩
          · have e3 := hd v
            rw [deg_cons] at e3 ⊢; simp only at e3 ⊢
            have h0 := hM v
            by_cases va : a = v
            · subst va; have i1 := ind_self a; have i2 := ind_ne hba; omega
            · by_cases vb : b = v
              · subst vb; have i1 := ind_self b; have i2 := ind_ne heq; omega
              · have i1 := ind_ne va; have i2 := ind_ne vb; omega
          · rw [cost_cons] at hcost ⊢; simp only at hcost ⊢
            have := htri a b b'
            omega
      · have ha1 : deg M a = 1 := by omega
        obtain ⟨a', M', hd, hcost⟩ := extract dist hsymm M a (by omega)
        have e1 := hd a
        rw [deg_cons, ind_self] at e1; simp only at e1
        have ha'a : ind a' a = 0 := by omega
        have hM'a : deg M' a = 0 := by omega
        by_cases hb : deg M b = 0
        · -- a odd with mate a', b even: re-route to (b, a')
          have e2 := hd b
          rw [deg_cons, ind_ne heq] at e2; simp only at e2
          have ha'b : ind a' b = 0 := by omega
          have hM'b : deg M' b = 0 := by omega
          refine ⟨(b, a') :: M', key _ (fun v => ?_), ?_⟩
          · have e3 := hd v
            rw [deg_cons] at e3 ⊢; simp only at e3 ⊢
            have h0 := hM v
            by_cases va : a = v
            · subst va; have i1 := ind_self a; have i2 := ind_ne hba; omega
            · by_cases vb : b = v
              · subst vb; have i1 := ind_self b; have i2 := ind_ne heq; omega
              · have i1 := ind_ne va; have i2 := ind_ne vb; omega
          · rw [cost_cons] at hcost ⊢; simp only at hcost ⊢
            have := htri b a a'
            have := hsymm a b
            omega
        · have hb1 : deg M b = 1 := by omega
          have e2 := hd b
          rw [deg_cons, ind_ne heq] at e2; simp only at e2
          by_cases hm : a' = b
          · -- mated to each other: drop the pair
            subst hm
            rw [ind_self] at e2
            have hM'b : deg M' a' = 0 := by omega
            refine ⟨M', key _ (fun v => ?_), ?_⟩
            · have e3 := hd v
              rw [deg_cons] at e3; simp only at e3
              have h0 := hM v
              by_cases va : a = v
              · subst va; have i1 := ind_self a; have i2 := ind_ne hba; omega
              · by_cases vb : a' = v
                · subst vb; have i1 := ind_self a'; have i2 := ind_ne heq; omega
                · have i1 := ind_ne va; have i2 := ind_ne vb; omega
            · rw [cost_cons] at hcost; omega
          · -- distinct mates a', b': join them
            rw [ind_ne hm] at e2
            obtain ⟨b', M'', hd2, hcost2⟩ := extract dist hsymm M' b (by omega)
            have f1 := hd2 b
            have f2 := hd2 a
            rw [deg_cons, ind_self] at f1
            rw [deg_cons, ind_ne hba] at f2
            simp only at f1 f2
            have hb'b : ind b' b = 0 := by omega
            have hM''b : deg M'' b = 0 := by omega
            have hb'a : ind b' a = 0 := by omega
            have hM''a : deg M'' a = 0 := by omega
            refine ⟨(a', b') :: M'', key _ (fun v => ?_), ?_⟩
            · have e3 := hd v
              have f3 := hd2 v
              rw [deg_cons] at e3 f3 ⊢; simp only at e3 f3 ⊢
              have h0 := hM v
              by_cases va : a = v
              · subst va; have i1 := ind_self a; have i2 := ind_ne hba; omega
              · by_cases vb : b = v
                · subst vb; have i1 := ind_self b; have i2 := ind_ne heq; omega
                · have i1 := ind_ne va; have i2 := ind_ne vb; omega
            · rw [cost_cons] at hcost hcost2 ⊢; simp only at hcost hcost2 ⊢
              have t1 := htri a' a b'
              have t2 := htri a b b'
              have := hsymm a a'
              omega

/-- a pair of the list contributes to the degrees of its endpoints -/
theorem deg_ge_of_mem (m : List (V × V)) (x : V × V) (p : V) (h : x ∈ m) :
    ind x.1 p + ind x.2 p ≤ deg m p := by
  induction m with
  | nil => simp at h
  | cons y ys ih =>
    rw [deg_cons]
    rcases List.mem_cons.mp h with rfl | h
    · omega
    · have := ih h; omega

omit [DecidableEq V] in
theorem length_ends (m : List (V × V)) : (ends m).length = 2 * m.length := by
  induction m with
  | nil => rfl
  | cons y ys ih =>
    have he : ends (y :: ys) = y.1 :: y.2 :: ends ys := by simp [ends]
    rw [he]; simp only [List.length_cons, ih]; omega

/-- **T-join lemma, matching form**: if `D` lists (without repetition) exactly the odd-degree vertices
    of the edge list `E`, then the complete graph on `D` has a perfect matching of total distance
    at most `|E|` — in particular `|D|` is even. -/
theorem tjoin_complete (dist : V → V → Nat) (hsymm : ∀ a b, dist a b = dist b a)
    (htri : ∀ a b c, dist a c ≤ dist a b + dist b c)
    (E : List (V × V)) (hadj : ∀ e ∈ E, dist e.1 e.2 ≤ 1)
    (D : List V) (hD : D.Nodup) (hodd : ∀ v, v ∈ D ↔ deg E v % 2 = 1) :
    ∃ M : List (V × V), isPerfectMatchingOfGraph D (pairsOf D) M = true ∧
      cost dist M ≤ E.length ∧ D.length = 2 * M.length := by
  obtain ⟨M, hM, hc⟩ := tjoin dist hsymm htri E hadj
  have hperm : (ends M).Perm D := by
    rw [List.perm_iff_count]
    intro v
    have h1 : (ends M).count v = deg E v % 2 := hM v
    rw [h1]
    by_cases hv : v ∈ D
    · rw [List.count_eq_one_of_mem hD hv]; exact (hodd v).mp hv
    · rw [List.count_eq_zero_of_not_mem hv]
      have := (hodd v).not.mp hv
      omega
  refine ⟨M, pm_of_perm D (pairsOf D) M hD hperm ?_, hc, ?_⟩
  · intro x hx
    have h1 : x.1 ∈ D := hperm.mem_iff.mp (by
      unfold ends; exact List.mem_flatMap.mpr ⟨x, hx, by simp⟩)
    have h2 : x.2 ∈ D := hperm.mem_iff.mp (by
      unfold ends; exact List.mem_flatMap.mpr ⟨x, hx, by simp⟩)
    have hne : x.1 ≠ x.2 := by
      intro e
      have := deg_ge_of_mem M x x.1 hx
      rw [ind_self, ← e, ind_self, hM] at this
      omega
    exact pairsOf_complete D x.1 x.2 h1 h2 hne
  · rw [← hperm.length_eq, length_ends]

end Qec.TJoin
