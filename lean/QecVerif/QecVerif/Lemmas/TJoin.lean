/-
  The T-join lemma, generic: in ANY finite multigraph (edges = a list of ordered pairs over a type
  `V`, self loops and repeated edges allowed) with a function `dist : V → V → Nat` that is symmetric,
  satisfies the triangle inequality and is `≤ 1` on every edge, the set of odd-degree vertices has a
  perfect matching (a list of pairs in which every odd-degree vertex occurs exactly once and no
  other vertex occurs) of total `dist` at most the number of edges.

  Proof: induction on the edge list, one edge `(a, b)` at a time — adding the edge flips the parity
  of `a` and of `b`; re-route the at most two pairs that touch `a`, `b`:
    a, b both even before   →  add the pair (a, b)                       (+ dist a b ≤ 1)
    a odd (mate a'), b even →  replace (a, a') by (b, a')                (dist b a' ≤ 1 + dist a a')
    a, b odd, mates a', b'  →  replace (a, a'), (b, b') by (a', b')      (dist a' b' ≤ dist a' a + 1 + dist b b')
    a, b odd and mated      →  drop the pair (a, b).
  No trails, no connectivity, core Lean only.
-/
import QecVerif.Lemmas.Decoders
import QecVerif.Lemmas.Lattice.Toric
import QecVerif.Lemmas.MwpmReduce
import QecVerif.Lemmas.MwpmSplit
namespace Qec.TJoin
open Qec Qec.Dec

variable {V : Type} [DecidableEq V]

/-- number of occurrences of `p` among the endpoints (= degree of `p`, a self loop counting twice) -/
def deg (m : List (V × V)) (p : V) : Nat := (ends m).count p

/-- total `dist` of a list of pairs -/
def cost (dist : V → V → Nat) (m : List (V × V)) : Nat := (m.map fun p => dist p.1 p.2).sum

/-- indicator -/
def ind (x p : V) : Nat := if x = p then 1 else 0

theorem ind_self (x : V) : ind x x = 1 := by simp [ind]
theorem ind_ne {x p : V} (h : x ≠ p) : ind x p = 0 := by simp [ind, h]
theorem ind_le (x p : V) : ind x p ≤ 1 := by unfold ind; split <;> omega

theorem deg_nil (p : V) : deg ([] : List (V × V)) p = 0 := rfl

theorem deg_cons (x : V × V) (l : List (V × V)) (p : V) :
    deg (x :: l) p = ind x.1 p + ind x.2 p + deg l p := by
  have he : ends (x :: l) = x.1 :: x.2 :: ends l := by simp [ends]
  unfold deg ind
  rw [he, List.count_cons, List.count_cons]
  by_cases h1 : x.1 = p <;> by_cases h2 : x.2 = p <;> simp [h1, h2] <;> omega

omit [DecidableEq V] in
theorem cost_nil (dist : V → V → Nat) : cost dist ([] : List (V × V)) = 0 := rfl

omit [DecidableEq V] in
theorem cost_cons (dist : V → V → Nat) (x : V × V) (l : List (V × V)) :
    cost dist (x :: l) = dist x.1 x.2 + cost dist l := by
  simp [cost]

/-- a vertex that occurs in a list of pairs can be brought to the front as a first component,
    keeping all degrees and (for a symmetric `dist`) the cost -/
theorem extract (dist : V → V → Nat) (hsymm : ∀ a b, dist a b = dist b a)
    (m : List (V × V)) (a : V) (h : 0 < deg m a) :
    ∃ a' m', (∀ v, deg m v = deg ((a, a') :: m') v) ∧ cost dist m = cost dist ((a, a') :: m') := by
  induction m with
  | nil => simp [deg_nil] at h
  | cons x l ih =>
    obtain ⟨x1, x2⟩ := x
    by_cases h1 : x1 = a
    · subst h1
      exact ⟨x2, l, fun _ => rfl, rfl⟩
    · by_cases h2 : x2 = a
      · subst h2
        refine ⟨x1, l, fun v => ?_, ?_⟩
        · rw [deg_cons, deg_cons]; simp only; omega
        · rw [cost_cons, cost_cons]; simp only; rw [hsymm]
      · have hl : 0 < deg l a := by
          rw [deg_cons, ind_ne h1, ind_ne h2] at h; simpa using h
        obtain ⟨a', m', hd, hc⟩ := ih hl
        refine ⟨a', (x1, x2) :: m', fun v => ?_, ?_⟩
        · have := hd v
          rw [deg_cons] at this
          rw [deg_cons, deg_cons, deg_cons, this]; simp only; omega
        · rw [cost_cons] at hc
          rw [cost_cons, cost_cons, cost_cons, hc]; simp only; omega

/-- **T-join lemma**: the odd-degree vertices of any edge list have a perfect matching of total
    distance at most the number of edges.  `deg M v = deg E v % 2` says: `v` occurs exactly once
    among the endpoints of `M` when its degree in `E` is odd, and not at all when it is even. -/
theorem tjoin (dist : V → V → Nat) (hsymm : ∀ a b, dist a b = dist b a)
    (htri : ∀ a b c, dist a c ≤ dist a b + dist b c)
    (E : List (V × V)) (hadj : ∀ e ∈ E, dist e.1 e.2 ≤ 1) :
    ∃ M : List (V × V), (∀ v, deg M v = deg E v % 2) ∧ cost dist M ≤ E.length := by
  induction E with
  | nil => exact ⟨[], fun v => by simp [deg_nil], by simp [cost_nil]⟩
  | cons e E ih =>
    obtain ⟨a, b⟩ := e
    obtain ⟨M, hM, hc⟩ := ih (fun e he => hadj e (by simp [he]))
    have hab : dist a b ≤ 1 := hadj (a, b) (by simp)
    simp only [List.length_cons]
    by_cases heq : a = b
    · subst heq
      refine ⟨M, fun v => ?_, by omega⟩
      rw [hM v, deg_cons]; simp only; omega
    · have hba : b ≠ a := fun h => heq h.symm
      have key : ∀ (M' : List (V × V)),
          (∀ v, deg M' v = (deg M v + ind a v + ind b v) % 2) →
          ∀ v, deg M' v = deg ((a, b) :: E) v % 2 := by
        intro M' h v
        rw [h v, hM v, deg_cons]; simp only; omega
      have hMa : deg M a ≤ 1 := by rw [hM]; omega
      have hMb : deg M b ≤ 1 := by rw [hM]; omega
      by_cases ha : deg M a = 0
      · by_cases hb : deg M b = 0
        · -- both even: add the pair
          refine ⟨(a, b) :: M, key _ (fun v => ?_), ?_⟩
          · rw [deg_cons]; simp only
            have h0 := hM v
            by_cases va : a = v
            · subst va; have i1 := ind_self a; have i2 := ind_ne hba; omega
            · by_cases vb : b = v
              · subst vb; have i1 := ind_self b; have i2 := ind_ne heq; omega
              · have i1 := ind_ne va; have i2 := ind_ne vb; omega
          · rw [cost_cons]; simp only; omega
        · -- b odd with mate b', a even: re-route to (a, b')
          obtain ⟨b', M', hd, hcost⟩ := extract dist hsymm M b (by omega)
          have hb1 : deg M b = 1 := by omega
          have e1 := hd b
          have e2 := hd a
          rw [deg_cons, ind_self] at e1
          rw [deg_cons, ind_ne hba] at e2
          simp only at e1 e2
          have hb'b : ind b' b = 0 := by omega
          have hM'b : deg M' b = 0 := by omega
          have hb'a : ind b' a = 0 := by omega
          have hM'a : deg M' a = 0 := by omega
          refine ⟨(a, b') :: M', key _ (fun v => ?_), ?_⟩
          · have e3 := hd v
            rw [deg_cons] at e3 ⊢; simp only at e3 ⊢
            have h0 := hM v
            by_cases va : a = v
            · subst va; have i1 := ind_self a; have i2 := ind_ne hba; omega
            · by_cases vb : b = v
              · subst vb; have i1 := ind_self b; have i2 := ind_ne heq; omega
              · have i1 := ind_ne va; have i2 := ind_ne vb; omega
          · rw [cost_cons] at hcost ⊢; simp only at hcost ⊢
            have := htri a b b'
            omega
      · have ha1 : deg M a = 1 := by omega
        obtain ⟨a', M', hd, hcost⟩ := extract dist hsymm M a (by omega)
        have e1 := hd a
        rw [deg_cons, ind_self] at e1; simp only at e1
        have ha'a : ind a' a = 0 := by omega
        have hM'a : deg M' a = 0 := by omega
        by_cases hb : deg M b = 0
        · -- a odd with mate a', b even: re-route to (b, a')
          have e2 := hd b
          rw [deg_cons, ind_ne heq] at e2; simp only at e2
          have ha'b : ind a' b = 0 := by omega
          have hM'b : deg M' b = 0 := by omega
          refine ⟨(b, a') :: M', key _ (fun v => ?_), ?_⟩
          · have e3 := hd v
            rw [deg_cons] at e3 ⊢; simp only at e3 ⊢
            have h0 := hM v
            by_cases va : a = v
            · subst va; have i1 := ind_self a; have i2 := ind_ne hba; omega
            · by_cases vb : b = v
              · subst vb; have i1 := ind_self b; have i2 := ind_ne heq; omega
              · have i1 := ind_ne va; have i2 := ind_ne vb; omega
          · rw [cost_cons] at hcost ⊢; simp only at hcost ⊢
            have := htri b a a'
            have := hsymm a b
            omega
        · have hb1 : deg M b = 1 := by omega
          have e2 := hd b
          rw [deg_cons, ind_ne heq] at e2; simp only at e2
          by_cases hm : a' = b
          · -- mated to each other: drop the pair
            subst hm
            rw [ind_self] at e2
            have hM'b : deg M' a' = 0 := by omega
            refine ⟨M', key _ (fun v => ?_), ?_⟩
            · have e3 := hd v
              rw [deg_cons] at e3; simp only at e3
              have h0 := hM v
              by_cases va : a = v
              · subst va; have i1 := ind_self a; have i2 := ind_ne hba; omega
              · by_cases vb : a' = v
                · subst vb; have i1 := ind_self a'; have i2 := ind_ne heq; omega
                · have i1 := ind_ne va; have i2 := ind_ne vb; omega
            · rw [cost_cons] at hcost; omega
          · -- distinct mates a', b': join them
            rw [ind_ne hm] at e2
            obtain ⟨b', M'', hd2, hcost2⟩ := extract dist hsymm M' b (by omega)
            have f1 := hd2 b
            have f2 := hd2 a
            rw [deg_cons, ind_self] at f1
            rw [deg_cons, ind_ne hba] at f2
            simp only at f1 f2
            have hb'b : ind b' b = 0 := by omega
            have hM''b : deg M'' b = 0 := by omega
            have hb'a : ind b' a = 0 := by omega
            have hM''a : deg M'' a = 0 := by omega
            refine ⟨(a', b') :: M'', key _ (fun v => ?_), ?_⟩
            · have e3 := hd v
              have f3 := hd2 v
              rw [deg_cons] at e3 f3 ⊢; simp only at e3 f3 ⊢
              have h0 := hM v
              by_cases va : a = v
              · subst va; have i1 := ind_self a; have i2 := ind_ne hba; omega
              · by_cases vb : b = v
                · subst vb; have i1 := ind_self b; have i2 := ind_ne heq; omega
                · have i1 := ind_ne va; have i2 := ind_ne vb; omega
            · rw [cost_cons] at hcost hcost2 ⊢; simp only at hcost hcost2 ⊢
              have t1 := htri a' a b'
              have t2 := htri a b b'
              have := hsymm a a'
              omega

/-- a pair of the list contributes to the degrees of its endpoints -/
theorem deg_ge_of_mem (m : List (V × V)) (x : V × V) (p : V) (h : x ∈ m) :
    ind x.1 p + ind x.2 p ≤ deg m p := by
  induction m with
  | nil => simp at h
  | cons y ys ih =>
    rw [deg_cons]
    rcases List.mem_cons.mp h with rfl | h
    · omega
    · have := ih h; omega

theorem mem_ends_of_deg_pos (m : List (V × V)) (p : V) (h : 0 < deg m p) :
    ∃ x ∈ m, x.1 = p ∨ x.2 = p := by
  have : p ∈ ends m := List.count_pos_iff.mp h
  unfold ends at this
  obtain ⟨x, hx, hp⟩ := List.mem_flatMap.mp this
  simp only [List.mem_cons, List.not_mem_nil, or_false] at hp
  exact ⟨x, hx, hp.imp Eq.symm Eq.symm⟩

omit [DecidableEq V] in
theorem length_ends (m : List (V × V)) : (ends m).length = 2 * m.length := by
  induction m with
  | nil => rfl
  | cons y ys ih =>
    have he : ends (y :: ys) = y.1 :: y.2 :: ends ys := by simp [ends]
    rw [he]; simp only [List.length_cons, ih]; omega

/-- **T-join lemma, matching form**: if `D` lists (without repetition) exactly the odd-degree vertices
    of the edge list `E`, then the complete graph on `D` has a perfect matching of total distance
    at most `|E|` — in particular `|D|` is even. -/
theorem tjoin_complete (dist : V → V → Nat) (hsymm : ∀ a b, dist a b = dist b a)
    (htri : ∀ a b c, dist a c ≤ dist a b + dist b c)
    (E : List (V × V)) (hadj : ∀ e ∈ E, dist e.1 e.2 ≤ 1)
    (D : List V) (hD : D.Nodup) (hodd : ∀ v, v ∈ D ↔ deg E v % 2 = 1) :
    ∃ M : List (V × V), isPerfectMatchingOfGraph D (pairsOf D) M = true ∧
      cost dist M ≤ E.length ∧ D.length = 2 * M.length := by
  obtain ⟨M, hM, hc⟩ := tjoin dist hsymm htri E hadj
  have hperm : (ends M).Perm D := by
    rw [List.perm_iff_count]
    intro v
    have h1 : (ends M).count v = deg E v % 2 := hM v
    rw [h1]
    by_cases hv : v ∈ D
    · rw [List.count_eq_one_of_mem hD hv]; exact (hodd v).mp hv
    · rw [List.count_eq_zero_of_not_mem hv]
      have := (hodd v).not.mp hv
      omega
  refine ⟨M, pm_of_perm D (pairsOf D) M hD hperm ?_, hc, ?_⟩
  · intro x hx
    have h1 : x.1 ∈ D := hperm.mem_iff.mp (by
      unfold ends; exact List.mem_flatMap.mpr ⟨x, hx, by simp⟩)
    have h2 : x.2 ∈ D := hperm.mem_iff.mp (by
      unfold ends; exact List.mem_flatMap.mpr ⟨x, hx, by simp⟩)
    have hne : x.1 ≠ x.2 := by
      intro e
      have := deg_ge_of_mem M x x.1 hx
      rw [ind_self, ← e, ind_self, hM] at this
      omega
    exact pairsOf_complete D x.1 x.2 h1 h2 hne
  · rw [← hperm.length_eq, length_ends]

end Qec.TJoin

/-! ## the torus: the decoder's distance is a metric in which lattice neighbours are at distance ≤ 1 -/

namespace Qec.ChainToric
open Qec Qec.Dec Qec.Toric Qec.ToricLemmas Qec.TJoin Qec.NaiveDecode Qec.MwpmReduce

/-- a representative of a residue class that lies in `(-m/2, m/2]` has the least absolute value -/
theorem natAbs_le_of_congr {m t s : Int} (hm : 0 < m) (h1 : -m < 2 * t) (h2 : 2 * t ≤ m)
    (h : t % m = s % m) : t.natAbs ≤ s.natAbs := by
  have hd : m ∣ t - s := Int.dvd_of_emod_eq_zero (Int.emod_eq_emod_iff_emod_sub_eq_zero.mp h)
  obtain ⟨k, hk⟩ := hd
  rcases Int.lt_trichotomy k 0 with hneg | hz | hpos
  · have := Int.mul_le_mul_of_nonneg_left (show k ≤ -1 by omega) (show 0 ≤ m by omega)
    rw [Int.mul_neg, Int.mul_one] at this
    omega
  · subst hz
    rw [Int.mul_zero] at hk
    have : t = s := by omega
    rw [this]
  · have := Int.mul_le_mul_of_nonneg_left (show 1 ≤ k by omega) (show 0 ≤ m by omega)
    rw [Int.mul_one] at this
    omega

/-- triangle inequality for the cyclic step -/
theorem step_triangle {m : Int} (hm : 0 < m) (x y z : Int) :
    (step m x z).natAbs ≤ (step m x y).natAbs + (step m y z).natAbs := by
  have hb := step_bounds hm x z
  have e1 := step_emod hm x y
  have e2 := step_emod hm y z
  have e3 := step_emod hm x z
  have hs : (x + (step m x y + step m y z)) % m = z % m := by
    rw [← Int.add_assoc, ← Int.emod_add_emod, e1, Int.emod_add_emod, e2]
  have hc : (step m x z) % m = (step m x y + step m y z) % m := by
    have : (x + step m x z) % m = (x + (step m x y + step m y z)) % m := by rw [e3, hs]
    exact (emod_eq_iff_of_sub_eq (by omega)).mp this
  have := natAbs_le_of_congr hm hb.1 hb.2 hc
  omega

/-- the decoder's distance with the lattice check dropped (a total function) -/
def dist (R C : Int) (a b : Idx) : Nat := (step R a.2.1 b.2.1).natAbs + (step C a.2.2 b.2.2).natAbs

theorem dist_symm (R C : Int) (hR : 0 < R) (hC : 0 < C) (a b : Idx) : dist R C a b = dist R C b a := by
  unfold dist
  rw [step_natAbs_comm R _ _ hR, step_natAbs_comm C _ _ hC]

theorem dist_triangle (R C : Int) (hR : 0 < R) (hC : 0 < C) (a b c : Idx) :
    dist R C a c ≤ dist R C a b + dist R C b c := by
  unfold dist
  have := step_triangle hR a.2.1 b.2.1 c.2.1
  have := step_triangle hC a.2.2 b.2.2 c.2.2
  omega

/-- `ToricMWPMDecoder.distance`, totalised as in `toricWeightedEdges` -/
def toricDistT (R C : Int) (a b : Idx) : Nat :=
  match Toric.distance R C a b with | .ok d => d | .error _ => 0

theorem toricDistT_eq (R C : Int) (a b : Idx) (hab : a.1 % 2 = b.1 % 2) : toricDistT R C a b = dist R C a b := by
  unfold toricDistT
  rw [distance_eq_ok R C a b hab]
  rfl

/-! ### every qubit of the torus is an edge between two plaquettes of either lattice -/

theorem emod_eq_of_sub_eq_mul {m x y k : Int} (h : x - y = m * k) : x % m = y % m := by
  rw [Int.emod_eq_emod_iff_emod_sub_eq_zero, h, Int.mul_emod_right]

theorem step_one {m : Int} (hm : 2 ≤ m) (x y : Int) (h : (x + 1) % m = y % m) : step m x y = 1 :=
  (step_unique (by omega) x y 1 h (by omega) (by omega)).symm

theorem site_congr (R C : Int) (hR : 0 < R) (hC : 0 < C) (op : P1) (v : BVec) (s t : Idx)
    (h : norm R C s = norm R C t) : site R C op v s = site R C op v t := by
  unfold site
  rw [(flatten_inj R C hR hC s t).mpr h]

/-- the operator of the paths between plaquettes of lattice `l` -/
def opOf (l : Int) : P1 := if l = 0 then P1.X else P1.Z

/-- the two plaquettes of lattice `l` adjacent to the site `s`: for a site of the same lattice its
    N and S neighbours, for a site of the other lattice its W and E neighbours -/
def edge (R C : Int) (l : Int) (s : Idx) : Idx × Idx :=
  if s.1 = l then ((l, (s.2.1 - 1) % R, s.2.2), (l, s.2.1, s.2.2))
  else ((l, (s.2.1 - l) % R, (s.2.2 - 1 + l) % C), (l, (s.2.1 - l) % R, (s.2.2 + l) % C))

theorem edge_spec (R C : Int) (hR : 2 ≤ R) (hC : 2 ≤ C) (l : Int) (hl : l = 0 ∨ l = 1) (s : Idx)
    (hs : InLattice R C s) :
    InLattice R C (edge R C l s).1 ∧ InLattice R C (edge R C l s).2 ∧
    (edge R C l s).1.1 = l ∧ (edge R C l s).2.1 = l ∧
    dist R C (edge R C l s).1 (edge R C l s).2 ≤ 1 ∧
    path R C (identity R C) (edge R C l s).1 (edge R C l s).2 =
      .ok (site R C (opOf l) (identity R C) s) := by
  obtain ⟨s1, s2, s3, s4, s5, s6⟩ := hs
  have hR0 : (0 : Int) < R := by omega
  have hC0 : (0 : Int) < C := by omega
  have hl2 : l % 2 = l := by omega
  have hop : ∀ a : Idx, a.1 = l → pathOp R C a = opOf l := by
    intro a ha
    rw [pathOp_eq, ha, hl2]; rfl
  unfold edge
  by_cases hsl : s.1 = l
  · rw [if_pos hsl]
    dsimp only
    have b1 := Int.emod_nonneg (s.2.1 - 1) (show R ≠ 0 by omega)
    have b2 := Int.emod_lt_of_pos (s.2.1 - 1) hR0
    have st1 : step R ((s.2.1 - 1) % R) s.2.1 = 1 :=
      step_one hR _ _ (by rw [Int.emod_add_emod]; congr 1; omega)
    have st2 : step C s.2.2 s.2.2 = 0 := step_eq_zero hC0 _ _ rfl
    refine ⟨⟨by omega, by omega, b1, b2, s5, s6⟩, ⟨by omega, by omega, s3, s4, s5, s6⟩, rfl, rfl, ?_, ?_⟩
    · simp only [dist, st1, st2]; decide
    · rw [path_eq_ok R C _ _ _ (by rfl)]
      dsimp only
      rw [st1, st2, hop _ rfl]
      congr 1
      simp only [pathSites, sites, norm, show ¬((1 : Int) < 0) by decide, show ¬((0 : Int) < 0) by decide,
        if_false, show Int.natAbs 1 = 1 from rfl, show Int.natAbs 0 = 0 from rfl, List.range_one,
        List.range_zero, List.map_cons, List.map_nil, List.append_nil, List.foldl_cons, List.foldl_nil]
      apply site_congr R C hR0 hC0
      rw [norm_eq_iff]
      dsimp only
      refine ⟨by omega, ?_, by rw [Int.emod_emod]⟩
      rw [Int.emod_emod, Int.add_assoc, Int.emod_add_emod]
      congr 1
      simp only [Int.natCast_zero]
      omega
  · rw [if_neg hsl]
    dsimp only
    have b1 := Int.emod_nonneg (s.2.1 - l) (show R ≠ 0 by omega)
    have b2 := Int.emod_lt_of_pos (s.2.1 - l) hR0
    have c1 := Int.emod_nonneg (s.2.2 - 1 + l) (show C ≠ 0 by omega)
    have c2 := Int.emod_lt_of_pos (s.2.2 - 1 + l) hC0
    have d1 := Int.emod_nonneg (s.2.2 + l) (show C ≠ 0 by omega)
    have d2 := Int.emod_lt_of_pos (s.2.2 + l) hC0
    have st1 : step R ((s.2.1 - l) % R) ((s.2.1 - l) % R) = 0 := step_eq_zero hR0 _ _ rfl
    have st2 : step C ((s.2.2 - 1 + l) % C) ((s.2.2 + l) % C) = 1 :=
      step_one hC _ _ (by rw [Int.emod_add_emod, Int.emod_emod]; congr 1; omega)
    refine ⟨⟨by omega, by omega, b1, b2, c1, c2⟩, ⟨by omega, by omega, b1, b2, d1, d2⟩, rfl, rfl, ?_, ?_⟩
    · simp only [dist, st1, st2]; decide
    · rw [path_eq_ok R C _ _ _ (by rfl)]
      dsimp only
      rw [st1, st2, hop _ rfl]
      congr 1
      simp only [pathSites, sites, norm, show ¬((1 : Int) < 0) by decide, show ¬((0 : Int) < 0) by decide,
        if_false, show Int.natAbs 1 = 1 from rfl, show Int.natAbs 0 = 0 from rfl, List.range_one,
        List.range_zero, List.map_cons, List.map_nil, List.nil_append, List.foldl_cons, List.foldl_nil]
      apply site_congr R C hR0 hC0
      rw [norm_eq_iff]
      dsimp only
      rw [hl2]
      refine ⟨by omega, ?_, ?_⟩
      · rw [Int.emod_emod, Int.add_zero, Int.emod_add_emod]
        congr 1
        omega
      · rw [Int.emod_emod]
        have : (s.2.2 - 1 + l) % C - l + 1 + ((0 : Nat) : Int) = (s.2.2 - 1 + l) % C + (1 - l) := by
          simp only [Int.natCast_zero]; omega
        rw [this, Int.emod_add_emod]
        congr 1
        omega

/-! ### an X-type (Z-type) operator is the product of single-qubit operators on its support -/

theorem ext_getD (a b : BVec) (hl : a.length = b.length)
    (h : ∀ j, j < a.length → a.getD j false = b.getD j false) : a = b := by
  apply List.ext_getElem hl
  intro j h1 h2
  have := h j h1
  simpa [List.getD_eq_getElem?_getD, List.getElem?_eq_getElem h1, List.getElem?_eq_getElem h2] using this

/-- qubits with the X bit set / with the Z bit set -/
def suppX (n : Nat) (v : BVec) : List Nat := (List.range n).filter fun i => v.getD i false
def suppZ (n : Nat) (v : BVec) : List Nat := (List.range n).filter fun i => v.getD (n + i) false

theorem supp_lt (n : Nat) (g : Nat → Bool) : ∀ f ∈ (List.range n).filter g, f < n := by
  intro f hf
  exact List.mem_range.mp (List.mem_filter.mp hf).1

theorem supp_nodup (n : Nat) (g : Nat → Bool) : ((List.range n).filter g).Nodup :=
  List.nodup_range.filter _

theorem eq_applyOps_of_bits (n : Nat) (op : P1) (v : BVec) (g : Nat → Bool) (hv : v.length = 2 * n)
    (hx : ∀ i, i < n → v.getD i false = (op.xBit && g i))
    (hz : ∀ i, i < n → v.getD (n + i) false = (op.zBit && g i)) :
    v = applyOps n op (zeros (2 * n)) ((List.range n).filter g) := by
  have hlt := supp_lt n g
  have hnd := supp_nodup n g
  have hmem : ∀ i, i < n → decide (i ∈ (List.range n).filter g) = g i := by
    intro i hi
    cases hg : g i
    · simp [List.mem_filter, hg]
    · simp [List.mem_filter, hg, hi]
  apply ext_getD
  · simp [hv, zeros]
  · intro j hj
    rw [hv] at hj
    by_cases hjn : j < n
    · rw [getD_applyOps_x n op _ _ j (by simp [zeros]) hlt hjn, getD_zeros,
        xsum_decide_eq_of_nodup _ _ hnd, hmem j hjn, hx j hjn]
      simp
    · obtain ⟨i, rfl⟩ : ∃ i, j = n + i := ⟨j - n, by omega⟩
      have hi : i < n := by omega
      rw [getD_applyOps_z n op _ _ i (by simp [zeros]) hlt, getD_zeros,
        xsum_decide_eq_of_nodup _ _ hnd, hmem i hi, hz i hi]
      simp

theorem getD_xPart_lo (n : Nat) (v : BVec) (hv : v.length = 2 * n) (i : Nat) (hi : i < n) :
    (xPart v).getD i false = v.getD i false := by
  have h2 : v.length / 2 = n := by omega
  simp only [xPart, xHalf, h2, List.getD_eq_getElem?_getD]
  rw [List.getElem?_append_left (by simp; omega), List.getElem?_take, if_pos hi]

theorem getD_xPart_hi (n : Nat) (v : BVec) (hv : v.length = 2 * n) (i : Nat) :
    (xPart v).getD (n + i) false = false := by
  have h2 : v.length / 2 = n := by omega
  simp only [xPart, xHalf, zHalf, h2, List.getD_eq_getElem?_getD]
  rw [List.getElem?_append_right (by simp)]
  simp only [zeros, List.getElem?_replicate]
  split <;> rfl

theorem getD_zPart_lo (n : Nat) (v : BVec) (hv : v.length = 2 * n) (i : Nat) (hi : i < n) :
    (zPart v).getD i false = false := by
  have h2 : v.length / 2 = n := by omega
  simp only [zPart, xHalf, zHalf, h2, List.getD_eq_getElem?_getD]
  rw [List.getElem?_append_left (by simp [zeros]; omega)]
  simp only [zeros, List.getElem?_replicate]
  split <;> rfl

theorem getD_zPart_hi (n : Nat) (v : BVec) (hv : v.length = 2 * n) (i : Nat) :
    (zPart v).getD (n + i) false = v.getD (n + i) false := by
  have h2 : v.length / 2 = n := by omega
  simp only [zPart, xHalf, zHalf, h2, List.getD_eq_getElem?_getD]
  rw [List.getElem?_append_right (by simp [zeros])]
  simp only [zeros, List.getElem?_drop, List.length_replicate, List.length_take]
  congr 2; omega

theorem xPart_eq_applyOps (n : Nat) (v : BVec) (hv : v.length = 2 * n) :
    xPart v = applyOps n P1.X (zeros (2 * n)) (suppX n v) :=
  eq_applyOps_of_bits n P1.X (xPart v) _ (xPart_length v n hv)
    (fun i hi => by rw [getD_xPart_lo n v hv i hi]; simp [P1.xBit])
    (fun i _ => by rw [getD_xPart_hi n v hv i]; simp [P1.zBit])

theorem zPart_eq_applyOps (n : Nat) (v : BVec) (hv : v.length = 2 * n) :
    zPart v = applyOps n P1.Z (zeros (2 * n)) (suppZ n v) :=
  eq_applyOps_of_bits n P1.Z (zPart v) _ (zPart_length v n hv)
    (fun i hi => by rw [getD_zPart_lo n v hv i hi]; simp [P1.xBit])
    (fun i _ => by rw [getD_zPart_hi n v hv i]; simp [P1.zBit])

theorem bsfWt_xPart (n : Nat) (v : BVec) (hv : v.length = 2 * n) :
    bsfWt (xPart v) = (suppX n v).length := by
  rw [xPart_eq_applyOps n v hv]
  exact bsfWt_applyOps_zeros n P1.X _ (by decide) (supp_lt n _) (supp_nodup n _)

theorem bsfWt_zPart (n : Nat) (v : BVec) (hv : v.length = 2 * n) :
    bsfWt (zPart v) = (suppZ n v).length := by
  rw [zPart_eq_applyOps n v hv]
  exact bsfWt_applyOps_zeros n P1.Z _ (by decide) (supp_lt n _) (supp_nodup n _)

/-! ### from flat qubit numbers back to site indices -/

/-- the site with flat qubit number `f` (the index list of the code is in flat order) -/
def unflat (R C : Int) (f : Nat) : Idx := (indices R C).getD f (0, 0, 0)

theorem nQubits_toNat (R C : Int) (hR : 0 < R) (hC : 0 < C) :
    (nQubits R C).toNat = 2 * (R.toNat * C.toNat) := by
  have : nQubits R C = ((2 * (R.toNat * C.toNat) : Nat) : Int) := by
    unfold nQubits
    push_cast
    rw [Int.toNat_of_nonneg (show 0 ≤ R by omega), Int.toNat_of_nonneg (show 0 ≤ C by omega), Int.mul_assoc]
  rw [this, Int.toNat_natCast]

theorem unflat_spec (R C : Int) (hR : 0 < R) (hC : 0 < C) (f : Nat) (hf : f < (nQubits R C).toNat) :
    InLattice R C (unflat R C f) ∧ flatNat R C (unflat R C f) = f := by
  have hlen : f < (indices R C).length := by rw [length_indices, ← nQubits_toNat R C hR hC]; exact hf
  have hget : (indices R C)[f]? = some (unflat R C f) := by
    unfold unflat
    rw [List.getD_eq_getElem?_getD, List.getElem?_eq_getElem hlen]; rfl
  have hin : InLattice R C (unflat R C f) :=
    (mem_indices R C _).mp (List.mem_of_getElem? hget)
  refine ⟨hin, ?_⟩
  have h2 := getElem?_indices R C _ hin
  exact ((List.getElem?_inj hlen (indices_nodup R C)).mp (hget.trans h2.symm)).symm

theorem applyOps_eq_sites (R C : Int) (hR : 0 < R) (hC : 0 < C) (op : P1) (fs : List Nat)
    (hfs : ∀ f ∈ fs, f < (nQubits R C).toNat) :
    applyOps (nQubits R C).toNat op (zeros (2 * (nQubits R C).toNat)) fs =
      sites R C op (identity R C) (fs.map (unflat R C)) := by
  rw [sites_eq_applyOps, identity_eq_zeros, List.map_map]
  congr 1
  symm
  calc fs.map (flatNat R C ∘ unflat R C) = fs.map id :=
        List.map_congr_left fun f hf => (unflat_spec R C hR hC f (hfs f hf)).2
    _ = fs := List.map_id _

/-! ### a site-list operator is the XOR of the one-step paths across its sites -/

/-- edges (pairs of adjacent plaquettes of lattice `l`) of a list of sites -/
def edges (R C : Int) (l : Int) (L : List Idx) : List (Idx × Idx) := L.map (edge R C l)

theorem sites_eq_xorAll_paths (R C : Int) (hR : 2 ≤ R) (hC : 2 ≤ C) (l : Int) (hl : l = 0 ∨ l = 1)
    (L : List Idx) (hL : ∀ s ∈ L, InLattice R C s) :
    sites R C (opOf l) (identity R C) L =
      xorAll (2 * ToricL.nq R C) ((edges R C l L).map fun x => ToricL.pathT R C x.1 x.2) := by
  have h1 := foldl_step_eq_xorAll (2 * ToricL.nq R C) (site R C (opOf l))
    (fun v x h => by rw [ToricL.site_length, h]) (fun v x h => ToricL.site_xor R C _ v x h) L
  unfold sites
  rw [identity_eq_zeros]
  refine h1.trans ?_
  unfold edges
  rw [List.map_map]
  congr 1
  apply List.map_congr_left
  intro s hs
  have := (edge_spec R C hR hC l hl s (hL s hs)).2.2.2.2.2
  exact (ToricL.pathT_of_ok R C _ _ _ this).symm

/-! ### the error chain of lattice `l`: sites, edges, syndrome -/

/-- the X-component (lattice 0, primal plaquettes = Z-type stabilizers) resp. Z-component
    (lattice 1, dual plaquettes) of an error -/
def part (l : Int) (e : BVec) : BVec := if l = 0 then xPart e else zPart e

/-- the sites on which that component acts -/
def chainSites (R C : Int) (l : Int) (e : BVec) : List Idx :=
  (if l = 0 then suppX (ToricL.nq R C) e else suppZ (ToricL.nq R C) e).map (unflat R C)

/-- the component as an edge set of the lattice graph of plaquettes of lattice `l` -/
def chainEdges (R C : Int) (l : Int) (e : BVec) : List (Idx × Idx) := edges R C l (chainSites R C l e)

theorem part_length (R C : Int) (l : Int) (e : BVec) (he : e.length = 2 * ToricL.nq R C) :
    (part l e).length = 2 * ToricL.nq R C := by
  unfold part; split
  · exact xPart_length e _ he
  · exact zPart_length e _ he

theorem chainSites_inLattice (R C : Int) (hR : 0 < R) (hC : 0 < C) (l : Int) (e : BVec) :
    ∀ s ∈ chainSites R C l e, InLattice R C s := by
  intro s hs
  unfold chainSites at hs
  obtain ⟨f, hf, rfl⟩ := List.mem_map.mp hs
  refine (unflat_spec R C hR hC f ?_).1
  split at hf
  · exact supp_lt _ _ f hf
  · exact supp_lt _ _ f hf

theorem part_eq_sites (R C : Int) (hR : 0 < R) (hC : 0 < C) (l : Int) (hl : l = 0 ∨ l = 1) (e : BVec)
    (he : e.length = 2 * ToricL.nq R C) :
    part l e = sites R C (opOf l) (identity R C) (chainSites R C l e) := by
  unfold part chainSites opOf
  rcases hl with rfl | rfl
  · rw [if_pos rfl, if_pos rfl, if_pos rfl, xPart_eq_applyOps _ e he]
    exact applyOps_eq_sites R C hR hC _ _ (supp_lt _ _)
  · rw [if_neg (by decide), if_neg (by decide), if_neg (by decide), zPart_eq_applyOps _ e he]
    exact applyOps_eq_sites R C hR hC _ _ (supp_lt _ _)

theorem chainEdges_length (R C : Int) (l : Int) (hl : l = 0 ∨ l = 1) (e : BVec)
    (he : e.length = 2 * ToricL.nq R C) : (chainEdges R C l e).length = bsfWt (part l e) := by
  unfold chainEdges edges chainSites part
  rw [List.length_map, List.length_map]
  rcases hl with rfl | rfl
  · rw [if_pos rfl, if_pos rfl, bsfWt_xPart _ e he]
  · rw [if_neg (by decide), if_neg (by decide), bsfWt_zPart _ e he]

theorem chainEdges_spec (R C : Int) (hR : 2 ≤ R) (hC : 2 ≤ C) (l : Int) (hl : l = 0 ∨ l = 1) (e : BVec) :
    ∀ x ∈ chainEdges R C l e, ToricL.Ok R C x.1 x.2 ∧ x.1.1 = l ∧ x.2.1 = l ∧ dist R C x.1 x.2 ≤ 1 := by
  intro x hx
  unfold chainEdges edges at hx
  obtain ⟨s, hs, rfl⟩ := List.mem_map.mp hx
  obtain ⟨h1, h2, h3, h4, h5, _⟩ :=
    edge_spec R C hR hC l hl s (chainSites_inLattice R C (by omega) (by omega) l e s hs)
  exact ⟨⟨(mem_indices R C _).mpr h1, (mem_indices R C _).mpr h2, h3.trans h4.symm⟩, h3, h4, h5⟩

theorem part_eq_xorAll (R C : Int) (hR : 2 ≤ R) (hC : 2 ≤ C) (l : Int) (hl : l = 0 ∨ l = 1) (e : BVec)
    (he : e.length = 2 * ToricL.nq R C) :
    part l e = xorAll (2 * ToricL.nq R C) ((chainEdges R C l e).map fun x => ToricL.pathT R C x.1 x.2) := by
  rw [part_eq_sites R C (by omega) (by omega) l hl e he]
  exact sites_eq_xorAll_paths R C hR hC l hl _ (chainSites_inLattice R C (by omega) (by omega) l e)

/-- the syndrome of the component: a plaquette is a defect iff its degree in the chain is odd -/
theorem synd_part (R C : Int) (hR : 2 ≤ R) (hC : 2 ≤ C) (H : ToricL.Spec R C) (l : Int)
    (hl : l = 0 ∨ l = 1) (e : BVec) (he : e.length = 2 * ToricL.nq R C) :
    synd (stabilizers R C) (part l e) =
      (indices R C).map fun p => decide (deg (chainEdges R C l e) p % 2 = 1) := by
  rw [part_eq_xorAll R C hR hC l hl e he]
  exact Pairing.pairing (ToricL.pathSpec R C H) (chainEdges R C l e)
    (fun x hx => (chainEdges_spec R C hR hC l hl e x hx).1)

theorem deg_eq_zero_of_lattice (m : List (Idx × Idx)) (l : Int) (h : ∀ x ∈ m, x.1.1 = l ∧ x.2.1 = l)
    (p : Idx) (hp : p.1 ≠ l) : deg m p = 0 := by
  induction m with
  | nil => rfl
  | cons x xs ih =>
    rw [deg_cons, ih (fun y hy => h y (by simp [hy]))]
    have := h x (by simp)
    rw [ind_ne (fun e => hp (by rw [← e]; exact this.1)), ind_ne (fun e => hp (by rw [← e]; exact this.2))]

/-- **defects = odd-degree vertices**: the defects of lattice `l` in the syndrome of the whole error
    are exactly the plaquettes of odd degree in the chain of lattice `l` -/
theorem mem_toricDefects_iff (R C : Int) (hR : 2 ≤ R) (hC : 2 ≤ C) (H : ToricL.Spec R C) (l : Int)
    (hl : l = 0 ∨ l = 1) (e : BVec) (he : e.length = 2 * ToricL.nq R C) (p : Idx) :
    p ∈ toricDefects R C (synd (stabilizers R C) e) l ↔ deg (chainEdges R C l e) p % 2 = 1 := by
  have hx := synd_part R C hR hC H 0 (.inl rfl) e he
  have hz := synd_part R C hR hC H 1 (.inr rfl) e he
  have hxl := xPart_length e _ he
  have hzl := zPart_length e _ he
  have hsum : synd (stabilizers R C) e = (indices R C).map fun p =>
      xor (decide (deg (chainEdges R C 0 e) p % 2 = 1)) (decide (deg (chainEdges R C 1 e) p % 2 = 1)) := by
    rw [← Pairing.xorV_map_map, ← hx, ← hz]
    conv => lhs; rw [← xPart_xor_zPart e _ he]
    exact C09.synd_add _ _ _ (by rw [hxl, hzl]) (by rw [hxl]; omega)
      (fun r hr => by rw [ToricL.stabilizers_length R C r hr, hxl])
  have hs0 := fun x hx => (chainEdges_spec R C hR hC 0 (.inl rfl) e x hx)
  have hs1 := fun x hx => (chainEdges_spec R C hR hC 1 (.inr rfl) e x hx)
  unfold toricDefects
  rw [hsum]
  have : syndromeToPlaquettes R C ((indices R C).map fun p =>
      xor (decide (deg (chainEdges R C 0 e) p % 2 = 1)) (decide (deg (chainEdges R C 1 e) p % 2 = 1))) =
      (indices R C).filter fun p =>
      xor (decide (deg (chainEdges R C 0 e) p % 2 = 1)) (decide (deg (chainEdges R C 1 e) p % 2 = 1)) :=
    filterMap_sel_map (indices R C) _
  rw [this, List.mem_filter, List.mem_filter]
  simp only [beq_iff_eq]
  constructor
  · rintro ⟨⟨_, hb⟩, hpl⟩
    rcases hl with rfl | rfl
    · rw [deg_eq_zero_of_lattice _ 1 (fun x hx => ⟨(hs1 x hx).2.1, (hs1 x hx).2.2.1⟩) p (by omega)] at hb
      simpa using hb
    · rw [deg_eq_zero_of_lattice _ 0 (fun x hx => ⟨(hs0 x hx).2.1, (hs0 x hx).2.2.1⟩) p (by omega)] at hb
      simpa using hb
  · intro hodd
    obtain ⟨x, hx, hp⟩ := mem_ends_of_deg_pos (chainEdges R C l e) p (by omega)
    rcases hl with rfl | rfl
    · have hh := hs0 x hx
      have hpl : p.1 = 0 := by rcases hp with rfl | rfl <;> [exact hh.2.1; exact hh.2.2.1]
      have hpi : p ∈ indices R C := by rcases hp with rfl | rfl <;> [exact hh.1.1; exact hh.1.2.1]
      refine ⟨⟨hpi, ?_⟩, hpl⟩
      rw [deg_eq_zero_of_lattice _ 1 (fun x hx => ⟨(hs1 x hx).2.1, (hs1 x hx).2.2.1⟩) p (by omega)]
      simpa using hodd
    · have hh := hs1 x hx
      have hpl : p.1 = 1 := by rcases hp with rfl | rfl <;> [exact hh.2.1; exact hh.2.2.1]
      have hpi : p ∈ indices R C := by rcases hp with rfl | rfl <;> [exact hh.1.1; exact hh.1.2.1]
      refine ⟨⟨hpi, ?_⟩, hpl⟩
      rw [deg_eq_zero_of_lattice _ 0 (fun x hx => ⟨(hs0 x hx).2.1, (hs0 x hx).2.2.1⟩) p (by omega)]
      simpa using hodd

/-! ### the chain induces a perfect matching of the decoder's graph -/

theorem cost_congr {V : Type} (f g : V → V → Nat) (m : List (V × V))
    (h : ∀ x ∈ m, f x.1 x.2 = g x.1 x.2) : cost f m = cost g m := by
  unfold cost
  congr 1
  exact List.map_congr_left h

theorem toricDefects_nodup (R C : Int) (s : BVec) (l : Int) : (toricDefects R C s l).Nodup := by
  unfold toricDefects
  exact (Pairing.pick_nodup _ _ (indices_nodup R C)).filter _

/-- **chain → matching on the torus** (helper form): the defects of lattice `l` of ANY error `e` have
    a perfect matching in the decoder's graph (complete graph on the defects) whose total decoder
    distance is at most the weight of the component of `e` that causes them; in particular their
    number is even -/
theorem chain_matching (R C : Int) (hR : 2 ≤ R) (hC : 2 ≤ C) (H : ToricL.Spec R C) (l : Int)
    (hl : l = 0 ∨ l = 1) (e : BVec) (he : e.length = 2 * ToricL.nq R C) :
    ∃ M : List (Idx × Idx),
      isPerfectMatchingOfGraph (toricNodes (toricDefects R C (synd (stabilizers R C) e) l))
        (toricEdges (toricDefects R C (synd (stabilizers R C) e) l)) M = true ∧
      cost (toricDistT R C) M ≤ bsfWt (part l e) ∧
      (toricDefects R C (synd (stabilizers R C) e) l).length % 2 = 0 := by
  have hR0 : (0 : Int) < R := by omega
  have hC0 : (0 : Int) < C := by omega
  obtain ⟨M, hpm, hc, hlen⟩ := tjoin_complete (dist R C) (dist_symm R C hR0 hC0) (dist_triangle R C hR0 hC0)
    (chainEdges R C l e) (fun x hx => (chainEdges_spec R C hR hC l hl e x hx).2.2.2)
    (toricDefects R C (synd (stabilizers R C) e) l) (toricDefects_nodup R C _ l)
    (mem_toricDefects_iff R C hR hC H l hl e he)
  have hev : (toricDefects R C (synd (stabilizers R C) e) l).length % 2 = 0 := by omega
  refine ⟨M, ?_, ?_, hev⟩
  · rw [ToricL.toricNodes_even _ hev]
    exact hpm
  · rw [chainEdges_length R C l hl e he] at hc
    refine Nat.le_trans (Nat.le_of_eq ?_) hc
    apply cost_congr
    intro x hx
    have hin : ∀ v ∈ ends M, v.1 = l := fun v hv =>
      ((ToricL.mem_toricDefects R C _ l v).mp (pm_ends _ _ _ hpm v hv)).2
    have h1 := hin x.1 (by unfold ends; exact List.mem_flatMap.mpr ⟨x, hx, by simp⟩)
    have h2 := hin x.2 (by unfold ends; exact List.mem_flatMap.mpr ⟨x, hx, by simp⟩)
    exact toricDistT_eq R C x.1 x.2 (by rw [h1, h2])

end Qec.ChainToric
