/-
  C10 — the rotated planar ROTATED MPS network contracts to the coset probability (all sizes R, C ≥ 3): helper lemmas
  for Props/C10/RotatedPlanarRmpsNetwork.lean.

  Route.  C11: `exactValue` = state sum `sumV` over the bond variables (dimension 1, 2 or 4).  Every bond is split
  into its two LINKS (`sumV_split2`: a variable of dimension `a·b` = two variables of dimensions `a`, `b` with the entry
  read at `x·b + y`): the north leg of a qubit tensor is `(i I)` = (east link of its NW plaquette, west link of its NE
  plaquette), the west leg `(L l)` = (south link of the NW plaquette, north link of the SW plaquette), so the slot
  `(bond, half)` is the link along one side of one plaquette (`slotP`), of dimension 2 exactly when `On` holds
  (`Lemmas/RotatedPlanarRmpsTn.lean`: the shape table of `create_q_node` in closed form).  The einsum of `create_q_node`
  collapses (`sum_delta3`, `collapse4`) to (the two links of each of the four corner plaquettes agree) × (bare
  `h_node_value` / `v_node_value` at the corner bits); the agreement constraints of all cells are the delta stars of the
  plaquettes (the ≤ 3 links of the horseshoe), so `FactorGraph.sumV_stars` / `sumB_eq_span` apply, and the product of
  the bare values at "one bit per plaquette" is the weight of `f · Π Sᵢ^βᵢ`.
-/
import QecVerif.Lemmas.RotatedPlanarRmpsTn
import QecVerif.Lemmas.RotatedPlanarTnQubit
import QecVerif.Lemmas.PlanarRmpsFactor
namespace Qec.RotatedPlanarRmpsFactor
open Finset Qec Qec.Tensor Qec.TensorAlg Qec.TensorBridge Qec.TensorExact Qec.TensorExact.Bond Qec.TensorPad Qec.Coset
open Qec.FactorGraph Qec.RotatedPlanarRmpsTn Qec.RotatedPlanarRmpsLemmas
open Qec.PlanarTn (RowDir ColDir hNodeValue vNodeValue ofShape)
open Qec.RotatedPlanarTn (qRowDir qColDir opAt)
open Qec.RotatedPlanarCode (SiteIn PlaqIn)

/-! ### generic: splitting a variable of dimension `a · b` into two -/

section Generic
variable {α : Type*} [CommSemiring α] {ι : Type*} [DecidableEq ι]

/-- the index of a variable from its two halves (`true` = most significant), `dlo` = dimension of the low half -/
def join2 (dlo : ι → ℕ) (t : ι × Bool → ℕ) : ι → ℕ := fun b => t (b, true) * dlo b + t (b, false)

theorem join2_update (dlo : ι → ℕ) (t : ι × Bool → ℕ) (b : ι) (x y : ℕ) :
    join2 dlo (Function.update (Function.update t (b, true) x) (b, false) y)
      = Function.update (join2 dlo t) b (x * dlo b + y) := by
  funext c
  unfold join2
  by_cases h : c = b
  · subst h
    rw [Function.update_self, Function.update_self, Function.update_of_ne (by simp), Function.update_self]
  · rw [Function.update_of_ne h, Function.update_of_ne (by simp [h]), Function.update_of_ne (by simp [h]),
      Function.update_of_ne (by simp [h]), Function.update_of_ne (by simp [h])]

/-- **bond splitting**: the state sum over variables of dimension `sd (b, true) · sd (b, false)` is the state sum
    over the halves -/
theorem sumV_split2 (sd : ι × Bool → ℕ) (l : List ι) (F : (ι → ℕ) → α) (τ : ι × Bool → ℕ) :
    sumV (fun b => sd (b, true) * sd (b, false)) l F (join2 (fun b => sd (b, false)) τ)
      = sumV sd (PlanarRmpsFactor.slots2 l) (fun t => F (join2 (fun b => sd (b, false)) t)) τ := by
  induction l generalizing τ with
  | nil => rfl
  | cons b l ih =>
    show ∑ x ∈ range (sd (b, true) * sd (b, false)),
        sumV _ l F (Function.update (join2 (fun b => sd (b, false)) τ) b x)
      = ∑ x ∈ range (sd (b, true)), ∑ y ∈ range (sd (b, false)),
          sumV sd (PlanarRmpsFactor.slots2 l) (fun t => F (join2 (fun b => sd (b, false)) t))
            (Function.update (Function.update τ (b, true) x) (b, false) y)
    rw [sum_merge']
    apply sum_congr rfl; intro x _
    apply sum_congr rfl; intro y _
    rw [← ih, join2_update]

end Generic

/-! ### cells, slots, dimensions -/

/-- number of rows / columns of the network minus one -/
def mR (R : Int) : ℕ := (R - 1).toNat
def nC (C : Int) : ℕ := (C - 1).toNat

/-- the lattice `y` of the sites of network row `r` -/
def yr (R : Int) (r : ℕ) : Int := R - 1 - (r : Int)

/-- the plaquette and the side whose link a slot carries -/
def slotP (R : Int) : Bond × Bool → (Int × Int) × Side
  | (v r c, true) => (((c : Int) - 1, yr R r), .E)
  | (v r c, false) => (((c : Int), yr R r), .W)
  | (h r c, true) => (((c : Int) - 1, yr R r), .S)
  | (h r c, false) => (((c : Int) - 1, yr R r - 1), .N)

/-- the slot's link has dimension 2 -/
def SOn (R C : Int) (s : Bond × Bool) : Prop := On R C (slotP R s).1.1 (slotP R s).1.2 (slotP R s).2

instance (R C : Int) (s : Bond × Bool) : Decidable (SOn R C s) := by unfold SOn; infer_instance

/-- dimension of a slot -/
def sl (R C : Int) (s : Bond × Bool) : ℕ := if SOn R C s then 2 else 1

/-- dimension of a bond -/
def sdim (R C : Int) (b : Bond) : ℕ := sl R C (b, true) * sl R C (b, false)

theorem sl_eq_ld (R C : Int) (s : Bond × Bool) : sl R C s = ld R C (slotP R s).1.1 (slotP R s).1.2 (slotP R s).2 := rfl

theorem nrows_tn (R C : Int) (d : Dist Int) (f : BVec) (hR : 3 ≤ R) : (rprmpsTn R C d f).nrows = mR R + 1 := by
  unfold rprmpsTn mR; simp only; omega

theorem ncols_tn (R C : Int) (d : Dist Int) (f : BVec) (hC : 3 ≤ C) : (rprmpsTn R C d f).ncols = nC C + 1 := by
  unfold rprmpsTn nC; simp only; omega

theorem site_tn (R C : Int) (d : Dist Int) (f : BVec) (hR : 3 ≤ R) (hC : 3 ≤ C) (r c : ℕ) (hr : r ≤ mR R)
    (hc : c ≤ nC C) : (rprmpsTn R C d f).site r c = node R C d f r c := by
  have e1 : R.toNat = mR R + 1 := by unfold mR; omega
  have e2 : C.toNat = nC C + 1 := by unfold nC; omega
  unfold rprmpsTn Net.site
  simp only [e1, e2]
  have hlt : r * (nC C + 1) + c < (mR R + 1) * (nC C + 1) := by
    have : r * (nC C + 1) + (nC C + 1) ≤ (mR R + 1) * (nC C + 1) := by
      rw [← Nat.succ_mul]; exact Nat.mul_le_mul_right _ (by omega)
    omega
  simp only [Array.getD, Array.size_ofFn, Array.getInternal_eq_getElem, Array.getElem_ofFn]
  rw [decode_div _ _ _ (by omega), decode_mod _ _ _ (by omega), dif_pos (by rw [e1, e2]; exact hlt)]

theorem site_in (R C : Int) (hR : 3 ≤ R) (hC : 3 ≤ C) (r c : ℕ) (hr : r ≤ mR R) (hc : c ≤ nC C) :
    SiteIn R C (c : Int) (yr R r) := by
  unfold SiteIn yr; unfold mR at hr; unfold nC at hc; omega

/-- the bare value function of the qubit at cell `(r, c)` -/
def bareOf (R C : Int) (d : Dist Int) (f : BVec) (r c : ℕ) : ℕ → ℕ → ℕ → ℕ → ℤ :=
  if RotatedPlanar.isZPlaquette (c : Int) (yr R r) then hNodeValue d (opAt R C f (c : Int) (yr R r))
  else vNodeValue d (opAt R C f (c : Int) (yr R r))

/-- the shapes of the q-node at cell `(r, c)` -/
def shp (R C : Int) (r c : ℕ) : Shapes := shapesOf R C (c : Int) (yr R r)

theorem node_eq (R C : Int) (d : Dist Int) (f : BVec) (hR : 3 ≤ R) (hC : 3 ≤ C) (r c : ℕ) (hr : r ≤ mR R)
    (hc : c ≤ nC C) :
    node R C d f r c = some (ofShape (shp R C r c).shape (qEntry (shp R C r c) (bareOf R C d f r c))) := by
  have hs := site_in R C hR hC r c hr hc
  unfold node
  have ey : RotatedPlanar.maxSiteY R - (r : Int) = yr R r := rfl
  simp only [ey]
  unfold qNode
  rw [qShapes_eq R C (c : Int) (yr R r) hR hC hs (decide (c % 2 = 0)) (by simp only [decide_eq_true_eq]; omega)]
  unfold bareOf shp
  cases RotatedPlanar.isZPlaquette (c : Int) (yr R r) <;> rfl

/-! ### the entry of a q-node from the link values -/

theorem ld_cases (R C px py : Int) (sd : Side) : ld R C px py sd = 1 ∨ ld R C px py sd = 2 := by
  unfold ld; split_ifs <;> simp

theorem pd_cases (R C px py : Int) : pd R C px py = 1 ∨ pd R C px py = 2 := by
  unfold pd; split_ifs <;> simp

theorem on_plaqIn (R C px py : Int) (sd : Side) (ho : On R C px py sd) : PlaqIn R C (px, py) := by
  cases sd <;> exact ho.1

theorem ld_of_pd_one (R C px py : Int) (sd : Side) (h : pd R C px py = 1) : ld R C px py sd = 1 := by
  have hp : ¬ PlaqIn R C (px, py) := by
    intro hp; unfold pd at h; rw [if_pos hp] at h; omega
  unfold ld
  rw [if_neg (fun ho => hp (on_plaqIn R C px py sd ho))]

theorem ld_two_iff (R C px py : Int) (sd : Side) : ld R C px py sd = 2 ↔ On R C px py sd := by
  unfold ld; split_ifs with h <;> simp [h]

theorem pd_two_iff (R C px py : Int) : pd R C px py = 2 ↔ PlaqIn R C (px, py) := by
  unfold pd; split_ifs with h <;> simp [h]

/-- every corner site of a plaquette of the lattice carries at least one of its links -/
theorem corner_SW (R C x y : Int) (hs : SiteIn R C x y) (hp : PlaqIn R C (x, y)) : On R C x y .W ∨ On R C x y .S := by
  simp only [On, PlaqIn, SiteIn] at *; omega
theorem corner_NW (R C x y : Int) (hs : SiteIn R C x y) (hp : PlaqIn R C (x, y - 1)) :
    On R C x (y - 1) .N ∨ On R C x (y - 1) .W := by
  simp only [On, PlaqIn, SiteIn] at *; omega
theorem corner_NE (R C x y : Int) (hs : SiteIn R C x y) (hp : PlaqIn R C (x - 1, y - 1)) :
    On R C (x - 1) (y - 1) .E ∨ On R C (x - 1) (y - 1) .N := by
  simp only [On, PlaqIn, SiteIn] at *; omega
theorem corner_SE (R C x y : Int) (hs : SiteIn R C x y) (hp : PlaqIn R C (x - 1, y)) :
    On R C (x - 1) y .S ∨ On R C (x - 1) y .E := by
  simp only [On, PlaqIn, SiteIn] at *; omega

/-- **the einsum of `create_q_node`, evaluated**: at the leg indices made of the link values `i I j J K k L l` the entry
    is (the two links of each corner plaquette agree) × (the bare value at the corner bits) -/
theorem qEntry_collapse (R C x y : Int) (hs : SiteIn R C x y) (bare : ℕ → ℕ → ℕ → ℕ → ℤ) (i I j J K k L l : ℕ)
    (hI : I < ld R C x y .W) (hj : j < ld R C x y .S) (hJ : J < ld R C x (y - 1) .N) (hk : k < ld R C x (y - 1) .W)
    (hK : K < ld R C (x - 1) (y - 1) .E) (hl : l < ld R C (x - 1) (y - 1) .N) (hL : L < ld R C (x - 1) y .S)
    (hi : i < ld R C (x - 1) y .E) :
    qEntry (shapesOf R C x y) bare (i * ld R C x y .W + I) (j * ld R C x (y - 1) .N + J)
        (K * ld R C x (y - 1) .W + k) (L * ld R C (x - 1) (y - 1) .N + l)
      = (if (ld R C x y .W = 2 ∧ ld R C x y .S = 2 → I = j) then 1 else 0)
        * (if (ld R C x (y - 1) .N = 2 ∧ ld R C x (y - 1) .W = 2 → J = k) then 1 else 0)
        * (if (ld R C (x - 1) (y - 1) .E = 2 ∧ ld R C (x - 1) (y - 1) .N = 2 → K = l) then 1 else 0)
        * (if (ld R C (x - 1) y .S = 2 ∧ ld R C (x - 1) y .E = 2 → L = i) then 1 else 0)
        * bare (if ld R C x y .W = 2 then I else if ld R C x y .S = 2 then j else 0)
            (if ld R C x (y - 1) .N = 2 then J else if ld R C x (y - 1) .W = 2 then k else 0)
            (if ld R C (x - 1) (y - 1) .E = 2 then K else if ld R C (x - 1) (y - 1) .N = 2 then l else 0)
            (if ld R C (x - 1) y .S = 2 then L else if ld R C (x - 1) y .E = 2 then i else 0) := by
  unfold qEntry
  simp only [shapesOf]
  rw [decode_div _ _ _ hI, decode_mod _ _ _ hI, decode_div _ _ _ hJ, decode_mod _ _ _ hJ, decode_div _ _ _ hk,
    decode_mod _ _ _ hk, decode_div _ _ _ hl, decode_mod _ _ _ hl]
  exact collapse4 _ _ _ _ bare _ _ _ _ _ _ _ _ _ _ _ _
    (fun g => sum_delta3 _ _ _ (pd_cases ..) (ld_cases ..) (ld_cases ..)
      (fun h => ⟨ld_of_pd_one _ _ _ _ _ h, ld_of_pd_one _ _ _ _ _ h⟩)
      (fun h => (corner_SW R C x y hs ((pd_two_iff ..).mp h)).imp (ld_two_iff ..).mpr (ld_two_iff ..).mpr) g I j hI hj)
    (fun g => sum_delta3 _ _ _ (pd_cases ..) (ld_cases ..) (ld_cases ..)
      (fun h => ⟨ld_of_pd_one _ _ _ _ _ h, ld_of_pd_one _ _ _ _ _ h⟩)
      (fun h => (corner_NW R C x y hs ((pd_two_iff ..).mp h)).imp (ld_two_iff ..).mpr (ld_two_iff ..).mpr) g J k hJ hk)
    (fun g => sum_delta3 _ _ _ (pd_cases ..) (ld_cases ..) (ld_cases ..)
      (fun h => ⟨ld_of_pd_one _ _ _ _ _ h, ld_of_pd_one _ _ _ _ _ h⟩)
      (fun h => (corner_NE R C x y hs ((pd_two_iff ..).mp h)).imp (ld_two_iff ..).mpr (ld_two_iff ..).mpr) g K l hK hl)
    (fun g => sum_delta3 _ _ _ (pd_cases ..) (ld_cases ..) (ld_cases ..)
      (fun h => ⟨ld_of_pd_one _ _ _ _ _ h, ld_of_pd_one _ _ _ _ _ h⟩)
      (fun h => (corner_SE R C x y hs ((pd_two_iff ..).mp h)).imp (ld_two_iff ..).mpr (ld_two_iff ..).mpr) g L i hL hi)

/-! ### the slots around a cell, leg dimensions, C11 compatibility -/

theorem cast_succ_sub (c : ℕ) : ((c + 1 : ℕ) : Int) - 1 = (c : Int) := by push_cast; omega
theorem yr_succ (R : Int) (r : ℕ) : yr R (r + 1) = yr R r - 1 := by unfold yr; push_cast; omega

theorem sl_vt (R C : Int) (r c : ℕ) : sl R C (v r c, true) = ld R C ((c : Int) - 1) (yr R r) .E := rfl
theorem sl_vf (R C : Int) (r c : ℕ) : sl R C (v r c, false) = ld R C (c : Int) (yr R r) .W := rfl
theorem sl_ht (R C : Int) (r c : ℕ) : sl R C (h r c, true) = ld R C ((c : Int) - 1) (yr R r) .S := rfl
theorem sl_hf (R C : Int) (r c : ℕ) : sl R C (h r c, false) = ld R C ((c : Int) - 1) (yr R r - 1) .N := rfl
theorem sl_ht' (R C : Int) (r c : ℕ) : sl R C (h r (c + 1), true) = ld R C (c : Int) (yr R r) .S := by
  rw [sl_ht, cast_succ_sub]
theorem sl_hf' (R C : Int) (r c : ℕ) : sl R C (h r (c + 1), false) = ld R C (c : Int) (yr R r - 1) .N := by
  rw [sl_hf, cast_succ_sub]
theorem sl_vt' (R C : Int) (r c : ℕ) : sl R C (v (r + 1) c, true) = ld R C ((c : Int) - 1) (yr R r - 1) .E := by
  rw [sl_vt, yr_succ]
theorem sl_vf' (R C : Int) (r c : ℕ) : sl R C (v (r + 1) c, false) = ld R C (c : Int) (yr R r - 1) .W := by
  rw [sl_vf, yr_succ]

theorem sl_cases (R C : Int) (s : Bond × Bool) : sl R C s = 1 ∨ sl R C s = 2 := by
  unfold sl; split_ifs <;> simp

theorem sl_two_iff (R C : Int) (s : Bond × Bool) : sl R C s = 2 ↔ SOn R C s := by
  unfold sl; split_ifs with h <;> simp [h]

theorem netF_dims (R C : Int) (d : Dist Int) (f : BVec) (hR : 3 ≤ R) (hC : 3 ≤ C) (r c : ℕ) (hr : r ≤ mR R)
    (hc : c ≤ nC C) :
    (netF (rprmpsTn R C d f) r c).n = sdim R C (v r c) ∧ (netF (rprmpsTn R C d f) r c).e = sdim R C (h r (c + 1)) ∧
    (netF (rprmpsTn R C d f) r c).s = sdim R C (v (r + 1) c) ∧ (netF (rprmpsTn R C d f) r c).w = sdim R C (h r c) := by
  unfold netF
  rw [site_tn R C d f hR hC r c hr hc, node_eq R C d f hR hC r c hr hc]
  simp only [siteT, Option.getD_some]
  unfold sdim
  rw [sl_ht', sl_hf', sl_vt', sl_vf', sl_vt, sl_vf, sl_ht, sl_hf]
  refine ⟨rfl, rfl, ?_, ?_⟩
  · exact Nat.mul_comm _ _
  · exact Nat.mul_comm _ _

theorem sl_off (R C : Int) (s : Bond × Bool) (h : ¬ SOn R C s) : sl R C s = 1 := by unfold sl; rw [if_neg h]

theorem compat_tn (R C : Int) (d : Dist Int) (f : BVec) (hR : 3 ≤ R) (hC : 3 ≤ C) :
    Compat (rprmpsTn R C d f) (mR R) (nC C) := by
  have hm : (mR R : Int) = R - 1 := by unfold mR; omega
  have hn : (nC C : Int) = C - 1 := by unfold nC; omega
  refine ⟨nrows_tn R C d f hR, ncols_tn R C d f hC, ⟨fun a b ha hb => ?_, fun a b ha hb => ?_⟩,
    fun a ha => ?_, fun b hb => ?_, fun a ha => ?_, fun b hb => ?_⟩
  · rw [(netF_dims R C d f hR hC a b (by omega) hb).2.2.1, (netF_dims R C d f hR hC (a + 1) b (by omega) hb).1]
  · rw [(netF_dims R C d f hR hC a b ha (by omega)).2.1, (netF_dims R C d f hR hC a (b + 1) ha (by omega)).2.2.2]
  · rw [(netF_dims R C d f hR hC a 0 ha (by omega)).2.2.2]
    unfold sdim
    rw [sl_off, sl_off] <;> (simp only [SOn, slotP, On, SiteIn]; omega)
  · rw [(netF_dims R C d f hR hC 0 b (by omega) hb).1]
    unfold sdim
    rw [sl_off, sl_off] <;> (simp only [SOn, slotP, On, SiteIn, yr]; omega)
  · rw [(netF_dims R C d f hR hC a (nC C) ha (le_refl _)).2.1]
    unfold sdim
    rw [sl_off, sl_off] <;> (simp only [SOn, slotP, On, SiteIn]; omega)
  · rw [(netF_dims R C d f hR hC (mR R) b (le_refl _) hb).2.2.1]
    unfold sdim
    rw [sl_off, sl_off] <;> (simp only [SOn, slotP, On, SiteIn, yr]; omega)

theorem compatible_tn (R C : Int) (d : Dist Int) (f : BVec) (hR : 3 ≤ R) (hC : 3 ≤ C) :
    compatible (rprmpsTn R C d f) = true :=
  PlanarRmpsLemmas.compatible_of_compat _ _ _ (compat_tn R C d f hR hC)

/-- `create_q_node` never raises: the network has no `None` site -/
theorem noneFree_tn (R C : Int) (d : Dist Int) (f : BVec) (hR : 3 ≤ R) (hC : 3 ≤ C) :
    NoneFree (rprmpsTn R C d f) := by
  intro r hr c hc
  rw [nrows_tn R C d f hR] at hr
  rw [ncols_tn R C d f hC] at hc
  rw [site_tn R C d f hR hC r c (by omega) (by omega), node_eq R C d f hR hC r c (by omega) (by omega)]
  rfl

theorem bdim_eq_sdim (R C : Int) (d : Dist Int) (f : BVec) (hR : 3 ≤ R) (hC : 3 ≤ C) (β : Bond)
    (hβ : β ∈ gvars (mR R) (nC C)) : TensorExact.bdim (netF (rprmpsTn R C d f)) β = sdim R C β := by
  rcases (mem_gvars _ _ β).mp hβ with ⟨r, c, h1, h2, h3, rfl⟩ | ⟨r, c, h1, h2, h3, rfl⟩
  · obtain ⟨c', rfl⟩ : ∃ c', c = c' + 1 := ⟨c - 1, by omega⟩
    show (netF (rprmpsTn R C d f) r c').e = _
    rw [(netF_dims R C d f hR hC r c' h1 (by omega)).2.1]
  · obtain ⟨r', rfl⟩ : ∃ r', r = r' + 1 := ⟨r - 1, by omega⟩
    show (netF (rprmpsTn R C d f) r' c).s = _
    rw [(netF_dims R C d f hR hC r' c (by omega) h3).2.2.1]

/-! ### the cell weights from the slot values -/

/-- dimension of the low half of a bond -/
abbrev dlo (R C : Int) : Bond → ℕ := fun b => sl R C (b, false)

/-- the assignments visited by the state sum over the slots -/
def Vis (R C : Int) (τ : Bond × Bool → ℕ) : Prop := ∀ s, τ s < sl R C s

theorem join_lt (R C : Int) (τ : Bond × Bool → ℕ) (ht : Vis R C τ) (b : Bond) : join2 (dlo R C) τ b < sdim R C b := by
  unfold join2 sdim dlo
  have h1 := ht (b, true)
  have h2 := ht (b, false)
  calc τ (b, true) * sl R C (b, false) + τ (b, false)
      < τ (b, true) * sl R C (b, false) + sl R C (b, false) := by omega
    _ = (τ (b, true) + 1) * sl R C (b, false) := by ring
    _ ≤ sl R C (b, true) * sl R C (b, false) := Nat.mul_le_mul_right _ (by omega)

/-- the agreement constraints of the cell `(r, c)`: the two links of each of its four corner plaquettes (NE, SE, SW,
    NW) carry the same value -/
def CellOK (R C : Int) (τ : Bond × Bool → ℕ) (r c : ℕ) : Prop :=
  (sl R C (v r c, false) = 2 ∧ sl R C (h r (c + 1), true) = 2 → τ (v r c, false) = τ (h r (c + 1), true)) ∧
  (sl R C (h r (c + 1), false) = 2 ∧ sl R C (v (r + 1) c, false) = 2 →
    τ (h r (c + 1), false) = τ (v (r + 1) c, false)) ∧
  (sl R C (v (r + 1) c, true) = 2 ∧ sl R C (h r c, false) = 2 → τ (v (r + 1) c, true) = τ (h r c, false)) ∧
  (sl R C (h r c, true) = 2 ∧ sl R C (v r c, true) = 2 → τ (h r c, true) = τ (v r c, true))

instance (R C : Int) (τ : Bond × Bool → ℕ) (r c : ℕ) : Decidable (CellOK R C τ r c) := by
  unfold CellOK; infer_instance

/-- the value of a corner bit: from whichever of its two links exists -/
def pick (R C : Int) (τ : Bond × Bool → ℕ) (s1 s2 : Bond × Bool) : ℕ :=
  if sl R C s1 = 2 then τ s1 else if sl R C s2 = 2 then τ s2 else 0

/-- the bare value of the cell `(r, c)` under the slot assignment `τ` -/
def cellVal (R C : Int) (d : Dist Int) (f : BVec) (τ : Bond × Bool → ℕ) (r c : ℕ) : ℤ :=
  bareOf R C d f r c (pick R C τ (v r c, false) (h r (c + 1), true))
    (pick R C τ (h r (c + 1), false) (v (r + 1) c, false))
    (pick R C τ (v (r + 1) c, true) (h r c, false)) (pick R C τ (h r c, true) (v r c, true))

theorem four_ite (p1 p2 p3 p4 : Prop) [Decidable p1] [Decidable p2] [Decidable p3] [Decidable p4] :
    (if p1 then (1 : ℤ) else 0) * (if p2 then 1 else 0) * (if p3 then 1 else 0) * (if p4 then 1 else 0)
      = if p1 ∧ p2 ∧ p3 ∧ p4 then 1 else 0 := by
  by_cases h1 : p1 <;> by_cases h2 : p2 <;> by_cases h3 : p3 <;> by_cases h4 : p4 <;> simp [h1, h2, h3, h4]

theorem shape_eq (R C : Int) (r c : ℕ) :
    (shp R C r c).shape = (sdim R C (v r c), sdim R C (h r (c + 1)), sdim R C (v (r + 1) c), sdim R C (h r c)) := by
  unfold sdim
  rw [sl_ht', sl_hf', sl_vt', sl_vf', sl_vt, sl_vf, sl_ht, sl_hf]
  show (_, _, _, _) = _
  rw [Prod.mk.injEq, Prod.mk.injEq, Prod.mk.injEq]
  refine ⟨rfl, rfl, ?_, ?_⟩
  · exact Nat.mul_comm _ _
  · exact Nat.mul_comm _ _

/-- **the weight of a cell in terms of the slot values** -/
theorem cw_join (R C : Int) (d : Dist Int) (f : BVec) (hR : 3 ≤ R) (hC : 3 ≤ C) (τ : Bond × Bool → ℕ)
    (ht : Vis R C τ) (r c : ℕ) (hr : r ≤ mR R) (hc : c ≤ nC C) :
    cw (netF (rprmpsTn R C d f)) (join2 (dlo R C) τ) r c
      = (if CellOK R C τ r c then 1 else 0) * cellVal R C d f τ r c := by
  have hs := site_in R C hR hC r c hr hc
  unfold cw netF
  rw [site_tn R C d f hR hC r c hr hc, node_eq R C d f hR hC r c hr hc]
  simp only [siteT, Option.getD_some]
  rw [shape_eq]
  show (toF (T4.ofFn _ _ _ _ _)).f _ _ _ _ = _
  rw [PlanarRmpsFactor.toF_ofFn_f _ _ _ _ _ _ _ _ _ (join_lt R C τ ht _) (join_lt R C τ ht _) (join_lt R C τ ht _)
    (join_lt R C τ ht _)]
  have e1 := sl_vt R C r c
  have e2 := sl_vf R C r c
  have e3 := sl_ht' R C r c
  have e4 := sl_hf' R C r c
  have e5 := sl_vt' R C r c
  have e6 := sl_vf' R C r c
  have e7 := sl_ht R C r c
  have e8 := sl_hf R C r c
  have b1 := ht (v r c, true)
  have b2 := ht (v r c, false)
  have b3 := ht (h r (c + 1), true)
  have b4 := ht (h r (c + 1), false)
  have b5 := ht (v (r + 1) c, true)
  have b6 := ht (v (r + 1) c, false)
  have b7 := ht (h r c, true)
  have b8 := ht (h r c, false)
  rw [e1] at b1; rw [e2] at b2; rw [e3] at b3; rw [e4] at b4; rw [e5] at b5; rw [e6] at b6; rw [e7] at b7
  rw [e8] at b8
  unfold join2 dlo shp CellOK cellVal pick
  simp only [e1, e2, e3, e4, e5, e6, e7, e8]
  rw [qEntry_collapse R C (c : Int) (yr R r) hs _ _ _ _ _ _ _ _ _ b2 b3 b4 b6 b5 b8 b7 b1, four_ite]

/-! ### cell constraints ⟺ the links of every plaquette agree -/

/-- the plaquette whose link the slot carries -/
def owner (R : Int) (s : Bond × Bool) : Int × Int := (slotP R s).1

/-- the links of a plaquette agree ⇒ the constraints of every cell hold -/
theorem cellOK_of_agree (R C : Int) (τ : Bond × Bool → ℕ)
    (hag : ∀ x y, SOn R C x → SOn R C y → owner R x = owner R y → τ x = τ y) (r c : ℕ) : CellOK R C τ r c := by
  refine ⟨fun hh => ?_, fun hh => ?_, fun hh => ?_, fun hh => ?_⟩
  · exact hag _ _ ((sl_two_iff ..).mp hh.1) ((sl_two_iff ..).mp hh.2)
      (by simp only [owner, slotP, cast_succ_sub])
  · exact hag _ _ ((sl_two_iff ..).mp hh.1) ((sl_two_iff ..).mp hh.2)
      (by simp only [owner, slotP, cast_succ_sub, yr_succ])
  · exact hag _ _ ((sl_two_iff ..).mp hh.1) ((sl_two_iff ..).mp hh.2)
      (by simp only [owner, slotP, yr_succ])
  · exact hag _ _ ((sl_two_iff ..).mp hh.1) ((sl_two_iff ..).mp hh.2) rfl

section Ring
variable (R C : Int) (hR : 3 ≤ R) (hC : 3 ≤ C) (τ : Bond × Bool → ℕ)
  (hall : ∀ r c, r ≤ mR R → c ≤ nC C → CellOK R C τ r c)
include hR hC hall

theorem eAC (r c : ℕ) (h1 : SOn R C (v r c, true)) (h2 : SOn R C (h r c, true)) :
    τ (v r c, true) = τ (h r c, true) := by
  have hin : r ≤ mR R ∧ c ≤ nC C := by
    simp only [SOn, slotP, On, SiteIn, yr] at h2; unfold mR nC; omega
  exact ((hall r c hin.1 hin.2).2.2.2 ⟨(sl_two_iff ..).mpr h2, (sl_two_iff ..).mpr h1⟩).symm

theorem eAD (r c : ℕ) (h1 : SOn R C (v (r + 1) c, true)) (h2 : SOn R C (h r c, false)) :
    τ (v (r + 1) c, true) = τ (h r c, false) := by
  have hin : r ≤ mR R ∧ c ≤ nC C := by
    simp only [SOn, slotP, On, SiteIn, yr] at h2; unfold mR nC; omega
  exact (hall r c hin.1 hin.2).2.2.1 ⟨(sl_two_iff ..).mpr h1, (sl_two_iff ..).mpr h2⟩

theorem eBC (r c : ℕ) (h1 : SOn R C (v r c, false)) (h2 : SOn R C (h r (c + 1), true)) :
    τ (v r c, false) = τ (h r (c + 1), true) := by
  have hin : r ≤ mR R ∧ c ≤ nC C := by
    simp only [SOn, slotP, On, SiteIn, yr] at h1; unfold mR nC; omega
  exact (hall r c hin.1 hin.2).1 ⟨(sl_two_iff ..).mpr h1, (sl_two_iff ..).mpr h2⟩

theorem eBD (r c : ℕ) (h1 : SOn R C (v (r + 1) c, false)) (h2 : SOn R C (h r (c + 1), false)) :
    τ (v (r + 1) c, false) = τ (h r (c + 1), false) := by
  have hin : r ≤ mR R ∧ c ≤ nC C := by
    simp only [SOn, slotP, On, SiteIn, yr] at h2; unfold mR nC; omega
  exact ((hall r c hin.1 hin.2).2.1 ⟨(sl_two_iff ..).mpr h2, (sl_two_iff ..).mpr h1⟩).symm

omit hR hC hall in
/-- both vertical links of a plaquette exist ⇒ so does its south or its north link -/
theorem pAB (r c : ℕ) (h1 : SOn R C (v r (c + 1), true)) (h2 : SOn R C (v r c, false)) :
    SOn R C (h r (c + 1), true) ∨ ∃ r', r = r' + 1 ∧ SOn R C (h r' (c + 1), false) := by
  simp only [SOn, slotP, cast_succ_sub] at h1 h2 ⊢
  by_cases hs : On R C (c : Int) (yr R r) .S
  · exact Or.inl hs
  · right
    have hr : 1 ≤ r := by simp only [On, SiteIn, yr] at h2; omega
    refine ⟨r - 1, by omega, ?_⟩
    have e : yr R (r - 1) - 1 = yr R r := by unfold yr; omega
    rw [e]
    simp only [On, PlaqIn, SiteIn] at h1 h2 hs ⊢
    omega

omit hR hC hall in
/-- the south and the north link of a plaquette never both exist -/
theorem pCD (r c : ℕ) (h1 : SOn R C (h (r + 1) c, true)) (h2 : SOn R C (h r c, false)) : False := by
  simp only [SOn, slotP, yr_succ] at h1 h2
  simp only [On, PlaqIn, SiteIn] at h1 h2
  omega

theorem eAB (r c : ℕ) (h1 : SOn R C (v r (c + 1), true)) (h2 : SOn R C (v r c, false)) :
    τ (v r (c + 1), true) = τ (v r c, false) := by
  rcases pAB R C r c h1 h2 with hs | ⟨r', rfl, hn⟩
  · exact (eAC R C hR hC τ hall r (c + 1) h1 hs).trans (eBC R C hR hC τ hall r c h2 hs).symm
  · exact (eAD R C hR hC τ hall r' (c + 1) h1 hn).trans (eBD R C hR hC τ hall r' c h2 hn).symm

/-- the constraints of every cell hold ⇒ the links of every plaquette agree -/
theorem agree_of_cellOK (x y : Bond × Bool) (hx : SOn R C x) (hy : SOn R C y) (ho : owner R x = owner R y) :
    τ x = τ y := by
  obtain ⟨β1, f1⟩ := x
  obtain ⟨β2, f2⟩ := y
  have AC := eAC R C hR hC τ hall
  have AD := eAD R C hR hC τ hall
  have BC := eBC R C hR hC τ hall
  have BD := eBD R C hR hC τ hall
  have AB := eAB R C hR hC τ hall
  cases β1 with
  | v r c =>
    cases β2 with
    | v r' c' =>
      cases f1 <;> cases f2 <;> simp only [owner, slotP, Prod.mk.injEq, yr] at ho
      · obtain rfl : r = r' := by omega
        obtain rfl : c = c' := by omega
        rfl
      · obtain rfl : r = r' := by omega
        obtain rfl : c' = c + 1 := by omega
        exact (AB r c hy hx).symm
      · obtain rfl : r = r' := by omega
        obtain rfl : c = c' + 1 := by omega
        exact AB r c' hx hy
      · obtain rfl : r = r' := by omega
        obtain rfl : c = c' := by omega
        rfl
    | h r' c' =>
      cases f1 <;> cases f2 <;> simp only [owner, slotP, Prod.mk.injEq, yr] at ho
      · obtain rfl : r = r' + 1 := by omega
        obtain rfl : c' = c + 1 := by omega
        exact BD r' c hx hy
      · obtain rfl : r = r' := by omega
        obtain rfl : c' = c + 1 := by omega
        exact BC r c hx hy
      · obtain rfl : r = r' + 1 := by omega
        obtain rfl : c = c' := by omega
        exact AD r' c hx hy
      · obtain rfl : r = r' := by omega
        obtain rfl : c = c' := by omega
        exact AC r c hx hy
  | h r c =>
    cases β2 with
    | v r' c' =>
      cases f1 <;> cases f2 <;> simp only [owner, slotP, Prod.mk.injEq, yr] at ho
      · obtain rfl : r' = r + 1 := by omega
        obtain rfl : c = c' + 1 := by omega
        exact (BD r c' hy hx).symm
      · obtain rfl : r' = r + 1 := by omega
        obtain rfl : c = c' := by omega
        exact (AD r c hy hx).symm
      · obtain rfl : r = r' := by omega
        obtain rfl : c = c' + 1 := by omega
        exact (BC r c' hy hx).symm
      · obtain rfl : r = r' := by omega
        obtain rfl : c = c' := by omega
        exact (AC r c hy hx).symm
    | h r' c' =>
      cases f1 <;> cases f2 <;> simp only [owner, slotP, Prod.mk.injEq, yr] at ho
      · obtain rfl : r = r' := by omega
        obtain rfl : c = c' := by omega
        rfl
      · obtain rfl : r' = r + 1 := by omega
        obtain rfl : c = c' := by omega
        exact (pCD R C r c hy hx).elim
      · obtain rfl : r = r' + 1 := by omega
        obtain rfl : c = c' := by omega
        exact (pCD R C r' c hx hy).elim
      · obtain rfl : r = r' := by omega
        obtain rfl : c = c' := by omega
        rfl

end Ring

/-! ### the two-valued slots, the stars -/

theorem mem_gvars_of_on (R C : Int) (s : Bond × Bool) (hs : SOn R C s) : s.1 ∈ gvars (mR R) (nC C) := by
  rw [mem_gvars]
  obtain ⟨β, hf⟩ := s
  cases β with
  | h r c =>
    refine Or.inl ⟨r, c, ?_, ?_, ?_, rfl⟩ <;>
      (cases hf <;> simp only [SOn, slotP, On, SiteIn, yr] at hs <;>
        first | omega | (unfold mR; omega) | (unfold nC; omega))
  | v r c =>
    refine Or.inr ⟨r, c, ?_, ?_, ?_, rfl⟩ <;>
      (cases hf <;> simp only [SOn, slotP, On, SiteIn, yr] at hs <;>
        first | omega | (unfold mR; omega) | (unfold nC; omega))

/-- the two-valued variables: the links of dimension 2 -/
def slotsS (R C : Int) : List (Bond × Bool) :=
  (PlanarRmpsFactor.slots2 (gvars (mR R) (nC C))).filter fun s => SOn R C s

theorem mem_slotsS (R C : Int) (s : Bond × Bool) : s ∈ slotsS R C ↔ SOn R C s := by
  unfold slotsS
  simp only [List.mem_filter, PlanarRmpsFactor.mem_slots2, decide_eq_true_eq]
  exact ⟨fun h => h.2, fun h => ⟨mem_gvars_of_on R C s h, h⟩⟩

theorem slotsS_nodup (R C : Int) : (slotsS R C).Nodup :=
  (PlanarRmpsFactor.slots2_nodup _ (gvars_nodup _ _)).filter _

/-- the links of every plaquette, in the order of the generators -/
def stars (R C : Int) : List (List (Bond × Bool)) :=
  (RotatedPlanar.plaquetteIndices R C).map fun p => (slotsS R C).filter fun s => owner R s = p

theorem owner_plaqIn (R C : Int) (s : Bond × Bool) (hs : SOn R C s) : PlaqIn R C (owner R s) :=
  on_plaqIn R C _ _ _ hs

theorem owner_mem (R C : Int) (s : Bond × Bool) (hs : s ∈ slotsS R C) :
    owner R s ∈ RotatedPlanar.plaquetteIndices R C :=
  (RotatedPlanarCode.mem_plaquetteIndices R C _).mpr (owner_plaqIn R C s ((mem_slotsS R C s).mp hs))

theorem stars_perm (R C : Int) : (stars R C).flatten.Perm (slotsS R C) ∧ (stars R C).flatten.Nodup :=
  PlanarRmpsFactor.owner_perm (slotsS R C) (slotsS_nodup R C) _ (RotatedPlanarCode.plaquetteIndices_nodup R C)
    (owner R) (owner_mem R C)

theorem mem_stars_flatten (R C : Int) (s : Bond × Bool) : s ∈ (stars R C).flatten ↔ SOn R C s :=
  (stars_perm R C).1.mem_iff.trans (mem_slotsS R C s)

/-- every plaquette of the lattice has a link -/
theorem some_on (R C : Int) (hR : 3 ≤ R) (hC : 3 ≤ C) (p : Int × Int) (hp : PlaqIn R C p) :
    On R C p.1 p.2 .W ∨ On R C p.1 p.2 .E ∨ On R C p.1 p.2 .S ∨ On R C p.1 p.2 .N := by
  obtain ⟨px, py⟩ := p
  have hp' := hp
  simp only [PlaqIn] at hp'
  rcases hp' with ⟨h1, h2, h3, h4, h5⟩ | ⟨h1, h2, h3, h4, h5⟩
  · by_cases hb : py = -1
    · refine Or.inr (Or.inr (Or.inr ⟨hp, ?_⟩)); simp only [SiteIn]; omega
    · by_cases ht : py = R - 1
      · refine Or.inr (Or.inr (Or.inl ⟨hp, ?_⟩)); simp only [SiteIn]; omega
      · refine Or.inl ⟨hp, ?_⟩; simp only [SiteIn]; omega
  · by_cases hb : px = -1
    · refine Or.inr (Or.inl ⟨hp, ?_⟩); simp only [SiteIn]; omega
    · refine Or.inl ⟨hp, ?_⟩; simp only [SiteIn]; omega

theorem stars_ne_nil (R C : Int) (hR : 3 ≤ R) (hC : 3 ≤ C) : ∀ l ∈ stars R C, l ≠ [] := by
  intro l hl
  obtain ⟨p, hp, rfl⟩ := List.mem_map.mp hl
  have hp' := (RotatedPlanarCode.mem_plaquetteIndices R C p).mp hp
  obtain ⟨px, py⟩ := p
  have key : ∃ s, SOn R C s ∧ owner R s = (px, py) := by
    rcases some_on R C hR hC (px, py) hp' with ho | ho | ho | ho
    · have hb : 0 ≤ px ∧ py ≤ R - 1 := by simp only [On, SiteIn] at ho; omega
      refine ⟨(v (R - 1 - py).toNat px.toNat, false), ?_, ?_⟩
      · have e1 : ((px.toNat : ℕ) : Int) = px := by omega
        have e2 : yr R (R - 1 - py).toNat = py := by unfold yr; omega
        simp only [SOn, slotP, e1, e2]; exact ho
      · have e1 : ((px.toNat : ℕ) : Int) = px := by omega
        have e2 : yr R (R - 1 - py).toNat = py := by unfold yr; omega
        simp only [owner, slotP, e1, e2]
    · have hb : 0 ≤ px + 1 ∧ py ≤ R - 1 := by simp only [On, SiteIn] at ho; omega
      refine ⟨(v (R - 1 - py).toNat (px + 1).toNat, true), ?_, ?_⟩
      · have e1 : (((px + 1).toNat : ℕ) : Int) - 1 = px := by omega
        have e2 : yr R (R - 1 - py).toNat = py := by unfold yr; omega
        simp only [SOn, slotP, e1, e2]; exact ho
      · have e1 : (((px + 1).toNat : ℕ) : Int) - 1 = px := by omega
        have e2 : yr R (R - 1 - py).toNat = py := by unfold yr; omega
        simp only [owner, slotP, e1, e2]
    · have hb : 0 ≤ px + 1 ∧ py ≤ R - 1 := by simp only [On, SiteIn] at ho; omega
      refine ⟨(h (R - 1 - py).toNat (px + 1).toNat, true), ?_, ?_⟩
      · have e1 : (((px + 1).toNat : ℕ) : Int) - 1 = px := by omega
        have e2 : yr R (R - 1 - py).toNat = py := by unfold yr; omega
        simp only [SOn, slotP, e1, e2]; exact ho
      · have e1 : (((px + 1).toNat : ℕ) : Int) - 1 = px := by omega
        have e2 : yr R (R - 1 - py).toNat = py := by unfold yr; omega
        simp only [owner, slotP, e1, e2]
    · have hb : 0 ≤ px + 1 ∧ py + 1 ≤ R - 1 := by simp only [On, SiteIn] at ho; omega
      refine ⟨(h (R - 2 - py).toNat (px + 1).toNat, false), ?_, ?_⟩
      · have e1 : (((px + 1).toNat : ℕ) : Int) - 1 = px := by omega
        have e2 : yr R (R - 2 - py).toNat - 1 = py := by unfold yr; omega
        simp only [SOn, slotP, e1, e2]; exact ho
      · have e1 : (((px + 1).toNat : ℕ) : Int) - 1 = px := by omega
        have e2 : yr R (R - 2 - py).toNat - 1 = py := by unfold yr; omega
        simp only [owner, slotP, e1, e2]
  obtain ⟨s, hs, hos⟩ := key
  exact List.ne_nil_of_mem (List.mem_filter.mpr ⟨(mem_slotsS R C s).mpr hs, by simpa using hos⟩)

/-! ### the summand: deltas × bare values -/

/-- product of the bare values of all cells -/
def Gval (R C : Int) (d : Dist Int) (f : BVec) (τ : Bond × Bool → ℕ) : ℤ :=
  ∏ c ∈ range (nC C + 1), ∏ r ∈ range (mR R + 1), cellVal R C d f τ r c

theorem summand_eq (R C : Int) (d : Dist Int) (f : BVec) (hR : 3 ≤ R) (hC : 3 ≤ C) (τ : Bond × Bool → ℕ)
    (ht : Vis R C τ) :
    ∏ c ∈ range (nC C + 1), ∏ r ∈ range (mR R + 1), cw (netF (rprmpsTn R C d f)) (join2 (dlo R C) τ) r c
      = ((stars R C).map fun l => (FactorGraph.star l τ : ℤ)).prod * Gval R C d f τ := by
  have hcw : ∏ c ∈ range (nC C + 1), ∏ r ∈ range (mR R + 1), cw (netF (rprmpsTn R C d f)) (join2 (dlo R C) τ) r c
      = ∏ c ∈ range (nC C + 1), ∏ r ∈ range (mR R + 1),
          (if CellOK R C τ r c then 1 else 0) * cellVal R C d f τ r c := by
    apply prod_congr rfl; intro c hc
    apply prod_congr rfl; intro r hr
    exact cw_join R C d f hR hC τ ht r c (Nat.lt_succ_iff.mp (mem_range.mp hr)) (Nat.lt_succ_iff.mp (mem_range.mp hc))
  rw [hcw]
  by_cases hall : ∀ r c, r ≤ mR R → c ≤ nC C → CellOK R C τ r c
  · have h1 : ((stars R C).map fun l => (FactorGraph.star l τ : ℤ)).prod = 1 := by
      apply List.prod_eq_one
      intro z hz
      obtain ⟨l, hl, rfl⟩ := List.mem_map.mp hz
      obtain ⟨p, _, rfl⟩ := List.mem_map.mp hl
      rw [PlanarRmpsFactor.star_eq_ite, if_pos]
      intro x hx y hy
      simp only [List.mem_filter, decide_eq_true_eq] at hx hy
      exact agree_of_cellOK R C hR hC τ hall x y ((mem_slotsS R C x).mp hx.1) ((mem_slotsS R C y).mp hy.1)
        (hx.2.trans hy.2.symm)
    rw [h1, one_mul]
    unfold Gval
    apply prod_congr rfl; intro c hc
    apply prod_congr rfl; intro r hr
    rw [if_pos (hall r c (Nat.lt_succ_iff.mp (mem_range.mp hr)) (Nat.lt_succ_iff.mp (mem_range.mp hc))), one_mul]
  · have hbad : ¬ ∀ x y, SOn R C x → SOn R C y → owner R x = owner R y → τ x = τ y :=
      fun hag => hall (fun r c _ _ => cellOK_of_agree R C τ hag r c)
    push_neg at hall hbad
    obtain ⟨r, c, hr, hc, hnot⟩ := hall
    obtain ⟨x, y, hx, hy, hxy, hne⟩ := hbad
    have h0 : ∏ c ∈ range (nC C + 1), ∏ r ∈ range (mR R + 1),
        (if CellOK R C τ r c then (1 : ℤ) else 0) * cellVal R C d f τ r c = 0 := by
      apply prod_eq_zero (mem_range.mpr (Nat.lt_succ_iff.mpr hc))
      apply prod_eq_zero (mem_range.mpr (Nat.lt_succ_iff.mpr hr))
      rw [if_neg hnot, zero_mul]
    rw [h0]
    have : ((stars R C).map fun l => (FactorGraph.star l τ : ℤ)).prod = 0 := by
      apply List.prod_eq_zero
      have hp := owner_mem R C x ((mem_slotsS R C x).mpr hx)
      refine List.mem_map.mpr ⟨(slotsS R C).filter fun z => owner R z = owner R x,
        List.mem_map.mpr ⟨owner R x, hp, rfl⟩, ?_⟩
      rw [PlanarRmpsFactor.star_eq_ite, if_neg]
      intro hh
      exact hne (hh x (List.mem_filter.mpr ⟨(mem_slotsS R C x).mpr hx, by simp⟩)
        y (List.mem_filter.mpr ⟨(mem_slotsS R C y).mpr hy, by simpa using hxy.symm⟩))
    rw [this, zero_mul]

/-! ### the exact value as a sum over one bit per plaquette -/

theorem vis_of_visited (R C : Int) (τ : Bond × Bool → ℕ)
    (h1 : ∀ b ∈ (stars R C).flatten, τ b < sl R C b) (h2 : ∀ b, b ∉ (stars R C).flatten → τ b = 0) :
    Vis R C τ := by
  intro s
  by_cases hs : s ∈ (stars R C).flatten
  · exact h1 s hs
  · rw [h2 s hs]; rcases sl_cases R C s with h | h <;> omega

theorem exactValue_tn (R C : Int) (d : Dist Int) (f : BVec) (hR : 3 ≤ R) (hC : 3 ≤ C) :
    exactValue (rprmpsTn R C d f) = some (sumB (stars R C) (Gval R C d f) (fun _ => 0)) := by
  have hc := compat_tn R C d f hR hC
  rw [PlanarTnLemmas.exactValue_eq_sumV _ _ _ hc (compatible_tn R C d f hR hC)]
  congr 1
  have hj : (fun _ : Bond => 0) = join2 (dlo R C) (fun _ : Bond × Bool => 0) := by funext b; simp [join2]
  have hperm : (PlanarRmpsFactor.slots2 (gvars (mR R) (nC C))).Perm
      ((PlanarRmpsFactor.slots2 (gvars (mR R) (nC C))).filter (fun s => !decide (SOn R C s)) ++ slotsS R C) :=
    (List.filter_append_perm (fun s => decide (SOn R C s)) _).symm.trans List.perm_append_comm
  rw [PlanarRmpsFactor.sumV_congr_dim _ (sdim R C) _ (fun b hb => bdim_eq_sdim R C d f hR hC b hb), hj]
  show sumV (fun b => sl R C (b, true) * sl R C (b, false)) _ _ (join2 (fun b => sl R C (b, false)) _) = _
  rw [sumV_split2 (sl R C),
    sumV_perm _ hperm (PlanarRmpsFactor.slots2_nodup _ (gvars_nodup _ _)),
    sumV_drop_unit _ _ _ _ _
      (fun b hb => by
        have := (List.mem_filter.mp hb).2
        simp only [Bool.not_eq_true', decide_eq_false_iff_not] at this
        exact sl_off R C b this)
      (fun _ _ => rfl),
    sumV_perm _ (stars_perm R C).1.symm (slotsS_nodup R C),
    sumV_congr_mem _ _ _
      (fun t => ((stars R C).map fun l => (FactorGraph.star l t : ℤ)).prod * Gval R C d f t) _
      (fun t h1 h2 => summand_eq R C d f hR hC t (vis_of_visited R C t h1 h2))]
  exact sumV_stars _ (stars R C) (stars_perm R C).2 (stars_ne_nil R C hR hC)
    (fun b hb => (sl_two_iff R C b).mpr ((mem_stars_flatten R C b).mp hb)) _ _

/-! ### the bare values at "one bit per plaquette", and the final identity -/

open Qec.RotatedPlanarCode

/-- the bit of plaquette `q` under the bit function `Bf`; `false` outside the lattice -/
def BqF (R C : Int) (Bf : Int × Int → Bool) (q : Int × Int) : Bool :=
  decide (q ∈ RotatedPlanar.plaquetteIndices R C) && Bf q

/-- the assignment of the bits `Bf` (one per plaquette) to the slots -/
def tA (R C : Int) (Bf : Int × Int → Bool) : Bond × Bool → ℕ :=
  assign (stars R C) ((RotatedPlanar.plaquetteIndices R C).map Bf) (fun _ => 0)

theorem tA_in (R C : Int) (Bf : Int × Int → Bool) (s : Bond × Bool) (hs : SOn R C s) :
    tA R C Bf s = (BqF R C Bf (owner R s)).toNat := by
  have hmem := owner_mem R C s ((mem_slotsS R C s).mpr hs)
  unfold tA stars BqF
  rw [assign_map_mem (RotatedPlanar.plaquetteIndices R C) _ Bf _ s (owner R s) hmem
    (List.mem_filter.mpr ⟨(mem_slotsS R C s).mpr hs, by simp⟩)
    (fun p _ hsp => by
      have := (List.mem_filter.mp hsp).2
      simp only [decide_eq_true_eq] at this
      exact this.symm)]
  simp [hmem]

theorem tA_out (R C : Int) (Bf : Int × Int → Bool) (s : Bond × Bool) (hs : ¬ SOn R C s) : tA R C Bf s = 0 :=
  assign_not_mem _ _ _ _ (fun hh => hs ((mem_stars_flatten R C s).mp hh))

theorem tA_vis (R C : Int) (Bf : Int × Int → Bool) : Vis R C (tA R C Bf) := by
  intro s
  by_cases hs : SOn R C s
  · rw [tA_in R C Bf s hs, (sl_two_iff R C s).mpr hs]
    cases BqF R C Bf (owner R s) <;> simp
  · rw [tA_out R C Bf s hs, sl_off R C s hs]; exact Nat.one_pos

/-- value of one corner bit of a cell: from whichever of its two links exists -/
theorem pick_tA (R C : Int) (Bf : Int × Int → Bool) (s1 s2 : Bond × Bool) (q : Int × Int)
    (h1 : owner R s1 = q) (h2 : owner R s2 = q) (h0 : PlaqIn R C q → SOn R C s1 ∨ SOn R C s2) :
    pick R C (tA R C Bf) s1 s2 = (BqF R C Bf q).toNat := by
  unfold pick
  by_cases a1 : SOn R C s1
  · rw [if_pos ((sl_two_iff ..).mpr a1), tA_in R C Bf s1 a1, h1]
  · rw [if_neg (fun hh => a1 ((sl_two_iff ..).mp hh))]
    by_cases a2 : SOn R C s2
    · rw [if_pos ((sl_two_iff ..).mpr a2), tA_in R C Bf s2 a2, h2]
    · rw [if_neg (fun hh => a2 ((sl_two_iff ..).mp hh))]
      have : q ∉ RotatedPlanar.plaquetteIndices R C := fun hh =>
        (h0 ((mem_plaquetteIndices R C q).mp hh)).elim a1 a2
      simp [BqF, this]

/-- the bare value of a cell at the assignment of one bit per plaquette: the bits of the NE, SE, SW, NW plaquettes -/
theorem cellVal_tA (R C : Int) (d : Dist Int) (f : BVec) (hR : 3 ≤ R) (hC : 3 ≤ C) (Bf : Int × Int → Bool) (r c : ℕ)
    (hr : r ≤ mR R) (hc : c ≤ nC C) :
    cellVal R C d f (tA R C Bf) r c
      = bareOf R C d f r c (BqF R C Bf ((c : Int), yr R r)).toNat (BqF R C Bf ((c : Int), yr R r - 1)).toNat
          (BqF R C Bf ((c : Int) - 1, yr R r - 1)).toNat (BqF R C Bf ((c : Int) - 1, yr R r)).toNat := by
  have hs := site_in R C hR hC r c hr hc
  unfold cellVal
  congr 1
  · apply pick_tA R C Bf (v r c, false) (h r (c + 1), true) _ rfl (by simp only [owner, slotP, cast_succ_sub])
    intro hp
    refine (corner_SW R C _ _ hs hp).imp id (fun ho => ?_)
    simp only [SOn, slotP, cast_succ_sub]; exact ho
  · apply pick_tA R C Bf _ _ _ (by simp only [owner, slotP, cast_succ_sub])
      (by simp only [owner, slotP, yr_succ])
    intro hp
    refine (corner_NW R C _ _ hs hp).imp (fun ho => ?_) (fun ho => ?_)
    · simp only [SOn, slotP, cast_succ_sub]; exact ho
    · simp only [SOn, slotP, yr_succ]; exact ho
  · apply pick_tA R C Bf (v (r + 1) c, true) (h r c, false) _ (by simp only [owner, slotP, yr_succ]) rfl
    intro hp
    refine (corner_NE R C _ _ hs hp).imp (fun ho => ?_) id
    simp only [SOn, slotP, yr_succ]; exact ho
  · apply pick_tA R C Bf (h r c, true) (v r c, true) _ rfl rfl
    intro hp
    exact corner_SE R C _ _ hs hp

theorem prod_cells (R C : Int) (hR : 3 ≤ R) (hC : 3 ≤ C) (φ : ℕ → ℤ) :
    ∏ c ∈ range (nC C + 1), ∏ r ∈ range (mR R + 1), φ (fl R C ((c : Int), yr R r)) = ∏ q ∈ range (nq R C), φ q := by
  have hm : (mR R : Int) = R - 1 := by unfold mR; omega
  have hn : (nC C : Int) = C - 1 := by unfold nC; omega
  rw [← prod_product' (range (nC C + 1)) (range (mR R + 1)) (fun (c r : ℕ) => φ (fl R C ((c : Int), yr R r)))]
  apply prod_nbij (fun x : ℕ × ℕ => fl R C ((x.1 : Int), yr R x.2))
  · intro x hx
    simp only [mem_product, mem_range] at hx
    rw [mem_range]
    exact fl_lt R C _ ((inSiteBounds_iff R C _ _).mpr (site_in R C hR hC x.2 x.1 (by omega) (by omega)))
  · intro x hx y hy hxy
    simp only [coe_product, coe_range, Set.mem_prod, Set.mem_Iio] at hx hy
    have := fl_inj R C ((y.1 : Int), yr R y.2) ((x.1 : Int), yr R x.2)
      ((inSiteBounds_iff R C _ _).mpr (site_in R C hR hC y.2 y.1 (by omega) (by omega)))
      ((inSiteBounds_iff R C _ _).mpr (site_in R C hR hC x.2 x.1 (by omega) (by omega))) hxy
    simp only [Prod.mk.injEq, yr] at this
    exact Prod.ext (by omega) (by omega)
  · intro q hq
    simp only [coe_range, Set.mem_Iio] at hq
    obtain ⟨x, y, hs, he⟩ := flatten_surj R C hC (q : ℤ) (by omega) (by unfold nq at hq; omega)
    have hs' := hs
    unfold SiteIn at hs
    refine ⟨(x.toNat, (R - 1 - y).toNat), ?_, ?_⟩
    · simp only [coe_product, coe_range, Set.mem_prod, Set.mem_Iio]; omega
    · have e1 : ((x.toNat : ℕ) : Int) = x := by omega
      have e2 : yr R (R - 1 - y).toNat = y := by unfold yr; omega
      show fl R C (((x.toNat : ℕ) : Int), yr R (R - 1 - y).toNat) = q
      rw [e1, e2]
      unfold fl
      simp only
      rw [he]
      simp
  · intro x _; rfl

/-- **the product of the bare qubit values at the assignment of the bits `β` is the probability of `f · Π Sᵢ^βᵢ`** -/
theorem Gval_assign (R C : Int) (d : Dist Int) (f : BVec) (hR : 3 ≤ R) (hC : 3 ≤ C)
    (hf : f.length = 2 * nq R C) (β : List Bool) (hβ : β.length = (RotatedPlanar.stabilizers R C).length) :
    Gval R C d f (assign (stars R C) β (fun _ => 0))
      = weight d (xorV f (Coset.xorComb f.length β (RotatedPlanar.stabilizers R C))) := by
  have hlenP : β.length = (RotatedPlanar.plaquetteIndices R C).length := by
    rw [hβ, stabilizers_eq_map]; simp
  obtain ⟨Bf, hB⟩ := exists_map_eq (RotatedPlanar.plaquetteIndices R C) (plaquetteIndices_nodup R C) β hlenP
  subst hB
  set B : ℕ × ℕ → Bool := fun cell =>
    Bf (RotatedPlanarTnLemmas.X C cell.1 cell.2, RotatedPlanarTnLemmas.Y R C cell.1 cell.2) with hBdef
  have hBq : ∀ q, RotatedPlanarTnLemmas.Bq R C B q = BqF R C Bf q := by
    intro q
    unfold RotatedPlanarTnLemmas.Bq BqF
    by_cases hq : q ∈ RotatedPlanar.plaquetteIndices R C
    · obtain ⟨_, _, _, e1, e2⟩ := RotatedPlanarTnLemmas.cellOf_spec R C q ((mem_plaquetteIndices R C q).mp hq)
      simp only [hq, decide_true, Bool.true_and, hBdef, e1, e2]
    · simp [hq]
  have hmapB : (RotatedPlanar.plaquetteIndices R C).map Bf
      = (RotatedPlanar.plaquetteIndices R C).map fun p => B (RotatedPlanarTnLemmas.cellOf R C p) := by
    apply List.map_congr_left
    intro p hp
    obtain ⟨_, _, _, e1, e2⟩ := RotatedPlanarTnLemmas.cellOf_spec R C p ((mem_plaquetteIndices R C p).mp hp)
    simp only [hBdef, e1, e2]
  have hlenS : Symp.AllLen (2 * nq R C) ((RotatedPlanar.plaquetteIndices R C).map (stabOp R C)) := by
    intro g hg
    obtain ⟨p, _, rfl⟩ := List.mem_map.mp hg
    exact stabOp_length R C p
  have hcomb : Coset.xorComb f.length ((RotatedPlanar.plaquetteIndices R C).map Bf) (RotatedPlanar.stabilizers R C)
      = Symp.xorComb (2 * nq R C)
          ((RotatedPlanar.plaquetteIndices R C).map fun p => B (RotatedPlanarTnLemmas.cellOf R C p))
          ((RotatedPlanar.plaquetteIndices R C).map (stabOp R C)) := by
    rw [PlanarTnLemmas.xorComb_eq, hf, stabilizers_eq_map, hmapB]
  rw [hcomb]
  have hcl := Symp.xorComb_length (2 * nq R C)
    ((RotatedPlanar.plaquetteIndices R C).map fun p => B (RotatedPlanarTnLemmas.cellOf R C p)) _ hlenS
  rw [weight_eq_prod d (nq R C) _ (xorV_len hf hcl), ← prod_cells R C hR hC]
  show ∏ c ∈ range (nC C + 1), ∏ r ∈ range (mR R + 1), cellVal R C d f (tA R C Bf) r c = _
  apply prod_congr rfl; intro c hc
  apply prod_congr rfl; intro r hr
  have hc := Nat.lt_succ_iff.mp (mem_range.mp hc)
  have hr := Nat.lt_succ_iff.mp (mem_range.mp hr)
  have hsite := site_in R C hR hC r c hr hc
  rw [cellVal_tA R C d f hR hC Bf r c hr hc, Symp.getD_xorV _ _ (hf.trans hcl.symm),
    Symp.getD_xorV _ _ (hf.trans hcl.symm),
    Symp.getD_xorComb_map _ _ _ _ (fun p _ => stabOp_length R C p),
    Symp.getD_xorComb_map _ _ _ _ (fun p _ => stabOp_length R C p),
    (RotatedPlanarTnLemmas.comb_bits R C B _ _ hsite).1, (RotatedPlanarTnLemmas.comb_bits R C B _ _ hsite).2]
  simp only [hBq]
  unfold bareOf
  by_cases hz : RotatedPlanar.isZPlaquette (c : Int) (yr R r) = true
  · rw [if_pos hz, if_pos hz, if_pos hz, PlanarTnLemmas.hNodeValue_bits, RotatedPlanarTnLemmas.opAt_eq,
      PlanarTnLemmas.xBit_ofBits, PlanarTnLemmas.zBit_ofBits]
  · rw [if_neg hz, if_neg hz, if_neg hz]
    unfold PlanarTn.vNodeValue
    rw [PlanarTnLemmas.hNodeValue_bits, RotatedPlanarTnLemmas.opAt_eq, PlanarTnLemmas.xBit_ofBits,
      PlanarTnLemmas.zBit_ofBits]

/-- **the rotated planar RMPS network contracts to the coset probability** (as `exactValue`, the literal index sum) -/
theorem exactValue_tn_eq_cosetProb (R C : Int) (d : Dist Int) (f : BVec) (hR : 3 ≤ R) (hC : 3 ≤ C)
    (hf : f.length = 2 * (RotatedPlanar.nQubits R C).toNat) :
    exactValue (rprmpsTn R C d f) = some (cosetProb d (RotatedPlanar.stabilizers R C) f) := by
  rw [exactValue_tn R C d f hR hC]
  congr 1
  apply sumB_eq_span f.length (stars R C) (RotatedPlanar.stabilizers R C) _ (Gval R C d f)
    (fun g => weight d (xorV f g)) (fun _ => 0)
  · intro β hβ
    exact Gval_assign R C d f hR hC hf β hβ
  · rw [stabilizers_eq_map]; unfold stars; simp

/-! ### the decoder's evaluation: `contract(tn, stop=-1)`, then `inner_product` with the last column -/

/-- `stop=-1` is `stop=ncols-1` -/
theorem colRange_stop_neg (C : ℕ) (hC : 1 ≤ C) :
    colRange none (some (-1)) none C = colRange none (some ((C - 1 : ℕ) : ℤ)) none C := by
  simp only [colRange, sliceIndices, Option.getD_none, bind, Except.bind, pure, Except.pure]
  simp only [show ¬((1 : ℤ) = 0) by decide, if_false, show ¬((1 : ℤ) < 0) by decide,
    show ((-1 : ℤ) < 0) by decide, if_true, show ¬((-1 : ℤ) + (C : ℤ) < 0) by omega,
    show ¬(((C - 1 : ℕ) : ℤ) < 0) by omega, show ¬(((C - 1 : ℕ) : ℤ) > (C : ℤ)) by omega]
  have : (-1 : ℤ) + (C : ℤ) = ((C - 1 : ℕ) : ℤ) := by omega
  rw [this]

/-- `mps2d.contract(tn, start=-1, stop=ncols-2, step=-1)` is the last column with multiplier 1 -/
theorem contract_last_col (tn : Net) (hc : 2 ≤ tn.ncols) :
    contract tn none false (some (-1)) (some (((tn.ncols - 1 : ℕ) : ℤ) - 1)) (some (-1)) none
      = .ok (.part (some (tn.col (tn.ncols - 1))) 1) := by
  have hfull : (tn.ncols == 1) = false := by simp; omega
  have hd : down (tn.ncols - 1) (tn.ncols - (tn.ncols - 1)) = [tn.ncols - 1] := by
    rw [show tn.ncols - (tn.ncols - 1) = 1 by omega]; rfl
  simp only [contract, maskOK, Bool.not_true, Bool.false_eq_true, if_false,
    colRange_rstop tn.ncols (tn.ncols - 1) (by omega) (by omega), hd, contractCols, List.map_cons, List.map_nil,
    Option.map_none, List.length_cons, List.length_nil, sweep, finish, Nat.zero_add, hfull]

/-- the decoder's evaluation with bra and ket from the same network is the split-and-recombine value at the last
    column -/
theorem cosetValue_self (tn : Net) (hc : 2 ≤ tn.ncols) (x : ℤ)
    (hsp : splitValue tn (tn.ncols - 1) none false none = .ok x) : cosetValue tn tn = .ok x := by
  unfold splitValue at hsp
  rw [contract_last_col tn hc] at hsp
  unfold cosetValue
  have e : contract tn none false none (some (-1)) none none
      = contract tn none false none (some ((tn.ncols - 1 : ℕ) : ℤ)) none none := by
    simp only [contract, colRange_stop_neg tn.ncols (by omega)]
  rw [e]
  cases hl : contract tn none false none (some ((tn.ncols - 1 : ℕ) : ℤ)) none none with
  | error err => rw [hl] at hsp; simp [bind, Except.bind] at hsp
  | ok res =>
    rw [hl] at hsp
    cases res with
    | scalar v => simp [bind, Except.bind, throw, throwThe, MonadExceptOf.throw] at hsp
    | part r mult =>
      cases r with
      | none => simp [bind, Except.bind, throw, throwThe, MonadExceptOf.throw] at hsp
      | some bra =>
        simp only [bind, Except.bind] at hsp
        cases hip : innerProduct bra (tn.col (tn.ncols - 1)) with
        | error err => rw [hip] at hsp; simp at hsp
        | ok ip =>
          rw [hip] at hsp
          simp only [pure, Except.pure, Except.ok.injEq, mul_one] at hsp
          simp only [hip, ← hsp]

end Qec.RotatedPlanarRmpsFactor
