/-
  Helper lemmas for C20 (`Model/Validate.lean`): what each check of `validate` decides, and the
  index arithmetic of the twisted identity.
-/
import QecVerif.Model.Validate
import QecVerif.Lemmas.GF2
namespace Qec

theorem isZero_iff (a : BVec) : isZero a = true ↔ ∀ b ∈ a, b = false := by
  simp [isZero]

theorem allZeroMat_bspMat_iff (A B : List BVec) :
    allZeroMat (bspMat A B) = true ↔ ∀ a ∈ A, ∀ b ∈ B, bsp a b = false := by
  simp [allZeroMat, bspMat, isZero]

theorem validate_ok_iff_checks (S lx lz : List BVec) :
    validate S lx lz = .ok () ↔
      allZeroMat (bspMat S S) = true ∧ allZeroMat (bspMat S (lx ++ lz)) = true ∧
      (lx ++ lz).length % 2 = 0 ∧ bspMat (lx ++ lz) (lx ++ lz) = twistedIdentity (lx ++ lz).length := by
  unfold validate stackLogicals
  simp only []
  split
  · simp_all
  · split
    · simp_all
    · split
      · simp_all
      · split <;> simp_all

theorem validate_stabilizers_iff_checks (S lx lz : List BVec) :
    validate S lx lz = .error .stabilizers ↔ allZeroMat (bspMat S S) = false := by
  unfold validate stackLogicals
  simp only []
  split
  · simp_all
  · split
    · simp_all
    · split
      · simp_all
      · split <;> simp_all

theorem validate_stabLogicals_iff_checks (S lx lz : List BVec) :
    validate S lx lz = .error .stabLogicals ↔
      allZeroMat (bspMat S S) = true ∧ allZeroMat (bspMat S (lx ++ lz)) = false := by
  unfold validate stackLogicals
  simp only []
  split
  · simp_all
  · split
    · simp_all
    · split
      · simp_all
      · split <;> simp_all

theorem validate_hsplit_iff_checks (S lx lz : List BVec) :
    validate S lx lz = .error .hsplit ↔
      allZeroMat (bspMat S S) = true ∧ allZeroMat (bspMat S (lx ++ lz)) = true ∧
      (lx ++ lz).length % 2 ≠ 0 := by
  unfold validate stackLogicals
  simp only []
  split
  · simp_all
  · split
    · simp_all
    · split
      · simp_all
      · split <;> simp_all

theorem validate_logicals_iff_checks (S lx lz : List BVec) :
    validate S lx lz = .error .logicals ↔
      allZeroMat (bspMat S S) = true ∧ allZeroMat (bspMat S (lx ++ lz)) = true ∧
      (lx ++ lz).length % 2 = 0 ∧ bspMat (lx ++ lz) (lx ++ lz) ≠ twistedIdentity (lx ++ lz).length := by
  unfold validate stackLogicals
  simp only []
  split
  · simp_all
  · split
    · simp_all
    · split
      · simp_all
      · split <;> simp_all

theorem twist_index (k i j : Nat) (hi : i < k + k) (hj : j < k + k) :
    (i = (j + (k + k) / 2) % (k + k)) ↔ (i = j + k ∨ j = i + k) := by
  have h2 : (k + k) / 2 = k := by omega
  rw [h2]
  by_cases hjk : j < k
  · rw [Nat.mod_eq_of_lt (by omega)]; omega
  · rw [Nat.mod_eq_sub_mod (by omega), Nat.mod_eq_of_lt (by omega)]; omega

theorem bspMat_eq_table_iff (L : List BVec) (g : Nat → Nat → Bool) :
    bspMat L L = (List.range L.length).map (fun i => (List.range L.length).map (fun j => g i j)) ↔
      ∀ (i j : Nat) (hi : i < L.length) (hj : j < L.length), bsp L[i] L[j] = g i j := by
  constructor
  · intro h i j hi hj
    have := congrArg (fun M => M[i]?.bind (·[j]?)) h
    simpa [bspMat, hi, hj] using this
  · intro h
    apply List.ext_getElem
    · simp [bspMat]
    · intro i hi _
      apply List.ext_getElem
      · simp [bspMat]
      · intro j hj _
        simp [bspMat] at hi hj ⊢
        exact h i j hi hj

theorem bspMat_eq_twisted_iff (lx lz : List BVec) (hk : lx.length = lz.length) :
    bspMat (lx ++ lz) (lx ++ lz) = twistedIdentity (lx ++ lz).length ↔
      ∀ (i j : Nat) (hi : i < (lx ++ lz).length) (hj : j < (lx ++ lz).length),
        bsp (lx ++ lz)[i] (lx ++ lz)[j] = decide (i = j + lx.length ∨ j = i + lx.length) := by
  unfold twistedIdentity
  rw [bspMat_eq_table_iff]
  have hlen : (lx ++ lz).length = lx.length + lx.length := by simp [hk]
  constructor
  · intro h i j hi hj
    rw [h i j hi hj]
    apply decide_eq_decide.mpr
    rw [hlen]; exact twist_index _ i j (hlen ▸ hi) (hlen ▸ hj)
  · intro h i j hi hj
    rw [h i j hi hj]
    apply decide_eq_decide.mpr
    rw [hlen]; exact (twist_index _ i j (hlen ▸ hi) (hlen ▸ hj)).symm

theorem stacked_iff_pairs (lx lz : List BVec) (hk : lx.length = lz.length) :
    (∀ (i j : Nat) (hi : i < (lx ++ lz).length) (hj : j < (lx ++ lz).length),
      bsp (lx ++ lz)[i] (lx ++ lz)[j] = decide (i = j + lx.length ∨ j = i + lx.length)) ↔
    (∀ (i j : Nat) (hi : i < lx.length) (hj : j < lz.length) (hi' : i < lz.length) (hj' : j < lx.length),
      bsp lx[i] lz[j] = decide (i = j) ∧ bsp lz[j] lx[i] = decide (i = j) ∧
      bsp lx[i] lx[j] = false ∧ bsp lz[i] lz[j] = false) := by
  have hlen : (lx ++ lz).length = lx.length + lx.length := by simp [hk]
  constructor
  · intro h i j hi hj hi' hj'
    have h1 := h i (lx.length + j) (by omega) (by omega)
    have h2 := h (lx.length + j) i (by omega) (by omega)
    have h3 := h i j (by omega) (by omega)
    have h4 := h (lx.length + i) (lx.length + j) (by omega) (by omega)
    rw [List.getElem_append_left hi, List.getElem_append_right (by omega)] at h1
    rw [List.getElem_append_left hi, List.getElem_append_right (by omega)] at h2
    rw [List.getElem_append_left hi, List.getElem_append_left hj'] at h3
    rw [List.getElem_append_right (by omega), List.getElem_append_right (by omega)] at h4
    simp only [Nat.add_sub_cancel_left] at h1 h2 h4
    refine ⟨?_, ?_, ?_, ?_⟩
    · rw [h1]; apply decide_eq_decide.mpr; omega
    · rw [h2]; apply decide_eq_decide.mpr; omega
    · rw [h3]; simp; omega
    · rw [h4]; simp; omega
  · intro h i j hi hj
    by_cases hik : i < lx.length <;> by_cases hjk : j < lx.length
    · rw [List.getElem_append_left hik, List.getElem_append_left hjk]
      rw [(h i j hik (by omega) (by omega) hjk).2.2.1]; simp; omega
    · rw [List.getElem_append_left hik, List.getElem_append_right (by omega)]
      rw [(h i (j - lx.length) hik (by omega) (by omega) (by omega)).1]
      apply decide_eq_decide.mpr; omega
    · rw [List.getElem_append_right (by omega), List.getElem_append_left hjk]
      rw [(h j (i - lx.length) hjk (by omega) (by omega) (by omega)).2.1]
      apply decide_eq_decide.mpr; omega
    · rw [List.getElem_append_right (by omega), List.getElem_append_right (by omega)]
      rw [(h (i - lx.length) (j - lx.length) (by omega) (by omega) (by omega) (by omega)).2.2.2]
      simp; omega

end Qec
