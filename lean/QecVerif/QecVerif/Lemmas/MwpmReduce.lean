/-
  Helper lemmas for C14, MWPM part: X/Z components of an operator, CSS stabilizer matrices, weight of
  an XOR of path operators, and the generic correction argument per component.
-/
import QecVerif.Lemmas.NaiveDecode
namespace Qec.MwpmReduce
open Qec Qec.NaiveDecode

/-! ### dot products with zero vectors -/

theorem dot_isZero_right (a b : BVec) (hb : isZero b = true) : dot a b = false := by
  induction a generalizing b with
  | nil => simp
  | cons x xs ih =>
    cases b with
    | nil => simp
    | cons y ys =>
      simp only [isZero, List.all_cons, Bool.and_eq_true, Bool.not_eq_true'] at hb
      have := ih ys (by simpa [isZero] using hb.2)
      simp [dot_cons, hb.1, this]

theorem dot_isZero_left (a b : BVec) (ha : isZero a = true) : dot a b = false := by
  rw [dot_comm]; exact dot_isZero_right b a ha

theorem isZero_zeros (k : Nat) : isZero (zeros k) = true := by
  simp [isZero, zeros]

theorem isZero_synd_iff (M : List BVec) (v : BVec) :
    isZero (synd M v) = true ↔ ∀ row ∈ M, bsp v row = false := by
  simp [isZero, synd]

/-! ### components -/

section comps
variable (v : BVec) (n : Nat) (hv : v.length = 2 * n)
include hv

theorem xHalf_len : (xHalf v).length = n := by rw [xHalf_length, hv]; omega
theorem zHalf_len : (zHalf v).length = n := by rw [zHalf_length, hv]; omega

theorem xPart_length : (xPart v).length = 2 * n := by
  simp only [xPart, List.length_append, zeros, List.length_replicate, xHalf_len v n hv, zHalf_len v n hv]; omega
theorem zPart_length : (zPart v).length = 2 * n := by
  simp only [zPart, List.length_append, zeros, List.length_replicate, xHalf_len v n hv, zHalf_len v n hv]; omega

theorem xHalf_xPart : xHalf (xPart v) = xHalf v := by
  unfold xPart; apply xHalf_append; simp [zeros, xHalf_len v n hv, zHalf_len v n hv]
theorem zHalf_xPart : zHalf (xPart v) = zeros n := by
  unfold xPart; rw [zHalf_append _ _ (by simp [zeros, xHalf_len v n hv, zHalf_len v n hv]), zHalf_len v n hv]
theorem xHalf_zPart : xHalf (zPart v) = zeros n := by
  unfold zPart; rw [xHalf_append _ _ (by simp [zeros, xHalf_len v n hv, zHalf_len v n hv]), xHalf_len v n hv]
theorem zHalf_zPart : zHalf (zPart v) = zHalf v := by
  unfold zPart; apply zHalf_append; simp [zeros, xHalf_len v n hv, zHalf_len v n hv]

end comps

theorem xorV_zeros_zeros (k : Nat) : xorV (zeros k) (zeros k) = zeros k := by
  induction k with
  | zero => rfl
  | succ k ih =>
    simp only [zeros, xorV, List.replicate_succ, List.zipWith_cons_cons] at ih ⊢
    rw [ih]; rfl

theorem xorV_zeros_right (a : BVec) : xorV a (zeros a.length) = a := by
  induction a with
  | nil => rfl
  | cons x xs ih =>
    simp only [zeros, xorV, List.length_cons, List.replicate_succ, List.zipWith_cons_cons] at ih ⊢
    rw [ih]; simp

theorem xorV_zeros_left (a : BVec) : xorV (zeros a.length) a = a := by
  induction a with
  | nil => rfl
  | cons x xs ih =>
    simp only [zeros, xorV, List.length_cons, List.replicate_succ, List.zipWith_cons_cons] at ih ⊢
    rw [ih]; simp

theorem xorV_append (a b c d : BVec) (h : a.length = c.length) :
    xorV (a ++ b) (c ++ d) = xorV a c ++ xorV b d := by
  unfold xorV; exact List.zipWith_append h

theorem xPart_xorV (a b : BVec) (n : Nat) (ha : a.length = 2 * n) (hb : b.length = 2 * n) :
    xPart (xorV a b) = xorV (xPart a) (xPart b) := by
  have hab : a.length = b.length := by rw [ha, hb]
  have hl : (xorV a b).length = 2 * n := by rw [xorV_length a b hab, ha]
  unfold xPart
  rw [xorV_append _ _ _ _ (by rw [xHalf_len a n ha, xHalf_len b n hb]), xHalf_xorV a b hab,
    zHalf_len _ n hl, zHalf_len a n ha, zHalf_len b n hb, xorV_zeros_zeros]

theorem zPart_xorV (a b : BVec) (n : Nat) (ha : a.length = 2 * n) (hb : b.length = 2 * n) :
    zPart (xorV a b) = xorV (zPart a) (zPart b) := by
  have hab : a.length = b.length := by rw [ha, hb]
  have hl : (xorV a b).length = 2 * n := by rw [xorV_length a b hab, ha]
  unfold zPart
  rw [xorV_append _ _ _ _ (by simp [zeros, xHalf_len a n ha, xHalf_len b n hb]), zHalf_xorV a b hab,
    xHalf_len _ n hl, xHalf_len a n ha, xHalf_len b n hb, xorV_zeros_zeros]

theorem xPart_xor_zPart (v : BVec) (n : Nat) (_hv : v.length = 2 * n) :
    xorV (xPart v) (zPart v) = v := by
  unfold xPart zPart
  rw [xorV_append _ _ _ _ (by simp [zeros])]
  have h1 := xorV_zeros_right (xHalf v)
  have h2 := xorV_zeros_left (zHalf v)
  rw [h1, h2, half_append]

/-! ### CSS stabilizer matrices -/

/-- every generator is X-type (Z half zero) or Z-type (X half zero) -/
def IsCSS (S : List BVec) : Prop :=
  ∀ row ∈ S, isZero (zHalf row) = true ∨ isZero (xHalf row) = true

theorem bsp_components (v row : BVec) (n : Nat) (hv : v.length = 2 * n) (hr : row.length = 2 * n)
    (hcss : isZero (zHalf row) = true ∨ isZero (xHalf row) = true) (h : bsp v row = false) :
    bsp (xPart v) row = false ∧ bsp (zPart v) row = false := by
  have e0 := bsp_halves v row (by rw [hv, hr]) (by omega)
  have e1 := bsp_halves (xPart v) row (by rw [xPart_length v n hv, hr]) (by rw [xPart_length v n hv]; omega)
  have e2 := bsp_halves (zPart v) row (by rw [zPart_length v n hv, hr]) (by rw [zPart_length v n hv]; omega)
  rw [xHalf_xPart v n hv, zHalf_xPart v n hv] at e1
  rw [xHalf_zPart v n hv, zHalf_zPart v n hv] at e2
  rw [dot_isZero_left _ _ (isZero_zeros n)] at e1 e2
  rcases hcss with hz | hx
  · rw [dot_isZero_right _ _ hz] at e0 e1
    have hd : dot (zHalf v) (xHalf row) = false := by rw [e0] at h; simpa using h
    rw [e1, e2, hd]; simp
  · rw [dot_isZero_right _ _ hx] at e0 e2
    have hd : dot (xHalf v) (zHalf row) = false := by rw [e0] at h; simpa using h
    rw [e1, e2, hd]; simp

theorem synd_components (S : List BVec) (n : Nat) (hS : ∀ row ∈ S, row.length = 2 * n) (hcss : IsCSS S)
    (v : BVec) (hv : v.length = 2 * n) (h : isZero (synd S v) = true) :
    isZero (synd S (xPart v)) = true ∧ isZero (synd S (zPart v)) = true := by
  rw [isZero_synd_iff] at h
  constructor
  · rw [isZero_synd_iff]; intro row hr
    exact (bsp_components v row n hv (hS row hr) (hcss row hr) (h row hr)).1
  · rw [isZero_synd_iff]; intro row hr
    exact (bsp_components v row n hv (hS row hr) (hcss row hr) (h row hr)).2

/-- the per-component correction argument for CSS codes -/
theorem corrected_of_components (S L : List BVec) (n d : Nat) (hS : ∀ row ∈ S, row.length = 2 * n)
    (hL : ∀ row ∈ L, row.length = 2 * n) (hcss : IsCSS S) (hd : DistHyp S L n d)
    (r e : BVec) (hr : r.length = 2 * n) (he : e.length = 2 * n) (hs : synd S r = synd S e)
    (hX : bsfWt (xPart r) + bsfWt (xPart e) < d) (hZ : bsfWt (zPart r) + bsfWt (zPart e) < d) :
    corrected S L e r = true := by
  have h1 := synd_xor_zero S n hS r e hr he hs
  have hx : (xorV r e).length = 2 * n := by rw [xorV_length r e (by rw [hr, he]), hr]
  obtain ⟨c1, c2⟩ := synd_components S n hS hcss _ hx h1
  have w1 : bsfWt (xPart (xorV r e)) < d := by
    rw [xPart_xorV r e n hr he]
    exact Nat.lt_of_le_of_lt (wt_xor_le _ _ (by rw [xPart_length r n hr, xPart_length e n he])) hX
  have w2 : bsfWt (zPart (xorV r e)) < d := by
    rw [zPart_xorV r e n hr he]
    exact Nat.lt_of_le_of_lt (wt_xor_le _ _ (by rw [zPart_length r n hr, zPart_length e n he])) hZ
  have l1 := hd _ (xPart_length _ n hx) c1 w1
  have l2 := hd _ (zPart_length _ n hx) c2 w2
  have hsum : synd L (xorV r e) = xorV (synd L (xPart (xorV r e))) (synd L (zPart (xorV r e))) := by
    rw [← C09.synd_add L _ _ (by rw [xPart_length _ n hx, zPart_length _ n hx])
      (by rw [xPart_length _ n hx]; omega) (fun row h => by rw [hL row h, xPart_length _ n hx]),
      xPart_xor_zPart _ n hx]
  simp only [corrected, h1, Bool.true_and]
  rw [hsum]
  exact isZero_xorV _ _ l1 l2

/-! ### weight of an XOR of operators -/

theorem bsfWt_zeros (m : Nat) : bsfWt (zeros m) = 0 := by
  unfold bsfWt
  rw [List.countP_eq_zero]
  intro b hb
  have hx : ∀ c ∈ xHalf (zeros m), c = false := by
    intro c hc; exact List.eq_of_mem_replicate (List.mem_of_mem_take hc)
  have hz : ∀ c ∈ zHalf (zeros m), c = false := by
    intro c hc; exact List.eq_of_mem_replicate (List.mem_of_mem_drop hc)
  obtain ⟨i, hi, rfl⟩ := List.getElem_of_mem hb
  simp only [List.getElem_zipWith]
  rw [hx _ (List.getElem_mem _), hz _ (List.getElem_mem _)]
  simp

theorem wt_foldl_xor_le (m : Nat) (rows : List BVec) (acc : BVec) (hacc : acc.length = m)
    (hrows : ∀ row ∈ rows, row.length = m) :
    bsfWt (rows.foldl xorV acc) ≤ bsfWt acc + (rows.map bsfWt).sum := by
  induction rows generalizing acc with
  | nil => simp
  | cons row rows ih =>
    have hrl := hrows row (by simp)
    have hl : (xorV acc row).length = m := by rw [xorV_length acc row (by rw [hacc, hrl]), hacc]
    have := ih (xorV acc row) hl (fun r hr => hrows r (by simp [hr]))
    have h2 := wt_xor_le acc row (by rw [hacc, hrl])
    simp only [List.foldl_cons, List.map_cons, List.sum_cons]
    omega

theorem wt_xorAll_le (m : Nat) (rows : List BVec) (hrows : ∀ row ∈ rows, row.length = m) :
    bsfWt (xorAll m rows) ≤ (rows.map bsfWt).sum := by
  have := wt_foldl_xor_le m rows (zeros m) (by simp [zeros]) hrows
  rw [bsfWt_zeros] at this
  simpa [xorAll] using this

theorem sum_le_of_forall₂ (paths : List BVec) (dists : List Nat)
    (h : List.Forall₂ (fun p k => bsfWt p ≤ k) paths dists) : (paths.map bsfWt).sum ≤ dists.sum := by
  induction h with
  | nil => simp
  | cons hab _ ih => simp only [List.map_cons, List.sum_cons]; omega

/-- the chain of inequalities behind "the MWPM recovery component is no heavier than the error
    component": the recovery component `rc` is the XOR of the path operators of the chosen matching
    (`applyMates`), every path weighs at most the graph distance of its pair (C15 `path_weight`),
    the chosen matching is minimum-weight (C13), so its total distance is at most that of the
    perfect matching `alt` induced by the error chain, whose total distance is at most the weight
    of the error component `ec` (the chain-to-matching lemma). -/
def ChainBound (n : Nat) (rc ec : BVec) : Prop :=
  ∃ (paths : List BVec) (dists : List Nat) (altTotal : Nat),
    rc = xorAll (2 * n) paths ∧ (∀ p ∈ paths, p.length = 2 * n) ∧
    List.Forall₂ (fun p k => bsfWt p ≤ k) paths dists ∧
    dists.sum ≤ altTotal ∧ altTotal ≤ bsfWt ec

theorem chainBound_le (n : Nat) (rc ec : BVec) (h : ChainBound n rc ec) : bsfWt rc ≤ bsfWt ec := by
  obtain ⟨paths, dists, alt, hrc, hlen, hw, hmin, halt⟩ := h
  have h1 := wt_xorAll_le (2 * n) paths hlen
  have h2 := sum_le_of_forall₂ paths dists hw
  rw [hrc]; omega

/-! ### building `ChainBound` from a list of pairs -/

theorem forall₂_map_of_forall {α : Type} (l : List α) (f : α → BVec) (g : α → Nat)
    (h : ∀ x ∈ l, bsfWt (f x) ≤ g x) :
    List.Forall₂ (fun p k => bsfWt p ≤ k) (l.map f) (l.map g) := by
  induction l with
  | nil => exact .nil
  | cons x xs ih =>
    exact .cons (h x (by simp)) (ih fun y hy => h y (by simp [hy]))

/-- `ChainBound` from: the recovery component is the XOR of the path operators of the chosen pairs,
    every path weighs at most its pair's distance, and the total distance of the chosen pairs is at
    most `alt ≤ wt (error component)` -/
theorem chainBound_of_pairs {α : Type} (n : Nat) (pairs : List α) (pathOf : α → BVec) (distOf : α → Nat)
    (alt : Nat) (rc ec : BVec) (hrc : rc = xorAll (2 * n) (pairs.map pathOf))
    (hlen : ∀ x ∈ pairs, (pathOf x).length = 2 * n)
    (hw : ∀ x ∈ pairs, bsfWt (pathOf x) ≤ distOf x)
    (hmin : (pairs.map distOf).sum ≤ alt) (halt : alt ≤ bsfWt ec) : ChainBound n rc ec :=
  ⟨pairs.map pathOf, pairs.map distOf, alt, hrc,
    fun p hp => by obtain ⟨x, hx, rfl⟩ := List.mem_map.mp hp; exact hlen x hx,
    forall₂_map_of_forall pairs pathOf distOf hw, hmin, halt⟩

theorem zHalf_zeros_two_mul (n : Nat) : zHalf (zeros (2 * n)) = zeros n := by
  simp [zHalf, zeros]; omega

theorem xHalf_zeros_two_mul (n : Nat) : xHalf (zeros (2 * n)) = zeros n := by
  simp [xHalf, zeros]; omega

/-- an operator whose X half is that of `vp`, where `vp` has a zero Z half, has X-component `vp` -/
theorem xPart_eq_of_halves (n : Nat) (r vp : BVec) (hr : r.length = 2 * n)
    (hx : xHalf r = xHalf vp) (hz : zHalf vp = zeros n) : xPart r = vp := by
  unfold xPart
  rw [zHalf_len r n hr, hx, ← hz, half_append]

theorem zPart_eq_of_halves (n : Nat) (r vd : BVec) (hr : r.length = 2 * n)
    (hz : zHalf r = zHalf vd) (hx : xHalf vd = zeros n) : zPart r = vd := by
  unfold zPart
  rw [xHalf_len r n hr, hz, ← hx, half_append]

end Qec.MwpmReduce
