/-
  Closed-form weights of the logical operators supplied by the lattice models (all sizes).
-/
import QecVerif.Model.Lattice.Planar
import QecVerif.Model.Lattice.RotatedPlanar
import QecVerif.Model.Lattice.Toric
import QecVerif.Model.Lattice.RotatedToric
import QecVerif.Model.Lattice.Color666
import QecVerif.Lemmas.GF2
namespace Qec.Distance.Weights
open Qec

/-! ### generic part: folding X / Z toggles over distinct in-range flat indices -/

/-- the `xs + zs` vector of `bsf_wt` for a bsf of `n` qubits -/
def orHalves (n : Nat) (v : BVec) : BVec := List.zipWith or (v.take n) (v.drop n)

theorem bsfWt_eq_orHalves (n : Nat) (v : BVec) (hv : v.length = 2 * n) :
    bsfWt v = (orHalves n v).countP id := by
  have : v.length / 2 = n := by omega
  simp [bsfWt, orHalves, xHalf, zHalf, this]

theorem orHalves_length (n : Nat) (v : BVec) (hv : v.length = 2 * n) : (orHalves n v).length = n := by
  simp [orHalves, hv]; omega

theorem toggle_length (v : BVec) (i : Nat) : (toggle v i).length = v.length := by simp [toggle]

theorem countP_modify_not (l : BVec) (i : Nat) (h : l[i]? = some false) :
    (l.modify i not).countP id = l.countP id + 1 := by
  induction l generalizing i with
  | nil => simp at h
  | cons x xs ih =>
    cases i with
    | zero =>
      simp at h
      subst h
      simp [List.modify_cons]
    | succ j =>
      simp at h
      have := ih j h
      simp [List.countP_cons, this]
      omega

theorem orHalves_toggle_x (n : Nat) (v : BVec) (f : Nat) (hv : v.length = 2 * n) (hf : f < n)
    (hz : v[n + f]? = some false) : orHalves n (toggle v f) = (orHalves n v).modify f not := by
  apply List.ext_getElem
  · simp [orHalves, toggle]
  · intro j h1 h2
    have hj : j < n := by rw [orHalves_length n _ (by simp [toggle_length, hv])] at h1; exact h1
    have hz' : v[n + f] = false := by
      have : n + f < v.length := by omega
      rw [List.getElem?_eq_getElem this] at hz; simpa using hz
    simp only [orHalves, toggle, List.getElem_zipWith, List.getElem_take, List.getElem_drop,
      List.getElem_modify]
    by_cases hfj : f = j
    · subst hfj
      have hn : n ≠ 0 := by omega
      simp [hn, hz']
    · have : ¬ (f = n + j) := by omega
      simp [this, hfj]

theorem orHalves_toggle_z (n : Nat) (v : BVec) (f : Nat) (hv : v.length = 2 * n) (hf : f < n)
    (hx : v[f]? = some false) : orHalves n (toggle v (n + f)) = (orHalves n v).modify f not := by
  apply List.ext_getElem
  · simp [orHalves, toggle]
  · intro j h1 h2
    have hj : j < n := by rw [orHalves_length n _ (by simp [toggle_length, hv])] at h1; exact h1
    have hx' : v[f] = false := by
      have : f < v.length := by omega
      rw [List.getElem?_eq_getElem this] at hx; simpa using hx
    simp only [orHalves, toggle, List.getElem_zipWith, List.getElem_take, List.getElem_drop,
      List.getElem_modify]
    by_cases hfj : f = j
    · subst hfj
      have hn : n ≠ 0 := by omega
      simp [hn, hx']
    · have h1 : ¬ (n + f = j) := by omega
      have h2 : ¬ (n + f = n + j) := by omega
      simp [h1, hfj]

theorem orHalves_getElem?_false (n : Nat) (v : BVec) (f : Nat) (hv : v.length = 2 * n) (hf : f < n)
    (hx : v[f]? = some false) (hz : v[n + f]? = some false) : (orHalves n v)[f]? = some false := by
  have h1 : f < v.length := by omega
  have h2 : n + f < v.length := by omega
  rw [List.getElem?_eq_getElem h1] at hx
  rw [List.getElem?_eq_getElem h2] at hz
  have hl : f < (orHalves n v).length := by rw [orHalves_length n v hv]; exact hf
  rw [List.getElem?_eq_getElem hl]
  simp only [orHalves, List.getElem_zipWith, List.getElem_take, List.getElem_drop]
  simp at hx hz
  simp [hx, hz]

/-- one X toggle on a clean qubit raises the weight by one -/
theorem bsfWt_applyX (n : Nat) (v : BVec) (f : Nat) (hv : v.length = 2 * n) (hf : f < n)
    (hx : v[f]? = some false) (hz : v[n + f]? = some false) :
    bsfWt (applyOp n P1.X v f) = bsfWt v + 1 := by
  have : applyOp n P1.X v f = toggle v f := by simp [applyOp, P1.xBit, P1.zBit]
  rw [this, bsfWt_eq_orHalves n _ (by rw [toggle_length]; exact hv), bsfWt_eq_orHalves n v hv,
    orHalves_toggle_x n v f hv hf hz]
  exact countP_modify_not _ _ (orHalves_getElem?_false n v f hv hf hx hz)

theorem bsfWt_applyZ (n : Nat) (v : BVec) (f : Nat) (hv : v.length = 2 * n) (hf : f < n)
    (hx : v[f]? = some false) (hz : v[n + f]? = some false) :
    bsfWt (applyOp n P1.Z v f) = bsfWt v + 1 := by
  have : applyOp n P1.Z v f = toggle v (n + f) := by simp [applyOp, P1.xBit, P1.zBit]
  rw [this, bsfWt_eq_orHalves n _ (by rw [toggle_length]; exact hv), bsfWt_eq_orHalves n v hv,
    orHalves_toggle_z n v f hv hf hx]
  exact countP_modify_not _ _ (orHalves_getElem?_false n v f hv hf hx hz)

theorem toggle_getElem?_ne (v : BVec) (i j : Nat) (h : i ≠ j) : (toggle v i)[j]? = v[j]? := by
  simp [toggle, h]

/-- the operator is X or Z -/
def IsXZ (op : P1) : Prop := op = P1.X ∨ op = P1.Z

theorem applyOp_length (n : Nat) (op : P1) (v : BVec) (f : Nat) : (applyOp n op v f).length = v.length := by
  unfold applyOp
  cases op <;> simp [P1.xBit, P1.zBit, toggle_length]

theorem applyOp_getElem?_other (n : Nat) (op : P1) (v : BVec) (f g : Nat) (hf : f < n) (hg : g < n)
    (hfg : f ≠ g) : (applyOp n op v f)[g]? = v[g]? ∧ (applyOp n op v f)[n + g]? = v[n + g]? := by
  unfold applyOp
  cases op <;> simp [P1.xBit, P1.zBit] <;>
    (refine ⟨?_, ?_⟩ <;> (repeat rw [toggle_getElem?_ne _ _ _ (by omega)]))

theorem bsfWt_foldl (n : Nat) (op : P1) (hop : IsXZ op) (fs : List Nat) (v : BVec)
    (hv : v.length = 2 * n) (hnd : fs.Nodup) (hlt : ∀ f ∈ fs, f < n)
    (hclean : ∀ f ∈ fs, v[f]? = some false ∧ v[n + f]? = some false) :
    bsfWt (fs.foldl (fun v f => applyOp n op v f) v) = bsfWt v + fs.length ∧
    (fs.foldl (fun v f => applyOp n op v f) v).length = 2 * n := by
  induction fs generalizing v with
  | nil => simp [hv]
  | cons f fs ih =>
    rw [List.nodup_cons] at hnd
    have hf : f < n := hlt f (by simp)
    have hc := hclean f (by simp)
    have hstep : bsfWt (applyOp n op v f) = bsfWt v + 1 := by
      rcases hop with rfl | rfl
      · exact bsfWt_applyX n v f hv hf hc.1 hc.2
      · exact bsfWt_applyZ n v f hv hf hc.1 hc.2
    have := ih (applyOp n op v f) (by rw [applyOp_length]; exact hv) hnd.2
      (fun g hg => hlt g (by simp [hg]))
      (fun g hg => by
        have hne : f ≠ g := fun h => hnd.1 (h ▸ hg)
        have := applyOp_getElem?_other n op v f g hf (hlt g (by simp [hg])) hne
        rw [this.1, this.2]
        exact hclean g (by simp [hg]))
    simp only [List.foldl_cons, List.length_cons]
    rw [this.1, hstep]
    exact ⟨by omega, this.2⟩

theorem bsfWt_zeros (m : Nat) : bsfWt (zeros m) = 0 := by
  simp [bsfWt, zeros, xHalf, zHalf, List.countP_eq_zero]

theorem zeros_getElem? (m i : Nat) (h : i < m) : (zeros m)[i]? = some false := by
  simp [zeros, h]

theorem foldl_congr_mem {α β : Type} (f g : α → β → α) (l : List β) (a : α)
    (h : ∀ a, ∀ b ∈ l, f a b = g a b) : l.foldl f a = l.foldl g a := by
  induction l generalizing a with
  | nil => rfl
  | cons b bs ih =>
    simp only [List.foldl_cons]
    rw [h a b (by simp)]
    exact ih _ (fun a c hc => h a c (by simp [hc]))

/-- workhorse: a fold of `site` calls over the images `h i` of an increasing list of naturals, where the
    call at `h i` is the toggle at the flat index `g i`, `g` strictly increasing and `< n` on the list -/
theorem wt_sites (n : Nat) (op : P1) (hop : IsXZ op) (l : List Nat) (g : Nat → Nat)
    (hl : l.Pairwise (· < ·)) (hmono : ∀ i j, i < j → g i < g j) (hlt : ∀ i ∈ l, g i < n)
    {σ : Type} (site : BVec → σ → BVec) (h : Nat → σ)
    (hsite : ∀ v, ∀ i ∈ l, site v (h i) = applyOp n op v (g i)) :
    bsfWt ((l.map h).foldl site (zeros (2 * n))) = l.length ∧
    ((l.map h).foldl site (zeros (2 * n))).length = 2 * n := by
  have e : (l.map h).foldl site (zeros (2 * n)) =
      (l.map g).foldl (fun v f => applyOp n op v f) (zeros (2 * n)) := by
    rw [List.foldl_map, List.foldl_map]
    exact foldl_congr_mem _ _ _ _ hsite
  have hnd : (l.map g).Nodup := by
    unfold List.Nodup
    rw [List.pairwise_map]
    exact hl.imp (fun {a b} hab => Nat.ne_of_lt (hmono a b hab))
  have hlt' : ∀ f ∈ l.map g, f < n := by
    intro f hf
    obtain ⟨i, hi, rfl⟩ := List.mem_map.mp hf
    exact hlt i hi
  have := bsfWt_foldl n op hop (l.map g) (zeros (2 * n)) (by simp [zeros]) hnd hlt'
    (fun f hf => ⟨zeros_getElem? _ _ (by have := hlt' f hf; omega),
      zeros_getElem? _ _ (by have := hlt' f hf; omega)⟩)
  rw [e, this.1, this.2, bsfWt_zeros]
  simp

theorem wt_sites_range (n : Nat) (op : P1) (hop : IsXZ op) (k : Nat) (g : Nat → Nat)
    (hmono : ∀ i j, i < j → g i < g j) (hlt : ∀ i, i < k → g i < n)
    {σ : Type} (site : BVec → σ → BVec) (h : Nat → σ)
    (hsite : ∀ v i, i < k → site v (h i) = applyOp n op v (g i)) :
    bsfWt (((List.range k).map h).foldl site (zeros (2 * n))) = k ∧
    (((List.range k).map h).foldl site (zeros (2 * n))).length = 2 * n := by
  have := wt_sites n op hop (List.range k) g List.pairwise_lt_range hmono
    (fun i hi => hlt i (List.mem_range.mp hi)) site h (fun v i hi => hsite v i (List.mem_range.mp hi))
  simpa using this

theorem ap_mono (a d : Nat) (hd : 0 < d) : ∀ i j : Nat, i < j → a + i * d < a + j * d := by
  intro i j hij
  have := Nat.mul_lt_mul_of_pos_right hij hd
  omega

/-! ### planar -/

theorem planar_nQubits_toNat (r c : Nat) (hr : 2 ≤ r) (hc : 2 ≤ c) :
    (Planar.nQubits (r : Int) (c : Int)).toNat = r * c + (r - 1) * (c - 1) := by
  unfold Planar.nQubits
  have h1 : ((r : Int) - 1) = ((r - 1 : Nat) : Int) := by omega
  have h2 : ((c : Int) - 1) = ((c - 1 : Nat) : Int) := by omega
  rw [h1, h2, ← Int.natCast_mul, ← Int.natCast_mul, ← Int.natCast_add, Int.toNat_natCast]

theorem planar_logicalX_aux (R C : Int) (hR : 2 ≤ R) (hC : 2 ≤ C) :
    bsfWt (Planar.logicalX R C) = R.toNat ∧
    (Planar.logicalX R C).length = 2 * (Planar.nQubits R C).toNat := by
  obtain ⟨r, rfl⟩ := Int.eq_ofNat_of_zero_le (by omega : 0 ≤ R)
  obtain ⟨c, rfl⟩ := Int.eq_ofNat_of_zero_le (by omega : 0 ≤ C)
  have hr : 2 ≤ r := by omega
  have hc : 2 ≤ c := by omega
  unfold Planar.logicalX Planar.sites Planar.logicalXSites Planar.identity
  apply wt_sites_range _ P1.X (Or.inl rfl) _ (fun i => (c - 1) + i * c) (ap_mono _ _ (by omega))
  · intro i hi
    rw [planar_nQubits_toNat r c hr hc]
    simp at hi
    have : (i + 1) * c ≤ r * c := Nat.mul_le_mul_right c (by omega)
    rw [Nat.add_mul] at this
    omega
  · intro v i hi
    simp at hi
    have hib : Planar.inBounds (r : Int) (c : Int) (2 * (i : Int)) (Planar.maxCol (c : Int)) = true := by
      simp only [Planar.inBounds, Bool.and_eq_true, decide_eq_true_eq]
      simp only [Planar.maxRow, Planar.maxCol]
      omega
    have hfl : Planar.flatten (r : Int) (c : Int) (2 * (i : Int)) (Planar.maxCol (c : Int))
        = (((c - 1) + i * c : Nat) : Int) := by
      unfold Planar.flatten Planar.maxCol
      have e1 : 2 * (i : Int) / 2 = i := by omega
      have e2 : (2 * (c : Int) - 2) % 2 = 0 := by omega
      have e3 : (2 * (c : Int) - 2) / 2 = c - 1 := by omega
      have e4 : 2 * (i : Int) % 2 = 0 := by omega
      rw [e1, e2, e3, e4]
      have : (((c - 1 : Nat)) : Int) = (c : Int) - 1 := by omega
      simp [this]
      omega
    simp only [Planar.site, hib, if_true, hfl, Int.toNat_natCast]

theorem planar_logicalZ_aux (R C : Int) (hR : 2 ≤ R) (hC : 2 ≤ C) :
    bsfWt (Planar.logicalZ R C) = C.toNat ∧
    (Planar.logicalZ R C).length = 2 * (Planar.nQubits R C).toNat := by
  obtain ⟨r, rfl⟩ := Int.eq_ofNat_of_zero_le (by omega : 0 ≤ R)
  obtain ⟨c, rfl⟩ := Int.eq_ofNat_of_zero_le (by omega : 0 ≤ C)
  have hr : 2 ≤ r := by omega
  have hc : 2 ≤ c := by omega
  unfold Planar.logicalZ Planar.sites Planar.logicalZSites Planar.identity
  apply wt_sites_range _ P1.Z (Or.inr rfl) _ (fun i => (r - 1) * c + i * 1) (ap_mono _ _ (by omega))
  · intro i hi
    rw [planar_nQubits_toNat r c hr hc]
    simp at hi
    have : (r - 1 + 1) * c = (r - 1) * c + c := Nat.succ_mul _ _
    have e : r - 1 + 1 = r := by omega
    rw [e] at this
    omega
  · intro v i hi
    simp at hi
    have hib : Planar.inBounds (r : Int) (c : Int) (Planar.maxRow (r : Int)) (2 * (i : Int)) = true := by
      simp only [Planar.inBounds, Bool.and_eq_true, decide_eq_true_eq]
      simp only [Planar.maxRow, Planar.maxCol]
      omega
    have hfl : Planar.flatten (r : Int) (c : Int) (Planar.maxRow (r : Int)) (2 * (i : Int))
        = (((r - 1) * c + i * 1 : Nat) : Int) := by
      unfold Planar.flatten Planar.maxRow
      have e1 : 2 * (i : Int) / 2 = i := by omega
      have e2 : (2 * (r : Int) - 2) % 2 = 0 := by omega
      have e3 : (2 * (r : Int) - 2) / 2 = r - 1 := by omega
      have e4 : 2 * (i : Int) % 2 = 0 := by omega
      rw [e1, e2, e3, e4]
      have : (((r - 1 : Nat)) : Int) = (r : Int) - 1 := by omega
      simp [this]
    simp only [Planar.site, hib, if_true, hfl, Int.toNat_natCast]

theorem planar_logicalX_wt (R C : Int) (hR : 2 ≤ R) (hC : 2 ≤ C) :
    bsfWt (Planar.logicalX R C) = R.toNat := (planar_logicalX_aux R C hR hC).1
theorem planar_logicalX_len (R C : Int) (hR : 2 ≤ R) (hC : 2 ≤ C) :
    (Planar.logicalX R C).length = 2 * (Planar.nQubits R C).toNat := (planar_logicalX_aux R C hR hC).2
theorem planar_logicalZ_wt (R C : Int) (hR : 2 ≤ R) (hC : 2 ≤ C) :
    bsfWt (Planar.logicalZ R C) = C.toNat := (planar_logicalZ_aux R C hR hC).1
theorem planar_logicalZ_len (R C : Int) (hR : 2 ≤ R) (hC : 2 ≤ C) :
    (Planar.logicalZ R C).length = 2 * (Planar.nQubits R C).toNat := (planar_logicalZ_aux R C hR hC).2

/-! ### rotated planar -/

theorem rotatedplanar_logicalX_aux (R C : Int) (hR : 3 ≤ R) (hC : 3 ≤ C) :
    bsfWt (RotatedPlanar.logicalX R C) = C.toNat ∧
    (RotatedPlanar.logicalX R C).length = 2 * (RotatedPlanar.nQubits R C).toNat := by
  obtain ⟨r, rfl⟩ := Int.eq_ofNat_of_zero_le (by omega : 0 ≤ R)
  obtain ⟨c, rfl⟩ := Int.eq_ofNat_of_zero_le (by omega : 0 ≤ C)
  have hr : 3 ≤ r := by omega
  have hc : 3 ≤ c := by omega
  have hk : (RotatedPlanar.maxSiteX (c : Int) + 1).toNat = c := by simp [RotatedPlanar.maxSiteX]
  have hn : (RotatedPlanar.nQubits (r : Int) (c : Int)).toNat = r * c := by
    unfold RotatedPlanar.nQubits; rw [← Int.natCast_mul, Int.toNat_natCast]
  unfold RotatedPlanar.logicalX RotatedPlanar.sites RotatedPlanar.logicalXSites RotatedPlanar.identity
  rw [hk, hn, Int.toNat_natCast]
  apply wt_sites_range _ P1.X (Or.inl rfl) _ (fun i => 0 + i * 1) (ap_mono _ _ (by omega))
  · intro i hi
    have : 1 * c ≤ r * c := Nat.mul_le_mul_right c (by omega)
    omega
  · intro v i hi
    have hib : RotatedPlanar.inSiteBounds (r : Int) (c : Int) (i : Int) 0 = true := by
      simp only [RotatedPlanar.inSiteBounds, Bool.and_eq_true, decide_eq_true_eq]
      simp only [RotatedPlanar.maxSiteX, RotatedPlanar.maxSiteY]
      omega
    have hfl : RotatedPlanar.flatten (r : Int) (c : Int) (i : Int) 0 = ((0 + i * 1 : Nat) : Int) := by
      simp [RotatedPlanar.flatten]
    simp only [RotatedPlanar.site, hib, if_true, hfl, Int.toNat_natCast, hn]

theorem rotatedplanar_logicalZ_aux (R C : Int) (hR : 3 ≤ R) (hC : 3 ≤ C) :
    bsfWt (RotatedPlanar.logicalZ R C) = R.toNat ∧
    (RotatedPlanar.logicalZ R C).length = 2 * (RotatedPlanar.nQubits R C).toNat := by
  obtain ⟨r, rfl⟩ := Int.eq_ofNat_of_zero_le (by omega : 0 ≤ R)
  obtain ⟨c, rfl⟩ := Int.eq_ofNat_of_zero_le (by omega : 0 ≤ C)
  have hr : 3 ≤ r := by omega
  have hc : 3 ≤ c := by omega
  have hk : (RotatedPlanar.maxSiteY (r : Int) + 1).toNat = r := by simp [RotatedPlanar.maxSiteY]
  have hn : (RotatedPlanar.nQubits (r : Int) (c : Int)).toNat = r * c := by
    unfold RotatedPlanar.nQubits; rw [← Int.natCast_mul, Int.toNat_natCast]
  unfold RotatedPlanar.logicalZ RotatedPlanar.sites RotatedPlanar.logicalZSites RotatedPlanar.identity
  rw [hk, hn, Int.toNat_natCast]
  apply wt_sites_range _ P1.Z (Or.inr rfl) _ (fun j => (c - 1) + j * c) (ap_mono _ _ (by omega))
  · intro j hj
    have : (j + 1) * c ≤ r * c := Nat.mul_le_mul_right c (by omega)
    rw [Nat.add_mul] at this
    omega
  · intro v j hj
    have hib : RotatedPlanar.inSiteBounds (r : Int) (c : Int) (RotatedPlanar.maxSiteX (c : Int)) (j : Int)
        = true := by
      simp only [RotatedPlanar.inSiteBounds, Bool.and_eq_true, decide_eq_true_eq]
      simp only [RotatedPlanar.maxSiteX, RotatedPlanar.maxSiteY]
      omega
    have hfl : RotatedPlanar.flatten (r : Int) (c : Int) (RotatedPlanar.maxSiteX (c : Int)) (j : Int)
        = (((c - 1) + j * c : Nat) : Int) := by
      have : (((c - 1 : Nat)) : Int) = (c : Int) - 1 := by omega
      simp [RotatedPlanar.flatten, RotatedPlanar.maxSiteX, this]
    simp only [RotatedPlanar.site, hib, if_true, hfl, Int.toNat_natCast, hn]

theorem rotatedplanar_logicalX_wt (R C : Int) (hR : 3 ≤ R) (hC : 3 ≤ C) :
    bsfWt (RotatedPlanar.logicalX R C) = C.toNat := (rotatedplanar_logicalX_aux R C hR hC).1
theorem rotatedplanar_logicalX_len (R C : Int) (hR : 3 ≤ R) (hC : 3 ≤ C) :
    (RotatedPlanar.logicalX R C).length = 2 * (RotatedPlanar.nQubits R C).toNat :=
  (rotatedplanar_logicalX_aux R C hR hC).2
theorem rotatedplanar_logicalZ_wt (R C : Int) (hR : 3 ≤ R) (hC : 3 ≤ C) :
    bsfWt (RotatedPlanar.logicalZ R C) = R.toNat := (rotatedplanar_logicalZ_aux R C hR hC).1
theorem rotatedplanar_logicalZ_len (R C : Int) (hR : 3 ≤ R) (hC : 3 ≤ C) :
    (RotatedPlanar.logicalZ R C).length = 2 * (RotatedPlanar.nQubits R C).toNat :=
  (rotatedplanar_logicalZ_aux R C hR hC).2

/-! ### rotated toric -/

theorem rotatedtoric_west (R C : Int) (hR : 2 ≤ R) (hC : 2 ≤ C) (op : P1) (hop : IsXZ op) :
    bsfWt (RotatedToric.sites R C op (RotatedToric.identity R C) (RotatedToric.westColumn R)) = R.toNat ∧
    (RotatedToric.sites R C op (RotatedToric.identity R C) (RotatedToric.westColumn R)).length
      = 2 * (RotatedToric.nQubits R C).toNat := by
  obtain ⟨r, rfl⟩ := Int.eq_ofNat_of_zero_le (by omega : 0 ≤ R)
  obtain ⟨c, rfl⟩ := Int.eq_ofNat_of_zero_le (by omega : 0 ≤ C)
  have hr : 2 ≤ r := by omega
  have hc : 2 ≤ c := by omega
  have hmx : RotatedToric.maxX (c : Int) + 1 = c := by simp [RotatedToric.maxX]
  have hmy : RotatedToric.maxY (r : Int) + 1 = r := by simp [RotatedToric.maxY]
  have hn : (RotatedToric.nQubits (r : Int) (c : Int)).toNat = r * c := by
    unfold RotatedToric.nQubits; rw [← Int.natCast_mul, Int.toNat_natCast]
  unfold RotatedToric.sites RotatedToric.westColumn RotatedToric.identity
  rw [hmy, hn, Int.toNat_natCast]
  apply wt_sites_range _ op hop _ (fun y => 0 + y * c) (ap_mono _ _ (by omega))
  · intro y hy
    have : (y + 1) * c ≤ r * c := Nat.mul_le_mul_right c (by omega)
    rw [Nat.add_mul] at this
    omega
  · intro v y hy
    have e1 : (0 : Int) % (c : Int) = 0 := Int.zero_emod _
    have e2 : (y : Int) % (r : Int) = y := Int.emod_eq_of_lt (by omega) (by omega)
    have hfl : RotatedToric.flatten (r : Int) (c : Int) 0 (y : Int) = ((0 + y * c : Nat) : Int) := by
      simp [RotatedToric.flatten, hmx]
    simp only [RotatedToric.site, RotatedToric.modIndex, hmx, hmy, e1, e2, hfl, Int.toNat_natCast, hn]

theorem rotatedtoric_south (R C : Int) (hR : 2 ≤ R) (hC : 2 ≤ C) (op : P1) (hop : IsXZ op) :
    bsfWt (RotatedToric.sites R C op (RotatedToric.identity R C) (RotatedToric.southRow C)) = C.toNat ∧
    (RotatedToric.sites R C op (RotatedToric.identity R C) (RotatedToric.southRow C)).length
      = 2 * (RotatedToric.nQubits R C).toNat := by
  obtain ⟨r, rfl⟩ := Int.eq_ofNat_of_zero_le (by omega : 0 ≤ R)
  obtain ⟨c, rfl⟩ := Int.eq_ofNat_of_zero_le (by omega : 0 ≤ C)
  have hr : 2 ≤ r := by omega
  have hc : 2 ≤ c := by omega
  have hmx : RotatedToric.maxX (c : Int) + 1 = c := by simp [RotatedToric.maxX]
  have hmy : RotatedToric.maxY (r : Int) + 1 = r := by simp [RotatedToric.maxY]
  have hn : (RotatedToric.nQubits (r : Int) (c : Int)).toNat = r * c := by
    unfold RotatedToric.nQubits; rw [← Int.natCast_mul, Int.toNat_natCast]
  unfold RotatedToric.sites RotatedToric.southRow RotatedToric.identity
  rw [hmx, hn, Int.toNat_natCast]
  apply wt_sites_range _ op hop _ (fun x => 0 + x * 1) (ap_mono _ _ (by omega))
  · intro x hx
    have : 1 * c ≤ r * c := Nat.mul_le_mul_right c (by omega)
    omega
  · intro v x hx
    have e1 : (0 : Int) % (r : Int) = 0 := Int.zero_emod _
    have e2 : (x : Int) % (c : Int) = x := Int.emod_eq_of_lt (by omega) (by omega)
    have hfl : RotatedToric.flatten (r : Int) (c : Int) (x : Int) 0 = ((0 + x * 1 : Nat) : Int) := by
      simp [RotatedToric.flatten]
    simp only [RotatedToric.site, RotatedToric.modIndex, hmx, hmy, e1, e2, hfl, Int.toNat_natCast, hn]

theorem rotatedtoric_logicalX1_wt (R C : Int) (hR : 2 ≤ R) (hC : 2 ≤ C) :
    bsfWt (RotatedToric.logicalX1 R C) = R.toNat := (rotatedtoric_west R C hR hC P1.X (Or.inl rfl)).1
theorem rotatedtoric_logicalX1_len (R C : Int) (hR : 2 ≤ R) (hC : 2 ≤ C) :
    (RotatedToric.logicalX1 R C).length = 2 * (RotatedToric.nQubits R C).toNat :=
  (rotatedtoric_west R C hR hC P1.X (Or.inl rfl)).2
theorem rotatedtoric_logicalX2_wt (R C : Int) (hR : 2 ≤ R) (hC : 2 ≤ C) :
    bsfWt (RotatedToric.logicalX2 R C) = C.toNat := (rotatedtoric_south R C hR hC P1.X (Or.inl rfl)).1
theorem rotatedtoric_logicalX2_len (R C : Int) (hR : 2 ≤ R) (hC : 2 ≤ C) :
    (RotatedToric.logicalX2 R C).length = 2 * (RotatedToric.nQubits R C).toNat :=
  (rotatedtoric_south R C hR hC P1.X (Or.inl rfl)).2
theorem rotatedtoric_logicalZ1_wt (R C : Int) (hR : 2 ≤ R) (hC : 2 ≤ C) :
    bsfWt (RotatedToric.logicalZ1 R C) = C.toNat := (rotatedtoric_south R C hR hC P1.Z (Or.inr rfl)).1
theorem rotatedtoric_logicalZ1_len (R C : Int) (hR : 2 ≤ R) (hC : 2 ≤ C) :
    (RotatedToric.logicalZ1 R C).length = 2 * (RotatedToric.nQubits R C).toNat :=
  (rotatedtoric_south R C hR hC P1.Z (Or.inr rfl)).2
theorem rotatedtoric_logicalZ2_wt (R C : Int) (hR : 2 ≤ R) (hC : 2 ≤ C) :
    bsfWt (RotatedToric.logicalZ2 R C) = R.toNat := (rotatedtoric_west R C hR hC P1.Z (Or.inr rfl)).1
theorem rotatedtoric_logicalZ2_len (R C : Int) (hR : 2 ≤ R) (hC : 2 ≤ C) :
    (RotatedToric.logicalZ2 R C).length = 2 * (RotatedToric.nQubits R C).toNat :=
  (rotatedtoric_west R C hR hC P1.Z (Or.inr rfl)).2

/-! ### toric -/

theorem toric_nQubits_toNat (r c : Nat) : (Toric.nQubits (r : Int) (c : Int)).toNat = 2 * r * c := by
  unfold Toric.nQubits
  have : (2 : Int) * (r : Int) * (c : Int) = ((2 * r * c : Nat) : Int) := by push_cast; rfl
  rw [this, Int.toNat_natCast]

/-- a full column `(la, ·, C / 2)` of lattice `la` -/
theorem toric_col (R C : Int) (hR : 2 ≤ R) (hC : 2 ≤ C) (la : Nat) (hla : la ≤ 1) (op : P1) (hop : IsXZ op) :
    bsfWt (Toric.sites R C op (Toric.identity R C)
      ((List.range R.toNat).map fun (i : Nat) => ((la : Int), (i : Int), C / 2))) = R.toNat ∧
    (Toric.sites R C op (Toric.identity R C)
      ((List.range R.toNat).map fun (i : Nat) => ((la : Int), (i : Int), C / 2))).length
      = 2 * (Toric.nQubits R C).toNat := by
  obtain ⟨r, rfl⟩ := Int.eq_ofNat_of_zero_le (by omega : 0 ≤ R)
  obtain ⟨c, rfl⟩ := Int.eq_ofNat_of_zero_le (by omega : 0 ≤ C)
  have hr : 2 ≤ r := by omega
  have hc : 2 ≤ c := by omega
  unfold Toric.sites Toric.identity
  rw [toric_nQubits_toNat, Int.toNat_natCast]
  apply wt_sites_range _ op hop _ (fun i => (la * (r * c) + c / 2) + i * c) (ap_mono _ _ (by omega))
  · intro i hi
    have h1 : (i + 1) * c ≤ r * c := Nat.mul_le_mul_right c (by omega)
    rw [Nat.add_mul] at h1
    have h2 : la * (r * c) ≤ 1 * (r * c) := Nat.mul_le_mul_right _ hla
    have h3 : 2 * r * c = 2 * (r * c) := Nat.mul_assoc _ _ _
    omega
  · intro v i hi
    have e0 : (la : Int) % 2 = la := by omega
    have e1 : (i : Int) % (r : Int) = i := Int.emod_eq_of_lt (by omega) (by omega)
    have e2 : (c : Int) / 2 % (c : Int) = (c : Int) / 2 := Int.emod_eq_of_lt (by omega) (by omega)
    have hfl : Toric.flatten (r : Int) (c : Int) ((la : Int), (i : Int), (c : Int) / 2)
        = (((la * (r * c) + c / 2) + i * c : Nat) : Int) := by
      simp only [Toric.flatten, Toric.norm, e0, e1, e2]
      push_cast
      omega
    simp only [Toric.site, hfl, Int.toNat_natCast, toric_nQubits_toNat]

/-- a full row `(la, R / 2, ·)` of lattice `la` -/
theorem toric_row (R C : Int) (hR : 2 ≤ R) (hC : 2 ≤ C) (la : Nat) (hla : la ≤ 1) (op : P1) (hop : IsXZ op) :
    bsfWt (Toric.sites R C op (Toric.identity R C)
      ((List.range C.toNat).map fun (i : Nat) => ((la : Int), R / 2, (i : Int)))) = C.toNat ∧
    (Toric.sites R C op (Toric.identity R C)
      ((List.range C.toNat).map fun (i : Nat) => ((la : Int), R / 2, (i : Int)))).length
      = 2 * (Toric.nQubits R C).toNat := by
  obtain ⟨r, rfl⟩ := Int.eq_ofNat_of_zero_le (by omega : 0 ≤ R)
  obtain ⟨c, rfl⟩ := Int.eq_ofNat_of_zero_le (by omega : 0 ≤ C)
  have hr : 2 ≤ r := by omega
  have hc : 2 ≤ c := by omega
  unfold Toric.sites Toric.identity
  rw [toric_nQubits_toNat, Int.toNat_natCast]
  apply wt_sites_range _ op hop _ (fun i => (la * (r * c) + r / 2 * c) + i * 1) (ap_mono _ _ (by omega))
  · intro i hi
    have h1 : (r / 2 + 1) * c ≤ r * c := Nat.mul_le_mul_right c (by omega)
    rw [Nat.add_mul] at h1
    have h2 : la * (r * c) ≤ 1 * (r * c) := Nat.mul_le_mul_right _ hla
    have h3 : 2 * r * c = 2 * (r * c) := Nat.mul_assoc _ _ _
    omega
  · intro v i hi
    have e0 : (la : Int) % 2 = la := by omega
    have e1 : (i : Int) % (c : Int) = i := Int.emod_eq_of_lt (by omega) (by omega)
    have e2 : (r : Int) / 2 % (r : Int) = (r : Int) / 2 := Int.emod_eq_of_lt (by omega) (by omega)
    have hfl : Toric.flatten (r : Int) (c : Int) ((la : Int), (r : Int) / 2, (i : Int))
        = (((la * (r * c) + r / 2 * c) + i * 1 : Nat) : Int) := by
      simp only [Toric.flatten, Toric.norm, e0, e1, e2]
      push_cast
      omega
    simp only [Toric.site, hfl, Int.toNat_natCast, toric_nQubits_toNat]

theorem toric_logicalX1_wt (R C : Int) (hR : 2 ≤ R) (hC : 2 ≤ C) :
    bsfWt (Toric.logicalX1 R C) = R.toNat := (toric_col R C hR hC 0 (by omega) P1.X (Or.inl rfl)).1
theorem toric_logicalX1_len (R C : Int) (hR : 2 ≤ R) (hC : 2 ≤ C) :
    (Toric.logicalX1 R C).length = 2 * (Toric.nQubits R C).toNat :=
  (toric_col R C hR hC 0 (by omega) P1.X (Or.inl rfl)).2
theorem toric_logicalX2_wt (R C : Int) (hR : 2 ≤ R) (hC : 2 ≤ C) :
    bsfWt (Toric.logicalX2 R C) = C.toNat := (toric_row R C hR hC 1 (by omega) P1.X (Or.inl rfl)).1
theorem toric_logicalX2_len (R C : Int) (hR : 2 ≤ R) (hC : 2 ≤ C) :
    (Toric.logicalX2 R C).length = 2 * (Toric.nQubits R C).toNat :=
  (toric_row R C hR hC 1 (by omega) P1.X (Or.inl rfl)).2
theorem toric_logicalZ1_wt (R C : Int) (hR : 2 ≤ R) (hC : 2 ≤ C) :
    bsfWt (Toric.logicalZ1 R C) = C.toNat := (toric_row R C hR hC 0 (by omega) P1.Z (Or.inr rfl)).1
theorem toric_logicalZ1_len (R C : Int) (hR : 2 ≤ R) (hC : 2 ≤ C) :
    (Toric.logicalZ1 R C).length = 2 * (Toric.nQubits R C).toNat :=
  (toric_row R C hR hC 0 (by omega) P1.Z (Or.inr rfl)).2
theorem toric_logicalZ2_wt (R C : Int) (hR : 2 ≤ R) (hC : 2 ≤ C) :
    bsfWt (Toric.logicalZ2 R C) = R.toNat := (toric_col R C hR hC 1 (by omega) P1.Z (Or.inr rfl)).1
theorem toric_logicalZ2_len (R C : Int) (hR : 2 ≤ R) (hC : 2 ≤ C) :
    (Toric.logicalZ2 R C).length = 2 * (Toric.nQubits R C).toNat :=
  (toric_col R C hR hC 1 (by omega) P1.Z (Or.inr rfl)).2

/-! ### colour 6.6.6 -/

theorem color_isSite_col0 (i : Nat) : Color666.isSite (i : Int) 0 = decide (i % 3 ≠ 2) := by
  unfold Color666.isSite Color666.isPlaquette
  by_cases h : i % 3 = 2
  · have : (2 : Int) - (i : Int) % 3 = 0 := by omega
    simp [h, this]
  · have : ¬ ((0 : Int) = 2 - (i : Int) % 3) := by omega
    simp [h, this]

theorem color_count_col0 (m : Nat) :
    ((List.range (3 * m + 1)).filter (fun i => decide (i % 3 ≠ 2))).length = 2 * m + 1 := by
  induction m with
  | zero => decide
  | succ k ih =>
    have e : 3 * (k + 1) + 1 = (3 * k + 1) + 1 + 1 + 1 := by omega
    rw [e, List.range_succ, List.range_succ, List.range_succ]
    simp only [List.filter_append, List.length_append, ih]
    have h1 : (3 * k + 1) % 3 ≠ 2 := by omega
    have h2 : (3 * k + 1 + 1) % 3 = 2 := by omega
    have h3 : (3 * k + 1 + 1 + 1) % 3 ≠ 2 := by omega
    simp [h2]
    omega

/-- flat index of the site `(i, 0)` -/
def colG (i : Nat) : Nat := (i * i + i + 1) / 3

theorem colG_mono : ∀ i j : Nat, i < j → colG i < colG j := by
  intro i j hij
  unfold colG
  have h : (i + 1) * (i + 1) ≤ j * j := Nat.mul_le_mul hij hij
  have e : (i + 1) * (i + 1) = i * i + 2 * i + 1 := by
    rw [Nat.add_mul, Nat.mul_add, Nat.mul_add]; omega
  rw [e] at h
  rcases Nat.eq_zero_or_pos i with rfl | hpos
  · simp at h ⊢; omega
  · omega

theorem color_aux (L : Int) (hL : 3 ≤ L) (hodd : L % 2 = 1) (op : P1) (hop : IsXZ op) :
    bsfWt (Color666.sites L op (Color666.identity L) (Color666.logicalSites L)) = L.toNat ∧
    (Color666.sites L op (Color666.identity L) (Color666.logicalSites L)).length
      = 2 * (Color666.nQubits L).toNat := by
  obtain ⟨m, rfl⟩ : ∃ m : Nat, L = 2 * (m : Int) + 1 := ⟨(L / 2).toNat, by omega⟩
  have hm : 1 ≤ m := by omega
  have hb : (Color666.bound (2 * (m : Int) + 1) + 1).toNat = 3 * m + 1 := by
    unfold Color666.bound; omega
  have hb' : Color666.bound (2 * (m : Int) + 1) = 3 * (m : Int) := by
    unfold Color666.bound; omega
  have hn : (Color666.nQubits (2 * (m : Int) + 1)).toNat = 3 * (m * m) + 3 * m + 1 := by
    unfold Color666.nQubits
    have : 3 * (2 * (m : Int) + 1) * (2 * (m : Int) + 1) + 1
        = 4 * (((3 * (m * m) + 3 * m + 1 : Nat)) : Int) := by push_cast; grind
    rw [this]; omega
  have hlist : Color666.logicalSites (2 * (m : Int) + 1)
      = ((List.range (3 * m + 1)).filter (fun i => decide (i % 3 ≠ 2))).map
          (fun (i : Nat) => ((i : Int), (0 : Int))) := by
    unfold Color666.logicalSites
    rw [hb, List.filter_map]
    congr 1
    apply List.filter_congr
    intro i _
    simp only [Function.comp]
    exact color_isSite_col0 i
  have hLn : (2 * (m : Int) + 1).toNat = 2 * m + 1 := by omega
  unfold Color666.sites Color666.identity
  rw [hlist, hn, hLn, ← color_count_col0 m]
  apply wt_sites _ op hop _ colG (List.pairwise_lt_range.filter _) colG_mono
  · intro i hi
    rw [List.mem_filter, List.mem_range] at hi
    have hi1 : i ≤ 3 * m := by omega
    have h : i * i ≤ (3 * m) * (3 * m) := Nat.mul_le_mul hi1 hi1
    have e : (3 * m) * (3 * m) = 9 * (m * m) := by rw [Nat.mul_mul_mul_comm]
    unfold colG
    omega
  · intro v i hi
    rw [List.mem_filter, List.mem_range] at hi
    have hi3 : i % 3 ≠ 2 := by simpa using hi.2
    have hib : Color666.inBounds (2 * (m : Int) + 1) (i : Int) 0 = true := by
      simp only [Color666.inBounds, Bool.and_eq_true, decide_eq_true_eq]
      rw [hb']
      omega
    have hfl : Color666.flatten (i : Int) 0 = ((colG i : Nat) : Int) := by
      unfold Color666.flatten colG
      have e : (2 * (i : Int) + 1) * (2 * (i : Int) + 1) = 4 * ((i : Int) * (i : Int)) + 4 * i + 1 := by
        grind
      rw [e]
      push_cast
      omega
    simp only [Color666.site, hib, if_true, hfl, Int.toNat_natCast, hn]

theorem color666_logicalX_wt (L : Int) (hL : 3 ≤ L) (hodd : L % 2 = 1) :
    bsfWt (Color666.logicalX L) = L.toNat := (color_aux L hL hodd P1.X (Or.inl rfl)).1
theorem color666_logicalX_len (L : Int) (hL : 3 ≤ L) (hodd : L % 2 = 1) :
    (Color666.logicalX L).length = 2 * (Color666.nQubits L).toNat :=
  (color_aux L hL hodd P1.X (Or.inl rfl)).2
theorem color666_logicalZ_wt (L : Int) (hL : 3 ≤ L) (hodd : L % 2 = 1) :
    bsfWt (Color666.logicalZ L) = L.toNat := (color_aux L hL hodd P1.Z (Or.inr rfl)).1
theorem color666_logicalZ_len (L : Int) (hL : 3 ≤ L) (hodd : L % 2 = 1) :
    (Color666.logicalZ L).length = 2 * (Color666.nQubits L).toNat :=
  (color_aux L hL hodd P1.Z (Or.inr rfl)).2

end Qec.Distance.Weights
