import QecVerif.Model.Memo
namespace Qec.Memo

variable {Arg Key Val : Type} [DecidableEq Key]

/-- every stored value is what `f` returns on every argument that maps to that key -/
def Inv (key : Arg → Key) (f : Arg → Val) (t : State Key Val) : Prop :=
  ∀ kv ∈ t, ∀ a, key a = kv.1 → kv.2 = f a

/-- the key determines everything `f` reads -/
def KeySufficient (key : Arg → Key) (f : Arg → Val) : Prop := ∀ a b, key a = key b → f a = f b

theorem find_mem {t : State Key Val} {k : Key} {v : Val} (h : find t k = some v) : (k, v) ∈ t := by
  induction t with
  | nil => simp [find] at h
  | cons kv t ih =>
    obtain ⟨k', v'⟩ := kv
    simp only [find] at h
    by_cases hk : k' = k
    · rw [if_pos hk] at h
      cases h
      subst hk
      exact List.mem_cons_self
    · rw [if_neg hk] at h
      exact List.mem_cons_of_mem _ (ih h)

omit [DecidableEq Key] in
theorem Inv.of_subset {key : Arg → Key} {f : Arg → Val} {t t' : State Key Val}
    (hsub : ∀ x ∈ t', x ∈ t) (h : Inv key f t) : Inv key f t' :=
  fun kv hkv a ha => h kv (hsub kv hkv) a ha

omit [DecidableEq Key] in
theorem Inv.cons {key : Arg → Key} {f : Arg → Val} {t : State Key Val} {kv : Key × Val}
    (hkv : ∀ a, key a = kv.1 → kv.2 = f a) (h : Inv key f t) : Inv key f (kv :: t) := by
  intro x hx a ha
  rcases List.mem_cons.mp hx with rfl | hx
  · exact hkv a ha
  · exact h x hx a ha

omit [DecidableEq Key] in
theorem Inv.nil (key : Arg → Key) (f : Arg → Val) : Inv key f ([] : State Key Val) := by
  intro x hx; cases hx

theorem erase_subset (t : State Key Val) (k : Key) : ∀ x ∈ erase t k, x ∈ t := by
  intro x hx
  exact (List.mem_filter.mp hx).1

omit [DecidableEq Key] in
theorem trim_subset (cap : Option Nat) (t : State Key Val) : ∀ x ∈ trim cap t, x ∈ t := by
  intro x hx
  cases cap with
  | none => exact hx
  | some c => exact List.mem_of_mem_take hx

theorem lookupOrCompute_spec {key : Arg → Key} {f : Arg → Val} (cap : Option Nat) {t : State Key Val}
    (hs : KeySufficient key f) (hinv : Inv key f t) (a : Arg) :
    (lookupOrCompute key f cap t a).val = f a ∧ Inv key f (lookupOrCompute key f cap t a).table := by
  unfold lookupOrCompute
  cases hf : find t (key a) with
  | some v =>
    have hm := find_mem hf
    have hv : ∀ a', key a' = key a → v = f a' := fun a' ha' => hinv _ hm a' ha'
    exact ⟨hv a rfl, Inv.cons hv (hinv.of_subset (erase_subset t _))⟩
  | none =>
    refine ⟨rfl, Inv.of_subset (trim_subset cap _) (Inv.cons ?_ hinv)⟩
    intro a' ha'
    exact hs a a' ha'.symm

theorem runHistory_spec {key : Arg → Key} {f : Arg → Val} (cap : Option Nat) (hs : KeySufficient key f) :
    ∀ (h : List Arg) (t : State Key Val), Inv key f t →
      (runHistory key f cap t h).1.map (·.1) = h.map f ∧ Inv key f (runHistory key f cap t h).2 := by
  intro h
  induction h with
  | nil => intro t ht; exact ⟨rfl, ht⟩
  | cons a rest ih =>
    intro t ht
    obtain ⟨hv, hi⟩ := lookupOrCompute_spec cap hs ht a
    obtain ⟨h1, h2⟩ := ih _ hi
    refine ⟨?_, h2⟩
    simp only [runHistory, List.map_cons, hv, h1]

theorem erase_length_lt {t : State Key Val} {k : Key} {v : Val} (h : find t k = some v) :
    (erase t k).length < t.length := by
  induction t with
  | nil => simp [find] at h
  | cons kv t ih =>
    obtain ⟨k', v'⟩ := kv
    simp only [find] at h
    by_cases hk : k' = k
    · have : (erase ((k', v') :: t) k) = erase t k := by simp [erase, hk]
      rw [this]
      have : (erase t k).length ≤ t.length := List.length_filter_le _ _
      simp only [List.length_cons]; omega
    · rw [if_neg hk] at h
      have : (erase ((k', v') :: t) k) = (k', v') :: erase t k := by simp [erase, hk]
      rw [this]
      have := ih h
      simp only [List.length_cons]; omega

theorem lookupOrCompute_length (key : Arg → Key) (f : Arg → Val) (c : Nat) (t : State Key Val) (a : Arg)
    (ht : t.length ≤ c) : (lookupOrCompute key f (some c) t a).table.length ≤ c := by
  unfold lookupOrCompute
  cases hf : find t (key a) with
  | some v =>
    have := erase_length_lt hf
    simp only [List.length_cons]; omega
  | none =>
    simp only [trim, List.length_take]
    omega

theorem runHistory_length (key : Arg → Key) (f : Arg → Val) (c : Nat) :
    ∀ (h : List Arg) (t : State Key Val), t.length ≤ c → (runHistory key f (some c) t h).2.length ≤ c := by
  intro h
  induction h with
  | nil => intro t ht; exact ht
  | cons a rest ih =>
    intro t ht
    exact ih _ (lookupOrCompute_length key f c t a ht)

end Qec.Memo
