/-
  Helper lemmas for the planar Y decoder, part 5: `_snake` — the SE cycle, the run of the `for next_index in index_it`
  loop up to its first stop, and the two-dimensional telescoping of the syndrome of a bouncing diagonal.
-/
import QecVerif.Lemmas.PlanarYTotal
namespace Qec.PlanarYL
open Qec Qec.Planar Qec.Symp Qec.PlanarCode Qec.PlanarY

/-! ### the SE cycle `cycUp` -/

theorem cycUp_length (s M : Int) (hs : 0 ≤ s) (hM : s ≤ M) : (cycUp s M).length = (2 * M + 4).toNat := by
  simp only [cycUp, List.length_append, rangeUp_length, rangeDown_length]; omega

/-- the value of the SE cycle at position `i < 2M+4`: up from `s` to M+1, down from M to −1, up from 0 to s−1 -/
def CycValU (s M : Int) (i : Nat) (v : Int) : Prop :=
  ((i : Int) ≤ M + 1 - s ∧ v = s + i) ∨ (M + 1 - s < (i : Int) ∧ (i : Int) ≤ 2 * M + 3 - s ∧ v = 2 * M + 2 - s - i) ∨
    (2 * M + 3 - s < (i : Int) ∧ v = i - (2 * M + 4 - s))

theorem cycUp_getD (s M : Int) (hs : 0 ≤ s) (hM : s ≤ M) (i : Nat) (hi : (i : Int) < 2 * M + 4) :
    CycValU s M i ((cycUp s M).getD i 0) := by
  unfold cycUp CycValU
  rw [List.getD_eq_getElem?_getD]
  by_cases h1 : (i : Int) ≤ M + 1 - s
  · rw [List.getElem?_append_left (by rw [rangeUp_length]; omega), ← List.getD_eq_getElem?_getD,
      getD_rangeUp _ _ _ (by omega)]
    omega
  · rw [List.getElem?_append_right (by rw [rangeUp_length]; omega), rangeUp_length]
    by_cases h2 : (i : Int) ≤ 2 * M + 3 - s
    · rw [List.getElem?_append_left (by rw [rangeDown_length]; omega), ← List.getD_eq_getElem?_getD,
        getD_rangeDown _ _ _ (by omega)]
      omega
    · rw [List.getElem?_append_right (by rw [rangeDown_length]; omega), rangeDown_length,
        ← List.getD_eq_getElem?_getD, getD_rangeUp _ _ _ (by omega)]
      omega

/-- the row (column) the SE snake visits at step `k` -/
def V (s M : Int) (k : Nat) : Int := cyc (cycUp s M) k

theorem V_spec (s M : Int) (hs : 0 ≤ s) (hM : s ≤ M) (k : Nat) :
    CycValU s M (k % (2 * M + 4).toNat) (V s M k) := by
  unfold V cyc
  rw [cycUp_length s M hs hM]
  apply cycUp_getD s M hs hM
  have : k % (2 * M + 4).toNat < (2 * M + 4).toNat := Nat.mod_lt _ (by omega)
  omega

theorem V_zero (s M : Int) (hs : 0 ≤ s) (hM : s ≤ M) : V s M 0 = s := by
  have h := V_spec s M hs hM 0
  rw [Nat.zero_mod] at h
  unfold CycValU at h; omega

theorem V_one (s M : Int) (hs : 0 ≤ s) (hM : s ≤ M) : V s M 1 = s + 1 := by
  have h := V_spec s M hs hM 1
  rw [Nat.mod_eq_of_lt (by omega)] at h
  unfold CycValU at h; omega

theorem V_triple (s M : Int) (hs : 0 ≤ s) (hM : s ≤ M) (k : Nat) :
    Triple M (V s M k) (V s M (k + 1)) (V s M (k + 2)) := by
  have h0 := V_spec s M hs hM k
  have h1 := V_spec s M hs hM (k + 1)
  have h2 := V_spec s M hs hM (k + 2)
  have hL : 1 < (2 * M + 4).toNat := by omega
  have hlt := Nat.mod_lt k (by omega : 0 < (2 * M + 4).toNat)
  rw [show k + 2 = (k + 1) + 1 from rfl, succ_mod (k + 1) _ hL] at h2
  rw [succ_mod k _ hL] at h1 h2
  generalize k % (2 * M + 4).toNat = i at *
  generalize V s M k = a at *
  generalize V s M (k + 1) = b at *
  generalize V s M (k + 1 + 1) = c at *
  unfold CycValU at h0 h1 h2
  unfold Triple
  by_cases e1 : i + 1 = (2 * M + 4).toNat
  · rw [if_pos e1] at h1 h2
    simp only [Nat.zero_add] at h2
    rw [if_neg (by omega)] at h2
    rcases h0 with h0 | h0 | h0 <;> rcases h1 with h1 | h1 | h1 <;> rcases h2 with h2 | h2 | h2 <;> omega
  · rw [if_neg e1] at h1 h2
    by_cases e2 : i + 1 + 1 = (2 * M + 4).toNat
    · rw [if_pos e2] at h2
      rcases h0 with h0 | h0 | h0 <;> rcases h1 with h1 | h1 | h1 <;> rcases h2 with h2 | h2 | h2 <;> omega
    · rw [if_neg e2] at h2
      rcases h0 with h0 | h0 | h0 <;> rcases h1 with h1 | h1 | h1 <;> rcases h2 with h2 | h2 | h2 <;> omega

theorem V_parity (s M : Int) (hs : 0 ≤ s) (hM : s ≤ M) (k : Nat) : (V s M k + (k : Int)) % 2 = s % 2 := by
  have h := V_spec s M hs hM k
  have hd : (k % (2 * M + 4).toNat) % 2 = k % 2 := Nat.mod_mod_of_dvd k ⟨(M + 2).toNat, by omega⟩
  generalize k % (2 * M + 4).toNat = i at *
  unfold CycValU at h
  omega

/-- the SE coordinate before step `j` (one less than the start before the first step) -/
def Uv (s M : Int) : Nat → Int
  | 0 => s - 1
  | j + 1 => V s M j

theorem Uv_triple (s M : Int) (hs : 0 ≤ s) (hM : s ≤ M) (j : Nat) :
    Triple M (Uv s M j) (Uv s M (j + 1)) (Uv s M (j + 2)) := by
  cases j with
  | zero =>
    simp only [Uv]
    rw [V_zero s M hs hM, V_one s M hs hM]
    unfold Triple; omega
  | succ j => exact V_triple s M hs hM j

/-! ### the two-dimensional telescoping -/

/-- plaquette `q` lies between the positions before and after step `j` of the diagonal `(A, B)` -/
def gT (A B : Nat → Int) (q : Int × Int) (j : Nat) : Bool :=
  decide ((q.1 = A j ∧ q.2 = B (j + 1)) ∨ (q.1 = A (j + 1) ∧ q.2 = B j))

theorem snake_step (Mr Mc a b c a' b' c' : Int) (h : Triple Mr a b c) (h' : Triple Mc a' b' c') (q : Int × Int)
    (q0 : 0 ≤ q.1) (q1 : q.1 ≤ Mr) (q2 : 0 ≤ q.2) (q3 : q.2 ≤ Mc) :
    adjG Mr Mc q (b, b') =
      (decide ((q.1 = a ∧ q.2 = b') ∨ (q.1 = b ∧ q.2 = a')) ^^ decide ((q.1 = b ∧ q.2 = c') ∨ (q.1 = c ∧ q.2 = b'))) := by
  obtain ⟨qr, qc⟩ := q
  simp only at q0 q1 q2 q3
  unfold adjG
  simp only
  rw [xor_decide]
  apply decide_eq_decide.mpr
  unfold Triple at h h'
  rcases h with h | h | ⟨h1, h2, h | h⟩ <;> rcases h' with h' | h' | ⟨h1', h2', h' | h'⟩ <;> omega

theorem snake_telescope (Mr Mc : Int) (A B : Nat → Int) (hA : ∀ j, Triple Mr (A j) (A (j + 1)) (A (j + 2)))
    (hB : ∀ j, Triple Mc (B j) (B (j + 1)) (B (j + 2))) (q : Int × Int)
    (q0 : 0 ≤ q.1) (q1 : q.1 ≤ Mr) (q2 : 0 ≤ q.2) (q3 : q.2 ≤ Mc) (K : Nat) :
    xorSum ((List.range K).map fun (j : Nat) => (A (j + 1), B (j + 1))) (adjG Mr Mc q) =
      (gT A B q 0 ^^ gT A B q K) := by
  rw [xorSum_map]
  exact xorSum_range_telescope K _ (gT A B q) (fun j _ => snake_step Mr Mc _ _ _ _ _ _ (hA j) (hB j) q q0 q1 q2 q3)

/-! ### the run of `snakeGo` up to its first stop (`skip_first = False`) -/

section Go
variable (start : Int × Int) (se : Bool) (rows cols : List Int) (maxCount : Nat)

def posAt (k : Nat) : Int × Int := (cyc rows k, cyc cols k)
def curAt (k : Nat) : Option (Int × Int) := if k = 0 then none else some (posAt rows cols (k - 1))
def prevAt (k : Nat) : Option (Int × Int) := if k < 2 then none else some (posAt rows cols (k - 2))
def backOf (n : Int × Int) : Int × Int := if se then (n.1 - 1, n.2 - 1) else (n.1 + 1, n.2 + 1)
def loopAt (k : Nat) : Bool :=
  posAt rows cols k == start && curAt rows cols k == some (backOf se (posAt rows cols k))
def cornerAt (k : Nat) : Bool := prevAt rows cols k == some (posAt rows cols k)
def stopAt (k : Nat) : Bool := loopAt start se rows cols k || cornerAt rows cols k

theorem snakeGo_unfold (fuel k : Nat) (prev cur : Option (Int × Int)) (acc : List (Int × Int)) :
    snakeGo start se false rows cols maxCount (fuel + 1) k prev cur acc =
      if posAt rows cols k == start && cur == some (backOf se (posAt rows cols k)) then .ok (acc, true)
      else if prev == some (posAt rows cols k) then .ok (acc, false)
      else if k + 1 > maxCount then .error "QecsimError"
      else snakeGo start se false rows cols maxCount fuel (k + 1) cur (some (posAt rows cols k))
        (posAt rows cols k :: acc) := by
  rw [snakeGo]
  simp only [posAt, backOf, Bool.false_and, Bool.false_eq_true, if_false]
  rfl

theorem snakeGo_run (K : Nat) (hK : K ≤ maxCount) (hno : ∀ k, k < K → stopAt start se rows cols k = false)
    (hstop : stopAt start se rows cols K = true) :
    ∀ (d j fuel : Nat) (acc : List (Int × Int)), j + d = K → d < fuel →
      snakeGo start se false rows cols maxCount fuel j (prevAt rows cols j) (curAt rows cols j) acc =
        .ok (((List.range' j d).map (posAt rows cols)).reverse ++ acc, loopAt start se rows cols K) := by
  intro d
  induction d with
  | zero =>
    intro j fuel acc hj hf
    have hjK : j = K := by omega
    subst hjK
    obtain ⟨f, rfl⟩ : ∃ f, fuel = f + 1 := ⟨fuel - 1, by omega⟩
    rw [snakeGo_unfold]
    simp only [List.range'_zero, List.map_nil, List.reverse_nil, List.nil_append]
    have hl : (posAt rows cols j == start && curAt rows cols j == some (backOf se (posAt rows cols j))) =
        loopAt start se rows cols j := rfl
    have hc : (prevAt rows cols j == some (posAt rows cols j)) = cornerAt rows cols j := rfl
    rw [hl, hc]
    unfold stopAt at hstop
    cases h1 : loopAt start se rows cols j with
    | true => simp
    | false =>
      rw [h1, Bool.false_or] at hstop
      simp [hstop]
  | succ d ih =>
    intro j fuel acc hj hf
    obtain ⟨f, rfl⟩ : ∃ f, fuel = f + 1 := ⟨fuel - 1, by omega⟩
    rw [snakeGo_unfold]
    have hl : (posAt rows cols j == start && curAt rows cols j == some (backOf se (posAt rows cols j))) =
        loopAt start se rows cols j := rfl
    have hc : (prevAt rows cols j == some (posAt rows cols j)) = cornerAt rows cols j := rfl
    rw [hl, hc]
    have hns := hno j (by omega)
    unfold stopAt at hns
    rw [Bool.or_eq_false_iff] at hns
    rw [hns.1, hns.2]
    simp only [Bool.false_eq_true, if_false]
    rw [if_neg (by omega)]
    have e1 : curAt rows cols j = prevAt rows cols (j + 1) := by
      unfold curAt prevAt
      by_cases h0 : j = 0
      · subst h0; rfl
      · rw [if_neg h0, if_neg (by omega)]; rfl
    have e2 : some (posAt rows cols j) = curAt rows cols (j + 1) := by
      unfold curAt
      rw [if_neg (by omega)]; rfl
    rw [e1, e2, ih (j + 1) f _ (by omega) (by omega)]
    rw [List.range'_succ, List.map_cons, List.reverse_cons, List.append_assoc]
    rfl

theorem snakeGo_ok (K : Nat) (hK : K ≤ maxCount) (hno : ∀ k, k < K → stopAt start se rows cols k = false)
    (hstop : stopAt start se rows cols K = true) :
    snakeGo start se false rows cols maxCount (maxCount + 1) 0 none none [] =
      .ok (((List.range K).map (posAt rows cols)).reverse, loopAt start se rows cols K) := by
  have := snakeGo_run start se rows cols maxCount K hK hno hstop K 0 (maxCount + 1) [] (by omega) (by omega)
  rw [List.append_nil, ← List.range_eq_range'] at this
  exact this

end Go

/-- the least stop: a Boolean predicate true at `n` has a first true index -/
theorem first_true (p : Nat → Bool) : ∀ n, p n = true → ∃ m, m ≤ n ∧ p m = true ∧ ∀ k, k < m → p k = false := by
  intro n
  induction n using Nat.strongRecOn with
  | _ n ih =>
    intro hn
    by_cases h : ∃ k, k < n ∧ p k = true
    · rcases h with ⟨k, hk, hpk⟩
      rcases ih k hk hpk with ⟨m, hm, hpm, hmin⟩
      exact ⟨m, by omega, hpm, hmin⟩
    · refine ⟨n, Nat.le_refl _, hn, ?_⟩
      intro k hk
      cases hp : p k with
      | false => rfl
      | true => exact absurd ⟨k, hk, hp⟩ h

/-- `snakeDir` with `skip_first = False`: given a stop within the guard, the run ends at the first stop `K`, visits
    the positions `0 … K−1` and reports `looped` iff the stop at `K` is a loop -/
theorem snakeDir_ok (R C : Int) (start : Int × Int) (se : Bool) (n : Nat)
    (hn : n ≤ (nQubits R C).toNat * 100)
    (hstop : stopAt start se (if se then cycUp start.1 (maxRow R) else cycDown start.1 (maxRow R))
      (if se then cycUp start.2 (maxCol C) else cycDown start.2 (maxCol C)) n = true) :
    ∃ K, K ≤ n ∧
      stopAt start se (if se then cycUp start.1 (maxRow R) else cycDown start.1 (maxRow R))
        (if se then cycUp start.2 (maxCol C) else cycDown start.2 (maxCol C)) K = true ∧
      (∀ k, k < K → stopAt start se (if se then cycUp start.1 (maxRow R) else cycDown start.1 (maxRow R))
        (if se then cycUp start.2 (maxCol C) else cycDown start.2 (maxCol C)) k = false) ∧
      snakeDir R C start se false =
        .ok ((List.range K).map (posAt (if se then cycUp start.1 (maxRow R) else cycDown start.1 (maxRow R))
          (if se then cycUp start.2 (maxCol C) else cycDown start.2 (maxCol C))),
          loopAt start se (if se then cycUp start.1 (maxRow R) else cycDown start.1 (maxRow R))
            (if se then cycUp start.2 (maxCol C) else cycDown start.2 (maxCol C)) K) := by
  rcases first_true _ n hstop with ⟨K, hKn, hK, hmin⟩
  refine ⟨K, hKn, hK, hmin, ?_⟩
  unfold snakeDir
  simp only
  rw [snakeGo_ok start se _ _ _ K (by omega) hmin hK]
  simp only [List.reverse_reverse]

/-! ### the run of `snakeGo` for any `skip_first` (result list not tracked) -/

section GoAny
variable (start : Int × Int) (se skip : Bool) (rows cols : List Int) (maxCount : Nat)

theorem snakeGo_unfold_any (fuel k : Nat) (prev cur : Option (Int × Int)) (acc : List (Int × Int)) :
    snakeGo start se skip rows cols maxCount (fuel + 1) k prev cur acc =
      if posAt rows cols k == start && cur == some (backOf se (posAt rows cols k)) then .ok (acc, true)
      else if prev == some (posAt rows cols k) then .ok (acc, false)
      else if k + 1 > maxCount then .error "QecsimError"
      else snakeGo start se skip rows cols maxCount fuel (k + 1) cur (some (posAt rows cols k))
        (if skip && cur.isNone then acc else posAt rows cols k :: acc) := by
  rw [snakeGo]
  simp only [posAt, backOf]
  rfl

theorem snakeGo_run_any (K : Nat) (hK : K ≤ maxCount) (hno : ∀ k, k < K → stopAt start se rows cols k = false)
    (hstop : stopAt start se rows cols K = true) :
    ∀ (d j fuel : Nat) (acc : List (Int × Int)), j + d = K → d < fuel →
      ∃ acc', snakeGo start se skip rows cols maxCount fuel j (prevAt rows cols j) (curAt rows cols j) acc =
        .ok (acc', loopAt start se rows cols K) := by
  intro d
  induction d with
  | zero =>
    intro j fuel acc hj hf
    have hjK : j = K := by omega
    subst hjK
    obtain ⟨f, rfl⟩ : ∃ f, fuel = f + 1 := ⟨fuel - 1, by omega⟩
    rw [snakeGo_unfold_any]
    have hl : (posAt rows cols j == start && curAt rows cols j == some (backOf se (posAt rows cols j))) =
        loopAt start se rows cols j := rfl
    have hc : (prevAt rows cols j == some (posAt rows cols j)) = cornerAt rows cols j := rfl
    rw [hl, hc]
    unfold stopAt at hstop
    cases h1 : loopAt start se rows cols j with
    | true => exact ⟨acc, by simp⟩
    | false =>
      rw [h1, Bool.false_or] at hstop
      exact ⟨acc, by simp [hstop]⟩
  | succ d ih =>
    intro j fuel acc hj hf
    obtain ⟨f, rfl⟩ : ∃ f, fuel = f + 1 := ⟨fuel - 1, by omega⟩
    rw [snakeGo_unfold_any]
    have hl : (posAt rows cols j == start && curAt rows cols j == some (backOf se (posAt rows cols j))) =
        loopAt start se rows cols j := rfl
    have hc : (prevAt rows cols j == some (posAt rows cols j)) = cornerAt rows cols j := rfl
    rw [hl, hc]
    have hns := hno j (by omega)
    unfold stopAt at hns
    rw [Bool.or_eq_false_iff] at hns
    rw [hns.1, hns.2]
    simp only [Bool.false_eq_true, if_false]
    rw [if_neg (by omega)]
    have e1 : curAt rows cols j = prevAt rows cols (j + 1) := by
      unfold curAt prevAt
      by_cases h0 : j = 0
      · subst h0; rfl
      · rw [if_neg h0, if_neg (by omega)]; rfl
    have e2 : some (posAt rows cols j) = curAt rows cols (j + 1) := by
      unfold curAt
      rw [if_neg (by omega)]; rfl
    rw [e2]
    conv => enter [1, acc', 1, 9]; rw [e1]
    exact ih (j + 1) f _ (by omega) (by omega)

end GoAny

/-- `snakeDir` for any `skip_first`: a stop within the guard ⇒ the call returns -/
theorem snakeDir_returns (R C : Int) (start : Int × Int) (se skip : Bool) (n : Nat)
    (hn : n ≤ (nQubits R C).toNat * 100)
    (hstop : stopAt start se (if se then cycUp start.1 (maxRow R) else cycDown start.1 (maxRow R))
      (if se then cycUp start.2 (maxCol C) else cycDown start.2 (maxCol C)) n = true) :
    ∃ x, snakeDir R C start se skip = .ok x := by
  rcases first_true _ n hstop with ⟨K, hKn, hK, hmin⟩
  rcases snakeGo_run_any start se skip _ _ ((nQubits R C).toNat * 100) K (by omega) hmin hK K 0
    ((nQubits R C).toNat * 100 + 1) [] (by omega) (by omega) with ⟨acc', h⟩
  unfold snakeDir
  simp only
  have h' : snakeGo start se skip (if se then cycUp start.1 (maxRow R) else cycDown start.1 (maxRow R))
      (if se then cycUp start.2 (maxCol C) else cycDown start.2 (maxCol C)) ((nQubits R C).toNat * 100)
      ((nQubits R C).toNat * 100 + 1) 0 none none [] = .ok (acc', _) := h
  rw [h']
  exact ⟨_, rfl⟩

end Qec.PlanarYL
