/-
  Helper lemmas for Props/C14/Blossom.lean: the bridge C13 (Blossom V path) → C14.

  * `bridge_generic_blossom`: the analogue of `MwpmBridge.bridge_generic` with `mwpm_blossom5` in place of
    `mwpm_networkx`: for an encoded decoder graph whose `Nat` weights are below `infty/10`, under `ClibContract`, for
    every listing of the nodes, the wrapper raises nothing and its answer decodes to a minimum-weight perfect matching
    of the decoder graph;
  * the weights the planar / toric MWPM decoders attach are at most `R + C`.
-/
import QecVerif.Lemmas.MwpmBridge
import QecVerif.Lemmas.Blossom5
namespace Qec.BlossomBridge
open Qec Qec.Dec Qec.Matching Qec.TJoin Qec.MwpmBridge Qec.Blossom5

section generic
variable {V : Type} [DecidableEq V]
variable {nodes : List V} {W : List (V × V × Nat)} {d : V → V → Nat} {enc : V → Nat} {dec : Nat → V}

omit [DecidableEq V] in
/-- every weight stored in the built `SimpleGraph` is one of the `Nat` weights of the insertion sequence -/
theorem weight_of_build (e : Edge × Rat) (he : e ∈ build (graphOps enc W)) : ∃ x ∈ W, e.2 = ((x.2.2 : Nat) : Rat) := by
  have h1 : lastWrite (graphOps enc W) e.1 = some e.2 := ((repr_build _).2 e.1 e.2).mp he
  rcases fold_some _ _ _ _ h1 with h2 | ⟨o, ho, _, hw⟩
  · cases h2
  · obtain ⟨x, hx, rfl⟩ := mem_graphOps ho
    exact ⟨x, hx, hw.symm⟩

omit [DecidableEq V] in
/-- **`weight_to_int_fn` is the identity on the weights of the built graph** when they are below `infty/10` -/
theorem exact_of_bound (infty : Rat) (prod : Rat → Rat) (hbound : ∀ x ∈ W, ((x.2.2 : Nat) : Rat) < infty / 10) :
    ∀ e ∈ build (graphOps enc W), ∃ z : Int,
      weightToInt infty true ((build (graphOps enc W)).map (·.2)) e.2 (prod e.2) = some z ∧ (z : Rat) = e.2 := by
  intro e he
  apply weightToInt_exact
  · intro w hw
    obtain ⟨e', he', rfl⟩ := List.mem_map.mp hw
    obtain ⟨x, _, hx⟩ := weight_of_build e' he'
    rw [hx]; exact Rat.den_natCast _
  · intro w hw
    obtain ⟨e', he', rfl⟩ := List.mem_map.mp hw
    obtain ⟨x, hx, hxw⟩ := weight_of_build e' he'
    have h1 := hbound x hx
    have h2 : (0 : Rat) ≤ ((x.2.2 : Nat) : Rat) := Nat.cast_nonneg _
    rw [hxw]
    constructor <;> linarith
  · exact List.mem_map.mpr ⟨e, he, rfl⟩

/-- **the bridge for the Blossom V backend, generic form** -/
theorem bridge_generic_blossom (clib : Clib) (hc : ClibContract clib) (infty : Rat) (prod : Rat → Rat)
    (listing : List Node) (G : GraphEnc nodes W d enc dec)
    (hlisting : listing.Perm (nodesOf (build (graphOps enc W))))
    (hbound : ∀ x ∈ W, ((x.2.2 : Nat) : Rat) < infty / 10)
    (hex : ∃ m', isPerfectMatchingOfGraph nodes (edgesOf W) m' = true) :
    ∃ M, mwpmBlossom5 infty true prod listing clib (build (graphOps enc W)) = some M ∧
      isPerfectMatchingOfGraph nodes (edgesOf W) (decPairs dec M) = true ∧
      ∀ m', isPerfectMatchingOfGraph nodes (edgesOf W) m' = true → cost d (decPairs dec M) ≤ cost d m' := by
  obtain ⟨m0, hm0⟩ := hex
  have hpm0 := (G.isPM_iff m0 (pm_ends _ _ _ hm0)).mp hm0
  have hinv := C13.addEdge_no_reversed_dupes (graphOps enc W)
  have hexact := exact_of_bound (enc := enc) infty prod hbound
  obtain ⟨M, hM1, hM, hmin⟩ := mwpmBlossom5_min_weight_perfect clib hc infty true prod listing
    (build (graphOps enc W)) hinv.1
    (fun a b hab h1 => hinv.2.1 a b hab h1) hlisting hexact ⟨_, hpm0⟩
  refine ⟨M, hM1, ?_⟩
  obtain ⟨hed, hends⟩ := G.enc_dec M (fun x hx => hM.2.subset hx)
  have hpm : isPerfectMatchingOfGraph nodes (edgesOf W) (decPairs dec M) = true := by
    rw [G.isPM_iff _ hends, hed]; exact hM
  refine ⟨hpm, ?_⟩
  intro m' hm'
  have hends' := pm_ends _ _ _ hm'
  have hpm' := (G.isPM_iff m' hends').mp hm'
  have hle := hmin _ hpm'
  unfold matchingWeight at hle
  have hedge : ∀ (m : List (V × V)), isPerfectMatchingOfGraph nodes (edgesOf W) m = true →
      ∀ p ∈ m, isEdge (edgesOf W) p.1 p.2 = true := by
    intro m h p hp
    unfold isPerfectMatchingOfGraph at h
    simp only [Bool.and_eq_true, List.all_eq_true] at h
    exact h.1.1 p hp
  rw [G.weight_eq m' hends' (hedge m' hm')] at hle
  have := G.weight_eq (decPairs dec M) hends (hedge _ hpm)
  rw [hed] at this
  rw [this] at hle
  exact Nat.cast_le.mp hle

end generic

/-! ### the decoders' weights are at most `R + C` -/

open Qec.ChainPlanar in
/-- planar: the distances `PlanarMWPMDecoder.decode` writes into its graph are at most `R + C` -/
theorem planar_weight_le (R C : Int) (t : Bool) (ds : List Idx2)
    (hds : ∀ a ∈ ds, PlanarL.Real R C a ∧ Planar.isPrimal a.1 a.2 = t) :
    ∀ e ∈ planarWeightedEdges R C t ds, ((e.2.2 : Nat) : Int) ≤ R + C := by
  have hrho : ∀ a ∈ ds, rho R C t a = true := by
    intro a ha
    obtain ⟨⟨h1, h2⟩, h3⟩ := hds a ha
    unfold rho
    rw [h1, h2, h3]; simp
  intro e he
  rcases (mem_planarWeightedEdges R C t ds e).mp he with ⟨a, ha, rfl⟩ | ⟨p, hp, rfl⟩ | ⟨p, hp, rfl⟩
  · simp only
    rw [distT_vp R C t a (hrho a ha)]
    obtain ⟨_, h2, _, _⟩ := rho_parity R C t a (hrho a ha)
    unfold bdP
    cases t <;> simp only [if_true, Bool.false_eq_true, if_false] <;> omega
  · simp only
    have hm := mem_pairsOf ds p.1 p.2 hp
    have h1 := distT_le_dist2 R C t p.1 p.2 (hrho _ hm.1) (hrho _ hm.2)
    obtain ⟨_, a2, _, _⟩ := rho_parity R C t p.1 (hrho _ hm.1)
    obtain ⟨_, b2, _, _⟩ := rho_parity R C t p.2 (hrho _ hm.2)
    unfold dist2 at h1
    omega
  · simp only
    obtain ⟨a, ha⟩ : ∃ a, a ∈ ds := by
      cases ds with
      | nil =>
        exfalso
        simp [planarVNodes, dedup, pairsOf] at hp
      | cons a _ => exact ⟨a, List.mem_cons_self⟩
    obtain ⟨_, h2, _, _⟩ := rho_parity R C t a (hrho a ha)
    omega

/-- toric: the distances `ToricMWPMDecoder.decode` writes into its graphs are at most `R + C` -/
theorem toric_weight_le (R C : Int) (hR : 0 < R) (hC : 0 < C) (ds : List Toric.Idx) :
    ∀ e ∈ toricWeightedEdges R C ds, ((e.2.2 : Nat) : Int) ≤ R + C := by
  intro e he
  unfold toricWeightedEdges at he
  obtain ⟨p, _, rfl⟩ := List.mem_map.mp he
  simp only
  by_cases h : p.1.1 % 2 = p.2.1 % 2
  · rw [Toric.distance_eq_ok R C p.1 p.2 h]
    simp only
    have h1 := Toric.step_natAbs_le hR p.1.2.1 p.2.2.1
    have h2 := Toric.step_natAbs_le hC p.1.2.2 p.2.2.2
    omega
  · rw [Toric.distance_eq_error R C p.1 p.2 h]
    simp only
    omega

/-- `R + C < infty/10` puts every such weight below `infty/10` -/
theorem bound_of_le {W : List (α × α × Nat)} (R C : Int) (infty : Rat) (hinf : ((R + C : Int) : Rat) < infty / 10)
    (h : ∀ e ∈ W, ((e.2.2 : Nat) : Int) ≤ R + C) : ∀ x ∈ W, ((x.2.2 : Nat) : Rat) < infty / 10 := by
  intro x hx
  have h1 : (((x.2.2 : Nat) : Int) : Rat) ≤ ((R + C : Int) : Rat) := Int.cast_le.mpr (h x hx)
  rw [Int.cast_natCast] at h1
  exact lt_of_le_of_lt h1 hinf

end Qec.BlossomBridge
