/-
  Helper lemmas for Props/C02/Smwpm.lean — the two recovery stages of the symmetry-matching decoder as lists of
  fused pairs: `splitCluster` / `clusterPairs` / `nodesOfCluster` of an even-length cluster (stage 1 and the cluster
  nodes it leaves), `matchPairs` / `allMatchPairs` under a perfect matching of the cluster graph (stage 2).
  Everything is counted through `cntS l p` = number of members of `l` whose space projection is the plaquette `p`.
-/
import QecVerif.Lemmas.Smwpm
import QecVerif.Lemmas.Decoders
namespace Qec.SmwpmL
open Qec Qec.Smwpm Qec.Dec

/-- members of `l` at the plaquette `p` (any time) -/
def cntS (l : List TIdx) (p : Idx2) : Nat := l.countP fun k => decide (sp k = p)

theorem cntS_nil (p : Idx2) : cntS [] p = 0 := rfl
theorem cntS_append (l l' : List TIdx) (p : Idx2) : cntS (l ++ l') p = cntS l p + cntS l' p := by
  simp [cntS, List.countP_append]
theorem cntS_cons (a : TIdx) (l : List TIdx) (p : Idx2) :
    cntS (a :: l) p = (if sp a = p then 1 else 0) + cntS l p := by
  unfold cntS; rw [List.countP_cons]; by_cases h : sp a = p <;> simp [h] <;> omega

/-- the Y-defect as a list -/
def ydl : Option (TIdx × TIdx) → List TIdx
  | none => []
  | some d => [d.1, d.2]

theorem countP_split {α : Type} (l : List α) (q r : α → Bool) :
    (l.filter q).countP r + (l.filter fun x => !q x).countP r = l.countP r := by
  induction l with
  | nil => rfl
  | cons a l ih =>
    rw [List.filter_cons, List.filter_cons, List.countP_cons]
    by_cases hq : q a = true
    · simp only [hq, if_true, Bool.not_true, Bool.false_eq_true, if_false, List.countP_cons]; omega
    · simp only [hq, if_false, Bool.not_eq_true] at *
      simp only [hq, Bool.not_false, if_true, List.countP_cons, Bool.false_eq_true, if_false]; omega

theorem length_split {α : Type} (l : List α) (q : α → Bool) :
    (l.filter q).length + (l.filter fun x => !q x).length = l.length := by
  have := countP_split l q (fun _ => true)
  simpa [List.countP_true] using this

theorem ends_pairUp : ∀ (l : List TIdx), l.length % 2 = 0 → ends (Smwpm.pairUp l) = l
  | [], _ => rfl
  | [_], h => by simp at h
  | a :: b :: rest, h => by
    have hr : rest.length % 2 = 0 := by simp only [List.length_cons] at h; omega
    have := ends_pairUp rest hr
    simp only [Smwpm.pairUp, ends, List.flatMap_cons] at this ⊢
    rw [this]; rfl

theorem mem_pairUp : ∀ (l : List TIdx) (x : TIdx × TIdx), x ∈ Smwpm.pairUp l → x.1 ∈ l ∧ x.2 ∈ l
  | [], x, h => by simp [Smwpm.pairUp] at h
  | [_], x, h => by simp [Smwpm.pairUp] at h
  | a :: b :: rest, x, h => by
    simp only [Smwpm.pairUp, List.mem_cons] at h
    rcases h with rfl | h
    · simp
    · have := mem_pairUp rest x h
      exact ⟨List.mem_cons_of_mem _ (List.mem_cons_of_mem _ this.1),
        List.mem_cons_of_mem _ (List.mem_cons_of_mem _ this.2)⟩

/-- `_cluster_to_paths_and_defect` on a cluster of even length never raises; the X path, the Z path and the
    Y-defect partition the cluster -/
theorem split_spec (cl : List TIdx) (hev : cl.length % 2 = 0) :
    ∃ xs zs yd, splitCluster cl = .ok (xs, zs, yd) ∧ xs.length % 2 = 0 ∧ zs.length % 2 = 0 ∧
      (∀ k ∈ xs, isX k = true ∧ k ∈ cl) ∧ (∀ k ∈ zs, isX k = false ∧ k ∈ cl) ∧
      (∀ d, yd = some d → isX d.1 = true ∧ isX d.2 = false ∧ d.1 ∈ cl ∧ d.2 ∈ cl) ∧
      (∀ p, cntS xs p + cntS zs p + cntS (ydl yd) p = cntS cl p) := by
  have hlen := length_split cl isX
  have hcnt : ∀ p, cntS (cl.filter isX) p + cntS (cl.filter fun i => !isX i) p = cntS cl p :=
    fun p => countP_split cl isX _
  have hX : ∀ k ∈ cl.filter isX, isX k = true ∧ k ∈ cl := fun k hk => by
    rw [List.mem_filter] at hk; exact ⟨hk.2, hk.1⟩
  have hZ : ∀ k ∈ cl.filter (fun i => !isX i), isX k = false ∧ k ∈ cl := fun k hk => by
    rw [List.mem_filter] at hk; exact ⟨by simpa using hk.2, hk.1⟩
  unfold splitCluster
  simp only
  have hpar : ¬ ((cl.filter isX).length % 2 ≠ (cl.filter fun i => !isX i).length % 2) := by omega
  rw [if_neg hpar]
  by_cases hodd : (cl.filter isX).length % 2 = 1
  · rw [if_pos hodd]
    have hoddz : (cl.filter fun i => !isX i).length % 2 = 1 := by omega
    cases hx : (cl.filter isX).getLast? with
    | none =>
      rw [List.getLast?_eq_none_iff] at hx; rw [hx] at hodd; simp at hodd
    | some dx =>
      cases hz : (cl.filter fun i => !isX i).getLast? with
      | none =>
        rw [List.getLast?_eq_none_iff] at hz; rw [hz] at hoddz; simp at hoddz
      | some dz =>
        have ex : (cl.filter isX).dropLast ++ [dx] = cl.filter isX := by
          obtain ⟨ys, hys⟩ := List.getLast?_eq_some_iff.mp hx
          rw [hys, List.dropLast_concat]
        have ez : (cl.filter fun i => !isX i).dropLast ++ [dz] = cl.filter fun i => !isX i := by
          obtain ⟨ys, hys⟩ := List.getLast?_eq_some_iff.mp hz
          rw [hys, List.dropLast_concat]
        have hdx : dx ∈ cl.filter isX := by rw [← ex]; simp
        have hdz : dz ∈ cl.filter fun i => !isX i := by rw [← ez]; simp
        refine ⟨_, _, _, rfl, ?_, ?_, ?_, ?_, ?_, ?_⟩
        · rw [List.length_dropLast]; omega
        · rw [List.length_dropLast]; omega
        · intro k hk; exact hX k (List.dropLast_subset _ hk)
        · intro k hk; exact hZ k (List.dropLast_subset _ hk)
        · intro d hd
          have : d = (dx, dz) := (Option.some.inj hd).symm
          rw [this]
          exact ⟨(hX dx hdx).1, (hZ dz hdz).1, (hX dx hdx).2, (hZ dz hdz).2⟩
        · intro p
          have := hcnt p
          rw [← ex, ← ez, cntS_append, cntS_append] at this
          simp only [ydl]
          have e2 : cntS [dx, dz] p = cntS [dx] p + cntS [dz] p := by
            have : [dx, dz] = [dx] ++ [dz] := rfl
            rw [this, cntS_append]
          rw [e2]; omega
  · rw [if_neg hodd]
    refine ⟨_, _, _, rfl, by omega, by omega, hX, hZ, ?_, ?_⟩
    · intro d hd; cases hd
    · intro p; simp only [ydl, cntS_nil]; have := hcnt p; omega

/-! ### stage 1 (`_recovery`) and the cluster nodes it leaves -/

/-- weight of a cluster node at the plaquette `p`: its X index and its Z index (the extra node has none) -/
def wS (n : ClNode) (p : Idx2) : Nat := if n.kind = .extra then 0 else cntS [n.x, n.z] p

def sumW (ns : List ClNode) (p : Idx2) : Nat := (ns.map fun n => wS n p).sum

theorem sumW_append (a b : List ClNode) (p : Idx2) : sumW (a ++ b) p = sumW a p + sumW b p := by
  simp [sumW, List.map_append, List.sum_append]

theorem nDefective_append (a b : List ClNode) : nDefective (a ++ b) = nDefective a + nDefective b := by
  simp [nDefective, List.countP_append]

/-- what is known about a cluster node made from clusters whose members are `M` -/
def NodeOK (M : List TIdx) (n : ClNode) : Prop :=
  (n.kind = .defective ∨ n.kind = .neutral) ∧ isX n.x = true ∧ isX n.z = false ∧ n.x ∈ M ∧ n.z ∈ M

def PairOK (M : List TIdx) (x : TIdx × TIdx) : Prop := isX x.1 = isX x.2 ∧ x.1 ∈ M ∧ x.2 ∈ M

theorem cluster_spec (cl : List TIdx) (hev : cl.length % 2 = 0) :
    ∃ ps ns yd, clusterPairs cl = .ok ps ∧ nodesOfCluster cl = .ok ns ∧
      (∀ x ∈ ps, PairOK cl x) ∧ (∀ n ∈ ns, NodeOK cl n) ∧
      (∀ p, cntS (ends ps) p + cntS yd p = cntS cl p) ∧
      (∀ p, sumW ns p % 2 = cntS yd p % 2) ∧ (nDefective ns = 0 → yd = []) := by
  obtain ⟨xs, zs, yd, hs, hxe, hze, hX, hZ, hD, hc⟩ := split_spec cl hev
  have hps : clusterPairs cl = .ok (Smwpm.pairUp xs ++ Smwpm.pairUp zs) := by
    unfold clusterPairs; rw [hs]
  have hpok : ∀ x ∈ Smwpm.pairUp xs ++ Smwpm.pairUp zs, PairOK cl x := by
    intro x hx
    rcases List.mem_append.mp hx with h | h
    · have := mem_pairUp xs x h
      exact ⟨by rw [(hX _ this.1).1, (hX _ this.2).1], (hX _ this.1).2, (hX _ this.2).2⟩
    · have := mem_pairUp zs x h
      exact ⟨by rw [(hZ _ this.1).1, (hZ _ this.2).1], (hZ _ this.1).2, (hZ _ this.2).2⟩
  have hcnt : ∀ p, cntS (ends (Smwpm.pairUp xs ++ Smwpm.pairUp zs)) p + cntS (ydl yd) p = cntS cl p := by
    intro p
    rw [ends_append, ends_pairUp xs hxe, ends_pairUp zs hze, cntS_append]
    exact hc p
  cases yd with
  | some d =>
    refine ⟨_, [⟨.defective, d.1, d.2⟩], ydl (some d), hps, ?_, hpok, ?_, hcnt, ?_, ?_⟩
    · unfold nodesOfCluster; rw [hs]
    · intro n hn
      rw [List.mem_singleton] at hn; rw [hn]
      obtain ⟨h1, h2, h3, h4⟩ := hD d rfl
      exact ⟨Or.inl rfl, h1, h2, h3, h4⟩
    · intro p; simp [sumW, wS, ydl]
    · intro h; simp [nDefective] at h
  | none =>
    cases xs with
    | nil =>
      refine ⟨_, [], [], hps, ?_, hpok, ?_, hcnt, ?_, ?_⟩
      · unfold nodesOfCluster; rw [hs]; cases zs <;> rfl
      · intro n hn; simp at hn
      · intro p; rfl
      · intro _; rfl
    | cons x0 xs' =>
      cases zs with
      | nil =>
        refine ⟨_, [], [], hps, ?_, hpok, ?_, hcnt, ?_, ?_⟩
        · unfold nodesOfCluster; rw [hs]
        · intro n hn; simp at hn
        · intro p; rfl
        · intro _; rfl
      | cons z0 zs' =>
        refine ⟨_, [⟨.neutral, x0, z0⟩, ⟨.neutral, x0, z0⟩], [], hps, ?_, hpok, ?_, hcnt, ?_, ?_⟩
        · unfold nodesOfCluster; rw [hs]
        · intro n hn
          have : n = ⟨.neutral, x0, z0⟩ := by simpa using hn
          rw [this]
          exact ⟨Or.inr rfl, (hX x0 (by simp)).1, (hZ z0 (by simp)).1, (hX x0 (by simp)).2, (hZ z0 (by simp)).2⟩
        · intro p; simp [sumW, cntS_nil]; omega
        · intro _; rfl

theorem clusters_spec (cls : List (List TIdx)) (hev : ∀ cl ∈ cls, cl.length % 2 = 0) :
    ∃ ps ns yd, allClusterPairs cls = .ok ps ∧ realNodes cls = .ok ns ∧
      (∀ x ∈ ps, PairOK cls.flatten x) ∧ (∀ n ∈ ns, NodeOK cls.flatten n) ∧
      (∀ p, cntS (ends ps) p + cntS yd p = cntS cls.flatten p) ∧
      (∀ p, sumW ns p % 2 = cntS yd p % 2) ∧ (nDefective ns = 0 → yd = []) := by
  induction cls with
  | nil =>
    exact ⟨[], [], [], rfl, rfl, by simp, by simp, fun p => rfl, fun p => rfl, fun _ => rfl⟩
  | cons cl cls ih =>
    obtain ⟨ps1, ns1, yd1, h1, h2, h3, h4, h5, h6, h7⟩ := cluster_spec cl (hev cl (by simp))
    obtain ⟨ps2, ns2, yd2, g1, g2, g3, g4, g5, g6, g7⟩ := ih (fun c hc => hev c (by simp [hc]))
    refine ⟨ps1 ++ ps2, ns1 ++ ns2, yd1 ++ yd2, ?_, ?_, ?_, ?_, ?_, ?_, ?_⟩
    · unfold allClusterPairs; rw [h1, g1]
    · unfold realNodes; rw [h2, g2]
    · intro x hx
      rw [List.flatten_cons]
      rcases List.mem_append.mp hx with h | h
      · obtain ⟨a, b, c⟩ := h3 x h
        exact ⟨a, List.mem_append_left _ b, List.mem_append_left _ c⟩
      · obtain ⟨a, b, c⟩ := g3 x h
        exact ⟨a, List.mem_append_right _ b, List.mem_append_right _ c⟩
    · intro n hn
      rw [List.flatten_cons]
      rcases List.mem_append.mp hn with h | h
      · obtain ⟨a, b, c, d, e⟩ := h4 n h
        exact ⟨a, b, c, List.mem_append_left _ d, List.mem_append_left _ e⟩
      · obtain ⟨a, b, c, d, e⟩ := g4 n h
        exact ⟨a, b, c, List.mem_append_right _ d, List.mem_append_right _ e⟩
    · intro p
      rw [ends_append, cntS_append, cntS_append, List.flatten_cons, cntS_append]
      have := h5 p; have := g5 p; omega
    · intro p
      rw [sumW_append, cntS_append]
      have := h6 p; have := g6 p; omega
    · intro h
      rw [nDefective_append] at h
      rw [h7 (by omega), g7 (by omega)]; rfl

/-! ### stage 2 (`_cluster_recovery`) under a perfect matching of the cluster graph -/

/-- weight of the node with creation index `i` -/
def wI (ns : List ClNode) (p : Idx2) (i : Nat) : Nat :=
  match ns[i]? with
  | some a => wS a p
  | none => 0

theorem sum_wI_range (ns : List ClNode) (p : Idx2) :
    ((List.range ns.length).map (wI ns p)).sum = sumW ns p := by
  induction ns with
  | nil => rfl
  | cons a ns ih =>
    rw [List.length_cons, List.range_succ_eq_map, List.map_cons, List.sum_cons, List.map_map]
    have : (wI (a :: ns) p ∘ Nat.succ) = wI ns p := by
      funext i; simp [wI]
    rw [this, ih]
    simp [sumW, wI]

theorem sum_ends {α : Type} (w : α → Nat) (ms : List (α × α)) :
    ((ends ms).map w).sum = (ms.map fun m => w m.1 + w m.2).sum := by
  induction ms with
  | nil => rfl
  | cons m ms ih =>
    have : ends (m :: ms) = m.1 :: m.2 :: ends ms := by simp [ends]
    rw [this, List.map_cons, List.map_cons, List.sum_cons, List.sum_cons, ih, List.map_cons, List.sum_cons]
    omega

theorem perm_ends_range (n : Nat) (edges cms : List (Nat × Nat))
    (h : isPerfectMatchingOfGraph (List.range n) edges cms = true) : (ends cms).Perm (List.range n) := by
  rw [List.perm_iff_count]
  intro v
  have h1 := pm_occ_gen _ _ _ h v
  unfold occ at h1
  rw [h1]
  by_cases hv : v ∈ List.range n
  · rw [if_pos hv]
    have := List.nodup_iff_count.mp (List.nodup_range (n := n)) v
    have := List.count_pos_iff.mpr hv
    omega
  · rw [if_neg hv, List.count_eq_zero_of_not_mem hv]

/-- the pairs fused for one matched pair of cluster nodes -/
def FromNodes (ns : List ClNode) (x : TIdx × TIdx) : Prop :=
  ∃ a b, a ∈ ns ∧ b ∈ ns ∧ a.kind ≠ .extra ∧ b.kind ≠ .extra ∧ (x = (a.x, b.x) ∨ x = (a.z, b.z))

theorem match_spec (ns : List ClNode) (m : Nat × Nat)
    (h : clusterEdgeOk ns m.1 m.2 = true ∨ clusterEdgeOk ns m.2 m.1 = true) :
    ∃ ps, matchPairs ns m = .ok ps ∧ (∀ x ∈ ps, FromNodes ns x) ∧
      ∀ p, (∀ n ∈ ns, n.virt = true → wS n p = 0) → cntS (ends ps) p = wI ns p m.1 + wI ns p m.2 := by
  cases ha : ns[m.1]? with
  | none => simp [clusterEdgeOk, ha] at h
  | some a =>
    cases hb : ns[m.2]? with
    | none => simp [clusterEdgeOk, ha, hb] at h
    | some b =>
      have hma : a ∈ ns := List.mem_of_getElem? ha
      have hmb : b ∈ ns := List.mem_of_getElem? hb
      have hex : (a.kind = .extra → b.kind = .corner) ∧ (b.kind = .extra → a.kind = .corner) := by
        rcases h with h | h
        · simp only [clusterEdgeOk, ha, hb] at h
          by_cases h1 : a.kind = .extra
          · simp [h1] at h; exact ⟨fun _ => h, fun h2 => by rw [h2] at h; cases h⟩
          · by_cases h2 : b.kind = .extra
            · simp [h1, h2] at h; exact ⟨fun h3 => absurd h3 h1, fun _ => h⟩
            · exact ⟨fun h3 => absurd h3 h1, fun h3 => absurd h3 h2⟩
        · simp only [clusterEdgeOk, ha, hb] at h
          by_cases h2 : b.kind = .extra
          · simp [h2] at h; exact ⟨fun h1 => (by rw [h1] at h; cases h), fun _ => h⟩
          · by_cases h1 : a.kind = .extra
            · simp [h1, h2] at h; exact ⟨fun _ => h, fun h3 => absurd h3 h2⟩
            · exact ⟨fun h3 => absurd h3 h1, fun h3 => absurd h3 h2⟩
      unfold matchPairs
      simp only [ha, hb]
      by_cases hvv : (a.virt && b.virt) = true
      · rw [if_pos hvv]
        refine ⟨[], rfl, by simp, ?_⟩
        intro p hv
        rw [Bool.and_eq_true] at hvv
        simp only [wI, ha, hb, hv a hma hvv.1, hv b hmb hvv.2]
        rfl
      · rw [if_neg hvv]
        have hae : a.kind ≠ .extra := by
          intro h1
          apply hvv
          have := hex.1 h1
          simp [ClNode.virt, h1, this]
        have hbe : b.kind ≠ .extra := by
          intro h1
          apply hvv
          have := hex.2 h1
          simp [ClNode.virt, h1, this]
        have hne : ¬ ((decide (a.kind = .extra) || decide (b.kind = .extra)) = true) := by simp [hae, hbe]
        rw [if_neg hne]
        refine ⟨_, rfl, ?_, ?_⟩
        · intro x hx
          simp only [List.mem_cons, List.not_mem_nil, or_false] at hx
          exact ⟨a, b, hma, hmb, hae, hbe, hx⟩
        · intro p _
          simp only [wI, ha, hb, wS, if_neg hae, if_neg hbe, ends, List.flatMap_cons, List.flatMap_nil,
            List.append_nil, List.cons_append, List.nil_append, cntS_cons, cntS_nil]
          omega

theorem stage2_spec (ns : List ClNode) (cms : List (Nat × Nat))
    (hpm : isPerfectMatchingOfGraph (List.range ns.length) (clusterEdges ns) cms = true) :
    ∃ qs, allMatchPairs ns cms = .ok qs ∧ (∀ x ∈ qs, FromNodes ns x) ∧
      ∀ p, (∀ n ∈ ns, n.virt = true → wS n p = 0) → cntS (ends qs) p = sumW ns p := by
  have hedge : ∀ m ∈ cms, clusterEdgeOk ns m.1 m.2 = true ∨ clusterEdgeOk ns m.2 m.1 = true := by
    intro m hm
    rcases pm_edges _ _ _ hpm m hm with h | h
    · left; unfold clusterEdges at h; rw [List.mem_filter] at h; exact h.2
    · right; unfold clusterEdges at h; rw [List.mem_filter] at h; exact h.2
  have key : ∀ ms : List (Nat × Nat), (∀ m ∈ ms, clusterEdgeOk ns m.1 m.2 = true ∨ clusterEdgeOk ns m.2 m.1 = true) →
      ∃ qs, allMatchPairs ns ms = .ok qs ∧ (∀ x ∈ qs, FromNodes ns x) ∧
        ∀ p, (∀ n ∈ ns, n.virt = true → wS n p = 0) →
          cntS (ends qs) p = (ms.map fun m => wI ns p m.1 + wI ns p m.2).sum := by
    intro ms
    induction ms with
    | nil => intro _; exact ⟨[], rfl, by simp, fun p _ => rfl⟩
    | cons m ms ih =>
      intro hm
      obtain ⟨ps, h1, h2, h3⟩ := match_spec ns m (hm m (by simp))
      obtain ⟨qs, g1, g2, g3⟩ := ih (fun m' h' => hm m' (by simp [h']))
      refine ⟨ps ++ qs, ?_, ?_, ?_⟩
      · unfold allMatchPairs; rw [h1, g1]
      · intro x hx
        rcases List.mem_append.mp hx with h | h
        · exact h2 x h
        · exact g2 x h
      · intro p hv
        rw [ends_append, cntS_append, h3 p hv, g3 p hv, List.map_cons, List.sum_cons]
  obtain ⟨qs, h1, h2, h3⟩ := key cms hedge
  refine ⟨qs, h1, h2, ?_⟩
  intro p hv
  rw [h3 p hv, ← sum_ends (wI ns p) cms, (List.Perm.map _ (perm_ends_range _ _ _ hpm)).sum_nat, sum_wI_range]

end Qec.SmwpmL
