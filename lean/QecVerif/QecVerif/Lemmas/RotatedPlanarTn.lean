/-
  C10 — the rotated planar MPS decoder's tensor network (`Model/RotatedPlanarTn.lean`): geometry of the rotated
  network (which cell holds what, closed form of all leg dimensions), C11 compatibility, `None` padding.
  Helper lemmas for Props/C10/RotatedPlanarNetwork.lean (continued in Lemmas/RotatedPlanarTnSum.lean).
-/
import QecVerif.Model.RotatedPlanarTn
import QecVerif.Lemmas.PlanarTn
import QecVerif.Lemmas.Lattice.RotatedPlanarCode
namespace Qec.RotatedPlanarTnLemmas
open Finset Qec Qec.Tensor Qec.TensorAlg Qec.TensorBridge Qec.TensorExact Qec.TensorExact.Bond Qec.Coset
open Qec.FactorGraph Qec.RotatedPlanarTn Qec.RotatedPlanarCode

/-! ### A. coordinates: the cell `(r, c)` of the rotated network and the lattice index written to it -/

/-- network height / width minus one -/
def N (R C : Int) : ℕ := (R + C - 2).toNat

def X (C : Int) (r c : Int) : Int := (c - r + (C - 1)) / 2
def Y (R C : Int) (r c : Int) : Int := (2 * (R - 1) + (C - 1) - r - c) / 2
def par (C : Int) (r c : Int) : Int := (c - r + (C - 1)) % 2

/-- the cell holds a qubit tensor -/
def IsQ (R C r c : Int) : Prop :=
  par C r c = 0 ∧ 0 ≤ X C r c ∧ X C r c ≤ C - 1 ∧ 0 ≤ Y R C r c ∧ Y R C r c ≤ R - 1
/-- the cell holds a stabilizer tensor -/
def IsS (R C r c : Int) : Prop := par C r c = 1 ∧ PlaqIn R C (X C r c, Y R C r c)
/-- the cell is not `None` -/
def Occ (R C r c : Int) : Prop := IsQ R C r c ∨ IsS R C r c

instance (R C r c : Int) : Decidable (IsQ R C r c) := by unfold IsQ; infer_instance
instance (R C r c : Int) : Decidable (IsS R C r c) := by unfold IsS PlaqIn; infer_instance
instance (R C r c : Int) : Decidable (Occ R C r c) := by unfold Occ; infer_instance

theorem occ_range (R C r c : Int) (h : Occ R C r c) : 0 ≤ r ∧ r ≤ R + C - 2 ∧ 0 ≤ c ∧ c ≤ R + C - 2 := by
  unfold Occ IsQ IsS PlaqIn X Y par at h
  simp only at h
  omega

/-- closed form of the leg dimensions: a leg is a real bond (dimension 2) iff the cell and its neighbour in that
    direction both hold a tensor -/
def dN (R C : Int) (r c : ℕ) : ℕ := if Occ R C r c ∧ Occ R C ((r : ℤ) - 1) c then 2 else 1
def dE (R C : Int) (r c : ℕ) : ℕ := if Occ R C r c ∧ Occ R C r ((c : ℤ) + 1) then 2 else 1
def dS (R C : Int) (r c : ℕ) : ℕ := if Occ R C r c ∧ Occ R C ((r : ℤ) + 1) c then 2 else 1
def dW (R C : Int) (r c : ℕ) : ℕ := if Occ R C r c ∧ Occ R C r ((c : ℤ) - 1) then 2 else 1

theorem hShape_eq (R C : Int) (r c : ℕ) (hR : 3 ≤ R) (hC : 3 ≤ C) (hq : IsQ R C r c)
    (hz : (X C r c - Y R C r c) % 2 = 0) :
    hShape (qRowDir R (Y R C r c)) (qColDir C (X C r c)) = (dN R C r c, dE R C r c, dS R C r c, dW R C r c) := by
  have hocc : Occ R C r c := Or.inl hq
  have e1 : dN R C r c = if X C r c ≤ C - 2 then 2 else 1 := by
    unfold dN; apply if_congr _ rfl rfl
    simp only [hocc, true_and]
    unfold Occ IsQ IsS PlaqIn X Y par at *; simp only at *; omega
  have e2 : dE R C r c = if 1 ≤ Y R C r c then 2 else 1 := by
    unfold dE; apply if_congr _ rfl rfl
    simp only [hocc, true_and]
    unfold Occ IsQ IsS PlaqIn X Y par at *; simp only at *; omega
  have e3 : dS R C r c = if 1 ≤ X C r c then 2 else 1 := by
    unfold dS; apply if_congr _ rfl rfl
    simp only [hocc, true_and]
    unfold Occ IsQ IsS PlaqIn X Y par at *; simp only at *; omega
  have e4 : dW R C r c = if Y R C r c ≤ R - 2 then 2 else 1 := by
    unfold dW; apply if_congr _ rfl rfl
    simp only [hocc, true_and]
    unfold Occ IsQ IsS PlaqIn X Y par at *; simp only at *; omega
  rw [e1, e2, e3, e4]
  obtain ⟨_, h1, h2, h3, h4⟩ := hq
  generalize X C r c = x at *
  generalize Y R C r c = y at *
  unfold qRowDir qColDir RotatedPlanar.maxSiteX RotatedPlanar.maxSiteY
  split_ifs <;> first | rfl | omega

theorem vShape_eq (R C : Int) (r c : ℕ) (hR : 3 ≤ R) (hC : 3 ≤ C) (hq : IsQ R C r c)
    (hz : (X C r c - Y R C r c) % 2 = 1) :
    vShape (qRowDir R (Y R C r c)) (qColDir C (X C r c)) = (dN R C r c, dE R C r c, dS R C r c, dW R C r c) := by
  have hocc : Occ R C r c := Or.inl hq
  have e1 : dN R C r c = if Y R C r c ≤ R - 2 then 2 else 1 := by
    unfold dN; apply if_congr _ rfl rfl
    simp only [hocc, true_and]
    unfold Occ IsQ IsS PlaqIn X Y par at *; simp only at *; omega
  have e2 : dE R C r c = if X C r c ≤ C - 2 then 2 else 1 := by
    unfold dE; apply if_congr _ rfl rfl
    simp only [hocc, true_and]
    unfold Occ IsQ IsS PlaqIn X Y par at *; simp only at *; omega
  have e3 : dS R C r c = if 1 ≤ Y R C r c then 2 else 1 := by
    unfold dS; apply if_congr _ rfl rfl
    simp only [hocc, true_and]
    unfold Occ IsQ IsS PlaqIn X Y par at *; simp only at *; omega
  have e4 : dW R C r c = if 1 ≤ X C r c then 2 else 1 := by
    unfold dW; apply if_congr _ rfl rfl
    simp only [hocc, true_and]
    unfold Occ IsQ IsS PlaqIn X Y par at *; simp only at *; omega
  rw [e1, e2, e3, e4]
  obtain ⟨_, h1, h2, h3, h4⟩ := hq
  generalize X C r c = x at *
  generalize Y R C r c = y at *
  unfold qRowDir qColDir RotatedPlanar.maxSiteX RotatedPlanar.maxSiteY
  split_ifs <;> first | rfl | omega

theorem sShape_eq (R C : Int) (r c : ℕ) (hR : 3 ≤ R) (hC : 3 ≤ C) (hs : IsS R C r c) :
    sShape (pRowDir R (Y R C r c)) (pColDir C (X C r c)) = (dN R C r c, dE R C r c, dS R C r c, dW R C r c) := by
  have hocc : Occ R C r c := Or.inr hs
  have e1 : dN R C r c = if X C r c ≤ C - 2 ∧ Y R C r c ≤ R - 2 then 2 else 1 := by
    unfold dN; apply if_congr _ rfl rfl
    simp only [hocc, true_and]
    unfold Occ IsQ IsS PlaqIn X Y par at *; simp only at *; omega
  have e2 : dE R C r c = if X C r c ≤ C - 2 ∧ 0 ≤ Y R C r c then 2 else 1 := by
    unfold dE; apply if_congr _ rfl rfl
    simp only [hocc, true_and]
    unfold Occ IsQ IsS PlaqIn X Y par at *; simp only at *; omega
  have e3 : dS R C r c = if 0 ≤ X C r c ∧ 0 ≤ Y R C r c then 2 else 1 := by
    unfold dS; apply if_congr _ rfl rfl
    simp only [hocc, true_and]
    unfold Occ IsQ IsS PlaqIn X Y par at *; simp only at *; omega
  have e4 : dW R C r c = if 0 ≤ X C r c ∧ Y R C r c ≤ R - 2 then 2 else 1 := by
    unfold dW; apply if_congr _ rfl rfl
    simp only [hocc, true_and]
    unfold Occ IsQ IsS PlaqIn X Y par at *; simp only at *; omega
  rw [e1, e2, e3, e4]
  obtain ⟨_, hp⟩ := hs
  unfold PlaqIn at hp
  simp only at hp
  generalize X C r c = x at *
  generalize Y R C r c = y at *
  unfold pRowDir pColDir RotatedPlanar.maxSiteX RotatedPlanar.maxSiteY
  split_ifs <;> first | rfl | omega

/-! ### B. the node at `(r, c)` -/

/-- the entry function of the tensor at `(r, c)` -/
def nodeFn (R C : Int) (d : Dist Int) (f : BVec) (r c : ℕ) : ℕ → ℕ → ℕ → ℕ → ℤ :=
  if par C r c = 0 then
    (if RotatedPlanar.isZPlaquette (X C r c) (Y R C r c)
      then PlanarTn.hNodeValue d (opAt R C f (X C r c) (Y R C r c))
      else PlanarTn.vNodeValue d (opAt R C f (X C r c) (Y R C r c)))
  else PlanarTn.deltaEntry (dN R C r c, dE R C r c, dS R C r c, dW R C r c)

theorem node_eq (R C : Int) (d : Dist Int) (f : BVec) (r c : ℕ) (hR : 3 ≤ R) (hC : 3 ≤ C) :
    node R C d f r c = if Occ R C r c
      then some (T4.ofFn (dN R C r c) (dE R C r c) (dS R C r c) (dW R C r c) (nodeFn R C d f r c)) else none := by
  have hx : cellX R C r c = X C r c := rfl
  have hy : cellY R C r c = Y R C r c := rfl
  have hp : cellPar R C r c = par C r c := rfl
  unfold node
  simp only [hx, hy, hp]
  by_cases h0 : par C r c = 0
  · rw [if_pos h0]
    by_cases hb : RotatedPlanar.inSiteBounds R C (X C r c) (Y R C r c) = true
    · have hq : IsQ R C r c := by
        have := (inSiteBounds_iff R C _ _).mp hb
        unfold SiteIn at this
        exact ⟨h0, this⟩
      rw [if_pos hb, if_pos (show Occ R C r c from Or.inl hq)]
      unfold nodeFn
      rw [if_pos h0]
      by_cases hz : RotatedPlanar.isZPlaquette (X C r c) (Y R C r c) = true
      · rw [if_pos hz, if_pos hz, hShape_eq R C r c hR hC hq ((isZPlaquette_iff _ _).mp hz)]
        rfl
      · rw [if_neg hz, if_neg hz, vShape_eq R C r c hR hC hq
          (by have := (isZPlaquette_iff (X C r c) (Y R C r c)).not.mp hz; omega)]
        rfl
    · rw [if_neg hb, if_neg]
      rintro (hq | hs)
      · apply hb
        rw [inSiteBounds_iff]
        exact hq.2
      · have := hs.1; omega
  · rw [if_neg h0]
    by_cases hb : RotatedPlanar.inPlaquetteBounds R C (X C r c) (Y R C r c) = true
    · have hs : IsS R C r c := ⟨by unfold par at *; omega, (inPlaquetteBounds_iff R C _ _).mp hb⟩
      rw [if_pos hb, if_pos (show Occ R C r c from Or.inr hs), sShape_eq R C r c hR hC hs]
      unfold nodeFn
      rw [if_neg h0]
      rfl
    · rw [if_neg hb, if_neg]
      rintro (hq | hs)
      · exact h0 hq.1
      · exact hb ((inPlaquetteBounds_iff R C _ _).mpr hs.2)

/-! ### C. the network: sites, dimensions, C11 compatibility -/

theorem N_eq (R C : Int) (hR : 3 ≤ R) (hC : 3 ≤ C) : (R + C - 1).toNat = N R C + 1 := by unfold N; omega

theorem nrows_rplanarTn (R C : Int) (d : Dist Int) (f : BVec) (hR : 3 ≤ R) (hC : 3 ≤ C) :
    (rplanarTn R C d f).nrows = N R C + 1 := N_eq R C hR hC

theorem ncols_rplanarTn (R C : Int) (d : Dist Int) (f : BVec) (hR : 3 ≤ R) (hC : 3 ≤ C) :
    (rplanarTn R C d f).ncols = N R C + 1 := N_eq R C hR hC

theorem site_rplanarTn (R C : Int) (d : Dist Int) (f : BVec) (hR : 3 ≤ R) (hC : 3 ≤ C) (r c : ℕ) (hr : r ≤ N R C)
    (hc : c ≤ N R C) : (rplanarTn R C d f).site r c = node R C d f r c := by
  have e1 := N_eq R C hR hC
  unfold rplanarTn Net.site
  simp only [e1]
  have hlt : r * (N R C + 1) + c < (N R C + 1) * (N R C + 1) := by
    have : r * (N R C + 1) + (N R C + 1) ≤ (N R C + 1) * (N R C + 1) := by
      rw [← Nat.succ_mul]; exact Nat.mul_le_mul_right _ (by omega)
    omega
  simp only [Array.getD, Array.size_ofFn, Array.getInternal_eq_getElem, Array.getElem_ofFn]
  rw [decode_div _ _ _ (by omega), decode_mod _ _ _ (by omega), dif_pos (by rw [e1]; exact hlt)]

theorem site_eq (R C : Int) (d : Dist Int) (f : BVec) (hR : 3 ≤ R) (hC : 3 ≤ C) (r c : ℕ) (hr : r ≤ N R C)
    (hc : c ≤ N R C) :
    (rplanarTn R C d f).site r c = if Occ R C r c
      then some (T4.ofFn (dN R C r c) (dE R C r c) (dS R C r c) (dW R C r c) (nodeFn R C d f r c)) else none := by
  rw [site_rplanarTn R C d f hR hC r c hr hc, node_eq R C d f r c hR hC]

theorem dN_of_not (R C : Int) (r c : ℕ) (h : ¬ Occ R C r c) : dN R C r c = 1 := by unfold dN; rw [if_neg (fun hh => h hh.1)]
theorem dE_of_not (R C : Int) (r c : ℕ) (h : ¬ Occ R C r c) : dE R C r c = 1 := by unfold dE; rw [if_neg (fun hh => h hh.1)]
theorem dS_of_not (R C : Int) (r c : ℕ) (h : ¬ Occ R C r c) : dS R C r c = 1 := by unfold dS; rw [if_neg (fun hh => h hh.1)]
theorem dW_of_not (R C : Int) (r c : ℕ) (h : ¬ Occ R C r c) : dW R C r c = 1 := by unfold dW; rw [if_neg (fun hh => h hh.1)]

theorem siteT_dims (R C : Int) (d : Dist Int) (f : BVec) (hR : 3 ≤ R) (hC : 3 ≤ C) (r c : ℕ) (hr : r ≤ N R C)
    (hc : c ≤ N R C) :
    (siteT ((rplanarTn R C d f).site r c)).n = dN R C r c ∧ (siteT ((rplanarTn R C d f).site r c)).e = dE R C r c ∧
    (siteT ((rplanarTn R C d f).site r c)).s = dS R C r c ∧ (siteT ((rplanarTn R C d f).site r c)).w = dW R C r c := by
  rw [site_eq R C d f hR hC r c hr hc]
  by_cases h : Occ R C r c
  · rw [if_pos h]; exact ⟨rfl, rfl, rfl, rfl⟩
  · rw [if_neg h, dN_of_not R C r c h, dE_of_not R C r c h, dS_of_not R C r c h, dW_of_not R C r c h]
    exact ⟨rfl, rfl, rfl, rfl⟩

theorem netF_dims (R C : Int) (d : Dist Int) (f : BVec) (hR : 3 ≤ R) (hC : 3 ≤ C) (r c : ℕ) (hr : r ≤ N R C)
    (hc : c ≤ N R C) :
    (netF (rplanarTn R C d f) r c).n = dN R C r c ∧ (netF (rplanarTn R C d f) r c).e = dE R C r c ∧
    (netF (rplanarTn R C d f) r c).s = dS R C r c ∧ (netF (rplanarTn R C d f) r c).w = dW R C r c :=
  siteT_dims R C d f hR hC r c hr hc

/-- facing legs: south of `(r, c)` = north of `(r+1, c)`, east of `(r, c)` = west of `(r, c+1)` -/
theorem dN_succ (R C : Int) (r c : ℕ) : dN R C (r + 1) c = dS R C r c := by
  unfold dN dS
  have : ((r + 1 : ℕ) : ℤ) - 1 = (r : ℤ) := by push_cast; omega
  rw [this]
  have : ((r + 1 : ℕ) : ℤ) = (r : ℤ) + 1 := by push_cast; rfl
  rw [this]
  apply if_congr (and_comm) rfl rfl

theorem dW_succ (R C : Int) (r c : ℕ) : dW R C r (c + 1) = dE R C r c := by
  unfold dW dE
  have : ((c + 1 : ℕ) : ℤ) - 1 = (c : ℤ) := by push_cast; omega
  rw [this]
  have : ((c + 1 : ℕ) : ℤ) = (c : ℤ) + 1 := by push_cast; rfl
  rw [this]
  apply if_congr (and_comm) rfl rfl

theorem dN_zero (R C : Int) (c : ℕ) : dN R C 0 c = 1 := by
  unfold dN; rw [if_neg]; rintro ⟨_, h⟩; have := occ_range R C _ _ h; omega
theorem dW_zero (R C : Int) (r : ℕ) : dW R C r 0 = 1 := by
  unfold dW; rw [if_neg]; rintro ⟨_, h⟩; have := occ_range R C _ _ h; omega
theorem dS_last (R C : Int) (hR : 3 ≤ R) (hC : 3 ≤ C) (c : ℕ) : dS R C (N R C) c = 1 := by
  unfold dS; rw [if_neg]; rintro ⟨_, h⟩; have := occ_range R C _ _ h; unfold N at this; omega
theorem dE_last (R C : Int) (hR : 3 ≤ R) (hC : 3 ≤ C) (r : ℕ) : dE R C r (N R C) = 1 := by
  unfold dE; rw [if_neg]; rintro ⟨_, h⟩; have := occ_range R C _ _ h; unfold N at this; omega

theorem d_one_or_two (R C : Int) (r c : ℕ) :
    (dN R C r c = 1 ∨ dN R C r c = 2) ∧ (dE R C r c = 1 ∨ dE R C r c = 2) ∧
    (dS R C r c = 1 ∨ dS R C r c = 2) ∧ (dW R C r c = 1 ∨ dW R C r c = 2) := by
  unfold dN dE dS dW
  refine ⟨?_, ?_, ?_, ?_⟩ <;> split_ifs <;> simp

theorem compatible_rplanarTn (R C : Int) (d : Dist Int) (f : BVec) (hR : 3 ≤ R) (hC : 3 ≤ C) :
    compatible (rplanarTn R C d f) = true := by
  have hnr := nrows_rplanarTn R C d f hR hC
  have hnc := ncols_rplanarTn R C d f hR hC
  simp only [compatible, Bool.and_eq_true, decide_eq_true_eq, List.all_eq_true, List.mem_range, Bool.or_eq_true,
    beq_iff_eq, hnr, hnc]
  refine ⟨⟨by omega, by omega⟩, fun r hr c hc => ?_⟩
  have key := fun r c hr hc => siteT_dims R C d f hR hC r c hr hc
  obtain ⟨k1, k2, k3, k4⟩ := key r c (by omega) (by omega)
  refine ⟨⟨⟨?_, ?_⟩, ?_⟩, ?_⟩
  · rw [k4]
    by_cases h0 : c = 0
    · subst h0; simp [dW_zero]
    · obtain ⟨c', rfl⟩ : ∃ c', c = c' + 1 := ⟨c - 1, by omega⟩
      rw [if_neg h0, Nat.add_sub_cancel, (key r c' (by omega) (by omega)).2.1, dW_succ]
  · rw [k1]
    by_cases h0 : r = 0
    · subst h0; simp [dN_zero]
    · obtain ⟨r', rfl⟩ : ∃ r', r = r' + 1 := ⟨r - 1, by omega⟩
      rw [if_neg h0, Nat.add_sub_cancel, (key r' c (by omega) (by omega)).2.2.1, dN_succ]
  · rw [k2]
    by_cases h : c = N R C
    · right; rw [h, dE_last R C hR hC]
    · left; omega
  · rw [k3]
    by_cases h : r = N R C
    · right; rw [h, dS_last R C hR hC]
    · left; omega

theorem compat_rplanarTn (R C : Int) (d : Dist Int) (f : BVec) (hR : 3 ≤ R) (hC : 3 ≤ C) :
    Compat (rplanarTn R C d f) (N R C) (N R C) := by
  have h := compat_of_compatible _ (compatible_rplanarTn R C d f hR hC)
  rw [nrows_rplanarTn R C d f hR hC, ncols_rplanarTn R C d f hR hC, Nat.add_sub_cancel] at h
  exact h

/-! ### D. `None` padding: every row and every column of the network holds a tensor -/

theorem isSome_site (R C : Int) (d : Dist Int) (f : BVec) (hR : 3 ≤ R) (hC : 3 ≤ C) (r c : ℕ) (hr : r ≤ N R C)
    (hc : c ≤ N R C) (h : Occ R C r c) : ((rplanarTn R C d f).site r c).isSome = true := by
  rw [site_eq R C d f hR hC r c hr hc, if_pos h]; rfl

theorem row_has_tensor (R C : Int) (hR : 3 ≤ R) (hC : 3 ≤ C) (r : ℕ) (hr : r ≤ N R C) :
    ∃ c, c ≤ N R C ∧ Occ R C r c := by
  unfold N at hr
  by_cases h : R - 1 ≤ (r : ℤ)
  · refine ⟨(2 * (R - 1) + (C - 1) - (r : ℤ)).toNat, by unfold N; omega, Or.inl ?_⟩
    have e : (((2 * (R - 1) + (C - 1) - (r : ℤ)).toNat : ℕ) : ℤ) = 2 * (R - 1) + (C - 1) - (r : ℤ) := by omega
    unfold IsQ X Y par
    rw [e]
    omega
  · refine ⟨((C - 1) + (r : ℤ)).toNat, by unfold N; omega, Or.inl ?_⟩
    have e : ((((C - 1) + (r : ℤ)).toNat : ℕ) : ℤ) = (C - 1) + (r : ℤ) := by omega
    unfold IsQ X Y par
    rw [e]
    omega

theorem col_has_tensor (R C : Int) (hR : 3 ≤ R) (hC : 3 ≤ C) (c : ℕ) (hc : c ≤ N R C) :
    ∃ r, r ≤ N R C ∧ Occ R C r c := by
  unfold N at hc
  by_cases h : R - 1 ≤ (c : ℤ)
  · refine ⟨(2 * (R - 1) + (C - 1) - (c : ℤ)).toNat, by unfold N; omega, Or.inl ?_⟩
    have e : (((2 * (R - 1) + (C - 1) - (c : ℤ)).toNat : ℕ) : ℤ) = 2 * (R - 1) + (C - 1) - (c : ℤ) := by omega
    unfold IsQ X Y par
    rw [e]
    omega
  · refine ⟨((C - 1) + (c : ℤ)).toNat, by unfold N; omega, Or.inl ?_⟩
    have e : ((((C - 1) + (c : ℤ)).toNat : ℕ) : ℤ) = (C - 1) + (c : ℤ) := by omega
    unfold IsQ X Y par
    rw [e]
    omega

theorem padded_rplanarTn (R C : Int) (d : Dist Int) (f : BVec) (hR : 3 ≤ R) (hC : 3 ≤ C) :
    TensorPad.PaddedRows (rplanarTn R C d f) := by
  have hnr := nrows_rplanarTn R C d f hR hC
  have hnc := ncols_rplanarTn R C d f hR hC
  refine ⟨0, (rplanarTn R C d f).nrows, by omega, le_refl _, fun r hr => ⟨fun _ => ⟨Nat.zero_le _, hr⟩, fun _ => ?_⟩⟩
  obtain ⟨c, hc, ho⟩ := row_has_tensor R C hR hC r (by omega)
  exact ⟨c, by omega, isSome_site R C d f hR hC r c (by omega) hc ho⟩

theorem padded_transpose_rplanarTn (R C : Int) (d : Dist Int) (f : BVec) (hR : 3 ≤ R) (hC : 3 ≤ C) :
    TensorPad.PaddedRows (rplanarTn R C d f).transpose := by
  have hnr := nrows_rplanarTn R C d f hR hC
  have hnc := ncols_rplanarTn R C d f hR hC
  refine ⟨0, (rplanarTn R C d f).transpose.nrows, ?_, le_refl _,
    fun c hc => ⟨fun _ => ⟨Nat.zero_le _, hc⟩, fun _ => ?_⟩⟩
  · show 0 < (rplanarTn R C d f).ncols; omega
  · have hc' : c < (rplanarTn R C d f).ncols := hc
    obtain ⟨r, hr, ho⟩ := col_has_tensor R C hR hC c (by omega)
    refine ⟨r, ?_, ?_⟩
    · show r < (rplanarTn R C d f).nrows; omega
    · rw [transpose_site _ r c (by omega) hc', Option.isSome_map]
      exact isSome_site R C d f hR hC r c hr (by omega) ho

end Qec.RotatedPlanarTnLemmas
