/-
  C12 — helpers for Props/C12/Link2.lean (second part of the link between the shape model Model/MpsShape.lean and the
  algebraic chain model Lemmas/Sweep.lean):
    1. `zeroChain`  — `zeros_like` in the chain model; `ZSweep` — derivations that END IN A ZERO EXIT of the code
       (`r_norm = 0`, `max_s = 0`, tol discards every singular value, `last_row_norm = 0`), their shadow in the shape
       model and what they say about the represented state;
    2. `flat`       — merging the physical legs (E, W) of an MPO tensor into one leg of dimension E·W commutes with the
       shape model (`sweep_flat`, `lcf_flat`, `rcf_flat`, `truncate_flat`);
    3. `SvdCons`    — the per-step hypothesis of the converse for runs with SVD steps, and the converse
       (`exists_rsweep_of_svd_run`).
-/
import QecVerif.Lemmas.SweepShape
namespace Qec.SweepLink2
open Matrix Qec.Sweep Qec.Sweep.Chain Qec.Mps Qec.MpsLemmas Qec.SweepShape

/-! ### 1. zero branches -/

/-- `zeros_like` in the chain model: every site the zero family, every bond (the boundary bonds too) of dimension 1 -/
def zeroChain : (ds : List ℕ) → Chain ds 1 1
  | [] => .nil
  | _ :: ds => .cons (fun _ => 0) (zeroChain ds)

theorem shapeOf_zeroChain : ∀ {ds : List ℕ} {l r : ℕ} (C : Chain ds l r),
    shapeOf (zeroChain ds) = (shapeOf C).map zeroShape
  | _, _, _, .nil => rfl
  | _, _, _, .cons _ C => by
    show _ :: shapeOf (zeroChain _) = _
    rw [shapeOf_zeroChain C]; rfl

theorem eval_zeroChain {d : ℕ} {ds : List ℕ} (c : Cfg (d :: ds)) : (zeroChain (d :: ds)).eval c = 0 := by
  obtain ⟨s, c⟩ := c
  show (0 : Matrix (Fin 1) (Fin 1) ℝ) * _ = 0
  rw [Matrix.zero_mul]

theorem zerosLike_padded (a b : ℕ) (run : List Shape) :
    zerosLike (List.replicate a none ++ (run.map some ++ List.replicate b none))
      = List.replicate a none ++ ((run.map zeroShape).map some ++ List.replicate b none) := by
  simp [zerosLike, List.map_append, List.map_replicate]

theorem sweep_cons_zero {p : Params} {mk : ℕ → Bool} {row : ℕ} {cur nxt : Shape} {more : List Shape} {o : Orc}
    {orc' : List Orc}
    (h1 : stepDecide p (p.qr || !(mk row)) (cur.n * cur.e * cur.w) cur.s o = .ok .zero) :
    sweep p mk row cur (nxt :: more) (o :: orc')
      = .ok ⟨.zero, [⟨row, p.qr || !(mk row), cur.n * cur.e * cur.w, cur.s, none⟩], orc'⟩ := by
  rw [sweep]
  simp only [h1]

theorem sweep_last_zero {p : Params} {mk : ℕ → Bool} {row : ℕ} {cur : Shape} {rest : List Orc}
    (hn : p.normalise = true) : sweep p mk row cur [] (.last 0 :: rest) = .ok ⟨.zero, [], rest⟩ := by
  simp only [sweep, hn, if_true]

/-- `lcf` of the shape model on a padded run whose loop raises the zero flag -/
theorem lcf_padded_zero (p : Params) (a b : ℕ) (cur : Shape) (more : List Shape) (orc : List Orc) (sr : SweepRes)
    (h1 : (p.chiOn && p.qr) = false) (h2 : (p.tolOn && p.qr) = false)
    (h3 : maskLenBad p.mask (List.replicate a none ++ ((cur :: more).map some ++ List.replicate b none)) = false)
    (hsw : sweep p (maskAt p.mask) a cur more orc = .ok sr) (hflow : sr.flow = .zero) :
    lcf p (List.replicate a none ++ ((cur :: more).map some ++ List.replicate b none)) orc
      = .ok ⟨List.replicate a none ++ (((cur :: more).map zeroShape).map some ++ List.replicate b none), true,
          sr.trace, sr.rest⟩ := by
  obtain ⟨e1, e2, e3⟩ := split3 (m := List.replicate a none ++ ((cur :: more).map some ++ List.replicate b none))
    rfl (List.length_replicate ..) (n := more.length + 1) (by simp)
  rw [← zerosLike_padded]
  unfold lcf
  rw [h1, h2, h3]
  simp only [Bool.false_eq_true, if_false, startStop_padded]
  rw [show a + (more.length + 1) - a = more.length + 1 by omega, e2, filterMap_id_map_some]
  simp only [hsw, hflow]

/-- a derivation that follows the code's rule (the QR / SVD steps of `RSweep`, scalars non-zero) and ENDS IN A ZERO EXIT:
    * `qrZero`   — QR step, the R factor has norm 0 (oracle `qr 0`);
    * `svdZero`  — SVD step, largest singular value 0 (oracle `svd sig`, `sig[0] = 0`; LAPACK's order `|σ_j| ≤ σ_0`);
    * `tolZero`  — SVD step, `σ_0 ≠ 0`, but tol discards every normalised singular value (kept rank 0);
    * `lastZero` — `normalise`, the last tensor has norm 0 (oracle `last 0`).
    The Bool index says whether NOTHING WAS DISCARDED on the way (every SVD step kept all its singular triples and the
    exit is not `tolZero`): then the state itself is 0 (`ZSweep.state_zero`). -/
inductive ZSweep (p : Params) (mk : ℕ → Bool) :
    {ds : List ℕ} → {l r : ℕ} → ℕ → Chain ds l r → Bool → List Orc → List Step → Prop
  | lastZero {d l r : ℕ} (row : ℕ) (A : Fin d → Matrix (Fin l) (Fin r) ℝ) (hn : p.normalise = true)
      (hz : ∑ s, frob2 (A s) = 0) : ZSweep p mk row (.cons A .nil) true [.last 0] []
  | qrZero {d d' : ℕ} {ds : List ℕ} {l m r k : ℕ} (row : ℕ) (A : Fin d → Matrix (Fin l) (Fin m) ℝ)
      (C : Chain (d' :: ds) m r) (Q : Matrix (Fin l × Fin d) (Fin k) ℝ) (R : Matrix (Fin k) (Fin m) ℝ)
      (huse : (p.qr || !(mk row)) = true) (hfac : stack A = Q * R) (hR : frob2 R = 0) :
      ZSweep p mk row (.cons A C) true [.qr 0] [⟨row, true, l * d * 1, m, none⟩]
  | svdZero {d d' : ℕ} {ds : List ℕ} {l m r n : ℕ} (row : ℕ) (A : Fin d → Matrix (Fin l) (Fin m) ℝ)
      (C : Chain (d' :: ds) m r) (U : Matrix (Fin l × Fin d) (Fin n) ℝ) (σv : Fin n → ℝ)
      (W : Matrix (Fin n) (Fin m) ℝ) (sig : List ℚ) (huse : (p.qr || !(mk row)) = false) (hne : sig ≠ [])
      (hs0 : sig.headD 0 = 0) (hdesc : ∀ j, |σv j| ≤ ((sig.headD 0 : ℚ) : ℝ))
      (hfac : stack A = U * diagonal σv * W) :
      ZSweep p mk row (.cons A C) true [.svd sig] [⟨row, false, l * d * 1, m, none⟩]
  | tolZero {d d' : ℕ} {ds : List ℕ} {l m r : ℕ} (row : ℕ) (A : Fin d → Matrix (Fin l) (Fin m) ℝ)
      (C : Chain (d' :: ds) m r) (sig : List ℚ) (huse : (p.qr || !(mk row)) = false) (hs0 : sig.headD 0 ≠ 0)
      (hk : (keptSigmas p.chi p.tol sig).length = 0) :
      ZSweep p mk row (.cons A C) false [.svd sig] [⟨row, false, l * d * 1, m, none⟩]
  | qr {d d' : ℕ} {ds : List ℕ} {l m r k : ℕ} (row : ℕ) (A : Fin d → Matrix (Fin l) (Fin m) ℝ)
      (C : Chain (d' :: ds) m r) (Q : Matrix (Fin l × Fin d) (Fin k) ℝ) (R : Matrix (Fin k) (Fin m) ℝ) (c : ℝ)
      (ex : Bool) (rn : ℚ) (orc : List Orc) (tr : List Step)
      (huse : (p.qr || !(mk row)) = true) (hk : k = min (l * d * 1) m) (hrn : (rn : ℝ) = c) (hc : c ≠ 0)
      (hfac : stack A = c • (Q * R)) (hiso : Qᵀ * Q = 1)
      (hrest : ZSweep p mk (row + 1) (C.mulLeft R) ex orc tr) :
      ZSweep p mk row (.cons A C) ex (.qr rn :: orc) (⟨row, true, l * d * 1, m, some k⟩ :: tr)
  | svd {d d' : ℕ} {ds : List ℕ} {l m r n k : ℕ} (row : ℕ) (A : Fin d → Matrix (Fin l) (Fin m) ℝ)
      (C : Chain (d' :: ds) m r) (U : Matrix (Fin l × Fin d) (Fin n) ℝ) (σv : Fin n → ℝ)
      (W : Matrix (Fin n) (Fin m) ℝ) (c : ℝ) (hkn : k ≤ n) (ex : Bool)
      (sig : List ℚ) (orc : List Orc) (tr : List Step)
      (huse : (p.qr || !(mk row)) = false) (hlen : sig.length = n)
      (hsig : ∀ j : Fin n, ((sig.getD j 0 : ℚ) : ℝ) = c * σv j) (hs0 : ((sig.headD 0 : ℚ) : ℝ) = c) (hc : c ≠ 0)
      (hk : k = min (min (l * d * 1) m) (keptSigmas p.chi p.tol sig).length)
      (hkept : (keptSigmas p.chi p.tol sig).length ≠ 0)
      (hfac : stack A = c • (U * diagonal σv * W)) (hU : Uᵀ * U = 1) (hW : W * Wᵀ = 1)
      (hrest : ZSweep p mk (row + 1)
        (C.mulLeft (diagonal (σv ∘ Fin.castLE hkn) * W.submatrix (Fin.castLE hkn) id)) ex orc tr) :
      ZSweep p mk row (.cons A C) (ex && decide (k = n)) (.svd sig :: orc)
        (⟨row, false, l * d * 1, m, some k⟩ :: tr)

theorem stepDecide_qr_zero {p : Params} {rows cols : ℕ} : stepDecide p true rows cols (.qr 0) = .ok .zero := by
  simp only [stepDecide, if_true]

theorem stepDecide_svd_zero {p : Params} {rows cols : ℕ} {sig : List ℚ} (hne : sig ≠ [])
    (h : sig.headD 0 = 0 ∨ (keptSigmas p.chi p.tol sig).length = 0) :
    stepDecide p false rows cols (.svd sig) = .ok .zero :=
  stepDecide_svd_zero_iff.mpr ⟨hne, h⟩

/-- **shadow of a zero-exit derivation**: the shape model's loop on the shapes of `C` with the derivation's oracle
    raises the zero flag, with the derivation's trace (last entry `kept = none`), and reads nothing afterwards -/
theorem ZSweep.shadow {p : Params} {mk : ℕ → Bool} {ds : List ℕ} {l r : ℕ} {row : ℕ} {C : Chain ds l r}
    {ex : Bool} {orc : List Orc} {tr : List Step} (h : ZSweep p mk row C ex orc tr) (rest : List Orc) :
    ∃ cur more, shapeOf C = cur :: more ∧ sweep p mk row cur more (orc ++ rest) = .ok ⟨.zero, tr, rest⟩ := by
  induction h with
  | lastZero row A hn hz => exact ⟨_, [], rfl, sweep_last_zero hn⟩
  | @qrZero d d' ds0 l0 m r0 k row A C Q R huse hfac hR =>
    cases C with
    | @cons _ _ _ m' _ B C0 =>
      refine ⟨⟨l0, d, m, 1⟩, ⟨m, d', m', 1⟩ :: shapeOf C0, rfl, ?_⟩
      have := sweep_cons_zero (p := p) (mk := mk) (row := row) (cur := ⟨l0, d, m, 1⟩) (nxt := ⟨m, d', m', 1⟩)
        (more := shapeOf C0) (o := .qr 0) (orc' := rest) (by rw [huse]; exact stepDecide_qr_zero)
      rw [huse] at this
      exact this
  | @svdZero d d' ds0 l0 m r0 n row A C U σv W sig huse hne hs0 hdesc hfac =>
    cases C with
    | @cons _ _ _ m' _ B C0 =>
      refine ⟨⟨l0, d, m, 1⟩, ⟨m, d', m', 1⟩ :: shapeOf C0, rfl, ?_⟩
      have := sweep_cons_zero (p := p) (mk := mk) (row := row) (cur := ⟨l0, d, m, 1⟩) (nxt := ⟨m, d', m', 1⟩)
        (more := shapeOf C0) (o := .svd sig) (orc' := rest)
        (by rw [huse]; exact stepDecide_svd_zero hne (Or.inl hs0))
      rw [huse] at this
      exact this
  | @tolZero d d' ds0 l0 m r0 row A C sig huse hs0 hk =>
    cases C with
    | @cons _ _ _ m' _ B C0 =>
      refine ⟨⟨l0, d, m, 1⟩, ⟨m, d', m', 1⟩ :: shapeOf C0, rfl, ?_⟩
      have hne : sig ≠ [] := by
        intro h; apply hs0; rw [h]; rfl
      have := sweep_cons_zero (p := p) (mk := mk) (row := row) (cur := ⟨l0, d, m, 1⟩) (nxt := ⟨m, d', m', 1⟩)
        (more := shapeOf C0) (o := .svd sig) (orc' := rest)
        (by rw [huse]; exact stepDecide_svd_zero hne (Or.inr hk))
      rw [huse] at this
      exact this
  | @qr d d' ds0 l0 m r0 k row A C Q R c ex rn orc tr huse hk hrn hc hfac hiso _ ih =>
    obtain ⟨cur', more', hsh, hsw⟩ := ih
    cases C with
    | @cons _ _ _ m' _ B C0 =>
      rw [shapeOf_mulLeft] at hsh
      obtain ⟨rfl, rfl⟩ := List.cons.inj hsh
      refine ⟨⟨l0, d, m, 1⟩, ⟨m, d', m', 1⟩ :: shapeOf C0, rfl, ?_⟩
      have hrn0 : rn ≠ 0 := by
        intro h0; apply hc; rw [← hrn, h0]; norm_num
      have h1 : stepDecide p true (l0 * d * 1) m (.qr rn) = .ok (.keep k) := by
        rw [hk]; exact stepDecide_qr hrn0
      have := sweep_cons_keep (p := p) (mk := mk) (row := row) (cur := ⟨l0, d, m, 1⟩) (nxt := ⟨m, d', m', 1⟩)
        (more := shapeOf C0) (o := .qr rn) (orc' := orc ++ rest) (k := k)
        (by rw [huse]; exact h1) (bondClash_self _) hsw
      rw [huse] at this
      rw [List.cons_append, this]
      rfl
  | @svd d d' ds0 l0 m r0 n k row A C U σv W c hkn ex sig orc tr huse hlen hsig hs0 hc hk hkept hfac hU hW _ ih =>
    obtain ⟨cur', more', hsh, hsw⟩ := ih
    cases C with
    | @cons _ _ _ m' _ B C0 =>
      rw [shapeOf_mulLeft] at hsh
      obtain ⟨rfl, rfl⟩ := List.cons.inj hsh
      refine ⟨⟨l0, d, m, 1⟩, ⟨m, d', m', 1⟩ :: shapeOf C0, rfl, ?_⟩
      have hs00 : sig.headD 0 ≠ 0 := by
        intro h0; apply hc; rw [← hs0, h0]; norm_num
      have h1 : stepDecide p false (l0 * d * 1) m (.svd sig) = .ok (.keep k) := by
        rw [hk]; exact stepDecide_svd hs00 hkept
      have := sweep_cons_keep (p := p) (mk := mk) (row := row) (cur := ⟨l0, d, m, 1⟩) (nxt := ⟨m, d', m', 1⟩)
        (more := shapeOf C0) (o := .svd sig) (orc' := orc ++ rest) (k := k)
        (by rw [huse]; exact h1) (bondClash_self _) hsw
      rw [huse] at this
      rw [List.cons_append, this]
      rfl

theorem unstack_zero_of_stack {d l m : ℕ} {A : Fin d → Matrix (Fin l) (Fin m) ℝ} (h : stack A = 0) (s : Fin d) :
    A s = 0 := by
  have := congrArg (fun M => unstack M s) h
  simp only [unstack_stack] at this
  exact this

/-- **a zero exit without discarding means the state is zero**: if no SVD step on the way discarded anything and the
    exit is `r_norm = 0`, `max_s = 0` or `last_row_norm = 0`, then every amplitude of the state is 0 — so
    `(zeros_like, norm 0)` is an exact answer -/
theorem ZSweep.state_zero {p : Params} {mk : ℕ → Bool} {ds : List ℕ} {l r : ℕ} {row : ℕ} {C : Chain ds l r}
    {ex : Bool} {orc : List Orc} {tr : List Step} (h : ZSweep p mk row C ex orc tr) (hex : ex = true) :
    ∀ c, C.eval c = 0 := by
  induction h with
  | lastZero row A hn hz =>
    rintro ⟨s, c⟩
    have h1 := (Finset.sum_eq_zero_iff_of_nonneg (fun s _ => frob2_nonneg (A s))).mp hz s (Finset.mem_univ _)
    rw [eval_cons, frob2_eq_zero h1, Matrix.zero_mul]
  | qrZero row A C Q R huse hfac hR =>
    rintro ⟨s, c⟩
    have hA : stack A = 0 := by rw [hfac, frob2_eq_zero hR, Matrix.mul_zero]
    rw [eval_cons, unstack_zero_of_stack hA s, Matrix.zero_mul]
  | @svdZero d d' ds0 l0 m r0 n row A C U σv W sig huse hne hs0 hdesc hfac =>
    rintro ⟨s, c⟩
    have hσ : σv = 0 := by
      funext j
      have := hdesc j
      rw [hs0] at this
      have h0 : |σv j| ≤ 0 := by simpa using this
      exact abs_eq_zero.mp (le_antisymm h0 (abs_nonneg _))
    have hA : stack A = 0 := by
      rw [hfac, hσ]
      have : diagonal (0 : Fin n → ℝ) = 0 := by ext i j; simp [diagonal]
      rw [this, Matrix.mul_zero, Matrix.zero_mul]
    rw [eval_cons, unstack_zero_of_stack hA s, Matrix.zero_mul]
  | tolZero row A C sig huse hs0 hk => cases hex
  | qr row A C Q R c ex rn orc tr huse hk hrn hc hfac hiso _ ih =>
    rintro ⟨s, cf⟩
    have hA : A s = c • (unstack Q s * R) := by
      have := congrArg (fun M => unstack M s) hfac
      simpa only [unstack_stack, unstack_smul, unstack_mul] using this
    have := ih hex cf
    rw [eval_mulLeft] at this
    rw [eval_cons, hA, Matrix.smul_mul, Matrix.mul_assoc, this, Matrix.mul_zero, smul_zero]
  | @svd d d' ds0 l0 m r0 n k row A C U σv W c hkn ex sig orc tr huse hlen hsig hs0 hc hk hkept hfac hU hW _ ih =>
    rintro ⟨s, cf⟩
    rw [Bool.and_eq_true, decide_eq_true_eq] at hex
    obtain ⟨hex1, rfl⟩ := hex
    have hid : (Fin.castLE hkn : Fin k → Fin k) = id := by
      funext x; ext; rfl
    have := ih hex1 cf
    rw [eval_mulLeft, hid] at this
    simp only [Function.comp_id, submatrix_id_id] at this
    have hA : A s = c • (unstack U s * (diagonal σv * W)) := by
      have := congrArg (fun M => unstack M s) hfac
      simpa only [unstack_stack, unstack_smul, unstack_mul, Matrix.mul_assoc] using this
    rw [eval_cons, hA, Matrix.smul_mul, Matrix.mul_assoc, this, Matrix.mul_zero, smul_zero]

/-! ### 2. E, W of an MPO: the control flow sees `E·W` only -/

/-- merge the two physical legs of an MPO tensor into one of dimension `E·W` -/
def flat (t : Shape) : Shape := ⟨t.n, t.e * t.w, t.s, 1⟩

def flatFlow : Flow → Flow
  | .done out => .done (out.map flat)
  | .zero => .zero

def flatSweepRes (r : SweepRes) : SweepRes := ⟨flatFlow r.flow, r.trace, r.rest⟩

def flatRes (r : Res) : Res := { r with tensors := r.tensors.map (Option.map flat) }

def flatTruncRes (r : TruncRes) : TruncRes := { r with tensors := r.tensors.map (Option.map flat) }

theorem flat_rows (t : Shape) : (flat t).n * (flat t).e * (flat t).w = t.n * t.e * t.w := by
  simp only [flat, Nat.mul_one, Nat.mul_assoc]

theorem flatFlow_cons (t : Shape) (f : Flow) : flatFlow (f.cons t) = (flatFlow f).cons (flat t) := by
  cases f <;> rfl

/-- **the loop of the shape model commutes with merging the physical legs**: same errors, same zero flag, same trace
    (rows `N·E·W`, cols, kept ranks), same oracle consumption; the output shapes are the merged output shapes -/
theorem sweep_flat (p : Params) (mk : ℕ → Bool) : ∀ (more : List Shape) (row : ℕ) (cur : Shape) (orc : List Orc),
    sweep p mk row (flat cur) (more.map flat) orc = (sweep p mk row cur more orc).map flatSweepRes := by
  intro more
  induction more with
  | nil =>
    intro row cur orc
    simp only [List.map_nil, sweep]
    cases hn : p.normalise
    · rfl
    · simp only [if_true]
      cases orc with
      | nil => rfl
      | cons o orc' =>
        cases o with
        | qr x => rfl
        | svd x => rfl
        | last x => by_cases hx : x = 0 <;> simp [hx, Except.map, flatSweepRes, flatFlow]
  | cons nxt more ih =>
    intro row cur orc
    rw [List.map_cons]
    cases orc with
    | nil => rfl
    | cons o orc' =>
      conv_lhs => rw [sweep]
      conv_rhs => rw [sweep]
      simp only [flat_rows]
      show (match stepDecide p (p.qr || !(mk row)) (cur.n * cur.e * cur.w) cur.s o with
        | .error e => .error e
        | .ok .zero => .ok ⟨.zero, [⟨row, p.qr || !(mk row), cur.n * cur.e * cur.w, cur.s, none⟩], orc'⟩
        | .ok (.keep k) =>
            if bondClash cur.s nxt.n then .error .bond
            else match sweep p mk (row + 1) (flat { nxt with n := k }) (more.map flat) orc' with
              | .error e => .error e
              | .ok r => .ok ⟨r.flow.cons (flat { cur with s := k }),
                  ⟨row, p.qr || !(mk row), cur.n * cur.e * cur.w, cur.s, some k⟩ :: r.trace, r.rest⟩ :
        Except Err SweepRes) = _
      cases hs : stepDecide p (p.qr || !(mk row)) (cur.n * cur.e * cur.w) cur.s o with
      | error e => rfl
      | ok sr =>
        cases sr with
        | zero => rfl
        | keep k =>
          simp only [ih]
          cases hb : bondClash cur.s nxt.n
          · simp only [Bool.false_eq_true, if_false]
            cases hr : sweep p mk (row + 1) { nxt with n := k } more orc' with
            | error e => rfl
            | ok r => simp only [Except.map, flatSweepRes, flatFlow_cons]
          · rfl

theorem startStopAux_map (g : Shape → Shape) : ∀ (m : Mps) (i : ℕ) (st sp : Option ℕ),
    startStopAux (m.map (Option.map g)) i st sp = startStopAux m i st sp := by
  intro m
  induction m with
  | nil => intro i st sp; rfl
  | cons t ts ih =>
    intro i st sp
    cases st with
    | none => simp only [List.map_cons, startStopAux, Option.isSome_map, ih]
    | some a =>
      cases sp with
      | none => simp only [List.map_cons, startStopAux, Option.isNone_map, ih]
      | some b => simp only [List.map_cons, startStopAux, Option.isSome_map, ih]

theorem startStop_map (g : Shape → Shape) (m : Mps) : startStop (m.map (Option.map g)) = startStop m := by
  simp only [startStop, startStopAux_map, List.length_map]

theorem filterMap_id_map (g : Shape → Shape) (m : Mps) :
    (m.map (Option.map g)).filterMap id = (m.filterMap id).map g := by
  induction m with
  | nil => rfl
  | cons t ts ih =>
    cases t with
    | none =>
      rw [List.map_cons, Option.map_none, List.filterMap_cons_none rfl, List.filterMap_cons_none rfl, ih]
    | some v =>
      rw [List.map_cons, Option.map_some, List.filterMap_cons_some (f := id) (b := g v) rfl,
        List.filterMap_cons_some (f := id) (b := v) rfl, ih, List.map_cons]

theorem zerosLike_flat (m : Mps) : zerosLike (m.map (Option.map flat)) = (zerosLike m).map (Option.map flat) := by
  simp only [zerosLike, List.map_map]
  apply List.map_congr_left
  intro t _
  cases t <;> rfl

theorem maskLenBad_map (mask : Option (List Bool)) (g : Shape → Shape) (m : Mps) :
    maskLenBad mask (m.map (Option.map g)) = maskLenBad mask m := by
  cases mask <;> simp [maskLenBad]

/-- **`left_canonical_form` of the shape model commutes with merging the physical legs** -/
theorem lcf_flat (p : Params) (m : Mps) (orc : List Orc) :
    lcf p (m.map (Option.map flat)) orc = (lcf p m orc).map flatRes := by
  unfold lcf
  rw [maskLenBad_map, startStop_map]
  cases (p.chiOn && p.qr)
  swap
  · rfl
  cases (p.tolOn && p.qr)
  swap
  · rfl
  cases maskLenBad p.mask m
  swap
  · rfl
  simp only [Bool.false_eq_true, if_false]
  cases hss : startStop m with
  | error e => rfl
  | ok ab =>
    obtain ⟨a, b⟩ := ab
    simp only
    rw [← List.map_drop, ← List.map_take, filterMap_id_map]
    cases hrun : ((m.drop a).take (b - a)).filterMap id with
    | nil => rfl
    | cons cur more =>
      simp only [List.map_cons, sweep_flat]
      cases hsw : sweep p (maskAt p.mask) a cur more orc with
      | error e => rfl
      | ok r =>
        simp only [Except.map, flatSweepRes]
        cases hf : r.flow with
        | zero => simp only [flatFlow, zerosLike_flat]; rfl
        | done out =>
          simp only [flatFlow, flatRes, List.map_append, List.map_take, List.map_drop, List.map_map]
          rfl

theorem rev_flat (m : Mps) : Mps.rev (m.map (Option.map flat)) = (Mps.rev m).map (Option.map flat) := by
  simp only [Mps.rev, ← List.map_reverse, List.map_map]
  apply List.map_congr_left
  intro t _
  cases t <;> rfl

/-- **`right_canonical_form` of the shape model commutes with merging the physical legs** -/
theorem rcf_flat (p : Params) (m : Mps) (orc : List Orc) :
    rcf p (m.map (Option.map flat)) orc = (rcf p m orc).map flatRes := by
  unfold rcf
  rw [rev_flat, lcf_flat, List.length_map]
  cases lcf { p with mask := p.mask.map List.reverse } (Mps.rev m) orc with
  | error e => rfl
  | ok r => simp only [Except.map, flatRes, rev_flat]

theorem siteN_flat (t : Site) : siteN (Option.map flat t) = siteN t := by
  cases t <;> rfl

theorem bondDim_flat (m : Mps) : bondDim (m.map (Option.map flat)) = bondDim m := by
  simp only [bondDim, List.foldl_map, siteN_flat]

theorem truncGuard_flat (chi : Option ℕ) (tol : Option ℚ) (mask : Option (List Bool)) (m : Mps) :
    truncGuard chi tol mask (m.map (Option.map flat)) = truncGuard chi tol mask m := by
  simp only [truncGuard, List.length_map, bondDim_flat]

/-- **`truncate` of the shape model commutes with merging the physical legs** -/
theorem truncate_flat (chi : Option ℕ) (tol : Option ℚ) (mask : Option (List Bool)) (m : Mps) (orc : List Orc) :
    truncate chi tol mask (m.map (Option.map flat)) orc = (truncate chi tol mask m orc).map flatTruncRes := by
  unfold truncate
  rw [truncGuard_flat, lcf_flat]
  cases truncGuard chi tol mask m
  · rfl
  · simp only [Bool.not_true, Bool.false_eq_true, if_false]
    cases lcf { qr := true, normalise := true } m orc with
    | error e => rfl
    | ok r1 =>
      simp only [Except.map, flatRes, rcf_flat]
      cases rcf { chi := chi, tol := tol, mask := mask } r1.tensors r1.rest with
      | error e => rfl
      | ok r2 => rfl

/-- all-QR zero-exit derivations discard nothing -/
theorem ZSweep.exact_of_qr {p : Params} {mk : ℕ → Bool} (hq : ∀ row, (p.qr || !(mk row)) = true) {ds : List ℕ}
    {l r : ℕ} {row : ℕ} {C : Chain ds l r} {ex : Bool} {orc : List Orc} {tr : List Step}
    (h : ZSweep p mk row C ex orc tr) : ex = true := by
  induction h with
  | lastZero row A hn hz => rfl
  | qrZero row A C Q R huse hfac hR => rfl
  | svdZero row A C U σv W sig huse hne hs0 hdesc hfac => rfl
  | tolZero row A C sig huse hs0 hk => rw [hq row] at huse; cases huse
  | qr row A C Q R c ex rn orc tr huse hk hrn hc hfac hiso _ ih => exact ih
  | svd row A C U σv W c hkn ex sig orc tr huse hlen hsig hs0 hc hk hkept hfac hU hW _ ih =>
    rw [hq row] at huse; cases huse

/-! ### 3. converse for runs with SVD steps -/

/-- `U · diag(sig) · W` is an SVD of the reshaped site `A` WHOSE VALUES ARE THE ORACLE'S LIST `sig` (the raw values the
    code read from LAPACK): written with the normalised values `σ_j = sig_j / sig_0`, `stack A = sig_0 • (U diag σ W)` -/
def IsSvd {d l m : ℕ} (A : Fin d → Matrix (Fin l) (Fin m) ℝ) (sig : List ℚ)
    (U : Matrix (Fin l × Fin d) (Fin sig.length) ℝ) (σv : Fin sig.length → ℝ)
    (W : Matrix (Fin sig.length) (Fin m) ℝ) : Prop :=
  (∀ j : Fin sig.length, ((sig.getD j 0 : ℚ) : ℝ) = ((sig.headD 0 : ℚ) : ℝ) * σv j) ∧
    stack A = ((sig.headD 0 : ℚ) : ℝ) • (U * diagonal σv * W) ∧ Uᵀ * U = 1 ∧ W * Wᵀ = 1

/-- **the per-step hypothesis of the converse, threaded through the chain**: "at every SVD step the matrix met has an
    SVD whose values are the oracle's list".  The matrix met at a step depends on the factors chosen at the steps
    before, so the hypothesis is stated along the oracle list, for EVERY choice of earlier factors:
    * at an oracle entry `qr rn`: for every thin QR factorisation `stack A = rn • (Q R)` the rest is consistent;
    * at an oracle entry `svd sig`: the matrix met HAS an SVD with values `sig`, and for every such SVD, with the kept
      rank the code computes, the rest is consistent;
    * at the last site nothing is asked. -/
inductive SvdCons (p : Params) (mk : ℕ → Bool) :
    {ds : List ℕ} → {l r : ℕ} → ℕ → Chain ds l r → List Orc → Prop
  | last {d l r : ℕ} (row : ℕ) (A : Fin d → Matrix (Fin l) (Fin r) ℝ) (orc : List Orc) :
      SvdCons p mk row (.cons A .nil) orc
  | qr {d d' : ℕ} {ds : List ℕ} {l m r : ℕ} (row : ℕ) (A : Fin d → Matrix (Fin l) (Fin m) ℝ)
      (C : Chain (d' :: ds) m r) (rn : ℚ) (orc : List Orc)
      (h : ∀ (Q : Matrix (Fin l × Fin d) (Fin (min (l * d * 1) m)) ℝ) (R : Matrix (Fin (min (l * d * 1) m)) (Fin m) ℝ),
        stack A = (rn : ℝ) • (Q * R) → Qᵀ * Q = 1 → SvdCons p mk (row + 1) (C.mulLeft R) orc) :
      SvdCons p mk row (.cons A C) (.qr rn :: orc)
  | svd {d d' : ℕ} {ds : List ℕ} {l m r : ℕ} (row : ℕ) (A : Fin d → Matrix (Fin l) (Fin m) ℝ)
      (C : Chain (d' :: ds) m r) (sig : List ℚ) (orc : List Orc)
      (hex : ∃ U σv W, IsSvd A sig U σv W)
      (h : ∀ U σv W, IsSvd A sig U σv W → ∀ (k : ℕ) (hkn : k ≤ sig.length),
        k = min (min (l * d * 1) m) (keptSigmas p.chi p.tol sig).length →
        SvdCons p mk (row + 1)
          (C.mulLeft (diagonal (σv ∘ Fin.castLE hkn) * W.submatrix (Fin.castLE hkn) id)) orc) :
      SvdCons p mk row (.cons A C) (.svd sig :: orc)

theorem SvdCons.qr_inv {p : Params} {mk : ℕ → Bool} {d d' : ℕ} {ds : List ℕ} {l m r : ℕ} {row : ℕ}
    {A : Fin d → Matrix (Fin l) (Fin m) ℝ} {C : Chain (d' :: ds) m r} {rn : ℚ} {orc : List Orc}
    (h : SvdCons p mk row (.cons A C) (.qr rn :: orc)) :
    ∀ (Q : Matrix (Fin l × Fin d) (Fin (min (l * d * 1) m)) ℝ) (R : Matrix (Fin (min (l * d * 1) m)) (Fin m) ℝ),
      stack A = (rn : ℝ) • (Q * R) → Qᵀ * Q = 1 → SvdCons p mk (row + 1) (C.mulLeft R) orc := by
  cases h with
  | qr _ _ _ _ _ h => exact h

theorem SvdCons.svd_inv {p : Params} {mk : ℕ → Bool} {d d' : ℕ} {ds : List ℕ} {l m r : ℕ} {row : ℕ}
    {A : Fin d → Matrix (Fin l) (Fin m) ℝ} {C : Chain (d' :: ds) m r} {sig : List ℚ} {orc : List Orc}
    (h : SvdCons p mk row (.cons A C) (.svd sig :: orc)) :
    (∃ U σv W, IsSvd A sig U σv W) ∧
      ∀ U σv W, IsSvd A sig U σv W → ∀ (k : ℕ) (hkn : k ≤ sig.length),
        k = min (min (l * d * 1) m) (keptSigmas p.chi p.tol sig).length →
        SvdCons p mk (row + 1)
          (C.mulLeft (diagonal (σv ∘ Fin.castLE hkn) * W.submatrix (Fin.castLE hkn) id)) orc := by
  cases h with
  | svd _ _ _ _ _ hex h => exact ⟨hex, h⟩

theorem stepDecide_svd_inv {p : Params} {rows cols : ℕ} {o : Orc} {k : ℕ}
    (h : stepDecide p false rows cols o = .ok (.keep k)) :
    ∃ sig, o = .svd sig ∧ sig.headD 0 ≠ 0 ∧ k = min (min rows cols) (keptSigmas p.chi p.tol sig).length ∧
      (keptSigmas p.chi p.tol sig).length ≠ 0 := by
  obtain ⟨sig, rfl, hk, hne⟩ := stepDecide_svd_keep h
  refine ⟨sig, rfl, ?_, hk, hne⟩
  intro h0
  have hne' : sig ≠ [] := by
    intro hnil
    rw [hnil] at h
    simp [stepDecide] at h
  have hz : stepDecide p false rows cols (.svd sig) = .ok .zero := stepDecide_svd_zero hne' (Or.inl h0)
  rw [hz] at h
  cases h

/-- **converse, runs with SVD steps**: every run of the shape model's loop on the shapes of `C` that ends without the
    zero flag is the shadow of a derivation from `C` — with the run's oracle entries, trace and output shapes —
    provided thin QR factorisations exist and the oracle is consistent with the chain (`SvdCons`) -/
theorem exists_rsweep_of_svd_run (prov : QRProvider) (p : Params) (mk : ℕ → Bool) :
    ∀ {ds : List ℕ} {l r : ℕ} (C : Chain ds l r) (row : ℕ) (cur : Shape) (more : List Shape) (orc : List Orc)
      (sr : SweepRes) (out : List Shape), shapeOf C = cur :: more → sweep p mk row cur more orc = .ok sr →
      sr.flow = .done out → SvdCons p mk row C orc →
      ∃ (nrm w : ℝ) (C' : Chain ds l r) (orc' fin : List Orc), orc = orc' ++ (fin ++ sr.rest) ∧ FinOk p fin ∧
        RSweep p mk row C nrm C' w orc' sr.trace ∧ shapeOf C' = out := by
  intro ds
  induction ds with
  | nil => intro l r C; cases C; intro row cur more orc sr out hsh; cases hsh
  | cons d ds ih =>
    intro l r C
    cases C with
    | @cons _ _ _ m _ A C0 =>
      intro row cur more orc sr out hsh hrun hflow hcons
      cases C0 with
      | nil =>
        obtain ⟨rfl, rfl⟩ := List.cons.inj hsh
        rcases sweep_nil_ok hrun with ⟨hn, rfl⟩ | ⟨hn, x, orc1, rfl, ⟨hx, rfl⟩ | ⟨hx, rfl⟩⟩
        · simp only [Flow.done.injEq] at hflow
          exact ⟨1, 0, _, [], [], rfl, Or.inl ⟨hn, rfl⟩, RSweep.last row A, hflow⟩
        · cases hflow
        · simp only [Flow.done.injEq] at hflow
          exact ⟨1, 0, _, [], [.last x], rfl, Or.inr ⟨hn, x, hx, rfl⟩, RSweep.last row A, hflow⟩
      | @cons d' ds' _ m' _ B C1 =>
        obtain ⟨rfl, rfl⟩ := List.cons.inj hsh
        obtain ⟨o, orc1, rfl, ⟨_, rfl⟩ | ⟨k, r', hstep, _, hsw, rfl⟩⟩ := sweep_cons_ok hrun
        · cases hflow
        · obtain ⟨out', hf', rfl⟩ := flow_cons_done hflow
          cases huse : (p.qr || !(mk row)) with
          | true =>
            rw [huse] at hstep
            obtain ⟨rn, rfl, hrn0, rfl⟩ := stepDecide_qr_inv hstep
            have hc : (rn : ℝ) ≠ 0 := by exact_mod_cast hrn0
            obtain ⟨Q, R, hfac, hiso⟩ := prov (stack A) (rn : ℝ) hc
            have hcons' := hcons.qr_inv Q R hfac hiso
            obtain ⟨nrm, w, C', orc', fin, rfl, hfin, hrs, hout⟩ :=
              ih ((Chain.cons B C1).mulLeft R) (row + 1) ⟨min (l * d * 1) m, d', m', 1⟩ (shapeOf C1) orc1 r' out' rfl
                hsw hf' hcons'
            refine ⟨(rn : ℝ) * nrm, (rn : ℝ) ^ 2 * w, .cons (unstack Q) C', .qr rn :: orc', fin, rfl, hfin, ?_, ?_⟩
            · exact RSweep.qr row A (.cons B C1) Q R (rn : ℝ) nrm C' w rn orc' r'.trace huse rfl rfl hc hfac hiso hrs
            · rw [shapeOf_cons, hout]
          | false =>
            rw [huse] at hstep
            obtain ⟨sig, rfl, hs0, rfl, hkept⟩ := stepDecide_svd_inv hstep
            obtain ⟨⟨U, σv, W, hsvd⟩, hall⟩ := hcons.svd_inv
            have hkn : min (min (l * d * 1) m) (keptSigmas p.chi p.tol sig).length ≤ sig.length :=
              le_trans (Nat.min_le_right _ _) (keptSigmas_length_le _ _ _)
            have hcons' := hall U σv W hsvd _ hkn rfl
            obtain ⟨hsig, hfac, hU, hW⟩ := hsvd
            have hc : ((sig.headD 0 : ℚ) : ℝ) ≠ 0 := by exact_mod_cast hs0
            obtain ⟨nrm, w, C', orc', fin, rfl, hfin, hrs, hout⟩ :=
              ih ((Chain.cons B C1).mulLeft
                  (diagonal (σv ∘ Fin.castLE hkn) * W.submatrix (Fin.castLE hkn) id)) (row + 1)
                ⟨min (min (l * d * 1) m) (keptSigmas p.chi p.tol sig).length, d', m', 1⟩ (shapeOf C1) orc1 r' out' rfl
                hsw hf' hcons'
            refine ⟨((sig.headD 0 : ℚ) : ℝ) * nrm,
              ((sig.headD 0 : ℚ) : ℝ) ^ 2 * (∑ j, σv j ^ 2 - ∑ x, σv (Fin.castLE hkn x) ^ 2)
                + ((sig.headD 0 : ℚ) : ℝ) ^ 2 * w, .cons (unstack (U.submatrix id (Fin.castLE hkn))) C',
              .svd sig :: orc', fin, rfl, hfin, ?_, ?_⟩
            · exact RSweep.svd row A (.cons B C1) U σv W ((sig.headD 0 : ℚ) : ℝ) hkn nrm C' w sig orc' r'.trace huse
                rfl hsig rfl hc rfl hkept hfac hU hW hrs
            · rw [shapeOf_cons, hout]

/-! ### 4. inversion of `lcf` on a padded run -/

theorem lcf_padded_error (p : Params) (a b : ℕ) (cur : Shape) (more : List Shape) (orc : List Orc) (e : Err)
    (h1 : (p.chiOn && p.qr) = false) (h2 : (p.tolOn && p.qr) = false)
    (h3 : maskLenBad p.mask (List.replicate a none ++ ((cur :: more).map some ++ List.replicate b none)) = false)
    (hsw : sweep p (maskAt p.mask) a cur more orc = .error e) :
    lcf p (List.replicate a none ++ ((cur :: more).map some ++ List.replicate b none)) orc = .error e := by
  obtain ⟨e1, e2, e3⟩ := split3 (m := List.replicate a none ++ ((cur :: more).map some ++ List.replicate b none))
    rfl (List.length_replicate ..) (n := more.length + 1) (by simp)
  unfold lcf
  rw [h1, h2, h3]
  simp only [Bool.false_eq_true, if_false, startStop_padded]
  rw [show a + (more.length + 1) - a = more.length + 1 by omega, e2, filterMap_id_map_some]
  simp only [hsw]

/-- a successful `lcf` on a padded run is a successful loop; without the zero flag the result is the padded output -/
theorem lcf_padded_inv (p : Params) (a b : ℕ) (cur : Shape) (more : List Shape) (orc : List Orc) (res : Res)
    (h : lcf p (List.replicate a none ++ ((cur :: more).map some ++ List.replicate b none)) orc = .ok res) :
    ∃ sr, sweep p (maskAt p.mask) a cur more orc = .ok sr ∧
      ((sr.flow = .zero ∧ res.zero = true) ∨
       ∃ out, sr.flow = .done out ∧
        res = ⟨List.replicate a none ++ (out.map some ++ List.replicate b none), false, sr.trace, sr.rest⟩) := by
  obtain ⟨h1, h2, h3⟩ := lcf_ok_asserts h
  cases hsw : sweep p (maskAt p.mask) a cur more orc with
  | error e =>
    rw [lcf_padded_error p a b cur more orc e h1 h2 h3 hsw] at h
    cases h
  | ok sr =>
    refine ⟨sr, rfl, ?_⟩
    cases hf : sr.flow with
    | zero =>
      rw [lcf_padded_zero p a b cur more orc sr h1 h2 h3 hsw hf] at h
      cases h
      exact Or.inl ⟨rfl, rfl⟩
    | done out =>
      rw [lcf_padded p a b cur more orc sr out h1 h2 h3 hsw hf] at h
      cases h
      exact Or.inr ⟨out, rfl, rfl⟩

theorem shapeOf_ne_nil {ds : List ℕ} {l r : ℕ} (C : Chain ds l r) (hne : ds ≠ []) :
    ∃ cur more, shapeOf C = cur :: more := by
  cases C with
  | nil => exact absurd rfl hne
  | cons A C => exact ⟨_, _, rfl⟩

/-! ### 5. a zero flag without `normalise` shows in the trace -/

theorem sweep_zero_has_none (p : Params) (mk : ℕ → Bool) (hn : p.normalise = false) :
    ∀ (more : List Shape) (row : ℕ) (cur : Shape) (orc : List Orc) (r : SweepRes),
      sweep p mk row cur more orc = .ok r → r.flow = .zero → ∃ st ∈ r.trace, st.kept = none := by
  intro more
  induction more with
  | nil =>
    intro row cur orc r h hf
    rcases sweep_nil_ok h with ⟨_, rfl⟩ | ⟨hn', _⟩
    · cases hf
    · rw [hn] at hn'; cases hn'
  | cons nxt more ih =>
    intro row cur orc r h hf
    obtain ⟨o, orc', rfl, ⟨_, rfl⟩ | ⟨k, r', hk, hb, hr', rfl⟩⟩ := sweep_cons_ok h
    · exact ⟨_, List.mem_cons_self, rfl⟩
    · have hf' : r'.flow = .zero := by
        cases hfl : r'.flow with
        | zero => rfl
        | done out => rw [hfl] at hf; cases hf
      obtain ⟨st, hst, hk'⟩ := ih _ _ _ _ hr' hf'
      exact ⟨st, List.mem_cons_of_mem _ hst, hk'⟩

theorem lcf_zero_has_none {p : Params} (hn : p.normalise = false) {m : Mps} {orc : List Orc} {r : Res}
    (h : lcf p m orc = .ok r) (hz : r.zero = true) : ∃ st ∈ r.trace, st.kept = none := by
  obtain ⟨a, c, run, hm, ⟨_, rfl⟩ | ⟨cur, more, sr, rfl, hsw, ⟨hf, rfl⟩ | ⟨out, hf, rfl⟩⟩⟩ := lcf_ok h
  · cases hz
  · exact sweep_zero_has_none p _ hn more a cur orc sr hsw hf
  · cases hz

theorem rcf_zero_has_none {p : Params} (hn : p.normalise = false) {m : Mps} {orc : List Orc} {r : Res}
    (h : rcf p m orc = .ok r) (hz : r.zero = true) : ∃ st ∈ r.trace, st.kept = none := by
  unfold rcf at h
  cases hl : lcf { p with mask := p.mask.map List.reverse } (Mps.rev m) orc with
  | error e => rw [hl] at h; cases h
  | ok r' =>
    rw [hl] at h
    simp only [Except.ok.injEq] at h
    subst h
    obtain ⟨st, hst, hk⟩ := lcf_zero_has_none (p := { p with mask := p.mask.map List.reverse }) hn hl hz
    exact ⟨_, List.mem_map_of_mem hst, hk⟩

end Qec.SweepLink2
