import QecVerif.Model.Pauli
import Mathlib.Data.Nat.Choose.Basic
import Mathlib.Data.List.Perm.Basic
import Mathlib.Data.List.Nodup
import Mathlib.Tactic.Ring
namespace Qec

/-! ### combinations / place, characterised from the front -/

theorem combinations_zero {α} (xs : List α) : combinations xs 0 = [[]] := by
  cases xs <;> rfl

theorem combinations_map {α β} (f : α → β) (xs : List α) (k : Nat) :
    combinations (xs.map f) k = (combinations xs k).map (List.map f) := by
  induction xs generalizing k with
  | nil => cases k <;> simp [combinations]
  | cons x xs ih =>
    cases k with
    | zero => simp [combinations]
    | succ k =>
      simp only [List.map_cons, combinations, ih, List.map_append, List.map_map]
      congr 1

theorem foldl_set_succ (qs : List Nat) (ls : List P1) (a : P1) (acc : PStr) :
    (List.zip (qs.map Nat.succ) ls).foldl (fun acc ql => acc.set ql.1 ql.2) (a :: acc)
      = a :: (List.zip qs ls).foldl (fun acc ql => acc.set ql.1 ql.2) acc := by
  induction qs generalizing ls acc with
  | nil => simp
  | cons q qs ih =>
    cases ls with
    | nil => simp
    | cons l ls =>
      simp only [List.map_cons, List.zip_cons_cons, List.foldl_cons, Nat.succ_eq_add_one,
        List.set_cons_succ]
      exact ih ls _

theorem place_succ (n : Nat) (qs : List Nat) (ls : List P1) :
    place (n + 1) (qs.map Nat.succ) ls = P1.I :: place n qs ls := by
  unfold place
  rw [List.replicate_succ]
  exact foldl_set_succ qs ls _ _

theorem place_zero_cons (n : Nat) (qs : List Nat) (l : P1) (ls : List P1) :
    place (n + 1) (0 :: qs.map Nat.succ) (l :: ls) = l :: place n qs ls := by
  unfold place
  rw [List.replicate_succ]
  simp only [List.zip_cons_cons, List.foldl_cons, List.set_cons_zero]
  exact foldl_set_succ qs ls _ _

/-! ### recursion for `paulisOfWeight` -/

theorem paulisOfWeight_zero (n : Nat) : paulisOfWeight n 0 = [List.replicate n P1.I] := by
  simp [paulisOfWeight, combinations_zero, product, place]

theorem paulisOfWeight_zero_succ (w : Nat) : paulisOfWeight 0 (w + 1) = [] := by
  simp [paulisOfWeight, combinations]

theorem paulisOfWeight_succ_zero (n : Nat) :
    paulisOfWeight (n + 1) 0 = (paulisOfWeight n 0).map (P1.I :: ·) := by
  simp [paulisOfWeight_zero, List.replicate_succ]

theorem paulisOfWeight_succ_succ (n w : Nat) :
    List.Perm (paulisOfWeight (n + 1) (w + 1))
      ((paulisOfWeight n w).map (P1.X :: ·) ++ ((paulisOfWeight n w).map (P1.Z :: ·) ++
        ((paulisOfWeight n w).map (P1.Y :: ·) ++ (paulisOfWeight n (w + 1)).map (P1.I :: ·)))) := by
  have h1 : paulisOfWeight (n + 1) (w + 1) =
      ((combinations (List.range n) w).flatMap fun qs =>
        ((product [P1.X, P1.Z, P1.Y] w).map fun ls => P1.X :: place n qs ls) ++
        (((product [P1.X, P1.Z, P1.Y] w).map fun ls => P1.Z :: place n qs ls) ++
        ((product [P1.X, P1.Z, P1.Y] w).map fun ls => P1.Y :: place n qs ls))) ++
      (paulisOfWeight n (w + 1)).map (P1.I :: ·) := by
    unfold paulisOfWeight
    rw [List.range_succ_eq_map, combinations, combinations_map, combinations_map,
      List.flatMap_append]
    congr 1
    · rw [List.map_map, List.flatMap_map]
      apply List.flatMap_congr
      intro qs _
      simp [product, place_zero_cons, Function.comp_def]
    · rw [List.flatMap_map, List.map_flatMap]
      apply List.flatMap_congr
      intro qs _
      simp [place_succ, Function.comp_def]
  rw [h1]
  simp only [← List.append_assoc]
  refine List.Perm.append_right _ ?_
  simp only [List.append_assoc]
  have e : ∀ a : P1, (paulisOfWeight n w).map (a :: ·) =
      (combinations (List.range n) w).flatMap fun qs =>
        (product [P1.X, P1.Z, P1.Y] w).map fun ls => a :: place n qs ls := by
    intro a
    unfold paulisOfWeight
    rw [List.map_flatMap]
    simp [Function.comp_def]
  rw [e, e, e]
  refine List.Perm.symm ?_
  refine List.Perm.trans ?_ (List.flatMap_append_perm _ _ _)
  refine List.Perm.append_left _ ?_
  exact List.flatMap_append_perm _ _ _

/-! ### membership, nodup, length of `paulisOfWeight` -/

theorem pauliWt_cons (a : P1) (p : PStr) :
    pauliWt (a :: p) = pauliWt p + if a = P1.I then 0 else 1 := by
  cases a <;> simp [pauliWt]

theorem mem_paulisOfWeight (n w : Nat) (p : PStr) :
    p ∈ paulisOfWeight n w ↔ p.length = n ∧ pauliWt p = w := by
  induction n generalizing w p with
  | zero =>
    cases w with
    | zero =>
      simp only [paulisOfWeight_zero, List.replicate_zero, List.mem_singleton, List.length_eq_zero_iff]
      constructor
      · rintro rfl; exact ⟨rfl, rfl⟩
      · exact fun h => h.1
    | succ w =>
      simp only [paulisOfWeight_zero_succ, List.not_mem_nil, List.length_eq_zero_iff, false_iff]
      rintro ⟨rfl, h⟩
      simp [pauliWt] at h
  | succ n ih =>
    cases p with
    | nil =>
      constructor
      · intro h
        cases w with
        | zero => simp [paulisOfWeight_succ_zero] at h
        | succ w =>
          have := (paulisOfWeight_succ_succ n w).mem_iff.mp h
          simp at this
      · rintro ⟨h, _⟩; simp at h
    | cons a p =>
      cases w with
      | zero =>
        rw [paulisOfWeight_succ_zero, pauliWt_cons]
        cases a <;> simp [ih]
      | succ w =>
        rw [(paulisOfWeight_succ_succ n w).mem_iff, pauliWt_cons]
        cases a <;> simp [ih]

theorem cons_injective (a : P1) : Function.Injective (fun p : PStr => a :: p) := by
  intro p q h; simpa using h

theorem nodup_paulisOfWeight (n w : Nat) : (paulisOfWeight n w).Nodup := by
  induction n generalizing w with
  | zero =>
    cases w with
    | zero => simp [paulisOfWeight_zero]
    | succ w => simp [paulisOfWeight_zero_succ]
  | succ n ih =>
    cases w with
    | zero => simp [paulisOfWeight_zero]
    | succ w =>
      rw [(paulisOfWeight_succ_succ n w).nodup_iff]
      have hX := (ih w).map (cons_injective P1.X)
      have hZ := (ih w).map (cons_injective P1.Z)
      have hY := (ih w).map (cons_injective P1.Y)
      have hI := (ih (w + 1)).map (cons_injective P1.I)
      simp only [List.nodup_append, hX, hZ, hY, hI, true_and]
      simp only [List.mem_map, List.mem_append, ne_eq]
      refine ⟨⟨?_, ?_⟩, ?_⟩ <;>
      · rintro _ ⟨a, _, rfl⟩ b hb rfl
        simp at hb

theorem length_paulisOfWeight (n w : Nat) :
    (paulisOfWeight n w).length = Nat.choose n w * 3 ^ w := by
  induction n generalizing w with
  | zero =>
    cases w with
    | zero => simp [paulisOfWeight_zero]
    | succ w => simp [paulisOfWeight_zero_succ]
  | succ n ih =>
    cases w with
    | zero => simp [paulisOfWeight_zero]
    | succ w =>
      rw [(paulisOfWeight_succ_succ n w).length_eq]
      simp only [List.length_append, List.length_map, ih, Nat.choose_succ_succ]
      ring

/-! ### the specs -/

theorem ipauli_spec (n lo hi : Nat) (h : lo ≤ hi ∧ hi ≤ n) :
    ∃ l, ipauli n lo hi = some l ∧
      (∀ p : PStr, p ∈ l ↔ (p.length = n ∧ lo ≤ pauliWt p ∧ pauliWt p ≤ hi)) ∧
      l.Nodup ∧ l.Pairwise (fun p q => pauliWt p ≤ pauliWt q) := by
  refine ⟨_, if_pos h, ?_, ?_, ?_⟩
  · intro p
    simp only [List.mem_flatMap, List.mem_range, mem_paulisOfWeight]
    constructor
    · rintro ⟨i, hi', hl, hw⟩
      exact ⟨hl, by omega, by omega⟩
    · rintro ⟨hl, h1, h2⟩
      exact ⟨pauliWt p - lo, by omega, hl, by omega⟩
  · rw [List.nodup_flatMap]
    refine ⟨fun i _ => nodup_paulisOfWeight _ _, ?_⟩
    refine List.Pairwise.imp ?_ (List.pairwise_lt_range (n := hi + 1 - lo))
    intro i j hij
    simp only [Function.onFun]
    rw [List.disjoint_left]
    intro p hp hq
    rw [mem_paulisOfWeight] at hp hq
    omega
  · rw [List.pairwise_flatMap]
    constructor
    · intro i _
      apply List.pairwise_of_forall_mem_list
      intro p hp q hq
      rw [mem_paulisOfWeight] at hp hq
      omega
    · refine List.Pairwise.imp ?_ (List.pairwise_lt_range (n := hi + 1 - lo))
      intro i j hij p hp q hq
      rw [mem_paulisOfWeight] at hp hq
      omega

theorem ipauli_length_spec (n lo hi : Nat) (h : lo ≤ hi ∧ hi ≤ n) :
    ∃ l, ipauli n lo hi = some l ∧
      l.length = ((List.range (hi + 1 - lo)).map fun i => Nat.choose n (lo + i) * 3 ^ (lo + i)).sum := by
  refine ⟨_, if_pos h, ?_⟩
  rw [List.length_flatMap]
  simp only [length_paulisOfWeight]

end Qec
