/-
  Helper lemmas for the planar Y decoder, part 6b: an all-Y operator against the logical operators (X on the last
  column, Z on the last row), and the pairing of the visits of a bouncing coordinate to the line next to a wall.
-/
import QecVerif.Lemmas.PlanarYRestSnake
namespace Qec.PlanarYL
open Qec Qec.Planar Qec.Symp Qec.PlanarCode Qec.PlanarY

/-- an operator whose two bits at every in-bounds site XOR to `F`, against an all-Y operator -/
theorem bsp_yop_of_bits (R C : Int) (hR : 2 ≤ R) (hC : 2 ≤ C) (a : BVec) (ha : a.length = 2 * nq R C)
    (l : List (Int × Int)) (hl : AllSites l) (F : Int × Int → Bool)
    (hF : ∀ s, (s.1 + s.2) % 2 = 0 → inBounds R C s.1 s.2 = true →
      (a.getD (nq R C + fl R C s) false ^^ a.getD (fl R C s) false) = F s) :
    bsp a (yop R C l) = xorSum l (fun s => inBounds R C s.1 s.2 && F s) := by
  unfold yop
  rw [sites_eq_gsites, identity_eq,
    bsp_ysites_right (nq R C) (dom R C) (fl R C) a ha _ (zeros_length _) l (flatLt_of_allSites R C hR hC l hl),
    bsp_zeros_right, Bool.false_xor]
  apply xorSum_congr
  intro s hs
  by_cases hb : inBounds R C s.1 s.2 = true
  · have e : dom R C s = true := hb
    rw [e, hb, Bool.true_and, Bool.true_and]
    exact hF s (hl s hs) hb
  · have e : dom R C s = false := by simpa [dom] using hb
    simp [e, hb]

/-- `logical_x` against an all-Y operator: parity of its in-bounds sites on the even rows of the last column -/
theorem bsp_logicalX_yop (R C : Int) (hR : 2 ≤ R) (hC : 2 ≤ C) (l : List (Int × Int)) (hl : AllSites l) :
    bsp (logicalX R C) (yop R C l) =
      xorSum l (fun s => inBounds R C s.1 s.2 && occ (colRun R.toNat (2 * C - 2)) s) := by
  apply bsp_yop_of_bits R C hR hC _ (by rw [logicalX_eq]; exact siteop_length _ _ _ _) l hl
  intro s h2 hb
  have h1 := getD_siteop_same R C hR hC false _ (allSites_colRun R.toNat (2 * C - 2) (by omega)) s h2 hb
  have h0 := getD_siteop_other R C hR hC false _ (allSites_colRun R.toNat (2 * C - 2) (by omega)) s h2 hb
  simp only [off, Bool.false_eq_true, if_false, Nat.zero_add, Bool.not_false, if_true] at h1 h0
  rw [logicalX_eq, h1, h0, Bool.false_xor]

/-- `logical_z` against an all-Y operator: parity of its in-bounds sites on the even columns of the last row -/
theorem bsp_logicalZ_yop (R C : Int) (hR : 2 ≤ R) (hC : 2 ≤ C) (l : List (Int × Int)) (hl : AllSites l) :
    bsp (logicalZ R C) (yop R C l) =
      xorSum l (fun s => inBounds R C s.1 s.2 && occ (rowRun C.toNat (2 * R - 2)) s) := by
  apply bsp_yop_of_bits R C hR hC _ (by rw [logicalZ_eq]; exact siteop_length _ _ _ _) l hl
  intro s h2 hb
  have h1 := getD_siteop_same R C hR hC true _ (allSites_rowRun C.toNat (2 * R - 2) (by omega)) s h2 hb
  have h0 := getD_siteop_other R C hR hC true _ (allSites_rowRun C.toNat (2 * R - 2) (by omega)) s h2 hb
  simp only [off, Bool.false_eq_true, if_false, Nat.zero_add, Bool.not_true, if_true] at h1 h0
  rw [logicalZ_eq, h1, h0, Bool.xor_false]

/-! ### visits of a bouncing coordinate to the last line come in pairs around each bounce -/

theorem xorSum_range_telescope2 (K : Nat) (w : Nat → Bool) :
    xorSum (List.range K) (fun k => w k ^^ w (k + 2)) = ((w 0 ^^ w 1) ^^ (w K ^^ w (K + 1))) := by
  apply xorSum_range_telescope K _ (fun k => w k ^^ w (k + 1))
  intro i _
  show (w i ^^ w (i + 2)) = ((w i ^^ w (i + 1)) ^^ (w (i + 1) ^^ w (i + 1 + 1)))
  rw [show i + 1 + 1 = i + 2 from rfl]
  cases w i <;> cases w (i + 1) <;> cases w (i + 2) <;> rfl

/-- a coordinate is on the last line `M` iff exactly one of its neighbours in time is just beyond it -/
theorem triple_last (M a b c : Int) (hM : 0 ≤ M) (h : Triple M a b c) :
    decide (b = M) = (decide (a = M + 1) ^^ decide (c = M + 1)) := by
  rw [xor_decide]
  apply decide_eq_decide.mpr
  unfold Triple at h
  omega

/-- along a bouncing coordinate `B` (shifted by one: `B (k+1)` is the value at step `k`) the number of steps `k < K`
    on the last line has the parity given by the two ends -/
theorem last_line_parity (M : Int) (hM : 0 ≤ M) (B : Nat → Int) (hB : ∀ j, Triple M (B j) (B (j + 1)) (B (j + 2)))
    (K : Nat) :
    xorSum (List.range K) (fun k => decide (B (k + 1) = M)) =
      ((decide (B 0 = M + 1) ^^ decide (B 1 = M + 1)) ^^ (decide (B K = M + 1) ^^ decide (B (K + 1) = M + 1))) := by
  rw [← xorSum_range_telescope2 K (fun k => decide (B k = M + 1))]
  apply xorSum_congr
  intro k _
  exact triple_last M _ _ _ hM (hB k)

theorem V_range (s M : Int) (hs : 0 ≤ s) (hM : s ≤ M) (k : Nat) : -1 ≤ V s M k ∧ V s M k ≤ M + 1 := by
  have h := V_spec s M hs hM k
  have hlt := Nat.mod_lt k (by omega : 0 < (2 * M + 4).toNat)
  generalize k % (2 * M + 4).toNat = i at *
  unfold CycValU at h
  omega

end Qec.PlanarYL

