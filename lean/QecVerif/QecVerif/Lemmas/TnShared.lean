/-
  C10 — the bras SHARED between pairs of cosets in `_coset_probabilities` of `PlanarMPSDecoder` and
  `RotatedPlanarRMPSDecoder` (Model/PlanarTn.lean: `sharedBra`, `ketValue`, `runGroup`, `runPlan`): generic helper lemmas
  for Props/C10/PlanarShared.lean and Props/C10/RotatedPlanarRmpsShared.lean.

  Route: `bra, mult = contract(tnB, stop=-1)` reads the columns `< ncols - 1` of `tnB` only
  (`OptContract.contract_congr`), so it IS the bra of any network `tnK` that agrees with `tnB` in those columns; the
  recombination `inner_product(bra, tnK[:, -1]) * mult` is then C11's split-and-recombine value of `tnK` at the last
  column (`splitValue_pad`), i.e. the scalar of the merged grid tensor of `tnK`.
-/
import QecVerif.Lemmas.RotatedPlanarRmpsFactor
import QecVerif.Lemmas.OptContract
namespace Qec.TnShared
open Qec Qec.Tensor Qec.TensorAlg Qec.TensorExact Qec.TensorPad Qec.PlanarTn Qec.OptContract
open Qec.RotatedPlanarRmpsTn (cosetValue)
open Qec.RotatedPlanarRmpsFactor (colRange_stop_neg cosetValue_self)

/-- computing the bra and then one ket value is the single-coset evaluation `cosetValue` -/
theorem bra_then_ket (tnB tnK : Net) :
    (match sharedBra tnB with
      | .error e => .error e
      | .ok bm => ketValue bm tnK) = cosetValue tnB tnK := by
  unfold sharedBra ketValue cosetValue braStop
  cases contract tnB none false none (some (-1)) none none with
  | error e => rfl
  | ok res =>
    cases res with
    | scalar v => rfl
    | part r mult =>
      cases r with
      | none => rfl
      | some bra => rfl

/-- if the single-coset evaluation succeeds, the shared bra exists and gives that ket value -/
theorem bra_of_cosetValue (tnB tnK : Net) (v : ℤ) (h : cosetValue tnB tnK = .ok v) :
    ∃ bm, sharedBra tnB = .ok bm ∧ ketValue bm tnK = .ok v := by
  rw [← bra_then_ket] at h
  cases hb : sharedBra tnB with
  | error e => rw [hb] at h; simp at h
  | ok bm => rw [hb] at h; exact ⟨bm, rfl, h⟩

/-- `contract(tn, stop=-1)` reads the columns `< ncols - 1` only -/
theorem bra_congr (tnB tnK : Net) (hn : tnB.ncols = tnK.ncols) (h1 : 1 ≤ tnB.ncols)
    (hcols : ∀ c, c < tnB.ncols - 1 → tnB.col c = tnK.col c) :
    contract tnB none false none (some (-1)) none none = contract tnK none false none (some (-1)) none none := by
  apply contract_congr tnB tnK _ _ _ hn
  intro cr hcr c hcc
  rw [colRange_stop_neg tnB.ncols h1, colRange_stop tnB.ncols (tnB.ncols - 1) (by omega)] at hcr
  obtain rfl : List.range (tnB.ncols - 1) = cr := by simpa using hcr
  exact hcols c (List.mem_range.mp hcc)

/-- with a bra taken from a network `tnB` that agrees with `tnK` in every column but the last, the decoder's value for
    `tnK` is the value computed from `tnK` alone -/
theorem cosetValue_congr (tnB tnK : Net) (hn : tnB.ncols = tnK.ncols) (h1 : 1 ≤ tnB.ncols)
    (hcols : ∀ c, c < tnB.ncols - 1 → tnB.col c = tnK.col c) :
    cosetValue tnB tnK = cosetValue tnK tnK := by
  unfold cosetValue
  rw [bra_congr tnB tnK hn h1 hcols]

/-- **one slot of a shared-bra group**: `tnK` a compatible padded network with at least two columns, `tnB` agreeing
    with it in every column but the last: the recombined value is the scalar of the merged grid tensor of `tnK` -/
theorem cosetValue_grid (tnB tnK : Net) (m n : ℕ) (hc : Compat tnK m (n + 1)) (hp : PaddedRows tnK)
    (hn : tnB.ncols = tnK.ncols) (hcols : ∀ c, c ≤ n → tnB.col c = tnK.col c) :
    cosetValue tnB tnK = .ok (scalar (gridT (netF tnK) m (n + 1))) := by
  have hnc := hc.ncols
  rw [cosetValue_congr tnB tnK hn (by omega) (fun c hcc => hcols c (by omega))]
  apply RotatedPlanarRmpsFactor.cosetValue_self tnK (by omega)
  have h := splitValue_pad tnK m n 0 hc hp
  rw [show tnK.ncols - 1 = n + 1 by omega]
  exact h

/-! ### the transposed network -/

/-- the merged grid tensor of the transposed network has the same scalar -/
theorem grid_scalar_transpose (tn : Net) (m n : ℕ) (hc : Compat tn m n) (hpT : PaddedRows tn.transpose) :
    scalar (gridT (netF tn.transpose) n m) = scalar (gridT (netF tn) m n) := by
  have h1 := contract_lr_pad _ _ _ (compat_transpose _ _ _ hc) hpT
  have h2 := contract_transpose_pad _ _ _ hc hpT
  rw [h1] at h2
  injection h2 with h2
  injection h2 with h2

/-- column `r` of the transposed network is row `r` of the network, tensor by tensor transposed -/
theorem col_transpose (tn : Net) (r : ℕ) (hr : r < tn.nrows) :
    tn.transpose.col r = (List.range tn.ncols).map fun c => (tn.site r c).map T4.transpose := by
  unfold Net.col
  show (List.range tn.ncols).map (fun c => tn.transpose.site c r) = _
  apply List.map_congr_left
  intro c hc
  exact transpose_site tn r c hr (List.mem_range.mp hc)

/-- two networks of the same shape with the same row `r` have transposes with the same column `r` -/
theorem col_transpose_congr (tn tn' : Net) (hR : tn.nrows = tn'.nrows) (hC : tn.ncols = tn'.ncols) (r : ℕ)
    (hr : r < tn.nrows) (h : ∀ c < tn.ncols, tn.site r c = tn'.site r c) :
    tn.transpose.col r = tn'.transpose.col r := by
  rw [col_transpose tn r hr, col_transpose tn' r (hR ▸ hr), ← hC]
  apply List.map_congr_left
  intro c hc
  rw [h c (List.mem_range.mp hc)]

/-! ### a plan of two groups of two slots -/

/-- **executing a plan of two groups of two slots**: when the four single-coset evaluations (bra network, ket network)
    succeed, the plan fills the four slots with their values, in execution order -/
theorem runPlan_two (tns : List Net) (b1 b2 s11 k11 s12 k12 s21 k21 s22 k22 : ℕ) (v11 v12 v21 v22 : ℤ)
    (h11 : cosetValue (tns.getD b1 emptyNet) (tns.getD k11 emptyNet) = .ok v11)
    (h12 : cosetValue (tns.getD b1 emptyNet) (tns.getD k12 emptyNet) = .ok v12)
    (h21 : cosetValue (tns.getD b2 emptyNet) (tns.getD k21 emptyNet) = .ok v21)
    (h22 : cosetValue (tns.getD b2 emptyNet) (tns.getD k22 emptyNet) = .ok v22) :
    runPlan tns [(b1, [(s11, k11), (s12, k12)]), (b2, [(s21, k21), (s22, k22)])]
      = .ok (((([0, 0, 0, 0].set s11 v11).set s12 v12).set s21 v21).set s22 v22) := by
  obtain ⟨bm1, hb1, hk11⟩ := bra_of_cosetValue _ _ _ h11
  obtain ⟨bm1', hb1', hk12⟩ := bra_of_cosetValue _ _ _ h12
  obtain rfl : bm1 = bm1' := by rw [hb1] at hb1'; injection hb1'
  obtain ⟨bm2, hb2, hk21⟩ := bra_of_cosetValue _ _ _ h21
  obtain ⟨bm2', hb2', hk22⟩ := bra_of_cosetValue _ _ _ h22
  obtain rfl : bm2 = bm2' := by rw [hb2] at hb2'; injection hb2'
  have g1 : runGroup tns (b1, [(s11, k11), (s12, k12)]) = .ok [(s11, v11), (s12, v12)] := by
    unfold runGroup
    simp only [hb1, List.mapM_cons, List.mapM_nil, hk11, hk12, bind, Except.bind, pure, Except.pure]
  have g2 : runGroup tns (b2, [(s21, k21), (s22, k22)]) = .ok [(s21, v21), (s22, v22)] := by
    unfold runGroup
    simp only [hb2, List.mapM_cons, List.mapM_nil, hk21, hk22, bind, Except.bind, pure, Except.pure]
  unfold runPlan
  simp only [List.mapM_cons, List.mapM_nil, g1, g2, bind, Except.bind, pure, Except.pure, List.flatten_cons,
    List.flatten_nil, List.append_nil, List.cons_append, List.nil_append, List.foldl_cons, List.foldl_nil]

/-- the plan run on four explicit networks -/
theorem runPlan_two4 (t0 t1 t2 t3 : Net) (b1 b2 s11 k11 s12 k12 s21 k21 s22 k22 : ℕ) (v11 v12 v21 v22 : ℤ)
    (tB1 tB2 tK11 tK12 tK21 tK22 : Net)
    (eB1 : [t0, t1, t2, t3].getD b1 emptyNet = tB1) (eB2 : [t0, t1, t2, t3].getD b2 emptyNet = tB2)
    (e11 : [t0, t1, t2, t3].getD k11 emptyNet = tK11) (e12 : [t0, t1, t2, t3].getD k12 emptyNet = tK12)
    (e21 : [t0, t1, t2, t3].getD k21 emptyNet = tK21) (e22 : [t0, t1, t2, t3].getD k22 emptyNet = tK22)
    (h11 : cosetValue tB1 tK11 = .ok v11) (h12 : cosetValue tB1 tK12 = .ok v12)
    (h21 : cosetValue tB2 tK21 = .ok v21) (h22 : cosetValue tB2 tK22 = .ok v22) :
    runPlan [t0, t1, t2, t3] [(b1, [(s11, k11), (s12, k12)]), (b2, [(s21, k21), (s22, k22)])]
      = .ok (((([0, 0, 0, 0].set s11 v11).set s12 v12).set s21 v21).set s22 v22) := by
  subst eB1 eB2 e11 e12 e21 e22
  exact runPlan_two _ _ _ _ _ _ _ _ _ _ _ _ _ _ _ h11 h12 h21 h22

/-! ### mode 'a' -/

/-- the average of a list with itself -/
theorem averageValues_self (l : List ℤ) : averageValues l l = l.map fun (v : ℤ) => (v : Rat) := by
  unfold averageValues
  induction l with
  | nil => rfl
  | cons a l ih =>
    rw [List.zipWith_cons_cons, ih, List.map_cons]
    congr 1
    push_cast
    ring

end Qec.TnShared
