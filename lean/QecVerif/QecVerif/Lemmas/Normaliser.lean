/-
  F6(b) — normaliser completeness, over the `List Bool` model of `Lemmas/Symplectic.lean`.

  Route: elementary (no dimension theory, no bilinear-form library).
  * `exists_anticomm`     : `bsp` is non-degenerate (a non-zero vector anticommutes with a unit vector);
  * `exists_duals`        : symplectic Gram–Schmidt — every independent family has a destabiliser family;
  * `spans_of_independent_full` : `m` independent vectors of length `m` span everything
                            (pigeonhole: an injective self-map of the finite type `List.Vector Bool m` is onto —
                            the only use of Mathlib in this file);
  * `normaliser_core`     : `A`, `F` independent, `F ⊆ A^⊥`, `|A| + |F| = 2n`  ⟹  `A^⊥ ⊆ span F`;
  * `normaliser_complete` : `ValidCode n k S Lx Lz`, `e` commutes with `S`  ⟹  `e ∈ span (S ++ Lx ++ Lz)`;
  * `normaliser_complete_stab` : … and with all logicals  ⟹  `e ∈ span S`.
-/
import QecVerif.Lemmas.Symplectic
import Mathlib.Data.Fintype.Vector
import Mathlib.Data.Fintype.EquivFin
namespace Qec.Symp
open Qec

/-! ### small utilities -/

theorem bsp_comm' (n : Nat) (a b : BVec) (ha : a.length = 2 * n) (hb : b.length = 2 * n) : bsp a b = bsp b a :=
  bsp_comm a b (by rw [ha, hb]) (by rw [ha]; omega)

theorem xorComb_allFalse (m : Nat) (cs : List Bool) (rows : List BVec) (h : ∀ c ∈ cs, c = false) :
    xorComb m cs rows = zeros m := by
  induction cs generalizing rows with
  | nil => simp
  | cons c cs ih =>
    cases rows with
    | nil => simp
    | cons r rows =>
      have hc : c = false := h c List.mem_cons_self
      subst hc
      simpa using ih rows (fun x hx => h x (List.mem_cons_of_mem _ hx))

theorem xorComb_append (m : Nat) (cs : List Bool) (A B : List BVec) (hA : AllLen m A) (hB : AllLen m B) :
    xorComb m cs (A ++ B) = xorV (xorComb m (cs.take A.length) A) (xorComb m (cs.drop A.length) B) := by
  induction A generalizing cs with
  | nil => simp [xorV_zeros_left _ _ (xorComb_length m cs B hB)]
  | cons a A ih =>
    cases cs with
    | nil => simp [xorV_zeros_left _ _ (zeros_length m)]
    | cons c cs =>
      simp only [List.cons_append, xorComb_cons, List.length_cons, List.take_succ_cons, List.drop_succ_cons]
      rw [ih cs hA.tail]
      cases c with
      | true => simp only [if_true]; rw [xorV_assoc]
      | false => simp

/-- `x ⊕ y = 0` forces `x = y` -/
theorem eq_of_xorV_zeros (m : Nat) (x y : BVec) (hx : x.length = m) (hy : y.length = m)
    (h : xorV x y = zeros m) : x = y := by
  have h1 : xorV x (xorV x y) = y := by
    rw [← xorV_assoc, xorV_self, hx, xorV_zeros_left y m hy]
  rw [h, xorV_zeros_right x m hx] at h1
  exact h1

theorem Independent.tail {m : Nat} {r : BVec} {rows : List BVec} (h : Independent m (r :: rows)) :
    Independent m rows := by
  intro cs hcs hz c hc
  exact h (false :: cs) (by simp [hcs]) (by simpa using hz) c (List.mem_cons_of_mem _ hc)

theorem eq_of_zipWith_xor_false (cs ds : List Bool) (h : cs.length = ds.length)
    (hz : ∀ c ∈ List.zipWith xor cs ds, c = false) : cs = ds := by
  induction cs generalizing ds with
  | nil => cases ds with
    | nil => rfl
    | cons _ _ => simp at h
  | cons c cs ih => cases ds with
    | nil => simp at h
    | cons d ds =>
      simp only [List.length_cons, Nat.add_right_cancel_iff] at h
      simp only [List.zipWith_cons_cons, List.mem_cons, forall_eq_or_imp] at hz
      have := ih ds h hz.2
      have h0 := hz.1
      subst this
      cases c <;> cases d <;> simp_all

theorem getD_map_bvec {α : Type} (f : α → Bool) (l : List α) (dflt : α) (j : Nat) (hj : j < l.length) :
    (l.map f).getD j false = f (l.getD j dflt) := by
  simp [List.getD_eq_getElem?_getD, hj]

theorem getD_map_vec (f : BVec → BVec) (l : List BVec) (j : Nat) (hj : j < l.length) :
    (l.map f).getD j [] = f (l.getD j []) := by
  simp [List.getD_eq_getElem?_getD, hj]

theorem all_false_of_getD (cs : List Bool) (h : ∀ j, j < cs.length → cs.getD j false = false) :
    ∀ c ∈ cs, c = false := by
  intro c hc
  rcases List.getElem_of_mem hc with ⟨j, hj, rfl⟩
  simpa [List.getD_eq_getElem?_getD, hj] using h j hj

/-! ### reading coefficients off a combination -/

/-- pairing is symmetric -/
theorem pairingId_symm (n : Nat) (A B : List BVec) (k : Nat) (hA : AllLen (2 * n) A) (hB : AllLen (2 * n) B)
    (kA : k ≤ A.length) (kB : k ≤ B.length) (h : PairingId A B k) : PairingId B A k := by
  intro i hi j hj
  rw [bsp_comm' n _ _ (hB _ (getD_mem_of_lt B i (by omega))) (hA _ (getD_mem_of_lt A j (by omega))), h j hj i hi]
  apply decide_eq_decide.mpr; omega

/-- pairing a combination of `A` with the `j`-th partner reads off coefficient `j` -/
theorem bsp_xorComb_coeff (m : Nat) (A B : List BVec) (cs : List Bool) (hA : AllLen m A)
    (hcs : cs.length = A.length) (h : PairingId A B A.length) (j : Nat) (hj : j < A.length) :
    bsp (xorComb m cs A) (B.getD j []) = cs.getD j false := by
  rw [bsp_xorComb_left m cs A _ hA, combBsp_eq_coeff A B cs hcs h j hj]

/-- a combination of rows commuting with `d` commutes with `d` -/
theorem bsp_xorComb_comm (m : Nat) (A : List BVec) (cs : List Bool) (d : BVec) (hA : AllLen m A)
    (h : ∀ a ∈ A, bsp a d = false) : bsp (xorComb m cs A) d = false := by
  rw [bsp_xorComb_left m cs A _ hA, combBsp_of_comm d cs A h]

/-! ### non-degeneracy of `bsp` -/

theorem exists_bit_of_ne_zeros (m : Nat) (v : BVec) (hv : v.length = m) (hne : v ≠ zeros m) :
    ∃ j, j < m ∧ v.getD j false = true := by
  apply Classical.byContradiction
  intro hno
  apply hne
  apply bvec_ext _ _ (by rw [hv, zeros_length])
  intro j hj
  rw [getD_zeros]
  cases hb : v.getD j false
  · rfl
  · exact absurd ⟨j, hv ▸ hj, hb⟩ hno

/-- **non-degeneracy**: a non-zero vector anticommutes with some vector -/
theorem exists_anticomm (n : Nat) (v : BVec) (hv : v.length = 2 * n) (hne : v ≠ zeros (2 * n)) :
    ∃ u : BVec, u.length = 2 * n ∧ bsp v u = true := by
  obtain ⟨j, hj, hb⟩ := exists_bit_of_ne_zeros (2 * n) v hv hne
  by_cases hjn : j < n
  · refine ⟨toggle (zeros (2 * n)) (n + j), by rw [toggle_length, zeros_length], ?_⟩
    unfold bsp
    rw [dot_toggle _ _ _ (by rw [zeros_length]; omega), dot_zeros_right, swap_getD_hi v n j hv hjn, hb]
    rfl
  · obtain ⟨f, rfl⟩ : ∃ f, j = n + f := ⟨j - n, by omega⟩
    refine ⟨toggle (zeros (2 * n)) f, by rw [toggle_length, zeros_length], ?_⟩
    unfold bsp
    rw [dot_toggle _ _ _ (by rw [zeros_length]; omega), dot_zeros_right, swap_getD_lo v n f hv (by omega), hb]
    rfl

/-! ### symplectic Gram–Schmidt: destabilisers exist for every independent family -/

theorem exists_duals (n : Nat) (rows : List BVec) (hlen : AllLen (2 * n) rows)
    (hind : Independent (2 * n) rows) :
    ∃ D : List BVec, D.length = rows.length ∧ AllLen (2 * n) D ∧ PairingId rows D rows.length := by
  induction rows with
  | nil => exact ⟨[], rfl, by intro r hr; simp at hr, by intro i hi; simp at hi⟩
  | cons r rows ih =>
    obtain ⟨D, hDlen, hDall, hP⟩ := ih hlen.tail hind.tail
    have hr : r.length = 2 * n := hlen.head
    have hrows : AllLen (2 * n) rows := hlen.tail
    -- `r' = r ⊕ Σ_j bsp(r, D_j) rows_j` commutes with every `D_l`
    let cr : List Bool := D.map (fun d => bsp r d)
    have hcr : cr.length = rows.length := by simp [cr, hDlen]
    let X : BVec := xorComb (2 * n) cr rows
    have hX : X.length = 2 * n := xorComb_length _ _ _ hrows
    let r' : BVec := xorV r X
    have hr'len : r'.length = 2 * n := by
      show (xorV r X).length = 2 * n
      rw [xorV_length _ _ (by rw [hr, hX]), hr]
    have hr'ne : r' ≠ zeros (2 * n) := by
      intro hz
      have := hind (true :: cr) (by simp [hcr]) (by simpa using hz) true List.mem_cons_self
      cases this
    have F1 : ∀ d ∈ D, bsp r' d = false := by
      intro d hd
      rcases List.getElem_of_mem hd with ⟨l, hl, rfl⟩
      have hl' : l < rows.length := by omega
      have h1 := bsp_xorComb_coeff (2 * n) rows D cr hrows hcr hP l hl'
      have h2 : cr.getD l false = bsp r (D.getD l []) := getD_map_bvec _ D [] l hl
      have h3 : D.getD l [] = D[l] := by simp [List.getD_eq_getElem?_getD, hl]
      show bsp (xorV r X) D[l] = false
      rw [bsp_xorV_left _ _ _ (by rw [hr, hX]), ← h3, h1, h2]
      simp
    obtain ⟨u, hu, hbu⟩ := exists_anticomm n r' hr'len hr'ne
    -- `d0 = u ⊕ Σ_i bsp(rows_i, u) D_i` commutes with every `rows_i`
    let cu : List Bool := rows.map (fun s => bsp s u)
    have hcu : cu.length = D.length := by simp [cu, hDlen]
    let Y : BVec := xorComb (2 * n) cu D
    have hY : Y.length = 2 * n := xorComb_length _ _ _ hDall
    let d0 : BVec := xorV u Y
    have hd0 : d0.length = 2 * n := by
      show (xorV u Y).length = 2 * n
      rw [xorV_length _ _ (by rw [hu, hY]), hu]
    have hP' : PairingId D rows D.length :=
      pairingId_symm n rows D D.length hrows hDall (by omega) (by omega) (hDlen ▸ hP)
    have F2 : ∀ s ∈ rows, bsp s d0 = false := by
      intro s hs
      rcases List.getElem_of_mem hs with ⟨i, hi, rfl⟩
      have hsl : rows[i].length = 2 * n := hrows _ (List.getElem_mem hi)
      have h1 := bsp_xorComb_coeff (2 * n) D rows cu hDall hcu hP' i (by omega)
      have h2 : cu.getD i false = bsp (rows.getD i []) u := getD_map_bvec _ rows [] i hi
      have h3 : rows.getD i [] = rows[i] := by simp [List.getD_eq_getElem?_getD, hi]
      rw [bsp_comm' n _ _ hsl hd0]
      show bsp (xorV u Y) rows[i] = false
      rw [bsp_xorV_left _ _ _ (by rw [hu, hY]), ← h3, h1, h2, h3, bsp_comm' n _ _ hu hsl]
      simp
    have F3 : bsp r' d0 = true := by
      show bsp r' (xorV u Y) = true
      rw [bsp_xorV_right _ _ _ (by rw [hu, hY]), hbu, bsp_comm' n _ _ hr'len hY,
        bsp_xorComb_comm (2 * n) D cu r' hDall
          (fun d hd => by rw [bsp_comm' n _ _ (hDall d hd) hr'len]; exact F1 d hd)]
      rfl
    have F4 : bsp r d0 = true := by
      have : bsp r' d0 = (bsp r d0 ^^ bsp X d0) := bsp_xorV_left _ _ _ (by rw [hr, hX])
      rw [F3, bsp_xorComb_comm (2 * n) rows cr d0 hrows F2] at this
      simpa using this.symm
    let f : BVec → BVec := fun d => if bsp r d then xorV d d0 else d
    refine ⟨d0 :: D.map f, by simp [hDlen], ?_, ?_⟩
    · intro x hx
      rcases List.mem_cons.mp hx with rfl | hx
      · exact hd0
      · rcases List.mem_map.mp hx with ⟨d, hd, rfl⟩
        show (if bsp r d then xorV d d0 else d).length = 2 * n
        split
        · rw [xorV_length _ _ (by rw [hDall d hd, hd0]), hDall d hd]
        · exact hDall d hd
    · intro i hi j hj
      simp only [List.length_cons] at hi hj
      cases i with
      | zero =>
        cases j with
        | zero => simpa using F4
        | succ j =>
          have hj' : j < D.length := by omega
          have hdm : D.getD j [] ∈ D := getD_mem_of_lt D j hj'
          simp only [List.getD_cons_zero, List.getD_cons_succ]
          rw [getD_map_vec f D j hj']
          show bsp r (if bsp r (D.getD j []) then xorV (D.getD j []) d0 else D.getD j []) = decide (0 = j + 1)
          cases hb : bsp r (D.getD j [])
          · simp only [Bool.false_eq_true, if_false]
            rw [hb]; simp
          · simp only [if_true]
            rw [bsp_xorV_right _ _ _ (by rw [hDall _ hdm, hd0]), hb, F4]
            simp
      | succ i =>
        have hi' : i < rows.length := by omega
        have hsm : rows.getD i [] ∈ rows := getD_mem_of_lt rows i hi'
        cases j with
        | zero =>
          simp only [List.getD_cons_zero, List.getD_cons_succ]
          rw [F2 _ hsm]
          simp
        | succ j =>
          have hj' : j < D.length := by omega
          have hdm : D.getD j [] ∈ D := getD_mem_of_lt D j hj'
          simp only [List.getD_cons_succ]
          rw [getD_map_vec f D j hj']
          show bsp (rows.getD i []) (if bsp r (D.getD j []) then xorV (D.getD j []) d0 else D.getD j []) =
            decide (i + 1 = j + 1)
          have hij := hP i hi' j (by omega)
          cases hb : bsp r (D.getD j [])
          · simp only [Bool.false_eq_true, if_false]
            rw [hij]; apply decide_eq_decide.mpr; omega
          · simp only [if_true]
            rw [bsp_xorV_right _ _ _ (by rw [hDall _ hdm, hd0]), hij, F2 _ hsm, Bool.xor_false]
            apply decide_eq_decide.mpr; omega

/-! ### `m` independent vectors of length `m` span everything (pigeonhole) -/

theorem spans_of_independent_full (m : Nat) (rows : List BVec) (hlen : AllLen m rows)
    (hind : Independent m rows) (hcard : rows.length = m) (e : BVec) (he : e.length = m) :
    InSpan m rows e := by
  let f : List.Vector Bool m → List.Vector Bool m :=
    fun cs => ⟨xorComb m cs.1 rows, xorComb_length m cs.1 rows hlen⟩
  have hinj : Function.Injective f := by
    intro cs ds h
    have h' : xorComb m cs.1 rows = xorComb m ds.1 rows := congrArg Subtype.val h
    have hc : cs.1.length = rows.length := by rw [cs.2, hcard]
    have hd : ds.1.length = rows.length := by rw [ds.2, hcard]
    have hz : xorComb m (List.zipWith xor cs.1 ds.1) rows = zeros m := by
      rw [xorComb_zipWith_xor m _ _ rows hlen hc hd, h', xorV_self, xorComb_length m _ rows hlen]
    have := hind _ (by simp [hc, hd]) hz
    exact Subtype.ext (eq_of_zipWith_xor_false _ _ (by rw [hc, hd]) this)
  obtain ⟨cs, hcs⟩ := (Finite.injective_iff_surjective.mp hinj) ⟨e, he⟩
  exact ⟨cs.1, by rw [cs.2, hcard], congrArg Subtype.val hcs⟩

/-! ### the core statement -/

/-- a combination of `F ++ D` that commutes with all of `A`, where `F` commutes with `A` and `D` is dual to `A`,
    has no `D`-component -/
theorem no_dual_component (n : Nat) (A F D : List BVec) (hF : AllLen (2 * n) F)
    (hD : AllLen (2 * n) D) (hDlen : D.length = A.length) (hP : PairingId D A D.length)
    (hcomm : ∀ f ∈ F, ∀ a ∈ A, bsp f a = false) (cs : List Bool) (hcs : cs.length = (F ++ D).length)
    (hv : ∀ a ∈ A, bsp (xorComb (2 * n) cs (F ++ D)) a = false) :
    (∀ c ∈ cs.drop F.length, c = false) ∧
      xorComb (2 * n) cs (F ++ D) = xorComb (2 * n) (cs.take F.length) F := by
  have hsplit := xorComb_append (2 * n) cs F D hF hD
  have hXl := xorComb_length (2 * n) (cs.take F.length) F hF
  have hYl := xorComb_length (2 * n) (cs.drop F.length) D hD
  have hdrop : (cs.drop F.length).length = D.length := by
    simp only [List.length_append] at hcs
    simp [hcs]
  have hzero : ∀ c ∈ cs.drop F.length, c = false := by
    apply all_false_of_getD
    intro j hj
    have hjD : j < D.length := by omega
    have ham : A.getD j [] ∈ A := getD_mem_of_lt A j (by omega)
    have h1 := hv _ ham
    rw [hsplit, bsp_xorV_left _ _ _ (by rw [hXl, hYl]),
      bsp_xorComb_comm (2 * n) F _ _ hF (fun f hf => hcomm f hf _ ham),
      bsp_xorComb_coeff (2 * n) D A _ hD hdrop hP j hjD] at h1
    simpa using h1
  refine ⟨hzero, ?_⟩
  rw [hsplit, xorComb_allFalse _ _ _ hzero, xorV_zeros_right _ _ hXl]

/-- **core**: if `A` and `F` are independent families of vectors of length `2n`, `F` commutes with `A`, and
    `|A| + |F| = 2n`, then everything that commutes with `A` lies in the span of `F` -/
theorem normaliser_core (n : Nat) (A F : List BVec) (hA : AllLen (2 * n) A) (hF : AllLen (2 * n) F)
    (indA : Independent (2 * n) A) (indF : Independent (2 * n) F)
    (hcomm : ∀ f ∈ F, ∀ a ∈ A, bsp f a = false) (hcard : A.length + F.length = 2 * n)
    (e : BVec) (he : e.length = 2 * n) (hce : ∀ a ∈ A, bsp e a = false) : InSpan (2 * n) F e := by
  obtain ⟨D, hDlen, hD, hP0⟩ := exists_duals n A hA indA
  have hP : PairingId D A D.length :=
    pairingId_symm n A D D.length hA hD (by omega) (by omega) (hDlen ▸ hP0)
  have hB : AllLen (2 * n) (F ++ D) := hF.append hD
  have hBcard : (F ++ D).length = 2 * n := by simp only [List.length_append]; omega
  -- `F ++ D` is independent
  have indB : Independent (2 * n) (F ++ D) := by
    intro cs hcs hz
    have hv : ∀ a ∈ A, bsp (xorComb (2 * n) cs (F ++ D)) a = false := by
      intro a _; rw [hz, bsp_zeros_left]
    obtain ⟨h2, h1⟩ := no_dual_component n A F D hF hD hDlen hP hcomm cs hcs hv
    rw [hz] at h1
    have h1' := indF (cs.take F.length) (by simp only [List.length_append] at hcs; simp [hcs]) h1.symm
    intro c hc
    rw [← List.take_append_drop F.length cs] at hc
    rcases List.mem_append.mp hc with h | h
    · exact h1' c h
    · exact h2 c h
  -- hence spans; the `D`-coefficients of `e` vanish
  obtain ⟨cs, hcs, hE⟩ := spans_of_independent_full (2 * n) (F ++ D) hB indB hBcard e he
  have hv : ∀ a ∈ A, bsp (xorComb (2 * n) cs (F ++ D)) a = false := by
    intro a ha; rw [hE]; exact hce a ha
  obtain ⟨_, h1⟩ := no_dual_component n A F D hF hD hDlen hP hcomm cs hcs hv
  exact ⟨cs.take F.length, by simp only [List.length_append] at hcs; simp [hcs], by rw [← h1, hE]⟩

/-! ### valid codes -/

/-- the partner list of `Lx ++ Lz` is `Lz ++ Lx` -/
theorem pairing_logicals (n k : Nat) (Lx Lz : List BVec) (hLx : AllLen (2 * n) Lx) (hLz : AllLen (2 * n) Lz)
    (hpair : PairingId Lx Lz k) (hxx : CommAll Lx Lx) (hzz : CommAll Lz Lz) (kx : Lx.length = k)
    (kz : Lz.length = k) : PairingId (Lx ++ Lz) (Lz ++ Lx) (Lx ++ Lz).length := by
  intro i hi j hj
  simp only [List.length_append] at hi hj
  simp only [List.getD_eq_getElem?_getD]
  by_cases h1 : i < k <;> by_cases h2 : j < k
  · rw [List.getElem?_append_left (by omega), List.getElem?_append_left (by omega)]
    simpa [List.getD_eq_getElem?_getD] using hpair i h1 j h2
  · rw [List.getElem?_append_left (by omega), List.getElem?_append_right (by omega)]
    have hm1 := getD_mem_of_lt Lx i (by omega)
    have hm2 := getD_mem_of_lt Lx (j - Lz.length) (by omega)
    have := hxx _ hm1 _ hm2
    simp only [List.getD_eq_getElem?_getD] at this
    rw [this]; symm; simp; omega
  · rw [List.getElem?_append_right (by omega), List.getElem?_append_left (by omega)]
    have hm1 := getD_mem_of_lt Lz (i - Lx.length) (by omega)
    have hm2 := getD_mem_of_lt Lz j (by omega)
    have := hzz _ hm1 _ hm2
    simp only [List.getD_eq_getElem?_getD] at this
    rw [this]; symm; simp; omega
  · rw [List.getElem?_append_right (by omega), List.getElem?_append_right (by omega)]
    have hm1 := getD_mem_of_lt Lz (i - Lx.length) (by omega)
    have hm2 := getD_mem_of_lt Lx (j - Lz.length) (by omega)
    have := hpair (j - Lz.length) (by omega) (i - Lx.length) (by omega)
    rw [bsp_comm _ _ (by rw [hLx _ hm2, hLz _ hm1]) (by rw [hLx _ hm2]; omega)] at this
    simp only [List.getD_eq_getElem?_getD] at this
    rw [this]
    apply decide_eq_decide.mpr; omega

/-- for a valid code, an independent spanning sub-family of the stabilizers followed by the logicals is independent -/
theorem independent_stab_logicals (n k : Nat) (S Lx Lz S' : List BVec) (h : ValidCode n k S Lx Lz)
    (hsub : S'.Sublist S) (hind : Independent (2 * n) S') : Independent (2 * n) (S' ++ (Lx ++ Lz)) := by
  have hS' : AllLen (2 * n) S' := h.len_S.sublist hsub
  have hL : AllLen (2 * n) (Lx ++ Lz) := h.len_Lx.append h.len_Lz
  intro cs hcs hz
  rw [xorComb_append (2 * n) cs S' (Lx ++ Lz) hS' hL] at hz
  have hXl := xorComb_length (2 * n) (cs.take S'.length) S' hS'
  have hYl := xorComb_length (2 * n) (cs.drop S'.length) (Lx ++ Lz) hL
  have hXY := eq_of_xorV_zeros (2 * n) _ _ hXl hYl hz
  have hdl : (cs.drop S'.length).length = (Lx ++ Lz).length := by
    simp only [List.length_append] at hcs ⊢
    simp [hcs]
  have htl : (cs.take S'.length).length = S'.length := by
    simp only [List.length_append] at hcs
    simp [hcs]
  have h2 := h.logical_indep (cs.drop S'.length) hdl
    (inSpan_sublist (2 * n) S' S hsub _ ⟨cs.take S'.length, htl, hXY⟩)
  rw [xorComb_allFalse _ _ _ h2, xorV_zeros_right _ _ hXl] at hz
  have h1 := hind (cs.take S'.length) htl hz
  intro c hc
  rw [← List.take_append_drop S'.length cs] at hc
  rcases List.mem_append.mp hc with h | h
  · exact h1 c h
  · exact h2 c h

/-- **normaliser completeness, sub-family form**: with `S'` an independent spanning sub-family of `n − k`
    stabilizers, everything commuting with `S'` is a combination of `S' ++ Lx ++ Lz` -/
theorem normaliser_complete_sub (n k : Nat) (S Lx Lz S' : List BVec) (h : ValidCode n k S Lx Lz)
    (hsub : S'.Sublist S) (hcount : S'.length = n - k) (hind : Independent (2 * n) S')
    (e : BVec) (he : e.length = 2 * n) (hce : ∀ s ∈ S', bsp e s = false) :
    InSpan (2 * n) (S' ++ Lx ++ Lz) e := by
  have hS' : AllLen (2 * n) S' := h.len_S.sublist hsub
  have hL : AllLen (2 * n) (Lx ++ Lz) := h.len_Lx.append h.len_Lz
  rw [List.append_assoc]
  apply normaliser_core n S' (S' ++ (Lx ++ Lz)) hS' (hS'.append hL) hind
    (independent_stab_logicals n k S Lx Lz S' h hsub hind) _ _ e he hce
  · intro f hf a ha
    have haS : a ∈ S := hsub.subset ha
    rcases List.mem_append.mp hf with hf | hf
    · exact h.stab_comm f (hsub.subset hf) a haS
    · rcases List.mem_append.mp hf with hf | hf
      · rw [bsp_comm' n _ _ (h.len_Lx f hf) (h.len_S a haS)]; exact h.stab_comm_Lx a haS f hf
      · rw [bsp_comm' n _ _ (h.len_Lz f hf) (h.len_S a haS)]; exact h.stab_comm_Lz a haS f hf
  · have := h.k_le_n
    simp only [List.length_append, h.count_Lx, h.count_Lz, hcount]; omega

/-- **normaliser completeness** (F6(b)): for a valid [[n,k]] code, every operator that commutes with all
    stabilizer generators is a product of stabilizer generators and logical operators -/
theorem normaliser_complete (n k : Nat) (S Lx Lz : List BVec) (h : ValidCode n k S Lx Lz)
    (e : BVec) (he : e.length = 2 * n) (hce : ∀ s ∈ S, bsp e s = false) :
    InSpan (2 * n) (S ++ Lx ++ Lz) e := by
  obtain ⟨S', hsub, hcount, hind, _⟩ := h.rank
  have h1 := normaliser_complete_sub n k S Lx Lz S' h hsub hcount hind e he
    (fun s hs => hce s (hsub.subset hs))
  exact inSpan_sublist (2 * n) _ _ ((hsub.append (List.Sublist.refl Lx)).append (List.Sublist.refl Lz)) e h1

/-- the same, naming the independent sub-family -/
theorem normaliser_complete_exists (n k : Nat) (S Lx Lz : List BVec) (h : ValidCode n k S Lx Lz) :
    ∃ S' : List BVec, S'.Sublist S ∧ S'.length = n - k ∧ Independent (2 * n) S' ∧
      ∀ e : BVec, e.length = 2 * n → (∀ s ∈ S, bsp e s = false) → InSpan (2 * n) (S' ++ Lx ++ Lz) e := by
  obtain ⟨S', hsub, hcount, hind, _⟩ := h.rank
  exact ⟨S', hsub, hcount, hind, fun e he hce =>
    normaliser_complete_sub n k S Lx Lz S' h hsub hcount hind e he (fun s hs => hce s (hsub.subset hs))⟩

/-- **corollary**: an operator that commutes with all stabilizer generators and all logical operators is a product
    of stabilizer generators -/
theorem normaliser_complete_stab (n k : Nat) (S Lx Lz : List BVec) (h : ValidCode n k S Lx Lz)
    (e : BVec) (he : e.length = 2 * n) (hce : ∀ s ∈ S, bsp e s = false)
    (hcl : ∀ l ∈ Lx ++ Lz, bsp e l = false) : InSpan (2 * n) S e := by
  obtain ⟨S', hsub, hcount, hind, _⟩ := h.rank
  have hS' : AllLen (2 * n) S' := h.len_S.sublist hsub
  have hL : AllLen (2 * n) (Lx ++ Lz) := h.len_Lx.append h.len_Lz
  have hP := pairing_logicals n k Lx Lz h.len_Lx h.len_Lz h.pairing h.comm_LxLx h.comm_LzLz h.count_Lx h.count_Lz
  obtain ⟨cs, hcs, hE⟩ := normaliser_complete_sub n k S Lx Lz S' h hsub hcount hind e he
    (fun s hs => hce s (hsub.subset hs))
  rw [List.append_assoc] at hcs hE
  rw [xorComb_append (2 * n) cs S' (Lx ++ Lz) hS' hL] at hE
  have hXl := xorComb_length (2 * n) (cs.take S'.length) S' hS'
  have hYl := xorComb_length (2 * n) (cs.drop S'.length) (Lx ++ Lz) hL
  have hdl : (cs.drop S'.length).length = (Lx ++ Lz).length := by
    simp only [List.length_append] at hcs ⊢
    simp [hcs]
  have htl : (cs.take S'.length).length = S'.length := by
    simp only [List.length_append] at hcs
    simp [hcs]
  have hzero : ∀ c ∈ cs.drop S'.length, c = false := by
    apply all_false_of_getD
    intro j hj
    have hjL : j < (Lx ++ Lz).length := by omega
    have hpm : (Lz ++ Lx).getD j [] ∈ Lz ++ Lx :=
      getD_mem_of_lt _ j (by simp only [List.length_append] at hjL ⊢; omega)
    have hpm' : (Lz ++ Lx).getD j [] ∈ Lx ++ Lz := by
      rcases List.mem_append.mp hpm with h | h
      · exact List.mem_append_right _ h
      · exact List.mem_append_left _ h
    have h1 := hcl _ hpm'
    rw [← hE, bsp_xorV_left _ _ _ (by rw [hXl, hYl]),
      bsp_xorComb_comm (2 * n) S' _ _ hS' (fun s hs => by
        rcases List.mem_append.mp hpm with h' | h'
        · exact h.stab_comm_Lz s (hsub.subset hs) _ h'
        · exact h.stab_comm_Lx s (hsub.subset hs) _ h'),
      bsp_xorComb_coeff (2 * n) (Lx ++ Lz) (Lz ++ Lx) _ hL hdl hP j hjL] at h1
    simpa using h1
  rw [xorComb_allFalse _ _ _ hzero, xorV_zeros_right _ _ hXl] at hE
  exact inSpan_sublist (2 * n) S' S hsub e ⟨cs.take S'.length, htl, hE⟩

end Qec.Symp
