/-
  Helper lemmas for Props/C03/TParity.lean — `_clusters(matches)` is a function of the match SET: the first matching
  is a Python set of pairs, iterated in arbitrary order, each pair named in either orientation.  The code copes by
  building two dictionaries (looked up by key only) and by sorting the column mates; here: two association lists with
  the same lookups are permutations of each other, `minEntry`, `walk` and `clustersLoop` respect permutations, hence
  `clusters ms = clusters ms'` whenever the two lists of pairs hold the same unordered pairs.
-/
import QecVerif.Lemmas.SmwpmMates
namespace Qec.SmwpmOrder
open Qec Qec.Smwpm Qec.Dec Qec.SmwpmL

/-! ### dictionaries up to order -/

theorem dget_of_not_key (d : Dict) (k : TIdx) (h : k ∉ d.map Prod.fst) : dget d k = none := by
  induction d with
  | nil => rfl
  | cons e d ih =>
    rw [dget_cons]
    simp only [List.map_cons, List.mem_cons, not_or] at h
    rw [if_neg (fun hh => h.1 hh.symm)]
    exact ih h.2

theorem mem_of_dget (d : Dict) (k v : TIdx) (h : dget d k = some v) : (k, v) ∈ d := by
  induction d with
  | nil => simp [dget] at h
  | cons e d ih =>
    rw [dget_cons] at h
    by_cases he : e.1 = k
    · rw [if_pos he] at h
      have : e = (k, v) := Prod.ext he (Option.some.inj h)
      rw [this]; exact List.mem_cons_self
    · rw [if_neg he] at h
      exact List.mem_cons_of_mem _ (ih h)

theorem mem_iff_dget (d : Dict) (hw : WF d) (k v : TIdx) : (k, v) ∈ d ↔ dget d k = some v :=
  ⟨fun h => dget_of_mem d hw (k, v) h, mem_of_dget d k v⟩

theorem wf_perm (d d' : Dict) (hw : WF d) (hp : d.Perm d') : WF d' :=
  (hp.map Prod.fst).nodup_iff.mp hw

theorem dget_perm (d d' : Dict) (hw : WF d) (hp : d.Perm d') (k : TIdx) : dget d k = dget d' k := by
  have hw' := wf_perm d d' hw hp
  cases h : dget d k with
  | none =>
    have := dget_none_not_key d k h
    have h' : k ∉ d'.map Prod.fst := fun hh => this ((hp.map Prod.fst).mem_iff.mpr hh)
    rw [dget_of_not_key d' k h']
  | some v =>
    have := mem_of_dget d k v h
    exact ((mem_iff_dget d' hw' k v).mp (hp.mem_iff.mp this)).symm

theorem nodup_of_wf (d : Dict) (hw : WF d) : d.Nodup := by
  induction d with
  | nil => exact List.nodup_nil
  | cons e d ih =>
    have hn : (e.1 :: d.map Prod.fst).Nodup := hw
    rw [List.nodup_cons] at hn ⊢
    exact ⟨fun hh => hn.1 (List.mem_map.mpr ⟨e, hh, rfl⟩), ih hn.2⟩

/-- two dictionaries with the same lookups are permutations of each other -/
theorem perm_of_dget_eq (d d' : Dict) (hw : WF d) (hw' : WF d') (h : ∀ k, dget d k = dget d' k) : d.Perm d' := by
  rw [List.perm_ext_iff_of_nodup (nodup_of_wf d hw) (nodup_of_wf d' hw')]
  intro e
  obtain ⟨k, v⟩ := e
  rw [mem_iff_dget d hw, mem_iff_dget d' hw', h]

/-! ### the Python tuple order -/

theorem tlt_iff (a b : TIdx) : tlt a b = true ↔
    a.1 < b.1 ∨ (a.1 = b.1 ∧ (a.2.1 < b.2.1 ∨ (a.2.1 = b.2.1 ∧ a.2.2 < b.2.2))) := by
  simp [tlt]

theorem tlt_trans (a b c : TIdx) (h1 : tlt a b = true) (h2 : tlt b c = true) : tlt a c = true := by
  rw [tlt_iff] at *; omega

theorem tlt_asymm (a b : TIdx) (h1 : tlt a b = true) (h2 : tlt b a = true) : False := by
  rw [tlt_iff] at *; omega

theorem tlt_total (a b : TIdx) (h : a ≠ b) : tlt a b = true ∨ tlt b a = true := by
  obtain ⟨a1, a2, a3⟩ := a
  obtain ⟨b1, b2, b3⟩ := b
  have : ¬ (a1 = b1 ∧ a2 = b2 ∧ a3 = b3) := by
    rintro ⟨rfl, rfl, rfl⟩; exact h rfl
  rw [tlt_iff, tlt_iff]
  simp only []
  omega

/-- `minEntry` of a dictionary with distinct keys is the entry with the least key -/
theorem minEntry_spec (d : Dict) (hw : WF d) (m : TIdx × TIdx) (h : minEntry d = some m) :
    m ∈ d ∧ ∀ e ∈ d, e = m ∨ tlt m.1 e.1 = true := by
  induction d generalizing m with
  | nil => simp [minEntry] at h
  | cons e es ih =>
    have hn : (e.1 :: es.map Prod.fst).Nodup := hw
    rw [List.nodup_cons] at hn
    unfold minEntry at h
    cases hm : minEntry es with
    | none =>
      rw [hm] at h
      have hes := minEntry_none es hm
      cases h
      subst hes
      exact ⟨List.mem_cons_self, fun x hx => Or.inl (by simpa using hx)⟩
    | some m0 =>
      rw [hm] at h
      obtain ⟨hm0, hall⟩ := ih hn.2 m0 hm
      have hne : m0.1 ≠ e.1 := fun hh => hn.1 (hh ▸ List.mem_map.mpr ⟨m0, hm0, rfl⟩)
      have helt : elt m0 e = tlt m0.1 e.1 := by simp [elt, hne]
      simp only [helt] at h
      by_cases hl : tlt m0.1 e.1 = true
      · rw [if_pos hl] at h; cases h
        refine ⟨List.mem_cons_of_mem _ hm0, ?_⟩
        intro x hx
        rcases List.mem_cons.mp hx with rfl | hx
        · exact Or.inr hl
        · exact hall x hx
      · rw [if_neg hl] at h; cases h
        have hlt : tlt e.1 m0.1 = true := by
          rcases tlt_total m0.1 e.1 hne with h' | h'
          · exact (hl h').elim
          · exact h'
        refine ⟨List.mem_cons_self, ?_⟩
        intro x hx
        rcases List.mem_cons.mp hx with rfl | hx
        · exact Or.inl rfl
        · rcases hall x hx with rfl | h'
          · exact Or.inr hlt
          · exact Or.inr (tlt_trans _ _ _ hlt h')

theorem minEntry_perm (d d' : Dict) (hw : WF d) (hp : d.Perm d') : minEntry d = minEntry d' := by
  have hw' := wf_perm d d' hw hp
  cases h : minEntry d with
  | none =>
    have := minEntry_none d h
    subst this
    rw [List.nil_perm] at hp
    subst hp; rfl
  | some m =>
    cases h' : minEntry d' with
    | none =>
      have := minEntry_none d' h'
      subst this
      rw [List.perm_nil] at hp
      subst hp; simp [minEntry] at h
    | some m' =>
      obtain ⟨h1, h2⟩ := minEntry_spec d hw m h
      obtain ⟨h1', h2'⟩ := minEntry_spec d' hw' m' h'
      rcases h2 m' (hp.mem_iff.mpr h1') with e | e
      · rw [e]
      · rcases h2' m (hp.mem_iff.mp h1) with e' | e'
        · rw [e']
        · exact (tlt_asymm _ _ e e').elim

/-! ### the inner walk and the outer loop -/

/-- same cluster, dictionaries equal up to order -/
def R3 (x y : List TIdx × Dict × Dict) : Prop :=
  x.1 = y.1 ∧ WF x.2.1 ∧ WF x.2.2 ∧ x.2.1.Perm y.2.1 ∧ x.2.2.Perm y.2.2

theorem ddel_perm (d d' : Dict) (k : TIdx) (hp : d.Perm d') : (ddel d k).Perm (ddel d' k) := hp.filter _

theorem walk_perm (f : Nat) : ∀ (cl : List TIdx) (next : TIdx) (col col' row row' : Dict),
    WF col → WF row → col.Perm col' → row.Perm row' →
    R3 (walk f cl next col row) (walk f cl next col' row') := by
  induction f with
  | zero => intro cl next col col' row row' hc hr pc pr; exact ⟨rfl, hc, hr, pc, pr⟩
  | succ f ih =>
    intro cl next col col' row row' hc hr pc pr
    have e1 := dget_perm col col' hc pc next
    unfold walk
    simp only []
    rw [← e1]
    cases h1 : dget col next with
    | none => exact ⟨rfl, hc, hr, pc, pr⟩
    | some v1 =>
      simp only []
      have hc1 := wf_ddel col next hc
      have pc1 := ddel_perm col col' next pc
      have e2 := dget_perm row row' hr pr next
      rw [← e2]
      cases h2 : dget row next with
      | none => exact ⟨rfl, hc1, hr, pc1, pr⟩
      | some m =>
        simp only []
        have hr1 := wf_ddel row next hr
        have pr1 := ddel_perm row row' next pr
        have e3 := dget_perm _ _ hr1 pr1 m
        rw [← e3]
        cases h3 : dget (ddel row next) m with
        | none => exact ⟨rfl, hc1, hr1, pc1, pr1⟩
        | some v3 =>
          simp only []
          have hr2 := wf_ddel _ m hr1
          have pr2 := ddel_perm _ _ m pr1
          have e4 := dget_perm _ _ hc1 pc1 m
          rw [← e4]
          cases h4 : dget (ddel col next) m with
          | none => exact ⟨rfl, hc1, hr2, pc1, pr2⟩
          | some n2 =>
            simp only []
            exact ih _ n2 _ _ _ _ (wf_ddel _ m hc1) hr2 (ddel_perm _ _ m pc1) pr2

theorem clustersLoop_perm (F : Nat) : ∀ (col col' row row' : Dict) (acc : List (List TIdx)),
    WF col → WF row → col.Perm col' → row.Perm row' →
    clustersLoop F col row acc = clustersLoop F col' row' acc := by
  induction F with
  | zero => intro col col' row row' acc _ _ _ _; rfl
  | succ F ih =>
    intro col col' row row' acc hc hr pc pr
    unfold clustersLoop
    rw [← minEntry_perm col col' hc pc]
    cases hm : minEntry col with
    | none =>
      simp only []
      have : row.isEmpty = row'.isEmpty := by
        cases row with
        | nil => rw [List.nil_perm] at pr; subst pr; rfl
        | cons a r =>
          cases row' with
          | nil => rw [List.perm_nil] at pr; cases pr
          | cons a' r' => rfl
      rw [this]
    | some e =>
      simp only []
      rw [← pc.length_eq]
      obtain ⟨w1, w2, w3, w4, w5⟩ := walk_perm (col.length + 1) [e.1] e.2 _ _ row row'
        (wf_ddel col e.1 hc) hr (ddel_perm col col' e.1 pc) pr
      rw [← w1]
      split
      · rfl
      · split
        · rfl
        · exact ih _ _ _ _ _ w2 w3 w4 w5

/-! ### `_clusters` is a function of the set of unordered pairs -/

/-- **`clusters ms = clusters ms'`** for two lists of matches (each satisfying the facts a perfect matching of the
    symmetry graph has: same-orientation pairs or twins, distinct endpoints, closed under twins) that hold the same
    unordered same-orientation pairs -/
theorem clusters_congr (ms ms' : List (Node × Node))
    (hG : ∀ m ∈ ms, m.1.2 = m.2.2 ∨ m.1.1 = m.2.1) (hN : (ends ms).Nodup)
    (hT : ∀ k o, (k, o) ∈ ends ms → (k, !o) ∈ ends ms)
    (hG' : ∀ m ∈ ms', m.1.2 = m.2.2 ∨ m.1.1 = m.2.1) (hN' : (ends ms').Nodup)
    (hT' : ∀ k o, (k, o) ∈ ends ms' → (k, !o) ∈ ends ms')
    (hP : ∀ o k v, P ms o k v ↔ P ms' o k v) : clusters ms = clusters ms' := by
  obtain ⟨row, col, hb, hg, hc, hr⟩ := mates_good ms hG hN hT
  obtain ⟨row', col', hb', hg', hc', hr'⟩ := mates_good ms' hG' hN' hT'
  have ec : ∀ k, dget col k = dget col' k := by
    intro k
    apply Option.ext
    intro v
    rw [hc, hc', hP]
  have er : ∀ k, dget row k = dget row' k := by
    intro k
    apply Option.ext
    intro v
    rw [hr, hr', hP]
  have wr : ∀ (c r : Dict), Good c r → buildMates ms [] [] = .ok (r, c) → WF r := by
    intro c r _ hbm
    obtain ⟨r2, c2, h1, h2, _⟩ := build_spec ms [] [] hG hN (by intro k hk; simp [dget] at hk)
      (by intro k hk; simp [dget] at hk) (by simp [WF]) (by simp [WF])
    rw [h1] at hbm; cases hbm; exact h2
  have wr' : WF row' := by
    obtain ⟨r2, c2, h1, h2, _⟩ := build_spec ms' [] [] hG' hN' (by intro k hk; simp [dget] at hk)
      (by intro k hk; simp [dget] at hk) (by simp [WF]) (by simp [WF])
    rw [h1] at hb'; cases hb'; exact h2
  have wrow := wr col row hg hb
  have pc := perm_of_dget_eq col col' hg.wfc hg'.wfc ec
  have pr := perm_of_dget_eq row row' wrow wr' er
  unfold clusters
  rw [hb, hb']
  simp only []
  rw [← pc.length_eq]
  exact clustersLoop_perm _ col col' row row' [] hg.wfc wrow pc pr

/-! ### reordering / re-orienting a matching -/

/-- flip the orientation of the pairs marked `true` -/
def flipPairs : List Bool → List (Node × Node) → List (Node × Node)
  | b :: bs, m :: ms => (if b then (m.2, m.1) else m) :: flipPairs bs ms
  | _, ms => ms

theorem ends_flip_perm (bs : List Bool) (ms : List (Node × Node)) : (ends (flipPairs bs ms)).Perm (ends ms) := by
  induction ms generalizing bs with
  | nil => cases bs <;> exact List.Perm.refl _
  | cons m ms ih =>
    cases bs with
    | nil => exact List.Perm.refl _
    | cons b bs =>
      show (ends ((if b then (m.2, m.1) else m) :: flipPairs bs ms)).Perm (ends (m :: ms))
      rw [ends_cons, ends_cons]
      cases b with
      | false => exact ((ih bs).cons _).cons _
      | true => exact (List.Perm.swap _ _ _).trans (((ih bs).cons _).cons _)

theorem or4 (A B P Q P' Q' : Prop) (h : P ∨ Q ↔ P' ∨ Q') : ((A ∨ P) ∨ (B ∨ Q)) ↔ ((A ∨ P') ∨ (B ∨ Q')) := by
  rw [or_or_or_comm, h, or_or_or_comm]

theorem or4s (A B P Q P' Q' : Prop) (h : P ∨ Q ↔ P' ∨ Q') : ((B ∨ P) ∨ (A ∨ Q)) ↔ ((A ∨ P') ∨ (B ∨ Q')) := by
  rw [or_or_or_comm, h, or_comm (a := B) (b := A), or_or_or_comm]

theorem mem_flip_iff (bs : List Bool) (ms : List (Node × Node)) (a b : Node) :
    ((a, b) ∈ flipPairs bs ms ∨ (b, a) ∈ flipPairs bs ms) ↔ ((a, b) ∈ ms ∨ (b, a) ∈ ms) := by
  induction ms generalizing bs with
  | nil => cases bs <;> exact Iff.rfl
  | cons m ms ih =>
    cases bs with
    | nil => exact Iff.rfl
    | cons c bs =>
      show ((a, b) ∈ (if c then (m.2, m.1) else m) :: flipPairs bs ms ∨
        (b, a) ∈ (if c then (m.2, m.1) else m) :: flipPairs bs ms) ↔ _
      simp only [List.mem_cons]
      have := ih bs
      obtain ⟨m1, m2⟩ := m
      cases c with
      | false => simp only [Bool.false_eq_true, if_false]; exact or4 _ _ _ _ _ _ this
      | true =>
        simp only [if_true]
        have sw : ((a, b) = (m2, m1)) ↔ ((b, a) = (m1, m2)) := by
          simp only [Prod.mk.injEq]; exact and_comm
        have sw' : ((b, a) = (m2, m1)) ↔ ((a, b) = (m1, m2)) := by
          simp only [Prod.mk.injEq]; exact and_comm
        rw [sw, sw']
        exact or4s _ _ _ _ _ _ this

theorem ends_perm_of_perm {α : Type} (ms ms' : List (α × α)) (hp : ms.Perm ms') : (ends ms).Perm (ends ms') := by
  unfold ends
  exact hp.flatMap_right _

/-- **the first matching as a set**: any reordering `ms₁` of `ms`, with the pairs marked in `bs` named the other way
    round, gives the same clusters -/
theorem clusters_perm_flip (ms ms₁ : List (Node × Node)) (hp : ms.Perm ms₁) (bs : List Bool)
    (hG : ∀ m ∈ ms, m.1.2 = m.2.2 ∨ m.1.1 = m.2.1) (hN : (ends ms).Nodup)
    (hT : ∀ k o, (k, o) ∈ ends ms → (k, !o) ∈ ends ms) :
    clusters (flipPairs bs ms₁) = clusters ms := by
  have pe : (ends (flipPairs bs ms₁)).Perm (ends ms) :=
    (ends_flip_perm bs ms₁).trans (ends_perm_of_perm _ _ hp.symm)
  have hmem : ∀ a b : Node, ((a, b) ∈ flipPairs bs ms₁ ∨ (b, a) ∈ flipPairs bs ms₁) ↔ ((a, b) ∈ ms ∨ (b, a) ∈ ms) := by
    intro a b
    rw [mem_flip_iff, hp.mem_iff, hp.mem_iff]
  apply clusters_congr
  · intro m hm
    obtain ⟨a, b⟩ := m
    rcases (hmem a b).mp (Or.inl hm) with h | h
    · exact hG _ h
    · rcases hG _ h with h' | h'
      · exact Or.inl h'.symm
      · exact Or.inr h'.symm
  · exact pe.nodup_iff.mpr hN
  · intro k o h
    exact pe.mem_iff.mpr (hT k o (pe.mem_iff.mp h))
  · exact hG
  · exact hN
  · exact hT
  · intro o k v
    unfold P
    rw [hmem]

end Qec.SmwpmOrder
