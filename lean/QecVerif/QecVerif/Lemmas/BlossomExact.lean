/-
  Helper lemmas for Props/C14/Blossom.lean: `Blossom5.ClibContract` is satisfiable.  `bruteClib` — exhaustive search
  (`MwpmBridge.bruteNx` through the verified networkx wrapper) on the graph of the edge arrays, the matching written
  into a mates array — meets the contract on every input, so the Blossom V theorems are not vacuous and the tests in
  Props/C14/Blossom.lean can run with it.
-/
import QecVerif.Lemmas.BlossomBridge
import Mathlib.Data.List.Pairwise
namespace Qec.BlossomExact
open Qec Qec.Matching Qec.Blossom5 Qec.MwpmBridge

/-- the edge arrays as a C13 graph -/
def idGraph (es : List IEdge) : Graph := es.map fun e => ((e.1, e.2.1), (e.2.2 : Rat))

/-- the other end of the pair of `M` that contains `i` (0 when there is none) -/
def partner : List Edge → Nat → Nat
  | [], _ => 0
  | p :: M, i => if p.1 = i then p.2 else if p.2 = i then p.1 else partner M i

/-- an exact stand-in for the Blossom V routine -/
def bruteClib : Clib := fun n es => (List.range n).map (partner (mwpmNetworkx bruteNx (idGraph es)))

theorem mateOf_brute (n : Nat) (es : List IEdge) (i : Nat) (hi : i < n) :
    mateOf bruteClib n es i = partner (mwpmNetworkx bruteNx (idGraph es)) i := by
  unfold mateOf bruteClib
  rw [List.getD_eq_getElem?_getD, List.getElem?_map, List.getElem?_range hi]
  rfl

theorem lookup_idGraph (es : List IEdge) (a b : Nat) :
    lookup (idGraph es) (a, b) = (idLookup es a b).map fun z => (z : Rat) := by
  have hcongr : es.find? ((fun e : Edge × Rat => e.1 == (a, b)) ∘ fun e : IEdge => ((e.1, e.2.1), (e.2.2 : Rat))) =
      es.find? (fun e => e.1 == a && e.2.1 == b) := by
    apply find?_congr'
    intro x _
    simp only [Function.comp]
    rw [Bool.eq_iff_iff]
    simp only [Bool.and_eq_true, beq_iff_eq, Prod.mk.injEq]
  unfold lookup idGraph idLookup
  rw [List.find?_map, hcongr]
  cases es.find? (fun e => e.1 == a && e.2.1 == b) <;> rfl

theorem edgeW_idGraph (es : List IEdge) : edgeW (idGraph es) = idWR es := by
  funext a b
  unfold edgeW idWR idW
  rw [lookup_idGraph, lookup_idGraph]
  cases idLookup es a b <;> cases idLookup es b a <;> rfl

theorem nodesOf_idGraph_perm (n : Nat) (es : List IEdge) (hlt : ∀ e ∈ es, e.1 < n ∧ e.2.1 < n)
    (hall : ∀ i < n, ∃ e ∈ es, i = e.1 ∨ i = e.2.1) : (nodesOf (idGraph es)).Perm (List.range n) := by
  apply (List.perm_ext_iff_of_nodup (nodup_nodesOf _) List.nodup_range).mpr
  intro v
  rw [mem_nodesOf, List.mem_range]
  constructor
  · rintro ⟨e, he, hv⟩
    obtain ⟨x, hx, rfl⟩ := List.mem_map.mp he
    rcases hv with rfl | rfl
    · exact (hlt x hx).1
    · exact (hlt x hx).2
  · intro hv
    obtain ⟨x, hx, hvx⟩ := hall v hv
    exact ⟨_, List.mem_map.mpr ⟨x, hx, rfl⟩, hvx⟩

theorem idWR_isSome_symm (es : List IEdge) (a b : Nat) : (idWR es a b).isSome = (idWR es b a).isSome := by
  unfold idWR idW
  cases idLookup es a b <;> cases idLookup es b a <;> rfl

theorem idLookup_some {es : List IEdge} {a b : Nat} {x : Int} (h : idLookup es a b = some x) :
    (a, b, x) ∈ es := by
  unfold idLookup at h
  obtain ⟨e, he, hx⟩ := Option.map_eq_some_iff.mp h
  have hp := List.find?_some he
  simp only [Bool.and_eq_true, beq_iff_eq] at hp
  have hm := List.mem_of_find?_eq_some he
  have : e = (a, b, x) := Prod.ext hp.1 (Prod.ext hp.2 hx)
  rw [← this]; exact hm

/-- on a simple edge list the weight of an unordered pair does not depend on the orientation asked for -/
theorem idWR_symm (es : List IEdge) (hpw : es.Pairwise (fun e f => ¬ SamePair e f)) (a b : Nat) :
    idWR es a b = idWR es b a := by
  unfold idWR idW
  cases h1 : idLookup es a b with
  | none => cases h2 : idLookup es b a <;> rfl
  | some x =>
    cases h2 : idLookup es b a with
    | none => rfl
    | some y =>
      have he := idLookup_some h1
      have hf := idLookup_some h2
      by_cases hef : ((a, b, x) : IEdge) = (b, a, y)
      · simp only [Prod.mk.injEq] at hef
        rw [hef.2.2]
      · exfalso
        haveI hsym : Std.Symm (fun e f : IEdge => ¬ SamePair e f) := ⟨by
          intro e f h hs
          apply h
          rcases hs with ⟨s1, s2⟩ | ⟨s1, s2⟩
          · exact .inl ⟨s1.symm, s2.symm⟩
          · exact .inr ⟨s2.symm, s1.symm⟩⟩
        exact hpw.forall he hf hef (.inr ⟨rfl, rfl⟩)

theorem partner_spec : ∀ (M : List Edge), (endpoints M).Nodup → ∀ p ∈ M,
    partner M p.1 = p.2 ∧ partner M p.2 = p.1 ∧ p.1 ≠ p.2
  | [], _, p, hp => by simp at hp
  | q :: M, hnd, p, hp => by
    rw [endpoints_cons] at hnd
    simp only [List.nodup_cons, List.mem_cons, not_or] at hnd
    obtain ⟨⟨h12, h1n⟩, h2n, hnd'⟩ := hnd
    rcases List.mem_cons.mp hp with rfl | hp'
    · refine ⟨?_, ?_, h12⟩
      · show (if p.1 = p.1 then p.2 else if p.2 = p.1 then p.1 else partner M p.1) = p.2
        rw [if_pos rfl]
      · show (if p.1 = p.2 then p.2 else if p.2 = p.2 then p.1 else partner M p.2) = p.1
        rw [if_neg h12, if_pos rfl]
    · have ih := partner_spec M hnd' p hp'
      have m1 : p.1 ∈ endpoints M := (mem_endpoints M _).mpr ⟨p, hp', .inl rfl⟩
      have m2 : p.2 ∈ endpoints M := (mem_endpoints M _).mpr ⟨p, hp', .inr rfl⟩
      have a1 : q.1 ≠ p.1 := fun e => h1n (e ▸ m1)
      have a2 : q.2 ≠ p.1 := fun e => h2n (e ▸ m1)
      have b1 : q.1 ≠ p.2 := fun e => h1n (e ▸ m2)
      have b2 : q.2 ≠ p.2 := fun e => h2n (e ▸ m2)
      refine ⟨?_, ?_, ih.2.2⟩
      · show (if q.1 = p.1 then q.2 else if q.2 = p.1 then q.1 else partner M p.1) = p.2
        rw [if_neg a1, if_neg a2]; exact ih.1
      · show (if q.1 = p.2 then q.2 else if q.2 = p.2 then q.1 else partner M p.2) = p.1
        rw [if_neg b1, if_neg b2]; exact ih.2.1

theorem weightBy_map_sortPair (w : Node → Node → Option Rat) (hs : ∀ a b, w a b = w b a) (M : List Edge) :
    weightBy w (M.map sortPair) = weightBy w M := by
  induction M with
  | nil => rfl
  | cons p M ih =>
    simp only [List.map_cons, weightBy, ih]
    congr 1
    unfold sortPair pairW
    split
    · rfl
    · simp only; rw [hs]

/-- **the contract of the C routine is satisfiable**: exhaustive search meets it on every input -/
theorem bruteClib_contract : ClibContract bruteClib := by
  intro n es hlt hall hpw hpm
  have hperm := nodesOf_idGraph_perm n es hlt hall
  have hpm' : ∃ P, IsPM (nodesOf (idGraph es)) (edgeW (idGraph es)) P := by
    obtain ⟨P, hP⟩ := hpm
    exact ⟨P, by rw [edgeW_idGraph]; exact ⟨hP.1, hP.2.trans hperm.symm⟩⟩
  obtain ⟨hM, hmin, _⟩ := C13.mwpmNetworkx_min_weight_perfect bruteNx bruteNx_contract (idGraph es) hpm'
  unfold matchingWeight at hmin
  rw [edgeW_idGraph] at hM hmin
  generalize hMdef : mwpmNetworkx bruteNx (idGraph es) = M at hM hmin
  have hmate : ∀ i < n, mateOf bruteClib n es i = partner M i := by
    intro i hi; rw [← hMdef]; exact mateOf_brute n es i hi
  have hMr : IsPM (List.range n) (idWR es) M := ⟨hM.1, hM.2.trans hperm⟩
  have hnd : (endpoints M).Nodup := hMr.2.nodup_iff.mpr List.nodup_range
  have hin : ∀ i < n, ∃ p ∈ M, i = p.1 ∨ i = p.2 := fun i hi =>
    (mem_endpoints M i).mp (hMr.2.mem_iff.mpr (List.mem_range.mpr hi))
  have hlt' : ∀ p ∈ M, p.1 < n ∧ p.2 < n := fun p hp =>
    ⟨List.mem_range.mp (hMr.2.mem_iff.mp ((mem_endpoints M _).mpr ⟨p, hp, .inl rfl⟩)),
     List.mem_range.mp (hMr.2.mem_iff.mp ((mem_endpoints M _).mpr ⟨p, hp, .inr rfl⟩))⟩
  have hinv : ∀ i < n, partner M i < n ∧ partner M i ≠ i ∧ partner M (partner M i) = i ∧
      (idWR es i (partner M i)).isSome = true := by
    intro i hi
    obtain ⟨p, hp, hip⟩ := hin i hi
    obtain ⟨s1, s2, s3⟩ := partner_spec M hnd p hp
    rcases hip with rfl | rfl
    · rw [s1]; exact ⟨(hlt' p hp).2, fun e => s3 e.symm, s2, hMr.1 p hp⟩
    · rw [s2]; exact ⟨(hlt' p hp).1, s3, s1, by rw [idWR_isSome_symm]; exact hMr.1 p hp⟩
  have hQ := isPM_matesPairs n (partner M) (idWR es) hinv
  have hsub : ∀ q ∈ matesPairs n (partner M), q ∈ M.map sortPair := by
    intro q hq
    obtain ⟨q1, q2, q3⟩ := (mem_matesPairs _ _ q).mp hq
    obtain ⟨p, hp, hip⟩ := hin q.1 q1
    obtain ⟨s1, s2, s3⟩ := partner_spec M hnd p hp
    refine List.mem_map.mpr ⟨p, hp, ?_⟩
    rcases hip with h | h
    · have h' : q.2 = p.2 := by rw [q3, h, s1]
      unfold sortPair
      rw [if_pos (by rw [← h, ← h']; exact Nat.le_of_lt q2)]
      exact Prod.ext h.symm h'.symm
    · have h' : q.2 = p.1 := by rw [q3, h, s2]
      unfold sortPair
      rw [if_neg (by rw [← h, ← h']; omega)]
      exact Prod.ext h.symm h'.symm
  have hlen : (M.map sortPair).length ≤ (matesPairs n (partner M)).length := by
    have a := length_endpoints M
    have b := length_endpoints (matesPairs n (partner M))
    rw [hMr.2.length_eq] at a
    rw [hQ.2.length_eq] at b
    rw [List.length_map]; omega
  have hpermQ : (matesPairs n (partner M)).Perm (M.map sortPair) :=
    (List.subperm_of_subset (nodup_matesPairs _ _) hsub).perm_of_length_le hlen
  refine ⟨?_, ?_⟩
  · intro i hi
    obtain ⟨c1, c2, c3, c4⟩ := hinv i hi
    rw [hmate i hi, hmate _ c1]
    exact ⟨c1, c2, c3, c4⟩
  · intro P hP
    have hcongr : matesPairs n (mateOf bruteClib n es) = matesPairs n (partner M) := by
      unfold matesPairs
      apply List.filterMap_congr
      intro i hi
      rw [hmate i (List.mem_range.mp hi)]
    rw [hcongr, weightBy_perm _ hpermQ, weightBy_map_sortPair _ (idWR_symm es hpw)]
    exact hmin P ⟨hP.1, hP.2.trans hperm.symm⟩

end Qec.BlossomExact
