/-
  Helper lemmas for the planar Y decoder, part 2: linearity of the syndrome, the residual look-up table
  (`addEntries` as a dict with `setdefault`), `itertools.combinations` covers every sub-list, span ⇒ key present.
-/
import QecVerif.Lemmas.PlanarY
namespace Qec.PlanarYL
open Qec Qec.Planar Qec.Symp Qec.PlanarCode Qec.PlanarY

/-! ### 6. syndromes as vectors -/

theorem syndrome_eq_map (R C : Int) (e : BVec) :
    syndrome R C e = (plaquetteIndices R C).map (fun q => bsp e (stabOp R C q)) := by
  unfold syndrome synd
  rw [stabilizers_eq_map, List.map_map]
  rfl

theorem syndrome_length (R C : Int) (e : BVec) : (syndrome R C e).length = (plaquetteIndices R C).length := by
  rw [syndrome_eq_map, List.length_map]

theorem xorV_map_map {α : Type} (l : List α) (f g : α → Bool) :
    xorV (l.map f) (l.map g) = l.map (fun x => f x ^^ g x) := by
  induction l with
  | nil => rfl
  | cons x l ih =>
    simp only [List.map_cons, xorV, List.zipWith_cons_cons]
    congr 1

theorem syndrome_xorV (R C : Int) (a b : BVec) (h : a.length = b.length) :
    syndrome R C (xorV a b) = xorV (syndrome R C a) (syndrome R C b) := by
  rw [syndrome_eq_map, syndrome_eq_map, syndrome_eq_map, xorV_map_map]
  apply List.map_congr_left
  intro q _
  exact bsp_xorV_left a b _ h

theorem syndrome_zeros (R C : Int) (k : Nat) : syndrome R C (zeros k) = zeros (plaquetteIndices R C).length := by
  rw [syndrome_eq_map]
  unfold zeros
  rw [List.eq_replicate_iff]
  refine ⟨by simp, ?_⟩
  intro b hb
  rcases List.mem_map.mp hb with ⟨q, _, rfl⟩
  exact bsp_zeros_left _ _

theorem xorV_cancel_left (s t : BVec) (h : s.length = t.length) : xorV s (xorV s t) = t := by
  rw [← xorV_assoc, xorV_self, xorV_zeros_left _ _ h.symm]

theorem eq_zeros_of_any (v : BVec) (h : v.any id = false) : v = zeros v.length := by
  unfold zeros
  rw [List.eq_replicate_iff]
  refine ⟨rfl, ?_⟩
  intro b hb
  cases b
  · rfl
  · exfalso
    have : v.any id = true := List.any_eq_true.mpr ⟨true, hb, rfl⟩
    rw [h] at this; exact Bool.noConfusion this

theorem eq_zeros_of_isZero (v : BVec) (h : isZero v = true) : v = zeros v.length := by
  apply eq_zeros_of_any
  rw [Bool.eq_false_iff]
  intro h2
  rcases List.any_eq_true.mp h2 with ⟨b, hb, hb2⟩
  have := List.all_eq_true.mp h b hb
  cases b <;> simp_all

theorem any_zeros (k : Nat) : (zeros k).any id = false := by
  simp [zeros]

/-- equal-length vectors whose XOR vanishes are equal -/
theorem eq_of_xorV_zero (a b : BVec) (h : a.length = b.length) (hz : (xorV a b).any id = false) : a = b := by
  have e := eq_zeros_of_any _ hz
  have hl : (xorV a b).length = a.length := xorV_length a b h
  have : xorV a (xorV a b) = b := xorV_cancel_left a b h
  rw [e, hl, xorV_zeros_right a _ rfl] at this
  exact this

/-! ### 7. `xorSet` -/

theorem xorSet_cons (m : Nat) (r : BVec) (set : List BVec) (hr : r.length = m) (hs : AllLen m set) :
    xorSet m (r :: set) = xorV r (xorSet m set) := by
  unfold xorSet
  simp only [List.foldl_cons]
  rw [xorV_zeros_left r m hr]
  suffices H : ∀ (acc : BVec), acc.length = m → List.foldl xorV (xorV r acc) set = xorV r (List.foldl xorV acc set) by
    have := H (zeros m) (zeros_length m)
    rw [xorV_zeros_right r m hr] at this
    exact this
  induction set with
  | nil => intro acc _; rfl
  | cons x set ih =>
    intro acc hacc
    simp only [List.foldl_cons]
    rw [xorV_assoc]
    exact ih hs.tail (xorV acc x) (by rw [xorV_length _ _ (by rw [hacc, hs.head])]; exact hacc)

theorem xorSet_length (m : Nat) (set : List BVec) (hs : AllLen m set) : (xorSet m set).length = m := by
  induction set with
  | nil => exact zeros_length m
  | cons r set ih =>
    rw [xorSet_cons m r set hs.head hs.tail, xorV_length _ _ (by rw [hs.head, ih hs.tail])]
    exact hs.head

/-- the XOR-combination of the syndromes with coefficients `cs` is the syndrome of the product of the selected rows -/
theorem xorComb_syndrome (R C : Int) (m : Nat) (cs : List Bool) (rows : List BVec) (hl : AllLen m rows) :
    xorComb (plaquetteIndices R C).length cs (rows.map (syndrome R C)) = syndrome R C (xorSet m (select cs rows)) := by
  induction cs generalizing rows with
  | nil => simp only [xorComb_nil_left, select]; exact (syndrome_zeros R C m).symm
  | cons c cs ih =>
    cases rows with
    | nil => simp only [List.map_nil, xorComb_nil_right, select]; exact (syndrome_zeros R C m).symm
    | cons r rows =>
      simp only [List.map_cons, xorComb_cons, select]
      have hsub : AllLen m (select cs rows) := AllLen.sublist (select_sublist cs rows) hl.tail
      cases c
      · simp only [Bool.false_eq_true, if_false]
        exact ih rows hl.tail
      · simp only [if_true]
        rw [xorSet_cons m r _ hl.head hsub, syndrome_xorV R C _ _ (by rw [hl.head, xorSet_length m _ hsub]),
          ih rows hl.tail]

/-! ### 8. `itertools.combinations` yields every sub-list -/

theorem mem_combinations_of_sublist {α : Type} (sub xs : List α) (h : sub.Sublist xs) :
    sub ∈ Qec.combinations xs sub.length := by
  induction h with
  | slnil => simp [Qec.combinations]
  | @cons l₁ l₂ a _ ih =>
    cases l₁ with
    | nil => simp [Qec.combinations]
    | cons b l₁ =>
      simp only [List.length_cons, Qec.combinations, List.mem_append]
      right
      exact ih
  | @cons_cons l₁ l₂ a _ ih =>
    simp only [List.length_cons, Qec.combinations, List.mem_append, List.mem_map]
    left
    exact ⟨l₁, ih, rfl⟩

theorem mem_allCombinations_of_sublist {α : Type} (sub xs : List α) (h : sub.Sublist xs) (hne : sub ≠ []) :
    sub ∈ allCombinations xs := by
  unfold allCombinations
  rw [List.mem_flatMap]
  have hlen := h.length_le
  have hpos : 0 < sub.length := List.length_pos_iff.mpr hne
  refine ⟨sub.length - 1, List.mem_range.mpr (by omega), ?_⟩
  rw [show sub.length - 1 + 1 = sub.length by omega]
  exact mem_combinations_of_sublist sub xs h

theorem sublist_of_mem_combinations {α : Type} (xs : List α) (k : Nat) (sub : List α)
    (h : sub ∈ Qec.combinations xs k) : sub.Sublist xs := by
  induction xs generalizing k sub with
  | nil =>
    cases k with
    | zero => simp [Qec.combinations] at h; subst h; exact List.Sublist.slnil
    | succ k => simp [Qec.combinations] at h
  | cons x xs ih =>
    cases k with
    | zero => simp [Qec.combinations] at h; subst h; exact List.nil_sublist _
    | succ k =>
      simp only [Qec.combinations, List.mem_append, List.mem_map] at h
      rcases h with ⟨t, ht, rfl⟩ | h
      · exact (ih k t ht).cons_cons x
      · exact (ih (k + 1) sub h).cons x

theorem sublist_of_mem_allCombinations {α : Type} (xs sub : List α) (h : sub ∈ allCombinations xs) :
    sub.Sublist xs := by
  unfold allCombinations at h
  rcases List.mem_flatMap.mp h with ⟨n, _, hn⟩
  exact sublist_of_mem_combinations xs (n + 1) sub hn

/-! ### 9. the dict -/

/-- every entry's key is the syndrome of its value, and values have length `k` -/
def MapOk (S : List BVec) (k : Nat) (m : List (BVec × BVec)) : Prop := ∀ e ∈ m, e.1 = synd S e.2 ∧ e.2.length = k

/-- one `setdefault` -/
def addOne (S : List BVec) (skipTrivial : Bool) (m : List (BVec × BVec)) (o : BVec) : List (BVec × BVec) :=
  if skipTrivial && isZero (synd S o) then m
  else if m.any (fun e => e.1 == synd S o) then m
  else m ++ [(synd S o, o)]

theorem addEntries_eq (S : List BVec) (m : List (BVec × BVec)) (ops : List BVec) (skip : Bool) :
    addEntries S m ops skip = ops.foldl (addOne S skip) m := rfl

theorem addOne_mono (S : List BVec) (skip : Bool) (m : List (BVec × BVec)) (o : BVec) :
    ∀ e ∈ m, e ∈ addOne S skip m o := by
  intro e he
  unfold addOne
  split
  · exact he
  · split
    · exact he
    · exact List.mem_append_left _ he

theorem addOne_ok (S : List BVec) (k : Nat) (skip : Bool) (m : List (BVec × BVec)) (o : BVec) (hm : MapOk S k m)
    (ho : o.length = k) : MapOk S k (addOne S skip m o) := by
  unfold addOne
  split
  · exact hm
  · split
    · exact hm
    · intro e he
      rcases List.mem_append.mp he with he | he
      · exact hm e he
      · simp only [List.mem_singleton] at he
        subst he
        exact ⟨rfl, ho⟩

theorem addOne_covers (S : List BVec) (skip : Bool) (m : List (BVec × BVec)) (o : BVec)
    (h : skip = false ∨ isZero (synd S o) = false) : ∃ e ∈ addOne S skip m o, e.1 = synd S o := by
  unfold addOne
  have : (skip && isZero (synd S o)) = false := by rcases h with h | h <;> simp [h]
  rw [this]
  simp only [Bool.false_eq_true, if_false]
  split
  · next hany =>
    rcases List.any_eq_true.mp hany with ⟨e, he, heq⟩
    exact ⟨e, he, eq_of_beq heq⟩
  · exact ⟨(synd S o, o), List.mem_append_right _ (List.mem_singleton.mpr rfl), rfl⟩

theorem addEntries_mono (S : List BVec) (skip : Bool) (ops : List BVec) (m : List (BVec × BVec)) :
    ∀ e ∈ m, e ∈ addEntries S m ops skip := by
  rw [addEntries_eq]
  induction ops generalizing m with
  | nil => intro e he; exact he
  | cons o ops ih =>
    intro e he
    simp only [List.foldl_cons]
    exact ih _ e (addOne_mono S skip m o e he)

theorem addEntries_ok (S : List BVec) (k : Nat) (skip : Bool) (ops : List BVec) (m : List (BVec × BVec))
    (hm : MapOk S k m) (ho : AllLen k ops) : MapOk S k (addEntries S m ops skip) := by
  rw [addEntries_eq]
  induction ops generalizing m with
  | nil => exact hm
  | cons o ops ih =>
    simp only [List.foldl_cons]
    exact ih _ (addOne_ok S k skip m o hm ho.head) ho.tail

theorem addEntries_covers (S : List BVec) (skip : Bool) (ops : List BVec) (m : List (BVec × BVec)) (o : BVec)
    (ho : o ∈ ops) (h : skip = false ∨ isZero (synd S o) = false) :
    ∃ e ∈ addEntries S m ops skip, e.1 = synd S o := by
  induction ops generalizing m with
  | nil => simp at ho
  | cons x ops ih =>
    rw [addEntries_eq]
    simp only [List.foldl_cons]
    rcases List.mem_cons.mp ho with rfl | ho
    · rcases addOne_covers S skip m o h with ⟨e, he, heq⟩
      exact ⟨e, addEntries_mono S skip ops _ e he, heq⟩
    · exact ih _ ho

theorem lookup_isSome (m : List (BVec × BVec)) (s : BVec) (h : ∃ e ∈ m, e.1 = s) : ∃ v, lookup m s = some v := by
  rcases h with ⟨e, he, heq⟩
  unfold lookup
  cases hf : m.find? (fun e => e.1 == s) with
  | none =>
    have := List.find?_eq_none.mp hf e he
    simp [heq] at this
  | some x => exact ⟨x.2, rfl⟩

theorem lookup_some (m : List (BVec × BVec)) (s v : BVec) (h : lookup m s = some v) : ∃ e ∈ m, e.1 = s ∧ e.2 = v := by
  unfold lookup at h
  cases hf : m.find? (fun e => e.1 == s) with
  | none => rw [hf] at h; simp at h
  | some x =>
    rw [hf] at h
    simp only [Option.map_some, Option.some.injEq] at h
    have hx := List.find?_some hf
    exact ⟨x, List.mem_of_find?_eq_some hf, eq_of_beq hx, h⟩

/-! ### 10. the residual look-up table of the code -/

theorem isZero_false_of_any (v : BVec) (h : v.any id = true) : isZero v = false := by
  rw [Bool.eq_false_iff]
  intro hz
  rcases List.any_eq_true.mp h with ⟨b, hb, hb2⟩
  have := List.all_eq_true.mp hz b hb
  cases b <;> simp_all

theorem boundaryOps_len (R C : Int) : AllLen (2 * nq R C) (boundaryOps R C) := by
  intro o ho
  unfold boundaryOps at ho
  split at ho <;>
  · rcases List.mem_map.mp ho with ⟨i, _, rfl⟩
    exact yop_length R C _

/-- the first-stage table and the `operators` list of `_residual_syndrome_to_recovery_map` -/
def stage1 (R C : Int) : List (BVec × BVec) := addEntries (stabilizers R C) [] (boundaryOps R C) true
def operators (R C : Int) : List BVec := (stage1 R C).map (·.2)
def products (R C : Int) : List BVec := (allCombinations (operators R C)).map (xorSet (2 * nq R C))
def stage2 (R C : Int) : List (BVec × BVec) := addEntries (stabilizers R C) (stage1 R C) (products R C) true

theorem residualMap_eq (R C : Int) :
    residualMap R C = addEntries (stabilizers R C) (stage2 R C) [identity R C] false := rfl

theorem stage1_ok (R C : Int) : MapOk (stabilizers R C) (2 * nq R C) (stage1 R C) :=
  addEntries_ok _ _ _ _ _ (fun e he => by simp at he) (boundaryOps_len R C)

theorem operators_len (R C : Int) : AllLen (2 * nq R C) (operators R C) := by
  intro o ho
  rcases List.mem_map.mp ho with ⟨e, he, rfl⟩
  exact (stage1_ok R C e he).2

theorem products_len (R C : Int) : AllLen (2 * nq R C) (products R C) := by
  intro o ho
  rcases List.mem_map.mp ho with ⟨sub, hsub, rfl⟩
  exact xorSet_length _ _ (AllLen.sublist (sublist_of_mem_allCombinations _ _ hsub) (operators_len R C))

theorem stage2_ok (R C : Int) : MapOk (stabilizers R C) (2 * nq R C) (stage2 R C) :=
  addEntries_ok _ _ _ _ _ (stage1_ok R C) (products_len R C)

/-- every entry of the look-up table maps a syndrome to an operator of length 2n with that syndrome -/
theorem residualMap_ok (R C : Int) : MapOk (stabilizers R C) (2 * nq R C) (residualMap R C) := by
  rw [residualMap_eq]
  apply addEntries_ok _ _ _ _ _ (stage2_ok R C)
  intro o ho
  simp only [List.mem_singleton] at ho
  subst ho
  exact identity_length R C

/-- **completeness of the look-up table**: every non-zero vector in the span of the syndromes of the boundary
    operators is a key -/
theorem residual_found (R C : Int) (ρ : BVec)
    (hρ : InSpan (plaquetteIndices R C).length ((boundaryOps R C).map (syndrome R C)) ρ) (hnz : ρ.any id = true) :
    ∃ v, lookup (residualMap R C) ρ = some v := by
  have hlenS : AllLen (plaquetteIndices R C).length ((operators R C).map (syndrome R C)) := by
    intro a ha
    rcases List.mem_map.mp ha with ⟨o, _, rfl⟩
    exact syndrome_length R C o
  have step1 : ∀ a ∈ (boundaryOps R C).map (syndrome R C),
      InSpan (plaquetteIndices R C).length ((operators R C).map (syndrome R C)) a := by
    intro a ha
    rcases List.mem_map.mp ha with ⟨B, hB, rfl⟩
    cases hz : isZero (syndrome R C B) with
    | true =>
      have := eq_zeros_of_isZero _ hz
      rw [syndrome_length] at this
      rw [this]
      exact inSpan_zero _ _
    | false =>
      rcases addEntries_covers (stabilizers R C) true (boundaryOps R C) [] B hB (Or.inr hz) with ⟨e, he, heq⟩
      have hok := stage1_ok R C e he
      apply inSpan_mem _ _ hlenS
      apply List.mem_map.mpr
      refine ⟨e.2, List.mem_map.mpr ⟨e, he, rfl⟩, ?_⟩
      show synd (stabilizers R C) e.2 = synd (stabilizers R C) B
      rw [← hok.1, heq]
  rcases inSpan_trans _ _ _ hlenS step1 ρ hρ with ⟨cs, _, hcs⟩
  rw [xorComb_syndrome R C (2 * nq R C) cs (operators R C) (operators_len R C)] at hcs
  have hne : select cs (operators R C) ≠ [] := by
    intro h
    rw [h] at hcs
    have : ρ = zeros (plaquetteIndices R C).length := by
      rw [← hcs]; exact syndrome_zeros R C _
    rw [this, any_zeros] at hnz
    exact Bool.noConfusion hnz
  have hmem : xorSet (2 * nq R C) (select cs (operators R C)) ∈ products R C :=
    List.mem_map.mpr ⟨_, mem_allCombinations_of_sublist _ _ (select_sublist cs _) hne, rfl⟩
  have hz : isZero (synd (stabilizers R C) (xorSet (2 * nq R C) (select cs (operators R C)))) = false := by
    apply isZero_false_of_any
    show (syndrome R C _).any id = true
    rw [hcs]; exact hnz
  rcases addEntries_covers (stabilizers R C) true (products R C) (stage1 R C) _ hmem (Or.inr hz) with ⟨e, he, heq⟩
  apply lookup_isSome
  refine ⟨e, ?_, ?_⟩
  · rw [residualMap_eq]
    exact addEntries_mono _ _ _ _ e he
  · rw [heq]; exact hcs

/-- **the sample recovery given the combined partial recovery**: if the residual syndrome vanishes or is a key of
    the look-up table, `_sample_recovery` returns an operator with the requested syndrome -/
theorem sample_of_partial (R C : Int) (s rec : BVec) (hs : s.length = (plaquetteIndices R C).length)
    (hrec : rec.length = 2 * nq R C) (hcp : combinedPartial R C s = .ok rec)
    (hfound : (xorV s (syndrome R C rec)).any id = true →
      ∃ v, lookup (residualMap R C) (xorV s (syndrome R C rec)) = some v) :
    ∃ r, sampleRecovery R C s = .ok r ∧ r.length = 2 * nq R C ∧ syndrome R C r = s := by
  unfold sampleRecovery sampleRecoveryWith
  rw [hcp]
  simp only
  have hsl : s.length = (syndrome R C rec).length := by rw [syndrome_length, hs]
  cases hany : (xorV s (syndrome R C rec)).any id with
  | true =>
    rcases hfound hany with ⟨v, hv⟩
    rcases lookup_some _ _ _ hv with ⟨e, he, he1, he2⟩
    have hok := residualMap_ok R C e he
    rw [he2] at hok
    simp only [if_true]
    refine ⟨_, rfl, ?_, ?_⟩
    · unfold residualRecoveryIn
      rw [hv, Option.getD_some, xorV_length _ _ (by rw [hrec, hok.2])]
      exact hrec
    · unfold residualRecoveryIn
      rw [hv, Option.getD_some, syndrome_xorV R C _ _ (by rw [hrec, hok.2])]
      have : syndrome R C v = xorV (syndrome R C rec) s := by
        show synd (stabilizers R C) v = _
        rw [← hok.1, he1, xorV_comm]
      rw [this]
      exact xorV_cancel_left _ _ hsl.symm
  | false =>
    simp only [Bool.false_eq_true, if_false]
    exact ⟨rec, rfl, hrec, (eq_of_xorV_zero _ _ hsl hany).symm⟩

end Qec.PlanarYL
