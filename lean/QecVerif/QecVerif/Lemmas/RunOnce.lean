/-
  Helper lemmas for C01 (`Model/RunOnce.lean`): algebra of `xorV` folds, the periodic time axis,
  the syndrome hand-off, the verdict and the argument validators.
-/
import QecVerif.Model.RunOnce
import QecVerif.Lemmas.GF2
import QecVerif.Props.C09
namespace Qec

/-! ### `xorV` is an (unconditionally) commutative, associative operation -/

theorem xorV_comm (a b : BVec) : xorV a b = xorV b a := by
  unfold xorV; exact List.zipWith_comm_of_comm (by intro x y; exact Bool.xor_comm x y)

theorem xorV_assoc (a b c : BVec) : xorV (xorV a b) c = xorV a (xorV b c) := by
  induction a generalizing b c with
  | nil => simp [xorV]
  | cons x xs ih =>
    cases b with
    | nil => simp [xorV]
    | cons y ys =>
      cases c with
      | nil => simp [xorV]
      | cons z zs =>
        have := ih ys zs
        simp only [xorV, List.zipWith_cons_cons] at this ⊢
        rw [this, Bool.xor_assoc]

theorem xorV_right_comm (a b c : BVec) : xorV (xorV a b) c = xorV (xorV a c) b := by
  rw [xorV_assoc, xorV_comm b c, ← xorV_assoc]

theorem xorV_self (a : BVec) : xorV a a = zeros a.length := by
  induction a with
  | nil => rfl
  | cons x xs ih =>
    simp only [xorV, zeros, List.zipWith_cons_cons, List.length_cons, List.replicate_succ] at ih ⊢
    rw [ih]; simp

theorem xorV_zeros_left (k : Nat) (a : BVec) (h : a.length = k) : xorV (zeros k) a = a := by
  subst h
  induction a with
  | nil => rfl
  | cons x xs ih =>
    simp only [xorV, zeros, List.zipWith_cons_cons, List.length_cons, List.replicate_succ] at ih ⊢
    rw [ih]; simp

theorem xorV_zeros_right (k : Nat) (a : BVec) (h : a.length = k) : xorV a (zeros k) = a := by
  rw [xorV_comm, xorV_zeros_left k a h]

theorem zeros_length (k : Nat) : (zeros k).length = k := by simp [zeros]

theorem synd_length (M : List BVec) (e : BVec) : (synd M e).length = M.length := by simp [synd]

/-! ### folds of `xorV` -/

theorem foldl_xorV_length (k : Nat) (z : BVec) (l : List BVec) (hz : z.length = k)
    (hl : ∀ r ∈ l, r.length = k) : (l.foldl xorV z).length = k := by
  induction l generalizing z with
  | nil => simpa using hz
  | cons r l ih =>
    simp only [List.foldl_cons]
    apply ih
    · rw [xorV_length _ _ (by rw [hz, hl r (by simp)]), hz]
    · intro r' h'; exact hl r' (by simp [h'])

theorem foldl_xorV_push (z x : BVec) (l : List BVec) :
    l.foldl xorV (xorV z x) = xorV (l.foldl xorV z) x := by
  induction l generalizing z with
  | nil => rfl
  | cons r l ih => simp only [List.foldl_cons]; rw [xorV_right_comm, ih]

/-- XOR-folding rows `f t ⊕ g t` splits into the two folds -/
theorem foldl_xorV_split {α : Type} (f g : α → BVec) (l : List α) (z1 z2 : BVec) :
    (l.map fun t => xorV (f t) (g t)).foldl xorV (xorV z1 z2) =
      xorV ((l.map f).foldl xorV z1) ((l.map g).foldl xorV z2) := by
  induction l generalizing z1 z2 with
  | nil => rfl
  | cons t l ih =>
    simp only [List.map_cons, List.foldl_cons]
    rw [← ih]
    congr 1
    rw [xorV_assoc, ← xorV_assoc z2, xorV_comm z2 (f t), xorV_assoc, ← xorV_assoc z1]

theorem zeros_xorV_zeros (k : Nat) : xorV (zeros k) (zeros k) = zeros k := by
  rw [xorV_self, zeros_length]

/-! ### the time axis -/

theorem prevIdx_lt (T t : Nat) (h : t < T) : prevIdx T t < T := by
  unfold prevIdx; split <;> omega

theorem prevIdx_eq_mod (T t : Nat) (h : t < T) : prevIdx T t = (t + T - 1) % T := by
  unfold prevIdx
  split
  · subst_vars; rw [Nat.zero_add, Nat.mod_eq_of_lt (by omega)]
  · have : t + T - 1 = (t - 1) + T := by omega
    rw [this, Nat.add_mod_right, Nat.mod_eq_of_lt (by omega)]

theorem map_getD_range (l : List BVec) : (List.range l.length).map (fun t => l.getD t []) = l := by
  apply List.ext_getElem
  · simp
  · intro i h1 h2
    simp at h1
    simp [h1]

/-- the rotated list of measurement flips XORs to the same vector -/
theorem foldl_xorV_rotate (z : BVec) (meas : List BVec) :
    ((List.range meas.length).map fun t => meas.getD (prevIdx meas.length t) []).foldl xorV z =
      meas.foldl xorV z := by
  cases hT : meas.length with
  | zero => simp at hT; subst hT; rfl
  | succ T' =>
    conv => rhs; rw [← map_getD_range meas, hT, List.range_succ, List.map_append, List.foldl_append]
    rw [List.range_succ_eq_map, List.map_cons, List.foldl_cons, foldl_xorV_push]
    simp [prevIdx, Function.comp_def]

/-! ### syndromes -/

theorem bsp_zeros_left (k : Nat) (b : BVec) : bsp (zeros k) b = false := by
  have h : ∀ (m : Nat) (c : BVec), dot (zeros m) c = false := by
    intro m
    induction m with
    | zero => intro c; simp [zeros]
    | succ m ih =>
      intro c
      cases c with
      | nil => simp
      | cons y ys =>
        have := ih ys
        simp only [zeros, List.replicate_succ, dot_cons] at this ⊢
        rw [this]; simp
  unfold bsp
  have : zHalf (zeros k) ++ xHalf (zeros k) = zeros (k - k / 2 + min (k / 2) k) := by
    simp [zHalf, xHalf, zeros]
  rw [this, h]

theorem synd_zeros (M : List BVec) (k : Nat) : synd M (zeros k) = zeros M.length := by
  unfold synd
  simp only [bsp_zeros_left]
  simp [zeros]

theorem foldl_synd (n : Nat) (S es : List BVec) (acc : BVec) (hacc : acc.length = 2 * n)
    (hS : ∀ s ∈ S, s.length = 2 * n) (hE : ∀ e ∈ es, e.length = 2 * n) :
    (es.map (synd S)).foldl xorV (synd S acc) = synd S (es.foldl xorV acc) := by
  induction es generalizing acc with
  | nil => rfl
  | cons e es ih =>
    have he := hE e (by simp)
    simp only [List.map_cons, List.foldl_cons]
    rw [← C09.synd_add S acc e (by rw [hacc, he]) (by rw [hacc]; omega)
      (by intro r hr; rw [hS r hr, hacc])]
    apply ih
    · rw [xorV_length _ _ (by rw [hacc, he]), hacc]
    · intro e' h'; exact hE e' (by simp [h'])

theorem syndromeRows_xorAll (n : Nat) (S es meas : List BVec)
    (hm : meas.length = es.length)
    (hml : ∀ m ∈ meas, m.length = S.length)
    (hS : ∀ s ∈ S, s.length = 2 * n) (hE : ∀ e ∈ es, e.length = 2 * n) :
    xorAll S.length (syndromeRows S es meas) = synd S (xorAll (2 * n) es) := by
  unfold xorAll syndromeRows
  simp only []
  have hz := zeros_xorV_zeros S.length
  -- split the fold into its three parts
  conv => lhs; rw [← hz]
  rw [foldl_xorV_split (fun t => xorV (meas.getD (prevIdx es.length t) []) (synd S (es.getD t [])))
    (fun t => meas.getD t [])]
  conv => lhs; arg 1; rw [← hz]
  rw [foldl_xorV_split (fun t => meas.getD (prevIdx es.length t) []) (fun t => synd S (es.getD t []))]
  -- the two measurement parts are equal
  have hA := foldl_xorV_rotate (zeros S.length) meas
  rw [hm] at hA
  have hB : (List.range es.length).map (fun t => meas.getD t []) = meas := by
    rw [← hm]; exact map_getD_range meas
  have hC : (List.range es.length).map (fun t => synd S (es.getD t [])) = es.map (synd S) := by
    conv => rhs; rw [← map_getD_range es]
    simp [Function.comp_def]
  rw [hA, hB, hC, xorV_right_comm, xorV_self,
    foldl_xorV_length S.length _ meas (zeros_length _) hml,
    xorV_zeros_left _ _ (foldl_xorV_length S.length _ _ (zeros_length _)
      (by intro r hr; simp only [List.mem_map] at hr; obtain ⟨e, _, rfl⟩ := hr; exact synd_length _ _)),
    ← synd_zeros S (2 * n), foldl_synd n S es _ (zeros_length _) hS hE]

/-! ### hand-off, verdict, validators -/

theorem syndromeRows_getElem? (S es meas : List BVec) (t : Nat) (ht : t < es.length) :
    (syndromeRows S es meas)[t]? =
      some (xorV (xorV (meas.getD (prevIdx es.length t) []) (synd S (es.getD t []))) (meas.getD t [])) := by
  simp [syndromeRows, ht]

theorem syndromeRows_length (S es meas : List BVec) : (syndromeRows S es meas).length = es.length := by
  simp [syndromeRows]

theorem syndromeRows_no_noise (S es : List BVec) (t : Nat) (ht : t < es.length) :
    (syndromeRows S es (List.replicate es.length (zeros S.length)))[t]? = some (synd S (es.getD t [])) := by
  rw [syndromeRows_getElem? S es _ t ht]
  have h1 : (List.replicate es.length (zeros S.length)).getD (prevIdx es.length t) [] = zeros S.length := by
    simp [List.getD, prevIdx_lt _ _ ht]
  have h2 : (List.replicate es.length (zeros S.length)).getD t [] = zeros S.length := by
    simp [List.getD, ht]
  rw [h1, h2, xorV_zeros_left _ _ (synd_length _ _), xorV_zeros_right _ _ (synd_length _ _)]

theorem decoderInput_false_syndrome (n : Nat) (S es script : List BVec) :
    (decoderInput n S es script false).syndrome =
      syndromeRows S es (List.replicate es.length (zeros S.length)) := by
  simp [decoderInput, usedMeas]

theorem decoderInput_false_calls (n : Nat) (S es script : List BVec) :
    (decoderInput n S es script false).rngChoiceCalls = 0 := by
  simp [decoderInput]

theorem ideal_syndrome_eq (n : Nat) (S : List BVec) (e : BVec) (script : List BVec) :
    (decoderInput n S [e] script false).syndrome = [synd S e] := by
  rw [decoderInput_false_syndrome]
  apply List.ext_getElem?
  intro i
  cases i with
  | zero => rw [syndromeRows_no_noise S [e] 0 (by simp)]; rfl
  | succ i =>
    rw [List.getElem?_eq_none (by simp [syndromeRows_length])]; simp

theorem isZero_synd_iff (M : List BVec) (x : BVec) :
    isZero (synd M x) = true ↔ ∀ m ∈ M, bsp x m = false := by
  simp [isZero, synd]

theorem resolve_bare (S L es : List BVec) (err r : BVec) :
    resolve S L es err (.bare r) = .ok
      { errorWeight := bsfWtMat es
        success := isZero (synd S (xorV r err)) && isZero (synd L (xorV r err))
        lc := some (bvecToInts (synd L (xorV r err))), cv := none } := rfl

theorem resolve_bare_success_iff (S L es : List BVec) (err r : BVec) (o : RunOut)
    (h : resolve S L es err (.bare r) = .ok o) :
    o.success = true ↔ (∀ s ∈ S, bsp (xorV r err) s = false) ∧ (∀ l ∈ L, bsp (xorV r err) l = false) := by
  rw [resolve_bare] at h
  injection h with h
  subst h
  simp only [Bool.and_eq_true, isZero_synd_iff]

theorem resolve_errorWeight (S L es : List BVec) (err : BVec) (a : Answer) (o : RunOut)
    (h : resolve S L es err a = .ok o) : o.errorWeight = (es.map bsfWt).sum := by
  cases a with
  | bareNone => simp [resolve] at h
  | bare r => rw [resolve_bare] at h; injection h with h; subst h; rfl
  | result su lc rec cv =>
    cases rec <;> (simp only [resolve] at h; injection h with h; subst h; rfl)

theorem probOk_iff (p : Rat) : probOk p = true ↔ 0 ≤ p ∧ p ≤ 1 := by
  simp [probOk]

theorem qOk_iff (q : Option Rat) :
    (match q with | none => true | some q => probOk q) = true ↔ ∀ q', q = some q' → 0 ≤ q' ∧ q' ≤ 1 := by
  cases q with
  | none => simp
  | some q => simp [probOk_iff]

theorem resolveQ_eq (T : Int) (p : Rat) (q : Option Rat) :
    resolveQ T p q = (match q with | some q' => q' | none => if T = 1 then 0 else p) := by
  cases q <;> rfl

theorem ok_eq_iff {ε α : Type} (a r : α) (P : Prop) (hP : P) :
    (Except.ok a : Except ε α) = .ok r ↔ P ∧ r = a := by
  simp only [Except.ok.injEq, hP, true_and]; exact eq_comm

theorem validateOnceFtp_ok (T : Int) (p : Rat) (q : Option Rat) (r : Rat) :
    validateOnceFtp T p q = .ok r ↔
      (1 ≤ T ∧ 0 ≤ p ∧ p ≤ 1 ∧ (∀ q', q = some q' → 0 ≤ q' ∧ q' ≤ 1)) ∧
      r = (match q with | some q' => q' | none => if T = 1 then 0 else p) := by
  rw [← resolveQ_eq, ← qOk_iff, ← and_assoc (a := 0 ≤ p), ← probOk_iff]
  unfold validateOnceFtp
  cases q <;> simp only [] <;>
  · split
    · simp_all
    · split
      · simp_all
      · split
        · simp_all
        · apply ok_eq_iff; simp_all

theorem validateRunFtp_ok (T : Int) (p : Rat) (q : Option Rat) (r : Rat) :
    validateRunFtp T p q = .ok r ↔
      (1 ≤ T ∧ 0 ≤ p ∧ p ≤ 1 ∧ (∀ q', q = some q' → 0 ≤ q' ∧ q' ≤ 1)) ∧
      r = (match q with | some q' => q' | none => if T = 1 then 0 else p) := by
  rw [← resolveQ_eq, ← qOk_iff, ← and_assoc (a := 0 ≤ p), ← probOk_iff]
  unfold validateRunFtp
  cases q <;> simp only [] <;>
  · split
    · simp_all
    · split
      · simp_all
      · split
        · simp_all
        · apply ok_eq_iff; simp_all

theorem validateIdeal_ok (p : Rat) (r : Rat) :
    validateIdeal p = .ok r ↔ (0 ≤ p ∧ p ≤ 1) ∧ r = 0 := by
  rw [← probOk_iff]
  unfold validateIdeal
  split
  · simp_all
  · apply ok_eq_iff; simp_all

end Qec
