import QecVerif.Model.SeededRun
import QecVerif.Lemmas.RunLoop
namespace Qec.Seeded
open Qec

variable {U : Type}

/-! ### windows, steps, one run -/

theorem window_congr {σ σ' : Nat → U} {pos len : Nat}
    (h : ∀ i, pos ≤ i → i < pos + len → σ i = σ' i) : window σ pos len = window σ' pos len := by
  unfold window
  apply List.map_congr_left
  intro i hi
  have := List.mem_range.mp hi
  exact h _ (by omega) (by omega)

theorem step_snd (P : Params U) (σ : Nat → U) (pos : Nat) : (step P σ pos).2 = pos + P.dps := by
  unfold step Params.dps
  cases P.qTruthy <;> simp +arith

theorem step_congr (P : Params U) {σ σ' : Nat → U} {pos : Nat}
    (h : ∀ i, pos ≤ i → i < pos + P.dps → σ i = σ' i) : step P σ pos = step P σ' pos := by
  have h1 : window σ pos P.n = window σ' pos P.n :=
    window_congr fun i h1 h2 => h i h1 (by unfold Params.dps; omega)
  unfold step
  cases hq : P.qTruthy with
  | false => simp [h1]
  | true =>
    have h2 : window σ (pos + P.n) P.m = window σ' (pos + P.n) P.m :=
      window_congr fun i h1 h2 => h i (by omega) (by unfold Params.dps; rw [hq]; simp; omega)
    simp [h1, h2]

theorem steps_snd (P : Params U) (σ : Nat → U) : ∀ t pos, (steps P σ t pos).2 = pos + t * P.dps := by
  intro t
  induction t with
  | zero => intro pos; simp [steps]
  | succ t ih =>
    intro pos
    simp only [steps]
    rw [ih, step_snd, Nat.succ_mul]
    omega

theorem steps_fst (P : Params U) (σ : Nat → U) :
    ∀ t pos, (steps P σ t pos).1 = (List.range t).map fun i => (step P σ (pos + i * P.dps)).1 := by
  intro t
  induction t with
  | zero => intro pos; simp [steps]
  | succ t ih =>
    intro pos
    simp only [steps]
    rw [ih, step_snd, List.range_succ_eq_map, List.map_cons, List.map_map]
    congr 1
    · simp
    · apply List.map_congr_left
      intro i _
      simp only [Function.comp]
      congr 2
      rw [Nat.succ_mul]
      omega

theorem steps_congr (P : Params U) {σ σ' : Nat → U} :
    ∀ t pos, (∀ i, pos ≤ i → i < pos + t * P.dps → σ i = σ' i) → steps P σ t pos = steps P σ' t pos := by
  intro t
  induction t with
  | zero => intro pos _; rfl
  | succ t ih =>
    intro pos h
    have hs : step P σ pos = step P σ' pos :=
      step_congr P fun i h1 h2 => h i h1 (by rw [Nat.succ_mul]; omega)
    simp only [steps]
    rw [← hs]
    have : steps P σ t (step P σ pos).2 = steps P σ' t (step P σ pos).2 := by
      apply ih
      intro i h1 h2
      rw [step_snd] at h1 h2
      exact h i (by omega) (by rw [Nat.succ_mul]; omega)
    rw [this]

theorem runOnce_snd (P : Params U) (σ : Nat → U) (pos : Nat) : (runOnce P σ pos).2 = pos + P.dpr := by
  simp only [runOnce, steps_snd, Params.dpr]

theorem runOnce_congr (P : Params U) {σ σ' : Nat → U} {pos : Nat}
    (h : ∀ i, pos ≤ i → i < pos + P.dpr → σ i = σ' i) : runOnce P σ pos = runOnce P σ' pos := by
  unfold runOnce
  rw [steps_congr P P.T pos h]

/-! ### the loop -/

theorem body_nRun {s s' : LoopState} {o : RunOut} (h : body s o = .ok s') : s'.nRun = s.nRun + 1 := by
  obtain ⟨_, _, _, _, rfl⟩ := body_ok_inv h
  rfl

/-- what a step of `loop` looks like when it returns -/
theorem loop_succ_ok {P : Params U} {σ : Nat → U} {mr mf : Option Nat} {fuel : Nat} {s : LoopState}
    {pos : Nat} {acc : List RunRecord} {F : Final}
    (h : loop P σ mr mf (fuel + 1) s pos acc = .ok F) :
    (guard mr mf s = false ∧ F = ⟨s, pos, acc⟩) ∨
    (guard mr mf s = true ∧ ∃ o s', (runOnce P σ pos).1.out = .ok o ∧ body s o = .ok s' ∧
      loop P σ mr mf fuel s' (runOnce P σ pos).2 (acc ++ [(runOnce P σ pos).1]) = .ok F) := by
  unfold loop at h
  cases hg : guard mr mf s with
  | false =>
    rw [hg] at h
    simp only [Bool.false_eq_true, ↓reduceIte, Except.ok.injEq] at h
    exact Or.inl ⟨rfl, h.symm⟩
  | true =>
    rw [hg] at h
    simp only [↓reduceIte] at h
    right
    refine ⟨rfl, ?_⟩
    cases ho : (runOnce P σ pos).1.out with
    | error e => simp only [ho] at h; cases h
    | ok o =>
      simp only [ho] at h
      cases hb : body s o with
      | error e => simp only [hb] at h; cases h
      | ok s' =>
        simp only [hb] at h
        exact ⟨o, s', rfl, hb, h⟩

theorem loop_zero_ok {P : Params U} {σ : Nat → U} {mr mf : Option Nat} {s : LoopState}
    {pos : Nat} {acc : List RunRecord} {F : Final}
    (h : loop P σ mr mf 0 s pos acc = .ok F) : guard mr mf s = false ∧ F = ⟨s, pos, acc⟩ := by
  unfold loop at h
  cases hg : guard mr mf s with
  | false =>
    rw [hg] at h
    simp only [Bool.false_eq_true, ↓reduceIte, Except.ok.injEq] at h
    exact ⟨rfl, h.symm⟩
  | true => rw [hg] at h; simp at h

theorem loop_of_guard_false (P : Params U) (σ : Nat → U) {mr mf : Option Nat} {s : LoopState}
    (hg : guard mr mf s = false) (fuel pos : Nat) (acc : List RunRecord) :
    loop P σ mr mf fuel s pos acc = .ok ⟨s, pos, acc⟩ := by
  cases fuel <;> simp [loop, hg]

/-- closed-form invariant: position and records are functions of the run counter alone -/
structure LInv (P : Params U) (σ : Nat → U) (s : LoopState) (pos : Nat) (acc : List RunRecord) : Prop where
  pos_eq : pos = s.nRun * P.dpr
  acc_eq : acc = (List.range s.nRun).map (runAt P σ)

theorem LInv_init (P : Params U) (σ : Nat → U) : LInv P σ {} 0 [] := ⟨by simp, by simp⟩

theorem loop_inv (P : Params U) (σ : Nat → U) (mr mf : Option Nat) :
    ∀ fuel s pos acc F, loop P σ mr mf fuel s pos acc = .ok F → LInv P σ s pos acc →
      LInv P σ F.state F.pos F.records ∧ guard mr mf F.state = false ∧ pos ≤ F.pos := by
  intro fuel
  induction fuel with
  | zero =>
    intro s pos acc F h hinv
    obtain ⟨hg, rfl⟩ := loop_zero_ok h
    exact ⟨hinv, hg, Nat.le_refl _⟩
  | succ fuel ih =>
    intro s pos acc F h hinv
    rcases loop_succ_ok h with ⟨hg, rfl⟩ | ⟨_, o, s', _, hb, hrec⟩
    · exact ⟨hinv, hg, Nat.le_refl _⟩
    · have hn := body_nRun hb
      have hinv' : LInv P σ s' (runOnce P σ pos).2 (acc ++ [(runOnce P σ pos).1]) := by
        constructor
        · rw [runOnce_snd, hinv.pos_eq, hn, Nat.succ_mul]
        · rw [hn, List.range_succ, List.map_append, ← hinv.acc_eq]
          simp [runAt, hinv.pos_eq]
      obtain ⟨h1, h2, h3⟩ := ih _ _ _ _ hrec hinv'
      refine ⟨h1, h2, ?_⟩
      rw [runOnce_snd] at h3
      omega

/-- the seeded loop refines C04's scripted loop: the loop state is `loopFrom` over the outcomes of the
    runs it performed -/
theorem loop_refines (P : Params U) (σ : Nat → U) (mr mf : Option Nat) :
    ∀ fuel s pos acc F, loop P σ mr mf fuel s pos acc = .ok F →
      ∃ rest, F.records = acc ++ rest ∧ loopFrom mr mf s (okOuts rest) = .ok F.state ∧
        (okOuts rest).length = rest.length := by
  intro fuel
  induction fuel with
  | zero =>
    intro s pos acc F h
    obtain ⟨hg, rfl⟩ := loop_zero_ok h
    exact ⟨[], by simp, by simp [okOuts, loopFrom, hg], rfl⟩
  | succ fuel ih =>
    intro s pos acc F h
    rcases loop_succ_ok h with ⟨hg, rfl⟩ | ⟨hg, o, s', ho, hb, hrec⟩
    · exact ⟨[], by simp, by simp [okOuts, loopFrom, hg], rfl⟩
    · obtain ⟨rest, h1, h2, h3⟩ := ih _ _ _ _ hrec
      refine ⟨(runOnce P σ pos).1 :: rest, by rw [h1]; simp, ?_, ?_⟩
      · have : okOuts ((runOnce P σ pos).1 :: rest) = o :: okOuts rest := by
          simp [okOuts, ho]
        rw [this]
        simp only [loopFrom, hg, ↓reduceIte, hb]
        exact h2
      · have : okOuts ((runOnce P σ pos).1 :: rest) = o :: okOuts rest := by
          simp [okOuts, ho]
        rw [this]
        simp [h3]

/-- the loop reads the stream only below the final position -/
theorem loop_congr (P : Params U) {σ σ' : Nat → U} (mr mf : Option Nat) :
    ∀ fuel s pos acc F, loop P σ mr mf fuel s pos acc = .ok F → LInv P σ s pos acc →
      (∀ i, pos ≤ i → i < F.pos → σ i = σ' i) → loop P σ' mr mf fuel s pos acc = .ok F := by
  intro fuel
  induction fuel with
  | zero =>
    intro s pos acc F h _ _
    obtain ⟨hg, rfl⟩ := loop_zero_ok h
    exact loop_of_guard_false P σ' hg 0 pos acc
  | succ fuel ih =>
    intro s pos acc F h hinv hσ
    rcases loop_succ_ok h with ⟨hg, rfl⟩ | ⟨hg, o, s', ho, hb, hrec⟩
    · exact loop_of_guard_false P σ' hg _ pos acc
    · have hn := body_nRun hb
      have hinv' : LInv P σ s' (runOnce P σ pos).2 (acc ++ [(runOnce P σ pos).1]) := by
        constructor
        · rw [runOnce_snd, hinv.pos_eq, hn, Nat.succ_mul]
        · rw [hn, List.range_succ, List.map_append, ← hinv.acc_eq]
          simp [runAt, hinv.pos_eq]
      obtain ⟨_, _, hle⟩ := loop_inv P σ mr mf _ _ _ _ _ hrec hinv'
      have hle' := hle
      rw [runOnce_snd] at hle'
      have hr : runOnce P σ pos = runOnce P σ' pos :=
        runOnce_congr P fun i h1 h2 => hσ i h1 (by omega)
      have := ih _ _ _ F hrec hinv' (fun i h1 h2 => hσ i (by rw [runOnce_snd] at h1; omega) h2)
      unfold loop
      simp only [hg, ↓reduceIte]
      rw [← hr, ho]
      simp only [hb]
      exact this

/-- more fuel does not change a result -/
theorem loop_fuel_mono (P : Params U) (σ : Nat → U) (mr mf : Option Nat) :
    ∀ fuel s pos acc F, loop P σ mr mf fuel s pos acc = .ok F →
      ∀ k, loop P σ mr mf (fuel + k) s pos acc = .ok F := by
  intro fuel
  induction fuel with
  | zero =>
    intro s pos acc F h k
    obtain ⟨hg, rfl⟩ := loop_zero_ok h
    exact loop_of_guard_false P σ hg _ pos acc
  | succ fuel ih =>
    intro s pos acc F h k
    rcases loop_succ_ok h with ⟨hg, rfl⟩ | ⟨hg, o, s', ho, hb, hrec⟩
    · exact loop_of_guard_false P σ hg _ pos acc
    · have := ih _ _ _ F hrec k
      rw [Nat.add_right_comm]
      unfold loop
      simp only [hg, ↓reduceIte, ho, hb]
      exact this

/-! ### closed form of one run's draws -/

theorem step_fst (P : Params U) (σ : Nat → U) (pos : Nat) :
    (step P σ pos).1 = (P.gen (window σ pos P.n),
      if P.qTruthy then P.flip (window σ (pos + P.n) P.m) else zeros P.m) := by
  unfold step
  cases P.qTruthy <;> simp

theorem runOnce_stepErrors (P : Params U) (σ : Nat → U) (pos : Nat) :
    (runOnce P σ pos).1.stepErrors =
      (List.range P.T).map fun t => P.gen (window σ (pos + t * P.dps) P.n) := by
  simp only [runOnce, steps_fst, List.map_map]
  apply List.map_congr_left
  intro i _
  simp [Function.comp, step_fst]

theorem runOnce_stepMeas (P : Params U) (σ : Nat → U) (pos : Nat) :
    (runOnce P σ pos).1.stepMeas =
      (List.range P.T).map fun t =>
        if P.qTruthy then P.flip (window σ (pos + t * P.dps + P.n) P.m) else zeros P.m := by
  simp only [runOnce, steps_fst, List.map_map]
  apply List.map_congr_left
  intro i _
  simp [Function.comp, step_fst]

end Qec.Seeded
