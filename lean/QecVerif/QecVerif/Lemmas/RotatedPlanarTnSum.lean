/-
  C10 — the rotated planar MPS decoder's tensor network contracts to the coset probability: the state sum.
  Route (as for the planar network, Lemmas/PlanarTn.lean): C11 (`exactValue` = `sumV` over the bond variables) → drop
  the dummy bonds (dimension 1: towards `None` cells) → group the real bonds by stabilizer cell → collapse the deltas
  (`FactorGraph.sumV_stars`) → the product of the qubit tensors at the assignment of one bit per stabilizer is the
  weight of `f · Π Sᵢ^βᵢ` (`FactorGraph.sumB_eq_span`).
-/
import QecVerif.Lemmas.RotatedPlanarTn
namespace Qec.RotatedPlanarTnLemmas
open Finset Qec Qec.Tensor Qec.TensorAlg Qec.TensorBridge Qec.TensorExact Qec.TensorExact.Bond Qec.Coset
open Qec.FactorGraph Qec.RotatedPlanarTn Qec.RotatedPlanarCode

/-! ### E. cells, legs, deltas -/

theorem dN_ne_one (R C : Int) (r c : ℕ) : dN R C r c ≠ 1 ↔ Occ R C r c ∧ Occ R C ((r : ℤ) - 1) c := by
  unfold dN; split_ifs <;> simp [*]
theorem dE_ne_one (R C : Int) (r c : ℕ) : dE R C r c ≠ 1 ↔ Occ R C r c ∧ Occ R C r ((c : ℤ) + 1) := by
  unfold dE; split_ifs <;> simp [*]
theorem dS_ne_one (R C : Int) (r c : ℕ) : dS R C r c ≠ 1 ↔ Occ R C r c ∧ Occ R C ((r : ℤ) + 1) c := by
  unfold dS; split_ifs <;> simp [*]
theorem dW_ne_one (R C : Int) (r c : ℕ) : dW R C r c ≠ 1 ↔ Occ R C r c ∧ Occ R C r ((c : ℤ) - 1) := by
  unfold dW; split_ifs <;> simp [*]

/-- the summed bonds of cell `p`, in the leg order n, e, s, w (exactly the legs `tsr.delta` calls non-dummy) -/
def legs (R C : Int) (p : ℕ × ℕ) : List Bond :=
  ([(dN R C p.1 p.2, v p.1 p.2), (dE R C p.1 p.2, h p.1 (p.2 + 1)), (dS R C p.1 p.2, v (p.1 + 1) p.2),
    (dW R C p.1 p.2, h p.1 p.2)].filter fun q => q.1 != 1).map (·.2)

theorem deltaEntry_eq (R C : Int) (r c : ℕ) (t : Bond → ℕ) :
    PlanarTn.deltaEntry (dN R C r c, dE R C r c, dS R C r c, dW R C r c) (t (v r c)) (t (h r (c + 1)))
        (t (v (r + 1) c)) (t (h r c))
      = PlanarTnLemmas.deltaList ((legs R C (r, c)).map t) := by
  have : (legs R C (r, c)).map t
      = ([(dN R C r c, t (v r c)), (dE R C r c, t (h r (c + 1))), (dS R C r c, t (v (r + 1) c)),
          (dW R C r c, t (h r c))].filter fun q => q.1 != 1).map (·.2) := by
    unfold legs
    generalize dN R C r c = a1
    generalize dE R C r c = a2
    generalize dS R C r c = a3
    generalize dW R C r c = a4
    simp only [List.filter_cons, List.filter_nil]
    split_ifs <;> rfl
  rw [this]
  rfl

theorem mem_legs (R C : Int) (r c : ℕ) (b : Bond) :
    b ∈ legs R C (r, c) ↔ (dN R C r c ≠ 1 ∧ b = v r c) ∨ (dE R C r c ≠ 1 ∧ b = h r (c + 1)) ∨
      (dS R C r c ≠ 1 ∧ b = v (r + 1) c) ∨ (dW R C r c ≠ 1 ∧ b = h r c) := by
  unfold legs
  rw [PlanarTnLemmas.mem_filter4]

theorem legs_nodup (R C : Int) (p : ℕ × ℕ) : (legs R C p).Nodup := by
  unfold legs
  refine List.Nodup.sublist (List.Sublist.map _ List.filter_sublist) ?_
  simp

theorem legs_owner (R C : Int) (p q : ℕ × ℕ) (b : Bond) (hp : b ∈ legs R C p) (hq : b ∈ legs R C q)
    (h1 : IsS R C p.1 p.2) (h2 : IsS R C q.1 q.2) : p = q := by
  obtain ⟨r, c⟩ := p
  obtain ⟨r', c'⟩ := q
  rw [mem_legs] at hp hq
  have p1 := h1.1
  have p2 := h2.1
  unfold par at p1 p2
  simp only at p1 p2
  rcases hp with ⟨_, rfl⟩ | ⟨_, rfl⟩ | ⟨_, rfl⟩ | ⟨_, rfl⟩ <;>
    rcases hq with ⟨_, hq⟩ | ⟨_, hq⟩ | ⟨_, hq⟩ | ⟨_, hq⟩ <;>
    first
      | (injection hq with e1 e2; rw [Prod.mk.injEq]; omega)
      | (exact absurd hq (by simp))

/-- the cell of the stabilizer tensor of plaquette `(x, y)` (`_rotate_p_index`) -/
def cellOf (R C : Int) (p : Int × Int) : ℕ × ℕ :=
  (((R - 1) + (C - 1) - 1 - p.1 - p.2).toNat, ((R - 1) - p.2 + p.1).toNat)

theorem cellOf_spec (R C : Int) (p : Int × Int) (hp : PlaqIn R C p) :
    (cellOf R C p).1 ≤ N R C ∧ (cellOf R C p).2 ≤ N R C ∧ IsS R C (cellOf R C p).1 (cellOf R C p).2 ∧
    X C (cellOf R C p).1 (cellOf R C p).2 = p.1 ∧ Y R C (cellOf R C p).1 (cellOf R C p).2 = p.2 := by
  obtain ⟨x, y⟩ := p
  unfold PlaqIn at hp
  simp only at hp
  have e1 : ((((R - 1) + (C - 1) - 1 - x - y).toNat : ℕ) : ℤ) = (R - 1) + (C - 1) - 1 - x - y := by omega
  have e2 : ((((R - 1) - y + x).toNat : ℕ) : ℤ) = (R - 1) - y + x := by omega
  unfold cellOf IsS PlaqIn X Y par N
  simp only [e1, e2]
  omega

/-- the stabilizer cells in the order of `RotatedPlanar.stabilizers` -/
def cells (R C : Int) : List (ℕ × ℕ) := (RotatedPlanar.plaquetteIndices R C).map (cellOf R C)

theorem mem_cells (R C : Int) (p : ℕ × ℕ) :
    p ∈ cells R C ↔ p.1 ≤ N R C ∧ p.2 ≤ N R C ∧ IsS R C p.1 p.2 := by
  unfold cells
  simp only [List.mem_map, mem_plaquetteIndices]
  constructor
  · rintro ⟨q, hq, rfl⟩
    obtain ⟨a1, a2, a3, _, _⟩ := cellOf_spec R C q hq
    exact ⟨a1, a2, a3⟩
  · rintro ⟨h1, h2, h3⟩
    refine ⟨(X C p.1 p.2, Y R C p.1 p.2), h3.2, ?_⟩
    have hp := h3.1
    have hq := h3.2
    unfold cellOf
    unfold PlaqIn X Y par at *
    simp only at *
    apply Prod.ext <;> simp only <;> omega

theorem cells_nodup (R C : Int) : (cells R C).Nodup := by
  unfold cells
  refine List.Nodup.map_on ?_ (plaquetteIndices_nodup R C)
  intro a ha b hb hab
  rw [mem_plaquetteIndices] at ha hb
  obtain ⟨_, _, _, a1, a2⟩ := cellOf_spec R C a ha
  obtain ⟨_, _, _, b1, b2⟩ := cellOf_spec R C b hb
  rw [hab] at a1 a2
  exact Prod.ext (a1.symm.trans b1) (a2.symm.trans b2)

/-! ### the bonds grouped by stabilizer cell -/

/-- the list of stars: the legs of every stabilizer cell, in the order of the generators -/
def stars (R C : Int) : List (List Bond) := (cells R C).map (legs R C)

theorem stars_nodup (R C : Int) : (stars R C).flatten.Nodup := by
  unfold stars
  rw [List.nodup_flatten]
  refine ⟨fun l hl => ?_, ?_⟩
  · obtain ⟨p, _, rfl⟩ := List.mem_map.mp hl
    exact legs_nodup _ _ p
  · rw [List.pairwise_map]
    refine List.Pairwise.imp_of_mem ?_ (cells_nodup R C)
    intro p q hp hq hne
    intro b hb1 hb2
    exact hne (legs_owner _ _ p q b hb1 hb2 ((mem_cells R C p).mp hp).2.2 ((mem_cells R C q).mp hq).2.2)

theorem bdim_h (R C : Int) (d : Dist Int) (f : BVec) (hR : 3 ≤ R) (hC : 3 ≤ C) (r c : ℕ) (hr : r ≤ N R C)
    (hc : c ≤ N R C) : TensorExact.bdim (netF (rplanarTn R C d f)) (h r (c + 1)) = dE R C r c :=
  (netF_dims R C d f hR hC r c hr hc).2.1

theorem bdim_v (R C : Int) (d : Dist Int) (f : BVec) (hR : 3 ≤ R) (hC : 3 ≤ C) (r c : ℕ) (hr : r ≤ N R C)
    (hc : c ≤ N R C) : TensorExact.bdim (netF (rplanarTn R C d f)) (v (r + 1) c) = dS R C r c :=
  (netF_dims R C d f hR hC r c hr hc).2.2.1

/-- an occupied cell is a qubit cell or a stabilizer cell according to its parity; neighbours have opposite parity -/
theorem occ_pair_v (R C : Int) (r c : ℤ) (h1 : Occ R C r c) (h2 : Occ R C (r + 1) c) :
    IsS R C r c ∨ IsS R C (r + 1) c := by
  rcases h1 with h1 | h1
  · rcases h2 with h2 | h2
    · exfalso; have := h1.1; have := h2.1; unfold par at *; omega
    · exact Or.inr h2
  · exact Or.inl h1

theorem occ_pair_h (R C : Int) (r c : ℤ) (h1 : Occ R C r c) (h2 : Occ R C r (c + 1)) :
    IsS R C r c ∨ IsS R C r (c + 1) := by
  rcases h1 with h1 | h1
  · rcases h2 with h2 | h2
    · exfalso; have := h1.1; have := h2.1; unfold par at *; omega
    · exact Or.inr h2
  · exact Or.inl h1

theorem mem_stars (R C : Int) (d : Dist Int) (f : BVec) (hR : 3 ≤ R) (hC : 3 ≤ C) (b : Bond) :
    b ∈ (stars R C).flatten ↔
      b ∈ gvars (N R C) (N R C) ∧ TensorExact.bdim (netF (rplanarTn R C d f)) b ≠ 1 := by
  unfold stars
  simp only [List.mem_flatten, List.mem_map, exists_exists_and_eq_and, mem_gvars]
  have hN : ((N R C : ℕ) : ℤ) = R + C - 2 := by unfold N; omega
  constructor
  · rintro ⟨⟨r, c⟩, hp, hb⟩
    obtain ⟨h1, h2, _⟩ := (mem_cells R C (r, c)).mp hp
    simp only at h1 h2
    rcases (mem_legs _ _ r c b).mp hb with ⟨h0, rfl⟩ | ⟨h0, rfl⟩ | ⟨h0, rfl⟩ | ⟨h0, rfl⟩
    · have hr := occ_range R C _ _ ((dN_ne_one R C r c).mp h0).2
      obtain ⟨r', rfl⟩ : ∃ r', r = r' + 1 := ⟨r - 1, by omega⟩
      refine ⟨Or.inr ⟨r' + 1, c, by omega, h1, h2, rfl⟩, ?_⟩
      rw [bdim_v R C d f hR hC r' c (by omega) h2, ← dN_succ]; exact h0
    · have hr := occ_range R C _ _ ((dE_ne_one R C r c).mp h0).2
      refine ⟨Or.inl ⟨r, c + 1, h1, by omega, by omega, rfl⟩, ?_⟩
      rw [bdim_h R C d f hR hC r c h1 h2]; exact h0
    · have hr := occ_range R C _ _ ((dS_ne_one R C r c).mp h0).2
      refine ⟨Or.inr ⟨r + 1, c, by omega, by omega, h2, rfl⟩, ?_⟩
      rw [bdim_v R C d f hR hC r c h1 h2]; exact h0
    · have hr := occ_range R C _ _ ((dW_ne_one R C r c).mp h0).2
      obtain ⟨c', rfl⟩ : ∃ c', c = c' + 1 := ⟨c - 1, by omega⟩
      refine ⟨Or.inl ⟨r, c' + 1, h1, by omega, h2, rfl⟩, ?_⟩
      rw [bdim_h R C d f hR hC r c' h1 (by omega), ← dW_succ]; exact h0
  · rintro ⟨(⟨r, c, h1, h2, h3, rfl⟩ | ⟨r, c, h1, h2, h3, rfl⟩), hd⟩
    · obtain ⟨c', rfl⟩ : ∃ c', c = c' + 1 := ⟨c - 1, by omega⟩
      rw [bdim_h R C d f hR hC r c' h1 (by omega)] at hd
      obtain ⟨o1, o2⟩ := (dE_ne_one R C r c').mp hd
      rcases occ_pair_h R C r c' o1 o2 with hs | hs
      · exact ⟨(r, c'), (mem_cells R C _).mpr ⟨h1, by simp only; omega, hs⟩,
          (mem_legs _ _ r c' _).mpr (Or.inr (Or.inl ⟨hd, rfl⟩))⟩
      · refine ⟨(r, c' + 1), (mem_cells R C _).mpr ⟨h1, h3, by simpa using hs⟩,
          (mem_legs _ _ r (c' + 1) _).mpr (Or.inr (Or.inr (Or.inr ⟨by rw [dW_succ]; exact hd, rfl⟩)))⟩
    · obtain ⟨r', rfl⟩ : ∃ r', r = r' + 1 := ⟨r - 1, by omega⟩
      rw [bdim_v R C d f hR hC r' c (by omega) h3] at hd
      obtain ⟨o1, o2⟩ := (dS_ne_one R C r' c).mp hd
      rcases occ_pair_v R C r' c o1 o2 with hs | hs
      · exact ⟨(r', c), (mem_cells R C _).mpr ⟨by simp only; omega, h3, hs⟩,
          (mem_legs _ _ r' c _).mpr (Or.inr (Or.inr (Or.inl ⟨hd, rfl⟩)))⟩
      · refine ⟨(r' + 1, c), (mem_cells R C _).mpr ⟨h2, h3, by simpa using hs⟩,
          (mem_legs _ _ (r' + 1) c _).mpr (Or.inl ⟨by rw [dN_succ]; exact hd, rfl⟩)⟩

theorem isS_neighbour (R C : Int) (hR : 3 ≤ R) (hC : 3 ≤ C) (r c : ℤ) (hs : IsS R C r c) :
    Occ R C (r + 1) c ∨ Occ R C r (c - 1) ∨ Occ R C r (c + 1) := by
  by_cases h1 : 0 ≤ X C r c
  · by_cases h2 : 0 ≤ Y R C r c
    · refine Or.inl (Or.inl ?_)
      unfold IsQ IsS PlaqIn X Y par at *
      simp only at *
      omega
    · refine Or.inr (Or.inl (Or.inl ?_))
      unfold IsQ IsS PlaqIn X Y par at *
      simp only at *
      omega
  · refine Or.inr (Or.inr (Or.inl ?_))
    unfold IsQ IsS PlaqIn X Y par at *
    simp only at *
    omega

/-- every stabilizer tensor has at least one real leg (a plaquette has a corner inside the lattice) -/
theorem stars_ne_nil (R C : Int) (hR : 3 ≤ R) (hC : 3 ≤ C) : ∀ l ∈ stars R C, l ≠ [] := by
  intro l hl
  obtain ⟨⟨r, c⟩, hp, rfl⟩ := List.mem_map.mp hl
  obtain ⟨h1, h2, hs⟩ := (mem_cells R C (r, c)).mp hp
  simp only at h1 h2 hs
  rcases isS_neighbour R C hR hC r c hs with k | k | k
  · exact List.ne_nil_of_mem ((mem_legs _ _ r c _).mpr
      (Or.inr (Or.inr (Or.inl ⟨(dS_ne_one R C r c).mpr ⟨Or.inr hs, k⟩, rfl⟩))))
  · exact List.ne_nil_of_mem ((mem_legs _ _ r c _).mpr
      (Or.inr (Or.inr (Or.inr ⟨(dW_ne_one R C r c).mpr ⟨Or.inr hs, k⟩, rfl⟩))))
  · exact List.ne_nil_of_mem ((mem_legs _ _ r c _).mpr
      (Or.inr (Or.inl ⟨(dE_ne_one R C r c).mpr ⟨Or.inr hs, k⟩, rfl⟩)))

theorem bdim_gvars (R C : Int) (d : Dist Int) (f : BVec) (hR : 3 ≤ R) (hC : 3 ≤ C) (b : Bond)
    (hb : b ∈ gvars (N R C) (N R C)) :
    TensorExact.bdim (netF (rplanarTn R C d f)) b = 1 ∨ TensorExact.bdim (netF (rplanarTn R C d f)) b = 2 := by
  rcases (mem_gvars _ _ b).mp hb with ⟨r, c, h1, h2, h3, rfl⟩ | ⟨r, c, h1, h2, h3, rfl⟩
  · obtain ⟨c', rfl⟩ : ∃ c', c = c' + 1 := ⟨c - 1, by omega⟩
    rw [bdim_h R C d f hR hC r c' h1 (by omega)]
    exact (d_one_or_two R C r c').2.1
  · obtain ⟨r', rfl⟩ : ∃ r', r = r' + 1 := ⟨r - 1, by omega⟩
    rw [bdim_v R C d f hR hC r' c (by omega) h3]
    exact (d_one_or_two R C r' c).2.2.1

theorem bdim_stars (R C : Int) (d : Dist Int) (f : BVec) (hR : 3 ≤ R) (hC : 3 ≤ C) (b : Bond)
    (hb : b ∈ (stars R C).flatten) : TensorExact.bdim (netF (rplanarTn R C d f)) b = 2 := by
  obtain ⟨h1, h2⟩ := (mem_stars R C d f hR hC b).mp hb
  rcases bdim_gvars R C d f hR hC b h1 with h | h
  · exact absurd h h2
  · exact h

/-- dropping the dummy bonds and regrouping: the state sum over all bonds of the grid is the state sum over the legs of
    the stabilizer cells -/
theorem sumV_gvars_eq_stars (R C : Int) (d : Dist Int) (f : BVec) (hR : 3 ≤ R) (hC : 3 ≤ C)
    (F : (Bond → ℕ) → ℤ) :
    sumV (TensorExact.bdim (netF (rplanarTn R C d f))) (gvars (N R C) (N R C)) F (fun _ => 0)
      = sumV (TensorExact.bdim (netF (rplanarTn R C d f))) (stars R C).flatten F (fun _ => 0) := by
  set dim := TensorExact.bdim (netF (rplanarTn R C d f)) with hdim
  set p : Bond → Bool := fun b => decide (dim b = 1) with hp
  have hperm : ((gvars (N R C) (N R C)).filter p ++ (gvars (N R C) (N R C)).filter (fun b => !p b)).Perm
      (gvars (N R C) (N R C)) := List.filter_append_perm p _
  have hnd : ((gvars (N R C) (N R C)).filter p ++ (gvars (N R C) (N R C)).filter (fun b => !p b)).Nodup :=
    hperm.nodup_iff.mpr (gvars_nodup _ _)
  rw [← sumV_perm dim hperm hnd F, sumV_drop_unit dim _ _ F _
    (fun b hb => by simpa [hp] using (List.mem_filter.mp hb).2) (fun _ _ => rfl)]
  apply sumV_perm dim _ ((gvars_nodup _ _).filter _)
  rw [List.perm_ext_iff_of_nodup ((gvars_nodup _ _).filter _) (stars_nodup R C)]
  intro b
  rw [mem_stars R C d f hR hC b, List.mem_filter]
  simp [hp, hdim]

/-! ### F. splitting the product of all cells into deltas and qubit tensors -/

/-- on the assignments visited by the state sum every leg index of every cell is in range -/
theorem vis_inRange (R C : Int) (d : Dist Int) (f : BVec) (hR : 3 ≤ R) (hC : 3 ≤ C) (t : Bond → ℕ)
    (hv1 : ∀ b ∈ gvars (N R C) (N R C), t b < TensorExact.bdim (netF (rplanarTn R C d f)) b)
    (hv0 : ∀ b, b ∉ gvars (N R C) (N R C) → t b = 0) (r c : ℕ) (hr : r ≤ N R C) (hc : c ≤ N R C) :
    t (v r c) < dN R C r c ∧ t (h r (c + 1)) < dE R C r c ∧ t (v (r + 1) c) < dS R C r c ∧ t (h r c) < dW R C r c := by
  obtain ⟨p1, p2, p3, p4⟩ := d_one_or_two R C r c
  refine ⟨?_, ?_, ?_, ?_⟩
  · by_cases h0 : r = 0
    · rw [hv0 _ (by rw [mem_gvars]; rintro (⟨_, _, _, _, _, hh⟩ | ⟨_, _, _, _, _, hh⟩) <;> injection hh; omega)]
      omega
    · obtain ⟨r', rfl⟩ : ∃ r', r = r' + 1 := ⟨r - 1, by omega⟩
      have := hv1 _ ((mem_gvars _ _ _).mpr (Or.inr ⟨r' + 1, c, by omega, hr, hc, rfl⟩))
      rwa [bdim_v R C d f hR hC r' c (by omega) hc, ← dN_succ] at this
  · by_cases h0 : c = N R C
    · rw [hv0 _ (by rw [mem_gvars]; rintro (⟨_, _, _, _, _, hh⟩ | ⟨_, _, _, _, _, hh⟩) <;> injection hh; omega)]
      omega
    · have := hv1 _ ((mem_gvars _ _ _).mpr (Or.inl ⟨r, c + 1, hr, by omega, by omega, rfl⟩))
      rwa [bdim_h R C d f hR hC r c hr hc] at this
  · by_cases h0 : r = N R C
    · rw [hv0 _ (by rw [mem_gvars]; rintro (⟨_, _, _, _, _, hh⟩ | ⟨_, _, _, _, _, hh⟩) <;> injection hh; omega)]
      omega
    · have := hv1 _ ((mem_gvars _ _ _).mpr (Or.inr ⟨r + 1, c, by omega, by omega, hc, rfl⟩))
      rwa [bdim_v R C d f hR hC r c hr hc] at this
  · by_cases h0 : c = 0
    · rw [hv0 _ (by rw [mem_gvars]; rintro (⟨_, _, _, _, _, hh⟩ | ⟨_, _, _, _, _, hh⟩) <;> injection hh; omega)]
      omega
    · obtain ⟨c', rfl⟩ : ∃ c', c = c' + 1 := ⟨c - 1, by omega⟩
      have := hv1 _ ((mem_gvars _ _ _).mpr (Or.inl ⟨r, c' + 1, hr, by omega, hc, rfl⟩))
      rwa [bdim_h R C d f hR hC r c' hr (by omega), ← dW_succ] at this

/-- the weight of an occupied cell is the entry of its tensor -/
theorem cw_occ (R C : Int) (d : Dist Int) (f : BVec) (hR : 3 ≤ R) (hC : 3 ≤ C) (t : Bond → ℕ) (r c : ℕ)
    (hr : r ≤ N R C) (hc : c ≤ N R C) (ho : Occ R C r c) (h1 : t (v r c) < dN R C r c)
    (h2 : t (h r (c + 1)) < dE R C r c) (h3 : t (v (r + 1) c) < dS R C r c) (h4 : t (h r c) < dW R C r c) :
    cw (netF (rplanarTn R C d f)) t r c
      = nodeFn R C d f r c (t (v r c)) (t (h r (c + 1))) (t (v (r + 1) c)) (t (h r c)) := by
  unfold cw netF
  rw [site_eq R C d f hR hC r c hr hc, if_pos ho]
  exact get_ofFn _ _ _ _ _ _ _ _ _ h1 h2 h3 h4

/-- the weight of a `None` cell is 1 -/
theorem cw_none (R C : Int) (d : Dist Int) (f : BVec) (hR : 3 ≤ R) (hC : 3 ≤ C) (t : Bond → ℕ) (r c : ℕ)
    (hr : r ≤ N R C) (hc : c ≤ N R C) (ho : ¬ Occ R C r c) (h1 : t (v r c) < dN R C r c)
    (h2 : t (h r (c + 1)) < dE R C r c) (h3 : t (v (r + 1) c) < dS R C r c) (h4 : t (h r c) < dW R C r c) :
    cw (netF (rplanarTn R C d f)) t r c = 1 := by
  rw [dN_of_not R C r c ho] at h1
  rw [dE_of_not R C r c ho] at h2
  rw [dS_of_not R C r c ho] at h3
  rw [dW_of_not R C r c ho] at h4
  unfold cw netF
  rw [site_eq R C d f hR hC r c hr hc, if_neg ho]
  have e1 : t (v r c) = 0 := by omega
  have e2 : t (h r (c + 1)) = 0 := by omega
  have e3 : t (v (r + 1) c) = 0 := by omega
  have e4 : t (h r c) = 0 := by omega
  rw [e1, e2, e3, e4]
  rfl

/-- product of the qubit tensors (and of the `None` cells, which contribute 1) under the assignment `t` -/
def qubitProd (R C : Int) (d : Dist Int) (f : BVec) (t : Bond → ℕ) : ℤ :=
  ∏ c ∈ range (N R C + 1), ∏ r ∈ range (N R C + 1),
    if IsS R C r c then 1 else cw (netF (rplanarTn R C d f)) t r c

theorem prod_cells (R C : Int) (F : ℕ × ℕ → ℤ) :
    ∏ c ∈ range (N R C + 1), ∏ r ∈ range (N R C + 1), (if IsS R C r c then F (r, c) else 1)
      = ((cells R C).map F).prod := by
  calc ∏ c ∈ range (N R C + 1), ∏ r ∈ range (N R C + 1), (if IsS R C r c then F (r, c) else 1)
      = ∏ r ∈ range (N R C + 1), ∏ c ∈ range (N R C + 1), (if IsS R C r c then F (r, c) else 1) := prod_comm
    _ = ∏ x ∈ range (N R C + 1) ×ˢ range (N R C + 1), (if IsS R C x.1 x.2 then F x else 1) :=
        (prod_product' _ _ (fun (r c : ℕ) => if IsS R C r c then F (r, c) else 1)).symm
    _ = ∏ x ∈ (range (N R C + 1) ×ˢ range (N R C + 1)).filter (fun x => IsS R C x.1 x.2), F x :=
        (prod_filter _ _).symm
    _ = ∏ x ∈ (cells R C).toFinset, F x := by
        congr 1
        ext x
        simp only [mem_filter, mem_product, mem_range, List.mem_toFinset, mem_cells R C x, Nat.lt_succ_iff]
        tauto
    _ = ((cells R C).map F).prod := List.prod_toFinset F (cells_nodup R C)

theorem cw_star (R C : Int) (d : Dist Int) (f : BVec) (hR : 3 ≤ R) (hC : 3 ≤ C) (t : Bond → ℕ)
    (hv1 : ∀ b ∈ gvars (N R C) (N R C), t b < TensorExact.bdim (netF (rplanarTn R C d f)) b)
    (hv0 : ∀ b, b ∉ gvars (N R C) (N R C) → t b = 0) (p : ℕ × ℕ) (hp : p ∈ cells R C) :
    cw (netF (rplanarTn R C d f)) t p.1 p.2 = (FactorGraph.star (legs R C p) t : ℤ) := by
  obtain ⟨r, c⟩ := p
  obtain ⟨h1, h2, h3⟩ := (mem_cells R C (r, c)).mp hp
  simp only at h1 h2 h3 ⊢
  obtain ⟨i1, i2, i3, i4⟩ := vis_inRange R C d f hR hC t hv1 hv0 r c h1 h2
  rw [cw_occ R C d f hR hC t r c h1 h2 (Or.inr h3) i1 i2 i3 i4, ← PlanarTnLemmas.deltaList_map, ← deltaEntry_eq]
  unfold nodeFn
  rw [if_neg (by have := h3.1; omega)]

theorem prod_split (R C : Int) (d : Dist Int) (f : BVec) (hR : 3 ≤ R) (hC : 3 ≤ C) (t : Bond → ℕ)
    (hv1 : ∀ b ∈ gvars (N R C) (N R C), t b < TensorExact.bdim (netF (rplanarTn R C d f)) b)
    (hv0 : ∀ b, b ∉ gvars (N R C) (N R C) → t b = 0) :
    ∏ c ∈ range (N R C + 1), ∏ r ∈ range (N R C + 1), cw (netF (rplanarTn R C d f)) t r c
      = ((stars R C).map fun l => (FactorGraph.star l t : ℤ)).prod * qubitProd R C d f t := by
  have e : ∀ c r, cw (netF (rplanarTn R C d f)) t r c
      = (if IsS R C r c then cw (netF (rplanarTn R C d f)) t (r, c).1 (r, c).2 else 1)
        * (if IsS R C r c then 1 else cw (netF (rplanarTn R C d f)) t r c) := by
    intro c r; split_ifs <;> simp
  rw [prod_congr rfl (fun c _ => prod_congr rfl (fun r _ => e c r))]
  simp only [prod_mul_distrib]
  rw [prod_cells R C (fun p => cw (netF (rplanarTn R C d f)) t p.1 p.2)]
  unfold qubitProd stars
  rw [List.map_map]
  congr 2
  apply List.map_congr_left
  intro p hp
  exact cw_star R C d f hR hC t hv1 hv0 p hp

/-- **the exact value of the rotated planar network is the sum over one bit per stabilizer of the product of the
    qubit tensors** -/
theorem exactValue_rplanarTn (R C : Int) (d : Dist Int) (f : BVec) (hR : 3 ≤ R) (hC : 3 ≤ C) :
    exactValue (rplanarTn R C d f) = some (sumB (stars R C) (qubitProd R C d f) (fun _ => 0)) := by
  rw [PlanarTnLemmas.exactValue_eq_sumV _ _ _ (compat_rplanarTn R C d f hR hC) (compatible_rplanarTn R C d f hR hC)]
  congr 1
  rw [sumV_congr_mem _ _ _
    (fun t => ((stars R C).map fun l => (FactorGraph.star l t : ℤ)).prod * qubitProd R C d f t) _
    (fun t h1 h2 => prod_split R C d f hR hC t h1 h2), sumV_gvars_eq_stars R C d f hR hC]
  exact sumV_stars _ (stars R C) (stars_nodup R C) (stars_ne_nil R C hR hC)
    (fun b hb => bdim_stars R C d f hR hC b hb) _ _

end Qec.RotatedPlanarTnLemmas
