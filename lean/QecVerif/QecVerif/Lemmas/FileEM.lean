import QecVerif.Model.FileEM
namespace Qec.FileEM
end Qec.FileEM
