/-
  Helper lemmas for C18 (file error model): the reader only depends on the tokens of the
  non-comment lines; specification of `pull`, `readHeader`, `skip`, `openModel`, `generate` in terms
  of that token stream.
-/
import QecVerif.Model.FileEM
namespace Qec.FileEM

/-- tokens of the non-comment, non-blank lines, in file order -/
def sigToks (lines : List Line) : List Tok :=
  (lines.filter fun l => !isCommentOrBlank l.raw).map (·.tok)

theorem sigToks_cons_comment {l : Line} {ls : List Line} (h : isCommentOrBlank l.raw = true) :
    sigToks (l :: ls) = sigToks ls := by
  simp [sigToks, h]

theorem sigToks_cons_sig {l : Line} {ls : List Line} (h : isCommentOrBlank l.raw = false) :
    sigToks (l :: ls) = l.tok :: sigToks ls := by
  simp [sigToks, h]

theorem sigToks_length_le (ls : List Line) : (sigToks ls).length ≤ ls.length := by
  simp only [sigToks, List.length_map]; exact List.length_filter_le _ _

theorem sigToks_filter (ls : List Line) :
    sigToks (ls.filter fun l => !isCommentOrBlank l.raw) = sigToks ls := by
  simp [sigToks, List.filter_filter]

/-! ### `pull` -/

theorem go_nil : ∀ ls, sigToks ls = [] → pull.go ls = (.error .eof, ⟨[], []⟩)
  | [], _ => by simp [pull.go]
  | l :: ls, h => by
    by_cases hc : isCommentOrBlank l.raw = true
    · rw [sigToks_cons_comment hc] at h
      simp only [pull.go, hc, if_true]; exact go_nil ls h
    · rw [sigToks_cons_sig (by simpa using hc)] at h; cases h

theorem go_cons : ∀ ls t ts, sigToks ls = t :: ts → ∃ ls', sigToks ls' = ts ∧
    pull.go ls = ((if t = .invalid then .error .value else .ok t), ⟨[], ls'⟩)
  | [], _, _, h => by cases h
  | l :: ls, t, ts, h => by
    by_cases hc : isCommentOrBlank l.raw = true
    · rw [sigToks_cons_comment hc] at h
      obtain ⟨ls', h1, h2⟩ := go_cons ls t ts h
      exact ⟨ls', h1, by simp only [pull.go, hc, if_true]; exact h2⟩
    · have hc' : isCommentOrBlank l.raw = false := by simpa using hc
      rw [sigToks_cons_sig hc'] at h
      injection h with h1 h2
      refine ⟨ls, h2, ?_⟩
      subst h1
      simp only [pull.go, hc']
      cases l.tok <;> simp

/-- the token stream a reader will serve: push-back stack, then the significant lines -/
def toks (rd : Reader) : List Tok := rd.buffer ++ sigToks rd.rest

theorem pull_nobuf (ls : List Line) : pull ⟨[], ls⟩ = pull.go ls := by
  simp [pull]

theorem pull_toks_nil (rd : Reader) (h : toks rd = []) : pull rd = (.error .eof, ⟨[], []⟩) := by
  obtain ⟨b, r⟩ := rd
  simp only [toks, List.append_eq_nil_iff] at h
  obtain ⟨hb, hr⟩ := h
  subst hb
  rw [pull_nobuf]; exact go_nil r hr

theorem pull_toks_cons (rd : Reader) (t : Tok) (ts : List Tok) (h : toks rd = t :: ts)
    (ht : t ≠ .invalid) : ∃ rd', pull rd = (.ok t, rd') ∧ toks rd' = ts := by
  obtain ⟨b, r⟩ := rd
  cases b with
  | nil =>
    simp only [toks, List.nil_append] at h
    obtain ⟨ls', h1, h2⟩ := go_cons r t ts h
    refine ⟨⟨[], ls'⟩, ?_, by simpa [toks] using h1⟩
    rw [pull_nobuf, h2, if_neg ht]
  | cons t' b' =>
    simp only [toks, List.cons_append, List.cons.injEq] at h
    obtain ⟨rfl, h2⟩ := h
    exact ⟨⟨b', r⟩, by simp [pull], by simpa [toks] using h2⟩

/-- end of file is sticky: an EOF outcome leaves the empty reader -/
theorem pull_eof_state (rd : Reader) (h : (pull rd).1 = .error .eof) : (pull rd).2 = ⟨[], []⟩ := by
  cases ht : toks rd with
  | nil => rw [pull_toks_nil rd ht]
  | cons t ts =>
    exfalso
    obtain ⟨b, r⟩ := rd
    cases b with
    | nil =>
      simp only [toks, List.nil_append] at ht
      obtain ⟨ls', _, h2⟩ := go_cons r t ts ht
      rw [pull_nobuf, h2] at h
      by_cases hi : t = .invalid <;> simp [hi] at h
    | cons t' b' => simp [pull] at h

/-! ### `openModel` unfolded: header, then `finish` -/

/-- everything `openModel` does after the header has been read -/
def finish (st : Nat) (rd : Reader) (hdr : List (String × HVal)) : Except Err Model :=
  match (popKey "probability" hdr).1 with
  | none => .error .value
  | some (.null) => .error .type
  | some (.other _) => .error .type
  | some (.str _) => .error .value
  | some (.num p) =>
    match (popKey "label" (popKey "probability" hdr).2).1 with
    | none => .error .value
    | some label =>
      match skip st rd with
      | .error e => .error e
      | .ok rd' =>
        if openModel.chk (popKey "probability_distribution" (popKey "label" (popKey "probability" hdr).2).2).2 []
        then .ok { rd := rd', p := p, label := label,
                   dist := (popKey "probability_distribution" (popKey "label" (popKey "probability" hdr).2).2).1,
                   extras := (popKey "probability_distribution" (popKey "label" (popKey "probability" hdr).2).2).2 }
        else .error .value

theorem openModel_eq (lines : List Line) (st : Int) :
    openModel lines (some st) =
      if st < 0 then .error .value else
      match readHeader (lines.length + 1) { buffer := [], rest := lines } [] with
      | .error e => .error e
      | .ok (rd, hdr) => finish st.toNat rd hdr := by
  unfold openModel finish
  simp only
  split
  · rfl
  · cases readHeader (lines.length + 1) { buffer := [], rest := lines } [] with
    | error e => rfl
    | ok x => rfl

/-! ### header keys -/

theorem noclash_of_nodup {acc o : List (String × HVal)} (h : ((acc ++ o).map (·.1)).Nodup) :
    o.any (fun kv => acc.any (fun h => h.1 == kv.1)) = false := by
  rw [Bool.eq_false_iff]
  intro hany
  rw [List.any_eq_true] at hany
  obtain ⟨kv, hkv, h2⟩ := hany
  rw [List.any_eq_true] at h2
  obtain ⟨h', hh', heq⟩ := h2
  have heq' : h'.1 = kv.1 := by simpa using heq
  rw [List.map_append, List.nodup_append] at h
  exact h.2.2 h'.1 (List.mem_map_of_mem hh') kv.1 (List.mem_map_of_mem hkv) heq'

theorem nodup_of_noclash {acc o : List (String × HVal)} (h1 : (acc.map (·.1)).Nodup)
    (h2 : (o.map (·.1)).Nodup) (h : o.any (fun kv => acc.any (fun h => h.1 == kv.1)) = false) :
    ((acc ++ o).map (·.1)).Nodup := by
  rw [List.map_append, List.nodup_append]
  refine ⟨h1, h2, ?_⟩
  intro a ha b hb hab
  rw [List.mem_map] at ha hb
  obtain ⟨x, hx, rfl⟩ := ha
  obtain ⟨y, hy, rfl⟩ := hb
  have : o.any (fun kv => acc.any (fun h => h.1 == kv.1)) = true := by
    rw [List.any_eq_true]
    refine ⟨y, hy, ?_⟩
    rw [List.any_eq_true]
    exact ⟨x, hx, by simpa using hab⟩
  rw [h] at this; cases this

/-! ### `readHeader` on a token stream `objects ++ rest` -/

/-- pairwise distinct keys: all header objects are accumulated, the first non-object is pushed back -/
theorem readHeader_nodup : ∀ (hdrs : List (List (String × HVal))) (f : Nat) (ls : List Line)
    (acc : List (String × HVal)) (rest : List Tok),
    sigToks ls = hdrs.map Tok.obj ++ rest → (∀ t ∈ rest.head?, ∀ kvs, t ≠ Tok.obj kvs) →
    ((acc ++ hdrs.flatten).map (·.1)).Nodup → hdrs.length < f →
    ∃ ls', sigToks ls' = rest.tail ∧ readHeader f ⟨[], ls⟩ acc =
      match rest with
      | [] => .error .eof
      | t :: _ => if t = .invalid then .error .value else .ok (⟨[t], ls'⟩, acc ++ hdrs.flatten)
  | [], f, ls, acc, rest, hsig, hrest, _, hf => by
    obtain ⟨f, rfl⟩ : ∃ f', f = f' + 1 := ⟨f - 1, by simp at hf; omega⟩
    simp only [List.map_nil, List.nil_append] at hsig
    cases rest with
    | nil => exact ⟨[], rfl, by simp [readHeader, pull_nobuf, go_nil ls hsig]⟩
    | cons t ts =>
      obtain ⟨ls', h1, h2⟩ := go_cons ls t ts hsig
      refine ⟨ls', h1, ?_⟩
      by_cases hi : t = .invalid
      · subst hi; simp [readHeader, pull_nobuf, h2]
      · have hno := hrest t (by simp)
        cases t with
        | obj kvs => exact absurd rfl (hno kvs)
        | invalid => exact absurd rfl hi
        | entry b l => simp [readHeader, pull_nobuf, h2, push]
        | bad => simp [readHeader, pull_nobuf, h2, push]
  | o :: os, f, ls, acc, rest, hsig, hrest, hk, hf => by
    obtain ⟨f, rfl⟩ : ∃ f', f = f' + 1 := ⟨f - 1, by simp at hf; omega⟩
    simp only [List.map_cons, List.cons_append] at hsig
    obtain ⟨ls1, h1, h2⟩ := go_cons ls _ _ hsig
    simp only [List.flatten_cons, ← List.append_assoc] at hk
    have hk' : ((acc ++ o).map (·.1)).Nodup := by
      rw [List.map_append] at hk; exact (List.nodup_append.mp hk).1
    obtain ⟨ls', h3, h4⟩ := readHeader_nodup os f ls1 (acc ++ o) rest h1 hrest hk (by simp at hf; omega)
    refine ⟨ls', h3, ?_⟩
    simp only [readHeader, pull_nobuf, h2, reduceCtorEq, if_false, noclash_of_nodup hk',
      Bool.false_eq_true, List.flatten_cons, ← List.append_assoc]
    exact h4

/-- a key repeated in two different header objects is refused -/
theorem readHeader_clash : ∀ (hdrs : List (List (String × HVal))) (f : Nat) (ls : List Line)
    (acc : List (String × HVal)) (rest : List Tok),
    sigToks ls = hdrs.map Tok.obj ++ rest → (acc.map (·.1)).Nodup → (∀ o ∈ hdrs, (o.map (·.1)).Nodup) →
    ¬ ((acc ++ hdrs.flatten).map (·.1)).Nodup → hdrs.length < f →
    readHeader f ⟨[], ls⟩ acc = .error .value
  | [], _, _, acc, _, _, hacc, _, hnd, _ => by simp at hnd; exact absurd hacc hnd
  | o :: os, f, ls, acc, rest, hsig, hacc, hobj, hnd, hf => by
    obtain ⟨f, rfl⟩ : ∃ f', f = f' + 1 := ⟨f - 1, by simp at hf; omega⟩
    simp only [List.map_cons, List.cons_append] at hsig
    obtain ⟨ls1, h1, h2⟩ := go_cons ls _ _ hsig
    simp only [readHeader, pull_nobuf, h2, reduceCtorEq, if_false]
    by_cases hc : o.any (fun kv => acc.any (fun h => h.1 == kv.1)) = true
    · simp [hc]
    · have hc' : o.any (fun kv => acc.any (fun h => h.1 == kv.1)) = false := by simpa using hc
      rw [if_neg hc]
      have hacc' := nodup_of_noclash hacc (hobj o (by simp)) hc'
      apply readHeader_clash os f ls1 (acc ++ o) rest h1 hacc' (fun o' ho' => hobj o' (by simp [ho']))
      · simpa [List.flatten_cons, List.append_assoc] using hnd
      · simp at hf; omega

/-! ### `skip` -/

theorem skip_ok : ∀ (n : Nat) (rd : Reader) (ts : List Tok), toks rd = ts → (∀ t ∈ ts, t ≠ Tok.invalid) →
    n ≤ ts.length → ∃ rd', skip n rd = .ok rd' ∧ toks rd' = ts.drop n
  | 0, rd, ts, h, _, _ => ⟨rd, rfl, by simpa using h⟩
  | n + 1, rd, ts, h, hv, hn => by
    cases ts with
    | nil => simp at hn
    | cons t ts =>
      obtain ⟨rd1, h1, h2⟩ := pull_toks_cons rd t ts h (hv t (by simp))
      obtain ⟨rd', h3, h4⟩ := skip_ok n rd1 ts h2 (fun t' ht' => hv t' (by simp [ht'])) (by simpa using hn)
      exact ⟨rd', by simp only [skip, h1]; exact h3, by simpa using h4⟩

theorem skip_eof : ∀ (n : Nat) (rd : Reader) (ts : List Tok), toks rd = ts → (∀ t ∈ ts, t ≠ Tok.invalid) →
    ts.length < n → skip n rd = .error .eof
  | 0, _, _, _, _, hn => by simp at hn
  | n + 1, rd, ts, h, hv, hn => by
    cases ts with
    | nil => simp only [skip, pull_toks_nil rd h]
    | cons t ts =>
      obtain ⟨rd1, h1, h2⟩ := pull_toks_cons rd t ts h (hv t (by simp))
      simp only [skip, h1]
      exact skip_eof n rd1 ts h2 (fun t' ht' => hv t' (by simp [ht'])) (by simpa using hn)

/-! ### popping keys off a header with pairwise distinct keys -/

theorem find_key_of_mem : ∀ (l : List (String × HVal)) (k : String) (v : HVal),
    (l.map (·.1)).Nodup → (k, v) ∈ l → l.find? (·.1 == k) = some (k, v)
  | [], _, _, _, h => by cases h
  | x :: xs, k, v, hnd, h => by
    simp only [List.map_cons, List.nodup_cons] at hnd
    rcases List.mem_cons.mp h with rfl | h'
    · simp
    · have hne : x.1 ≠ k := fun e => hnd.1 (e ▸ List.mem_map_of_mem (f := (·.1)) h')
      have hne' : (x.1 == k) = false := by simpa using hne
      simp only [List.find?_cons, hne']
      exact find_key_of_mem xs k v hnd.2 h'

theorem find_key_none (l : List (String × HVal)) (k : String) (h : k ∉ l.map (·.1)) :
    l.find? (·.1 == k) = none := by
  rw [List.find?_eq_none]
  intro x hx hxk
  have e : x.1 = k := by simpa using hxk
  exact h (e ▸ List.mem_map_of_mem (f := (·.1)) hx)

theorem nodup_rm (l : List (String × HVal)) (k : String) (h : (l.map (·.1)).Nodup) :
    (((popKey k l).2).map (·.1)).Nodup :=
  List.Nodup.sublist (List.Sublist.map _ List.filter_sublist) h

theorem mem_rm (l : List (String × HVal)) (k : String) (kv : String × HVal) :
    kv ∈ (popKey k l).2 ↔ kv ∈ l ∧ kv.1 ≠ k := by
  simp [popKey, List.mem_filter]

theorem popKey_some (l : List (String × HVal)) (k : String) (v : HVal) (h : (l.map (·.1)).Nodup)
    (hm : (k, v) ∈ l) : (popKey k l).1 = some v := by
  simp [popKey, find_key_of_mem l k v h hm]

theorem popKey_none (l : List (String × HVal)) (k : String) (h : k ∉ l.map (·.1)) :
    (popKey k l).1 = none := by
  simp only [popKey, find_key_none l k h, Option.map_none]

/-- the `probability_distribution` header value (if any) -/
def distOf (F : List (String × HVal)) : Option HVal :=
  (popKey "probability_distribution" (popKey "label" (popKey "probability" F).2).2).1
/-- the extra header entries -/
def extrasOf (F : List (String × HVal)) : List (String × HVal) :=
  (popKey "probability_distribution" (popKey "label" (popKey "probability" F).2).2).2

theorem mem_extrasOf (F : List (String × HVal)) (kv : String × HVal) :
    kv ∈ extrasOf F ↔ (kv ∈ F ∧ kv.1 ≠ "probability" ∧ kv.1 ≠ "label" ∧ kv.1 ≠ "probability_distribution") := by
  simp only [extrasOf, mem_rm]; constructor
  · rintro ⟨⟨⟨a, b⟩, c⟩, d⟩; exact ⟨a, b, c, d⟩
  · rintro ⟨a, b, c, d⟩; exact ⟨⟨⟨a, b⟩, c⟩, d⟩

theorem nodup_extrasOf (F : List (String × HVal)) (h : (F.map (·.1)).Nodup) :
    ((extrasOf F).map (·.1)).Nodup :=
  nodup_rm _ _ (nodup_rm _ _ (nodup_rm _ _ h))

theorem distOf_some (F : List (String × HVal)) (d : HVal) (h : (F.map (·.1)).Nodup)
    (hm : ("probability_distribution", d) ∈ F) : distOf F = some d := by
  apply popKey_some _ _ _ (nodup_rm _ _ (nodup_rm _ _ h))
  rw [mem_rm, mem_rm]
  exact ⟨⟨hm, by simp⟩, by simp⟩

theorem distOf_none (F : List (String × HVal)) (h : ∀ d, ("probability_distribution", d) ∉ F) :
    distOf F = none := by
  apply popKey_none
  intro hmem
  rw [List.mem_map] at hmem
  obtain ⟨kv, hkv, hk⟩ := hmem
  rw [mem_rm, mem_rm] at hkv
  obtain ⟨k, v⟩ := kv
  simp only at hk; subst hk
  exact h v hkv.1.1

/-! ### the attribute-name check -/

theorem chk_true : ∀ (l : List (String × HVal)) (seen : List String),
    (∀ kv ∈ l, attrNameOk kv.1 = true ∧ kv.1 ∉ takenNames ∧ kv.1 ∉ seen) → (l.map (·.1)).Nodup →
    openModel.chk l seen = true
  | [], _, _, _ => rfl
  | kv :: r, seen, h, hnd => by
    simp only [List.map_cons, List.nodup_cons] at hnd
    obtain ⟨h1, h2, h3⟩ := h kv (by simp)
    have ih := chk_true r (kv.1 :: seen) (fun kv' hkv' => by
      obtain ⟨a, b, c⟩ := h kv' (by simp [hkv'])
      refine ⟨a, b, ?_⟩
      intro hc
      rcases List.mem_cons.mp hc with e | e
      · exact hnd.1 (e ▸ List.mem_map_of_mem (f := (·.1)) hkv')
      · exact c e) hnd.2
    simp [openModel.chk, h1, h2, h3, ih]

theorem chk_false : ∀ (l : List (String × HVal)) (seen : List String),
    (∃ kv ∈ l, attrNameOk kv.1 = false ∨ kv.1 ∈ takenNames) → openModel.chk l seen = false
  | [], _, ⟨_, h, _⟩ => by cases h
  | kv :: r, seen, ⟨kv', hmem, hbad⟩ => by
    rcases List.mem_cons.mp hmem with rfl | h'
    · rcases hbad with hb | hb <;> simp [openModel.chk, hb]
    · simp [openModel.chk, chk_false r (kv.1 :: seen) ⟨kv', h', hbad⟩]

/-! ### `finish` / `openModel` on well-formed input -/

theorem finish_wf (F : List (String × HVal)) (body : List (List Nat × Nat)) (p : Rat) (label : HVal)
    (rd : Reader) (st : Nat) (hk : (F.map (·.1)).Nodup) (hp : ("probability", HVal.num p) ∈ F)
    (hl : ("label", label) ∈ F) (hrd : toks rd = body.map fun b => Tok.entry b.1 b.2) :
    (st ≤ body.length → ∃ rd', toks rd' = (body.drop st).map (fun b => Tok.entry b.1 b.2) ∧
      finish st rd F = if openModel.chk (extrasOf F) [] then
        .ok { rd := rd', p := p, label := label, dist := distOf F, extras := extrasOf F }
        else .error .value) ∧
    (body.length < st → finish st rd F = .error .eof) := by
  have e1 : (popKey "probability" F).1 = some (.num p) := popKey_some F _ _ hk hp
  have e2 : (popKey "label" (popKey "probability" F).2).1 = some label :=
    popKey_some _ _ _ (nodup_rm _ _ hk) ((mem_rm _ _ _).mpr ⟨hl, by simp⟩)
  have hv : ∀ t ∈ body.map (fun b => Tok.entry b.1 b.2), t ≠ Tok.invalid := by
    intro t ht; rw [List.mem_map] at ht; obtain ⟨b, _, rfl⟩ := ht; simp
  constructor
  · intro hst
    obtain ⟨rd', h3, h4⟩ := skip_ok st rd _ hrd hv (by simpa using hst)
    refine ⟨rd', by rw [h4, List.map_drop], ?_⟩
    simp only [finish, e1, e2, h3, distOf, extrasOf]
    rfl
  · intro hst
    have h3 := skip_eof st rd _ hrd hv (by simpa using hst)
    simp only [finish, e1, e2, h3]

theorem finish_missing (F : List (String × HVal)) (rd : Reader) (st : Nat) (hk : (F.map (·.1)).Nodup)
    (hmiss : "probability" ∉ F.map (·.1) ∨
      ((∃ p, ("probability", HVal.num p) ∈ F) ∧ "label" ∉ F.map (·.1))) :
    finish st rd F = .error .value := by
  rcases hmiss with h | ⟨⟨p, hp⟩, h⟩
  · simp only [finish, popKey_none F _ h]
  · have e1 : (popKey "probability" F).1 = some (.num p) := popKey_some F _ _ hk hp
    have e2 : (popKey "label" (popKey "probability" F).2).1 = none := by
      apply popKey_none
      intro hmem
      rw [List.mem_map] at hmem
      obtain ⟨kv, hkv, hk'⟩ := hmem
      exact h (List.mem_map.mpr ⟨kv, ((mem_rm _ _ _).mp hkv).1, hk'⟩)
    simp only [finish, e1, e2]

theorem fuel_ok (lines : List Line) (hdr : List (List (String × HVal))) (rest : List Tok)
    (hsig : sigToks lines = hdr.map Tok.obj ++ rest) : hdr.length < lines.length + 1 := by
  have := sigToks_length_le lines
  rw [hsig] at this; simp at this; omega

theorem open_wf (lines : List Line) (hdr : List (List (String × HVal))) (body : List (List Nat × Nat))
    (p : Rat) (label : HVal)
    (hsig : sigToks lines = hdr.map Tok.obj ++ body.map fun b => Tok.entry b.1 b.2)
    (hk : (hdr.flatten.map (·.1)).Nodup)
    (hp : ("probability", HVal.num p) ∈ hdr.flatten) (hl : ("label", label) ∈ hdr.flatten)
    (hb : 1 ≤ body.length) (start : Nat) :
    (start ≤ body.length → ∃ rd', toks rd' = (body.drop start).map (fun b => Tok.entry b.1 b.2) ∧
      openModel lines (some (start : Int)) = if openModel.chk (extrasOf hdr.flatten) [] then
        .ok { rd := rd', p := p, label := label, dist := distOf hdr.flatten, extras := extrasOf hdr.flatten }
        else .error .value) ∧
    (body.length < start → openModel lines (some (start : Int)) = .error .eof) := by
  cases body with
  | nil => simp at hb
  | cons b0 bt =>
    obtain ⟨ls', h1, h2⟩ := readHeader_nodup hdr (lines.length + 1) lines [] _ hsig
      (by simp) (by simpa using hk) (fuel_ok lines hdr _ hsig)
    simp only [List.map_cons, reduceCtorEq, if_false, List.nil_append, List.tail_cons] at h1 h2
    have hrd : toks ⟨[Tok.entry b0.1 b0.2], ls'⟩ = (b0 :: bt).map fun b => Tok.entry b.1 b.2 := by
      simp [toks, h1]
    have hneg : ¬ ((start : Int) < 0) := by omega
    rw [openModel_eq, if_neg hneg, h2]
    simp only [Int.toNat_natCast]
    exact finish_wf hdr.flatten (b0 :: bt) p label _ start hk hp hl hrd

theorem open_nobody (lines : List Line) (hdr : List (List (String × HVal)))
    (hsig : sigToks lines = hdr.map Tok.obj) (hk : (hdr.flatten.map (·.1)).Nodup) (start : Nat) :
    openModel lines (some (start : Int)) = .error .eof := by
  obtain ⟨ls', _, h2⟩ := readHeader_nodup hdr (lines.length + 1) lines [] [] (by simpa using hsig)
    (by simp) (by simpa using hk) (fuel_ok lines hdr [] (by simpa using hsig))
  have hneg : ¬ ((start : Int) < 0) := by omega
  rw [openModel_eq, if_neg hneg, h2]

/-! ### `generate` against the recorded body -/

theorem generate_step (m : Model) (body : List (List Nat × Nat)) (k n : Nat)
    (h : toks m.rd = (body.drop k).map fun b => Tok.entry b.1 b.2) :
    (generate m n m.p).1 = (match body[k]? with
      | some b => if (unpack b).length = 2 * n then .ok (unpack b) else .error .value
      | none => .error .eof) ∧
    toks (generate m n m.p).2.rd = (body.drop (k + 1)).map (fun b => Tok.entry b.1 b.2) ∧
    (generate m n m.p).2.p = m.p := by
  cases hd : body.drop k with
  | nil =>
    rw [hd] at h
    have hk : body.length ≤ k := List.drop_eq_nil_iff.mp hd
    have h0 : body[k]? = none := List.getElem?_eq_none hk
    have h1 : body.drop (k + 1) = [] := List.drop_eq_nil_iff.mpr (by omega)
    simp [generate, pull_toks_nil m.rd h, h0, h1, toks, sigToks]
  | cons b bs =>
    rw [hd] at h
    obtain ⟨rd', h1, h2⟩ := pull_toks_cons m.rd _ _ h (by simp)
    have h0 : body[k]? = some b := by
      have := List.getElem?_drop (xs := body) (i := k) (j := 0)
      rw [hd] at this; simpa using this.symm
    have h3 : body.drop (k + 1) = bs := by
      have := List.drop_drop (l := body) (i := 1) (j := k)
      rw [hd] at this; simpa [Nat.add_comm] using this.symm
    simp only [generate, ne_eq, not_true_eq_false, if_false, h1, h0, h3]
    by_cases hl : (unpack (b.1, b.2)).length = 2 * n
    · simp [hl, h2]
    · simp [hl, h2]

/-! ### only the significant tokens matter (comments are irrelevant) -/

/-- two readers that will serve the same tokens -/
def REq (rd rd' : Reader) : Prop := rd.buffer = rd'.buffer ∧ sigToks rd.rest = sigToks rd'.rest

/-- same error, or related values -/
def ExRel {α β : Type} (R : α → β → Prop) : Except Err α → Except Err β → Prop
  | .error e, .error e' => e = e'
  | .ok a, .ok b => R a b
  | _, _ => False

/-- two models that differ at most in comment lines still to be read -/
def MEq (m m' : Model) : Prop :=
  REq m.rd m'.rd ∧ m.p = m'.p ∧ m.label = m'.label ∧ m.dist = m'.dist ∧ m.extras = m'.extras

theorem REq.toks_eq {rd rd' : Reader} (h : REq rd rd') : toks rd = toks rd' := by
  simp only [toks, h.1, h.2]

theorem pull_congr {rd rd' : Reader} (h : REq rd rd') :
    (pull rd).1 = (pull rd').1 ∧ REq (pull rd).2 (pull rd').2 := by
  obtain ⟨b, r⟩ := rd
  obtain ⟨b', r'⟩ := rd'
  obtain ⟨hb, hr⟩ := h
  simp only at hb hr
  subst hb
  cases b with
  | nil =>
    rw [pull_nobuf, pull_nobuf]
    cases hs : sigToks r with
    | nil => rw [go_nil r hs, go_nil r' (hr ▸ hs)]; exact ⟨rfl, rfl, rfl⟩
    | cons t ts =>
      obtain ⟨l1, a1, a2⟩ := go_cons r t ts hs
      obtain ⟨l2, b1, b2⟩ := go_cons r' t ts (hr ▸ hs)
      rw [a2, b2]; exact ⟨rfl, rfl, by simp only [a1, b1]⟩
  | cons t b => exact ⟨by simp [pull], by simp [pull, REq, hr]⟩

theorem pull_size (rd : Reader) (t : Tok) (h : (pull rd).1 = .ok t) :
    (toks (pull rd).2).length + 1 = (toks rd).length := by
  obtain ⟨b, r⟩ := rd
  cases b with
  | nil =>
    rw [pull_nobuf] at h ⊢
    cases hs : sigToks r with
    | nil => rw [go_nil r hs] at h; cases h
    | cons t' ts =>
      obtain ⟨l1, a1, a2⟩ := go_cons r t' ts hs
      rw [a2]; simp [toks, a1, hs]
  | cons t' b => simp [pull, toks]

theorem readHeader_congr : ∀ (f f' : Nat) (rd rd' : Reader) (acc : List (String × HVal)),
    REq rd rd' → (toks rd).length < f → (toks rd).length < f' →
    ExRel (fun x y => REq x.1 y.1 ∧ x.2 = y.2) (readHeader f rd acc) (readHeader f' rd' acc)
  | 0, _, _, _, _, _, hf, _ => by simp at hf
  | _ + 1, 0, _, _, _, _, _, hf' => by simp at hf'
  | f + 1, f' + 1, rd, rd', acc, h, hf, hf' => by
    obtain ⟨hc1, hc2⟩ := pull_congr h
    have hsz := pull_size rd
    simp only [readHeader]
    rcases hp : pull rd with ⟨r1, rd1⟩
    rcases hp' : pull rd' with ⟨r2, rd2⟩
    rw [hp, hp'] at hc1 hc2
    rw [hp] at hsz
    simp only at hc1 hc2 hsz
    subst hc1
    cases r1 with
    | error e => simp [ExRel]
    | ok t =>
      have hsz' := hsz t rfl
      cases t with
      | obj kvs =>
        by_cases hcl : kvs.any (fun kv => acc.any (fun h => h.1 == kv.1)) = true
        · simp [hcl, ExRel]
        · simp only [hcl, Bool.false_eq_true, if_false]
          exact readHeader_congr f f' rd1 rd2 (acc ++ kvs) hc2 (by omega) (by omega)
      | entry b l => simp [ExRel, push, REq, hc2.1, hc2.2]
      | bad => simp [ExRel, push, REq, hc2.1, hc2.2]
      | invalid => simp [ExRel, push, REq, hc2.1, hc2.2]

theorem skip_congr : ∀ (n : Nat) (rd rd' : Reader), REq rd rd' → ExRel REq (skip n rd) (skip n rd')
  | 0, _, _, h => by simpa [skip, ExRel] using h
  | n + 1, rd, rd', h => by
    obtain ⟨hc1, hc2⟩ := pull_congr h
    simp only [skip]
    rcases hp : pull rd with ⟨r1, rd1⟩
    rcases hp' : pull rd' with ⟨r2, rd2⟩
    rw [hp, hp'] at hc1 hc2
    simp only at hc1 hc2
    subst hc1
    cases r1 with
    | error e => simp [ExRel]
    | ok t => exact skip_congr n rd1 rd2 hc2

theorem finish_congr (st : Nat) (rd rd' : Reader) (F : List (String × HVal)) (h : REq rd rd') :
    ExRel MEq (finish st rd F) (finish st rd' F) := by
  unfold finish
  cases (popKey "probability" F).1 with
  | none => simp [ExRel]
  | some v =>
    cases v with
    | null => simp [ExRel]
    | str s => simp [ExRel]
    | other s => simp [ExRel]
    | num p =>
      cases (popKey "label" (popKey "probability" F).2).1 with
      | none => simp [ExRel]
      | some lab =>
        have hs := skip_congr st rd rd' h
        cases h3 : skip st rd with
        | error e =>
          cases h4 : skip st rd' with
          | error e' => rw [h3, h4] at hs; simpa [ExRel] using hs
          | ok r' => rw [h3, h4] at hs; simp [ExRel] at hs
        | ok r =>
          cases h4 : skip st rd' with
          | error e' => rw [h3, h4] at hs; simp [ExRel] at hs
          | ok r' =>
            rw [h3, h4] at hs
            simp only [ExRel] at hs
            simp only
            split
            · simp [ExRel, MEq, hs]
            · simp [ExRel]

/-- `openModel` depends on the lines only through their significant tokens -/
theorem open_congr (l1 l2 : List Line) (start : Option Int) (h : sigToks l1 = sigToks l2) :
    ExRel MEq (openModel l1 start) (openModel l2 start) := by
  cases start with
  | none => simp [openModel, ExRel]
  | some s =>
    rw [openModel_eq, openModel_eq]
    by_cases hs : s < 0
    · simp [hs, ExRel]
    · rw [if_neg hs, if_neg hs]
      have hr : REq ⟨[], l1⟩ ⟨[], l2⟩ := ⟨rfl, h⟩
      have hl1 := sigToks_length_le l1
      have hl2 := sigToks_length_le l2
      have hh := readHeader_congr (l1.length + 1) (l2.length + 1) ⟨[], l1⟩ ⟨[], l2⟩ [] hr
        (by simp only [toks, List.nil_append]; omega)
        (by simp only [toks, List.nil_append]; rw [h]; omega)
      cases h1 : readHeader (l1.length + 1) ⟨[], l1⟩ [] with
      | error e =>
        cases h2 : readHeader (l2.length + 1) ⟨[], l2⟩ [] with
        | error e' => rw [h1, h2] at hh; simpa [ExRel] using hh
        | ok x' => rw [h1, h2] at hh; simp [ExRel] at hh
      | ok x =>
        cases h2 : readHeader (l2.length + 1) ⟨[], l2⟩ [] with
        | error e' => rw [h1, h2] at hh; simp [ExRel] at hh
        | ok x' =>
          rw [h1, h2] at hh
          simp only [ExRel] at hh
          obtain ⟨rd, F⟩ := x
          obtain ⟨rd', F'⟩ := x'
          simp only at hh
          obtain ⟨hh1, rfl⟩ := hh
          exact finish_congr s.toNat rd rd' F hh1

theorem generate_congr (m m' : Model) (n : Nat) (p : Rat) (h : MEq m m') :
    (generate m n p).1 = (generate m' n p).1 ∧ MEq (generate m n p).2 (generate m' n p).2 := by
  obtain ⟨rd, p0, lab, d, ex⟩ := m
  obtain ⟨rd', p0', lab', d', ex'⟩ := m'
  obtain ⟨h0, h1, h2, h3, h4⟩ := h
  simp only at h0 h1 h2 h3 h4
  subst h1 h2 h3 h4
  obtain ⟨hc1, hc2⟩ := pull_congr h0
  unfold generate
  simp only
  by_cases hp : p ≠ p0
  · rw [if_pos hp, if_pos hp]; exact ⟨rfl, h0, rfl, rfl, rfl, rfl⟩
  · rw [if_neg hp, if_neg hp]
    rcases hq : pull rd with ⟨r1, rd1⟩
    rcases hq' : pull rd' with ⟨r2, rd2⟩
    rw [hq, hq'] at hc1 hc2
    simp only at hc1 hc2
    subst hc1
    cases r1 with
    | error e => exact ⟨rfl, hc2, rfl, rfl, rfl, rfl⟩
    | ok t =>
      cases t with
      | entry b l =>
        simp only
        split
        · exact ⟨rfl, hc2, rfl, rfl, rfl, rfl⟩
        · exact ⟨rfl, hc2, rfl, rfl, rfl, rfl⟩
      | obj kvs => exact ⟨rfl, hc2, rfl, rfl, rfl, rfl⟩
      | bad => exact ⟨rfl, hc2, rfl, rfl, rfl, rfl⟩
      | invalid => exact ⟨rfl, hc2, rfl, rfl, rfl, rfl⟩

theorem ExRel_MEq_map (a b : Except Err Model) (h : ExRel MEq a b) :
    a.map (fun m => (m.p, m.label, m.dist, m.extras)) = b.map (fun m => (m.p, m.label, m.dist, m.extras)) := by
  cases a with
  | error e => cases b with
    | error e' => simp only [ExRel] at h; subst h; rfl
    | ok m' => simp [ExRel] at h
  | ok m => cases b with
    | error e' => simp [ExRel] at h
    | ok m' =>
      simp only [ExRel] at h
      obtain ⟨_, h1, h2, h3, h4⟩ := h
      simp [Except.map, h1, h2, h3, h4]

end Qec.FileEM
