/-
  Measure-theoretic helpers for C17 (`Props/C17/Measure.lean`).

  * `choiceIdxR`, `pauliOfReal`, `flipOfReal` — the inverse-CDF map of `Model/Stream.lean`
    (`choiceIdx`, `pauliOf`, `flipOf`) with real thresholds and a real uniform, and the proof that
    they agree with the executable `Rat` model on rational inputs (`choiceIdxR_ratCast` …).
  * `uniform01` — Lebesgue measure restricted to `[0,1)` (the law of one `rng.random()` double in
    numpy's contract), `uniformPi ι` — the product of `ι` copies (the law of `ι` independent
    uniforms); the box formula `uniformPi_box`.
  * the cells of the four-letter and of the two-letter alphabet as half-open intervals.

  Only used by `Props/C17/Measure.lean`; never linked into the driver.
-/
import QecVerif.Lemmas.Stream
import Mathlib.MeasureTheory.Measure.Lebesgue.Basic
import Mathlib.MeasureTheory.Constructions.Pi

namespace Qec.StreamMeasure
open Qec Qec.Stream MeasureTheory Set

/-! ### the real-valued copy of the model's map -/

/-- `cdf.searchsorted(u, side='right')` with real thresholds and a real `u`
    (same recursion as `Qec.Stream.choiceIdx`) -/
noncomputable def choiceIdxR : List ℝ → ℝ → ℕ
  | [], _ => 0
  | c :: cs, u => if u < c then 0 else choiceIdxR cs u + 1

/-- the Pauli a real uniform is mapped to (real copy of `Qec.Stream.pauliOf`) -/
noncomputable def pauliOfReal (cdf : List ℝ) (u : ℝ) : P1 := pauliOfIdx (choiceIdxR cdf u)

/-- one measurement flip from a real uniform (real copy of `Qec.Stream.flipOf`) -/
noncomputable def flipOfReal (cdf : List ℝ) (u : ℝ) : Bool := bitOfIdx (choiceIdxR cdf u)

/-- a rational cdf seen in ℝ -/
def castL (l : List ℚ) : List ℝ := l.map fun x => (x : ℝ)

@[simp] theorem castL_nil : castL [] = [] := rfl
@[simp] theorem castL_cons (c : ℚ) (cs : List ℚ) : castL (c :: cs) = (c : ℝ) :: castL cs := rfl

theorem choiceIdxR_ratCast (cdf : List ℚ) (u : ℚ) :
    choiceIdxR (castL cdf) (u : ℝ) = choiceIdx cdf u := by
  induction cdf with
  | nil => rfl
  | cons c cs ih =>
      simp only [castL_cons, choiceIdxR, choiceIdx, Rat.cast_lt, ih]

theorem pauliOfReal_ratCast' (cdf : List ℚ) (u : ℚ) :
    pauliOfReal (castL cdf) (u : ℝ) = pauliOf cdf u := by
  rw [pauliOfReal, pauliOf, choiceIdxR_ratCast]

theorem flipOfReal_ratCast' (cdf : List ℚ) (u : ℚ) :
    flipOfReal (castL cdf) (u : ℝ) = flipOf cdf u := by
  rw [flipOfReal, flipOf, choiceIdxR_ratCast]

/-! ### measurability -/

instance : MeasurableSpace P1 := ⊤
instance : DiscreteMeasurableSpace P1 := ⟨fun _ => trivial⟩

instance : Fintype P1 :=
  ⟨⟨{P1.I, P1.X, P1.Y, P1.Z}, by decide⟩, fun P => by cases P <;> decide⟩

theorem P1_univ : (Finset.univ : Finset P1) = {P1.I, P1.X, P1.Y, P1.Z} := rfl

theorem measurable_choiceIdxR (cdf : List ℝ) : Measurable (choiceIdxR cdf) := by
  induction cdf with
  | nil => exact measurable_const
  | cons c cs ih =>
      have : choiceIdxR (c :: cs) = fun u => if u < c then 0 else choiceIdxR cs u + 1 := by
        funext u; rfl
      rw [this]
      exact Measurable.ite measurableSet_Iio measurable_const
        ((measurable_from_top (f := fun k : ℕ => k + 1)).comp ih)

theorem measurable_pauliOfReal (cdf : List ℝ) : Measurable (pauliOfReal cdf) :=
  (measurable_from_top (f := pauliOfIdx)).comp (measurable_choiceIdxR cdf)

theorem measurable_flipOfReal (cdf : List ℝ) : Measurable (flipOfReal cdf) :=
  (measurable_from_top (f := bitOfIdx)).comp (measurable_choiceIdxR cdf)

/-! ### the uniform law on `[0,1)` and its finite powers -/

/-- Lebesgue measure restricted to `[0,1)`: the law of one uniform double in numpy's contract -/
noncomputable def uniform01 : Measure ℝ := volume.restrict (Ico 0 1)

/-- the law of a family of independent uniforms indexed by `ι`: the product measure on `[0,1)^ι` -/
noncomputable def uniformPi (ι : Type) [Fintype ι] : Measure (ι → ℝ) :=
  Measure.pi fun _ : ι => uniform01

theorem uniform01_apply (s : Set ℝ) : uniform01 s = volume (s ∩ Ico 0 1) :=
  Measure.restrict_apply' measurableSet_Ico

instance : IsProbabilityMeasure uniform01 :=
  ⟨by rw [uniform01_apply, univ_inter, Real.volume_Ico]; simp⟩

instance (ι : Type) [Fintype ι] : IsProbabilityMeasure (uniformPi ι) := by
  unfold uniformPi; infer_instance

theorem uniform01_of_inter_eq_Ico (s : Set ℝ) (a b : ℝ) (h : s ∩ Ico 0 1 = Ico a b) :
    uniform01 s = ENNReal.ofReal (b - a) := by
  rw [uniform01_apply, h, Real.volume_Ico]

/-- `uniformPi ι` is Lebesgue measure on `ι → ℝ` restricted to the unit box `[0,1)^ι` -/
theorem uniformPi_eq_restrict (ι : Type) [Fintype ι] :
    uniformPi ι = (volume : Measure (ι → ℝ)).restrict (Set.pi univ fun _ => Ico 0 1) := by
  rw [uniformPi, volume_pi, Measure.restrict_pi_pi]; rfl

/-- the box formula: prescribing an event on every coordinate multiplies the probabilities -/
theorem uniformPi_box {ι : Type} [Fintype ι] (A : ι → Set ℝ) :
    uniformPi ι {u | ∀ i, u i ∈ A i} = ∏ i, uniform01 (A i) := by
  have : {u : ι → ℝ | ∀ i, u i ∈ A i} = Set.pi univ A := by
    ext u; simp [Set.mem_pi]
  rw [this, uniformPi, Measure.pi_pi]

/-! ### the cells of the alphabets -/

/-- the four letters against any thresholds `c0 ≤ c1 ≤ c2` and `u < c3`
    (real copy of `Qec.C17.pauliOf_thresholds`) -/
theorem pauliOfReal_thresholds (c0 c1 c2 c3 u : ℝ) (h01 : c0 ≤ c1) (h12 : c1 ≤ c2) (hu : u < c3) :
    (pauliOfReal [c0, c1, c2, c3] u = P1.I ↔ u < c0) ∧
    (pauliOfReal [c0, c1, c2, c3] u = P1.X ↔ c0 ≤ u ∧ u < c1) ∧
    (pauliOfReal [c0, c1, c2, c3] u = P1.Y ↔ c1 ≤ u ∧ u < c2) ∧
    (pauliOfReal [c0, c1, c2, c3] u = P1.Z ↔ c2 ≤ u) := by
  simp only [pauliOfReal, choiceIdxR]
  by_cases a0 : u < c0
  · have a1 : u < c1 := by linarith
    have a2 : u < c2 := by linarith
    simp only [if_pos a0]
    refine ⟨by simp [pauliOfIdx, letters, a0], by simp [pauliOfIdx, letters]; intro; linarith,
      by simp [pauliOfIdx, letters]; intro; linarith, by simp [pauliOfIdx, letters]; linarith⟩
  · simp only [if_neg a0]
    have b0 : c0 ≤ u := not_lt.mp a0
    by_cases a1 : u < c1
    · have a2 : u < c2 := by linarith
      simp only [if_pos a1]
      refine ⟨by simp [pauliOfIdx, letters, a0], by simp [pauliOfIdx, letters, b0, a1],
        by simp [pauliOfIdx, letters]; intro; linarith, by simp [pauliOfIdx, letters]; linarith⟩
    · simp only [if_neg a1]
      have b1 : c1 ≤ u := not_lt.mp a1
      by_cases a2 : u < c2
      · simp only [if_pos a2]
        refine ⟨by simp [pauliOfIdx, letters, a0], by simp [pauliOfIdx, letters]; intro; linarith,
          by simp [pauliOfIdx, letters, b1, a2], by simp [pauliOfIdx, letters]; linarith⟩
      · simp only [if_neg a2, if_pos hu]
        have b2 : c2 ≤ u := not_lt.mp a2
        refine ⟨by simp [pauliOfIdx, letters, a0], by simp [pauliOfIdx, letters]; intro; linarith,
          by simp [pauliOfIdx, letters]; intro; linarith, by simp [pauliOfIdx, letters, b2]⟩

/-- lower end of the cell of a letter for thresholds `c0 ≤ c1 ≤ c2 ≤ 1` -/
def lo4 (c0 c1 c2 : ℝ) : P1 → ℝ
  | .I => 0 | .X => c0 | .Y => c1 | .Z => c2
/-- upper end of the cell of a letter for thresholds `c0 ≤ c1 ≤ c2 ≤ 1` -/
def hi4 (c0 c1 c2 : ℝ) : P1 → ℝ
  | .I => c0 | .X => c1 | .Y => c2 | .Z => 1

/-- inside `[0,1)` the preimage of a letter is exactly its half-open cell -/
theorem pauliOfReal_cell (c0 c1 c2 c3 : ℝ) (h0 : 0 ≤ c0) (h01 : c0 ≤ c1) (h12 : c1 ≤ c2)
    (h2 : c2 ≤ 1) (h3 : 1 ≤ c3) (P : P1) :
    {u | pauliOfReal [c0, c1, c2, c3] u = P} ∩ Ico 0 1 = Ico (lo4 c0 c1 c2 P) (hi4 c0 c1 c2 P) := by
  ext u
  simp only [mem_inter_iff, mem_ofPred_eq, mem_Ico]
  constructor
  · rintro ⟨hP, hu0, hu1⟩
    have T := pauliOfReal_thresholds c0 c1 c2 c3 u h01 h12 (lt_of_lt_of_le hu1 h3)
    cases P
    · exact ⟨hu0, T.1.mp hP⟩
    · exact T.2.1.mp hP
    · exact T.2.2.1.mp hP
    · exact ⟨T.2.2.2.mp hP, hu1⟩
  · intro hc
    have hu0 : 0 ≤ u := by
      cases P <;> simp only [lo4] at hc <;> linarith [hc.1]
    have hu1 : u < 1 := by
      cases P <;> simp only [hi4] at hc <;> linarith [hc.2]
    have T := pauliOfReal_thresholds c0 c1 c2 c3 u h01 h12 (lt_of_lt_of_le hu1 h3)
    refine ⟨?_, hu0, hu1⟩
    cases P
    · exact T.1.mpr hc.2
    · exact T.2.1.mpr hc
    · exact T.2.2.1.mpr hc
    · exact T.2.2.2.mpr hc.1

/-- one flip against two thresholds (real copy of `Qec.C17.flipOf_thresholds`) -/
theorem flipOfReal_thresholds (c0 c1 u : ℝ) (hu : u < c1) :
    flipOfReal [c0, c1] u = decide (c0 ≤ u) := by
  simp only [flipOfReal, choiceIdxR]
  by_cases a0 : u < c0
  · simp [if_pos a0, bitOfIdx, not_le.mpr a0]
  · simp [if_neg a0, if_pos hu, bitOfIdx, not_lt.mp a0]

/-- inside `[0,1)` the flip event is `[1-q, 1)` and the no-flip event is `[0, 1-q)` -/
theorem flipOfReal_cell (q c1 : ℝ) (hq0 : 0 ≤ q) (hq1 : q ≤ 1) (h1 : 1 ≤ c1) (b : Bool) :
    {u | flipOfReal [1 - q, c1] u = b} ∩ Ico 0 1
      = Ico (if b then 1 - q else 0) (if b then 1 else 1 - q) := by
  ext u
  simp only [mem_inter_iff, mem_ofPred_eq, mem_Ico]
  constructor
  · rintro ⟨hb, hu0, hu1⟩
    rw [flipOfReal_thresholds _ _ _ (lt_of_lt_of_le hu1 h1)] at hb
    cases b
    · simp only [decide_eq_false_iff_not, not_le] at hb
      simp only [Bool.false_eq_true, if_false]
      exact ⟨hu0, hb⟩
    · simp only [decide_eq_true_eq] at hb
      simp only [if_true]
      exact ⟨hb, hu1⟩
  · intro hc
    cases b
    · simp only [Bool.false_eq_true, if_false] at hc
      have hu1 : u < 1 := by linarith [hc.2]
      rw [flipOfReal_thresholds _ _ _ (lt_of_lt_of_le hu1 h1)]
      exact ⟨decide_eq_false (not_le.mpr hc.2), hc.1, hu1⟩
    · simp only [if_true] at hc
      have hu0 : 0 ≤ u := by linarith [hc.1]
      rw [flipOfReal_thresholds _ _ _ (lt_of_lt_of_le hc.2 h1)]
      exact ⟨decide_eq_true hc.1, hu0, hc.2⟩

/-! ### boxes over split index sets -/

/-- box formula on `Fin (n + m)`: events on the first `n` and on the last `m` coordinates -/
theorem uniformPi_box_add {n m : ℕ} (A : Fin n → Set ℝ) (B : Fin m → Set ℝ) :
    uniformPi (Fin (n + m))
        {u | (∀ i : Fin n, u (Fin.castAdd m i) ∈ A i) ∧ (∀ j : Fin m, u (Fin.natAdd n j) ∈ B j)}
      = (∏ i, uniform01 (A i)) * ∏ j, uniform01 (B j) := by
  have hset : {u : Fin (n + m) → ℝ |
        (∀ i : Fin n, u (Fin.castAdd m i) ∈ A i) ∧ (∀ j : Fin m, u (Fin.natAdd n j) ∈ B j)}
      = {u | ∀ k, u k ∈ (Fin.addCases (motive := fun _ => Set ℝ) A B k)} := by
    ext u
    simp only [mem_ofPred_eq]
    rw [Fin.forall_fin_add]
    simp only [Fin.addCases_left, Fin.addCases_right]
  rw [hset, uniformPi_box, Fin.prod_univ_add]
  simp only [Fin.addCases_left, Fin.addCases_right]

/-- box formula on a product index set -/
theorem uniformPi_box_prod {α β : Type} [Fintype α] [Fintype β] (A : α → β → Set ℝ) :
    uniformPi (α × β) {u | ∀ a b, u (a, b) ∈ A a b} = ∏ a, ∏ b, uniform01 (A a b) := by
  have hset : {u : α × β → ℝ | ∀ a b, u (a, b) ∈ A a b} = {u | ∀ k, u k ∈ A k.1 k.2} := by
    ext u
    simp only [mem_ofPred_eq]
    exact ⟨fun h k => h k.1 k.2, fun h a b => h (a, b)⟩
  rw [hset, uniformPi_box, Fintype.prod_prod_type]

/-! ### list events of the executable model as coordinate events -/

theorem map_range_eq_ofFn_iff {β : Type} (g : ℕ → β) (n : ℕ) (e : Fin n → β) :
    (List.range n).map g = List.ofFn e ↔ ∀ i : Fin n, g i = e i := by
  constructor
  · intro h i
    have h1 : ((List.range n).map g)[(i : ℕ)]? = some (g i) := by
      simp [i.isLt]
    rw [h, List.getElem?_ofFn] at h1
    simpa using h1.symm
  · intro h
    apply List.ext_getElem?
    intro i
    by_cases hi : i < n
    · rw [List.getElem?_ofFn]
      simp [hi, h ⟨i, hi⟩]
    · rw [List.getElem?_eq_none (by simp; omega), List.getElem?_eq_none (by simp; omega)]

theorem map_draws_eq_ofFn_iff {β : Type} (g : ℚ → β) (s : UStream) (pos n : ℕ) (e : Fin n → β) :
    (draws s pos n).map g = List.ofFn e ↔ ∀ i : Fin n, g (s (pos + i)) = e i := by
  constructor
  · intro h i
    have h1 : ((draws s pos n).map g)[(i : ℕ)]? = some (g (s (pos + i))) := by
      rw [List.getElem?_map, draws_getElem? s pos n i i.isLt]; rfl
    rw [h, List.getElem?_ofFn] at h1
    simpa using h1.symm
  · intro h
    apply List.ext_getElem?
    intro i
    by_cases hi : i < n
    · rw [List.getElem?_map, draws_getElem? s pos n i hi, List.getElem?_ofFn]
      simp [hi, h ⟨i, hi⟩]
    · rw [List.getElem?_eq_none (by simp [draws_length]; omega),
        List.getElem?_eq_none (by simp; omega)]

/-! ### the uniform law on the grid `{k / N | k < N}` (what a generator of doubles really draws
    from, `N = 2^53`) -/

open Classical in
/-- number of grid points `k / N`, `k < N`, that lie in `A` -/
noncomputable def gridCount (N : ℕ) (A : Set ℝ) : ℕ :=
  (Finset.univ.filter fun k : Fin N => (((k : ℕ) : ℝ) / N) ∈ A).card

open Classical in
theorem gridCount_of_inter_eq_Ico (N : ℕ) (hN : 0 < N) (A : Set ℝ) (a b : ℝ) (hb : b ≤ 1)
    (h : A ∩ Ico 0 1 = Ico a b) : gridCount N A = ⌈b * N⌉₊ - ⌈a * N⌉₊ := by
  have hNr : (0 : ℝ) < N := by exact_mod_cast hN
  have key : ∀ k : ℕ, k < N → ((((k : ℝ)) / N) ∈ A ↔ a ≤ (k : ℝ) / N ∧ (k : ℝ) / N < b) := by
    intro k hk
    have h01 : ((k : ℝ) / N) ∈ Ico (0 : ℝ) 1 :=
      ⟨by positivity, by rw [div_lt_one hNr]; exact_mod_cast hk⟩
    have := Set.ext_iff.mp h ((k : ℝ) / N)
    simp only [mem_inter_iff, h01, and_true] at this
    rw [this]; rfl
  have hmap : (Finset.univ.filter fun k : Fin N => (((k : ℕ) : ℝ) / N) ∈ A).map Fin.valEmbedding
      = Finset.Ico ⌈a * N⌉₊ ⌈b * N⌉₊ := by
    ext k
    simp only [Finset.mem_map, Finset.mem_filter, Finset.mem_univ, true_and, Fin.valEmbedding_apply,
      Finset.mem_Ico]
    constructor
    · rintro ⟨j, hA, rfl⟩
      obtain ⟨h1, h2⟩ := (key j j.isLt).mp hA
      rw [le_div_iff₀ hNr] at h1
      rw [div_lt_iff₀ hNr] at h2
      exact ⟨Nat.ceil_le.mpr h1, Nat.lt_ceil.mpr h2⟩
    · rintro ⟨h1, h2⟩
      have h1' := Nat.ceil_le.mp h1
      have h2' := Nat.lt_ceil.mp h2
      have hk : k < N := by
        have : (k : ℝ) < N := by nlinarith
        exact_mod_cast this
      exact ⟨⟨k, hk⟩, (key k hk).mpr ⟨(le_div_iff₀ hNr).mpr h1', (div_lt_iff₀ hNr).mpr h2'⟩, rfl⟩
  rw [gridCount, ← Finset.card_map Fin.valEmbedding, hmap, Nat.card_Ico]

/-- the grid frequency of a cell `[a, b) ⊆ [0,1)` differs from its length by less than `1/N` -/
theorem gridCount_error (N : ℕ) (hN : 0 < N) (A : Set ℝ) (a b : ℝ) (ha : 0 ≤ a) (hab : a ≤ b)
    (hb : b ≤ 1) (h : A ∩ Ico 0 1 = Ico a b) :
    |(gridCount N A : ℝ) / N - (b - a)| < 1 / N := by
  have hNr : (0 : ℝ) < N := by exact_mod_cast hN
  rw [gridCount_of_inter_eq_Ico N hN A a b hb h]
  have haN : 0 ≤ a * N := by positivity
  have hbN : 0 ≤ b * N := by nlinarith
  have hle : ⌈a * N⌉₊ ≤ ⌈b * N⌉₊ := Nat.ceil_mono (by nlinarith)
  rw [Nat.cast_sub hle]
  have a1 := Nat.le_ceil (a * N)
  have a2 := Nat.ceil_lt_add_one haN
  have b1 := Nat.le_ceil (b * N)
  have b2 := Nat.ceil_lt_add_one hbN
  rw [show ((⌈b * N⌉₊ : ℝ) - ⌈a * N⌉₊) / N - (b - a)
        = (((⌈b * N⌉₊ : ℝ) - b * N) - ((⌈a * N⌉₊ : ℝ) - a * N)) / N by field_simp; ring,
    abs_div, abs_of_pos hNr, div_lt_div_iff_of_pos_right hNr, abs_lt]
  constructor <;> linarith

/-- the grid frequency is exactly the length when the end points are grid points -/
theorem gridCount_exact (N : ℕ) (hN : 0 < N) (A : Set ℝ) (ka kb : ℕ) (hb : kb ≤ N)
    (h : A ∩ Ico 0 1 = Ico ((ka : ℝ) / N) ((kb : ℝ) / N)) : gridCount N A = kb - ka := by
  have hNr : (0 : ℝ) < N := by exact_mod_cast hN
  have hb1 : (kb : ℝ) / N ≤ 1 := by rw [div_le_one hNr]; exact_mod_cast hb
  rw [gridCount_of_inter_eq_Ico N hN A _ _ hb1 h, div_mul_cancel₀ _ hNr.ne', div_mul_cancel₀ _ hNr.ne',
    Nat.ceil_natCast, Nat.ceil_natCast]

open Classical in
/-- on the grid the coordinates are exactly independent: the number of grid points of `[0,1)^ι` in
    a box is the product of the numbers of grid points in its sides -/
theorem grid_box_count {ι : Type} [Fintype ι] [DecidableEq ι] (N : ℕ) (A : ι → Set ℝ) :
    (Finset.univ.filter fun k : ι → Fin N => ∀ i, ((((k i : Fin N) : ℕ) : ℝ) / N) ∈ A i).card
      = ∏ i, gridCount N (A i) := by
  have : (Finset.univ.filter fun k : ι → Fin N => ∀ i, ((((k i : Fin N) : ℕ) : ℝ) / N) ∈ A i)
      = Fintype.piFinset fun i => Finset.univ.filter fun k : Fin N => (((k : ℕ) : ℝ) / N) ∈ A i := by
    ext k
    simp [Fintype.mem_piFinset]
  rw [this, Fintype.card_piFinset]
  rfl

end Qec.StreamMeasure
