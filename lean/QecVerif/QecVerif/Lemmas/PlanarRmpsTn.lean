/-
  C10 — the planar ROTATED MPS decoder's network (`Model/PlanarRmpsTn.lean`): geometry of the rotated grid (which cells
  hold a tensor, leg dimensions, C11 compatibility, padding), and the fact that the diagonal logicals of
  `_coset_probabilities` change the network only inside the column (row) range `[left_stop, right_stop]`.
  Helper lemmas for Props/C10/PlanarRmpsNetwork.lean.
-/
import QecVerif.Model.PlanarRmpsTn
import QecVerif.Lemmas.OptContract
import QecVerif.Lemmas.Lattice.PlanarCode
namespace Qec.PlanarRmpsLemmas
open Qec Qec.Tensor Qec.TensorAlg Qec.TensorBridge Qec.TensorExact Qec.TensorPad Qec.Coset
open Qec.PlanarTn (RowDir ColDir rowDir colDir nodeShape hNodeValue vNodeValue)
open Qec.PlanarRmpsTn

/-- network height / width minus one -/
def K (R C : Int) : ℕ := (R + C - 2).toNat

/-- lattice row / column of the qubit stored at cell `(a, b)` -/
def lr (R : Int) (a b : ℕ) : Int := (a : Int) - (b : Int) + (R - 1)
def lc (R : Int) (a b : ℕ) : Int := (a : Int) + (b : Int) - (R - 1)

/-- the cell holds a tensor -/
def Pres (R C : Int) (a b : ℕ) : Prop :=
  0 ≤ lr R a b ∧ lr R a b ≤ 2 * R - 2 ∧ 0 ≤ lc R a b ∧ lc R a b ≤ 2 * C - 2

instance (R C : Int) (a b : ℕ) : Decidable (Pres R C a b) := by unfold Pres; infer_instance

theorem inBounds_unrotate (R C : Int) (a b : ℕ) :
    Planar.inBounds R C (unrotate R a b).1 (unrotate R a b).2 = true ↔ Pres R C a b := by
  rw [PlanarCode.inBounds_iff]; rfl

/-- leg dimensions of the cell `(a, b)` -/
def DN (R C : Int) (a b : ℕ) : ℕ := if Pres R C a b ∧ 0 < lr R a b ∧ 0 < lc R a b then 4 else 1
def DE (R C : Int) (a b : ℕ) : ℕ := if Pres R C a b ∧ 0 < lr R a b ∧ lc R a b < 2 * C - 2 then 4 else 1
def DS (R C : Int) (a b : ℕ) : ℕ := if Pres R C a b ∧ lr R a b < 2 * R - 2 ∧ lc R a b < 2 * C - 2 then 4 else 1
def DW (R C : Int) (a b : ℕ) : ℕ := if Pres R C a b ∧ lr R a b < 2 * R - 2 ∧ 0 < lc R a b then 4 else 1

theorem nrows_rmpsTn (R C : Int) (d : Dist Int) (f : BVec) (hR : 2 ≤ R) (hC : 2 ≤ C) :
    (rmpsTn R C d f).nrows = K R C + 1 := by
  unfold rmpsTn K; simp only; omega

theorem ncols_rmpsTn (R C : Int) (d : Dist Int) (f : BVec) (hR : 2 ≤ R) (hC : 2 ≤ C) :
    (rmpsTn R C d f).ncols = K R C + 1 := by
  unfold rmpsTn K; simp only; omega

theorem site_rmpsTn (R C : Int) (d : Dist Int) (f : BVec) (hR : 2 ≤ R) (hC : 2 ≤ C) (a b : ℕ) (ha : a ≤ K R C)
    (hb : b ≤ K R C) : (rmpsTn R C d f).site a b = siteAt R C d f a b := by
  have e : (R + C - 1).toNat = K R C + 1 := by unfold K; omega
  unfold rmpsTn Net.site
  simp only [e]
  have hlt : a * (K R C + 1) + b < (K R C + 1) * (K R C + 1) := by
    have : a * (K R C + 1) + (K R C + 1) ≤ (K R C + 1) * (K R C + 1) := by
      rw [← Nat.succ_mul]; exact Nat.mul_le_mul_right _ (by omega)
    omega
  simp only [Array.getD, Array.size_ofFn, Array.getInternal_eq_getElem, Array.getElem_ofFn]
  rw [decode_div _ _ _ (by omega), decode_mod _ _ _ (by omega), dif_pos (by rw [e]; exact hlt)]

/-! ### leg dimensions -/

theorem hNode_dims (d : Dist Int) (op : P1) (rd : RowDir) (cd : ColDir) :
    (hNode d op rd cd).n = (if rd ≠ .n ∧ cd ≠ .w then 4 else 1) ∧
    (hNode d op rd cd).e = (if rd ≠ .n ∧ cd ≠ .e then 4 else 1) ∧
    (hNode d op rd cd).s = (if rd ≠ .s ∧ cd ≠ .e then 4 else 1) ∧
    (hNode d op rd cd).w = (if rd ≠ .s ∧ cd ≠ .w then 4 else 1) := by
  cases rd <;> cases cd <;> exact ⟨rfl, rfl, rfl, rfl⟩

theorem vNode_dims (d : Dist Int) (op : P1) :
    (vNode d op).n = 4 ∧ (vNode d op).e = 4 ∧ (vNode d op).s = 4 ∧ (vNode d op).w = 4 := ⟨rfl, rfl, rfl, rfl⟩

theorem rowDir_n (R : Int) (hR : 2 ≤ R) (r : ℕ) : rowDir (2 * R - 1).toNat r = .n ↔ r = 0 := by
  unfold rowDir
  split_ifs with h1 h2 <;> simp <;> omega

theorem rowDir_s (R : Int) (hR : 2 ≤ R) (r : ℕ) : rowDir (2 * R - 1).toNat r = .s ↔ (r : Int) = 2 * R - 2 := by
  unfold rowDir
  split_ifs with h1 h2 <;> simp <;> omega

theorem colDir_w (C : Int) (hC : 2 ≤ C) (c : ℕ) : colDir (2 * C - 1).toNat c = .w ↔ c = 0 := by
  unfold colDir
  split_ifs with h1 h2 <;> simp <;> omega

theorem colDir_e (C : Int) (hC : 2 ≤ C) (c : ℕ) : colDir (2 * C - 1).toNat c = .e ↔ (c : Int) = 2 * C - 2 := by
  unfold colDir
  split_ifs with h1 h2 <;> simp <;> omega

theorem siteAt_none (R C : Int) (d : Dist Int) (f : BVec) (a b : ℕ) (h : ¬ Pres R C a b) :
    siteAt R C d f a b = none := by
  unfold siteAt
  simp only
  rw [if_neg (by rw [inBounds_unrotate]; exact h)]

theorem siteAt_isSome (R C : Int) (d : Dist Int) (f : BVec) (a b : ℕ) :
    (siteAt R C d f a b).isSome = true ↔ Pres R C a b := by
  by_cases h : Pres R C a b
  · simp only [h, iff_true]
    unfold siteAt
    simp only
    rw [if_pos ((inBounds_unrotate R C a b).mpr h)]
    split_ifs <;> rfl
  · simp [siteAt_none R C d f a b h, h]

theorem siteT_dims (R C : Int) (d : Dist Int) (f : BVec) (hR : 2 ≤ R) (hC : 2 ≤ C) (a b : ℕ) :
    (siteT (siteAt R C d f a b)).n = DN R C a b ∧ (siteT (siteAt R C d f a b)).e = DE R C a b ∧
    (siteT (siteAt R C d f a b)).s = DS R C a b ∧ (siteT (siteAt R C d f a b)).w = DW R C a b := by
  by_cases h : Pres R C a b
  · obtain ⟨h1, h2, h3, h4⟩ := h
    have hp : Pres R C a b := ⟨h1, h2, h3, h4⟩
    unfold siteAt
    simp only
    rw [if_pos ((inBounds_unrotate R C a b).mpr hp)]
    have er : ((unrotate R a b).1.toNat : Int) = lr R a b := by
      show (((a : Int) - (b : Int) + (R - 1)).toNat : Int) = lr R a b; unfold lr at *; omega
    have ec : ((unrotate R a b).2.toNat : Int) = lc R a b := by
      show (((a : Int) + (b : Int) - (R - 1)).toNat : Int) = lc R a b; unfold lc at *; omega
    by_cases hpar : (unrotate R a b).1.toNat % 2 = 0
    · rw [if_pos hpar]
      simp only [siteT, Option.getD_some]
      obtain ⟨e1, e2, e3, e4⟩ := hNode_dims d (Planar.operatorAt R C f (unrotate R a b).1 (unrotate R a b).2)
        (rowDir (2 * R - 1).toNat (unrotate R a b).1.toNat) (colDir (2 * C - 1).toNat (unrotate R a b).2.toNat)
      rw [e1, e2, e3, e4]
      simp only [ne_eq, rowDir_n R hR, rowDir_s R hR, colDir_w C hC, colDir_e C hC, DN, DE, DS, DW, hp, true_and]
      refine ⟨?_, ?_, ?_, ?_⟩ <;> apply if_congr _ rfl rfl <;> omega
    · rw [if_neg hpar]
      simp only [siteT, Option.getD_some]
      obtain ⟨e1, e2, e3, e4⟩ := vNode_dims d (Planar.operatorAt R C f (unrotate R a b).1 (unrotate R a b).2)
      rw [e1, e2, e3, e4]
      -- an odd row index has an odd column index (`lr + lc = 2a`), so the qubit is in the bulk
      have hsum : lr R a b + lc R a b = 2 * (a : Int) := by unfold lr lc; omega
      simp only [DN, DE, DS, DW, hp, true_and]
      refine ⟨?_, ?_, ?_, ?_⟩ <;> rw [if_pos (by omega)]
  · rw [siteAt_none R C d f a b h]
    simp only [DN, DE, DS, DW, h, false_and, if_false]
    exact ⟨rfl, rfl, rfl, rfl⟩

theorem netF_dims (R C : Int) (d : Dist Int) (f : BVec) (hR : 2 ≤ R) (hC : 2 ≤ C) (a b : ℕ) (ha : a ≤ K R C)
    (hb : b ≤ K R C) :
    (netF (rmpsTn R C d f) a b).n = DN R C a b ∧ (netF (rmpsTn R C d f) a b).e = DE R C a b ∧
    (netF (rmpsTn R C d f) a b).s = DS R C a b ∧ (netF (rmpsTn R C d f) a b).w = DW R C a b := by
  unfold netF
  rw [site_rmpsTn R C d f hR hC a b ha hb]
  exact siteT_dims R C d f hR hC a b

/-! ### C11 compatibility and padding -/

theorem compat_rmpsTn (R C : Int) (d : Dist Int) (f : BVec) (hR : 2 ≤ R) (hC : 2 ≤ C) :
    Compat (rmpsTn R C d f) (K R C) (K R C) := by
  have hK : (K R C : Int) = R + C - 2 := by unfold K; omega
  refine ⟨nrows_rmpsTn R C d f hR hC, ncols_rmpsTn R C d f hR hC, ⟨fun a b ha hb => ?_, fun a b ha hb => ?_⟩,
    fun a ha => ?_, fun b hb => ?_, fun a ha => ?_, fun b hb => ?_⟩
  · rw [(netF_dims R C d f hR hC a b (by omega) hb).2.2.1, (netF_dims R C d f hR hC (a + 1) b (by omega) hb).1]
    unfold DS DN Pres lr lc
    apply if_congr _ rfl rfl
    push_cast; omega
  · rw [(netF_dims R C d f hR hC a b ha (by omega)).2.1, (netF_dims R C d f hR hC a (b + 1) ha (by omega)).2.2.2]
    unfold DE DW Pres lr lc
    apply if_congr _ rfl rfl
    push_cast; omega
  · rw [(netF_dims R C d f hR hC a 0 ha (by omega)).2.2.2]
    unfold DW Pres lr lc
    rw [if_neg (by push_cast; omega)]
  · rw [(netF_dims R C d f hR hC 0 b (by omega) hb).1]
    unfold DN Pres lr lc
    rw [if_neg (by push_cast; omega)]
  · rw [(netF_dims R C d f hR hC a (K R C) ha (le_refl _)).2.1]
    unfold DE Pres lr lc
    rw [if_neg (by omega)]
  · rw [(netF_dims R C d f hR hC (K R C) b (le_refl _) hb).2.2.1]
    unfold DS Pres lr lc
    rw [if_neg (by omega)]

/-- `Compat` implies the executable check `compatible` (so `exactValue` is defined) -/
theorem compatible_of_compat (tn : Net) (m n : ℕ) (hc : Compat tn m n) : compatible tn = true := by
  simp only [compatible, Bool.and_eq_true, decide_eq_true_eq, List.all_eq_true, List.mem_range, Bool.or_eq_true,
    beq_iff_eq, hc.nrows, hc.ncols]
  refine ⟨⟨by omega, by omega⟩, fun r hr c hcc => ⟨⟨⟨?_, ?_⟩, ?_⟩, ?_⟩⟩
  · by_cases h0 : c = 0
    · subst h0; rw [if_pos rfl]; exact hc.west r (by omega)
    · rw [if_neg h0]
      have := hc.ok.horiz r (c - 1) (by omega) (by omega)
      rw [Nat.sub_add_cancel (by omega)] at this
      exact this.symm
  · by_cases h0 : r = 0
    · subst h0; rw [if_pos rfl]; exact hc.north c (by omega)
    · rw [if_neg h0]
      have := hc.ok.vert (r - 1) c (by omega) (by omega)
      rw [Nat.sub_add_cancel (by omega)] at this
      exact this.symm
  · by_cases h : c = n
    · subst h; exact Or.inr (hc.east r (by omega))
    · exact Or.inl (by omega)
  · by_cases h : r = m
    · subst h; exact Or.inr (hc.south c (by omega))
    · exact Or.inl (by omega)

theorem isSome_rmpsTn (R C : Int) (d : Dist Int) (f : BVec) (hR : 2 ≤ R) (hC : 2 ≤ C) (a b : ℕ) (ha : a ≤ K R C)
    (hb : b ≤ K R C) : ((rmpsTn R C d f).site a b).isSome = true ↔ Pres R C a b := by
  rw [site_rmpsTn R C d f hR hC a b ha hb]; exact siteAt_isSome R C d f a b

/-- every row of the rotated network holds a tensor -/
theorem padded_rmpsTn (R C : Int) (d : Dist Int) (f : BVec) (hR : 2 ≤ R) (hC : 2 ≤ C) :
    PaddedRows (rmpsTn R C d f) := by
  have hK : (K R C : Int) = R + C - 2 := by unfold K; omega
  refine ⟨0, (rmpsTn R C d f).nrows, by rw [nrows_rmpsTn R C d f hR hC]; omega, le_refl _, fun a ha => ?_⟩
  rw [nrows_rmpsTn R C d f hR hC] at ha
  refine ⟨fun _ => ⟨Nat.zero_le _, by rw [nrows_rmpsTn R C d f hR hC]; exact ha⟩, fun _ => ?_⟩
  rw [ncols_rmpsTn R C d f hR hC]
  by_cases h : (a : Int) ≤ R - 1
  · refine ⟨(R - 1 - (a : Int)).toNat, by omega, ?_⟩
    rw [isSome_rmpsTn R C d f hR hC a _ (by omega) (by omega)]
    unfold Pres lr lc
    omega
  · refine ⟨((a : Int) - (R - 1)).toNat, by omega, ?_⟩
    rw [isSome_rmpsTn R C d f hR hC a _ (by omega) (by omega)]
    unfold Pres lr lc
    omega

/-- every column of the rotated network holds a tensor -/
theorem padded_rmpsTn_transpose (R C : Int) (d : Dist Int) (f : BVec) (hR : 2 ≤ R) (hC : 2 ≤ C) :
    PaddedRows (rmpsTn R C d f).transpose := by
  have hK : (K R C : Int) = R + C - 2 := by unfold K; omega
  have hnr := nrows_rmpsTn R C d f hR hC
  have hnc := ncols_rmpsTn R C d f hR hC
  refine ⟨0, (rmpsTn R C d f).transpose.nrows, by show 0 < (rmpsTn R C d f).ncols; rw [hnc]; omega, le_refl _,
    fun b hb => ?_⟩
  have hb' : b < K R C + 1 := by rw [← hnc]; exact hb
  refine ⟨fun _ => ⟨Nat.zero_le _, hb⟩, fun _ => ?_⟩
  show ∃ a < (rmpsTn R C d f).nrows, _
  rw [hnr]
  have key : ∀ a, a ≤ K R C → Pres R C a b → ((rmpsTn R C d f).transpose.site b a).isSome = true := by
    intro a ha hp
    rw [transpose_site _ a b (by rw [hnr]; omega) (by rw [hnc]; omega), Option.isSome_map]
    exact (isSome_rmpsTn R C d f hR hC a b ha (by omega)).mpr hp
  by_cases h : (b : Int) ≤ R - 1
  · refine ⟨(R - 1 - (b : Int)).toNat, by omega, key _ (by omega) ?_⟩
    unfold Pres lr lc
    omega
  · refine ⟨((b : Int) - (R - 1)).toNat, by omega, key _ (by omega) ?_⟩
    unfold Pres lr lc
    omega

/-! ### the diagonal logicals change the network only inside `[left_stop, right_stop]` -/

open Qec.Symp Qec.PlanarCode in
theorem operatorAt_sites_notin (R C : Int) (hR : 2 ≤ R) (hC : 2 ≤ C) (z : Bool) (f : BVec)
    (hf : f.length = 2 * nq R C) (l : List (Int × Int)) (hl : AllSites l) (s : Int × Int)
    (h2 : (s.1 + s.2) % 2 = 0) (b2 : Planar.inBounds R C s.1 s.2 = true) (hs : s ∉ l) :
    Planar.operatorAt R C (Planar.sites R C (opOf z) f l) s.1 s.2 = Planar.operatorAt R C f s.1 s.2 := by
  rw [operatorAt_eq, operatorAt_eq, sites_eq_gsites]
  have hfl := flatLt_of_allSites R C hR hC l hl
  have hlt := fl_lt R C hR hC s h2 b2
  have key : ∀ j, (j = fl R C s ∨ j = nq R C + fl R C s) →
      xorSum l (fun i => dom R C i && decide (off (nq R C) z + fl R C i = j)) = false := by
    intro j hj
    apply xorSum_false
    intro i hi
    by_cases hb : dom R C i = true
    · have hilt := hfl i hi hb
      have hne : ¬ (fl R C i = fl R C s) := fun h => hs (by
        rw [← fl_inj R C s i h2 b2 (hl i hi) hb h hR hC]; exact hi)
      have : ¬ (off (nq R C) z + fl R C i = j) := by
        cases z <;> simp only [off, if_true, if_false, Bool.false_eq_true] <;> omega
      simp [this]
    · simp [hb]
  rw [getD_gsites (nq R C) (dom R C) (fl R C) z f hf l hfl, getD_gsites (nq R C) (dom R C) (fl R C) z f hf l hfl,
    key _ (Or.inl rfl), key _ (Or.inr rfl), Bool.xor_false, Bool.xor_false]

theorem siteAt_sites (R C : Int) (d : Dist Int) (hR : 2 ≤ R) (hC : 2 ≤ C) (z : Bool) (f : BVec)
    (hf : f.length = 2 * PlanarCode.nq R C) (l : List (Int × Int)) (hl : PlanarCode.AllSites l) (a b : ℕ)
    (hnot : (lr R a b, lc R a b) ∉ l) :
    siteAt R C d (Planar.sites R C (Symp.opOf z) f l) a b = siteAt R C d f a b := by
  unfold siteAt
  simp only
  by_cases hin : Planar.inBounds R C (unrotate R a b).1 (unrotate R a b).2 = true
  · have hpar : ((unrotate R a b).1 + (unrotate R a b).2) % 2 = 0 := by
      show ((a : Int) - (b : Int) + (R - 1) + ((a : Int) + (b : Int) - (R - 1))) % 2 = 0
      omega
    rw [operatorAt_sites_notin R C hR hC z f hf l hl (unrotate R a b) hpar hin hnot]
  · rw [if_neg hin, if_neg hin]

theorem mem_pyRange2 (a b x : Int) (h : x ∈ pyRange a b 2) : ∃ i : ℕ, x = a + 2 * (i : Int) ∧ x < b := by
  unfold pyRange at h
  simp only [show (2 : Int) > 0 by decide, if_true] at h
  obtain ⟨i, hi, rfl⟩ := List.mem_map.mp h
  have hi := List.mem_range.mp hi
  refine ⟨i, by omega, ?_⟩
  split_ifs at hi with hab
  · omega
  · simp at hi

/-- where the sites of the diagonal logicals lie: on the columns (major) / rows (minor) `min-1 … max-1` of the rotated
    network -/
def InRange (R C : Int) (major : Bool) (rc : Int × Int) : Prop :=
  (rc.1 + rc.2) % 2 = 0 ∧
  if major then 2 * (min R C - 1) ≤ rc.2 - rc.1 + 2 * R - 2 ∧ rc.2 - rc.1 + 2 * R - 2 ≤ 2 * (max R C - 1)
  else 2 * (min R C - 1) ≤ rc.1 + rc.2 ∧ rc.1 + rc.2 ≤ 2 * (max R C - 1)

theorem diagSites_mem (R C : Int) (rc : Int × Int) (h : rc ∈ diagSites R C) :
    rc.1 = rc.2 ∧ 0 ≤ rc.1 ∧ rc.1 ≤ 2 * R - 2 ∧ rc.1 ≤ 2 * C - 2 := by
  unfold diagSites Planar.maxRow Planar.maxCol at h
  obtain ⟨i, hi, rfl⟩ := List.mem_map.mp h
  have hi := List.mem_range.mp hi
  refine ⟨rfl, ?_, ?_, ?_⟩ <;> simp only <;> omega

theorem logicalXSites_range (R C : Int) (hR : 2 ≤ R) (hC : 2 ≤ C) (major : Bool) :
    ∀ rc ∈ logicalXSites R C major, InRange R C major rc := by
  intro rc h
  unfold logicalXSites flipMinor at h
  have base : ∀ q ∈ diagSites R C ++ (pyRange (Planar.maxCol C + 2) (Planar.maxRow R + 1) 2).map
      (fun r => (r, Planar.maxCol C)),
      (q.1 + q.2) % 2 = 0 ∧ 0 ≤ q.1 ∧ q.1 ≤ 2 * R - 2 ∧
        2 * (min R C - 1) ≤ q.2 - q.1 + 2 * R - 2 ∧ q.2 - q.1 + 2 * R - 2 ≤ 2 * (max R C - 1) := by
    intro q hq
    rcases List.mem_append.mp hq with hq | hq
    · have := diagSites_mem R C q hq
      omega
    · obtain ⟨r, hr, rfl⟩ := List.mem_map.mp hq
      obtain ⟨i, rfl, hlt⟩ := mem_pyRange2 _ _ _ hr
      unfold Planar.maxCol Planar.maxRow at *
      simp only
      omega
  cases major
  · simp only [Bool.false_eq_true, if_false] at h
    obtain ⟨q, hq, rfl⟩ := List.mem_map.mp h
    have := base q hq
    unfold InRange Planar.maxRow
    simp only [Bool.false_eq_true, if_false]
    omega
  · simp only [if_true] at h
    have := base rc h
    unfold InRange
    simp only [if_true]
    omega

theorem logicalZSites_range (R C : Int) (hR : 2 ≤ R) (hC : 2 ≤ C) (major : Bool) :
    ∀ rc ∈ logicalZSites R C major, InRange R C major rc := by
  intro rc h
  unfold logicalZSites flipMinor at h
  have base : ∀ q ∈ diagSites R C ++ (pyRange (Planar.maxRow R + 2) (Planar.maxCol C + 1) 2).map
      (fun c => (Planar.maxRow R, c)),
      (q.1 + q.2) % 2 = 0 ∧ 0 ≤ q.1 ∧ q.1 ≤ 2 * R - 2 ∧
        2 * (min R C - 1) ≤ q.2 - q.1 + 2 * R - 2 ∧ q.2 - q.1 + 2 * R - 2 ≤ 2 * (max R C - 1) := by
    intro q hq
    rcases List.mem_append.mp hq with hq | hq
    · have := diagSites_mem R C q hq
      omega
    · obtain ⟨r, hr, rfl⟩ := List.mem_map.mp hq
      obtain ⟨i, rfl, hlt⟩ := mem_pyRange2 _ _ _ hr
      unfold Planar.maxCol Planar.maxRow at *
      simp only
      omega
  cases major
  · simp only [Bool.false_eq_true, if_false] at h
    obtain ⟨q, hq, rfl⟩ := List.mem_map.mp h
    have := base q hq
    unfold InRange Planar.maxRow
    simp only [Bool.false_eq_true, if_false]
    omega
  · simp only [if_true] at h
    have := base rc h
    unfold InRange
    simp only [if_true]
    omega

/-- the cell `(a, b)` lies outside the column (major) / row (minor) range `min-1 … max-1` -/
def Outside (R C : Int) (major : Bool) (a b : ℕ) : Prop :=
  if major then (b : Int) < min R C - 1 ∨ max R C - 1 < (b : Int)
  else (a : Int) < min R C - 1 ∨ max R C - 1 < (a : Int)

theorem notin_of_outside (R C : Int) (major : Bool) (l : List (Int × Int)) (hl : ∀ rc ∈ l, InRange R C major rc)
    (a b : ℕ) (ho : Outside R C major a b) : (lr R a b, lc R a b) ∉ l := by
  intro hmem
  have := (hl _ hmem).2
  unfold Outside at ho
  unfold lr lc at this
  cases major
  · simp only [Bool.false_eq_true, if_false] at this ho; omega
  · simp only [if_true] at this ho; omega

/-- every sample of `samples4` gives the same cells as `f` outside the range -/
theorem siteAt_samples4 (R C : Int) (d : Dist Int) (hR : 2 ≤ R) (hC : 2 ≤ C) (major : Bool) (f : BVec)
    (hf : f.length = 2 * (Planar.nQubits R C).toNat) (g : BVec) (hg : g ∈ samples4 R C major f) (a b : ℕ)
    (ho : Outside R C major a b) :
    g.length = f.length ∧ siteAt R C d g a b = siteAt R C d f a b := by
  have hX := logicalXSites_range R C hR hC major
  have hZ := logicalZSites_range R C hR hC major
  have aX : PlanarCode.AllSites (logicalXSites R C major) := fun rc h => (hX rc h).1
  have aZ : PlanarCode.AllSites (logicalZSites R C major) := fun rc h => (hZ rc h).1
  have nX := notin_of_outside R C major _ hX a b ho
  have nZ := notin_of_outside R C major _ hZ a b ho
  have eX : ∀ v, v.length = 2 * PlanarCode.nq R C →
      siteAt R C d (applyLogicalX R C major v) a b = siteAt R C d v a b :=
    fun v hv => siteAt_sites R C d hR hC false v hv _ aX a b nX
  have eZ : ∀ v, v.length = 2 * PlanarCode.nq R C →
      siteAt R C d (applyLogicalZ R C major v) a b = siteAt R C d v a b :=
    fun v hv => siteAt_sites R C d hR hC true v hv _ aZ a b nZ
  have lX : ∀ v, (applyLogicalX R C major v).length = v.length := fun v => PlanarCode.sites_length _ _ _ _ _
  have lZ : ∀ v, (applyLogicalZ R C major v).length = v.length := fun v => PlanarCode.sites_length _ _ _ _ _
  have hf' : f.length = 2 * PlanarCode.nq R C := hf
  unfold samples4 at hg
  simp only [List.mem_cons, List.not_mem_nil, or_false] at hg
  rcases hg with rfl | rfl | rfl | rfl
  · exact ⟨rfl, rfl⟩
  · exact ⟨lX f, eX f hf'⟩
  · exact ⟨by rw [lZ, lX], by rw [eZ _ (by rw [lX]; exact hf'), eX f hf']⟩
  · exact ⟨lZ f, eZ f hf'⟩

/-! ### the four networks of one contraction mode satisfy the hypotheses of `OptContract.optimized_exact` -/

/-- the network of sample `g` as the mode contracts it -/
def modeTn (R C : Int) (d : Dist Int) (major : Bool) (g : BVec) : Net :=
  if major then rmpsTn R C d g else (rmpsTn R C d g).transpose

theorem tns4_eq (R C : Int) (d : Dist Int) (major : Bool) (f : BVec) :
    tns4 R C d major f = modeTn R C d major f ::
      [applyLogicalX R C major f, applyLogicalZ R C major (applyLogicalX R C major f),
        applyLogicalZ R C major f].map (modeTn R C d major) := rfl

theorem tns4_eq_map (R C : Int) (d : Dist Int) (major : Bool) (f : BVec) :
    tns4 R C d major f = (samples4 R C major f).map (modeTn R C d major) := rfl

/-- `left_stop - 1`, the number of middle columns, and the number of ket columns minus one -/
def pa (R C : Int) : ℕ := (min R C - 2).toNat
def pw (R C : Int) : ℕ := (max R C - min R C + 1).toNat

theorem K_split (R C : Int) (hR : 2 ≤ R) (hC : 2 ≤ C) : K R C = pa R C + pw R C + 1 + pa R C := by
  unfold K pa pw; omega

theorem compat_modeTn (R C : Int) (d : Dist Int) (major : Bool) (g : BVec) (hR : 2 ≤ R) (hC : 2 ≤ C) :
    Compat (modeTn R C d major g) (K R C) (K R C) := by
  unfold modeTn
  cases major
  · exact compat_transpose _ _ _ (compat_rmpsTn R C d g hR hC)
  · exact compat_rmpsTn R C d g hR hC

theorem padded_modeTn (R C : Int) (d : Dist Int) (major : Bool) (g : BVec) (hR : 2 ≤ R) (hC : 2 ≤ C) :
    PaddedRows (modeTn R C d major g) := by
  unfold modeTn
  cases major
  · exact padded_rmpsTn_transpose R C d g hR hC
  · exact padded_rmpsTn R C d g hR hC

theorem col_modeTn_agree (R C : Int) (d : Dist Int) (hR : 2 ≤ R) (hC : 2 ≤ C) (major : Bool) (f : BVec)
    (hf : f.length = 2 * (Planar.nQubits R C).toNat) (g : BVec) (hg : g ∈ samples4 R C major f) (c : ℕ)
    (hc : c ≤ pa R C ∨ pa R C + pw R C < c) (hcK : c ≤ K R C) :
    (modeTn R C d major f).col c = (modeTn R C d major g).col c := by
  have hout : ∀ x : ℕ, Outside R C major (if major then x else c) (if major then c else x) := by
    intro x
    unfold Outside pa pw at *
    cases major
    · simp only [Bool.false_eq_true, if_false]; omega
    · simp only [if_true]; omega
  unfold modeTn Net.col
  cases major
  · simp only [Bool.false_eq_true, if_false]
    show List.map _ (List.range (rmpsTn R C d f).ncols) = List.map _ (List.range (rmpsTn R C d g).ncols)
    rw [ncols_rmpsTn R C d f hR hC, ncols_rmpsTn R C d g hR hC]
    apply List.map_congr_left
    intro r hr
    have hr := List.mem_range.mp hr
    rw [transpose_site _ c r (by rw [nrows_rmpsTn R C d f hR hC]; omega) (by rw [ncols_rmpsTn R C d f hR hC]; omega),
      transpose_site _ c r (by rw [nrows_rmpsTn R C d g hR hC]; omega) (by rw [ncols_rmpsTn R C d g hR hC]; omega),
      site_rmpsTn R C d f hR hC c r hcK (by omega), site_rmpsTn R C d g hR hC c r hcK (by omega)]
    have := hout r
    simp only [Bool.false_eq_true, if_false] at this
    rw [(siteAt_samples4 R C d hR hC false f hf g hg c r this).2]
  · simp only [if_true]
    rw [nrows_rmpsTn R C d f hR hC, nrows_rmpsTn R C d g hR hC]
    apply List.map_congr_left
    intro r hr
    have hr := List.mem_range.mp hr
    rw [site_rmpsTn R C d f hR hC r c (by omega) hcK, site_rmpsTn R C d g hR hC r c (by omega) hcK]
    have := hout r
    simp only [if_true] at this
    rw [(siteAt_samples4 R C d hR hC true f hf g hg r c this).2]

/-- the grid tensor of the transposed network has the same scalar -/
theorem scalar_gridT_transpose (tn : Net) (m n : ℕ) (hc : Compat tn m n) (hp : PaddedRows tn.transpose) :
    scalar (gridT (netF tn.transpose) n m) = scalar (gridT (netF tn) m n) := by
  have h1 := contract_transpose_pad tn m n hc hp
  have h2 := contract_lr_pad tn.transpose n m (compat_transpose tn m n hc) hp
  rw [h1] at h2
  simpa using h2.symm

theorem scalar_modeTn (R C : Int) (d : Dist Int) (major : Bool) (g : BVec) (hR : 2 ≤ R) (hC : 2 ≤ C) :
    scalar (gridT (netF (modeTn R C d major g)) (K R C) (K R C))
      = scalar (gridT (netF (rmpsTn R C d g)) (K R C) (K R C)) := by
  unfold modeTn
  cases major
  · exact scalar_gridT_transpose _ _ _ (compat_rmpsTn R C d g hR hC) (padded_rmpsTn_transpose R C d g hR hC)
  · rfl

/-- **the optimised procedure returns the merged grid tensors of the four networks** -/
theorem cosetValues_grid (R C : Int) (d : Dist Int) (major : Bool) (f : BVec) (hR : 2 ≤ R) (hC : 2 ≤ C)
    (hf : f.length = 2 * (Planar.nQubits R C).toNat) :
    cosetValues R C d major f = .ok (pa R C + 1, pa R C + pw R C,
      (samples4 R C major f).map fun g => scalar (gridT (netF (rmpsTn R C d g)) (K R C) (K R C))) := by
  unfold cosetValues
  rw [tns4_eq]
  have hnc : (modeTn R C d major f).ncols = K R C + 1 := (compat_modeTn R C d major f hR hC).ncols
  have key := OptContract.optimized_exact R C (modeTn R C d major f)
    ([applyLogicalX R C major f, applyLogicalZ R C major (applyLogicalX R C major f),
        applyLogicalZ R C major f].map (modeTn R C d major)) (K R C) (pa R C) (pw R C) (pa R C) (K R C)
    (K_split R C hR hC) (by unfold leftStop pa; omega)
    (by unfold rightStop; rw [hnc]; unfold K pa pw; omega)
    (by
      rw [← tns4_eq, tns4_eq_map]
      intro tn htn
      obtain ⟨g, hg, rfl⟩ := List.mem_map.mp htn
      exact ⟨compat_modeTn R C d major g hR hC, padded_modeTn R C d major g hR hC,
        fun c hc hcK => col_modeTn_agree R C d hR hC major f hf g hg c hc hcK⟩)
  rw [key, ← tns4_eq, tns4_eq_map, List.map_map]
  congr 3
  apply List.map_congr_left
  intro g _
  exact scalar_modeTn R C d major g hR hC

end Qec.PlanarRmpsLemmas
