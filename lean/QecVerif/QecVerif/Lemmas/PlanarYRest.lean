/-
  Helper lemmas for the planar Y decoder, part 4: the transposed decomposition (R < C: snake-fills to the right from
  the left boundary), hence totality of the residual look-up for both orientations.
-/
import QecVerif.Lemmas.PlanarYTotal
namespace Qec.PlanarYL
open Qec Qec.Planar Qec.Symp Qec.PlanarCode Qec.PlanarY

/-! ### uniqueness, transposed: zero first column + no syndrome left of the last column ⇒ zero -/

theorem inBounds_swap (R C a b : Int) : inBounds C R a b = inBounds R C b a := by
  rw [inBounds_eq_decide, inBounds_eq_decide]
  apply decide_eq_decide.mpr
  omega

theorem uniq_cols (R C : Int) (β : Int × Int → Bool)
    (H1 : ∀ q, RealP R C q → q.2 < maxCol C →
      xorSum (plaquetteSites q.1 q.2) (fun s => inBounds R C s.1 s.2 && β s) = false)
    (H2 : ∀ r, SiteIn R C r 0 → β (r, 0) = false) :
    ∀ (n : Nat) (r c : Int), c ≤ n → SiteIn R C r c → β (r, c) = false := by
  intro n r c hc hs
  have key := uniq_rows C R (fun s => β (swap s))
    (by
      intro q hq hlt
      have hq' : RealP R C (swap q) := by unfold RealP at hq ⊢; simp only [swap]; omega
      have := H1 (swap q) hq' (by unfold maxRow at hlt; unfold maxCol; simp only [swap]; omega)
      rw [xorSum_plaq] at this ⊢
      simp only [swap, inBounds_swap] at this ⊢
      rw [← this]
      generalize (inBounds R C q.2 (q.1 - 1) && β (q.2, q.1 - 1)) = a
      generalize (inBounds R C q.2 (q.1 + 1) && β (q.2, q.1 + 1)) = b
      generalize (inBounds R C (q.2 - 1) q.1 && β (q.2 - 1, q.1)) = c
      generalize (inBounds R C (q.2 + 1) q.1 && β (q.2 + 1, q.1)) = d
      cases a <;> cases b <;> cases c <;> cases d <;> rfl)
    (by
      intro c hs
      exact H2 c (by unfold SiteIn at hs ⊢; omega))
    n c r hc (by unfold SiteIn at hs ⊢; omega)
  exact key

/-! ### decomposition into the boundary operators (R < C: snake-fills to the right from the left boundary) -/

theorem occ_map_swap (l : List (Int × Int)) (s : Int × Int) : occ (l.map swap) s = occ l (swap s) := by
  unfold occ
  rw [xorSum_map]
  apply xorSum_congr
  intro x _
  apply decide_eq_decide.mpr
  obtain ⟨a, b⟩ := x
  obtain ⟨c, d⟩ := s
  simp only [swap, Prod.mk.injEq]
  omega

/-- the `i`-th boundary operator for R < C -/
def bopR (R C : Int) (i : Nat) : BVec := snakeFill R C (2 * (i : Int), 0) false

theorem boundaryOps_right (R C : Int) (h : R < C) : boundaryOps R C = (List.range R.toNat).map (bopR R C) := by
  unfold boundaryOps bopR
  rw [if_pos h]

theorem bopR_ysym (R C : Int) (hR : 2 ≤ R) (hC : 2 ≤ C) (i : Nat) : YSym (nq R C) (bopR R C i) :=
  ysym_yop R C hR hC _ (allSites_snakeFillSites R C _ false (by simp only; omega))

theorem bopR_left (R C : Int) (hR : 2 ≤ R) (hC : 2 ≤ C) (i : Nat) (hi : (i : Int) < R) (r : Int) (hs : SiteIn R C r 0) :
    sbit R C (bopR R C i) (r, 0) = decide (r = 2 * (i : Int)) := by
  unfold SiteIn at hs
  have hb : inBounds R C r 0 = true := by rw [inBounds_iff]; omega
  unfold sbit bopR
  rw [snakeFill_eq_yop,
    (getD_yop R C hR hC _ (allSites_snakeFillSites R C _ false (by simp only; omega)) (r, 0) (by simp only; omega) hb).1,
    snakeFillSites_right, if_pos (by rw [inBounds_iff]; simp only; omega), occ_map_swap]
  exact occ_fillD_top _ _ i r (by unfold maxCol; omega) (by unfold maxRow; omega)

/-- **decomposition, transposed**: a Y-symmetric operator without syndrome left of the last column is, site by site,
    the XOR of the boundary operators selected by its first column; hence its syndrome is in their span -/
theorem span_of_boundary_right (R C : Int) (hR : 2 ≤ R) (hC : 2 ≤ C) (hRC : R < C) (g : BVec) (hg : YSym (nq R C) g)
    (hz : ∀ q, RealP R C q → q.2 < maxCol C → bsp g (stabOp R C q) = false) :
    InSpan (plaquetteIndices R C).length ((boundaryOps R C).map (syndrome R C)) (syndrome R C g) := by
  let t : Nat → Bool := fun i => sbit R C g (2 * (i : Int), 0)
  let β : Int × Int → Bool := fun s =>
    sbit R C g s ^^ xorSum (List.range R.toNat) (fun i => t i && sbit R C (bopR R C i) s)
  have hdist : ∀ q, RealP R C q →
      xorSum (plaquetteSites q.1 q.2) (fun s => inBounds R C s.1 s.2 && β s) =
        (bsp g (stabOp R C q) ^^ xorSum (List.range R.toNat) (fun i => t i && bsp (bopR R C i) (stabOp R C q))) := by
    intro q hq
    rw [bsp_ysym R C hR hC g hg q hq]
    have e1 : (fun s : Int × Int => inBounds R C s.1 s.2 && β s) = fun s =>
        ((inBounds R C s.1 s.2 && sbit R C g s) ^^
          xorSum (List.range R.toNat) (fun i => t i && (inBounds R C s.1 s.2 && sbit R C (bopR R C i) s))) := by
      funext s
      show (inBounds R C s.1 s.2 && (sbit R C g s ^^ xorSum _ _)) = _
      rw [Bool.and_xor_distrib_left, ← xorSum_and]
      congr 2
      funext i
      cases inBounds R C s.1 s.2 <;> cases t i <;> simp
    rw [e1, xorSum_xor, xorSum_comm]
    congr 2
    funext i
    rw [xorSum_and, bsp_ysym R C hR hC _ (bopR_ysym R C hR hC i) q hq]
  have hβ : ∀ (n : Nat) (r c : Int), c ≤ n → SiteIn R C r c → β (r, c) = false := by
    apply uniq_cols R C β
    · intro q hq hlt
      rw [hdist q hq, hz q hq hlt, Bool.false_xor]
      apply xorSum_false
      intro i _
      have : bsp (bopR R C i) (stabOp R C q) = false := by
        rw [bsp_comm _ _ (by rw [(bopR_ysym R C hR hC i).1, stabOp_length]) (by rw [(bopR_ysym R C hR hC i).1]; omega)]
        unfold bopR
        rw [fill_syndrome_right R C hR hC _ q (by simp only; omega) hq hlt]
        apply decide_eq_false
        intro h
        unfold RealP at hq
        rw [h] at hq
        simp only at hq
        omega
      rw [this, Bool.and_false]
    · intro r hs
      show (sbit R C g (r, 0) ^^ xorSum _ _) = false
      have hs' := hs
      unfold SiteIn at hs'
      have hr : r = 2 * ((r / 2).toNat : Int) := by omega
      have e2 : xorSum (List.range R.toNat) (fun i => t i && sbit R C (bopR R C i) (r, 0)) =
          xorSum (List.range R.toNat) (fun i => t i && decide (i = (r / 2).toNat)) := by
        apply xorSum_congr
        intro i hi
        have := List.mem_range.mp hi
        rw [bopR_left R C hR hC i (by omega) r hs]
        congr 1
        apply decide_eq_decide.mpr
        omega
      rw [e2, xorSum_range_pick _ _ (by omega)]
      show (sbit R C g (r, 0) ^^ sbit R C g (2 * (((r / 2).toNat : Nat) : Int), 0)) = false
      rw [← hr]
      simp
  -- the syndrome bits
  rw [boundaryOps_right R C hRC, List.map_map]
  apply inSpan_of_bits _ (List.range R.toNat) (fun i => syndrome R C (bopR R C i)) t
  · intro i _; exact syndrome_length R C _
  · exact syndrome_length R C g
  · intro j hj
    simp only [syndrome_eq_map, List.getD_eq_getElem?_getD, List.getElem?_map]
    rw [List.getElem?_eq_getElem hj]
    simp only [Option.map_some, Option.getD_some]
    have hq : RealP R C (plaquetteIndices R C)[j] := (mem_plaquetteIndices R C _).mp (List.getElem_mem hj)
    generalize (plaquetteIndices R C)[j] = q at hq
    have h1 := hdist q hq
    have h0 : xorSum (plaquetteSites q.1 q.2) (fun s => inBounds R C s.1 s.2 && β s) = false := by
      apply xorSum_false
      intro s hs
      by_cases hb : inBounds R C s.1 s.2 = true
      · have hsite : SiteIn R C s.1 s.2 := by
          have := allSites_plaq q.1 q.2 hq.2.2.2.2 s hs
          rw [inBounds_iff] at hb; unfold SiteIn; omega
        have := hβ s.2.toNat s.1 s.2 (by unfold SiteIn at hsite; omega) hsite
        rw [this, Bool.and_false]
      · simp [hb]
    rw [h0] at h1
    exact eq_of_xor_false _ _ h1

/-! ### totality of the residual look-up and the sample recovery, both orientations (non-co-prime) -/

theorem residual_total_right (R C : Int) (hR : 2 ≤ R) (hC : 2 ≤ C) (hRC : R < C) (e : BVec) (he : YSym (nq R C) e)
    (hnz : (xorV (syndrome R C e) (syndrome R C (partialSum R C (syndrome R C e)))).any id = true) :
    ∃ v, lookup (residualMap R C) (xorV (syndrome R C e) (syndrome R C (partialSum R C (syndrome R C e)))) = some v := by
  apply residual_found R C _ _ hnz
  rw [residual_eq R C hR hC e he]
  apply span_of_boundary_right R C hR hC hRC _ (ysym_xorV _ _ _ he (partialSum_ysym R C hR hC e))
  intro q hq hlt
  exact residual_bit R C hR hC e he.1 q hq (by rw [if_pos hRC]; exact hlt)

theorem residual_total_all (R C : Int) (hR : 2 ≤ R) (hC : 2 ≤ C) (e : BVec) (he : YSym (nq R C) e)
    (hnz : (xorV (syndrome R C e) (syndrome R C (partialSum R C (syndrome R C e)))).any id = true) :
    ∃ v, lookup (residualMap R C) (xorV (syndrome R C e) (syndrome R C (partialSum R C (syndrome R C e)))) = some v := by
  by_cases h : R < C
  · exact residual_total_right R C hR hC h e he hnz
  · exact residual_total_down R C hR hC h e he hnz

theorem sample_syndrome_nc (R C : Int) (hR : 2 ≤ R) (hC : 2 ≤ C) (hc : coprime R C = false)
    (e : BVec) (he : YSym (nq R C) e) :
    ∃ r, sampleRecovery R C (syndrome R C e) = .ok r ∧ r.length = 2 * nq R C ∧
      syndrome R C r = syndrome R C e :=
  sample_of_partial R C _ _ (syndrome_length R C e) (partialSum_length R C _) (combinedPartial_nc R C _ hc)
    (residual_total_all R C hR hC e he)

end Qec.PlanarYL
