/-
  Helper lemmas for C02 (`Model/Decoders.lean`): toggling is XOR-ing, folds of lattice operators are XOR-folds,
  `applyMates` is the XOR of the individual paths, matchings and endpoint counts, the naive decoder, the monitor.
-/
import QecVerif.Model.Decoders
import QecVerif.Lemmas.GF2
import QecVerif.Lemmas.RunOnce
import QecVerif.Lemmas.IPauli
import QecVerif.Lemmas.Pairing
import QecVerif.Props.C09
namespace Qec.Dec
open Qec

/-! ### toggling a bit is XOR-ing a unit vector -/

theorem toggle_length (v : BVec) (i : Nat) : (toggle v i).length = v.length := by simp [toggle]

theorem toggle_eq_xorV (v : BVec) (i : Nat) : toggle v i = xorV v (toggle (zeros v.length) i) := by
  induction v generalizing i with
  | nil => simp [toggle, xorV]
  | cons x xs ih =>
    cases i with
    | zero =>
      have := xorV_zeros_right xs.length xs rfl
      simp only [xorV, zeros] at this
      simp [toggle, xorV, zeros, List.replicate_succ, this]
    | succ i =>
      have := ih i
      simp only [toggle, xorV, zeros] at this
      simp only [toggle, xorV, zeros, List.length_cons, List.replicate_succ, List.modify_succ_cons,
        List.zipWith_cons_cons, Bool.xor_false]
      rw [← this]

theorem applyOp_length (n : Nat) (op : P1) (v : BVec) (f : Nat) : (applyOp n op v f).length = v.length := by
  unfold applyOp
  split <;> split <;> simp [toggle_length]

theorem applyOp_eq_xorV (n : Nat) (op : P1) (v : BVec) (f : Nat) :
    applyOp n op v f = xorV v (applyOp n op (zeros v.length) f) := by
  unfold applyOp
  by_cases hx : op.xBit = true <;> by_cases hz : op.zBit = true <;> simp only [hx, hz, if_true, if_false]
  · rw [toggle_eq_xorV (toggle v f), toggle_length, toggle_eq_xorV v f, xorV_assoc]
    congr 1
    rw [toggle_eq_xorV (toggle (zeros v.length) f), toggle_length, zeros_length]
  · exact toggle_eq_xorV v f
  · exact toggle_eq_xorV v _
  · simp at hx hz
    simp [hx, hz, xorV_zeros_right]

/-! ### folds of operators that act by XOR -/

theorem foldl_step_xor {α : Type} (k : Nat) (step : BVec → α → BVec)
    (hlen : ∀ v x, v.length = k → (step v x).length = k)
    (hx : ∀ v x, v.length = k → step v x = xorV v (step (zeros k) x)) :
    ∀ (l : List α) (v : BVec), v.length = k → l.foldl step v = xorV v (l.foldl step (zeros k)) := by
  intro l
  induction l with
  | nil => intro v hv; simp [xorV_zeros_right k v hv]
  | cons x l ih =>
    intro v hv
    simp only [List.foldl_cons]
    rw [ih (step v x) (hlen v x hv), ih (step (zeros k) x) (hlen _ x (zeros_length k)), hx v x hv, xorV_assoc]

theorem foldl_step_length {α : Type} (k : Nat) (step : BVec → α → BVec)
    (hlen : ∀ v x, v.length = k → (step v x).length = k) :
    ∀ (l : List α) (v : BVec), v.length = k → (l.foldl step v).length = k := by
  intro l
  induction l with
  | nil => intro v hv; simpa using hv
  | cons x l ih => intro v hv; simp only [List.foldl_cons]; exact ih _ (hlen v x hv)

theorem xorAll_cons (k : Nat) (a : BVec) (l : List BVec) : xorAll k (a :: l) = xorV a (xorAll k l) := by
  unfold xorAll
  rw [List.foldl_cons, foldl_xorV_push, xorV_comm]

theorem foldl_step_eq_xorAll {α : Type} (k : Nat) (step : BVec → α → BVec)
    (hlen : ∀ v x, v.length = k → (step v x).length = k)
    (hx : ∀ v x, v.length = k → step v x = xorV v (step (zeros k) x)) (l : List α) :
    l.foldl step (zeros k) = xorAll k (l.map (step (zeros k))) := by
  induction l with
  | nil => rfl
  | cons x l ih =>
    rw [List.foldl_cons, List.map_cons, xorAll_cons,
      foldl_step_xor k step hlen hx l _ (hlen _ x (zeros_length k)), ih]

/-! ### the monitor -/

theorem xorV_eq_zeros (a b : BVec) (h : a.length = b.length) (hz : xorV a b = zeros a.length) : a = b := by
  have h1 : xorV (xorV a b) b = a := by
    rw [xorV_assoc, xorV_self, ← h, xorV_zeros_right _ a rfl]
  rw [hz, xorV_zeros_left _ b h.symm] at h1
  exact h1.symm

/-! ### the naive decoder -/

theorem ofBsf_length (e : BVec) (n : Nat) (h : e.length = 2 * n) : (ofBsf e).length = n := by
  unfold ofBsf
  rw [List.length_zipWith, xHalf_length, zHalf_length, h]
  omega

theorem pauliWt_le (p : PStr) : pauliWt p ≤ p.length := by
  unfold pauliWt; exact List.countP_le_length


/-! ### matchings, endpoints, `pairsOf`, `dedup` -/

theorem ends_append {α : Type} (a b : List (α × α)) : ends (a ++ b) = ends a ++ ends b := by
  simp [ends]

/-- number of occurrences of `p` among the endpoints of `m` (stated generically so that the `BEq` instance is
    the one the model and the pairing theorem use) -/
def occ {α : Type} [DecidableEq α] (m : List (α × α)) (p : α) : Nat := (ends m).count p

theorem occ_append {α : Type} [DecidableEq α] (a b : List (α × α)) (p : α) :
    occ (a ++ b) p = occ a p + occ b p := by
  unfold occ; rw [ends_append, List.count_append]

/-- in a perfect matching, a vertex that is a node occurs once, anything else never -/
theorem pm_occ_gen {α : Type} [DecidableEq α] (nodes : List α) (edges m : List (α × α))
    (h : isPerfectMatchingOfGraph nodes edges m = true) (p : α) :
    occ m p = if p ∈ nodes then 1 else 0 := by
  unfold isPerfectMatchingOfGraph at h
  simp only [Bool.and_eq_true, List.all_eq_true] at h
  unfold occ
  by_cases hp : p ∈ nodes
  · rw [if_pos hp]; simpa using h.1.2 p hp
  · rw [if_neg hp]
    apply List.count_eq_zero_of_not_mem
    intro hm; exact hp (by simpa using h.2 p hm)

theorem occ_map {α : Type} [DecidableEq α] (l : List α) (f : α → α) (p : α) (hn : l.Nodup)
    (hf : ∀ d ∈ l, f d ≠ p) : occ (l.map fun d => (d, f d)) p = if p ∈ l then 1 else 0 := by
  unfold occ
  induction l with
  | nil => rfl
  | cons d l ih =>
    have he : ends ((d :: l).map fun d => (d, f d)) = d :: f d :: ends (l.map fun d => (d, f d)) := by simp [ends]
    rw [List.nodup_cons] at hn
    rw [he, List.count_cons, List.count_cons, ih hn.2 (fun x hx => hf x (by simp [hx]))]
    have h1 : (f d == p) = false := by simpa using hf d (by simp)
    by_cases hd : d = p
    · subst hd; simp [h1, hn.1]
    · have : ¬ p = d := fun h => hd h.symm
      simp [h1, hd, this]

theorem mem_pairsOf {α : Type} (l : List α) (a b : α) (h : (a, b) ∈ pairsOf l) : a ∈ l ∧ b ∈ l := by
  induction l with
  | nil => simp [pairsOf] at h
  | cons x xs ih =>
    simp only [pairsOf, List.mem_append, List.mem_map] at h
    rcases h with ⟨y, hy, he⟩ | h
    · simp only [Prod.mk.injEq] at he
      obtain ⟨rfl, rfl⟩ := he
      exact ⟨by simp, by simp [hy]⟩
    · have := ih h
      exact ⟨by simp [this.1], by simp [this.2]⟩

theorem mem_dedup {α : Type} [DecidableEq α] (l : List α) (x : α) : x ∈ dedup l ↔ x ∈ l := by
  induction l with
  | nil => simp [dedup]
  | cons y ys ih =>
    unfold dedup
    split
    · rename_i hy
      rw [ih, List.mem_cons]
      constructor
      · exact Or.inr
      · rintro (rfl | h)
        · exact (ih).mp (by rw [ih] at hy ⊢; exact hy) |> fun h => h
        · exact h
    · rw [List.mem_cons, List.mem_cons, ih]

theorem pm_edges {α : Type} [DecidableEq α] (nodes : List α) (edges m : List (α × α))
    (h : isPerfectMatchingOfGraph nodes edges m = true) :
    ∀ x ∈ m, (x.1, x.2) ∈ edges ∨ (x.2, x.1) ∈ edges := by
  unfold isPerfectMatchingOfGraph at h
  simp only [Bool.and_eq_true, List.all_eq_true] at h
  intro x hx
  have := h.1.1 x hx
  simpa [isEdge] using this

theorem pm_count {α : Type} [DecidableEq α] (nodes : List α) (edges m : List (α × α))
    (h : isPerfectMatchingOfGraph nodes edges m = true) : ∀ v ∈ nodes, (ends m).count v = 1 := by
  unfold isPerfectMatchingOfGraph at h
  simp only [Bool.and_eq_true, List.all_eq_true] at h
  intro v hv
  simpa using h.1.2 v hv

theorem pm_ends {α : Type} [DecidableEq α] (nodes : List α) (edges m : List (α × α))
    (h : isPerfectMatchingOfGraph nodes edges m = true) : ∀ v ∈ ends m, v ∈ nodes := by
  unfold isPerfectMatchingOfGraph at h
  simp only [Bool.and_eq_true, List.all_eq_true] at h
  intro v hv
  simpa using h.2 v hv

/-! ### occurrences under the list operations of CMWPM's post-processing -/

/-- contribution of one pair -/
def occ1 {α : Type} [DecidableEq α] (x : α × α) (p : α) : Nat :=
  (if x.1 = p then 1 else 0) + (if x.2 = p then 1 else 0)

theorem occ_cons {α : Type} [DecidableEq α] (x : α × α) (l : List (α × α)) (p : α) :
    occ (x :: l) p = occ1 x p + occ l p := by
  unfold occ occ1
  have : ends (x :: l) = x.1 :: x.2 :: ends l := by simp [ends]
  rw [this, List.count_cons, List.count_cons]
  by_cases h1 : x.1 = p <;> by_cases h2 : x.2 = p <;> simp [h1, h2] <;> omega

theorem occ_nil {α : Type} [DecidableEq α] (p : α) : occ ([] : List (α × α)) p = 0 := rfl

theorem occ1_le_of_mem {α : Type} [DecidableEq α] (x : α × α) (l : List (α × α)) (p : α) (h : x ∈ l) :
    occ1 x p ≤ occ l p := by
  induction l with
  | nil => simp at h
  | cons y ys ih =>
    rw [occ_cons]
    rcases List.mem_cons.mp h with rfl | h
    · omega
    · have := ih h; omega

theorem occ_map_of {α β : Type} [DecidableEq α] [DecidableEq β] (g : α → β) (m : List (α × α)) (a : α) (p : β)
    (h : ∀ v ∈ ends m, g v = p ↔ v = a) : occ (m.map fun x => (g x.1, g x.2)) p = occ m a := by
  induction m with
  | nil => rfl
  | cons x l ih =>
    have he : ends (x :: l) = x.1 :: x.2 :: ends l := by simp [ends]
    rw [List.map_cons, occ_cons, occ_cons, ih (fun v hv => h v (by rw [he]; simp [hv]))]
    congr 1
    unfold occ1
    have h1 := h x.1 (by rw [he]; simp)
    have h2 := h x.2 (by rw [he]; simp)
    simp only [h1, h2]

theorem occ_filter {α : Type} [DecidableEq α] (f : α × α → Bool) (l : List (α × α)) (p : α)
    (h : ∀ x ∈ l, f x = false → x.1 ≠ p ∧ x.2 ≠ p) : occ (l.filter f) p = occ l p := by
  induction l with
  | nil => rfl
  | cons x l ih =>
    have ih' := ih (fun y hy => h y (by simp [hy]))
    by_cases hf : f x = true
    · rw [List.filter_cons_of_pos hf, occ_cons, occ_cons, ih']
    · have hf' : f x = false := by simpa using hf
      rw [List.filter_cons_of_neg hf, occ_cons, ih']
      have := h x (by simp) hf'
      unfold occ1; simp [this.1, this.2]

theorem occ_map_swap {α : Type} [DecidableEq α] (g : α × α → α × α) (l : List (α × α)) (p : α)
    (h : ∀ x, g x = x ∨ g x = (x.2, x.1)) : occ (l.map g) p = occ l p := by
  induction l with
  | nil => rfl
  | cons x l ih =>
    rw [List.map_cons, occ_cons, occ_cons, ih]
    congr 1
    rcases h x with e | e <;> rw [e]
    unfold occ1; simp only; omega

theorem occ_dedup {α : Type} [DecidableEq α] (l : List (α × α)) (p : α) (h : occ l p ≤ 1) :
    occ (dedup l) p = occ l p := by
  induction l with
  | nil => rfl
  | cons x xs ih =>
    rw [occ_cons] at h
    have ih' := ih (by omega)
    unfold dedup
    split
    · rename_i hx
      have := occ1_le_of_mem x xs p ((mem_dedup xs x).mp hx)
      rw [occ_cons, ih']; omega
    · rw [occ_cons, occ_cons, ih']

/-! ### building a perfect matching -/

/-- pair consecutive elements -/
def pairUp {α : Type} : List α → List (α × α)
  | x :: y :: r => (x, y) :: pairUp r
  | _ => []

theorem ends_pairUp {α : Type} : ∀ (l : List α), l.length % 2 = 0 → ends (pairUp l) = l
  | [], _ => rfl
  | [_], h => by simp at h
  | x :: y :: r, h => by
    have : ends (pairUp (x :: y :: r)) = x :: y :: ends (pairUp r) := by simp [pairUp, ends]
    rw [this, ends_pairUp r (by simp only [List.length_cons] at h; omega)]

theorem pairUp_mem {α : Type} : ∀ (l : List α), l.Nodup → ∀ x ∈ pairUp l, x.1 ∈ l ∧ x.2 ∈ l ∧ x.1 ≠ x.2
  | [], _, x, hx => by simp [pairUp] at hx
  | [_], _, x, hx => by simp [pairUp] at hx
  | a :: b :: r, hn, x, hx => by
    simp only [pairUp, List.mem_cons] at hx
    rw [List.nodup_cons, List.nodup_cons] at hn
    rcases hx with rfl | hx
    · refine ⟨by simp, by simp, ?_⟩
      intro e; exact hn.1 (by simp only at e; simp [e])
    · have := pairUp_mem r hn.2.2 x hx
      exact ⟨by simp [this.1], by simp [this.2.1], this.2.2⟩

theorem pairsOf_complete {α : Type} (l : List α) (a b : α) (ha : a ∈ l) (hb : b ∈ l) (hab : a ≠ b) :
    (a, b) ∈ pairsOf l ∨ (b, a) ∈ pairsOf l := by
  induction l with
  | nil => simp at ha
  | cons x xs ih =>
    simp only [pairsOf, List.mem_append, List.mem_map, Prod.mk.injEq]
    rw [List.mem_cons] at ha hb
    rcases ha with rfl | ha <;> rcases hb with rfl | hb
    · exact absurd rfl hab
    · exact .inl (.inl ⟨b, hb, rfl, rfl⟩)
    · exact .inr (.inl ⟨a, ha, rfl, rfl⟩)
    · rcases ih ha hb with h | h
      · exact .inl (.inr h)
      · exact .inr (.inr h)

theorem nodup_dedup {α : Type} [DecidableEq α] (l : List α) : (dedup l).Nodup := by
  induction l with
  | nil => simp [dedup]
  | cons x xs ih =>
    unfold dedup
    split
    · exact ih
    · rename_i h; exact List.nodup_cons.mpr ⟨h, ih⟩

/-- a list of pairs whose endpoints are a permutation of the (duplicate-free) node list and which are all edges is
    a perfect matching -/
theorem pm_of_perm {α : Type} [DecidableEq α] (nodes : List α) (edges m : List (α × α)) (hn : nodes.Nodup)
    (hperm : (ends m).Perm nodes) (he : ∀ x ∈ m, (x.1, x.2) ∈ edges ∨ (x.2, x.1) ∈ edges) :
    isPerfectMatchingOfGraph nodes edges m = true := by
  unfold isPerfectMatchingOfGraph
  simp only [Bool.and_eq_true, List.all_eq_true]
  refine ⟨⟨?_, ?_⟩, ?_⟩
  · intro x hx; simpa [isEdge] using he x hx
  · intro v hv
    rw [hperm.count_eq]
    simpa using List.count_eq_one_of_mem hn hv
  · intro v hv
    simpa using (hperm.mem_iff).mp hv

/-! ### planar lattice: operators act by XOR; `applyMates` is the XOR of the paths -/

namespace PlanarL
open Qec.Planar

/-- number of qubits as a `Nat` -/
def nq (R C : Int) : Nat := (nQubits R C).toNat

theorem identity_length (R C : Int) : (identity R C).length = 2 * nq R C := by simp [identity, nq, zeros]

theorem site_length (R C : Int) (op : P1) (v : BVec) (rc : Int × Int) : (site R C op v rc).length = v.length := by
  unfold site; split
  · exact applyOp_length _ _ _ _
  · rfl

theorem site_xor (R C : Int) (op : P1) (v : BVec) (rc : Int × Int) (hv : v.length = 2 * nq R C) :
    site R C op v rc = xorV v (site R C op (zeros (2 * nq R C)) rc) := by
  unfold site; split
  · have := applyOp_eq_xorV (nQubits R C).toNat op v (flatten R C rc.1 rc.2).toNat
    rw [hv] at this; exact this
  · rw [xorV_zeros_right _ v hv]

theorem sites_length (R C : Int) (op : P1) (l : List (Int × Int)) (v : BVec) (hv : v.length = 2 * nq R C) :
    (sites R C op v l).length = 2 * nq R C :=
  foldl_step_length (2 * nq R C) (site R C op) (fun v x h => by rw [site_length, h]) l v hv

theorem sites_xor (R C : Int) (op : P1) (l : List (Int × Int)) (v : BVec) (hv : v.length = 2 * nq R C) :
    sites R C op v l = xorV v (sites R C op (identity R C) l) :=
  foldl_step_xor (2 * nq R C) (site R C op) (fun v x h => by rw [site_length, h])
    (fun v x h => site_xor R C op v x h) l v hv

theorem stabilizers_length (R C : Int) : ∀ s ∈ stabilizers R C, s.length = 2 * nq R C := by
  intro s hs
  simp only [stabilizers, List.mem_map] at hs
  obtain ⟨rc, _, rfl⟩ := hs
  exact sites_length R C _ _ _ (identity_length R C)

theorem stabilizers_plaqs (R C : Int) : (stabilizers R C).length = (plaquetteIndices R C).length := by
  simp [stabilizers]

/-- the path operator between `a` and `b` as a vector (identity when `path` raises) -/
def pathT (R C : Int) (a b : Int × Int) : BVec :=
  match path R C (identity R C) a b with
  | .ok v => v
  | .error _ => identity R C

theorem pathT_length (R C : Int) (a b : Int × Int) : (pathT R C a b).length = 2 * nq R C := by
  unfold pathT path
  cases translation R C a b with
  | error e => exact identity_length R C
  | ok t => exact sites_length R C _ _ _ (identity_length R C)

theorem path_acc (R C : Int) (v w : BVec) (a b : Int × Int) (hv : v.length = 2 * nq R C)
    (h : path R C (identity R C) a b = .ok w) : path R C v a b = .ok (xorV v w) := by
  unfold path at h ⊢
  cases ht : translation R C a b with
  | error e => rw [ht] at h; cases h
  | ok t =>
    rw [ht] at h
    simp only [Except.ok.injEq] at h ⊢
    rw [← h]
    exact sites_xor R C _ _ v hv

theorem pathT_of_ok (R C : Int) (a b : Int × Int) (w : BVec) (h : path R C (identity R C) a b = .ok w) :
    pathT R C a b = w := by
  unfold pathT; rw [h]

theorem foldlM_paths (R C : Int) (mates : List ((Int × Int) × (Int × Int)))
    (h : ∀ x ∈ mates, ∃ w, path R C (identity R C) x.1 x.2 = .ok w) :
    ∀ v : BVec, v.length = 2 * nq R C →
      mates.foldlM (fun v ab => path R C v ab.1 ab.2) v =
        .ok ((mates.map fun x => pathT R C x.1 x.2).foldl xorV v) := by
  induction mates with
  | nil => intro v _; rfl
  | cons x l ih =>
    intro v hv
    obtain ⟨w, hw⟩ := h x (by simp)
    rw [List.foldlM_cons, path_acc R C v w x.1 x.2 hv hw]
    have hwl : w.length = 2 * nq R C := by rw [← pathT_of_ok R C _ _ w hw]; exact pathT_length R C _ _
    have := ih (fun y hy => h y (by simp [hy])) (xorV v w) (by rw [xorV_length _ _ (by rw [hv, hwl]), hv])
    simp only [List.map_cons, List.foldl_cons, pathT_of_ok R C _ _ w hw]
    exact this

/-- `applyMates` (the code's accumulation of `path` calls into one Pauli) is the XOR of the individual paths -/
theorem applyMates_eq (R C : Int) (mates : List ((Int × Int) × (Int × Int)))
    (h : ∀ x ∈ mates, ∃ w, path R C (identity R C) x.1 x.2 = .ok w) :
    applyMates R C mates = .ok (xorAll (2 * nq R C) (mates.map fun x => pathT R C x.1 x.2)) := by
  unfold applyMates xorAll
  exact foldlM_paths R C mates h (identity R C) (identity_length R C)

/-! the C15 / C07 facts about the planar lattice that C02 uses, as an explicit hypothesis
    (definitions and statements copied from `Props/C15/Planar.lean`) -/

/-- an in-lattice plaquette -/
def Real (R C : Int) (a : Int × Int) : Prop := isPlaquette a.1 a.2 = true ∧ inBounds R C a.1 a.2 = true

/-- a virtual plaquette just outside the matching boundary -/
def Virtual (R C : Int) (a : Int × Int) : Prop :=
  isPlaquette a.1 a.2 = true ∧
  ((isPrimal a.1 a.2 = true ∧ (a.1 = -1 ∨ a.1 = 2 * R - 1) ∧ 0 ≤ a.2 ∧ a.2 ≤ 2 * C - 2) ∨
   (isPrimal a.1 a.2 = false ∧ (a.2 = -1 ∨ a.2 = 2 * C - 1) ∧ 0 ≤ a.1 ∧ a.1 ≤ 2 * R - 2))

def Endpoint (R C : Int) (a : Int × Int) : Prop := Real R C a ∨ Virtual R C a

/-- a plaquette index outside the lattice (boundary-virtual or the extra well-off-boundary node) -/
def OutPlaq (R C : Int) (a : Int × Int) : Prop := isPlaquette a.1 a.2 = true ∧ inBounds R C a.1 a.2 = false

/-- **hypothesis** (proved in Props/C15/Planar.lean: `plaquetteIndices_spec`, `path_syndrome_vector`,
    `virtualPlaquette_spec`) -/
structure Spec (R C : Int) : Prop where
  plaquetteIndices_spec : (plaquetteIndices R C).Nodup ∧ ∀ p, p ∈ plaquetteIndices R C ↔ Real R C p
  path_syndrome_vector : ∀ a b : Int × Int, Endpoint R C a → Endpoint R C b →
    isPrimal a.1 a.2 = isPrimal b.1 b.2 →
    ∃ v, path R C (identity R C) a b = .ok v ∧
      synd (stabilizers R C) v = (plaquetteIndices R C).map fun p => (decide (p = a) != decide (p = b))
  virtualPlaquette_spec : ∀ p : Int × Int, Real R C p →
    ∃ v, virtualPlaquette R C p.1 p.2 = .ok v ∧ Virtual R C v ∧ isPrimal v.1 v.2 = isPrimal p.1 p.2

theorem virtual_out (R C : Int) (a : Int × Int) (h : Virtual R C a) : OutPlaq R C a := by
  refine ⟨h.1, ?_⟩
  unfold inBounds maxRow maxCol
  rcases h.2 with ⟨_, h1, _, _⟩ | ⟨_, h1, _, _⟩ <;> rcases h1 with h1 | h1 <;> simp [h1] <;> omega

/-- between two off-lattice plaquettes of the same type the path is empty -/
theorem path_out_out (R C : Int) (v : BVec) (a b : Int × Int) (ha : OutPlaq R C a) (hb : OutPlaq R C b)
    (hab : isPrimal a.1 a.2 = isPrimal b.1 b.2) : path R C v a b = .ok v := by
  unfold path translation
  simp [ha.1, hb.1, ha.2, hb.2, hab, pathSites, sites]

/-- admissible pairs -/
def Ok (R C : Int) (a b : Int × Int) : Prop :=
  isPrimal a.1 a.2 = isPrimal b.1 b.2 ∧
    ((Endpoint R C a ∧ Endpoint R C b) ∨ (OutPlaq R C a ∧ OutPlaq R C b))

theorem ok_symm (R C : Int) (a b : Int × Int) (h : Ok R C a b) : Ok R C b a :=
  ⟨h.1.symm, h.2.elim (fun x => .inl ⟨x.2, x.1⟩) (fun x => .inr ⟨x.2, x.1⟩)⟩

theorem ok_path (R C : Int) (H : Spec R C) (a b : Int × Int) (h : Ok R C a b) :
    ∃ w, path R C (identity R C) a b = .ok w ∧
      synd (stabilizers R C) w = (plaquetteIndices R C).map fun p => (decide (p = a) != decide (p = b)) := by
  rcases h.2 with ⟨ha, hb⟩ | ⟨ha, hb⟩
  · exact H.path_syndrome_vector a b ha hb h.1
  · refine ⟨identity R C, path_out_out R C _ a b ha hb h.1, ?_⟩
    have : identity R C = zeros (2 * nq R C) := by simp [identity, nq]
    rw [this, synd_zeros, stabilizers_plaqs]
    have hz : zeros (plaquetteIndices R C).length = (plaquetteIndices R C).map fun _ => false := by
      simp [zeros]
    rw [hz]
    apply List.map_congr_left
    intro p hp
    have hr := (H.plaquetteIndices_spec.2 p).mp hp
    have h1 : p ≠ a := by intro e; subst e; have := ha.2; rw [hr.2] at this; cases this
    have h2 : p ≠ b := by intro e; subst e; have := hb.2; rw [hr.2] at this; cases this
    simp [h1, h2]

/-- the planar lattice as an instance of the pairing theorem's interface -/
def pathSpec (R C : Int) (H : Spec R C) : Pairing.PathSpec (Int × Int) where
  n := nq R C
  S := stabilizers R C
  plaqs := plaquetteIndices R C
  path := pathT R C
  ok := Ok R C
  S_plaqs := stabilizers_plaqs R C
  S_len := stabilizers_length R C
  path_len := fun a b _ => pathT_length R C a b
  path_synd := fun a b h => by
    obtain ⟨w, hw, hs⟩ := ok_path R C H a b h
    rw [pathT_of_ok R C a b w hw]; exact hs


/-! facts about the modelled planar graph -/

theorem s2p_eq_pick (R C : Int) (s : BVec) :
    syndromeToPlaquettes R C s = Pairing.pick (plaquetteIndices R C) s := rfl

theorem vpT_spec (R C : Int) (H : Spec R C) (d : Int × Int) (hd : Real R C d) :
    Virtual R C (vpT R C d) ∧ isPrimal (vpT R C d).1 (vpT R C d).2 = isPrimal d.1 d.2 := by
  obtain ⟨v, hv, h1, h2⟩ := H.virtualPlaquette_spec d hd
  have : vpT R C d = v := by unfold vpT; rw [hv]
  rw [this]; exact ⟨h1, h2⟩

theorem mem_planarDefects (R C : Int) (s : BVec) (t : Bool) (p : Int × Int) :
    p ∈ planarDefects R C s t ↔ p ∈ Pairing.pick (plaquetteIndices R C) s ∧ isPrimal p.1 p.2 = t := by
  unfold planarDefects
  rw [List.mem_filter, s2p_eq_pick]
  simp

theorem defects_real (R C : Int) (H : Spec R C) (s : BVec) (t : Bool) (d : Int × Int)
    (hd : d ∈ planarDefects R C s t) : Real R C d ∧ isPrimal d.1 d.2 = t := by
  rw [mem_planarDefects] at hd
  exact ⟨(H.plaquetteIndices_spec.2 d).mp (Pairing.pick_subset _ _ d hd.1), hd.2⟩

theorem extraV_out (R C : Int) (t : Bool) : OutPlaq R C (extraV t) ∧ isPrimal (extraV t).1 (extraV t).2 = t := by
  cases t <;> refine ⟨⟨by decide, ?_⟩, by decide⟩ <;> simp [extraV, inBounds]

theorem vnodes_out (R C : Int) (H : Spec R C) (t : Bool) (ds : List (Int × Int))
    (hds : ∀ d ∈ ds, Real R C d ∧ isPrimal d.1 d.2 = t) (v : Int × Int) (hv : v ∈ planarVNodes R C t ds) :
    OutPlaq R C v ∧ isPrimal v.1 v.2 = t := by
  have hmem : v = extraV t ∨ ∃ d ∈ ds, v = vpT R C d := by
    unfold planarVNodes at hv
    simp only at hv
    split at hv
    · rw [List.mem_append] at hv
      rcases hv with hv | hv
      · rw [mem_dedup, List.mem_map] at hv
        obtain ⟨d, hd, rfl⟩ := hv; exact .inr ⟨d, hd, rfl⟩
      · simp at hv; exact .inl hv
    · rw [mem_dedup, List.mem_map] at hv
      obtain ⟨d, hd, rfl⟩ := hv; exact .inr ⟨d, hd, rfl⟩
  rcases hmem with rfl | ⟨d, hd, rfl⟩
  · exact extraV_out R C t
  · have := vpT_spec R C H d (hds d hd).1
    exact ⟨virtual_out R C _ this.1, this.2.trans (hds d hd).2⟩

/-- every pair of a perfect matching of the modelled graph is an admissible pair -/
theorem pm_ok (R C : Int) (H : Spec R C) (s : BVec) (t : Bool) (m : List ((Int × Int) × (Int × Int)))
    (hm : isPerfectMatchingOfGraph (planarNodes R C t (planarDefects R C s t))
      (planarEdges R C t (planarDefects R C s t)) m = true) : ∀ x ∈ m, Ok R C x.1 x.2 := by
  have hds := fun d hd => defects_real R C H s t d hd
  have hedge : ∀ a b : Int × Int, (a, b) ∈ planarEdges R C t (planarDefects R C s t) → Ok R C a b := by
    intro a b hab
    unfold planarEdges at hab
    rw [List.mem_append, List.mem_append, List.mem_map] at hab
    rcases hab with (⟨d, hd, he⟩ | hab) | hab
    · simp only [Prod.mk.injEq] at he
      obtain ⟨rfl, rfl⟩ := he
      have hv := vpT_spec R C H d (hds d hd).1
      exact ⟨hv.2.symm, .inl ⟨.inl (hds d hd).1, .inr hv.1⟩⟩
    · have := mem_pairsOf _ a b hab
      exact ⟨(hds a this.1).2.trans (hds b this.2).2.symm, .inl ⟨.inl (hds a this.1).1, .inl (hds b this.2).1⟩⟩
    · have := mem_pairsOf _ a b hab
      have ha := vnodes_out R C H t _ hds a this.1
      have hb := vnodes_out R C H t _ hds b this.2
      exact ⟨ha.2.trans hb.2.symm, .inr ⟨ha.1, hb.1⟩⟩
  intro x hx
  rcases pm_edges _ _ _ hm x hx with h | h
  · exact hedge _ _ h
  · exact ok_symm R C _ _ (hedge _ _ h)

/-- in a perfect matching of the modelled graph an in-lattice plaquette is an endpoint exactly once when it is a
    defect of that type and never otherwise -/
theorem pm_occ (R C : Int) (H : Spec R C) (s : BVec) (t : Bool) (m : List ((Int × Int) × (Int × Int)))
    (hm : isPerfectMatchingOfGraph (planarNodes R C t (planarDefects R C s t))
      (planarEdges R C t (planarDefects R C s t)) m = true) (p : Int × Int) (hp : Real R C p) :
    occ m p = if p ∈ planarDefects R C s t then 1 else 0 := by
  have hds := fun d hd => defects_real R C H s t d hd
  rw [pm_occ_gen _ _ _ hm p]
  have : p ∈ planarNodes R C t (planarDefects R C s t) ↔ p ∈ planarDefects R C s t := by
    unfold planarNodes
    rw [List.mem_append]
    constructor
    · rintro (h | h)
      · exact h
      · have := (vnodes_out R C H t _ hds p h).1.2
        rw [hp.2] at this; cases this
    · exact Or.inl
  by_cases h : p ∈ planarDefects R C s t
  · rw [if_pos h, if_pos (this.mpr h)]
  · rw [if_neg h, if_neg (fun h' => h (this.mp h'))]

/-! CMWPM: the graph of identity-hashed nodes and the post-processing of its matching -/

theorem sortPair_cases (x : Idx2 × Idx2) : sortPair x = x ∨ sortPair x = (x.2, x.1) := by
  unfold sortPair; split <;> simp

theorem cm_nodes (ds : List (Int × Int)) (m : List (CNode × CNode))
    (hm : isPerfectMatchingOfGraph (cmwpmNodes ds) (cmwpmEdges ds) m = true) :
    ∀ v ∈ ends m, v.2 ∈ ds := by
  intro v hv
  have := pm_ends _ _ _ hm v hv
  unfold cmwpmNodes at this
  rw [List.mem_append, List.mem_map, List.mem_map] at this
  rcases this with ⟨d, hd, rfl⟩ | ⟨d, hd, rfl⟩ <;> exact hd

/-- every matched index pair that survives the post-processing is an admissible pair -/
theorem cm_ok (R C : Int) (H : Spec R C) (s : BVec) (t : Bool) (m : List (CNode × CNode))
    (hm : isPerfectMatchingOfGraph (cmwpmNodes (planarDefects R C s t)) (cmwpmEdges (planarDefects R C s t)) m = true) :
    ∀ x ∈ cmwpmMatches R C m, Ok R C x.1 x.2 := by
  have hds := fun d hd => defects_real R C H s t d hd
  have hedge : ∀ a b : CNode, (a, b) ∈ cmwpmEdges (planarDefects R C s t) →
      Ok R C (cnodeIndex R C a) (cnodeIndex R C b) := by
    intro a b hab
    unfold cmwpmEdges at hab
    rw [List.mem_append, List.mem_append] at hab
    rcases hab with (hab | hab) | hab
    · have := mem_pairsOf _ a b hab
      rw [List.mem_map, List.mem_map] at this
      obtain ⟨⟨d1, h1, rfl⟩, ⟨d2, h2, rfl⟩⟩ := this
      exact ⟨(hds d1 h1).2.trans (hds d2 h2).2.symm, .inl ⟨.inl (hds d1 h1).1, .inl (hds d2 h2).1⟩⟩
    · have := mem_pairsOf _ a b hab
      rw [List.mem_map, List.mem_map] at this
      obtain ⟨⟨d1, h1, rfl⟩, ⟨d2, h2, rfl⟩⟩ := this
      have v1 := vpT_spec R C H d1 (hds d1 h1).1
      have v2 := vpT_spec R C H d2 (hds d2 h2).1
      exact ⟨(v1.2.trans (hds d1 h1).2).trans ((v2.2.trans (hds d2 h2).2).symm),
        .inl ⟨.inr v1.1, .inr v2.1⟩⟩
    · rw [List.mem_map] at hab
      obtain ⟨d, hd, he⟩ := hab
      simp only [Prod.mk.injEq] at he
      obtain ⟨rfl, rfl⟩ := he
      have v := vpT_spec R C H d (hds d hd).1
      exact ⟨v.2.symm, .inl ⟨.inl (hds d hd).1, .inr v.1⟩⟩
  intro x hx
  unfold cmwpmMatches at hx
  rw [mem_dedup, List.mem_map] at hx
  obtain ⟨y, hy, rfl⟩ := hx
  rw [List.mem_filter, List.mem_map] at hy
  obtain ⟨⟨z, hz, rfl⟩, _⟩ := hy
  have hokz : Ok R C (cnodeIndex R C z.1) (cnodeIndex R C z.2) := by
    rcases pm_edges _ _ _ hm z hz with h | h
    · exact hedge _ _ h
    · exact ok_symm R C _ _ (hedge _ _ h)
  rcases sortPair_cases (cnodeIndex R C z.1, cnodeIndex R C z.2) with e | e <;> rw [e]
  · exact hokz
  · exact ok_symm R C _ _ hokz

/-- after the post-processing an in-lattice plaquette is an endpoint exactly once when it is a defect of that type
    and never otherwise (dropping virtual–virtual pairs, sorting and the `frozenset` change nothing for it) -/
theorem cm_occ (R C : Int) (H : Spec R C) (s : BVec) (t : Bool) (m : List (CNode × CNode))
    (hm : isPerfectMatchingOfGraph (cmwpmNodes (planarDefects R C s t)) (cmwpmEdges (planarDefects R C s t)) m = true)
    (p : Int × Int) (hp : Real R C p) :
    occ (cmwpmMatches R C m) p = if p ∈ planarDefects R C s t then 1 else 0 := by
  have hds := fun d hd => defects_real R C H s t d hd
  have hnodes := cm_nodes _ m hm
  -- 1. index pairs: p occurs where the node (false, p) occurs
  have h1 : occ (m.map fun x => (cnodeIndex R C x.1, cnodeIndex R C x.2)) p = occ m ((false, p) : CNode) := by
    apply occ_map_of (cnodeIndex R C) m (false, p) p
    intro v hv
    obtain ⟨b, d⟩ := v
    have hd := hnodes (b, d) hv
    cases b
    · simp [cnodeIndex]
    · simp only [cnodeIndex, if_true, Prod.mk.injEq, Bool.true_eq_false, false_and, iff_false]
      intro e
      have := (virtual_out R C _ (vpT_spec R C H d (hds d hd).1).1).2
      rw [e, hp.2] at this; cases this
  -- 2. the perfect matching: (false, p) occurs once iff p is a defect
  have h2 : occ m ((false, p) : CNode) = if p ∈ planarDefects R C s t then 1 else 0 := by
    rw [pm_occ_gen _ _ _ hm]
    have : ((false, p) : CNode) ∈ cmwpmNodes (planarDefects R C s t) ↔ p ∈ planarDefects R C s t := by
      unfold cmwpmNodes; simp
    by_cases h : p ∈ planarDefects R C s t
    · rw [if_pos h, if_pos (this.mpr h)]
    · rw [if_neg h, if_neg (fun h' => h (this.mp h'))]
  -- 3. filter, sort, dedup
  unfold cmwpmMatches
  have h3 : occ (((m.map fun x => (cnodeIndex R C x.1, cnodeIndex R C x.2)).filter fun q =>
      inBounds R C q.1.1 q.1.2 || inBounds R C q.2.1 q.2.2).map sortPair) p =
      if p ∈ planarDefects R C s t then 1 else 0 := by
    rw [occ_map_swap sortPair _ p sortPair_cases, occ_filter _ _ p ?_, h1, h2]
    intro x _ hf
    simp only [Bool.or_eq_false_iff] at hf
    constructor
    · intro e; rw [e, hp.2] at hf; cases hf.1
    · intro e; rw [e, hp.2] at hf; cases hf.2
  rw [occ_dedup _ p (by rw [h3]; split <;> omega), h3]

/-! the modelled graph always admits a perfect matching -/

theorem extraV_not_virtual (R C : Int) (t : Bool) : ¬ Virtual R C (extraV t) := by
  intro h
  cases t
  · rcases h.2 with ⟨h1, _⟩ | ⟨_, _, h2, _⟩
    · revert h1; decide
    · simp [extraV] at h2
  · rcases h.2 with ⟨_, _, h2, _⟩ | ⟨h1, _⟩
    · simp [extraV] at h2
    · revert h1; decide

theorem vnodes_nodup (R C : Int) (H : Spec R C) (t : Bool) (ds : List (Int × Int))
    (hds : ∀ d ∈ ds, Real R C d ∧ isPrimal d.1 d.2 = t) : (planarVNodes R C t ds).Nodup := by
  unfold planarVNodes
  simp only
  split
  · rw [List.nodup_append]
    refine ⟨nodup_dedup _, by simp, ?_⟩
    intro a ha b hb
    simp only [List.mem_singleton] at hb
    subst hb
    rw [mem_dedup, List.mem_map] at ha
    obtain ⟨d, hd, rfl⟩ := ha
    intro e
    exact extraV_not_virtual R C t (e ▸ (vpT_spec R C H d (hds d hd).1).1)
  · exact nodup_dedup _

theorem vnodes_parity (R C : Int) (t : Bool) (ds : List (Int × Int)) :
    (ds.length + (planarVNodes R C t ds).length) % 2 = 0 := by
  unfold planarVNodes
  simp only
  split
  · rw [List.length_append]; simp only [List.length_singleton]; omega
  · omega

theorem vpT_mem_vnodes (R C : Int) (t : Bool) (ds : List (Int × Int)) (d : Int × Int) (hd : d ∈ ds) :
    vpT R C d ∈ planarVNodes R C t ds := by
  have : vpT R C d ∈ dedup (ds.map (vpT R C)) := by rw [mem_dedup]; exact List.mem_map_of_mem hd
  unfold planarVNodes
  simp only
  split
  · exact List.mem_append_left _ this
  · exact this

/-- **the modelled graph has a perfect matching** (so a perfect-matching routine never comes back empty-handed):
    pair the defects among themselves, an odd one out with its own virtual plaquette, and the remaining virtual
    nodes among themselves — their number is even precisely because of the extra node on odd totals -/
theorem graph_has_pm (R C : Int) (H : Spec R C) (s : BVec) (t : Bool) :
    ∃ m, isPerfectMatchingOfGraph (planarNodes R C t (planarDefects R C s t))
      (planarEdges R C t (planarDefects R C s t)) m = true := by
  have hds := fun d hd => defects_real R C H s t d hd
  have hdn : (planarDefects R C s t).Nodup := by
    unfold planarDefects
    exact (Pairing.pick_nodup _ _ H.plaquetteIndices_spec.1).filter _
  have hvn := vnodes_nodup R C H t _ hds
  have hpar := vnodes_parity R C t (planarDefects R C s t)
  have hdisj : ∀ a ∈ planarDefects R C s t, ∀ b ∈ planarVNodes R C t (planarDefects R C s t), a ≠ b := by
    intro a ha b hb e
    have := (vnodes_out R C H t _ hds b hb).1.2
    rw [← e, (hds a ha).1.2] at this; cases this
  have hnn : (planarNodes R C t (planarDefects R C s t)).Nodup := by
    unfold planarNodes; rw [List.nodup_append]; exact ⟨hdn, hvn, hdisj⟩
  generalize hD : planarDefects R C s t = ds at *
  generalize hV : planarVNodes R C t ds = vs at *
  have hedgeD : ∀ a b : Int × Int, a ∈ ds → b ∈ ds → a ≠ b →
      (a, b) ∈ planarEdges R C t ds ∨ (b, a) ∈ planarEdges R C t ds := by
    intro a b ha hb hab
    unfold planarEdges
    rcases pairsOf_complete ds a b ha hb hab with h | h
    · exact .inl (List.mem_append_left _ (List.mem_append_right _ h))
    · exact .inr (List.mem_append_left _ (List.mem_append_right _ h))
  have hedgeV : ∀ a b : Int × Int, a ∈ vs → b ∈ vs → a ≠ b →
      (a, b) ∈ planarEdges R C t ds ∨ (b, a) ∈ planarEdges R C t ds := by
    intro a b ha hb hab
    unfold planarEdges
    rw [hV]
    rcases pairsOf_complete vs a b ha hb hab with h | h
    · exact .inl (List.mem_append_right _ h)
    · exact .inr (List.mem_append_right _ h)
  by_cases hev : ds.length % 2 = 0
  · -- even number of defects: defects among themselves, virtual nodes among themselves
    refine ⟨pairUp ds ++ pairUp vs, pm_of_perm _ _ _ hnn ?_ ?_⟩
    · unfold planarNodes
      rw [hV, ends_append, ends_pairUp ds hev, ends_pairUp vs (by omega)]
    · intro x hx
      rw [List.mem_append] at hx
      rcases hx with hx | hx
      · have := pairUp_mem ds hdn x hx; exact hedgeD _ _ this.1 this.2.1 this.2.2
      · have := pairUp_mem vs hvn x hx; exact hedgeV _ _ this.1 this.2.1 this.2.2
  · -- odd: the first defect goes to its own virtual plaquette
    cases ds with
    | nil => simp at hev
    | cons d0 ds' =>
      have hv0 : vpT R C d0 ∈ vs := by rw [← hV]; exact vpT_mem_vnodes R C t _ d0 (by simp)
      rw [List.nodup_cons] at hdn
      have hlen' : ds'.length % 2 = 0 := by simp only [List.length_cons] at hev; omega
      have hlenv : (vs.erase (vpT R C d0)).length % 2 = 0 := by
        rw [List.length_erase_of_mem hv0]
        have : vs.length ≥ 1 := List.length_pos_of_mem hv0
        simp only [List.length_cons] at hpar; omega
      refine ⟨(d0, vpT R C d0) :: (pairUp ds' ++ pairUp (vs.erase (vpT R C d0))), pm_of_perm _ _ _ hnn ?_ ?_⟩
      · unfold planarNodes
        rw [hV]
        have : ends ((d0, vpT R C d0) :: (pairUp ds' ++ pairUp (vs.erase (vpT R C d0)))) =
            d0 :: vpT R C d0 :: (ds' ++ vs.erase (vpT R C d0)) := by
          have e : ∀ (x : (Int × Int) × (Int × Int)) (l : List ((Int × Int) × (Int × Int))),
              ends (x :: l) = x.1 :: x.2 :: ends l := by intro x l; simp [ends]
          rw [e, ends_append, ends_pairUp ds' hlen', ends_pairUp _ hlenv]
        rw [this, List.cons_append]
        apply List.Perm.cons
        have p1 : (vpT R C d0 :: (ds' ++ vs.erase (vpT R C d0))).Perm (ds' ++ vpT R C d0 :: vs.erase (vpT R C d0)) :=
          List.perm_middle.symm
        exact p1.trans (List.Perm.append_left _ (List.perm_cons_erase hv0).symm)
      · intro x hx
        rw [List.mem_cons, List.mem_append] at hx
        rcases hx with rfl | hx | hx
        · left
          unfold planarEdges
          exact List.mem_append_left _ (List.mem_append_left _ (List.mem_map.mpr ⟨d0, by simp, rfl⟩))
        · have := pairUp_mem ds' hdn.2 x hx
          exact hedgeD _ _ (by simp [this.1]) (by simp [this.2.1]) this.2.2
        · have := pairUp_mem _ (hvn.erase _) x hx
          exact hedgeV _ _ (List.mem_of_mem_erase this.1) (List.mem_of_mem_erase this.2.1) this.2.2

end PlanarL

/-! ### rotated planar lattice: the runs of `sample_recovery` -/

namespace RotatedPlanarL
open Qec.RotatedPlanar

def nq (R C : Int) : Nat := (nQubits R C).toNat

theorem identity_length (R C : Int) : (identity R C).length = 2 * nq R C := by simp [identity, nq, zeros]

theorem site_length (R C : Int) (op : P1) (v : BVec) (xy : Int × Int) : (site R C op v xy).length = v.length := by
  unfold site; split
  · exact applyOp_length _ _ _ _
  · rfl

theorem site_xor (R C : Int) (op : P1) (v : BVec) (xy : Int × Int) (hv : v.length = 2 * nq R C) :
    site R C op v xy = xorV v (site R C op (zeros (2 * nq R C)) xy) := by
  unfold site; split
  · have := applyOp_eq_xorV (nQubits R C).toNat op v (flatten R C xy.1 xy.2).toNat
    rw [hv] at this; exact this
  · rw [xorV_zeros_right _ v hv]

theorem sites_length (R C : Int) (op : P1) (l : List (Int × Int)) (v : BVec) (hv : v.length = 2 * nq R C) :
    (sites R C op v l).length = 2 * nq R C :=
  foldl_step_length (2 * nq R C) (site R C op) (fun v x h => by rw [site_length, h]) l v hv

theorem sites_xor (R C : Int) (op : P1) (l : List (Int × Int)) (v : BVec) (hv : v.length = 2 * nq R C) :
    sites R C op v l = xorV v (sites R C op (zeros (2 * nq R C)) l) :=
  foldl_step_xor (2 * nq R C) (site R C op) (fun v x h => by rw [site_length, h])
    (fun v x h => site_xor R C op v x h) l v hv

theorem stabilizers_length (R C : Int) : ∀ s ∈ stabilizers R C, s.length = 2 * nq R C := by
  intro s hs
  simp only [stabilizers, List.mem_map] at hs
  obtain ⟨xy, _, rfl⟩ := hs
  unfold plaquette
  split
  · exact sites_length R C _ _ _ (identity_length R C)
  · exact identity_length R C

theorem stabilizers_plaqs (R C : Int) : (stabilizers R C).length = (plaquetteIndices R C).length := by
  simp [stabilizers]

theorem run_length (R C : Int) (v : BVec) (p : Int × Int) (hv : v.length = 2 * nq R C) :
    (rpRunApply R C v p).length = 2 * nq R C := sites_length R C _ _ v hv

theorem run_xor (R C : Int) (v : BVec) (p : Int × Int) (hv : v.length = 2 * nq R C) :
    rpRunApply R C v p = xorV v (rpRunApply R C (zeros (2 * nq R C)) p) := sites_xor R C _ _ v hv

/-- `sample_recovery` is the XOR of the individual runs -/
theorem sample_eq (R C : Int) (s : BVec) :
    rotatedPlanarSampleRecovery R C s =
      xorAll (2 * nq R C) ((Pairing.pick (plaquetteIndices R C) s).map (rpRunApply R C (identity R C))) := by
  have : identity R C = zeros (2 * nq R C) := by simp [identity, nq]
  unfold rotatedPlanarSampleRecovery
  rw [this]
  exact foldl_step_eq_xorAll (2 * nq R C) (rpRunApply R C) (fun v x h => run_length R C v x h)
    (fun v x h => run_xor R C v x h) _

/-- **hypothesis** (the run-to-boundary lemma of the rotated planar lattice; C15-style, C07 for `nodup`): the run
    from plaquette `p` to the left / bottom boundary anticommutes with exactly the stabilizer of `p` -/
structure Spec (R C : Int) : Prop where
  plaquetteIndices_nodup : (plaquetteIndices R C).Nodup
  run_syndrome : ∀ p ∈ plaquetteIndices R C,
    synd (stabilizers R C) (rpRunApply R C (identity R C) p) = (plaquetteIndices R C).map fun q => decide (q = p)

end RotatedPlanarL

/-! ### toric lattice -/

namespace ToricL
open Qec.Toric

def nq (R C : Int) : Nat := (nQubits R C).toNat

theorem identity_length (R C : Int) : (identity R C).length = 2 * nq R C := by simp [identity, nq, zeros]

theorem site_length (R C : Int) (op : P1) (v : BVec) (i : Idx) : (site R C op v i).length = v.length :=
  applyOp_length _ _ _ _

theorem site_xor (R C : Int) (op : P1) (v : BVec) (i : Idx) (hv : v.length = 2 * nq R C) :
    site R C op v i = xorV v (site R C op (zeros (2 * nq R C)) i) := by
  unfold site
  have := applyOp_eq_xorV (nQubits R C).toNat op v (flatten R C i).toNat
  rw [hv] at this; exact this

theorem sites_length (R C : Int) (op : P1) (l : List Idx) (v : BVec) (hv : v.length = 2 * nq R C) :
    (sites R C op v l).length = 2 * nq R C :=
  foldl_step_length (2 * nq R C) (site R C op) (fun v x h => by rw [site_length, h]) l v hv

theorem sites_xor (R C : Int) (op : P1) (l : List Idx) (v : BVec) (hv : v.length = 2 * nq R C) :
    sites R C op v l = xorV v (sites R C op (identity R C) l) :=
  foldl_step_xor (2 * nq R C) (site R C op) (fun v x h => by rw [site_length, h])
    (fun v x h => site_xor R C op v x h) l v hv

theorem stabilizers_length (R C : Int) : ∀ s ∈ stabilizers R C, s.length = 2 * nq R C := by
  intro s hs
  simp only [stabilizers, List.mem_map] at hs
  obtain ⟨i, _, rfl⟩ := hs
  exact sites_length R C _ _ _ (identity_length R C)

theorem stabilizers_plaqs (R C : Int) : (stabilizers R C).length = (indices R C).length := by
  simp [stabilizers]

def pathT (R C : Int) (a b : Idx) : BVec :=
  match path R C (identity R C) a b with
  | .ok v => v
  | .error _ => identity R C

theorem pathT_length (R C : Int) (a b : Idx) : (pathT R C a b).length = 2 * nq R C := by
  unfold pathT path
  cases translation R C a b with
  | error e => exact identity_length R C
  | ok t => exact sites_length R C _ _ _ (identity_length R C)

theorem path_acc (R C : Int) (v w : BVec) (a b : Idx) (hv : v.length = 2 * nq R C)
    (h : path R C (identity R C) a b = .ok w) : path R C v a b = .ok (xorV v w) := by
  unfold path at h ⊢
  cases ht : translation R C a b with
  | error e => rw [ht] at h; cases h
  | ok t =>
    rw [ht] at h
    simp only [Except.ok.injEq] at h ⊢
    rw [← h]
    exact sites_xor R C _ _ v hv

theorem pathT_of_ok (R C : Int) (a b : Idx) (w : BVec) (h : path R C (identity R C) a b = .ok w) :
    pathT R C a b = w := by
  unfold pathT; rw [h]

theorem foldlM_paths (R C : Int) (mates : List (Idx × Idx))
    (h : ∀ x ∈ mates, ∃ w, path R C (identity R C) x.1 x.2 = .ok w) :
    ∀ v : BVec, v.length = 2 * nq R C →
      mates.foldlM (fun v ab => path R C v ab.1 ab.2) v =
        .ok ((mates.map fun x => pathT R C x.1 x.2).foldl xorV v) := by
  induction mates with
  | nil => intro v _; rfl
  | cons x l ih =>
    intro v hv
    obtain ⟨w, hw⟩ := h x (by simp)
    rw [List.foldlM_cons, path_acc R C v w x.1 x.2 hv hw]
    have hwl : w.length = 2 * nq R C := by rw [← pathT_of_ok R C _ _ w hw]; exact pathT_length R C _ _
    have := ih (fun y hy => h y (by simp [hy])) (xorV v w) (by rw [xorV_length _ _ (by rw [hv, hwl]), hv])
    simp only [List.map_cons, List.foldl_cons, pathT_of_ok R C _ _ w hw]
    exact this

theorem applyMates_eq (R C : Int) (mates : List (Idx × Idx))
    (h : ∀ x ∈ mates, ∃ w, path R C (identity R C) x.1 x.2 = .ok w) :
    applyMates R C mates = .ok (xorAll (2 * nq R C) (mates.map fun x => pathT R C x.1 x.2)) := by
  unfold applyMates xorAll
  exact foldlM_paths R C mates h (identity R C) (identity_length R C)

/-- **hypothesis** (C15 toric path/endpoint lemma; C07 for `nodup`): the path between two plaquettes of the same
    lattice exists and anticommutes with exactly its two endpoints (with nothing when they coincide) -/
structure Spec (R C : Int) : Prop where
  indices_nodup : (indices R C).Nodup
  path_syndrome_vector : ∀ a ∈ indices R C, ∀ b ∈ indices R C, a.1 = b.1 →
    ∃ v, path R C (identity R C) a b = .ok v ∧
      synd (stabilizers R C) v = (indices R C).map fun p => (decide (p = a) != decide (p = b))

def Ok (R C : Int) (a b : Idx) : Prop := a ∈ indices R C ∧ b ∈ indices R C ∧ a.1 = b.1

def pathSpec (R C : Int) (H : Spec R C) : Pairing.PathSpec Idx where
  n := nq R C
  S := stabilizers R C
  plaqs := indices R C
  path := pathT R C
  ok := Ok R C
  S_plaqs := stabilizers_plaqs R C
  S_len := stabilizers_length R C
  path_len := fun a b _ => pathT_length R C a b
  path_synd := fun a b h => by
    obtain ⟨w, hw, hs⟩ := H.path_syndrome_vector a h.1 b h.2.1 h.2.2
    rw [pathT_of_ok R C a b w hw]; exact hs

theorem mem_toricDefects (R C : Int) (s : BVec) (l : Int) (p : Idx) :
    p ∈ toricDefects R C s l ↔ p ∈ Pairing.pick (indices R C) s ∧ p.1 = l := by
  unfold toricDefects
  rw [List.mem_filter]
  have : syndromeToPlaquettes R C s = Pairing.pick (indices R C) s := rfl
  rw [this]; simp

theorem indices_lattice (R C : Int) (p : Idx) (hp : p ∈ indices R C) : p.1 = 0 ∨ p.1 = 1 := by
  unfold indices at hp
  simp only [List.mem_flatMap, List.mem_range, List.mem_map] at hp
  obtain ⟨l, hl, r, _, c, _, rfl⟩ := hp
  have : l = 0 ∨ l = 1 := by omega
  rcases this with rfl | rfl <;> simp

/-- with an even number of defects the node set of the lattice graph is the defect list -/
theorem toricNodes_even (ds : List Idx) (h : ds.length % 2 = 0) : toricNodes ds = ds := by
  unfold toricNodes
  split
  · rename_i hlt
    have : ds.length = 0 := by omega
    rw [List.length_eq_zero_iff.mp this]
  · rfl

theorem pm_ok (R C : Int) (s : BVec) (l : Int) (m : List (Idx × Idx))
    (hm : isPerfectMatchingOfGraph (toricNodes (toricDefects R C s l)) (toricEdges (toricDefects R C s l)) m = true) :
    ∀ x ∈ m, Ok R C x.1 x.2 := by
  have hd : ∀ d ∈ toricDefects R C s l, d ∈ indices R C ∧ d.1 = l := by
    intro d hd
    rw [mem_toricDefects] at hd
    exact ⟨Pairing.pick_subset _ _ d hd.1, hd.2⟩
  have hedge : ∀ a b : Idx, (a, b) ∈ toricEdges (toricDefects R C s l) → Ok R C a b := by
    intro a b hab
    have := mem_pairsOf _ a b hab
    exact ⟨(hd a this.1).1, (hd b this.2).1, (hd a this.1).2.trans (hd b this.2).2.symm⟩
  intro x hx
  rcases pm_edges _ _ _ hm x hx with h | h
  · exact hedge _ _ h
  · have := hedge _ _ h
    exact ⟨this.2.1, this.1, this.2.2.symm⟩

/-- with an even number of defects the complete graph on them has a perfect matching -/
theorem graph_has_pm (R C : Int) (H : Spec R C) (s : BVec) (l : Int)
    (hev : (toricDefects R C s l).length % 2 = 0) :
    ∃ m, isPerfectMatchingOfGraph (toricNodes (toricDefects R C s l)) (toricEdges (toricDefects R C s l)) m = true := by
  have hdn : (toricDefects R C s l).Nodup := by
    unfold toricDefects
    exact (Pairing.pick_nodup _ _ H.indices_nodup).filter _
  rw [toricNodes_even _ hev]
  refine ⟨pairUp (toricDefects R C s l), pm_of_perm _ _ _ hdn ?_ ?_⟩
  · rw [ends_pairUp _ hev]
  · intro x hx
    have := pairUp_mem _ hdn x hx
    exact pairsOf_complete _ _ _ this.1 this.2.1 this.2.2

end ToricL

/-! ### colour 6.6.6 lattice: the runs of `sample_recovery` -/

namespace Color666L
open Qec.Color666

def nq (L : Int) : Nat := (nQubits L).toNat

theorem identity_length (L : Int) : (identity L).length = 2 * nq L := by simp [identity, nq, zeros]

theorem site_length (L : Int) (op : P1) (v : BVec) (rc : Int × Int) : (site L op v rc).length = v.length := by
  unfold site; split
  · exact applyOp_length _ _ _ _
  · rfl

theorem site_xor (L : Int) (op : P1) (v : BVec) (rc : Int × Int) (hv : v.length = 2 * nq L) :
    site L op v rc = xorV v (site L op (zeros (2 * nq L)) rc) := by
  unfold site; split
  · have := applyOp_eq_xorV (nQubits L).toNat op v (flatten rc.1 rc.2).toNat
    rw [hv] at this; exact this
  · rw [xorV_zeros_right _ v hv]

theorem sites_length (L : Int) (op : P1) (l : List (Int × Int)) (v : BVec) (hv : v.length = 2 * nq L) :
    (sites L op v l).length = 2 * nq L :=
  foldl_step_length (2 * nq L) (site L op) (fun v x h => by rw [site_length, h]) l v hv

theorem sites_xor (L : Int) (op : P1) (l : List (Int × Int)) (v : BVec) (hv : v.length = 2 * nq L) :
    sites L op v l = xorV v (sites L op (zeros (2 * nq L)) l) :=
  foldl_step_xor (2 * nq L) (site L op) (fun v x h => by rw [site_length, h])
    (fun v x h => site_xor L op v x h) l v hv

theorem stabilizers_length (L : Int) : ∀ s ∈ stabilizers L, s.length = 2 * nq L := by
  intro s hs
  simp only [stabilizers, List.mem_append, List.mem_map] at hs
  rcases hs with ⟨rc, _, rfl⟩ | ⟨rc, _, rfl⟩ <;> exact sites_length L _ _ _ (identity_length L)

/-- a stabilizer generator: `(false, p)` the X-type, `(true, p)` the Z-type plaquette operator of `p` -/
abbrev CNodeS := Bool × (Int × Int)

/-- the generators in the order of the rows of `stabilizers` -/
def cplaqs (L : Int) : List CNodeS :=
  (plaquetteIndices L).map (fun p => (false, p)) ++ (plaquetteIndices L).map (fun p => (true, p))

theorem stabilizers_plaqs (L : Int) : (stabilizers L).length = (cplaqs L).length := by
  simp [stabilizers, cplaqs]

/-- the run correcting generator `x`: a Z-run for an X-type defect, an X-run for a Z-type defect -/
def crunApply (L : Int) (v : BVec) (x : CNodeS) : BVec := colorRunApply L (if x.1 then P1.X else P1.Z) v x.2

/-- the defects as generators -/
def cdefects (L : Int) (s : BVec) : List CNodeS :=
  (syndromeToPlaquettes L s).1.map (fun p => (false, p)) ++ (syndromeToPlaquettes L s).2.map (fun p => (true, p))

theorem run_length (L : Int) (v : BVec) (x : CNodeS) (hv : v.length = 2 * nq L) :
    (crunApply L v x).length = 2 * nq L := sites_length L _ _ v hv

theorem run_xor (L : Int) (v : BVec) (x : CNodeS) (hv : v.length = 2 * nq L) :
    crunApply L v x = xorV v (crunApply L (zeros (2 * nq L)) x) := sites_xor L _ _ v hv

theorem sample_eq (L : Int) (s : BVec) :
    color666SampleRecovery L s = xorAll (2 * nq L) ((cdefects L s).map (crunApply L (identity L))) := by
  have hid : identity L = zeros (2 * nq L) := by simp [identity, nq]
  have : color666SampleRecovery L s = (cdefects L s).foldl (crunApply L) (identity L) := by
    unfold color666SampleRecovery cdefects
    simp only [List.foldl_append, List.foldl_map]
    rfl
  rw [this, hid]
  exact foldl_step_eq_xorAll (2 * nq L) (crunApply L) (fun v x h => run_length L v x h)
    (fun v x h => run_xor L v x h) _

/-- **hypothesis** (the run-to-boundary lemma of the colour 6.6.6 lattice; C07 for `nodup`): the run from
    plaquette `p` to the boundary of its colour, made of Z (resp. X) operators, anticommutes with exactly the
    X-type (resp. Z-type) generator of `p` -/
structure Spec (L : Int) : Prop where
  plaquetteIndices_nodup : (plaquetteIndices L).Nodup
  run_syndrome : ∀ x ∈ cplaqs L,
    synd (stabilizers L) (crunApply L (identity L) x) = (cplaqs L).map fun q => decide (q = x)

theorem cdefects_nodup (L : Int) (s : BVec) (h : (plaquetteIndices L).Nodup) : (cdefects L s).Nodup := by
  unfold cdefects
  rw [List.nodup_append]
  refine ⟨?_, ?_, ?_⟩
  · exact (Pairing.pick_nodup _ _ h).map (fun a b e => by simpa using e)
  · exact (Pairing.pick_nodup _ _ h).map (fun a b e => by simpa using e)
  · intro a ha b hb
    rw [List.mem_map] at ha hb
    obtain ⟨p, _, rfl⟩ := ha
    obtain ⟨q, _, rfl⟩ := hb
    simp

theorem cdefects_subset (L : Int) (s : BVec) : ∀ x ∈ cdefects L s, x ∈ cplaqs L := by
  intro x hx
  unfold cdefects at hx
  unfold cplaqs
  rw [List.mem_append, List.mem_map, List.mem_map] at hx
  rw [List.mem_append, List.mem_map, List.mem_map]
  rcases hx with ⟨p, hp, rfl⟩ | ⟨p, hp, rfl⟩
  · exact .inl ⟨p, Pairing.pick_subset _ _ p hp, rfl⟩
  · exact .inr ⟨p, Pairing.pick_subset _ _ p hp, rfl⟩

/-- the tagged defect list determines the syndrome vector (`hsplit` into the X- and Z-halves) -/
theorem map_mem_cdefects (L : Int) (s : BVec) (hn : (plaquetteIndices L).Nodup)
    (hl : s.length = 2 * (plaquetteIndices L).length) :
    ((cplaqs L).map fun q => decide (q ∈ cdefects L s)) = s := by
  have hh : s.length / 2 = (plaquetteIndices L).length := by omega
  have e1 : ((plaquetteIndices L).map fun p => decide (((false, p) : CNodeS) ∈ cdefects L s)) =
      s.take (s.length / 2) := by
    rw [← Pairing.map_mem_pick (plaquetteIndices L) (s.take (s.length / 2)) hn (by rw [List.length_take]; omega)]
    apply List.map_congr_left; intro p _
    unfold cdefects syndromeToPlaquettes
    simp [Pairing.pick]
  have e2 : ((plaquetteIndices L).map fun p => decide (((true, p) : CNodeS) ∈ cdefects L s)) =
      s.drop (s.length / 2) := by
    rw [← Pairing.map_mem_pick (plaquetteIndices L) (s.drop (s.length / 2)) hn (by rw [List.length_drop]; omega)]
    apply List.map_congr_left; intro p _
    unfold cdefects syndromeToPlaquettes
    simp [Pairing.pick]
  unfold cplaqs
  rw [List.map_append, List.map_map, List.map_map]
  have : s = s.take (s.length / 2) ++ s.drop (s.length / 2) := (List.take_append_drop _ _).symm
  conv => rhs; rw [this]
  rw [← e1, ← e2]
  rfl

end Color666L

end Qec.Dec
