/-
  Helper lemmas for C02 (`Model/Decoders.lean`): toggling is XOR-ing, folds of lattice operators are XOR-folds,
  `applyMates` is the XOR of the individual paths, matchings and endpoint counts, the naive decoder, the monitor.
-/
import QecVerif.Model.Decoders
import QecVerif.Lemmas.GF2
import QecVerif.Lemmas.RunOnce
import QecVerif.Lemmas.IPauli
import QecVerif.Lemmas.Pairing
import QecVerif.Props.C09
namespace Qec.Dec
open Qec

/-! ### toggling a bit is XOR-ing a unit vector -/

theorem toggle_length (v : BVec) (i : Nat) : (toggle v i).length = v.length := by simp [toggle]

theorem toggle_eq_xorV (v : BVec) (i : Nat) : toggle v i = xorV v (toggle (zeros v.length) i) := by
  induction v generalizing i with
  | nil => simp [toggle, xorV]
  | cons x xs ih =>
    cases i with
    | zero =>
      have := xorV_zeros_right xs.length xs rfl
      simp only [xorV, zeros] at this
      simp [toggle, xorV, zeros, List.replicate_succ, this]
    | succ i =>
      have := ih i
      simp only [toggle, xorV, zeros] at this
      simp only [toggle, xorV, zeros, List.length_cons, List.replicate_succ, List.modify_succ_cons,
        List.zipWith_cons_cons, Bool.xor_false]
      rw [← this]

theorem applyOp_length (n : Nat) (op : P1) (v : BVec) (f : Nat) : (applyOp n op v f).length = v.length := by
  unfold applyOp
  split <;> split <;> simp [toggle_length]

theorem applyOp_eq_xorV (n : Nat) (op : P1) (v : BVec) (f : Nat) :
    applyOp n op v f = xorV v (applyOp n op (zeros v.length) f) := by
  unfold applyOp
  by_cases hx : op.xBit = true <;> by_cases hz : op.zBit = true <;> simp only [hx, hz, if_true, if_false]
  · rw [toggle_eq_xorV (toggle v f), toggle_length, toggle_eq_xorV v f, xorV_assoc]
    congr 1
    rw [toggle_eq_xorV (toggle (zeros v.length) f), toggle_length, zeros_length]
  · exact toggle_eq_xorV v f
  · exact toggle_eq_xorV v _
  · simp at hx hz
    simp [hx, hz, xorV_zeros_right]

/-! ### folds of operators that act by XOR -/

theorem foldl_step_xor {α : Type} (k : Nat) (step : BVec → α → BVec)
    (hlen : ∀ v x, v.length = k → (step v x).length = k)
    (hx : ∀ v x, v.length = k → step v x = xorV v (step (zeros k) x)) :
    ∀ (l : List α) (v : BVec), v.length = k → l.foldl step v = xorV v (l.foldl step (zeros k)) := by
  intro l
  induction l with
  | nil => intro v hv; simp [xorV_zeros_right k v hv]
  | cons x l ih =>
    intro v hv
    simp only [List.foldl_cons]
    rw [ih (step v x) (hlen v x hv), ih (step (zeros k) x) (hlen _ x (zeros_length k)), hx v x hv, xorV_assoc]

theorem foldl_step_length {α : Type} (k : Nat) (step : BVec → α → BVec)
    (hlen : ∀ v x, v.length = k → (step v x).length = k) :
    ∀ (l : List α) (v : BVec), v.length = k → (l.foldl step v).length = k := by
  intro l
  induction l with
  | nil => intro v hv; simpa using hv
  | cons x l ih => intro v hv; simp only [List.foldl_cons]; exact ih _ (hlen v x hv)

theorem xorAll_cons (k : Nat) (a : BVec) (l : List BVec) : xorAll k (a :: l) = xorV a (xorAll k l) := by
  unfold xorAll
  rw [List.foldl_cons, foldl_xorV_push, xorV_comm]

theorem foldl_step_eq_xorAll {α : Type} (k : Nat) (step : BVec → α → BVec)
    (hlen : ∀ v x, v.length = k → (step v x).length = k)
    (hx : ∀ v x, v.length = k → step v x = xorV v (step (zeros k) x)) (l : List α) :
    l.foldl step (zeros k) = xorAll k (l.map (step (zeros k))) := by
  induction l with
  | nil => rfl
  | cons x l ih =>
    rw [List.foldl_cons, List.map_cons, xorAll_cons,
      foldl_step_xor k step hlen hx l _ (hlen _ x (zeros_length k)), ih]

/-! ### the monitor -/

theorem xorV_eq_zeros (a b : BVec) (h : a.length = b.length) (hz : xorV a b = zeros a.length) : a = b := by
  have h1 : xorV (xorV a b) b = a := by
    rw [xorV_assoc, xorV_self, ← h, xorV_zeros_right _ a rfl]
  rw [hz, xorV_zeros_left _ b h.symm] at h1
  exact h1.symm

/-! ### the naive decoder -/

theorem ofBsf_length (e : BVec) (n : Nat) (h : e.length = 2 * n) : (ofBsf e).length = n := by
  unfold ofBsf
  rw [List.length_zipWith, xHalf_length, zHalf_length, h]
  omega

theorem pauliWt_le (p : PStr) : pauliWt p ≤ p.length := by
  unfold pauliWt; exact List.countP_le_length


/-! ### matchings, endpoints, `pairsOf`, `dedup` -/

theorem ends_append {α : Type} (a b : List (α × α)) : ends (a ++ b) = ends a ++ ends b := by
  simp [ends]

/-- number of occurrences of `p` among the endpoints of `m` (stated generically so that the `BEq` instance is
    the one the model and the pairing theorem use) -/
def occ {α : Type} [DecidableEq α] (m : List (α × α)) (p : α) : Nat := (ends m).count p

theorem occ_append {α : Type} [DecidableEq α] (a b : List (α × α)) (p : α) :
    occ (a ++ b) p = occ a p + occ b p := by
  unfold occ; rw [ends_append, List.count_append]

/-- in a perfect matching, a vertex that is a node occurs once, anything else never -/
theorem pm_occ_gen {α : Type} [DecidableEq α] (nodes : List α) (edges m : List (α × α))
    (h : isPerfectMatchingOfGraph nodes edges m = true) (p : α) :
    occ m p = if p ∈ nodes then 1 else 0 := by
  unfold isPerfectMatchingOfGraph at h
  simp only [Bool.and_eq_true, List.all_eq_true] at h
  unfold occ
  by_cases hp : p ∈ nodes
  · rw [if_pos hp]; simpa using h.1.2 p hp
  · rw [if_neg hp]
    apply List.count_eq_zero_of_not_mem
    intro hm; exact hp (by simpa using h.2 p hm)

theorem occ_map {α : Type} [DecidableEq α] (l : List α) (f : α → α) (p : α) (hn : l.Nodup)
    (hf : ∀ d ∈ l, f d ≠ p) : occ (l.map fun d => (d, f d)) p = if p ∈ l then 1 else 0 := by
  unfold occ
  induction l with
  | nil => rfl
  | cons d l ih =>
    have he : ends ((d :: l).map fun d => (d, f d)) = d :: f d :: ends (l.map fun d => (d, f d)) := by simp [ends]
    rw [List.nodup_cons] at hn
    rw [he, List.count_cons, List.count_cons, ih hn.2 (fun x hx => hf x (by simp [hx]))]
    have h1 : (f d == p) = false := by simpa using hf d (by simp)
    by_cases hd : d = p
    · subst hd; simp [h1, hn.1]
    · have : ¬ p = d := fun h => hd h.symm
      simp [h1, hd, this]

theorem mem_pairsOf {α : Type} (l : List α) (a b : α) (h : (a, b) ∈ pairsOf l) : a ∈ l ∧ b ∈ l := by
  induction l with
  | nil => simp [pairsOf] at h
  | cons x xs ih =>
    simp only [pairsOf, List.mem_append, List.mem_map] at h
    rcases h with ⟨y, hy, he⟩ | h
    · simp only [Prod.mk.injEq] at he
      obtain ⟨rfl, rfl⟩ := he
      exact ⟨by simp, by simp [hy]⟩
    · have := ih h
      exact ⟨by simp [this.1], by simp [this.2]⟩

theorem mem_dedup {α : Type} [DecidableEq α] (l : List α) (x : α) : x ∈ dedup l ↔ x ∈ l := by
  induction l with
  | nil => simp [dedup]
  | cons y ys ih =>
    unfold dedup
    split
    · rename_i hy
      rw [ih, List.mem_cons]
      constructor
      · exact Or.inr
      · rintro (rfl | h)
        · exact (ih).mp (by rw [ih] at hy ⊢; exact hy) |> fun h => h
        · exact h
    · rw [List.mem_cons, List.mem_cons, ih]

theorem pm_edges {α : Type} [DecidableEq α] (nodes : List α) (edges m : List (α × α))
    (h : isPerfectMatchingOfGraph nodes edges m = true) :
    ∀ x ∈ m, (x.1, x.2) ∈ edges ∨ (x.2, x.1) ∈ edges := by
  unfold isPerfectMatchingOfGraph at h
  simp only [Bool.and_eq_true, List.all_eq_true] at h
  intro x hx
  have := h.1.1 x hx
  simpa [isEdge] using this

theorem pm_count {α : Type} [DecidableEq α] (nodes : List α) (edges m : List (α × α))
    (h : isPerfectMatchingOfGraph nodes edges m = true) : ∀ v ∈ nodes, (ends m).count v = 1 := by
  unfold isPerfectMatchingOfGraph at h
  simp only [Bool.and_eq_true, List.all_eq_true] at h
  intro v hv
  simpa using h.1.2 v hv

theorem pm_ends {α : Type} [DecidableEq α] (nodes : List α) (edges m : List (α × α))
    (h : isPerfectMatchingOfGraph nodes edges m = true) : ∀ v ∈ ends m, v ∈ nodes := by
  unfold isPerfectMatchingOfGraph at h
  simp only [Bool.and_eq_true, List.all_eq_true] at h
  intro v hv
  simpa using h.2 v hv

/-! ### planar lattice: operators act by XOR; `applyMates` is the XOR of the paths -/

namespace PlanarL
open Qec.Planar

/-- number of qubits as a `Nat` -/
def nq (R C : Int) : Nat := (nQubits R C).toNat

theorem identity_length (R C : Int) : (identity R C).length = 2 * nq R C := by simp [identity, nq, zeros]

theorem site_length (R C : Int) (op : P1) (v : BVec) (rc : Int × Int) : (site R C op v rc).length = v.length := by
  unfold site; split
  · exact applyOp_length _ _ _ _
  · rfl

theorem site_xor (R C : Int) (op : P1) (v : BVec) (rc : Int × Int) (hv : v.length = 2 * nq R C) :
    site R C op v rc = xorV v (site R C op (zeros (2 * nq R C)) rc) := by
  unfold site; split
  · have := applyOp_eq_xorV (nQubits R C).toNat op v (flatten R C rc.1 rc.2).toNat
    rw [hv] at this; exact this
  · rw [xorV_zeros_right _ v hv]

theorem sites_length (R C : Int) (op : P1) (l : List (Int × Int)) (v : BVec) (hv : v.length = 2 * nq R C) :
    (sites R C op v l).length = 2 * nq R C :=
  foldl_step_length (2 * nq R C) (site R C op) (fun v x h => by rw [site_length, h]) l v hv

theorem sites_xor (R C : Int) (op : P1) (l : List (Int × Int)) (v : BVec) (hv : v.length = 2 * nq R C) :
    sites R C op v l = xorV v (sites R C op (identity R C) l) :=
  foldl_step_xor (2 * nq R C) (site R C op) (fun v x h => by rw [site_length, h])
    (fun v x h => site_xor R C op v x h) l v hv

theorem stabilizers_length (R C : Int) : ∀ s ∈ stabilizers R C, s.length = 2 * nq R C := by
  intro s hs
  simp only [stabilizers, List.mem_map] at hs
  obtain ⟨rc, _, rfl⟩ := hs
  exact sites_length R C _ _ _ (identity_length R C)

theorem stabilizers_plaqs (R C : Int) : (stabilizers R C).length = (plaquetteIndices R C).length := by
  simp [stabilizers]

/-- the path operator between `a` and `b` as a vector (identity when `path` raises) -/
def pathT (R C : Int) (a b : Int × Int) : BVec :=
  match path R C (identity R C) a b with
  | .ok v => v
  | .error _ => identity R C

theorem pathT_length (R C : Int) (a b : Int × Int) : (pathT R C a b).length = 2 * nq R C := by
  unfold pathT path
  cases translation R C a b with
  | error e => exact identity_length R C
  | ok t => exact sites_length R C _ _ _ (identity_length R C)

theorem path_acc (R C : Int) (v w : BVec) (a b : Int × Int) (hv : v.length = 2 * nq R C)
    (h : path R C (identity R C) a b = .ok w) : path R C v a b = .ok (xorV v w) := by
  unfold path at h ⊢
  cases ht : translation R C a b with
  | error e => rw [ht] at h; cases h
  | ok t =>
    rw [ht] at h
    simp only [Except.ok.injEq] at h ⊢
    rw [← h]
    exact sites_xor R C _ _ v hv

theorem pathT_of_ok (R C : Int) (a b : Int × Int) (w : BVec) (h : path R C (identity R C) a b = .ok w) :
    pathT R C a b = w := by
  unfold pathT; rw [h]

theorem foldlM_paths (R C : Int) (mates : List ((Int × Int) × (Int × Int)))
    (h : ∀ x ∈ mates, ∃ w, path R C (identity R C) x.1 x.2 = .ok w) :
    ∀ v : BVec, v.length = 2 * nq R C →
      mates.foldlM (fun v ab => path R C v ab.1 ab.2) v =
        .ok ((mates.map fun x => pathT R C x.1 x.2).foldl xorV v) := by
  induction mates with
  | nil => intro v _; rfl
  | cons x l ih =>
    intro v hv
    obtain ⟨w, hw⟩ := h x (by simp)
    rw [List.foldlM_cons, path_acc R C v w x.1 x.2 hv hw]
    have hwl : w.length = 2 * nq R C := by rw [← pathT_of_ok R C _ _ w hw]; exact pathT_length R C _ _
    have := ih (fun y hy => h y (by simp [hy])) (xorV v w) (by rw [xorV_length _ _ (by rw [hv, hwl]), hv])
    simp only [List.map_cons, List.foldl_cons, pathT_of_ok R C _ _ w hw]
    exact this

/-- `applyMates` (the code's accumulation of `path` calls into one Pauli) is the XOR of the individual paths -/
theorem applyMates_eq (R C : Int) (mates : List ((Int × Int) × (Int × Int)))
    (h : ∀ x ∈ mates, ∃ w, path R C (identity R C) x.1 x.2 = .ok w) :
    applyMates R C mates = .ok (xorAll (2 * nq R C) (mates.map fun x => pathT R C x.1 x.2)) := by
  unfold applyMates xorAll
  exact foldlM_paths R C mates h (identity R C) (identity_length R C)

/-! the C15 / C07 facts about the planar lattice that C02 uses, as an explicit hypothesis
    (definitions and statements copied from `Props/C15/Planar.lean`) -/

/-- an in-lattice plaquette -/
def Real (R C : Int) (a : Int × Int) : Prop := isPlaquette a.1 a.2 = true ∧ inBounds R C a.1 a.2 = true

/-- a virtual plaquette just outside the matching boundary -/
def Virtual (R C : Int) (a : Int × Int) : Prop :=
  isPlaquette a.1 a.2 = true ∧
  ((isPrimal a.1 a.2 = true ∧ (a.1 = -1 ∨ a.1 = 2 * R - 1) ∧ 0 ≤ a.2 ∧ a.2 ≤ 2 * C - 2) ∨
   (isPrimal a.1 a.2 = false ∧ (a.2 = -1 ∨ a.2 = 2 * C - 1) ∧ 0 ≤ a.1 ∧ a.1 ≤ 2 * R - 2))

def Endpoint (R C : Int) (a : Int × Int) : Prop := Real R C a ∨ Virtual R C a

/-- a plaquette index outside the lattice (boundary-virtual or the extra well-off-boundary node) -/
def OutPlaq (R C : Int) (a : Int × Int) : Prop := isPlaquette a.1 a.2 = true ∧ inBounds R C a.1 a.2 = false

/-- **hypothesis** (proved in Props/C15/Planar.lean: `plaquetteIndices_spec`, `path_syndrome_vector`,
    `virtualPlaquette_spec`) -/
structure Spec (R C : Int) : Prop where
  plaquetteIndices_spec : (plaquetteIndices R C).Nodup ∧ ∀ p, p ∈ plaquetteIndices R C ↔ Real R C p
  path_syndrome_vector : ∀ a b : Int × Int, Endpoint R C a → Endpoint R C b →
    isPrimal a.1 a.2 = isPrimal b.1 b.2 →
    ∃ v, path R C (identity R C) a b = .ok v ∧
      synd (stabilizers R C) v = (plaquetteIndices R C).map fun p => (decide (p = a) != decide (p = b))
  virtualPlaquette_spec : ∀ p : Int × Int, Real R C p →
    ∃ v, virtualPlaquette R C p.1 p.2 = .ok v ∧ Virtual R C v ∧ isPrimal v.1 v.2 = isPrimal p.1 p.2

theorem virtual_out (R C : Int) (a : Int × Int) (h : Virtual R C a) : OutPlaq R C a := by
  refine ⟨h.1, ?_⟩
  unfold inBounds maxRow maxCol
  rcases h.2 with ⟨_, h1, _, _⟩ | ⟨_, h1, _, _⟩ <;> rcases h1 with h1 | h1 <;> simp [h1] <;> omega

/-- between two off-lattice plaquettes of the same type the path is empty -/
theorem path_out_out (R C : Int) (v : BVec) (a b : Int × Int) (ha : OutPlaq R C a) (hb : OutPlaq R C b)
    (hab : isPrimal a.1 a.2 = isPrimal b.1 b.2) : path R C v a b = .ok v := by
  unfold path translation
  simp [ha.1, hb.1, ha.2, hb.2, hab, pathSites, sites]

/-- admissible pairs -/
def Ok (R C : Int) (a b : Int × Int) : Prop :=
  isPrimal a.1 a.2 = isPrimal b.1 b.2 ∧
    ((Endpoint R C a ∧ Endpoint R C b) ∨ (OutPlaq R C a ∧ OutPlaq R C b))

theorem ok_symm (R C : Int) (a b : Int × Int) (h : Ok R C a b) : Ok R C b a :=
  ⟨h.1.symm, h.2.elim (fun x => .inl ⟨x.2, x.1⟩) (fun x => .inr ⟨x.2, x.1⟩)⟩

theorem ok_path (R C : Int) (H : Spec R C) (a b : Int × Int) (h : Ok R C a b) :
    ∃ w, path R C (identity R C) a b = .ok w ∧
      synd (stabilizers R C) w = (plaquetteIndices R C).map fun p => (decide (p = a) != decide (p = b)) := by
  rcases h.2 with ⟨ha, hb⟩ | ⟨ha, hb⟩
  · exact H.path_syndrome_vector a b ha hb h.1
  · refine ⟨identity R C, path_out_out R C _ a b ha hb h.1, ?_⟩
    have : identity R C = zeros (2 * nq R C) := by simp [identity, nq]
    rw [this, synd_zeros, stabilizers_plaqs]
    have hz : zeros (plaquetteIndices R C).length = (plaquetteIndices R C).map fun _ => false := by
      simp [zeros]
    rw [hz]
    apply List.map_congr_left
    intro p hp
    have hr := (H.plaquetteIndices_spec.2 p).mp hp
    have h1 : p ≠ a := by intro e; subst e; have := ha.2; rw [hr.2] at this; cases this
    have h2 : p ≠ b := by intro e; subst e; have := hb.2; rw [hr.2] at this; cases this
    simp [h1, h2]

/-- the planar lattice as an instance of the pairing theorem's interface -/
def pathSpec (R C : Int) (H : Spec R C) : Pairing.PathSpec (Int × Int) where
  n := nq R C
  S := stabilizers R C
  plaqs := plaquetteIndices R C
  path := pathT R C
  ok := Ok R C
  S_plaqs := stabilizers_plaqs R C
  S_len := stabilizers_length R C
  path_len := fun a b _ => pathT_length R C a b
  path_synd := fun a b h => by
    obtain ⟨w, hw, hs⟩ := ok_path R C H a b h
    rw [pathT_of_ok R C a b w hw]; exact hs


/-! facts about the modelled planar graph -/

theorem s2p_eq_pick (R C : Int) (s : BVec) :
    syndromeToPlaquettes R C s = Pairing.pick (plaquetteIndices R C) s := rfl

theorem vpT_spec (R C : Int) (H : Spec R C) (d : Int × Int) (hd : Real R C d) :
    Virtual R C (vpT R C d) ∧ isPrimal (vpT R C d).1 (vpT R C d).2 = isPrimal d.1 d.2 := by
  obtain ⟨v, hv, h1, h2⟩ := H.virtualPlaquette_spec d hd
  have : vpT R C d = v := by unfold vpT; rw [hv]
  rw [this]; exact ⟨h1, h2⟩

theorem mem_planarDefects (R C : Int) (s : BVec) (t : Bool) (p : Int × Int) :
    p ∈ planarDefects R C s t ↔ p ∈ Pairing.pick (plaquetteIndices R C) s ∧ isPrimal p.1 p.2 = t := by
  unfold planarDefects
  rw [List.mem_filter, s2p_eq_pick]
  simp

theorem defects_real (R C : Int) (H : Spec R C) (s : BVec) (t : Bool) (d : Int × Int)
    (hd : d ∈ planarDefects R C s t) : Real R C d ∧ isPrimal d.1 d.2 = t := by
  rw [mem_planarDefects] at hd
  exact ⟨(H.plaquetteIndices_spec.2 d).mp (Pairing.pick_subset _ _ d hd.1), hd.2⟩

theorem extraV_out (R C : Int) (t : Bool) : OutPlaq R C (extraV t) ∧ isPrimal (extraV t).1 (extraV t).2 = t := by
  cases t <;> refine ⟨⟨by decide, ?_⟩, by decide⟩ <;> simp [extraV, inBounds]

theorem vnodes_out (R C : Int) (H : Spec R C) (t : Bool) (ds : List (Int × Int))
    (hds : ∀ d ∈ ds, Real R C d ∧ isPrimal d.1 d.2 = t) (v : Int × Int) (hv : v ∈ planarVNodes R C t ds) :
    OutPlaq R C v ∧ isPrimal v.1 v.2 = t := by
  have hmem : v = extraV t ∨ ∃ d ∈ ds, v = vpT R C d := by
    unfold planarVNodes at hv
    simp only at hv
    split at hv
    · rw [List.mem_append] at hv
      rcases hv with hv | hv
      · rw [mem_dedup, List.mem_map] at hv
        obtain ⟨d, hd, rfl⟩ := hv; exact .inr ⟨d, hd, rfl⟩
      · simp at hv; exact .inl hv
    · rw [mem_dedup, List.mem_map] at hv
      obtain ⟨d, hd, rfl⟩ := hv; exact .inr ⟨d, hd, rfl⟩
  rcases hmem with rfl | ⟨d, hd, rfl⟩
  · exact extraV_out R C t
  · have := vpT_spec R C H d (hds d hd).1
    exact ⟨virtual_out R C _ this.1, this.2.trans (hds d hd).2⟩

/-- every pair of a perfect matching of the modelled graph is an admissible pair -/
theorem pm_ok (R C : Int) (H : Spec R C) (s : BVec) (t : Bool) (m : List ((Int × Int) × (Int × Int)))
    (hm : isPerfectMatchingOfGraph (planarNodes R C t (planarDefects R C s t))
      (planarEdges R C t (planarDefects R C s t)) m = true) : ∀ x ∈ m, Ok R C x.1 x.2 := by
  have hds := fun d hd => defects_real R C H s t d hd
  have hedge : ∀ a b : Int × Int, (a, b) ∈ planarEdges R C t (planarDefects R C s t) → Ok R C a b := by
    intro a b hab
    unfold planarEdges at hab
    rw [List.mem_append, List.mem_append, List.mem_map] at hab
    rcases hab with (⟨d, hd, he⟩ | hab) | hab
    · simp only [Prod.mk.injEq] at he
      obtain ⟨rfl, rfl⟩ := he
      have hv := vpT_spec R C H d (hds d hd).1
      exact ⟨hv.2.symm, .inl ⟨.inl (hds d hd).1, .inr hv.1⟩⟩
    · have := mem_pairsOf _ a b hab
      exact ⟨(hds a this.1).2.trans (hds b this.2).2.symm, .inl ⟨.inl (hds a this.1).1, .inl (hds b this.2).1⟩⟩
    · have := mem_pairsOf _ a b hab
      have ha := vnodes_out R C H t _ hds a this.1
      have hb := vnodes_out R C H t _ hds b this.2
      exact ⟨ha.2.trans hb.2.symm, .inr ⟨ha.1, hb.1⟩⟩
  intro x hx
  rcases pm_edges _ _ _ hm x hx with h | h
  · exact hedge _ _ h
  · exact ok_symm R C _ _ (hedge _ _ h)

/-- in a perfect matching of the modelled graph an in-lattice plaquette is an endpoint exactly once when it is a
    defect of that type and never otherwise -/
theorem pm_occ (R C : Int) (H : Spec R C) (s : BVec) (t : Bool) (m : List ((Int × Int) × (Int × Int)))
    (hm : isPerfectMatchingOfGraph (planarNodes R C t (planarDefects R C s t))
      (planarEdges R C t (planarDefects R C s t)) m = true) (p : Int × Int) (hp : Real R C p) :
    occ m p = if p ∈ planarDefects R C s t then 1 else 0 := by
  have hds := fun d hd => defects_real R C H s t d hd
  rw [pm_occ_gen _ _ _ hm p]
  have : p ∈ planarNodes R C t (planarDefects R C s t) ↔ p ∈ planarDefects R C s t := by
    unfold planarNodes
    rw [List.mem_append]
    constructor
    · rintro (h | h)
      · exact h
      · have := (vnodes_out R C H t _ hds p h).1.2
        rw [hp.2] at this; cases this
    · exact Or.inl
  by_cases h : p ∈ planarDefects R C s t
  · rw [if_pos h, if_pos (this.mpr h)]
  · rw [if_neg h, if_neg (fun h' => h (this.mp h'))]

end PlanarL

end Qec.Dec
