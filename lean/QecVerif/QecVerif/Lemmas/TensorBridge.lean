/-
  Bridge between the executable array model (Model/Tensor.lean, `T4` = shape + flat `Array Int` in numpy C order)
  and the function-level algebra (Lemmas/Tensor.lean, `F4 ℤ`): `(T4.ofFn … f).get i j k l = f i j k l` for in-range
  indices, hence `cell` ≈ `hcomp`, `ladderStep` ≈ `vcomp` (agreement on all in-range entries, `Eqv`).
-/
import QecVerif.Lemmas.Tensor
import QecVerif.Lemmas.TensorModel

namespace Qec.TensorBridge
open Qec.Tensor Qec.TensorAlg Finset

theorem sumRange_eq_sum (n : ℕ) (f : ℕ → ℤ) : sumRange n f = ∑ x ∈ range n, f x := by
  induction n with
  | zero => rfl
  | succ n ih => rw [sumRange, ih, sum_range_succ]

theorem lt_mul_of (a b x y : ℕ) (hx : x < a) (hy : y < b) : x * b + y < a * b :=
  calc x * b + y < x * b + b := by omega
    _ = (x + 1) * b := by rw [Nat.succ_mul]
    _ ≤ a * b := Nat.mul_le_mul_right b hx

theorem flat_lt (n e s w i j k l : ℕ) (hi : i < n) (hj : j < e) (hk : k < s) (hl : l < w) :
    ((i * e + j) * s + k) * w + l < n * e * s * w := by
  exact lt_mul_of _ _ _ _ (lt_mul_of _ _ _ _ (lt_mul_of _ _ _ _ hi hj) hk) hl

theorem decode (e s w i j k l : ℕ) (hj : j < e) (hk : k < s) (hl : l < w) :
    (((i * e + j) * s + k) * w + l) / (e * s * w) = i ∧ (((i * e + j) * s + k) * w + l) / (s * w) % e = j ∧
    (((i * e + j) * s + k) * w + l) / w % s = k ∧ (((i * e + j) * s + k) * w + l) % w = l := by
  have hw : 0 < w := by omega
  have hs : 0 < s := by omega
  have he : 0 < e := by omega
  have d1 : (((i * e + j) * s + k) * w + l) / w = (i * e + j) * s + k := by
    rw [Nat.mul_comm _ w, Nat.mul_add_div hw, Nat.div_eq_of_lt hl, Nat.add_zero]
  have d2 : ((i * e + j) * s + k) / s = i * e + j := by
    rw [Nat.mul_comm _ s, Nat.mul_add_div hs, Nat.div_eq_of_lt hk, Nat.add_zero]
  have d3 : (i * e + j) / e = i := by
    rw [Nat.mul_comm _ e, Nat.mul_add_div he, Nat.div_eq_of_lt hj, Nat.add_zero]
  refine ⟨?_, ?_, ?_, ?_⟩
  · rw [show e * s * w = w * (s * e) by ring, ← Nat.div_div_eq_div_mul, d1, ← Nat.div_div_eq_div_mul, d2, d3]
  · rw [show s * w = w * s by ring, ← Nat.div_div_eq_div_mul, d1, d2, Nat.mul_comm i e, Nat.mul_add_mod,
      Nat.mod_eq_of_lt hj]
  · rw [d1, Nat.mul_comm _ s, Nat.mul_add_mod, Nat.mod_eq_of_lt hk]
  · rw [Nat.mul_comm _ w, Nat.mul_add_mod, Nat.mod_eq_of_lt hl]

/-- the bridge between arrays and functions: in-range entries of a materialised tensor -/
theorem get_ofFn (n e s w : ℕ) (f : ℕ → ℕ → ℕ → ℕ → ℤ) (i j k l : ℕ)
    (hi : i < n) (hj : j < e) (hk : k < s) (hl : l < w) : (T4.ofFn n e s w f).get i j k l = f i j k l := by
  have hlt := flat_lt n e s w i j k l hi hj hk hl
  obtain ⟨d1, d2, d3, d4⟩ := decode e s w i j k l hj hk hl
  simp only [T4.get, T4.ofFn, Array.getD, Array.size_ofFn, hlt]
  simp only [Array.getInternal_eq_getElem, Array.getElem_ofFn, d1, d2, d3, d4]
  rw [dif_pos (by rw [Array.size_ofFn]; exact hlt)]

/-- function-level view of an array tensor -/
def toF (t : T4) : F4 ℤ := { n := t.n, e := t.e, s := t.s, w := t.w, f := t.get }

/-- same shape and same entries at every in-range index tuple -/
structure Eqv (A B : F4 ℤ) : Prop where
  n : A.n = B.n
  e : A.e = B.e
  s : A.s = B.s
  w : A.w = B.w
  f : ∀ i j k l, i < A.n → j < A.e → k < A.s → l < A.w → A.f i j k l = B.f i j k l

theorem Eqv.refl (A : F4 ℤ) : Eqv A A := ⟨rfl, rfl, rfl, rfl, fun _ _ _ _ _ _ _ _ => rfl⟩

theorem Eqv.trans {A B C : F4 ℤ} (h1 : Eqv A B) (h2 : Eqv B C) : Eqv A C :=
  ⟨h1.n.trans h2.n, h1.e.trans h2.e, h1.s.trans h2.s, h1.w.trans h2.w, fun i j k l hi hj hk hl =>
    (h1.f i j k l hi hj hk hl).trans (h2.f i j k l (h1.n ▸ hi) (h1.e ▸ hj) (h1.s ▸ hk) (h1.w ▸ hl))⟩

theorem toF_ofFn (n e s w : ℕ) (f : ℕ → ℕ → ℕ → ℕ → ℤ) : Eqv (toF (T4.ofFn n e s w f)) ⟨n, e, s, w, f⟩ :=
  ⟨rfl, rfl, rfl, rfl, fun i j k l hi hj hk hl => get_ofFn n e s w f i j k l hi hj hk hl⟩

theorem div_mod_lt (i a b : ℕ) (h : i < a * b) : i / b < a ∧ i % b < b := by
  have hb : 0 < b := Nat.pos_of_ne_zero (by rintro rfl; simp at h)
  exact ⟨Nat.div_lt_of_lt_mul (by rwa [Nat.mul_comm] at h), Nat.mod_lt _ hb⟩

/-- `hcomp` respects in-range agreement -/
theorem hcomp_congr {A A' B B' : F4 ℤ} (hA : Eqv A A') (hB : Eqv B B') (hm : A.e = B.w) :
    Eqv (hcomp A B) (hcomp A' B') := by
  refine ⟨by simp [hcomp, hA.n, hB.n], hB.e, by simp [hcomp, hA.s, hB.s], hA.w, ?_⟩
  intro i j k l hi hj hk hl
  simp only [hcomp] at hi hj hk hl ⊢
  rw [← hA.e, ← hB.n, ← hB.s]
  apply sum_congr rfl
  intro x hx
  obtain ⟨i1, i2⟩ := div_mod_lt i _ _ hi
  obtain ⟨k1, k2⟩ := div_mod_lt k _ _ hk
  rw [hA.f _ _ _ _ i1 (mem_range.mp hx) k1 hl, hB.f _ _ _ _ i2 hj k2 (by rw [← hm]; exact mem_range.mp hx)]

theorem tr_congr {A A' : F4 ℤ} (h : Eqv A A') : Eqv (tr A) (tr A') :=
  ⟨h.w, h.s, h.e, h.n, fun i j k l hi hj hk hl => h.f l k j i hl hk hj hi⟩

/-- `vcomp` respects in-range agreement (by duality) -/
theorem vcomp_congr {A A' B B' : F4 ℤ} (hA : Eqv A A') (hB : Eqv B B') (hm : A.s = B.n) :
    Eqv (vcomp A B) (vcomp A' B') :=
  tr_congr (hcomp_congr (tr_congr hA) (tr_congr hB) hm)

theorem clamp_of_lt (d x : ℕ) (h : x < d) : clamp d x = x := by
  unfold clamp; split
  · omega
  · rfl

theorem sumRange_congr (n : ℕ) (f g : ℕ → ℤ) (h : ∀ x, x < n → f x = g x) : sumRange n f = sumRange n g := by
  induction n with
  | zero => rfl
  | succ n ih => rw [sumRange, sumRange, ih (fun x hx => h x (by omega)), h n (by omega)]

/-- **cell bridge**: on compatible bonds the executed `cell` succeeds and agrees with `hcomp` -/
theorem cell_bridge (a b : T4) (h : a.e = b.w) :
    ∃ t, cell a b = .ok t ∧ Eqv (toF t) (hcomp (toF a) (toF b)) := by
  refine ⟨_, by simp only [cell, bdim, h, if_true]; rfl, ?_⟩
  refine Eqv.trans (toF_ofFn _ _ _ _ _) ⟨rfl, rfl, rfl, rfl, ?_⟩
  intro i j k l _ _ _ _
  simp only [hcomp, toF]
  rw [sumRange_eq_sum, h]
  apply sum_congr rfl
  intro x hx
  have hx' := mem_range.mp hx
  rw [clamp_of_lt _ _ hx']

/-- **ladder-step bridge** -/
theorem ladderStep_bridge (v t : T4) (h : v.s = t.n) :
    ∃ u, ladderStep v t = .ok u ∧ Eqv (toF u) (vcomp (toF v) (toF t)) := by
  refine ⟨_, by simp only [ladderStep, bdim, h, if_true]; rfl, ?_⟩
  refine Eqv.trans (toF_ofFn _ _ _ _ _) ⟨rfl, rfl, rfl, rfl, ?_⟩
  intro i j k l _ _ _ _
  simp only [vcomp, toF]
  rw [sumRange_eq_sum, h]
  apply sum_congr rfl
  intro x hx
  have hx' := mem_range.mp hx
  rw [clamp_of_lt _ _ hx']

/-! ### lists of sites -/

/-- a site holds a tensor that agrees with `A` -/
def RepS (s : Site) (A : F4 ℤ) : Prop := ∃ t, s = some t ∧ Eqv (toF t) A

/-- a None-free MPS represented entry-wise by a list of function-level tensors -/
def RepL (m : MPS) (L : List (F4 ℤ)) : Prop := List.Forall₂ RepS m L

theorem zipSites_rep (m1 m2 : MPS) (L1 L2 : List (F4 ℤ)) (h1 : RepL m1 L1) (h2 : RepL m2 L2)
    (hm : L1.map (·.e) = L2.map (·.w)) : ∃ m, zipSites m1 m2 = .ok m ∧ RepL m (hzip L1 L2) := by
  induction h1 generalizing m2 L2 with
  | nil =>
    cases h2 with
    | nil => exact ⟨[], rfl, List.Forall₂.nil⟩
    | cons _ _ => simp at hm
  | @cons s1 A1 ms1 Ls1 hs1 _ ih =>
    cases h2 with
    | nil => simp at hm
    | @cons s2 A2 ms2 Ls2 hs2 hr2 =>
      simp only [List.map_cons, List.cons.injEq] at hm
      obtain ⟨t1, rfl, e1⟩ := hs1
      obtain ⟨t2, rfl, e2⟩ := hs2
      have hew : t1.e = t2.w := by
        have := e1.e; have := e2.w; simp only [toF] at *; omega
      obtain ⟨t, ht, et⟩ := cell_bridge t1 t2 hew
      obtain ⟨m, hmz, hrep⟩ := ih ms2 Ls2 hr2 hm.2
      refine ⟨some t :: m, ?_, List.Forall₂.cons ⟨t, rfl, et.trans (hcomp_congr e1 e2 hew)⟩ hrep⟩
      simp only [zipSites, cellSite, ht, hmz, bind, Except.bind, pure, Except.pure]

theorem contractPairwise_rep (m1 m2 : MPS) (L1 L2 : List (F4 ℤ)) (h1 : RepL m1 L1) (h2 : RepL m2 L2)
    (hm : L1.map (·.e) = L2.map (·.w)) : ∃ m, contractPairwise m1 m2 = .ok m ∧ RepL m (hzip L1 L2) := by
  obtain ⟨m, hz, hr⟩ := zipSites_rep m1 m2 L1 L2 h1 h2 hm
  refine ⟨m, ?_, hr⟩
  have hl : m1.length = m2.length := by
    rw [h1.length_eq, h2.length_eq]; exact length_eq_of_map_eq hm
  simp only [contractPairwise, hl, ne_eq, not_true_eq_false, if_false, hz]

theorem aux_allsome (m : MPS) (L : List (F4 ℤ)) (h : RepL m L) (i a : ℕ) :
    startStopAux m i (some a) none = .ok (some a, none) := by
  induction h generalizing i with
  | nil => rfl
  | cons hs _ ih =>
    obtain ⟨t, rfl, _⟩ := hs
    simp only [startStopAux, Option.isNone_some, Bool.false_eq_true, if_false]
    exact ih _

theorem ladderFold_rep (t0 : T4) (v : F4 ℤ) (ms : MPS) (ts : List (F4 ℤ)) (h0 : Eqv (toF t0) v)
    (h : RepL ms ts) (hc : VChain v ts) : ∃ t, ladderFold t0 ms = .ok t ∧ Eqv (toF t) (ts.foldl vcomp v) := by
  induction h generalizing t0 v with
  | nil => exact ⟨t0, rfl, h0⟩
  | @cons s A ms' ts' hs _ ih =>
    obtain ⟨t1, rfl, e1⟩ := hs
    have hsn : t0.s = t1.n := by
      have := h0.s; have := e1.n; have := hc.1; simp only [toF] at *; omega
    obtain ⟨u, hu, eu⟩ := ladderStep_bridge t0 t1 hsn
    have hc' : VChain (vcomp v A) ts' := by
      cases ts' with
      | nil => trivial
      | cons b bs => exact ⟨hc.2.1, hc.2.2⟩
    obtain ⟨t, ht, et⟩ := ih u (vcomp v A) (eu.trans (vcomp_congr h0 e1 hsn)) hc'
    refine ⟨t, ?_, et⟩
    simp only [ladderFold, hu, bind, Except.bind, ht]

theorem contractLadder_rep (m : MPS) (c : Col ℤ) (h : RepL m (c.1 :: c.2)) (hc : ColOK c) :
    ∃ t, contractLadder m = .ok t ∧ Eqv (toF t) (ladderCol c) := by
  cases h with
  | @cons s A ms ts hs hr =>
    obtain ⟨t0, rfl, e0⟩ := hs
    obtain ⟨t, ht, et⟩ := ladderFold_rep t0 c.1 ms c.2 e0 hr hc
    refine ⟨t, ?_, et⟩
    have hss : startStop (some t0 :: ms) = .ok (0, (some t0 :: ms).length) := by
      simp only [startStop, startStopAux, Option.isSome_some, if_true, aux_allsome ms c.2 hr, bind, Except.bind,
        pure, Except.pure, Option.getD_none]
    simp only [contractLadder, hss, bind, Except.bind, List.take_length, List.drop_zero, ht]

/-! ### the column loop -/

/-- all bonds between two neighbouring columns agree (top row included) -/
def FullMatch (l r : Col ℤ) : Prop := (l.1 :: l.2).map (·.e) = (r.1 :: r.2).map (·.w)

def LRFull : Col ℤ → List (Col ℤ) → Prop
  | _, [] => True
  | acc, d :: ds => FullMatch acc d ∧ LRFull d ds

theorem lrfull_congr (a a' : Col ℤ) (cs : List (Col ℤ))
    (h : (a.1 :: a.2).map (·.e) = (a'.1 :: a'.2).map (·.e)) : LRFull a cs → LRFull a' cs := by
  cases cs with
  | nil => exact id
  | cons d ds => intro ⟨h1, h2⟩; exact ⟨by unfold FullMatch at *; rw [← h]; exact h1, h2⟩

theorem truncStep_none (skip : Bool) (m : MPS) (mult : ℤ) (msk : Option (List Bool)) :
    truncStep skip m mult none false msk = .ok (m, mult) := by
  have hg : truncateGuard m none false msk = false := by simp [truncateGuard]
  cases skip with
  | true => rfl
  | false => simp only [truncStep, Bool.false_eq_true, if_false,
      Qec.TensorModel.truncate_of_guard_false m none false msk hg, mul_one]

theorem sweep_lr_rep (full : Bool) (cols : List (MPS × Option (List Bool))) (Cs : List (Col ℤ))
    (hcols : List.Forall₂ (fun p C => RepL p.1 (C.1 :: C.2)) cols Cs)
    (res : MPS) (mult : ℤ) (acc : Col ℤ) (h0 : RepL res (acc.1 :: acc.2)) (hm : LRFull acc Cs) :
    ∃ res', sweep true none false full (res, mult) cols = .ok (res', mult) ∧
      RepL res' ((lrSweep acc Cs).1 :: (lrSweep acc Cs).2) := by
  induction hcols generalizing res acc with
  | nil => exact ⟨res, rfl, h0⟩
  | @cons p d ps ds hp _ ih =>
    obtain ⟨mps, msk⟩ := p
    obtain ⟨hm1, hm2⟩ := hm
    obtain ⟨m, hmz, hrep⟩ := contractPairwise_rep res mps _ _ h0 hp hm1
    have hl : (acc.1 :: acc.2).length = (d.1 :: d.2).length := length_eq_of_map_eq hm1
    have he := hzip_map_e (acc.1 :: acc.2) (d.1 :: d.2) hl
    obtain ⟨res', hs, hr⟩ := ih m (hzipCol acc d) hrep (lrfull_congr d _ ds he.symm hm2)
    refine ⟨res', ?_, hr⟩
    simp only [sweep, pairStep, if_true, hmz, truncStep_none, hs]

theorem repL_map (l : List ℕ) (f : ℕ → Site) (G : ℕ → F4 ℤ) (h : ∀ r ∈ l, RepS (f r) (G r)) :
    RepL (l.map f) (l.map G) := by
  induction l with
  | nil => exact List.Forall₂.nil
  | cons a l ih =>
    exact List.Forall₂.cons (h a (List.mem_cons_self ..)) (ih fun r hr => h r (List.mem_cons_of_mem _ hr))

theorem colRange_all (C : ℕ) : colRange none none none C = .ok (List.range C) := by
  simp only [colRange, sliceIndices, Option.getD_none, bind, Except.bind, pure, Except.pure]
  simp only [show ¬((1 : ℤ) = 0) by decide, if_false, show ¬((1 : ℤ) < 0) by decide, pyRange]
  congr 1
  have hcnt : (if (1 : ℤ) > 0 then (if (0 : ℤ) < (C : ℤ) then ((C : ℤ) - 0 + 1 - 1) / 1 else 0)
      else (if (0 : ℤ) > (C : ℤ) then (0 - (C : ℤ) + (-1) - 1) / (-1) else 0)) = (C : ℤ) := by
    simp only [show (1 : ℤ) > 0 by decide, if_true]
    split <;> omega
  rw [hcnt, List.map_map]
  simp only [Int.toNat_natCast]
  conv_rhs => rw [← List.map_id (List.range C)]
  apply List.map_congr_left
  intro i _
  simp

theorem asScalar_rep (t : T4) (X : F4 ℤ) (h : Eqv (toF t) X) (hn : X.n = 1) (he : X.e = 1) (hs : X.s = 1)
    (hw : X.w = 1) : asScalar t = .ok (scalar X) := by
  have h1 : t.n = 1 := by have := h.n; simp only [toF] at this; omega
  have h2 : t.e = 1 := by have := h.e; simp only [toF] at this; omega
  have h3 : t.s = 1 := by have := h.s; simp only [toF] at this; omega
  have h4 : t.w = 1 := by have := h.w; simp only [toF] at this; omega
  have hv := h.f 0 0 0 0 (by simp [toF, h1]) (by simp [toF, h2]) (by simp [toF, h3]) (by simp [toF, h4])
  simp only [toF, T4.get] at hv
  simp only [asScalar, T4.size, h1, h2, h3, h4, ne_eq, not_true_eq_false, if_false, pure, Except.pure, scalar]
  simp only [Nat.mul_zero, Nat.zero_mul, Nat.add_zero, Nat.mul_one] at hv ⊢
  rw [hv]

theorem lrSweep_ok (acc : Col ℤ) (cs : List (Col ℤ)) (ha : ColOK acc) (h : LROK acc cs) :
    ColOK (lrSweep acc cs) := by
  induction cs generalizing acc with
  | nil => exact ha
  | cons d ds ih =>
    obtain ⟨h1, h2, h3⟩ := h
    have hl : acc.2.length = d.2.length := length_eq_of_map_eq h1
    exact ih (hzipCol acc d) (vchain_hzip acc.1 d.1 acc.2 d.2 hl ha h2)
      (lrok_congr d _ ds (hzip_map_e acc.2 d.2 hl).symm h3)

/-! ### the whole left-to-right contraction -/

/-- the model network `tn` (no `None`) is represented by the grid `g` with `m+1` rows and `n+1` columns -/
structure RepNet (tn : Net) (g : ℕ → ℕ → F4 ℤ) (m n : ℕ) : Prop where
  nrows : tn.nrows = m + 1
  ncols : tn.ncols = n + 1
  site : ∀ r c, r ≤ m → c ≤ n → RepS (tn.site r c) (g r c)

theorem repNet_col {tn : Net} {g : ℕ → ℕ → F4 ℤ} {m n : ℕ} (h : RepNet tn g m n) (c : ℕ) (hc : c ≤ n) :
    RepL (tn.col c) ((gcol g m c).1 :: (gcol g m c).2) := by
  have := repL_map (List.range (m + 1)) (fun r => tn.site r c) (fun r => g r c)
    (fun r hr => h.site r c (by have := List.mem_range.mp hr; omega) hc)
  unfold Net.col
  rw [h.nrows]
  rw [show (List.range (m + 1)).map (fun r => g r c) = (gcol g m c).1 :: (gcol g m c).2 by
    rw [List.range_succ_eq_map, List.map_cons, List.map_map]; rfl] at this
  exact this

theorem lrfull_grid {g : ℕ → ℕ → F4 ℤ} {m n : ℕ} (h : GridOK g m n) (k a : ℕ) (ha : a + k ≤ n) :
    LRFull (gcol g m a) ((List.range' (a + 1) k).map (gcol g m)) := by
  induction k generalizing a with
  | zero => trivial
  | succ k ih =>
    rw [List.range'_succ]
    refine ⟨?_, ih (a + 1) (by omega)⟩
    unfold FullMatch gcol
    simp only [List.map_cons, List.map_map, List.cons.injEq]
    refine ⟨h.horiz 0 a (by omega) (by omega), ?_⟩
    apply List.map_congr_left
    intro r hr
    exact h.horiz (r + 1) a (by have := List.mem_range.mp hr; omega) (by omega)

/-- **model-level left-to-right contraction**: on a None-free network with matching bonds whose contracted
    tensor is a scalar, the executed `contract` (default arguments) returns the scalar of the grid tensor -/
theorem contract_lr {tn : Net} {g : ℕ → ℕ → F4 ℤ} {m n : ℕ} (h : RepNet tn g m n) (hok : GridOK g m n)
    (hn : (lrT g m n).n = 1) (he : (lrT g m n).e = 1) (hs : (lrT g m n).s = 1) (hw : (lrT g m n).w = 1) :
    contract tn none false none none none none = .ok (.scalar (scalar (lrT g m n))) := by
  have hcols : List.Forall₂ (fun (p : MPS × Option (List Bool)) (C : Col ℤ) => RepL p.1 (C.1 :: C.2))
      ((List.range' 1 n).map fun c => (tn.col c, (none : Option (List Bool))))
      ((List.range' 1 n).map (gcol g m)) := by
    have hmem : ∀ c ∈ List.range' 1 n, c ≤ n := by
      intro c hc; have := List.mem_range'_1.mp hc; omega
    generalize List.range' 1 n = l at hmem
    induction l with
    | nil => exact List.Forall₂.nil
    | cons a l ih =>
      exact List.Forall₂.cons (repNet_col h a (hmem a (List.mem_cons_self ..)))
        (ih fun c hc => hmem c (List.mem_cons_of_mem _ hc))
  obtain ⟨res, hsw, hrep⟩ := sweep_lr_rep true _ _ hcols (tn.col 0) 1 (gcol g m 0) (repNet_col h 0 (by omega))
    (by simpa using lrfull_grid hok n 0 (by omega))
  have hcok : ColOK (lrSweep (gcol g m 0) ((List.range' 1 n).map (gcol g m))) :=
    lrSweep_ok _ _ (gcol_ok hok 0 (by omega)) (by simpa using lrok_grid hok n 0 (by omega))
  obtain ⟨t, ht, et⟩ := contractLadder_rep res _ hrep hcok
  have hsc := asScalar_rep t (lrT g m n) et hn he hs hw
  have hfull : (n + 1 == (0 :: List.range' (0 + 1) n).length) = true := by simp
  simp only [contract, maskOK, Bool.not_true, Bool.false_eq_true, if_false, colRange_all, h.ncols, contractCols,
    List.range_eq_range', List.range'_succ, List.map_cons, Option.map_none, hfull]
  simp only [Nat.zero_add] at hsw ⊢
  simp only [hsw, finish, if_true, ht, hsc, one_mul]

/-! ### the whole right-to-left contraction -/

def RLFull : Col ℤ → List (Col ℤ) → Prop
  | _, [] => True
  | acc, d :: ds => FullMatch d acc ∧ RLFull d ds

theorem rlfull_congr (a a' : Col ℤ) (cs : List (Col ℤ))
    (h : (a.1 :: a.2).map (·.w) = (a'.1 :: a'.2).map (·.w)) : RLFull a cs → RLFull a' cs := by
  cases cs with
  | nil => exact id
  | cons d ds => intro ⟨h1, h2⟩; exact ⟨by unfold FullMatch at *; rw [← h]; exact h1, h2⟩

theorem sweep_rl_rep (full : Bool) (cols : List (MPS × Option (List Bool))) (Cs : List (Col ℤ))
    (hcols : List.Forall₂ (fun p C => RepL p.1 (C.1 :: C.2)) cols Cs)
    (res : MPS) (mult : ℤ) (acc : Col ℤ) (h0 : RepL res (acc.1 :: acc.2)) (hm : RLFull acc Cs) :
    ∃ res', sweep false none false full (res, mult) cols = .ok (res', mult) ∧
      RepL res' ((rlSweep acc Cs).1 :: (rlSweep acc Cs).2) := by
  induction hcols generalizing res acc with
  | nil => exact ⟨res, rfl, h0⟩
  | @cons p d ps ds hp _ ih =>
    obtain ⟨mps, msk⟩ := p
    obtain ⟨hm1, hm2⟩ := hm
    obtain ⟨m, hmz, hrep⟩ := contractPairwise_rep mps res _ _ hp h0 hm1
    have hl : (d.1 :: d.2).length = (acc.1 :: acc.2).length := length_eq_of_map_eq hm1
    have he := hzip_map_w (d.1 :: d.2) (acc.1 :: acc.2) hl
    obtain ⟨res', hs, hr⟩ := ih m (hzipCol d acc) hrep (rlfull_congr d _ ds he.symm hm2)
    refine ⟨res', ?_, hr⟩
    simp only [sweep, pairStep, Bool.false_eq_true, if_false, hmz, truncStep_none, hs]

theorem rlfull_grid {g : ℕ → ℕ → F4 ℤ} {m n : ℕ} (h : GridOK g m n) (k a : ℕ) (ha : a + k ≤ n) :
    RLFull (gcol g m (a + k)) ((down a k).map (gcol g m)) := by
  induction k with
  | zero => trivial
  | succ k ih =>
    refine ⟨?_, ih (by omega)⟩
    unfold FullMatch gcol
    simp only [List.map_cons, List.map_map, List.cons.injEq]
    refine ⟨h.horiz 0 (a + k) (by omega) (by omega), ?_⟩
    apply List.map_congr_left
    intro r hr
    exact h.horiz (r + 1) (a + k) (by have := List.mem_range.mp hr; omega) (by omega)

theorem colRange_rev (C : ℕ) : colRange none none (some (-1)) C = .ok (down 0 C) := by
  simp only [colRange, sliceIndices, Option.getD_some, bind, Except.bind, pure, Except.pure]
  simp only [show ¬((-1 : ℤ) = 0) by decide, if_false, show ((-1 : ℤ) < 0) by decide, if_true, pyRange]
  congr 1
  have hcnt : (if (-1 : ℤ) > 0 then (if (C : ℤ) - 1 < -1 then (-1 - ((C : ℤ) - 1) + -1 - 1) / -1 else 0)
      else (if (C : ℤ) - 1 > -1 then ((C : ℤ) - 1 - -1 + (- -1) - 1) / (- -1) else 0)) = (C : ℤ) := by
    simp only [show ¬((-1 : ℤ) > 0) by decide, if_false, neg_neg, Int.ediv_one]
    split <;> omega
  rw [hcnt, List.map_map, down_eq]
  simp only [Int.toNat_natCast]
  apply List.ext_getElem
  · simp
  · intro i h1 h2
    simp only [List.length_map, List.length_range] at h1
    simp only [List.getElem_map, List.getElem_range, Function.comp, List.getElem_reverse, List.getElem_range',
      List.length_range']
    omega

/-- **model-level right-to-left contraction** (`step = -1`) -/
theorem contract_rl {tn : Net} {g : ℕ → ℕ → F4 ℤ} {m n : ℕ} (h : RepNet tn g m n) (hok : GridOK g m n)
    (hn : (rlT g m n).n = 1) (he : (rlT g m n).e = 1) (hs : (rlT g m n).s = 1) (hw : (rlT g m n).w = 1) :
    contract tn none false none none (some (-1)) none = .ok (.scalar (scalar (rlT g m n))) := by
  have hcols : List.Forall₂ (fun (p : MPS × Option (List Bool)) (C : Col ℤ) => RepL p.1 (C.1 :: C.2))
      ((down 0 n).map fun c => (tn.col c, (none : Option (List Bool))))
      ((down 0 n).map (gcol g m)) := by
    have hmem : ∀ c ∈ down 0 n, c ≤ n := by
      intro c hc; rw [down_eq] at hc; have := List.mem_range'_1.mp (List.mem_reverse.mp hc); omega
    generalize down 0 n = l at hmem
    induction l with
    | nil => exact List.Forall₂.nil
    | cons a l ih =>
      exact List.Forall₂.cons (repNet_col h a (hmem a (List.mem_cons_self ..)))
        (ih fun c hc => hmem c (List.mem_cons_of_mem _ hc))
  obtain ⟨res, hsw, hrep⟩ := sweep_rl_rep true _ _ hcols (tn.col n) 1 (gcol g m n) (repNet_col h n (by omega))
    (by simpa using rlfull_grid hok n 0 (by omega))
  have hcok := (rlSweep_w_ok (gcol g m n) (gcol g m n) ((down 0 n).map (gcol g m)) rfl
    (gcol_ok hok n (le_refl _)) (by simpa using rlok_grid hok n 0 (by omega))).2
  obtain ⟨t, ht, et⟩ := contractLadder_rep res _ hrep hcok
  have hsc := asScalar_rep t (rlT g m n) et hn he hs hw
  have hfull : (n + 1 == ((0 + n) :: down 0 n).length) = true := by simp [down_eq]
  simp only [contract, maskOK, Bool.not_true, Bool.false_eq_true, if_false, colRange_rev, h.ncols, contractCols,
    down, List.map_cons, Option.map_none, hfull]
  simp only [Nat.zero_add] at hsw ⊢
  simp only [show decide ((-1 : ℤ) > 0) = false by decide, hsw, finish, if_true, ht, hsc, one_mul]

end Qec.TensorBridge
