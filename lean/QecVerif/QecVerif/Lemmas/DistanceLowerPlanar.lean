/-
  C08 — planar code, all sizes: an operator that commutes with every stabilizer generator and anticommutes with
  the supplied logical X (X on the last column of primal sites) has a Z bit on every one of the `C` columns of
  primal sites, hence weight ≥ C; one that anticommutes with the supplied logical Z has an X bit on every one of
  the `R` rows of primal sites, hence weight ≥ R.
-/
import QecVerif.Lemmas.DistanceLower
import QecVerif.Lemmas.Lattice.PlanarCode
namespace Qec.DistLower.Planar
open Qec Qec.Planar Qec.Symp Qec.PlanarCode Qec.Distance Qec.DistLower

/-- the bit of `e` at site `s` that decides commutation with an `opOf z` there (the Z bit for `z = false`,
    the X bit for `z = true`); `false` outside the lattice -/
def sbit (R C : Int) (e : BVec) (z : Bool) (s : Int × Int) : Bool :=
  dom R C s && e.getD (off (nq R C) (!z) + fl R C s) false

/-- `bsp e ·` of an X- or Z-type site operator is the parity of the relevant bits of `e` over its sites -/
theorem bsp_siteop (R C : Int) (hR : 2 ≤ R) (hC : 2 ≤ C) (e : BVec) (he : e.length = 2 * nq R C) (z : Bool)
    (l : List (Int × Int)) (hl : PlanarCode.AllSites l) :
    bsp e (sites R C (opOf z) (identity R C) l) = xorSum l (sbit R C e z) := by
  rw [sites_eq_gsites, identity_eq,
    bsp_gsites_right (nq R C) (dom R C) (fl R C) e he z _ (Symp.zeros_length _) l (flatLt_of_allSites R C hR hC l hl),
    bsp_zeros_right, Bool.false_xor]
  rfl

theorem sbit_out (R C : Int) (e : BVec) (z : Bool) (s : Int × Int) (h : inBounds R C s.1 s.2 = false) :
    sbit R C e z s = false := by
  simp [sbit, dom, h]

theorem sbit_acts (R C : Int) (hR : 2 ≤ R) (hC : 2 ≤ C) (e : BVec) (z : Bool) (s : Int × Int)
    (hs : (s.1 + s.2) % 2 = 0) (h : sbit R C e z s = true) :
    fl R C s < nq R C ∧ actsOn (nq R C) e (fl R C s) = true := by
  simp only [sbit, Bool.and_eq_true] at h
  refine ⟨fl_lt R C hR hC s hs h.1, ?_⟩
  unfold actsOn
  cases z
  · simp only [off, Bool.not_false, if_true] at h
    rw [h.2]; simp
  · simp only [off, Bool.not_true, Bool.false_eq_true, if_false, Nat.zero_add] at h
    rw [h.2]; simp

/-- parity of `e` against the generator of an in-lattice plaquette -/
theorem stab_parity (R C : Int) (hR : 2 ≤ R) (hC : 2 ≤ C) (e : BVec) (he : e.length = 2 * nq R C)
    (hcomm : commAll (stabilizers R C) e = true) (p : Int × Int) (hp : RealP R C p) :
    (sbit R C e (decide (p.1 % 2 = 1)) (p.1 - 1, p.2) ^^ (sbit R C e (decide (p.1 % 2 = 1)) (p.1 + 1, p.2) ^^
      (sbit R C e (decide (p.1 % 2 = 1)) (p.1, p.2 - 1) ^^ sbit R C e (decide (p.1 % 2 = 1)) (p.1, p.2 + 1))))
      = false := by
  have hmem : stabOp R C p ∈ stabilizers R C := by
    rw [PlanarCode.stabilizers_eq_map]; exact List.mem_map.mpr ⟨p, (PlanarCode.mem_plaquetteIndices R C p).mpr hp, rfl⟩
  have h := (commAll_iff _ _).mp hcomm _ hmem
  unfold stabOp at h
  rw [isPrimal_plaq _ _ hp.2.2.2.2, bsp_siteop R C hR hC e he _ _ (allSites_plaq p.1 p.2 hp.2.2.2.2),
    xorSum_plaq] at h
  exact h

/-- anticommuting with the logical X: a Z bit in each of the `C` columns of primal sites -/
theorem wt_ge_cols (R C : Int) (hR : 2 ≤ R) (hC : 2 ≤ C) (e : BVec) (he : e.length = 2 * nq R C)
    (hcomm : commAll (stabilizers R C) e = true) (hanti : bsp e (logicalX R C) = true) :
    C.toNat ≤ wt e := by
  apply wt_ge_of_grid (nq R C) e he C.toNat R.toNat (fun j i => fl R C (2 * (i : Int), 2 * (j : Int)))
    (fun j i => sbit R C e false (2 * (i : Int), 2 * (j : Int)))
  · intro j i _ _ hb
    exact sbit_acts R C hR hC e false _ (by simp only; omega) hb
  · intro j i j' i' hj hi hj' hi' h
    have := fl_inj R C (2 * (i' : Int), 2 * (j' : Int)) (2 * (i : Int), 2 * (j : Int)) (by simp only; omega)
      ((PlanarCode.inBounds_iff _ _ _ _).mpr (by simp only; omega)) (by simp only; omega)
      ((PlanarCode.inBounds_iff _ _ _ _).mpr (by simp only; omega)) h hR hC
    simp only [Prod.mk.injEq] at this
    omega
  · intro j hj
    apply strip_parity R.toNat _ _ (fun i => sbit R C e false (2 * (i : Int) - 1, 2 * (j : Int) + 1))
    · intro i hi
      have := stab_parity R C hR hC e he hcomm (2 * (i : Int), 2 * (j : Int) + 1) (by unfold RealP; simp only; omega)
      simp only at this
      rw [show decide ((2 * (i : Int)) % 2 = 1) = false from by apply decide_eq_false; omega,
        show (2 * (j : Int) + 1 - 1) = 2 * (j : Int) from by omega,
        show (2 * (j : Int) + 1 + 1) = 2 * ((j + 1 : Nat) : Int) from by push_cast; omega,
        show (2 * (i : Int) + 1) = 2 * ((i + 1 : Nat) : Int) - 1 from by push_cast; omega] at this
      exact regroup_rungs_first _ _ _ _ this
    · rw [sbit_out, sbit_out]
      · rw [Bool.eq_false_iff, Ne, PlanarCode.inBounds_iff]; simp only; omega
      · rw [Bool.eq_false_iff, Ne, PlanarCode.inBounds_iff]; simp only; omega
  · refine ⟨C.toNat - 1, by omega, ?_⟩
    rw [logicalX_eq, bsp_siteop R C hR hC e he _ _ (allSites_colRun R.toNat (2 * C - 2) (by omega))] at hanti
    unfold colRun at hanti
    rw [xorSum_map] at hanti
    refine Eq.trans ?_ hanti
    apply xorSum_congr
    intro i _
    rw [show (2 * ((C.toNat - 1 : Nat) : Int)) = 2 * C - 2 from by omega]

/-- anticommuting with the logical Z: an X bit in each of the `R` rows of primal sites -/
theorem wt_ge_rows (R C : Int) (hR : 2 ≤ R) (hC : 2 ≤ C) (e : BVec) (he : e.length = 2 * nq R C)
    (hcomm : commAll (stabilizers R C) e = true) (hanti : bsp e (logicalZ R C) = true) :
    R.toNat ≤ wt e := by
  apply wt_ge_of_grid (nq R C) e he R.toNat C.toNat (fun i j => fl R C (2 * (i : Int), 2 * (j : Int)))
    (fun i j => sbit R C e true (2 * (i : Int), 2 * (j : Int)))
  · intro i j _ _ hb
    exact sbit_acts R C hR hC e true _ (by simp only; omega) hb
  · intro i j i' j' hi hj hi' hj' h
    have := fl_inj R C (2 * (i' : Int), 2 * (j' : Int)) (2 * (i : Int), 2 * (j : Int)) (by simp only; omega)
      ((PlanarCode.inBounds_iff _ _ _ _).mpr (by simp only; omega)) (by simp only; omega)
      ((PlanarCode.inBounds_iff _ _ _ _).mpr (by simp only; omega)) h hR hC
    simp only [Prod.mk.injEq] at this
    omega
  · intro i hi
    apply strip_parity C.toNat _ _ (fun j => sbit R C e true (2 * (i : Int) + 1, 2 * (j : Int) - 1))
    · intro j hj
      have := stab_parity R C hR hC e he hcomm (2 * (i : Int) + 1, 2 * (j : Int)) (by unfold RealP; simp only; omega)
      simp only at this
      rw [show decide ((2 * (i : Int) + 1) % 2 = 1) = true from by apply decide_eq_true; omega,
        show (2 * (i : Int) + 1 - 1) = 2 * (i : Int) from by omega,
        show (2 * (i : Int) + 1 + 1) = 2 * ((i + 1 : Nat) : Int) from by push_cast; omega,
        show (2 * (j : Int) + 1) = 2 * ((j + 1 : Nat) : Int) - 1 from by push_cast; omega] at this
      exact regroup_rails_first _ _ _ _ this
    · rw [sbit_out, sbit_out]
      · rw [Bool.eq_false_iff, Ne, PlanarCode.inBounds_iff]; simp only; omega
      · rw [Bool.eq_false_iff, Ne, PlanarCode.inBounds_iff]; simp only; omega
  · refine ⟨R.toNat - 1, by omega, ?_⟩
    rw [logicalZ_eq, bsp_siteop R C hR hC e he _ _ (allSites_rowRun C.toNat (2 * R - 2) (by omega))] at hanti
    unfold rowRun at hanti
    rw [xorSum_map] at hanti
    refine Eq.trans ?_ hanti
    apply xorSum_congr
    intro j _
    rw [show (2 * ((R.toNat - 1 : Nat) : Int)) = 2 * R - 2 from by omega]

/-- **planar lower bound**: every non-trivial logical has weight at least `min R C` -/
theorem lower (R C : Int) (hR : 2 ≤ R) (hC : 2 ≤ C) (e : BVec) (he : e.length = 2 * (nQubits R C).toNat)
    (h : IsLogical (stabilizers R C) [logicalX R C, logicalZ R C] e) : min R C ≤ (wt e : Int) := by
  obtain ⟨hcomm, l, hl, hanti⟩ := h
  simp only [List.mem_cons, List.not_mem_nil, or_false] at hl
  rcases hl with rfl | rfl
  · have := wt_ge_cols R C hR hC e he hcomm hanti
    omega
  · have := wt_ge_rows R C hR hC e he hcomm hanti
    omega

end Qec.DistLower.Planar
