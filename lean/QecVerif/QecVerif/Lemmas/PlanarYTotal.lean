/-
  Helper lemmas for the planar Y decoder, part 3: the combined partial recovery of the non-co-prime branch and its
  residual syndrome.
-/
import QecVerif.Lemmas.PlanarYMap
namespace Qec.PlanarYL
open Qec Qec.Planar Qec.Symp Qec.PlanarCode Qec.PlanarY

theorem foldlM_ok {α β : Type} (f : β → α → β) (l : List α) (b : β) :
    l.foldlM (fun b a => (Except.ok (f b a) : Except String β)) b = .ok (l.foldl f b) := by
  induction l generalizing b with
  | nil => rfl
  | cons a l ih =>
    rw [List.foldlM_cons, List.foldl_cons]
    exact ih (f b a)

theorem partialRecovery_length (R C : Int) (p : Int × Int) : (partialRecovery R C p).length = 2 * nq R C := by
  unfold partialRecovery
  split
  · exact identity_length R C
  · split <;> exact yop_length R C _

/-- the combined partial recovery of the non-co-prime branch -/
def partialSum (R C : Int) (s : BVec) : BVec :=
  (syndromeToPlaquettes R C s).foldl (fun rec p => xorV rec (partialRecovery R C p)) (identity R C)

theorem combinedPartial_nc (R C : Int) (s : BVec) (hc : coprime R C = false) :
    combinedPartial R C s = .ok (partialSum R C s) := by
  unfold combinedPartial partialSum
  simp only [hc, Bool.false_eq_true, if_false]
  exact foldlM_ok _ _ _

theorem foldl_xor_spec {ι : Type} (a : BVec) (k : Nat) (P : ι → BVec) (hP : ∀ p, (P p).length = k) (l : List ι)
    (acc : BVec) (hacc : acc.length = k) :
    (l.foldl (fun rec p => xorV rec (P p)) acc).length = k ∧
    bsp a (l.foldl (fun rec p => xorV rec (P p)) acc) = (bsp a acc ^^ xorSum l (fun p => bsp a (P p))) := by
  induction l generalizing acc with
  | nil => simp [hacc]
  | cons p l ih =>
    simp only [List.foldl_cons, xorSum_cons]
    have hl : (xorV acc (P p)).length = k := by rw [xorV_length _ _ (by rw [hacc, hP])]; exact hacc
    rcases ih (xorV acc (P p)) hl with ⟨h1, h2⟩
    refine ⟨h1, ?_⟩
    rw [h2, bsp_xorV_right _ _ _ (by rw [hacc, hP]), Bool.xor_assoc]

theorem partialSum_length (R C : Int) (s : BVec) : (partialSum R C s).length = 2 * nq R C :=
  (foldl_xor_spec [] _ _ (partialRecovery_length R C) _ _ (identity_length R C)).1

theorem defects_eq (l : List (Int × Int)) (f : Int × Int → Bool) :
    ((l.zip (l.map f)).filterMap fun p => if p.2 then some p.1 else none) = l.filter f := by
  induction l with
  | nil => rfl
  | cons x l ih =>
    simp only [List.map_cons, List.zip_cons_cons, List.filterMap_cons, List.filter_cons]
    cases f x <;> simp [ih]

theorem xorSum_decide_mem (l : List (Int × Int)) (hn : l.Nodup) (q : Int × Int) :
    xorSum l (fun p => decide (q = p)) = decide (q ∈ l) := by
  induction l with
  | nil => simp
  | cons p l ih =>
    rw [xorSum_cons, ih (List.nodup_cons.mp hn).2]
    have hp := (List.nodup_cons.mp hn).1
    by_cases h : q = p
    · subst h; simp [hp]
    · simp [h]

/-- **the residual syndrome lives on the boundary**: for a non-co-prime lattice and ANY error `e`, the operator
    `e · (combined partial recovery of e's syndrome)` commutes with every plaquette that is not on the boundary the
    code pushes syndrome bits to -/
theorem residual_bit (R C : Int) (hR : 2 ≤ R) (hC : 2 ≤ C) (e : BVec) (he : e.length = 2 * nq R C)
    (q : Int × Int) (hq : RealP R C q) (hlt : if R < C then q.2 < maxCol C else q.1 < maxRow R) :
    bsp (xorV e (partialSum R C (syndrome R C e))) (stabOp R C q) = false := by
  have hlen := partialSum_length R C (syndrome R C e)
  rw [bsp_xorV_left _ _ _ (by rw [he, hlen]),
    bsp_comm (partialSum R C (syndrome R C e)) _ (by rw [hlen, stabOp_length]) (by rw [hlen]; omega)]
  unfold partialSum
  rw [(foldl_xor_spec (stabOp R C q) _ _ (partialRecovery_length R C) _ _ (identity_length R C)).2,
    identity_eq, bsp_zeros_right, Bool.false_xor, syndrome_eq_map]
  unfold syndromeToPlaquettes
  rw [defects_eq]
  have hcongr : xorSum ((plaquetteIndices R C).filter fun q => bsp e (stabOp R C q))
      (fun p => bsp (stabOp R C q) (partialRecovery R C p)) =
      xorSum ((plaquetteIndices R C).filter fun q => bsp e (stabOp R C q)) (fun p => decide (q = p)) := by
    apply xorSum_congr
    intro p hp
    have hp' := (mem_plaquetteIndices R C p).mp (List.mem_filter.mp hp).1
    exact partial_bit R C hR hC p q hp' hq hlt
  rw [hcongr, xorSum_decide_mem _ ((plaquetteIndices_nodup R C).filter _)]
  have hmem : q ∈ plaquetteIndices R C := (mem_plaquetteIndices R C q).mpr hq
  cases hb : bsp e (stabOp R C q) with
  | true =>
    have : q ∈ (plaquetteIndices R C).filter fun q => bsp e (stabOp R C q) := List.mem_filter.mpr ⟨hmem, hb⟩
    simp [this]
  | false =>
    have : ¬ q ∈ (plaquetteIndices R C).filter fun q => bsp e (stabOp R C q) := by
      intro h; have := (List.mem_filter.mp h).2; rw [hb] at this; exact Bool.noConfusion this
    simp [this]

/-! ### Y-symmetric vectors (x-half = z-half) and their site bits -/

def YSym (n : Nat) (v : BVec) : Prop := v.length = 2 * n ∧ ∀ f, f < n → v.getD (n + f) false = v.getD f false

theorem ysym_xorV (n : Nat) (a b : BVec) (ha : YSym n a) (hb : YSym n b) : YSym n (xorV a b) := by
  refine ⟨by rw [xorV_length _ _ (by rw [ha.1, hb.1])]; exact ha.1, ?_⟩
  intro f hf
  rw [getD_xorV _ _ (by rw [ha.1, hb.1]), getD_xorV _ _ (by rw [ha.1, hb.1]), ha.2 f hf, hb.2 f hf]

theorem ysym_zeros (n : Nat) : YSym n (zeros (2 * n)) :=
  ⟨zeros_length _, fun f _ => by rw [getD_zeros, getD_zeros]⟩

theorem ysym_yop (R C : Int) (hR : 2 ≤ R) (hC : 2 ≤ C) (l : List (Int × Int)) (hl : AllSites l) :
    YSym (nq R C) (yop R C l) := by
  refine ⟨yop_length R C l, ?_⟩
  intro f hf
  have hfl := flatLt_of_allSites R C hR hC l hl
  unfold yop
  rw [sites_eq_gsites, identity_eq, getD_ysites (nq R C) (dom R C) (fl R C) _ (zeros_length _) l hfl,
    getD_ysites (nq R C) (dom R C) (fl R C) _ (zeros_length _) l hfl, getD_zeros, getD_zeros]
  congr 1
  apply xorSum_congr
  intro i hi
  by_cases hb : dom R C i = true
  · have fi := hfl i hi hb
    have e1 : decide (fl R C i = nq R C + f) = false := by apply decide_eq_false; omega
    have e2 : decide (nq R C + fl R C i = f) = false := by apply decide_eq_false; omega
    have e3 : decide (nq R C + fl R C i = nq R C + f) = decide (fl R C i = f) := by
      apply decide_eq_decide.mpr; omega
    rw [e1, e2, e3, Bool.false_xor, Bool.xor_false]
  · simp [hb]

/-- the bit of `v` at site `s` -/
def sbit (R C : Int) (v : BVec) (s : Int × Int) : Bool := v.getD (fl R C s) false

/-- syndrome bit of a Y-symmetric vector: parity of its bits on the in-bounds sites of the plaquette -/
theorem bsp_ysym (R C : Int) (hR : 2 ≤ R) (hC : 2 ≤ C) (g : BVec) (hg : YSym (nq R C) g) (q : Int × Int)
    (hq : RealP R C q) :
    bsp g (stabOp R C q) = xorSum (plaquetteSites q.1 q.2) (fun s => inBounds R C s.1 s.2 && sbit R C g s) := by
  have sq := allSites_plaq q.1 q.2 hq.2.2.2.2
  unfold stabOp
  rw [sites_eq_gsites, identity_eq,
    bsp_gsites_right (nq R C) (dom R C) (fl R C) g hg.1 _ _ (zeros_length _) _ (flatLt_of_allSites R C hR hC _ sq),
    bsp_zeros_right, Bool.false_xor]
  apply xorSum_congr
  intro s hs
  by_cases hb : inBounds R C s.1 s.2 = true
  · have fs := fl_lt R C hR hC s (sq s hs) hb
    have e : dom R C s = true := hb
    rw [e, hb]
    unfold sbit
    cases isPrimal q.1 q.2
    · simp only [Bool.not_false, off, if_true]; rw [hg.2 _ fs]
    · simp only [Bool.not_true, off, Bool.false_eq_true, if_false, Nat.zero_add]
  · have e : dom R C s = false := by simpa [dom] using hb
    simp [e, hb]

/-! ### uniqueness: zero first row + no syndrome above the last row ⇒ zero -/

theorem uniq_rows (R C : Int) (β : Int × Int → Bool)
    (H1 : ∀ q, RealP R C q → q.1 < maxRow R →
      xorSum (plaquetteSites q.1 q.2) (fun s => inBounds R C s.1 s.2 && β s) = false)
    (H2 : ∀ c, SiteIn R C 0 c → β (0, c) = false) :
    ∀ (n : Nat) (r c : Int), r ≤ n → SiteIn R C r c → β (r, c) = false := by
  intro n
  induction n with
  | zero =>
    intro r c hr hs
    have : r = 0 := by unfold SiteIn at hs; omega
    subst this
    exact H2 c hs
  | succ n ih =>
    intro r c hr hs
    by_cases hle : r ≤ n
    · exact ih r c hle hs
    · have hr' : r = n + 1 := by push_cast at hr; omega
      unfold SiteIn at hs
      have hq : RealP R C ((n : Int), c) := by unfold RealP; simp only; omega
      have h := H1 ((n : Int), c) hq (by unfold maxRow; simp only; omega)
      rw [xorSum_plaq] at h
      simp only at h
      have t1 : (inBounds R C ((n : Int) - 1) c && β ((n : Int) - 1, c)) = false := by
        by_cases hb : inBounds R C ((n : Int) - 1) c = true
        · rw [ih _ c (by omega) (by rw [inBounds_iff] at hb; unfold SiteIn; omega)]; simp
        · simp [hb]
      have t3 : (inBounds R C (n : Int) (c - 1) && β ((n : Int), c - 1)) = false := by
        by_cases hb : inBounds R C (n : Int) (c - 1) = true
        · rw [ih _ (c - 1) (by omega) (by rw [inBounds_iff] at hb; unfold SiteIn; omega)]; simp
        · simp [hb]
      have t4 : (inBounds R C (n : Int) (c + 1) && β ((n : Int), c + 1)) = false := by
        by_cases hb : inBounds R C (n : Int) (c + 1) = true
        · rw [ih _ (c + 1) (by omega) (by rw [inBounds_iff] at hb; unfold SiteIn; omega)]; simp
        · simp [hb]
      have t2 : inBounds R C ((n : Int) + 1) c = true := by rw [inBounds_iff]; omega
      rw [t1, t3, t4, t2] at h
      subst hr'
      simpa using h

/-! ### decomposition into the boundary operators (R ≥ C: snake-fills from the upper boundary) -/

theorem xorSum_xor {α : Type} (l : List α) (f g : α → Bool) :
    xorSum l (fun x => f x ^^ g x) = (xorSum l f ^^ xorSum l g) := by
  induction l with
  | nil => rfl
  | cons x l ih =>
    simp only [xorSum_cons, ih]
    cases f x <;> cases g x <;> cases xorSum l f <;> cases xorSum l g <;> rfl

theorem xorSum_and {α : Type} (l : List α) (c : Bool) (f : α → Bool) :
    xorSum l (fun x => c && f x) = (c && xorSum l f) := by
  induction l with
  | nil => simp
  | cons x l ih =>
    simp only [xorSum_cons, ih]
    cases c <;> simp

theorem xorSum_comm {α β : Type} (l : List α) (l' : List β) (F : α → β → Bool) :
    xorSum l (fun x => xorSum l' (F x)) = xorSum l' (fun y => xorSum l (fun x => F x y)) := by
  induction l with
  | nil => simp only [xorSum_nil]; exact (xorSum_false l' _ (fun _ _ => rfl)).symm
  | cons x l ih =>
    simp only [xorSum_cons]
    rw [ih, ← xorSum_xor]

theorem xorSum_range_pick (k j : Nat) (hj : j < k) (f : Nat → Bool) :
    xorSum (List.range k) (fun i => f i && decide (i = j)) = f j := by
  induction k with
  | zero => omega
  | succ k ih =>
    rw [List.range_succ, xorSum_append]
    simp only [xorSum_cons, xorSum_nil, Bool.xor_false]
    by_cases h : j = k
    · subst h
      rw [xorSum_false _ _ (fun i hi => by
        have := List.mem_range.mp hi
        have : ¬ i = j := by omega
        simp [this])]
      simp
    · rw [ih (by omega)]
      have : ¬ k = j := fun e => h e.symm
      simp [this]

theorem xorSum_range_zero_only (K : Nat) (hK : 1 ≤ K) (f : Nat → Bool) (h : ∀ k, 1 ≤ k → f k = false) :
    xorSum (List.range K) f = f 0 := by
  induction K with
  | zero => omega
  | succ K ih =>
    rw [List.range_succ, xorSum_append]
    simp only [xorSum_cons, xorSum_nil, Bool.xor_false]
    by_cases hK0 : K = 0
    · subst hK0; simp
    · rw [ih (by omega), h K (by omega), Bool.xor_false]

theorem eq_of_xor_false (a b : Bool) (h : false = (a ^^ b)) : a = b := by
  revert h; cases a <;> cases b <;> decide

/-- in the first row a downward snake-fill from `(0, 2i)` has exactly its start -/
theorem occ_fillD_top (Mr Mc : Int) (i : Nat) (c : Int) (h0 : 0 ≤ Mr) (hi : 2 * (i : Int) ≤ Mc) :
    occ (fillD Mr Mc (0, 2 * (i : Int))) (0, c) = decide (c = 2 * (i : Int)) := by
  unfold occ fillD
  rw [xorSum_flatMap, xorSum_range_zero_only _ (by simp only; omega)]
  · unfold rayD
    rw [xorSum_map, xorSum_range_zero_only _ (by simp only; omega)]
    · simp only [Nat.cast_zero, Int.add_zero, Prod.mk.injEq, true_and]
      rw [W_zero _ _ (by omega) hi]
      apply decide_eq_decide.mpr
      omega
    · intro j hj
      apply decide_eq_false
      simp only [Prod.mk.injEq]
      omega
  · intro k hk
    apply xorSum_false
    intro s hs
    unfold rayD at hs
    rcases List.mem_map.mp hs with ⟨j, _, rfl⟩
    apply decide_eq_false
    simp only [Prod.mk.injEq]
    omega

/-- the `i`-th boundary operator for R ≥ C -/
def bop (R C : Int) (i : Nat) : BVec := snakeFill R C (0, 2 * (i : Int)) true

theorem boundaryOps_down (R C : Int) (h : ¬ R < C) : boundaryOps R C = (List.range C.toNat).map (bop R C) := by
  unfold boundaryOps bop
  rw [if_neg h]

theorem bop_ysym (R C : Int) (hR : 2 ≤ R) (hC : 2 ≤ C) (i : Nat) : YSym (nq R C) (bop R C i) :=
  ysym_yop R C hR hC _ (allSites_snakeFillSites R C _ true (by simp only; omega))

theorem bop_top (R C : Int) (hR : 2 ≤ R) (hC : 2 ≤ C) (i : Nat) (hi : (i : Int) < C) (c : Int) (hs : SiteIn R C 0 c) :
    sbit R C (bop R C i) (0, c) = decide (c = 2 * (i : Int)) := by
  unfold SiteIn at hs
  have hb : inBounds R C 0 c = true := by rw [inBounds_iff]; omega
  unfold sbit bop
  rw [snakeFill_eq_yop,
    (getD_yop R C hR hC _ (allSites_snakeFillSites R C _ true (by simp only; omega)) (0, c) (by simp only; omega) hb).1,
    snakeFillSites_down, if_pos (by rw [inBounds_iff]; simp only; omega)]
  exact occ_fillD_top _ _ i c (by unfold maxRow; omega) (by unfold maxCol; omega)

/-- **decomposition**: a Y-symmetric operator without syndrome above the last row is, site by site, the XOR of the
    boundary operators selected by its first row; hence its syndrome is in their span -/
theorem span_of_boundary (R C : Int) (hR : 2 ≤ R) (hC : 2 ≤ C) (hRC : ¬ R < C) (g : BVec) (hg : YSym (nq R C) g)
    (hz : ∀ q, RealP R C q → q.1 < maxRow R → bsp g (stabOp R C q) = false) :
    InSpan (plaquetteIndices R C).length ((boundaryOps R C).map (syndrome R C)) (syndrome R C g) := by
  let t : Nat → Bool := fun i => sbit R C g (0, 2 * (i : Int))
  let β : Int × Int → Bool := fun s =>
    sbit R C g s ^^ xorSum (List.range C.toNat) (fun i => t i && sbit R C (bop R C i) s)
  have hdist : ∀ q, RealP R C q →
      xorSum (plaquetteSites q.1 q.2) (fun s => inBounds R C s.1 s.2 && β s) =
        (bsp g (stabOp R C q) ^^ xorSum (List.range C.toNat) (fun i => t i && bsp (bop R C i) (stabOp R C q))) := by
    intro q hq
    rw [bsp_ysym R C hR hC g hg q hq]
    have e1 : (fun s : Int × Int => inBounds R C s.1 s.2 && β s) = fun s =>
        ((inBounds R C s.1 s.2 && sbit R C g s) ^^
          xorSum (List.range C.toNat) (fun i => t i && (inBounds R C s.1 s.2 && sbit R C (bop R C i) s))) := by
      funext s
      show (inBounds R C s.1 s.2 && (sbit R C g s ^^ xorSum _ _)) = _
      rw [Bool.and_xor_distrib_left, ← xorSum_and]
      congr 2
      funext i
      cases inBounds R C s.1 s.2 <;> cases t i <;> simp
    rw [e1, xorSum_xor, xorSum_comm]
    congr 2
    funext i
    rw [xorSum_and, bsp_ysym R C hR hC _ (bop_ysym R C hR hC i) q hq]
  have hβ : ∀ (n : Nat) (r c : Int), r ≤ n → SiteIn R C r c → β (r, c) = false := by
    apply uniq_rows R C β
    · intro q hq hlt
      rw [hdist q hq, hz q hq hlt, Bool.false_xor]
      apply xorSum_false
      intro i _
      have : bsp (bop R C i) (stabOp R C q) = false := by
        rw [bsp_comm _ _ (by rw [(bop_ysym R C hR hC i).1, stabOp_length]) (by rw [(bop_ysym R C hR hC i).1]; omega)]
        unfold bop
        rw [fill_syndrome_down R C hR hC _ q (by simp only; omega) hq hlt]
        apply decide_eq_false
        intro h
        unfold RealP at hq
        rw [h] at hq
        simp only at hq
        omega
      rw [this, Bool.and_false]
    · intro c hs
      show (sbit R C g (0, c) ^^ xorSum _ _) = false
      have hs' := hs
      unfold SiteIn at hs'
      have hc : c = 2 * ((c / 2).toNat : Int) := by omega
      have e2 : xorSum (List.range C.toNat) (fun i => t i && sbit R C (bop R C i) (0, c)) =
          xorSum (List.range C.toNat) (fun i => t i && decide (i = (c / 2).toNat)) := by
        apply xorSum_congr
        intro i hi
        have := List.mem_range.mp hi
        rw [bop_top R C hR hC i (by omega) c hs]
        congr 1
        apply decide_eq_decide.mpr
        omega
      rw [e2, xorSum_range_pick _ _ (by omega)]
      show (sbit R C g (0, c) ^^ sbit R C g (0, 2 * (((c / 2).toNat : Nat) : Int))) = false
      rw [← hc]
      simp
  -- the syndrome bits
  rw [boundaryOps_down R C hRC, List.map_map]
  apply inSpan_of_bits _ (List.range C.toNat) (fun i => syndrome R C (bop R C i)) t
  · intro i _; exact syndrome_length R C _
  · exact syndrome_length R C g
  · intro j hj
    simp only [syndrome_eq_map, List.getD_eq_getElem?_getD, List.getElem?_map]
    rw [List.getElem?_eq_getElem hj]
    simp only [Option.map_some, Option.getD_some]
    have hq : RealP R C (plaquetteIndices R C)[j] := (mem_plaquetteIndices R C _).mp (List.getElem_mem hj)
    generalize (plaquetteIndices R C)[j] = q at hq
    have h1 := hdist q hq
    have h0 : xorSum (plaquetteSites q.1 q.2) (fun s => inBounds R C s.1 s.2 && β s) = false := by
      apply xorSum_false
      intro s hs
      by_cases hb : inBounds R C s.1 s.2 = true
      · have hsite : SiteIn R C s.1 s.2 := by
          have := allSites_plaq q.1 q.2 hq.2.2.2.2 s hs
          rw [inBounds_iff] at hb; unfold SiteIn; omega
        have := hβ s.1.toNat s.1 s.2 (by unfold SiteIn at hsite; omega) hsite
        rw [this, Bool.and_false]
      · simp [hb]
    rw [h0] at h1
    exact eq_of_xor_false _ _ h1

/-! ### totality of the residual look-up and the sample recovery (R ≥ C, non-co-prime) -/

theorem foldl_ysym {ι : Type} (n : Nat) (P : ι → BVec) (l : List ι) (hP : ∀ p ∈ l, YSym n (P p)) (acc : BVec)
    (hacc : YSym n acc) : YSym n (l.foldl (fun rec p => xorV rec (P p)) acc) := by
  induction l generalizing acc with
  | nil => exact hacc
  | cons p l ih =>
    simp only [List.foldl_cons]
    exact ih (fun q hq => hP q (List.mem_cons_of_mem _ hq)) _ (ysym_xorV n _ _ hacc (hP p List.mem_cons_self))

theorem partialRecovery_ysym (R C : Int) (hR : 2 ≤ R) (hC : 2 ≤ C) (p : Int × Int) (hp : RealP R C p) :
    YSym (nq R C) (partialRecovery R C p) := by
  unfold RealP at hp
  unfold partialRecovery
  split
  · exact ysym_zeros _
  · split
    · exact ysym_yop R C hR hC _ (allSites_snakeFillSites R C _ false (by simp only; omega))
    · exact ysym_yop R C hR hC _ (allSites_snakeFillSites R C _ true (by simp only; omega))

theorem partialSum_ysym (R C : Int) (hR : 2 ≤ R) (hC : 2 ≤ C) (e : BVec) :
    YSym (nq R C) (partialSum R C (syndrome R C e)) := by
  unfold partialSum
  apply foldl_ysym _ _ _ _ _ (ysym_zeros _)
  intro p hp
  rw [syndrome_eq_map] at hp
  unfold syndromeToPlaquettes at hp
  rw [defects_eq] at hp
  exact partialRecovery_ysym R C hR hC p ((mem_plaquetteIndices R C p).mp (List.mem_filter.mp hp).1)

theorem residual_eq (R C : Int) (hR : 2 ≤ R) (hC : 2 ≤ C) (e : BVec) (he : YSym (nq R C) e) :
    xorV (syndrome R C e) (syndrome R C (partialSum R C (syndrome R C e))) =
      syndrome R C (xorV e (partialSum R C (syndrome R C e))) := by
  rw [syndrome_xorV R C _ _ (by rw [he.1, partialSum_length])]

theorem residual_total_down (R C : Int) (hR : 2 ≤ R) (hC : 2 ≤ C) (hRC : ¬ R < C) (e : BVec) (he : YSym (nq R C) e)
    (hnz : (xorV (syndrome R C e) (syndrome R C (partialSum R C (syndrome R C e)))).any id = true) :
    ∃ v, lookup (residualMap R C) (xorV (syndrome R C e) (syndrome R C (partialSum R C (syndrome R C e)))) = some v := by
  apply residual_found R C _ _ hnz
  rw [residual_eq R C hR hC e he]
  apply span_of_boundary R C hR hC hRC _ (ysym_xorV _ _ _ he (partialSum_ysym R C hR hC e))
  intro q hq hlt
  exact residual_bit R C hR hC e he.1 q hq (by rw [if_neg hRC]; exact hlt)

theorem sample_syndrome_down (R C : Int) (hR : 2 ≤ R) (hC : 2 ≤ C) (hRC : ¬ R < C) (hc : coprime R C = false)
    (e : BVec) (he : YSym (nq R C) e) :
    ∃ r, sampleRecovery R C (syndrome R C e) = .ok r ∧ r.length = 2 * nq R C ∧
      syndrome R C r = syndrome R C e :=
  sample_of_partial R C _ _ (syndrome_length R C e) (partialSum_length R C _) (combinedPartial_nc R C _ hc)
    (residual_total_down R C hR hC hRC e he)

end Qec.PlanarYL
