/-
  Helper lemmas for Props/C14/Bridge.lean: the bridge between C13 (`Model/Matching.lean`: graphs over small integer
  nodes built by an insertion sequence of `add_edge(a, b, w)` with `Rat` weights; `IsPM`, `weightBy`,
  `mwpmNetworkx oracle` under `NxContract`) and C14 (`Model/Decoders.lean`: `isPerfectMatchingOfGraph nodes edges`
  over plaquette indices, `cost dist` with `Nat` weights).

  * what an insertion sequence stores: `edgeW (build ops) x y` is `some w` only if some `add_edge` wrote the
    unordered pair {x,y} with weight `w`, and is `some _` as soon as some `add_edge` wrote {x,y}; the nodes of
    `build ops` are the endpoints of the insertions.
  * `GraphEnc`: a decoder graph (`nodes`, weighted edge list `W` in insertion order, distance `d`) with an integer
    encoding `enc` of its nodes that `dec` inverts.
  * `isPM_iff`, `weight_eq`: a list of pairs over `nodes` is a perfect matching of the decoder graph iff its encoding
    is an `IsPM` of `build (graphOps enc W)`, and the total weights agree (`Nat` cast to `Rat`).
  * `bridge_generic`: under `NxContract oracle`, decoding `mwpmNetworkx oracle (build (graphOps enc W))` gives a
    minimum-weight perfect matching of the decoder graph (whenever the graph has a perfect matching at all).
  * `firstOcc`, `nodeOrder`, `encF`, `decF`: numbering of the nodes by first occurrence in the insertion sequence
    (what the C13 harness does with the decoders' node objects), with `graphEnc_firstOcc`.
-/
import QecVerif.Props.C13
import QecVerif.Lemmas.TJoin
namespace Qec.MwpmBridge
open Qec Qec.Dec Qec.Matching Qec.TJoin

/-! ### what an insertion sequence stores -/

theorem fold_some (ops : List (Node × Node × Rat)) : ∀ (f : Edge → Option Rat) (k : Edge) (w : Rat),
    (ops.foldl (fun f o => specAdd f o.1 o.2.1 o.2.2) f) k = some w →
    f k = some w ∨ ∃ o ∈ ops, (o.1, o.2.1) = k ∧ o.2.2 = w := by
  induction ops with
  | nil => intro f k w h; exact .inl h
  | cons o ops ih =>
    intro f k w h
    rw [List.foldl_cons] at h
    rcases ih _ k w h with h1 | ⟨o', ho', hk⟩
    · unfold specAdd at h1
      by_cases e1 : k = (o.1, o.2.1)
      · rw [if_pos e1] at h1
        exact .inr ⟨o, by simp, e1.symm, by simpa using h1⟩
      · rw [if_neg e1] at h1
        by_cases e2 : k = (o.2.1, o.1)
        · rw [if_pos e2] at h1; cases h1
        · rw [if_neg e2] at h1; exact .inl h1
    · exact .inr ⟨o', List.mem_cons_of_mem _ ho', hk⟩

/-- the unordered pair {x,y} is stored (in one orientation or the other) -/
def Present (f : Edge → Option Rat) (x y : Node) : Prop := f (x, y) ≠ none ∨ f (y, x) ≠ none

theorem present_specAdd (f : Edge → Option Rat) (a b : Node) (w : Rat) (x y : Node) (h : Present f x y) :
    Present (specAdd f a b w) x y := by
  unfold Present specAdd at *
  by_cases e1 : (x, y) = (a, b)
  · left; rw [if_pos e1]; simp
  · by_cases e2 : (y, x) = (a, b)
    · right; rw [if_pos e2]; simp
    · have e3 : (x, y) ≠ (b, a) := by
        intro e; apply e2; simp only [Prod.mk.injEq] at e ⊢; exact ⟨e.2, e.1⟩
      have e4 : (y, x) ≠ (b, a) := by
        intro e; apply e1; simp only [Prod.mk.injEq] at e ⊢; exact ⟨e.2, e.1⟩
      rw [if_neg e1, if_neg e3, if_neg e2, if_neg e4]; exact h

theorem present_hit (f : Edge → Option Rat) (a b : Node) (w : Rat) (x y : Node)
    (h : (a, b) = (x, y) ∨ (b, a) = (x, y)) : Present (specAdd f a b w) x y := by
  unfold Present specAdd
  rcases h with h | h
  · left; rw [if_pos h.symm]; simp
  · right
    have : (y, x) = (a, b) := by simp only [Prod.mk.injEq] at h ⊢; exact ⟨h.2.symm, h.1.symm⟩
    rw [if_pos this]; simp

theorem fold_present (ops : List (Node × Node × Rat)) (x y : Node) : ∀ (f : Edge → Option Rat),
    (Present f x y ∨ ∃ o ∈ ops, (o.1, o.2.1) = (x, y) ∨ (o.2.1, o.1) = (x, y)) →
    Present (ops.foldl (fun f o => specAdd f o.1 o.2.1 o.2.2) f) x y := by
  induction ops with
  | nil =>
    intro f h
    rcases h with h | ⟨o, ho, _⟩
    · exact h
    · simp at ho
  | cons o ops ih =>
    intro f h
    rw [List.foldl_cons]
    apply ih
    rcases h with h | ⟨o', ho', hk⟩
    · exact .inl (present_specAdd f _ _ _ x y h)
    · rcases List.mem_cons.mp ho' with rfl | ho'
      · exact .inl (present_hit f _ _ _ x y hk)
      · exact .inr ⟨o', ho', hk⟩

/-- a stored weight of {x,y} was written by some `add_edge` for {x,y} -/
theorem edgeW_build_some (ops : List (Node × Node × Rat)) (x y : Node) (w : Rat)
    (h : edgeW (build ops) x y = some w) :
    ∃ o ∈ ops, ((o.1, o.2.1) = (x, y) ∨ (o.1, o.2.1) = (y, x)) ∧ o.2.2 = w := by
  rw [C13.edgeW_build] at h
  cases h1 : lastWrite ops (x, y) with
  | some w' =>
    rw [h1] at h
    simp only [Option.some.injEq] at h
    subst h
    rcases fold_some ops _ _ _ h1 with h2 | ⟨o, ho, hk, hw⟩
    · cases h2
    · exact ⟨o, ho, .inl hk, hw⟩
  | none =>
    rw [h1] at h
    simp only at h
    rcases fold_some ops _ _ _ h with h2 | ⟨o, ho, hk, hw⟩
    · cases h2
    · exact ⟨o, ho, .inr hk, hw⟩

/-- as soon as some `add_edge` wrote {x,y}, the pair is an edge of the built graph -/
theorem edgeW_build_isSome (ops : List (Node × Node × Rat)) (x y : Node)
    (h : ∃ o ∈ ops, (o.1, o.2.1) = (x, y) ∨ (o.2.1, o.1) = (x, y)) :
    (edgeW (build ops) x y).isSome = true := by
  have hp : Present (lastWrite ops) x y := fold_present ops x y _ (.inr h)
  rw [C13.edgeW_build]
  cases h1 : lastWrite ops (x, y) with
  | some w' => rfl
  | none =>
    simp only
    rcases hp with hp | hp
    · exact absurd h1 hp
    · exact Option.isSome_iff_ne_none.mpr hp

/-- the nodes of the built graph are the endpoints of the insertions -/
theorem mem_nodesOf_build (ops : List (Node × Node × Rat)) (v : Node) :
    v ∈ nodesOf (build ops) ↔ ∃ o ∈ ops, v = o.1 ∨ v = o.2.1 := by
  constructor
  · intro hv
    obtain ⟨e, he, hve⟩ := (mem_nodesOf _ v).mp hv
    have h1 : lastWrite ops e.1 = some e.2 := ((repr_build ops).2 e.1 e.2).mp he
    rcases fold_some ops _ _ _ h1 with h2 | ⟨o, ho, hk, _⟩
    · cases h2
    · refine ⟨o, ho, ?_⟩
      rw [← hk] at hve
      exact hve
  · rintro ⟨o, ho, hv⟩
    have := edge_nodes (edgeW_build_isSome ops o.1 o.2.1 ⟨o, ho, .inl rfl⟩)
    rcases hv with rfl | rfl
    · exact this.1
    · exact this.2

/-! ### a decoder graph with an integer encoding of its nodes -/

section generic
variable {V : Type} [DecidableEq V]

/-- the insertion sequence: one `add_edge(enc a, enc b, w)` per weighted edge, in list order -/
def graphOps (enc : V → Nat) (W : List (V × V × Nat)) : List (Node × Node × Rat) :=
  W.map fun e => (enc e.1, enc e.2.1, (e.2.2 : Rat))

/-- the edge list without weights -/
def edgesOf (W : List (V × V × Nat)) : List (V × V) := W.map fun e => (e.1, e.2.1)

def encPairs (enc : V → Nat) (m : List (V × V)) : List Edge := m.map fun p => (enc p.1, enc p.2)
def decPairs (dec : Nat → V) (M : List Edge) : List (V × V) := M.map fun p => (dec p.1, dec p.2)

/-- `dec` inverts `enc` on the nodes; the nodes are exactly the endpoints of the edges; each edge carries the
    distance of its endpoints as weight, and that distance is symmetric on edges -/
structure GraphEnc (nodes : List V) (W : List (V × V × Nat)) (d : V → V → Nat) (enc : V → Nat) (dec : Nat → V) :
    Prop where
  dec_enc : ∀ v ∈ nodes, dec (enc v) = v
  nodes_iff : ∀ v, v ∈ nodes ↔ ∃ e ∈ W, v = e.1 ∨ v = e.2.1
  weight : ∀ e ∈ W, e.2.2 = d e.1 e.2.1
  symm : ∀ e ∈ W, d e.2.1 e.1 = d e.1 e.2.1

variable {nodes : List V} {W : List (V × V × Nat)} {d : V → V → Nat} {enc : V → Nat} {dec : Nat → V}

omit [DecidableEq V] in
theorem GraphEnc.inj (G : GraphEnc nodes W d enc dec) {a b : V} (ha : a ∈ nodes) (hb : b ∈ nodes)
    (h : enc a = enc b) : a = b := by
  rw [← G.dec_enc a ha, ← G.dec_enc b hb, h]

omit [DecidableEq V] in
theorem GraphEnc.edge_mem (G : GraphEnc nodes W d enc dec) {e : V × V × Nat} (he : e ∈ W) :
    e.1 ∈ nodes ∧ e.2.1 ∈ nodes :=
  ⟨(G.nodes_iff _).mpr ⟨e, he, .inl rfl⟩, (G.nodes_iff _).mpr ⟨e, he, .inr rfl⟩⟩

omit [DecidableEq V] in
theorem mem_graphOps {enc : V → Nat} {W : List (V × V × Nat)} {o : Node × Node × Rat} (h : o ∈ graphOps enc W) :
    ∃ e ∈ W, o = (enc e.1, enc e.2.1, (e.2.2 : Rat)) := by
  unfold graphOps at h
  obtain ⟨e, he, rfl⟩ := List.mem_map.mp h
  exact ⟨e, he, rfl⟩

omit [DecidableEq V] in
/-- nodes of the built graph = encodings of the decoder graph's nodes -/
theorem GraphEnc.mem_nodes (G : GraphEnc nodes W d enc dec) (x : Node) :
    x ∈ nodesOf (build (graphOps enc W)) ↔ ∃ u ∈ nodes, x = enc u := by
  rw [mem_nodesOf_build]
  constructor
  · rintro ⟨o, ho, hx⟩
    obtain ⟨e, he, rfl⟩ := mem_graphOps ho
    rcases hx with rfl | rfl
    · exact ⟨e.1, (G.edge_mem he).1, rfl⟩
    · exact ⟨e.2.1, (G.edge_mem he).2, rfl⟩
  · rintro ⟨u, hu, rfl⟩
    obtain ⟨e, he, hue⟩ := (G.nodes_iff u).mp hu
    refine ⟨(enc e.1, enc e.2.1, (e.2.2 : Rat)), List.mem_map.mpr ⟨e, he, rfl⟩, ?_⟩
    rcases hue with rfl | rfl
    · exact .inl rfl
    · exact .inr rfl

/-- edges of the built graph between encoded nodes = edges of the decoder graph (either orientation) -/
theorem GraphEnc.edge_iff (G : GraphEnc nodes W d enc dec) {a b : V} (ha : a ∈ nodes) (hb : b ∈ nodes) :
    (edgeW (build (graphOps enc W)) (enc a) (enc b)).isSome = true ↔ isEdge (edgesOf W) a b = true := by
  constructor
  · intro h
    obtain ⟨w, hw⟩ := Option.isSome_iff_exists.mp h
    obtain ⟨o, ho, hk, _⟩ := edgeW_build_some _ _ _ _ hw
    obtain ⟨e, he, rfl⟩ := mem_graphOps ho
    have hm := G.edge_mem he
    unfold isEdge edgesOf
    simp only [Bool.or_eq_true, List.contains_iff_mem, List.mem_map]
    simp only [Prod.mk.injEq] at hk
    rcases hk with ⟨h1, h2⟩ | ⟨h1, h2⟩
    · left
      exact ⟨e, he, by rw [G.inj hm.1 ha h1, G.inj hm.2 hb h2]⟩
    · right
      exact ⟨e, he, by rw [G.inj hm.1 hb h1, G.inj hm.2 ha h2]⟩
  · intro h
    unfold isEdge edgesOf at h
    simp only [Bool.or_eq_true, List.contains_iff_mem, List.mem_map, Prod.mk.injEq] at h
    apply edgeW_build_isSome
    rcases h with ⟨e, he, h1, h2⟩ | ⟨e, he, h1, h2⟩
    · exact ⟨_, List.mem_map.mpr ⟨e, he, rfl⟩, .inl (by simp only [h1, h2])⟩
    · exact ⟨_, List.mem_map.mpr ⟨e, he, rfl⟩, .inr (by simp only [h1, h2])⟩

omit [DecidableEq V] in
/-- … and the stored weight is the decoder's distance -/
theorem GraphEnc.edge_weight (G : GraphEnc nodes W d enc dec) {a b : V} (ha : a ∈ nodes) (hb : b ∈ nodes)
    {w : Rat} (hw : edgeW (build (graphOps enc W)) (enc a) (enc b) = some w) : w = (d a b : Rat) := by
  obtain ⟨o, ho, hk, hw'⟩ := edgeW_build_some _ _ _ _ hw
  obtain ⟨e, he, rfl⟩ := mem_graphOps ho
  have hm := G.edge_mem he
  simp only [Prod.mk.injEq] at hk
  simp only at hw'
  rw [← hw', G.weight e he]
  rcases hk with ⟨h1, h2⟩ | ⟨h1, h2⟩
  · rw [G.inj hm.1 ha h1, G.inj hm.2 hb h2]
  · rw [← G.symm e he, G.inj hm.1 hb h1, G.inj hm.2 ha h2]

omit [DecidableEq V] in
theorem endpoints_encPairs (enc : V → Nat) (m : List (V × V)) : endpoints (encPairs enc m) = (ends m).map enc := by
  induction m with
  | nil => rfl
  | cons p m ih =>
    have e1 : encPairs enc (p :: m) = (enc p.1, enc p.2) :: encPairs enc m := rfl
    have e2 : ends (p :: m) = p.1 :: p.2 :: ends m := by simp [ends]
    rw [e1, endpoints_cons, ih, e2]
    rfl

theorem count_map_enc (enc : V → Nat) (u : V) (l : List V) (h : ∀ v ∈ l, enc v = enc u → v = u) :
    (l.map enc).count (enc u) = l.count u := by
  induction l with
  | nil => rfl
  | cons x l ih =>
    rw [List.map_cons, List.count_cons, List.count_cons, ih (fun v hv => h v (List.mem_cons_of_mem _ hv))]
    by_cases hx : x = u
    · subst hx; simp
    · have : enc x ≠ enc u := fun e => hx (h x List.mem_cons_self e)
      simp [hx, this]

/-- **perfect matchings correspond**: a list of pairs over the nodes is a perfect matching of the decoder graph iff
    its encoding is a perfect matching (C13's `IsPM`) of the graph built by the insertion sequence -/
theorem GraphEnc.isPM_iff (G : GraphEnc nodes W d enc dec) (m : List (V × V)) (hm : ∀ v ∈ ends m, v ∈ nodes) :
    isPerfectMatchingOfGraph nodes (edgesOf W) m = true ↔
      IsPM (nodesOf (build (graphOps enc W))) (edgeW (build (graphOps enc W))) (encPairs enc m) := by
  rw [← C13.isPerfectMatching_iff_isPM, C13.isPerfectMatching_spec]
  have hmem : ∀ p ∈ m, p.1 ∈ nodes ∧ p.2 ∈ nodes := fun p hp =>
    ⟨hm _ (by unfold ends; exact List.mem_flatMap.mpr ⟨p, hp, by simp⟩),
     hm _ (by unfold ends; exact List.mem_flatMap.mpr ⟨p, hp, by simp⟩)⟩
  have hcount : ∀ u ∈ nodes, (endpoints (encPairs enc m)).count (enc u) = (ends m).count u := by
    intro u hu
    rw [endpoints_encPairs]
    exact count_map_enc enc u _ (fun v hv e => G.inj (hm v hv) hu e)
  unfold isPerfectMatchingOfGraph
  simp only [Bool.and_eq_true, List.all_eq_true, beq_iff_eq, List.contains_iff_mem]
  constructor
  · rintro ⟨⟨h1, h2⟩, _⟩
    refine ⟨?_, ?_⟩
    · intro p hp
      obtain ⟨q, hq, rfl⟩ := List.mem_map.mp hp
      exact Option.isSome_iff_exists.mp ((G.edge_iff (hmem q hq).1 (hmem q hq).2).mpr (h1 q hq))
    · intro x hx
      obtain ⟨u, hu, rfl⟩ := (G.mem_nodes x).mp hx
      rw [hcount u hu]; exact h2 u hu
  · rintro ⟨h1, h2⟩
    refine ⟨⟨?_, ?_⟩, hm⟩
    · intro q hq
      exact (G.edge_iff (hmem q hq).1 (hmem q hq).2).mp
        (Option.isSome_iff_exists.mpr (h1 _ (List.mem_map.mpr ⟨q, hq, rfl⟩)))
    · intro u hu
      rw [← hcount u hu]
      exact h2 _ ((G.mem_nodes _).mpr ⟨u, hu, rfl⟩)

/-- **total weights agree**: `Nat` distances cast to the `Rat` weights of the built graph -/
theorem GraphEnc.weight_eq (G : GraphEnc nodes W d enc dec) (m : List (V × V)) (hm : ∀ v ∈ ends m, v ∈ nodes)
    (he : ∀ p ∈ m, isEdge (edgesOf W) p.1 p.2 = true) :
    weightBy (edgeW (build (graphOps enc W))) (encPairs enc m) = ((cost d m : Nat) : Rat) := by
  induction m with
  | nil => simp [encPairs, weightBy, cost]
  | cons p m ih =>
    have e2 : ends (p :: m) = p.1 :: p.2 :: ends m := by simp [ends]
    have h1 : p.1 ∈ nodes := hm _ (by rw [e2]; simp)
    have h2 : p.2 ∈ nodes := hm _ (by rw [e2]; simp)
    have ih' := ih (fun v hv => hm v (by rw [e2]; simp [hv])) (fun q hq => he q (List.mem_cons_of_mem _ hq))
    have e1 : encPairs enc (p :: m) = (enc p.1, enc p.2) :: encPairs enc m := rfl
    have e3 : cost d (p :: m) = d p.1 p.2 + cost d m := by simp [cost]
    rw [e1, e3]
    simp only [weightBy]
    rw [ih', Nat.cast_add]
    congr 1
    obtain ⟨w, hw⟩ := Option.isSome_iff_exists.mp ((G.edge_iff h1 h2).mpr (he p List.mem_cons_self))
    unfold pairW
    simp only
    rw [hw, G.edge_weight h1 h2 hw]
    rfl

omit [DecidableEq V] in
theorem ends_decPairs (dec : Nat → V) (M : List Edge) : ends (decPairs dec M) = (endpoints M).map dec := by
  induction M with
  | nil => rfl
  | cons p M ih =>
    have e1 : decPairs dec (p :: M) = (dec p.1, dec p.2) :: decPairs dec M := rfl
    have e2 : ends ((dec p.1, dec p.2) :: decPairs dec M) = dec p.1 :: dec p.2 :: ends (decPairs dec M) := by
      simp [ends]
    rw [e1, e2, ih, endpoints_cons]
    rfl

omit [DecidableEq V] in
/-- a list of pairs over the nodes of the built graph is the encoding of its decoding -/
theorem GraphEnc.enc_dec (G : GraphEnc nodes W d enc dec) (M : List Edge)
    (hM : ∀ x ∈ endpoints M, x ∈ nodesOf (build (graphOps enc W))) :
    encPairs enc (decPairs dec M) = M ∧ ∀ v ∈ ends (decPairs dec M), v ∈ nodes := by
  have hx : ∀ x ∈ endpoints M, enc (dec x) = x ∧ dec x ∈ nodes := by
    intro x hx
    obtain ⟨u, hu, rfl⟩ := (G.mem_nodes x).mp (hM x hx)
    rw [G.dec_enc u hu]; exact ⟨rfl, hu⟩
  constructor
  · unfold encPairs decPairs
    rw [List.map_map]
    conv => rhs; rw [← List.map_id M]
    apply List.map_congr_left
    intro p hp
    have h1 := (hx p.1 (List.mem_flatMap.mpr ⟨p, hp, by simp⟩)).1
    have h2 := (hx p.2 (List.mem_flatMap.mpr ⟨p, hp, by simp⟩)).1
    simp only [Function.comp, id, h1, h2]
  · intro v hv
    rw [ends_decPairs] at hv
    obtain ⟨x, hx', rfl⟩ := List.mem_map.mp hv
    exact (hx x hx').2

/-- **the bridge, generic form**: if the decoder graph has a perfect matching at all and the networkx routine meets
    its contract, then the pairs `mwpm_networkx` returns for the graph built by the insertion sequence decode to a
    perfect matching of the decoder graph of minimum total distance -/
theorem bridge_generic (oracle : Graph → Bool → List Edge) (hc : C13.NxContract oracle)
    (G : GraphEnc nodes W d enc dec)
    (hex : ∃ m', isPerfectMatchingOfGraph nodes (edgesOf W) m' = true) :
    isPerfectMatchingOfGraph nodes (edgesOf W)
        (decPairs dec (mwpmNetworkx oracle (build (graphOps enc W)))) = true ∧
    ∀ m', isPerfectMatchingOfGraph nodes (edgesOf W) m' = true →
      cost d (decPairs dec (mwpmNetworkx oracle (build (graphOps enc W)))) ≤ cost d m' := by
  obtain ⟨m0, hm0⟩ := hex
  have hpm0 := (G.isPM_iff m0 (pm_ends _ _ _ hm0)).mp hm0
  obtain ⟨hM, hmin, _⟩ := C13.mwpmNetworkx_min_weight_perfect oracle hc (build (graphOps enc W)) ⟨_, hpm0⟩
  set M := mwpmNetworkx oracle (build (graphOps enc W)) with hMdef
  obtain ⟨hed, hends⟩ := G.enc_dec M (fun x hx => hM.2.subset hx)
  have hpm : isPerfectMatchingOfGraph nodes (edgesOf W) (decPairs dec M) = true := by
    rw [G.isPM_iff _ hends, hed]; exact hM
  refine ⟨hpm, ?_⟩
  intro m' hm'
  have hends' := pm_ends _ _ _ hm'
  have hpm' := (G.isPM_iff m' hends').mp hm'
  have hle := hmin _ hpm'
  unfold matchingWeight at hle
  have hedge : ∀ (m : List (V × V)), isPerfectMatchingOfGraph nodes (edgesOf W) m = true →
      ∀ p ∈ m, isEdge (edgesOf W) p.1 p.2 = true := by
    intro m h p hp
    unfold isPerfectMatchingOfGraph at h
    simp only [Bool.and_eq_true, List.all_eq_true] at h
    exact h.1.1 p hp
  rw [G.weight_eq m' hends' (hedge m' hm')] at hle
  have := G.weight_eq (decPairs dec M) hends (hedge _ hpm)
  rw [hed] at this
  rw [this] at hle
  exact Nat.cast_le.mp hle

omit [DecidableEq V] in
/-- the empty graph (no insertions) yields the empty matching without consulting the routine -/
theorem bridge_empty (oracle : Graph → Bool → List Edge) (enc : V → Nat) (dec : Nat → V) :
    decPairs dec (mwpmNetworkx oracle (build (graphOps enc ([] : List (V × V × Nat))))) = [] := rfl

/-! ### numbering the nodes by first occurrence in the insertion sequence -/

/-- duplicates removed, FIRST occurrences kept (Python: the order in which a dict keyed by the nodes is filled) -/
def firstOcc (l : List V) : List V := (dedup l.reverse).reverse

theorem mem_firstOcc (l : List V) (x : V) : x ∈ firstOcc l ↔ x ∈ l := by
  unfold firstOcc
  rw [List.mem_reverse, mem_dedup, List.mem_reverse]

/-- the nodes in the order in which the `add_edge` calls first mention them -/
def nodeOrder (W : List (V × V × Nat)) : List V := firstOcc (W.flatMap fun e => [e.1, e.2.1])

theorem mem_nodeOrder (W : List (V × V × Nat)) (v : V) : v ∈ nodeOrder W ↔ ∃ e ∈ W, v = e.1 ∨ v = e.2.1 := by
  unfold nodeOrder
  rw [mem_firstOcc, List.mem_flatMap]
  simp only [List.mem_cons, List.not_mem_nil, or_false]

/-- node ↦ its number -/
def encF (W : List (V × V × Nat)) (v : V) : Nat := (nodeOrder W).idxOf v
/-- number ↦ node -/
def decF [Inhabited V] (W : List (V × V × Nat)) (i : Nat) : V := (nodeOrder W).getD i default

theorem decF_encF [Inhabited V] (W : List (V × V × Nat)) (v : V) (hv : v ∈ nodeOrder W) :
    decF W (encF W v) = v := by
  unfold decF encF
  have hlt : (nodeOrder W).idxOf v < (nodeOrder W).length := List.idxOf_lt_length_of_mem hv
  rw [List.getD_eq_getElem?_getD, List.getElem?_eq_getElem hlt]
  exact List.getElem_idxOf hlt

/-- a decoder graph whose node list is the set of endpoints of its edges, with weights = a symmetric distance,
    is encoded by the first-occurrence numbering -/
theorem graphEnc_firstOcc [Inhabited V] (nodes : List V) (W : List (V × V × Nat)) (d : V → V → Nat)
    (hn : ∀ v, v ∈ nodes ↔ ∃ e ∈ W, v = e.1 ∨ v = e.2.1)
    (hw : ∀ e ∈ W, e.2.2 = d e.1 e.2.1) (hs : ∀ e ∈ W, d e.2.1 e.1 = d e.1 e.2.1) :
    GraphEnc nodes W d (encF W) (decF W) :=
  ⟨fun v hv => decF_encF W v ((mem_nodeOrder W v).mpr ((hn v).mp hv)), hn, hw, hs⟩

omit [DecidableEq V] in
/-- in a list with at least two members every member occurs in one of the `combinations(l, 2)` -/
theorem mem_pairsOf_of_two (l : List V) (h : 2 ≤ l.length) (v : V) (hv : v ∈ l) :
    ∃ p ∈ pairsOf l, v = p.1 ∨ v = p.2 := by
  match l, h with
  | x :: y :: r, _ =>
    rcases List.mem_cons.mp hv with rfl | hv'
    · exact ⟨(v, y), by simp [pairsOf], .inl rfl⟩
    · exact ⟨(x, v), by
        unfold pairsOf
        exact List.mem_append_left _ (List.mem_map.mpr ⟨v, hv', rfl⟩), .inr rfl⟩

/-! ### the two decoder graphs of `Model/Decoders.lean` -/

omit [DecidableEq V] in
theorem two_le_of_mem_pairsOf (l : List V) (p : V × V) (h : p ∈ pairsOf l) : 2 ≤ l.length := by
  match l, h with
  | [], h => simp [pairsOf] at h
  | [_], h => simp [pairsOf] at h
  | _ :: _ :: _, _ => simp

end generic

/-- the weighted edge list without its weights is the edge list of the model -/
theorem edgesOf_planar (R C : Int) (t : Bool) (ds : List Idx2) :
    edgesOf (planarWeightedEdges R C t ds) = planarEdges R C t ds := by
  unfold edgesOf planarWeightedEdges planarEdges
  simp only [List.map_append, List.map_map]
  congr 1
  · congr 1
    exact (List.map_congr_left (fun p _ => rfl)).trans (List.map_id _)
  · exact (List.map_congr_left (fun p _ => rfl)).trans (List.map_id _)

theorem edgesOf_toric (R C : Int) (ds : List Toric.Idx) :
    edgesOf (toricWeightedEdges R C ds) = toricEdges ds := by
  unfold edgesOf toricWeightedEdges toricEdges
  rw [List.map_map]
  exact (List.map_congr_left (fun p _ => rfl)).trans (List.map_id _)

theorem mem_planarWeightedEdges (R C : Int) (t : Bool) (ds : List Idx2) (e : Idx2 × Idx2 × Nat) :
    e ∈ planarWeightedEdges R C t ds ↔
      (∃ a ∈ ds, e = (a, vpT R C a, Dec.distT R C a (vpT R C a))) ∨
      (∃ p ∈ pairsOf ds, e = (p.1, p.2, Dec.distT R C p.1 p.2)) ∨
      (∃ p ∈ pairsOf (planarVNodes R C t ds), e = (p.1, p.2, 0)) := by
  unfold planarWeightedEdges
  simp only [List.mem_append, List.mem_map, or_assoc]
  constructor
  · rintro (⟨a, ha, rfl⟩ | ⟨p, hp, rfl⟩ | ⟨p, hp, rfl⟩)
    · exact .inl ⟨a, ha, rfl⟩
    · exact .inr (.inl ⟨p, hp, rfl⟩)
    · exact .inr (.inr ⟨p, hp, rfl⟩)
  · rintro (⟨a, ha, rfl⟩ | ⟨p, hp, rfl⟩ | ⟨p, hp, rfl⟩)
    · exact .inl ⟨a, ha, rfl⟩
    · exact .inr (.inl ⟨p, hp, rfl⟩)
    · exact .inr (.inr ⟨p, hp, rfl⟩)

/-- the planar decoder graph of type `t` for real defects `ds` of that type, numbered by first occurrence -/
theorem graphEnc_planar (R C : Int) (H : PlanarL.Spec R C) (t : Bool) (ds : List Idx2)
    (hds : ∀ a ∈ ds, PlanarL.Real R C a ∧ Planar.isPrimal a.1 a.2 = t) :
    GraphEnc (planarNodes R C t ds) (planarWeightedEdges R C t ds) (Dec.distT R C)
      (encF (planarWeightedEdges R C t ds)) (decF (planarWeightedEdges R C t ds)) := by
  apply graphEnc_firstOcc
  · intro v
    unfold planarNodes
    rw [List.mem_append]
    constructor
    · rintro (hv | hv)
      · exact ⟨_, (mem_planarWeightedEdges R C t ds _).mpr (.inl ⟨v, hv, rfl⟩), .inl rfl⟩
      · by_cases h2 : 2 ≤ (planarVNodes R C t ds).length
        · obtain ⟨p, hp, hvp⟩ := mem_pairsOf_of_two _ h2 v hv
          exact ⟨_, (mem_planarWeightedEdges R C t ds _).mpr (.inr (.inr ⟨p, hp, rfl⟩)), hvp⟩
        · have hpar := PlanarL.vnodes_parity R C t ds
          have hpos : 0 < (planarVNodes R C t ds).length := List.length_pos_of_mem hv
          have h1 : (planarVNodes R C t ds).length = 1 := by omega
          obtain ⟨x, hx⟩ := List.length_eq_one_iff.mp h1
          have hdpos : 0 < ds.length := by omega
          obtain ⟨a, ha⟩ := List.exists_mem_of_length_pos hdpos
          have hva := PlanarL.vpT_mem_vnodes R C t ds a ha
          rw [hx] at hv hva
          simp only [List.mem_singleton] at hv hva
          exact ⟨_, (mem_planarWeightedEdges R C t ds _).mpr (.inl ⟨a, ha, rfl⟩), .inr (by rw [hv, hva])⟩
    · rintro ⟨e, he, hv⟩
      rcases (mem_planarWeightedEdges R C t ds e).mp he with ⟨a, ha, rfl⟩ | ⟨p, hp, rfl⟩ | ⟨p, hp, rfl⟩
      · rcases hv with rfl | rfl
        · exact .inl ha
        · exact .inr (PlanarL.vpT_mem_vnodes R C t ds a ha)
      · have := mem_pairsOf ds p.1 p.2 hp
        rcases hv with rfl | rfl
        · exact .inl this.1
        · exact .inl this.2
      · have := mem_pairsOf _ p.1 p.2 hp
        rcases hv with rfl | rfl
        · exact .inr this.1
        · exact .inr this.2
  · intro e he
    rcases (mem_planarWeightedEdges R C t ds e).mp he with ⟨a, ha, rfl⟩ | ⟨p, hp, rfl⟩ | ⟨p, hp, rfl⟩
    · rfl
    · rfl
    · have := mem_pairsOf _ p.1 p.2 hp
      exact (ChainPlanar.distT_out R C p.1 p.2 (PlanarL.vnodes_out R C H t ds hds _ this.1).1.2
        (PlanarL.vnodes_out R C H t ds hds _ this.2).1.2).symm
  · intro e _
    exact ChainPlanar.distT_symm R C _ _

/-- the decoder's toric distance is symmetric on ALL index pairs (0 on pairs from different lattices) -/
theorem toricDistT_symm (R C : Int) (hR : 0 < R) (hC : 0 < C) (a b : Toric.Idx) :
    ChainToric.toricDistT R C a b = ChainToric.toricDistT R C b a := by
  by_cases h : a.1 % 2 = b.1 % 2
  · rw [ChainToric.toricDistT_eq R C a b h, ChainToric.toricDistT_eq R C b a h.symm]
    exact ChainToric.dist_symm R C hR hC a b
  · unfold ChainToric.toricDistT
    rw [Toric.distance_eq_error R C a b h, Toric.distance_eq_error R C b a (fun e => h e.symm)]

/-- the toric decoder graph of one lattice for ANY defect list, numbered by first occurrence -/
theorem graphEnc_toric (R C : Int) (hR : 0 < R) (hC : 0 < C) (ds : List Toric.Idx) :
    GraphEnc (toricNodes ds) (toricWeightedEdges R C ds) (ChainToric.toricDistT R C)
      (encF (toricWeightedEdges R C ds)) (decF (toricWeightedEdges R C ds)) := by
  apply graphEnc_firstOcc
  · intro v
    unfold toricNodes toricWeightedEdges
    constructor
    · intro hv
      split at hv
      · simp at hv
      · rename_i h2
        obtain ⟨p, hp, hvp⟩ := mem_pairsOf_of_two ds (by omega) v hv
        exact ⟨_, List.mem_map.mpr ⟨p, hp, rfl⟩, hvp⟩
    · rintro ⟨e, he, hv⟩
      obtain ⟨p, hp, rfl⟩ := List.mem_map.mp he
      have h2 := two_le_of_mem_pairsOf ds p hp
      have := mem_pairsOf ds p.1 p.2 hp
      rw [if_neg (by omega)]
      rcases hv with rfl | rfl
      · exact this.1
      · exact this.2
  · intro e he
    unfold toricWeightedEdges at he
    obtain ⟨p, hp, rfl⟩ := List.mem_map.mp he
    rfl
  · intro e _
    exact toricDistT_symm R C hR hC _ _

/-! ### an exact matcher that meets the networkx contract (so the contract is satisfiable, and tests can run) -/

/-- `M2` is at least as good as `M1`: more pairs, or as many pairs and at least the total weight -/
def Le (w : Node → Node → Option Rat) (M1 M2 : List Edge) : Prop :=
  M1.length < M2.length ∨ (M1.length = M2.length ∧ weightBy w M1 ≤ weightBy w M2)

instance (w : Node → Node → Option Rat) (M1 M2 : List Edge) : Decidable (Le w M1 M2) := by
  unfold Le; exact inferInstance

theorem Le.refl (w : Node → Node → Option Rat) (M : List Edge) : Le w M M := .inr ⟨rfl, le_refl _⟩

theorem Le.trans {w : Node → Node → Option Rat} {M1 M2 M3 : List Edge} (h1 : Le w M1 M2) (h2 : Le w M2 M3) :
    Le w M1 M3 := by
  unfold Le at *
  rcases h1 with h1 | ⟨h1, h1'⟩ <;> rcases h2 with h2 | ⟨h2, h2'⟩
  · left; omega
  · left; omega
  · left; omega
  · right; exact ⟨h1.trans h2, le_trans h1' h2'⟩

theorem Le.total (w : Node → Node → Option Rat) (M1 M2 : List Edge) (h : ¬ Le w M1 M2) : Le w M2 M1 := by
  unfold Le at *
  by_cases hl : M2.length < M1.length
  · exact .inl hl
  · right
    have h1 : ¬ M1.length < M2.length := fun e => h (.inl e)
    have heq : M1.length = M2.length := by omega
    refine ⟨heq.symm, ?_⟩
    by_contra hw
    exact h (.inr ⟨heq, le_of_lt (not_le.mp hw)⟩)

theorem Le.cons {w : Node → Node → Option Rat} {M1 M2 : List Edge} (p : Edge) (h : Le w M1 M2) :
    Le w (p :: M1) (p :: M2) := by
  unfold Le at *
  simp only [List.length_cons, weightBy]
  rcases h with h | ⟨h, h'⟩
  · left; omega
  · right; exact ⟨by omega, by linarith⟩

theorem Le.of_perm (w : Node → Node → Option Rat) {M1 M2 : List Edge} (h : M1.Perm M2) : Le w M1 M2 :=
  .inr ⟨h.length_eq, le_of_eq (weightBy_perm w h)⟩

def pick (w : Node → Node → Option Rat) (M1 M2 : List Edge) : List Edge := if Le w M1 M2 then M2 else M1

/-- the best of `init` and the candidates `cs` -/
def bestOf (w : Node → Node → Option Rat) (init : List Edge) (cs : List (List Edge)) : List Edge :=
  cs.foldl (pick w) init

theorem bestOf_spec (w : Node → Node → Option Rat) (cs : List (List Edge)) : ∀ init : List Edge,
    (bestOf w init cs = init ∨ bestOf w init cs ∈ cs) ∧ Le w init (bestOf w init cs) ∧
      ∀ c ∈ cs, Le w c (bestOf w init cs) := by
  induction cs with
  | nil => intro init; exact ⟨.inl rfl, Le.refl w _, by simp⟩
  | cons c cs ih =>
    intro init
    have hstep : bestOf w init (c :: cs) = bestOf w (pick w init c) cs := rfl
    rw [hstep]
    obtain ⟨h1, h2, h3⟩ := ih (pick w init c)
    have hp : (pick w init c = init ∨ pick w init c = c) ∧ Le w init (pick w init c) ∧ Le w c (pick w init c) := by
      unfold pick
      by_cases hle : Le w init c
      · rw [if_pos hle]; exact ⟨.inr rfl, hle, Le.refl w _⟩
      · rw [if_neg hle]; exact ⟨.inl rfl, Le.refl w _, Le.total w _ _ hle⟩
    refine ⟨?_, hp.2.1.trans h2, ?_⟩
    · rcases h1 with h1 | h1
      · rw [h1]
        rcases hp.1 with e | e
        · exact .inl e
        · exact .inr (by rw [e]; exact List.mem_cons_self)
      · exact .inr (List.mem_cons_of_mem _ h1)
    · intro c' hc'
      rcases List.mem_cons.mp hc' with rfl | hc'
      · exact hp.2.2.trans h2
      · exact h3 c' hc'

/-- the matchings that use the first node `a`: `a` paired with a later node `b` (either orientation that is an edge),
    completed by `sub b` -/
def cands (w : Node → Node → Option Rat) (a : Node) (rest : List Node) (sub : Node → List Edge) : List (List Edge) :=
  rest.flatMap fun b =>
    (if (w a b).isSome then [(a, b) :: sub b] else []) ++ (if (w b a).isSome then [(b, a) :: sub b] else [])

theorem mem_cands (w : Node → Node → Option Rat) (a : Node) (rest : List Node) (sub : Node → List Edge)
    (c : List Edge) : c ∈ cands w a rest sub ↔
      ∃ b ∈ rest, ((w a b).isSome = true ∧ c = (a, b) :: sub b) ∨ ((w b a).isSome = true ∧ c = (b, a) :: sub b) := by
  unfold cands
  rw [List.mem_flatMap]
  constructor
  · rintro ⟨b, hb, hc⟩
    refine ⟨b, hb, ?_⟩
    rw [List.mem_append] at hc
    rcases hc with hc | hc
    · by_cases h : (w a b).isSome = true
      · rw [if_pos h] at hc; exact .inl ⟨h, by simpa using hc⟩
      · rw [if_neg h] at hc; simp at hc
    · by_cases h : (w b a).isSome = true
      · rw [if_pos h] at hc; exact .inr ⟨h, by simpa using hc⟩
      · rw [if_neg h] at hc; simp at hc
  · rintro ⟨b, hb, h | h⟩
    · exact ⟨b, hb, List.mem_append_left _ (by rw [if_pos h.1]; simp [h.2])⟩
    · exact ⟨b, hb, List.mem_append_right _ (by rw [if_pos h.1]; simp [h.2])⟩

/-- exhaustive search for a matching of maximum cardinality and, among those, maximum total weight
    (`fuel ≥ ns.length` suffices): leave the first node unmatched, or pair it with any later node -/
def bestM (w : Node → Node → Option Rat) : Nat → List Node → List Edge
  | 0, _ => []
  | _ + 1, [] => []
  | f + 1, a :: rest => bestOf w (bestM w f rest) (cands w a rest (fun b => bestM w f (rest.erase b)))

/-- an exact stand-in for `networkx.max_weight_matching(G, maxcardinality=True)` -/
def bruteNx (es : Graph) (_maxcardinality : Bool) : List Edge := bestM (edgeW es) (nodesOf es).length (nodesOf es)

theorem isMatching_nil_of (w : Node → Node → Option Rat) (M : List Edge) (h : IsMatching [] w M) : M = [] := by
  apply endpoints_eq_nil
  apply List.eq_nil_iff_forall_not_mem.mpr
  intro v hv
  have := h.2.2 v hv
  simp at this

theorem bestM_spec (w : Node → Node → Option Rat) : ∀ (f : Nat) (ns : List Node), ns.length ≤ f → ns.Nodup →
    IsMatching ns w (bestM w f ns) ∧ ∀ M, IsMatching ns w M → Le w M (bestM w f ns) := by
  intro f
  induction f with
  | zero =>
    intro ns hl _
    have : ns = [] := List.eq_nil_of_length_eq_zero (Nat.le_zero.mp hl)
    subst this
    refine ⟨⟨by simp [bestM], by simp [bestM, endpoints], by simp [bestM, endpoints]⟩, ?_⟩
    intro M hM
    rw [isMatching_nil_of w M hM]
    exact Le.refl w _
  | succ f ih =>
    intro ns hl hnd
    cases ns with
    | nil =>
      refine ⟨⟨by simp [bestM], by simp [bestM, endpoints], by simp [bestM, endpoints]⟩, ?_⟩
      intro M hM
      rw [isMatching_nil_of w M hM]
      exact Le.refl w _
    | cons a rest =>
      have hnd' := List.nodup_cons.mp hnd
      have hlr : rest.length ≤ f := by simp only [List.length_cons] at hl; omega
      have ihr := ih rest hlr hnd'.2
      have ihe : ∀ b ∈ rest, IsMatching (rest.erase b) w (bestM w f (rest.erase b)) ∧
          ∀ M, IsMatching (rest.erase b) w M → Le w M (bestM w f (rest.erase b)) := by
        intro b hb
        apply ih
        · rw [List.length_erase_of_mem hb]; omega
        · exact hnd'.2.erase b
      have hdef : bestM w (f + 1) (a :: rest) =
          bestOf w (bestM w f rest) (cands w a rest (fun b => bestM w f (rest.erase b))) := rfl
      rw [hdef]
      obtain ⟨h1, h2, h3⟩ := bestOf_spec w (cands w a rest (fun b => bestM w f (rest.erase b))) (bestM w f rest)
      constructor
      · -- soundness
        rcases h1 with h1 | h1
        · rw [h1]
          exact ⟨ihr.1.1, ihr.1.2.1, fun v hv => List.mem_cons_of_mem _ (ihr.1.2.2 v hv)⟩
        · obtain ⟨b, hb, hc⟩ := (mem_cands w a rest _ _).mp h1
          obtain ⟨hs1, hs2, hs3⟩ := (ihe b hb).1
          have hab : a ≠ b := fun e => hnd'.1 (e ▸ hb)
          have ha_not : a ∉ endpoints (bestM w f (rest.erase b)) := fun h =>
            hnd'.1 (List.mem_of_mem_erase (hs3 a h))
          have hb_not : b ∉ endpoints (bestM w f (rest.erase b)) := fun h =>
            ((hnd'.2.mem_erase_iff).mp (hs3 b h)).1 rfl
          have hsub : ∀ v ∈ endpoints (bestM w f (rest.erase b)), v ∈ a :: rest := fun v hv =>
            List.mem_cons_of_mem _ (List.mem_of_mem_erase (hs3 v hv))
          rcases hc with ⟨hw, hc⟩ | ⟨hw, hc⟩
          · rw [hc]
            refine ⟨?_, ?_, ?_⟩
            · intro p hp
              rcases List.mem_cons.mp hp with rfl | hp
              · exact hw
              · exact hs1 p hp
            · rw [endpoints_cons]
              simp only [List.nodup_cons, List.mem_cons, not_or]
              exact ⟨⟨hab, ha_not⟩, hb_not, hs2⟩
            · intro v hv
              rw [endpoints_cons] at hv
              simp only [List.mem_cons] at hv
              rcases hv with rfl | rfl | hv
              · exact List.mem_cons_self
              · exact List.mem_cons_of_mem _ hb
              · exact hsub v hv
          · rw [hc]
            refine ⟨?_, ?_, ?_⟩
            · intro p hp
              rcases List.mem_cons.mp hp with rfl | hp
              · exact hw
              · exact hs1 p hp
            · rw [endpoints_cons]
              simp only [List.nodup_cons, List.mem_cons, not_or]
              exact ⟨⟨fun e => hab e.symm, hb_not⟩, ha_not, hs2⟩
            · intro v hv
              rw [endpoints_cons] at hv
              simp only [List.mem_cons] at hv
              rcases hv with rfl | rfl | hv
              · exact List.mem_cons_of_mem _ hb
              · exact List.mem_cons_self
              · exact hsub v hv
      · -- optimality
        intro M hM
        by_cases ha : a ∈ endpoints M
        · obtain ⟨p, hp, hap⟩ := List.mem_flatMap.mp ha
          have hperm : M.Perm (p :: M.erase p) := List.perm_cons_erase hp
          have hEnd : (endpoints M).Perm (p.1 :: p.2 :: endpoints (M.erase p)) := by
            rw [← endpoints_cons]; exact endpoints_perm hperm
          have hndE : (p.1 :: p.2 :: endpoints (M.erase p)).Nodup := hEnd.nodup_iff.mp hM.2.1
          have hsubE : ∀ v ∈ p.1 :: p.2 :: endpoints (M.erase p), v ∈ a :: rest := fun v hv =>
            hM.2.2 v (hEnd.symm.subset hv)
          simp only [List.nodup_cons, List.mem_cons, not_or] at hndE
          obtain ⟨⟨h12, h1not⟩, h2not, hndE'⟩ := hndE
          have hedges : ∀ q ∈ M.erase p, (w q.1 q.2).isSome = true := fun q hq => hM.1 q (List.mem_of_mem_erase hq)
          have hpe := hM.1 p hp
          -- the partner `b` of `a`
          have key : ∃ b ∈ rest, (p = (a, b) ∨ p = (b, a)) ∧ b ∉ endpoints (M.erase p) ∧
              a ∉ endpoints (M.erase p) := by
            simp only [List.mem_cons, List.not_mem_nil, or_false] at hap
            rcases hap with h | h
            · have hb : p.2 ∈ a :: rest := hsubE p.2 (by simp)
              have hb' : p.2 ∈ rest := by
                rcases List.mem_cons.mp hb with e | e
                · exact absurd (h.symm.trans e.symm) h12
                · exact e
              exact ⟨p.2, hb', .inl (by rw [h]), h2not, by rw [h]; exact h1not⟩
            · have hb : p.1 ∈ a :: rest := hsubE p.1 (by simp)
              have hb' : p.1 ∈ rest := by
                rcases List.mem_cons.mp hb with e | e
                · exact absurd (e.trans h) h12
                · exact e
              exact ⟨p.1, hb', .inr (by rw [h]), h1not, by rw [h]; exact h2not⟩
          obtain ⟨b, hb, hpb, hbnot, hanot⟩ := key
          have hMe : IsMatching (rest.erase b) w (M.erase p) := by
            refine ⟨hedges, hndE', ?_⟩
            intro v hv
            have hv1 : v ∈ a :: rest := hsubE v (by simp [hv])
            have hva : v ≠ a := fun e => hanot (e ▸ hv)
            have hvb : v ≠ b := fun e => hbnot (e ▸ hv)
            rcases List.mem_cons.mp hv1 with e | e
            · exact absurd e hva
            · exact (List.mem_erase_of_ne hvb).mpr e
          have hle := (ihe b hb).2 _ hMe
          have hcand : p :: bestM w f (rest.erase b) ∈ cands w a rest (fun b => bestM w f (rest.erase b)) := by
            rw [mem_cands]
            refine ⟨b, hb, ?_⟩
            rcases hpb with e | e
            · left; rw [e] at hpe ⊢; exact ⟨hpe, rfl⟩
            · right; rw [e] at hpe ⊢; exact ⟨hpe, rfl⟩
          exact ((Le.of_perm w hperm).trans (Le.cons p hle)).trans (h3 _ hcand)
        · have hMr : IsMatching rest w M := by
            refine ⟨hM.1, hM.2.1, ?_⟩
            intro v hv
            rcases List.mem_cons.mp (hM.2.2 v hv) with e | e
            · exact absurd (e ▸ hv) ha
            · exact e
          exact (ihr.2 M hMr).trans h2

/-- **the contract is satisfiable**: exhaustive search meets the documented contract of
    `networkx.max_weight_matching(G, maxcardinality=True)` on every edge list -/
theorem bruteNx_contract : C13.NxContract bruteNx := by
  intro es
  obtain ⟨h1, h2⟩ := bestM_spec (edgeW es) (nodesOf es).length (nodesOf es) (le_refl _) (nodup_nodesOf es)
  refine ⟨h1, ?_, ?_⟩
  · intro M' hM'
    rcases h2 M' hM' with h | ⟨h, _⟩
    · exact le_of_lt h
    · exact le_of_eq h
  · intro M' hM' hlen
    rcases h2 M' hM' with h | ⟨_, h⟩
    · unfold bruteNx at hlen; omega
    · exact h

/-! ### the order and orientation of the insertions do not matter

  `vindices` is a Python `set`: the order in which `combinations(vindices, 2)` emits the virtual pairs, and which
  member of a pair comes first, depend on hash order.  The bridge holds for every insertion sequence with the same
  unordered weighted edges. -/

section reorder
variable {V : Type} [DecidableEq V]

def flipE (e : V × V × Nat) : V × V × Nat := (e.2.1, e.1, e.2.2)

/-- `W'` lists the same unordered weighted edges as `W` (any order, any orientation, any multiplicity) -/
def SameEdges (W W' : List (V × V × Nat)) : Prop :=
  (∀ e ∈ W', e ∈ W ∨ flipE e ∈ W) ∧ (∀ e ∈ W, e ∈ W' ∨ flipE e ∈ W')

omit [DecidableEq V] in
theorem SameEdges.symm {W W' : List (V × V × Nat)} (h : SameEdges W W') : SameEdges W' W := ⟨h.2, h.1⟩

omit [DecidableEq V] in
theorem SameEdges.refl (W : List (V × V × Nat)) : SameEdges W W := ⟨fun _ h => .inl h, fun _ h => .inl h⟩

theorem isEdge_of_sub {W W' : List (V × V × Nat)} (h : ∀ e ∈ W', e ∈ W ∨ flipE e ∈ W) (a b : V)
    (hab : isEdge (edgesOf W') a b = true) : isEdge (edgesOf W) a b = true := by
  unfold isEdge edgesOf at *
  simp only [Bool.or_eq_true, List.contains_iff_mem, List.mem_map, Prod.mk.injEq] at *
  rcases hab with ⟨e, he, h1, h2⟩ | ⟨e, he, h1, h2⟩
  · rcases h e he with h' | h'
    · exact .inl ⟨e, h', h1, h2⟩
    · exact .inr ⟨flipE e, h', h2, h1⟩
  · rcases h e he with h' | h'
    · exact .inr ⟨e, h', h1, h2⟩
    · exact .inl ⟨flipE e, h', h2, h1⟩

theorem isPMG_sameEdges {W W' : List (V × V × Nat)} (h : SameEdges W W') (nodes : List V) (m : List (V × V)) :
    isPerfectMatchingOfGraph nodes (edgesOf W') m = isPerfectMatchingOfGraph nodes (edgesOf W) m := by
  have : (fun p : V × V => isEdge (edgesOf W') p.1 p.2) = fun p => isEdge (edgesOf W) p.1 p.2 := by
    funext p
    rw [Bool.eq_iff_iff]
    exact ⟨isEdge_of_sub h.1 _ _, isEdge_of_sub h.2 _ _⟩
  unfold isPerfectMatchingOfGraph
  rw [this]

/-- an encoded decoder graph stays one when its edges are inserted in another order / orientation (with the
    first-occurrence numbering of THAT sequence) -/
theorem graphEnc_reorder [Inhabited V] {nodes : List V} {W W' : List (V × V × Nat)} {d : V → V → Nat}
    {enc : V → Nat} {dec : Nat → V} (G : GraphEnc nodes W d enc dec) (h : SameEdges W W') :
    GraphEnc nodes W' d (encF W') (decF W') := by
  apply graphEnc_firstOcc
  · intro v
    rw [G.nodes_iff]
    constructor
    · rintro ⟨e, he, hv⟩
      rcases h.2 e he with h' | h'
      · exact ⟨e, h', hv⟩
      · exact ⟨flipE e, h', hv.symm⟩
    · rintro ⟨e, he, hv⟩
      rcases h.1 e he with h' | h'
      · exact ⟨e, h', hv⟩
      · exact ⟨flipE e, h', hv.symm⟩
  · intro e he
    rcases h.1 e he with h' | h'
    · exact G.weight e h'
    · have := G.weight _ h'
      have hs := G.symm _ h'
      simp only [flipE] at this hs
      rw [this, hs]
  · intro e he
    rcases h.1 e he with h' | h'
    · exact G.symm e h'
    · have hs := G.symm _ h'
      simp only [flipE] at hs
      exact hs.symm

/-- **the bridge for any insertion order / orientation** -/
theorem bridge_generic_reorder [Inhabited V] {nodes : List V} {W W' : List (V × V × Nat)} {d : V → V → Nat}
    {enc : V → Nat} {dec : Nat → V} (oracle : Graph → Bool → List Edge) (hc : C13.NxContract oracle)
    (G : GraphEnc nodes W d enc dec) (h : SameEdges W W')
    (hex : ∃ m', isPerfectMatchingOfGraph nodes (edgesOf W) m' = true) :
    isPerfectMatchingOfGraph nodes (edgesOf W)
        (decPairs (decF W') (mwpmNetworkx oracle (build (graphOps (encF W') W')))) = true ∧
    ∀ m', isPerfectMatchingOfGraph nodes (edgesOf W) m' = true →
      cost d (decPairs (decF W') (mwpmNetworkx oracle (build (graphOps (encF W') W')))) ≤ cost d m' := by
  have := bridge_generic oracle hc (graphEnc_reorder G h) (by
    obtain ⟨m', hm'⟩ := hex
    exact ⟨m', by rw [isPMG_sameEdges h]; exact hm'⟩)
  simp only [isPMG_sameEdges h] at this
  exact this

end reorder

end Qec.MwpmBridge
