/-
  helper lemmas for Props/C02/StepGrid.lean: sums of a checkerboard line
-/
import QecVerif.Model.StepGrid
namespace Qec.StepGrid

theorem sumRange_succ (f : Int → Rat) (lo : Int) (n : Nat) :
    sumRange f lo (lo + (n + 1 : Nat)) = sumRange f lo (lo + n) + f (lo + n) := by
  unfold sumRange
  have h1 : (lo + ((n + 1 : Nat) : Int) - lo).toNat = n + 1 := by omega
  have h2 : (lo + (n : Int) - lo).toNat = n := by omega
  rw [h1, h2, List.range_succ, List.map_append, List.sum_append]
  simp [Rat.add_zero]

/-- a line of `2n` cells starting OFF the parity class holds `n` cells of the class -/
theorem sumRange_parity (x : Rat) (q lo : Int) (n : Nat) (h : lo % 2 ≠ q % 2) :
    sumRange (fun r => if r % 2 = q % 2 then x else 0) lo (lo + (2 * n : Nat)) = n * x := by
  induction n with
  | zero => simp [sumRange]
  | succ k ih =>
    have e : 2 * (k + 1) = (2 * k + 1) + 1 := by omega
    rw [e, sumRange_succ, sumRange_succ, ih]
    have a1 : ¬ ((lo + ((2 * k : Nat) : Int)) % 2 = q % 2) := by omega
    have a2 : (lo + ((2 * k + 1 : Nat) : Int)) % 2 = q % 2 := by omega
    rw [if_neg a1, if_pos a2]
    simp [Rat.add_mul, Rat.add_zero]

/-- the grid without matched pairs -/
theorem cell_nil (R C : Int) (initial factor : Rat) (sh : Shape) :
    cell R C initial factor sh [] = fun r c => if r % 2 = c % 2 then initial else 0 := by
  funext r c
  unfold cell totalCount
  by_cases h : r % 2 = c % 2
  · simp [h, Rat.mul_one]
  · simp [h]

theorem pow_nonneg' (x : Rat) (h : 0 ≤ x) (n : Nat) : 0 ≤ x ^ n := by
  induction n with
  | zero => simp; decide
  | succ k ih => rw [Rat.pow_succ]; exact Rat.mul_nonneg ih h

theorem sum_nonneg' (l : List Rat) (h : ∀ x ∈ l, 0 ≤ x) : 0 ≤ l.sum := by
  induction l with
  | nil => simp
  | cons a t ih =>
    rw [List.sum_cons]
    exact Rat.add_nonneg (h a List.mem_cons_self) (ih (fun x hx => h x (List.mem_cons_of_mem _ hx)))

theorem le_min' (a b c : Rat) (h1 : a ≤ b) (h2 : a ≤ c) : a ≤ min b c := by
  rw [Rat.min_def]; split <;> assumption

theorem sumRange_nonneg (f : Int → Rat) (lo hi : Int) (h : ∀ x, 0 ≤ f x) : 0 ≤ sumRange f lo hi := by
  unfold sumRange
  apply sum_nonneg'
  intro x hx
  simp only [List.mem_map] at hx
  obtain ⟨k, _, rfl⟩ := hx
  exact h _

/-- algorithm 1 spelled out in lattice coordinates -/
theorem distance_alg1_eq (R C : Int) (g : Int → Int → Rat) (src tgt : Idx) :
    distance R C g 1 src tgt =
      if !(Planar.inBounds R C src.1 src.2 || Planar.inBounds R C tgt.1 tgt.2) then 0 else
        sumRange (fun r => g r (src.2 + 1)) (min (src.1 + 1) (tgt.1 + 1)) (max (src.1 + 1) (tgt.1 + 1)) +
        sumRange (fun c => g (tgt.1 + 1) c) (min (src.2 + 1) (tgt.2 + 1)) (max (src.2 + 1) (tgt.2 + 1)) := rfl

end Qec.StepGrid
