/-
  Helper lemmas for the planar Y decoder, part 8: the all-Y logical `_y_logical(code) = _snake(code, (0, 0))`.  The SE
  snake from the corner site stops in a corner other than the one it started next to (a return to the NW corner would
  have been preceded by a corner half-way), so it commutes with every plaquette and anticommutes with a logical
  operator; the discarded reverse half returns after two steps.
-/
import QecVerif.Lemmas.PlanarYRestStabs
import QecVerif.Lemmas.PlanarYRest
namespace Qec.PlanarYL
open Qec Qec.Planar Qec.Symp Qec.PlanarCode Qec.PlanarY

theorem V_wall_of_dvd (s M : Int) (hs : 0 ≤ s) (hM : s ≤ M) (m : Nat) (h : (M + 2).toNat ∣ m + (s + 1).toNat) :
    V s M m = -1 ∨ V s M m = M + 1 := by
  have sp := V_spec s M hs hM m
  have e : (2 * M + 4).toNat = 2 * (M + 2).toNat := by omega
  rw [e] at sp
  have hdm := Nat.div_add_mod m (2 * (M + 2).toNat)
  have hlt := Nat.mod_lt m (by omega : 0 < 2 * (M + 2).toNat)
  generalize m % (2 * (M + 2).toNat) = i at sp hdm hlt
  have h2 : (M + 2).toNat ∣ 2 * (M + 2).toNat * (m / (2 * (M + 2).toNat)) :=
    Nat.dvd_trans (Nat.dvd_mul_left _ 2) (Nat.dvd_mul_right _ _)
  rw [← hdm, Nat.add_assoc] at h
  have h3 : (M + 2).toNat ∣ i + (s + 1).toNat := (Nat.dvd_add_right h2).mp h
  obtain ⟨c, hc⟩ := h3
  have hi' : i + (s + 1).toNat = (M + 2).toNat ∨ i + (s + 1).toNat = 2 * (M + 2).toNat := by
    rcases c with _ | _ | _ | c
    · simp at hc; omega
    · left; rw [hc]; simp
    · right; rw [hc]; omega
    · exfalso
      have : (M + 2).toNat * (c + 1 + 1 + 1) = (M + 2).toNat * c + 3 * (M + 2).toNat := by
        rw [Nat.mul_add, Nat.mul_add, Nat.mul_add]; omega
      omega
  unfold CycValU at sp
  omega

theorem V_neg1_dvd (M : Int) (hM : 0 ≤ M) (m : Nat) (h : V 0 M m = -1) : (2 * M + 4).toNat ∣ m + 1 := by
  have sp := V_spec 0 M (Int.le_refl _) hM m
  rw [h] at sp
  apply Nat.dvd_of_mod_eq_zero
  rw [succ_mod m _ (by omega)]
  have hlt := Nat.mod_lt m (by omega : 0 < (2 * M + 4).toNat)
  generalize m % (2 * M + 4).toNat = i at *
  unfold CycValU at sp
  rw [if_pos (by omega)]

theorem W_two (M : Int) (hM : 2 ≤ M) : W 0 M 2 = 0 := by
  have h := W_spec 0 M (Int.le_refl _) (by omega) 2
  rw [Nat.mod_eq_of_lt (by omega)] at h
  unfold CycVal at h; omega

/-- the reverse half of `_y_logical` (NW from `(0, 0)`, `skip_first = True`) returns: it bounces off the corner at once -/
theorem snakeDir_nw_origin (R C : Int) (hR : 2 ≤ R) (hC : 2 ≤ C) : ∃ x, snakeDir R C (0, 0) false true = .ok x := by
  have Mr2 : 2 ≤ maxRow R := by unfold maxRow; omega
  have Mc2 : 2 ≤ maxCol C := by unfold maxCol; omega
  apply snakeDir_returns R C (0, 0) false true 2 (by have := nq_ge R C hR hC; have : 4 ≤ R.toNat * C.toNat := Nat.mul_le_mul (by omega : 2 ≤ R.toNat) (by omega : 2 ≤ C.toNat); omega)
  show stopAt (0, 0) false (cycDown 0 (maxRow R)) (cycDown 0 (maxCol C)) 2 = true
  unfold stopAt cornerAt prevAt
  rw [if_neg (by omega)]
  have e : posAt (cycDown 0 (maxRow R)) (cycDown 0 (maxCol C)) (2 - 2) =
      posAt (cycDown 0 (maxRow R)) (cycDown 0 (maxCol C)) 2 := by
    show (W 0 (maxRow R) 0, W 0 (maxCol C) 0) = (W 0 (maxRow R) 2, W 0 (maxCol C) 2)
    rw [W_zero _ _ (Int.le_refl _) (by omega), W_zero _ _ (Int.le_refl _) (by omega), W_two _ Mr2, W_two _ Mc2]
  rw [e, beq_some_self, Bool.or_true]

/-- the SE snake from `(0, 0)` stops in a corner at a step `k + 2`; the corner is not the NW one -/
theorem snakeDir_se_origin (R C : Int) (hR : 2 ≤ R) (hC : 2 ≤ C) :
    ∃ k, snakeDir R C (0, 0) true false =
        .ok ((List.range (k + 2)).map (fun (i : Nat) => (V 0 (maxRow R) i, V 0 (maxCol C) i)), false) ∧
      (V 0 (maxRow R) (k + 1) = -1 ∨ V 0 (maxRow R) (k + 1) = maxRow R + 1) ∧
      (V 0 (maxCol C) (k + 1) = -1 ∨ V 0 (maxCol C) (k + 1) = maxCol C + 1) ∧
      ¬ (V 0 (maxRow R) (k + 1) = -1 ∧ V 0 (maxCol C) (k + 1) = -1) := by
  have Mr0 : 0 ≤ maxRow R := by unfold maxRow; omega
  have Mc0 : 0 ≤ maxCol C := by unfold maxCol; omega
  have hRC : 4 ≤ R.toNat * C.toNat := Nat.mul_le_mul (by omega : 2 ≤ R.toNat) (by omega : 2 ≤ C.toNat)
  have hNr : (maxRow R + 2).toNat = 2 * R.toNat := by unfold maxRow; omega
  have hNc : (maxCol C + 2).toNat = 2 * C.toNat := by unfold maxCol; omega
  have hLr : (2 * maxRow R + 4).toNat = 4 * R.toNat := by unfold maxRow; omega
  have hLc : (2 * maxCol C + 4).toNat = 4 * C.toNat := by unfold maxCol; omega
  have h01 : ((0 : Int) + 1).toNat = 1 := rfl
  -- corners from common multiples of 2R and 2C
  have hcorner : ∀ h : Nat, 2 ≤ h → 2 * R.toNat ∣ h → 2 * C.toNat ∣ h →
      cornerAt (cycUp 0 (maxRow R)) (cycUp 0 (maxCol C)) h = true ∧
      (V 0 (maxRow R) (h - 1) = -1 ∨ V 0 (maxRow R) (h - 1) = maxRow R + 1) ∧
      (V 0 (maxCol C) (h - 1) = -1 ∨ V 0 (maxCol C) (h - 1) = maxCol C + 1) := by
    intro h h2 d1 d2
    have wr := V_wall_of_dvd 0 (maxRow R) (Int.le_refl _) Mr0 (h - 1) (by
      rw [hNr, h01, show h - 1 + 1 = h by omega]; exact d1)
    have wc := V_wall_of_dvd 0 (maxCol C) (Int.le_refl _) Mc0 (h - 1) (by
      rw [hNc, h01, show h - 1 + 1 = h by omega]; exact d2)
    refine ⟨?_, wr, wc⟩
    unfold cornerAt prevAt
    rw [if_neg (by omega)]
    have tr := V_triple 0 (maxRow R) (Int.le_refl _) Mr0 (h - 2)
    have tc := V_triple 0 (maxCol C) (Int.le_refl _) Mc0 (h - 2)
    rw [show h - 2 + 1 = h - 1 by omega, show h - 2 + 2 = h by omega] at tr tc
    have e1 := triple_of_wall _ _ _ _ tr wr
    have e2 := triple_of_wall _ _ _ _ tc wc
    have : posAt (cycUp 0 (maxRow R)) (cycUp 0 (maxCol C)) (h - 2) =
        posAt (cycUp 0 (maxRow R)) (cycUp 0 (maxCol C)) h := Prod.ext e1 e2
    rw [this, beq_some_self]
  have hstop : stopAt (0, 0) true (cycUp 0 (maxRow R)) (cycUp 0 (maxCol C)) (2 * (R.toNat * C.toNat)) = true := by
    unfold stopAt
    rw [(hcorner (2 * (R.toNat * C.toNat)) (by omega) (by rw [← Nat.mul_assoc]; exact Nat.dvd_mul_right _ _)
      (by rw [Nat.mul_comm R.toNat, ← Nat.mul_assoc]; exact Nat.dvd_mul_right _ _)).1, Bool.or_true]
  have hbound : 2 * (R.toNat * C.toNat) ≤ (nQubits R C).toNat * 100 := by
    have := nq_ge R C hR hC; omega
  rcases snakeDir_ok R C (0, 0) true (2 * (R.toNat * C.toNat)) hbound hstop with ⟨K, hKn, hK, hmin, hdir⟩
  simp only [if_true] at hK hmin hdir
  -- the stop is not next to the NW corner
  have hneg : ∀ k, K = k + 1 → ¬ (V 0 (maxRow R) k = -1 ∧ V 0 (maxCol C) k = -1) := by
    intro k hk ⟨a, b⟩
    have d1 := V_neg1_dvd (maxRow R) Mr0 k a
    have d2 := V_neg1_dvd (maxCol C) Mc0 k b
    rw [hLr, ← hk] at d1
    rw [hLc, ← hk] at d2
    obtain ⟨x, hx⟩ := d1
    obtain ⟨y, hy⟩ := d2
    have hx0 : 1 ≤ x := by
      rcases Nat.eq_zero_or_pos x with h | h
      · subst h; simp at hx; omega
      · exact h
    have hRx : 1 ≤ R.toNat * x := Nat.mul_pos (by omega) hx0
    have hh := hcorner (2 * (R.toNat * x)) (by omega) (by rw [← Nat.mul_assoc]; exact Nat.dvd_mul_right _ _)
      ⟨y, by
        have : 4 * R.toNat * x = 4 * C.toNat * y := by rw [← hx, ← hy]
        have e1 : 4 * R.toNat * x = 2 * (2 * (R.toNat * x)) := by rw [Nat.mul_assoc]; omega
        have e2 : 4 * C.toNat * y = 2 * (2 * C.toNat * y) := by rw [Nat.mul_assoc, Nat.mul_assoc]; omega
        omega⟩
    have hlt : 2 * (R.toNat * x) < K := by
      have e1 : 4 * R.toNat * x = 2 * (2 * (R.toNat * x)) := by rw [Nat.mul_assoc]; omega
      omega
    have := hmin _ hlt
    unfold stopAt at this
    rw [hh.1, Bool.or_true] at this
    exact Bool.noConfusion this
  have hloop : loopAt (0, 0) true (cycUp 0 (maxRow R)) (cycUp 0 (maxCol C)) K = false := by
    cases hl : loopAt (0, 0) true (cycUp 0 (maxRow R)) (cycUp 0 (maxCol C)) K with
    | false => rfl
    | true =>
      exfalso
      unfold loopAt curAt at hl
      by_cases hK0 : K = 0
      · subst hK0; simp at hl
      · rw [if_neg hK0] at hl
        simp only [Bool.and_eq_true, beq_iff_eq, Option.some.injEq] at hl
        obtain ⟨e1, e2⟩ := hl
        rw [e1] at e2
        have e2r : V 0 (maxRow R) (K - 1) = 0 - 1 := congrArg Prod.fst e2
        have e2c : V 0 (maxCol C) (K - 1) = 0 - 1 := congrArg Prod.snd e2
        exact hneg (K - 1) (by omega) ⟨by omega, by omega⟩
  have hc : cornerAt (cycUp 0 (maxRow R)) (cycUp 0 (maxCol C)) K = true := by
    unfold stopAt at hK
    rw [hloop, Bool.false_or] at hK
    exact hK
  rw [hloop] at hdir
  unfold cornerAt prevAt at hc
  by_cases hK2 : K < 2
  · rw [if_pos hK2] at hc; simp at hc
  · rw [if_neg hK2] at hc
    simp only [beq_iff_eq, Option.some.injEq] at hc
    obtain ⟨k, rfl⟩ : ∃ k, K = k + 2 := ⟨K - 2, by omega⟩
    rw [show k + 2 - 2 = k by omega] at hc
    have cr : V 0 (maxRow R) k = V 0 (maxRow R) (k + 2) := congrArg Prod.fst hc
    have cc : V 0 (maxCol C) k = V 0 (maxCol C) (k + 2) := congrArg Prod.snd hc
    exact ⟨k, hdir, triple_wall _ _ _ _ (V_triple 0 (maxRow R) (Int.le_refl _) Mr0 k) cr,
      triple_wall _ _ _ _ (V_triple 0 (maxCol C) (Int.le_refl _) Mc0 k) cc, hneg (k + 1) rfl⟩

/-- **`_y_logical(code)`**, all sizes: returned, Y-only, commutes with every plaquette generator and anticommutes with
    `logical_x` or `logical_z` -/
theorem yLogical_spec (R C : Int) (hR : 2 ≤ R) (hC : 2 ≤ C) :
    ∃ v, yLogical R C = .ok v ∧ YSym (nq R C) v ∧ (∀ q, RealP R C q → bsp (stabOp R C q) v = false) ∧
      (bsp (logicalX R C) v || bsp (logicalZ R C) v) = true := by
  have Mr0 : 0 ≤ maxRow R := by unfold maxRow; omega
  have Mc0 : 0 ≤ maxCol C := by unfold maxCol; omega
  have hMr : maxRow R = 2 * R - 2 := rfl
  have hMc : maxCol C = 2 * C - 2 := rfl
  rcases snakeDir_se_origin R C hR hC with ⟨k, hdir, wr, wc, hne⟩
  rcases snakeDir_nw_origin R C hR hC with ⟨x, hx⟩
  have hpar : ∀ i : Nat, (V 0 (maxRow R) i + V 0 (maxCol C) i) % 2 = 0 := by
    intro i
    have a := V_parity 0 (maxRow R) (Int.le_refl _) Mr0 i
    have b := V_parity 0 (maxCol C) (Int.le_refl _) Mc0 i
    omega
  have hl : AllSites ((List.range (k + 2)).map (fun (i : Nat) => (V 0 (maxRow R) i, V 0 (maxCol C) i))) := by
    intro rc hrc
    rcases List.mem_map.mp hrc with ⟨i, _, rfl⟩
    exact hpar i
  have tr1 := V_triple 0 (maxRow R) (Int.le_refl _) Mr0 k
  have tc1 := V_triple 0 (maxCol C) (Int.le_refl _) Mc0 k
  have inr : 0 ≤ V 0 (maxRow R) (k + 2) ∧ V 0 (maxRow R) (k + 2) ≤ maxRow R := by unfold Triple at tr1; omega
  have inc : 0 ≤ V 0 (maxCol C) (k + 2) ∧ V 0 (maxCol C) (k + 2) ≤ maxCol C := by unfold Triple at tc1; omega
  refine ⟨yop R C _, ?_, ysym_yop R C hR hC _ hl, ?_, ?_⟩
  · have hb : inBounds R C 0 0 = true := by rw [inBounds_iff]; omega
    unfold yLogical snake
    simp only [hb, Bool.not_true, Bool.false_eq_true, if_false, hdir, Bool.not_false, Bool.and_true, if_true, hx]
    rfl
  · intro q hq
    rw [bsp_stab_yop R C hR hC q hq _ hl, xorSum_congr _ _ _ (fun s _ => adj_eq_adjG R C q s)]
    unfold RealP at hq
    have tel := snake_telescope (maxRow R) (maxCol C) (Uv 0 (maxRow R)) (Uv 0 (maxCol C))
      (Uv_triple _ _ (Int.le_refl _) Mr0) (Uv_triple _ _ (Int.le_refl _) Mc0) q (by omega) (by omega) (by omega)
      (by omega) (k + 2)
    refine Eq.trans tel ?_
    have g0 : gT (Uv 0 (maxRow R)) (Uv 0 (maxCol C)) q 0 = false := by
      unfold gT
      rw [show Uv 0 (maxRow R) 0 = 0 - 1 from rfl, show Uv 0 (maxCol C) 0 = 0 - 1 from rfl]
      apply decide_eq_false
      omega
    have gK : gT (Uv 0 (maxRow R)) (Uv 0 (maxCol C)) q (k + 2) = false := by
      unfold gT
      rw [show Uv 0 (maxRow R) (k + 2) = V 0 (maxRow R) (k + 1) from rfl,
        show Uv 0 (maxCol C) (k + 2) = V 0 (maxCol C) (k + 1) from rfl]
      apply decide_eq_false
      omega
    rw [g0, gK]; rfl
  · have hX : bsp (logicalX R C) (yop R C ((List.range (k + 2)).map
        (fun (i : Nat) => (V 0 (maxRow R) i, V 0 (maxCol C) i)))) = decide (V 0 (maxCol C) (k + 1) = maxCol C + 1) := by
      rw [bsp_logicalX_yop R C hR hC _ hl, xorSum_map]
      have ht : ∀ i ∈ List.range (k + 2),
          (inBounds R C (V 0 (maxRow R) i) (V 0 (maxCol C) i) &&
            occ (colRun R.toNat (2 * C - 2)) (V 0 (maxRow R) i, V 0 (maxCol C) i)) =
          decide (Uv 0 (maxCol C) (i + 1) = maxCol C) := by
        intro i _
        rw [occ_colRun, inBounds_eq_decide, ← Bool.decide_and]
        apply decide_eq_decide.mpr
        have a := V_range 0 (maxRow R) (Int.le_refl _) Mr0 i
        have b := hpar i
        show _ ↔ V 0 (maxCol C) i = maxCol C
        omega
      rw [xorSum_congr _ _ _ ht, last_line_parity (maxCol C) Mc0 _ (Uv_triple _ _ (Int.le_refl _) Mc0) (k + 2),
        show Uv 0 (maxCol C) 0 = 0 - 1 from rfl, show Uv 0 (maxCol C) 1 = V 0 (maxCol C) 0 from rfl,
        show Uv 0 (maxCol C) (k + 2) = V 0 (maxCol C) (k + 1) from rfl,
        show Uv 0 (maxCol C) (k + 2 + 1) = V 0 (maxCol C) (k + 2) from rfl, V_zero _ _ (Int.le_refl _) Mc0]
      have e1 : decide ((0 : Int) - 1 = maxCol C + 1) = false := by apply decide_eq_false; omega
      have e2 : decide ((0 : Int) = maxCol C + 1) = false := by apply decide_eq_false; omega
      have e3 : decide (V 0 (maxCol C) (k + 2) = maxCol C + 1) = false := by apply decide_eq_false; omega
      rw [e1, e2, e3]; simp
    have hZ : bsp (logicalZ R C) (yop R C ((List.range (k + 2)).map
        (fun (i : Nat) => (V 0 (maxRow R) i, V 0 (maxCol C) i)))) = decide (V 0 (maxRow R) (k + 1) = maxRow R + 1) := by
      rw [bsp_logicalZ_yop R C hR hC _ hl, xorSum_map]
      have ht : ∀ i ∈ List.range (k + 2),
          (inBounds R C (V 0 (maxRow R) i) (V 0 (maxCol C) i) &&
            occ (rowRun C.toNat (2 * R - 2)) (V 0 (maxRow R) i, V 0 (maxCol C) i)) =
          decide (Uv 0 (maxRow R) (i + 1) = maxRow R) := by
        intro i _
        rw [occ_rowRun, inBounds_eq_decide, ← Bool.decide_and]
        apply decide_eq_decide.mpr
        have a := V_range 0 (maxCol C) (Int.le_refl _) Mc0 i
        have b := hpar i
        show _ ↔ V 0 (maxRow R) i = maxRow R
        omega
      rw [xorSum_congr _ _ _ ht, last_line_parity (maxRow R) Mr0 _ (Uv_triple _ _ (Int.le_refl _) Mr0) (k + 2),
        show Uv 0 (maxRow R) 0 = 0 - 1 from rfl, show Uv 0 (maxRow R) 1 = V 0 (maxRow R) 0 from rfl,
        show Uv 0 (maxRow R) (k + 2) = V 0 (maxRow R) (k + 1) from rfl,
        show Uv 0 (maxRow R) (k + 2 + 1) = V 0 (maxRow R) (k + 2) from rfl, V_zero _ _ (Int.le_refl _) Mr0]
      have e1 : decide ((0 : Int) - 1 = maxRow R + 1) = false := by apply decide_eq_false; omega
      have e2 : decide ((0 : Int) = maxRow R + 1) = false := by apply decide_eq_false; omega
      have e3 : decide (V 0 (maxRow R) (k + 2) = maxRow R + 1) = false := by apply decide_eq_false; omega
      rw [e1, e2, e3]; simp
    rw [hX, hZ, Bool.or_eq_true, decide_eq_true_eq, decide_eq_true_eq]
    omega

/-! ### `decode` -/

/-- `_sample_recovery` for every lattice and every Y-only error -/
theorem sample_syndrome_all (R C : Int) (hR : 2 ≤ R) (hC : 2 ≤ C) (e : BVec) (he : YSym (nq R C) e) :
    ∃ r, sampleRecovery R C (syndrome R C e) = .ok r ∧ r.length = 2 * nq R C ∧
      syndrome R C r = syndrome R C e := by
  cases hc : coprime R C with
  | false => exact sample_syndrome_nc R C hR hC hc e he
  | true =>
    rcases sample_coprime R C hR hC hc _ (syndrome_length R C e) with ⟨r, hr, hlen, _, hsyn, _⟩
    exact ⟨r, hr, hlen, hsyn⟩

/-- **`decode(code, syndrome)`** (exact scalars), all sizes, every Y-only error: the call returns (no exception from the
    snakes, the look-up or the infinite-loop guard) and, unless the two coset probabilities tie (`random.choice` in the
    code), the returned recovery has length 2n and reproduces the syndrome -/
theorem decode_spec {α : Type} [Add α] [Zero α] [Mul α] [One α] [HPow α Nat α] [LT α] [DecidableLT α] [DecidableEq α]
    (R C : Int) (hR : 2 ≤ R) (hC : 2 ≤ C) (pI pY : α) (e : BVec) (he : YSym (nq R C) e) :
    ∃ o, decode R C pI pY (syndrome R C e) = .ok o ∧
      ∀ r, o = some r → r.length = 2 * nq R C ∧ syndrome R C r = syndrome R C e := by
  rcases sample_syndrome_all R C hR hC e he with ⟨r1, hr1, hlen1, hsyn1⟩
  rcases yLogical_spec R C hR hC with ⟨l, hl, hly, hlsyn, _⟩
  rcases yStabilizers_spec R C hR hC with ⟨ys, hys, _, _⟩
  have hr2len : (xorV r1 l).length = 2 * nq R C := by
    rw [xorV_length _ _ (by rw [hlen1, hly.1])]; exact hlen1
  have hr2syn : syndrome R C (xorV r1 l) = syndrome R C e := by
    rw [← hsyn1, syndrome_eq_map, syndrome_eq_map]
    apply List.map_congr_left
    intro q hq
    have hq' := (mem_plaquetteIndices R C q).mp hq
    rw [bsp_xorV_left _ _ _ (by rw [hlen1, hly.1]),
      bsp_comm l _ (by rw [hly.1, stabOp_length]) (by rw [hly.1]; omega), hlsyn q hq', Bool.xor_false]
  refine ⟨_, by unfold decode; rw [hr1, hl, hys], ?_⟩
  intro r hr
  unfold choose at hr
  split at hr
  · cases hr
  · split at hr
    · have : r1 = r := Option.some.inj hr
      subst this
      exact ⟨hlen1, hsyn1⟩
    · have : xorV r1 l = r := Option.some.inj hr
      subst this
      exact ⟨hr2len, hr2syn⟩

end Qec.PlanarYL
