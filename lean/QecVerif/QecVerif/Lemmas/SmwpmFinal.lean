/-
  Helper lemmas for Props/C02/Smwpm.lean — glue between the pair lists of the two stages and the pairing theorem:
  `applyPairs` as an XOR-fold, corner plaquettes, counting the members of the clusters plaquette by plaquette, and the
  XOR of the syndrome rows as a parity of defect counts.
-/
import QecVerif.Lemmas.SmwpmStage
import QecVerif.Lemmas.SmwpmGraph
import QecVerif.Lemmas.Lattice.RotatedPlanarCode
namespace Qec.SmwpmL
open Qec Qec.Smwpm Qec.Dec Qec.RotatedPlanar Qec.RotatedPlanarCode

/-! ### counting through a map, with the `BEq` instance the pairing theorem uses -/

theorem count_map_eq {α β : Type} [DecidableEq β] (f : α → β) (l : List α) (b : β) :
    (l.map f).count b = l.countP fun a => decide (f a = b) := by
  induction l with
  | nil => rfl
  | cons a l ih =>
    rw [List.map_cons, List.count_cons, List.countP_cons, ih]
    by_cases h : f a = b <;> simp [h]

theorem ends_map {α β : Type} (g : α → β) (ps : List (α × α)) :
    ends (ps.map fun x => (g x.1, g x.2)) = (ends ps).map g := by
  induction ps with
  | nil => rfl
  | cons x ps ih =>
    rw [List.map_cons, ends_cons, ends_cons, ih]; rfl

/-- occurrences of the plaquette `p` among the space projections of the endpoints -/
theorem count_ends_sp (ps : List (TIdx × TIdx)) (p : Idx2) :
    Dec.occ (ps.map fun x => (sp x.1, sp x.2)) p = cntS (ends ps) p := by
  unfold Dec.occ
  rw [ends_map]
  exact count_map_eq sp (ends ps) p

/-! ### `_path_operator` never raises on grid indices of the same type -/

theorem inGrid_okIndex (R C : Int) (a : Idx2) (h : InGrid R C a) : okIndex R C a = true := by
  unfold okIndex
  by_cases hb : inPlaquetteBounds R C a.1 a.2 = true
  · simp [hb]
  · have hn : ¬ PlaqIn R C (a.1, a.2) := fun hh => hb ((inPlaquetteBounds_iff R C a.1 a.2).mpr hh)
    have hb' : inPlaquetteBounds R C a.1 a.2 = false := by simpa using hb
    unfold isVirtualPlaquette maxSiteX maxSiteY
    rw [hb']
    simp only [Bool.false_or, Bool.not_false, Bool.and_true, Bool.or_eq_true, beq_iff_eq]
    unfold InGrid at h
    unfold PlaqIn at hn
    simp only at hn
    have := Int.emod_two_eq (a.1 - a.2)
    omega

/-- the pairs `_path_operator` accepts -/
def PathOK (R C : Int) (x : TIdx × TIdx) : Prop :=
  InGrid R C (sp x.1) ∧ InGrid R C (sp x.2) ∧ isX x.1 = isX x.2

theorem pathOp_ok (R C : Int) (x : TIdx × TIdx) (h : PathOK R C x) :
    pathOp R C (sp x.1) (sp x.2) = .ok (pathOpT R C (sp x.1) (sp x.2)) := by
  unfold pathOp
  rw [inGrid_okIndex R C _ h.1, inGrid_okIndex R C _ h.2.1]
  have : isZPlaquette (sp x.1).1 (sp x.1).2 = isZPlaquette (sp x.2).1 (sp x.2).2 := by
    have := h.2.2
    unfold isX at this
    show (!isXPlaquette x.1.2.1 x.1.2.2) = (!isXPlaquette x.2.2.1 x.2.2.2)
    rw [this]
  simp [this]

theorem applyPairs_ok (R C : Int) (ps : List (TIdx × TIdx)) (h : ∀ x ∈ ps, PathOK R C x) (v : BVec) :
    applyPairs R C ps v = .ok ((ps.map fun x => pathOpT R C (sp x.1) (sp x.2)).foldl xorV v) := by
  induction ps generalizing v with
  | nil => rfl
  | cons x ps ih =>
    obtain ⟨a, b⟩ := x
    unfold applyPairs
    have := pathOp_ok R C (a, b) (h (a, b) (by simp))
    simp only at this
    rw [this]
    simp only
    rw [ih (fun y hy => h y (by simp [hy]))]
    rfl

/-! ### the corner plaquettes -/

theorem corner_facts (R C : Int) (hR : 3 ≤ R) (hC : 3 ≤ C) (c : Idx2 × Idx2) (hc : c ∈ cornerIndices R C) :
    InGrid R C c.1 ∧ InGrid R C c.2 ∧ (c.1.1 - c.1.2) % 2 = 1 ∧ (c.2.1 - c.2.2) % 2 = 0 ∧
      ¬ PlaqIn R C c.1 ∧ ¬ PlaqIn R C c.2 := by
  unfold cornerIndices at hc
  simp only [List.mem_cons, List.not_mem_nil, or_false] at hc
  unfold InGrid PlaqIn
  have hr := Int.emod_two_eq (R - 1)
  have hcc := Int.emod_two_eq (C - 1)
  rcases hc with rfl | rfl | rfl | rfl
  · simp only; omega
  · by_cases h : (R - 1) % 2 ≠ 0
    · rw [if_pos h]; simp only; omega
    · rw [if_neg h]; simp only; omega
  · by_cases h : (C - 1) % 2 = (R - 1) % 2
    · rw [if_pos h]; simp only; omega
    · rw [if_neg h]; simp only; omega
  · by_cases h : (C - 1) % 2 ≠ 0
    · rw [if_pos h]; simp only; omega
    · rw [if_neg h]; simp only; omega

theorem isX_iff (k : TIdx) : isX k = true ↔ (k.2.1 - k.2.2) % 2 = 1 := by
  unfold isX; exact isXPlaquette_iff _ _

theorem isX_false_iff (k : TIdx) : isX k = false ↔ (k.2.1 - k.2.2) % 2 = 0 := by
  have := isX_iff k
  have h2 := Int.emod_two_eq (k.2.1 - k.2.2)
  cases h : isX k
  · simp only [true_iff]; rw [h] at this; simp at this; omega
  · simp only [Bool.true_eq_false, false_iff]; rw [h] at this; simp at this; omega

/-- what is known about a cluster node that takes part in a fused pair -/
def NodeP (R C : Int) (n : ClNode) : Prop :=
  isX n.x = true ∧ isX n.z = false ∧ InGrid R C (sp n.x) ∧ InGrid R C (sp n.z)

theorem cornerNodes_facts (R C : Int) (hR : 3 ≤ R) (hC : 3 ≤ C) (T : Nat) (n : ClNode)
    (hn : n ∈ cornerNodes R C T) :
    n.kind = .corner ∧ NodeP R C n ∧ ∀ p, PlaqIn R C p → wS n p = 0 := by
  unfold cornerNodes at hn
  rw [List.mem_flatMap] at hn
  obtain ⟨c, hc, hn⟩ := hn
  rw [List.mem_map] at hn
  obtain ⟨t, _, rfl⟩ := hn
  obtain ⟨g1, g2, x1, z1, n1, n2⟩ := corner_facts R C hR hC c hc
  refine ⟨rfl, ⟨(isX_iff _).mpr x1, (isX_false_iff _).mpr z1, g1, g2⟩, ?_⟩
  intro p hp
  unfold wS
  simp only [reduceCtorEq, if_false, cntS_cons, cntS_nil, sp]
  have e1 : ¬ (c.1.1, c.1.2) = p := fun h => n1 (by rw [show c.1 = (c.1.1, c.1.2) from rfl, h]; exact hp)
  have e2 : ¬ (c.2.1, c.2.2) = p := fun h => n2 (by rw [show c.2 = (c.2.1, c.2.2) from rfl, h]; exact hp)
  simp [e1, e2]

theorem sumW_zero (l : List ClNode) (p : Idx2) (h : ∀ n ∈ l, wS n p = 0) : sumW l p = 0 := by
  induction l with
  | nil => rfl
  | cons a l ih =>
    unfold sumW at ih ⊢
    rw [List.map_cons, List.sum_cons, h a List.mem_cons_self, ih (fun n hn => h n (List.mem_cons_of_mem _ hn))]

/-- the node list of the cluster graph (when there is a defective cluster): real nodes, the extra node, corners -/
def allNodes (R C : Int) (T : Nat) (nsr : List ClNode) : List ClNode :=
  nsr ++ (if nDefective nsr % 2 = 1 then [⟨.extra, (0, 0, 0), (0, 0, 0)⟩] else []) ++ cornerNodes R C T

theorem allNodes_facts (R C : Int) (hR : 3 ≤ R) (hC : 3 ≤ C) (T : Nat) (M : List TIdx)
    (hM : ∀ k ∈ M, InGrid R C (sp k)) (nsr : List ClNode) (hnsr : ∀ n ∈ nsr, NodeOK M n) :
    (∀ n ∈ allNodes R C T nsr, n.kind ≠ .extra → NodeP R C n) ∧
    ∀ p, PlaqIn R C p → (∀ n ∈ allNodes R C T nsr, n.virt = true → wS n p = 0) ∧
      sumW (allNodes R C T nsr) p = sumW nsr p := by
  have hex : ∀ n ∈ (if nDefective nsr % 2 = 1 then [(⟨.extra, (0, 0, 0), (0, 0, 0)⟩ : ClNode)] else []),
      n.kind = .extra := by
    intro n hn
    split at hn
    · rw [List.mem_singleton] at hn; rw [hn]
    · simp at hn
  constructor
  · intro n hn hne
    unfold allNodes at hn
    rcases List.mem_append.mp hn with h | h
    · rcases List.mem_append.mp h with h | h
      · obtain ⟨_, h2, h3, h4, h5⟩ := hnsr n h
        exact ⟨h2, h3, hM _ h4, hM _ h5⟩
      · exact absurd (hex n h) hne
    · exact (cornerNodes_facts R C hR hC T n h).2.1
  · intro p hp
    constructor
    · intro n hn hv
      unfold allNodes at hn
      rcases List.mem_append.mp hn with h | h
      · rcases List.mem_append.mp h with h | h
        · exfalso
          rcases (hnsr n h).1 with hk | hk <;> simp [ClNode.virt, hk] at hv
        · unfold wS; rw [if_pos (hex n h)]
      · exact (cornerNodes_facts R C hR hC T n h).2.2 p hp
    · unfold allNodes
      have h1 := sumW_zero (if nDefective nsr % 2 = 1 then [(⟨.extra, (0, 0, 0), (0, 0, 0)⟩ : ClNode)] else []) p
        (fun n hn => by unfold wS; rw [if_pos (hex n hn)])
      have h2 := sumW_zero (cornerNodes R C T) p (fun n hn => (cornerNodes_facts R C hR hC T n hn).2.2 p hp)
      rw [sumW_append, sumW_append, h1, h2]; omega

/-! ### counting cluster members plaquette by plaquette -/

theorem sum_indicator_range (T t0 : Nat) :
    ((List.range T).map fun t => if t = t0 then 1 else 0).sum = if t0 < T then 1 else 0 := by
  induction T with
  | zero => simp
  | succ T ih =>
    rw [List.range_succ, List.map_append, List.sum_append, ih]
    simp only [List.map_cons, List.map_nil, List.sum_cons, List.sum_nil]
    by_cases h1 : t0 < T
    · have : ¬ T = t0 := by omega
      simp [h1, this]; omega
    · by_cases h2 : T = t0
      · simp [h2]
      · have : ¬ t0 < T + 1 := by omega
        simp [h1, h2, this]

theorem sum_map_add {α : Type} (l : List α) (f g : α → Nat) :
    (l.map fun x => f x + g x).sum = (l.map f).sum + (l.map g).sum := by
  induction l with
  | nil => rfl
  | cons a l ih => simp only [List.map_cons, List.sum_cons, ih]; omega

theorem sum_indicator_countP {α : Type} (l : List α) (q : α → Bool) :
    (l.map fun x => if q x = true then 1 else 0).sum = l.countP q := by
  induction l with
  | nil => rfl
  | cons a l ih =>
    rw [List.map_cons, List.sum_cons, List.countP_cons, ih]; omega

/-- if every member of `l` at the plaquette `p` has its time in `[0, T)`, the members at `p` are counted time
    step by time step -/
theorem cntS_eq_sum (l : List TIdx) (p : Idx2) (T : Nat)
    (h : ∀ k ∈ l, sp k = p → ∃ t : Nat, k.1 = (t : Int) ∧ t < T) :
    cntS l p = ((List.range T).map fun (t : Nat) => cnt l ((t : Int), p.1, p.2)).sum := by
  induction l with
  | nil => simp [cntS_nil, cnt_nil]
  | cons a l ih =>
    have hc : ∀ k, cnt (a :: l) k = (if a = k then 1 else 0) + cnt l k := by
      intro k
      have : a :: l = [a] ++ l := rfl
      rw [this, cnt_append, cnt_single]
    rw [cntS_cons, ih (fun k hk => h k (List.mem_cons_of_mem _ hk))]
    simp only [hc]
    rw [sum_map_add]
    congr 1
    by_cases ha : sp a = p
    · obtain ⟨t0, ht0, hlt⟩ := h a List.mem_cons_self ha
      rw [if_pos ha]
      have : ∀ t : Nat, (a = ((t : Int), p.1, p.2)) ↔ t = t0 := by
        intro t
        constructor
        · intro hh
          have := congrArg Prod.fst hh
          simp only at this; omega
        · intro hh
          rw [hh, ← ht0, ← ha]
          rfl
      simp only [this]
      rw [sum_indicator_range, if_pos hlt]
    · rw [if_neg ha]
      have : ∀ t : Nat, ¬ (a = ((t : Int), p.1, p.2)) := by
        intro t hh; apply ha; rw [hh]; rfl
      simp [this]

/-! ### the XOR of the syndrome rows -/

theorem syndromeToPlaquettes_eq_pick (R C : Int) (s : BVec) :
    syndromeToPlaquettes R C s = Pairing.pick (plaquetteIndices R C) s := rfl

theorem xorAll_rows (R C : Int) (rows : List BVec)
    (hrows : ∀ r ∈ rows, r.length = (plaquetteIndices R C).length) :
    xorAll (plaquetteIndices R C).length rows =
      (plaquetteIndices R C).map fun p =>
        decide (((List.range rows.length).countP fun t => isDefect R C rows t p) % 2 = 1) := by
  have hrow : ∀ t, t < rows.length →
      rows.getD t [] = (plaquetteIndices R C).map fun p => isDefect R C rows t p := by
    intro t ht
    have hl : (rows.getD t []).length = (plaquetteIndices R C).length := by
      apply hrows
      rw [List.getD_eq_getElem?_getD, List.getElem?_eq_getElem ht]
      exact List.getElem_mem ht
    have := Pairing.map_mem_pick (plaquetteIndices R C) (rows.getD t []) (plaquetteIndices_nodup R C) hl
    refine Eq.trans this.symm ?_
    apply List.map_congr_left
    intro p _
    unfold isDefect
    rw [syndromeToPlaquettes_eq_pick]
    exact decide_eq_decide.mpr Iff.rfl
  have e : rows = (List.range rows.length).map fun t =>
      (plaquetteIndices R C).map fun p => isDefect R C rows t p := by
    have := map_getD_range rows
    rw [← this]
    simp only [List.length_map, List.length_range]
    apply List.map_congr_left
    intro t ht
    rw [this]
    exact hrow t (List.mem_range.mp ht)
  have hz : zeros (plaquetteIndices R C).length = (plaquetteIndices R C).map fun _ => decide (0 % 2 = 1) := by
    simp [zeros]
  unfold xorAll
  have key := Pairing.foldl_indicator (plaquetteIndices R C) (fun (t : Nat) p => isDefect R C rows t p)
    (List.range rows.length) (fun _ => 0)
  simp only [Nat.zero_add] at key
  rw [← key, ← hz]
  exact congrArg (fun l => List.foldl xorV (zeros (plaquetteIndices R C).length) l) e

theorem pathOpT_length (R C : Int) (a b : Idx2) : (pathOpT R C a b).length = 2 * nq R C := by
  unfold pathOpT
  split
  · exact identity_length R C
  · rw [sites_length]; exact identity_length R C


/-- pointwise XOR of three parity indicators -/
theorem parity3 (c1 c2 d : Nat) (h : (c1 + c2) % 2 = d % 2) :
    ((false ^^ decide (c1 % 2 = 1)) ^^ decide (c2 % 2 = 1)) = decide (d % 2 = 1) := by
  rcases Nat.mod_two_eq_zero_or_one c1 with h1 | h1 <;> rcases Nat.mod_two_eq_zero_or_one c2 with h2 | h2 <;>
    rcases Nat.mod_two_eq_zero_or_one d with h3 | h3 <;> simp [h1, h2, h3] <;> omega


end Qec.SmwpmL
