/-
  C10 — the colour 6.6.6 MPS decoder's tensor network (`Model/Color666Tn.lean`) contracts to the coset probability: helper
  lemmas for Props/C10/Color666Network.lean.  Route (as for the planar network, Lemmas/PlanarTn.lean): closed form of the
  qubit tensors (`qNode_get`: product of the one or two `q_node_value`s) and of every cell's shape (`kindShape_cell`: a
  leg has dimension 4 iff both cells it joins hold a tensor, `Pc`), C11 (`exactValue` = state sum `sumV` over the bond
  variables), dummy bonds dropped, the remaining bonds grouped by plaquette cell, deltas collapsed
  (`FactorGraph4.sumV_starsK`), and the product of the qubit tensors at the assignment of one Pauli index per plaquette is
  the weight of `f · Π Sᵢ^βᵢ` (`FactorGraph4.sumB4_eq_span`).
-/
import QecVerif.Model.Color666Tn
import QecVerif.Lemmas.FactorGraph4
import QecVerif.Lemmas.PlanarTn
import QecVerif.Lemmas.TensorPad
import QecVerif.Lemmas.Lattice.Color666Code
namespace Qec.Color666TnLemmas
open Finset Qec Qec.Tensor Qec.TensorAlg Qec.TensorBridge Qec.TensorExact Qec.TensorExact.Bond Qec.Coset
open Qec.FactorGraph Qec.FactorGraph4 Qec.Color666Tn Qec.Color666 Qec.Color666Code Qec.TensorPad
set_option linter.unusedTactic false
set_option linter.unreachableTactic false

/-! ### 1. tensors: the merge / reduce pipeline of `create_q_node` in closed form -/
theorem sumRange_one (f : ℕ → ℤ) : sumRange 1 f = f 0 := by simp [sumRange]

theorem merge_get (a b : T4) (ha : a.s = 1) (i j k l : ℕ) (hi : i < a.n) (hj : j < a.e * b.e) (hk : k < b.s)
    (hl : l < a.w * b.w) :
    (merge a b).get i j k l = a.get i (j / b.e) 0 (l / b.w) * b.get 0 (j % b.e) k (l % b.w) := by
  unfold merge
  rw [get_ofFn _ _ _ _ _ _ _ _ _ hi hj hk hl, ha, sumRange_one]

theorem sum16 (g : ℕ → ℤ) (j : ℕ) (hj : j < 4) :
    sumRange 16 (fun x => g x * delta3 j (x / 4) (x % 4)) = g (5 * j) := by
  obtain rfl | rfl | rfl | rfl : j = 0 ∨ j = 1 ∨ j = 2 ∨ j = 3 := by omega
  all_goals simp [sumRange, delta3]

theorem reduceE_get (t : T4) (he : t.e = 16) (i j k l : ℕ) (hi : i < t.n) (hj : j < 4) (hk : k < t.s) (hl : l < t.w) :
    (reduceE t).get i j k l = t.get i (5 * j) k l := by
  unfold reduceE
  rw [if_pos he, get_ofFn _ _ _ _ _ _ _ _ _ hi hj hk hl]
  exact sum16 (fun x => t.get i x k l) j hj

theorem reduceW_get (t : T4) (he : t.w = 16) (i j k l : ℕ) (hi : i < t.n) (hj : j < t.e) (hk : k < t.s) (hl : l < 4) :
    (reduceW t).get i j k l = t.get i j k (5 * l) := by
  unfold reduceW
  rw [if_pos he, get_ofFn _ _ _ _ _ _ _ _ _ hi hj hk hl]
  exact sum16 (fun x => t.get i j k x) l hl

theorem ofShape_get (sh : Shape) (f : ℕ → ℕ → ℕ → ℕ → ℤ) (i j k l : ℕ) (hi : i < sh.1) (hj : j < sh.2.1)
    (hk : k < sh.2.2.1) (hl : l < sh.2.2.2) : (PlanarTn.ofShape sh f).get i j k l = f i j k l :=
  get_ofFn _ _ _ _ _ _ _ _ _ hi hj hk hl

theorem onesT_get : onesT.get 0 0 0 0 = 1 := by decide

/-- both horizontal legs are pairs of dimension-4 legs, reduced to dimension 4 -/
theorem qn_get_ee_ww (a b : T4) (ha : a.s = 1) (hae : a.e = 4) (hbe : b.e = 4) (haw : a.w = 4) (hbw : b.w = 4)
    (i j k l : ℕ) (hi : i < a.n) (hj : j < 4) (hk : k < b.s) (hl : l < 4) :
    (reduceW (reduceE (merge a b))).get i j k l = a.get i j 0 l * b.get 0 j k l := by
  have e1 : 5 * j / 4 = j := by omega
  have e2 : 5 * j % 4 = j := by omega
  have e3 : 5 * l / 4 = l := by omega
  have e4 : 5 * l % 4 = l := by omega
  have hE : (merge a b).e = 16 := by show a.e * b.e = 16; rw [hae, hbe]
  have hW : (reduceE (merge a b)).w = 16 := by
    unfold reduceE; rw [if_pos hE]; show a.w * b.w = 16; rw [haw, hbw]
  have hn : (reduceE (merge a b)).n = a.n := by unfold reduceE; rw [if_pos hE]; rfl
  have he : (reduceE (merge a b)).e = 4 := by unfold reduceE; rw [if_pos hE]; rfl
  have hs : (reduceE (merge a b)).s = b.s := by unfold reduceE; rw [if_pos hE]; rfl
  rw [reduceW_get _ hW i j k l (by rw [hn]; exact hi) (by rw [he]; exact hj) (by rw [hs]; exact hk) hl,
    reduceE_get _ hE i j k (5 * l) hi hj hk (by show 5 * l < a.w * b.w; rw [haw, hbw]; omega),
    merge_get _ _ ha i (5 * j) k (5 * l) hi (by rw [hae, hbe]; omega) hk (by rw [haw, hbw]; omega),
    hbe, hbw, e1, e2, e3, e4]

/-- the east leg is a pair of dimension-4 legs, both west legs are dummy -/
theorem qn_get_ee_w1 (a b : T4) (ha : a.s = 1) (hae : a.e = 4) (hbe : b.e = 4) (haw : a.w = 1) (hbw : b.w = 1)
    (i j k : ℕ) (hi : i < a.n) (hj : j < 4) (hk : k < b.s) :
    (reduceW (reduceE (merge a b))).get i j k 0 = a.get i j 0 0 * b.get 0 j k 0 := by
  have e1 : 5 * j / 4 = j := by omega
  have e2 : 5 * j % 4 = j := by omega
  have hE : (merge a b).e = 16 := by show a.e * b.e = 16; rw [hae, hbe]
  have hW : ¬ (reduceE (merge a b)).w = 16 := by
    unfold reduceE; rw [if_pos hE]; show ¬ a.w * b.w = 16; rw [haw, hbw]; decide
  unfold reduceW
  rw [if_neg hW, reduceE_get _ hE i j k 0 hi hj hk (by show 0 < a.w * b.w; rw [haw, hbw]; decide),
    merge_get _ _ ha i (5 * j) k 0 hi (by rw [hae, hbe]; omega) hk (by rw [haw, hbw]; decide),
    hbe, hbw, e1, e2]

/-- no leg is reduced -/
theorem qn_get_none (a b : T4) (ha : a.s = 1) (hE : ¬ a.e * b.e = 16) (hW : ¬ a.w * b.w = 16)
    (i j k l : ℕ) (hi : i < a.n) (hj : j < a.e * b.e) (hk : k < b.s) (hl : l < a.w * b.w) :
    (reduceW (reduceE (merge a b))).get i j k l = a.get i (j / b.e) 0 (l / b.w) * b.get 0 (j % b.e) k (l % b.w) := by
  have h1 : reduceE (merge a b) = merge a b := by unfold reduceE; rw [if_neg]; exact hE
  have h2 : reduceW (merge a b) = merge a b := by unfold reduceW; rw [if_neg]; exact hW
  rw [h1, h2, merge_get _ _ ha i j k l hi hj hk hl]

/-- only the upper qubit -/
theorem qn_get_upper (sh : Shape) (f : ℕ → ℕ → ℕ → ℕ → ℤ) (h3 : sh.2.2.1 = 1) (hE : sh.2.1 ≠ 16) (hW : sh.2.2.2 ≠ 16)
    (i j l : ℕ) (hi : i < sh.1) (hj : j < sh.2.1) (hl : l < sh.2.2.2) :
    (reduceW (reduceE (merge (PlanarTn.ofShape sh f) onesT))).get i j 0 l = f i j 0 l := by
  rw [qn_get_none (PlanarTn.ofShape sh f) onesT h3 (by show ¬ sh.2.1 * 1 = 16; omega)
    (by show ¬ sh.2.2.2 * 1 = 16; omega) i j 0 l hi (by show j < sh.2.1 * 1; omega) (by decide)
    (by show l < sh.2.2.2 * 1; omega)]
  show (PlanarTn.ofShape sh f).get i (j / 1) 0 (l / 1) * onesT.get 0 (j % 1) 0 (l % 1) = _
  rw [Nat.div_one, Nat.div_one, Nat.mod_one, Nat.mod_one, onesT_get, mul_one,
    ofShape_get _ _ _ _ _ _ hi hj (by omega) hl]

/-- only the lower qubit -/
theorem qn_get_lower (sh : Shape) (f : ℕ → ℕ → ℕ → ℕ → ℤ) (h1 : sh.1 = 1) (hE : sh.2.1 ≠ 16) (hW : sh.2.2.2 ≠ 16)
    (j k l : ℕ) (hj : j < sh.2.1) (hk : k < sh.2.2.1) (hl : l < sh.2.2.2) :
    (reduceW (reduceE (merge onesT (PlanarTn.ofShape sh f)))).get 0 j k l = f 0 j k l := by
  rw [qn_get_none onesT (PlanarTn.ofShape sh f) rfl (by show ¬ 1 * sh.2.1 = 16; omega)
    (by show ¬ 1 * sh.2.2.2 = 16; omega) 0 j k l (by decide) (by show j < 1 * sh.2.1; omega) hk
    (by show l < 1 * sh.2.2.2; omega)]
  show onesT.get 0 (j / sh.2.1) 0 (l / sh.2.2.2) * (PlanarTn.ofShape sh f).get 0 (j % sh.2.1) k (l % sh.2.2.2) = _
  rw [Nat.div_eq_of_lt hj, Nat.div_eq_of_lt hl, Nat.mod_eq_of_lt hj, Nat.mod_eq_of_lt hl, onesT_get, one_mul,
    ofShape_get _ _ _ _ _ _ (by omega) hj hk hl]

/-- final shapes of `create_q_node` -/
def qShape : QDir → Shape
  | .n => (1, 4, 4, 4)
  | .ne => (1, 1, 4, 4)
  | .e => (1, 1, 1, 4)
  | .se => (4, 1, 1, 4)
  | .s => (4, 4, 1, 4)
  | .sw => (4, 1, 1, 1)
  | .w => (4, 4, 4, 1)
  | .nw => (1, 4, 4, 1)
  | .bulk => (4, 4, 4, 4)

/-- closed form of a qubit-node entry: product of the upper and the lower qubit's value (absent qubit = 1) -/
def qVal (d : Dist Int) (fs : Option P1 × Option P1) (n e s w : ℕ) : ℤ :=
  (match fs.1 with | some f => qNodeValue d f n e 0 w | none => 1) *
  (match fs.2 with | some f => qNodeValue d f 0 e s w | none => 1)

theorem qNode_shape (d : Dist Int) (fs : Option P1 × Option P1) (dir : QDir) (hok : qNodeOk fs dir = true) :
    ((qNode d fs dir).n, (qNode d fs dir).e, (qNode d fs dir).s, (qNode d fs dir).w) = qShape dir := by
  obtain ⟨a, b⟩ := fs
  cases dir <;> cases a <;> cases b <;> first | rfl | (simp [qNodeOk, qNodeShapes] at hok; done)

theorem qNode_get (d : Dist Int) (fs : Option P1 × Option P1) (dir : QDir) (hok : qNodeOk fs dir = true)
    (i j k l : ℕ) (hi : i < (qShape dir).1) (hj : j < (qShape dir).2.1) (hk : k < (qShape dir).2.2.1)
    (hl : l < (qShape dir).2.2.2) : (qNode d fs dir).get i j k l = qVal d fs i j k l := by
  obtain ⟨a, b⟩ := fs
  cases dir <;> cases a <;> cases b <;> first | (simp [qNodeOk, qNodeShapes] at hok; done) | skip
  all_goals simp only [qShape] at hi hj hk hl
  all_goals unfold qNode qVal
  all_goals simp only [qNodeShapes, qPart]
  · -- n
    rw [qn_get_ee_ww _ _ rfl rfl rfl rfl rfl i j k l hi hj hk hl, ofShape_get _ _ _ _ _ _ hi hj (by decide) hl,
      ofShape_get _ _ _ _ _ _ (by decide) hj hk hl]
  · -- ne
    obtain rfl : i = 0 := by omega
    rw [qn_get_lower (1, 1, 4, 4) _ rfl (by decide) (by decide) j k l hj hk hl, one_mul]
  · -- e
    obtain rfl : k = 0 := by omega
    rw [qn_get_upper (1, 1, 1, 4) _ rfl (by decide) (by decide) i j l hi hj hl, mul_one]
  · -- se
    obtain rfl : k = 0 := by omega
    rw [qn_get_upper (4, 1, 1, 4) _ rfl (by decide) (by decide) i j l hi hj hl, mul_one]
  · -- s
    rw [qn_get_ee_ww _ _ rfl rfl rfl rfl rfl i j k l hi hj hk hl, ofShape_get _ _ _ _ _ _ hi hj (by decide) hl,
      ofShape_get _ _ _ _ _ _ (by decide) hj hk hl]
  · -- sw
    obtain rfl : k = 0 := by omega
    rw [qn_get_upper (4, 1, 1, 1) _ rfl (by decide) (by decide) i j l hi hj hl, mul_one]
  · -- w
    obtain rfl : l = 0 := by omega
    rw [qn_get_ee_w1 _ _ rfl rfl rfl rfl rfl i j k hi hj hk, ofShape_get _ _ _ _ _ _ hi hj (by decide) (by decide),
      ofShape_get _ _ _ _ _ _ (by decide) hj hk (by decide)]
  · -- nw
    obtain rfl : l = 0 := by omega
    rw [qn_get_ee_w1 _ _ rfl rfl rfl rfl rfl i j k hi hj hk, ofShape_get _ _ _ _ _ _ hi hj (by decide) (by decide),
      ofShape_get _ _ _ _ _ _ (by decide) hj hk (by decide)]
  · -- bulk
    rw [qn_get_ee_ww _ _ rfl rfl rfl rfl rfl i j k l hi hj hk hl, ofShape_get _ _ _ _ _ _ hi hj (by decide) hl,
      ofShape_get _ _ _ _ _ _ (by decide) hj hk hl]



/-! ### 2. cells: presence, shapes, kinds -/

def LL (m : ℕ) : ℤ := 2 * (m : ℤ) + 1
theorem bound_LL (m : ℕ) : bound (LL m) = 3 * (m : ℤ) := by unfold bound LL; omega
def Pc (m i c : ℕ) : Prop := c ≤ 3 * i + 2 ∧ 3 * i + c ≤ 6 * m
instance (m i c : ℕ) : Decidable (Pc m i c) := by unfold Pc; infer_instance
def D4 (p : Prop) [Decidable p] : ℕ := if p then 4 else 1
def dN (m i c : ℕ) : ℕ := D4 (Pc m i c ∧ 1 ≤ i ∧ Pc m (i - 1) c)
def dE (m i c : ℕ) : ℕ := D4 (Pc m i c ∧ Pc m i (c + 1))
def dS (m i c : ℕ) : ℕ := D4 (Pc m i c ∧ Pc m (i + 1) c)
def dW (m i c : ℕ) : ℕ := D4 (Pc m i c ∧ 1 ≤ c ∧ Pc m i (c - 1))
def kindShape : Option (SDir ⊕ (QDir × (Option P1 × Option P1))) → Shape
  | none => (1, 1, 1, 1)
  | some (.inl dir) => sNodeShape dir
  | some (.inr (dir, _)) => qShape dir
theorem kindShape_cell (m i c : ℕ) (hm : 1 ≤ m) (f : BVec) :
    kindShape (cellKind (LL m) f i c) = (dN m i c, dE m i c, dS m i c, dW m i c) := by
  unfold cellKind
  simp only [bound_LL]
  unfold sDir qDir
  split_ifs <;>
    simp only [kindShape, sNodeShape, qShape, dN, dE, dS, dW, D4, Pc, Prod.mk.injEq] <;>
    refine ⟨?_, ?_, ?_, ?_⟩ <;>
    first | exact (if_pos (by omega)).symm | exact (if_neg (by omega)).symm

/-! ### the three kinds of cells -/

theorem cellKind_none (m i c : ℕ) (f : BVec) (hP : ¬ Pc m i c) : cellKind (LL m) f i c = none := by
  unfold Pc at hP
  unfold cellKind
  simp only [bound_LL]
  split_ifs <;> first | rfl | omega

/-- lattice row of the plaquette of an odd cell -/
def prow (i c : ℕ) : ℤ := (3 * (i : ℤ) + (c : ℤ) + 1) / 2
/-- lattice row of the upper site of an even cell -/
def urow (i c : ℕ) : ℤ := (3 * (i : ℤ) + (c : ℤ)) / 2

theorem cellKind_odd (m i c : ℕ) (f : BVec) (hP : Pc m i c) (hpar : (i + c) % 2 = 1) :
    cellKind (LL m) f i c = some (.inl (sDir (3 * (m : ℤ)) (prow i c) c)) := by
  unfold Pc at hP
  unfold cellKind prow
  simp only [bound_LL]
  rw [if_pos (by omega), if_pos (by omega)]

theorem f2At_eq (m : ℕ) (f : BVec) (r c : ℤ) (h0 : 0 ≤ c) (hc : c ≤ r + 1) (hs : (r + 1 + c) % 3 ≠ 2) :
    f2At (LL m) f r c = if r + 1 ≤ 3 * (m : ℤ) then some (operatorAt (LL m) f (r + 1) c) else none := by
  unfold f2At
  by_cases h : r + 1 ≤ 3 * (m : ℤ)
  · have h1 : inBounds (LL m) (r + 1) c = true := (inBounds_iff _ _ _).mpr ⟨h0, hc, by rw [bound_LL]; exact h⟩
    have h2 : isSite (r + 1) c = true := (isSite_iff _ _).mpr hs
    rw [h1, h2, if_pos h]; rfl
  · have h1 : inBounds (LL m) (r + 1) c = false := by
      rw [Bool.eq_false_iff]; intro hh
      have := (inBounds_iff _ _ _).mp hh
      rw [bound_LL] at this; omega
    rw [h1, if_neg h]; rfl

/-- the Pauli pair of an even cell: operator on the upper site if it is inside the lattice, operator on the lower site
    if it is -/
def fsOf (m : ℕ) (f : BVec) (i c : ℕ) : Option P1 × Option P1 :=
  (if (c : ℤ) ≤ urow i c then some (operatorAt (LL m) f (urow i c) c) else none,
   if urow i c + 1 ≤ 3 * (m : ℤ) then some (operatorAt (LL m) f (urow i c + 1) c) else none)

theorem cellKind_even (m i c : ℕ) (hm : 1 ≤ m) (f : BVec) (hP : Pc m i c) (hpar : (i + c) % 2 = 0) :
    ∃ dir, cellKind (LL m) f i c = some (.inr (dir, fsOf m f i c)) ∧ qNodeOk (fsOf m f i c) dir = true := by
  unfold Pc at hP
  have hu : 2 * urow i c = 3 * (i : ℤ) + (c : ℤ) := by unfold urow; omega
  by_cases hcu : (c : ℤ) ≤ urow i c
  · have hf2 := f2At_eq m f (urow i c) c (by omega) (by omega) (by omega)
    have hck : cellKind (LL m) f i c = some (.inr (qDir (3 * (m : ℤ)) (urow i c) c,
        qFs (qDir (3 * (m : ℤ)) (urow i c) c) (operatorAt (LL m) f (urow i c) c) (f2At (LL m) f (urow i c) c))) := by
      unfold cellKind
      simp only [bound_LL]
      rw [if_neg (by omega)]
      have e : (if (c : ℤ) ≤ (3 * (i : ℤ) + (c : ℤ)) / 2 then (3 * (i : ℤ) + (c : ℤ)) / 2
          else (3 * (i : ℤ) + (c : ℤ)) / 2 + 1) = urow i c := if_pos hcu
      rw [e, if_pos ⟨hcu, by omega⟩]
    refine ⟨qDir (3 * (m : ℤ)) (urow i c) c, ?_, ?_⟩
    · rw [hck]
      congr 3
      rw [hf2]
      unfold fsOf
      rw [if_pos hcu]
      unfold qDir
      split_ifs <;> simp only [qFs, Prod.mk.injEq, true_and] <;> first | rfl | omega | (rw [if_neg (by omega)])
    · unfold fsOf
      rw [if_pos hcu]
      unfold qDir
      split_ifs <;> first | rfl | omega
  · have hc1 : (c : ℤ) = urow i c + 1 := by omega
    have hck : cellKind (LL m) f i c = some (.inr (qDir (3 * (m : ℤ)) (urow i c + 1) c,
        qFs (qDir (3 * (m : ℤ)) (urow i c + 1) c) (operatorAt (LL m) f (urow i c + 1) c)
          (f2At (LL m) f (urow i c + 1) c))) := by
      unfold cellKind
      simp only [bound_LL]
      rw [if_neg (by omega)]
      have e : (if (c : ℤ) ≤ (3 * (i : ℤ) + (c : ℤ)) / 2 then (3 * (i : ℤ) + (c : ℤ)) / 2
          else (3 * (i : ℤ) + (c : ℤ)) / 2 + 1) = urow i c + 1 := if_neg hcu
      rw [e, if_pos ⟨by omega, by omega⟩]
    have hd : qDir (3 * (m : ℤ)) (urow i c + 1) c = .ne := by
      unfold qDir
      rw [if_neg (by omega), if_pos (by omega), if_neg (by omega), if_pos (by omega)]
    refine ⟨.ne, ?_, ?_⟩
    · rw [hck, hd]
      congr 3
      unfold fsOf
      rw [if_neg hcu, if_pos (by omega)]
      rfl
    · unfold fsOf
      rw [if_neg hcu, if_pos (by omega)]
      rfl

/-! ### 3. the network: sites, shapes, compatibility, padding -/

theorem nrows_colorTn (m : ℕ) (d : Dist Int) (f : BVec) : (colorTn (LL m) d f).nrows = 2 * m + 1 := by
  unfold colorTn LL; simp only; omega

theorem ncols_colorTn (m : ℕ) (d : Dist Int) (f : BVec) : (colorTn (LL m) d f).ncols = 3 * m + 1 := by
  unfold colorTn; simp only [bound_LL]; omega

theorem site_colorTn (m : ℕ) (d : Dist Int) (f : BVec) (i c : ℕ) (hi : i ≤ 2 * m) (hc : c ≤ 3 * m) :
    (colorTn (LL m) d f).site i c = cell (LL m) d f i c := by
  have e1 : (LL m).toNat = 2 * m + 1 := by unfold LL; omega
  have e2 : (bound (LL m) + 1).toNat = 3 * m + 1 := by rw [bound_LL]; omega
  unfold colorTn Net.site
  simp only [e2]
  have hlt : i * (3 * m + 1) + c < (2 * m + 1) * (3 * m + 1) := by
    have : i * (3 * m + 1) + (3 * m + 1) ≤ (2 * m + 1) * (3 * m + 1) := by
      rw [← Nat.succ_mul]; exact Nat.mul_le_mul_right _ (by omega)
    omega
  simp only [Array.getD, Array.size_ofFn, Array.getInternal_eq_getElem, Array.getElem_ofFn]
  rw [decode_div _ _ _ (by omega), decode_mod _ _ _ (by omega), dif_pos (by rw [e1, e2]; exact hlt)]

/-- every `assert` of `create_q_node` holds -/
theorem cellKind_ok (m i c : ℕ) (hm : 1 ≤ m) (f : BVec) (dir : QDir) (fs : Option P1 × Option P1)
    (h : cellKind (LL m) f i c = some (.inr (dir, fs))) : qNodeOk fs dir = true := by
  by_cases hP : Pc m i c
  · by_cases hpar : (i + c) % 2 = 1
    · rw [cellKind_odd m i c f hP hpar] at h
      simp at h
    · obtain ⟨dir', h1, h2⟩ := cellKind_even m i c hm f hP (by omega)
      rw [h1] at h
      simp only [Option.some.injEq, Sum.inr.injEq, Prod.mk.injEq] at h
      rw [← h.1, ← h.2]; exact h2
  · rw [cellKind_none m i c f hP] at h
    simp at h

theorem sNode_shape (dir : SDir) :
    ((sNode dir).n, (sNode dir).e, (sNode dir).s, (sNode dir).w) = sNodeShape dir := by cases dir <;> rfl

/-- shape of every cell (a `None` cell counts as the scalar tensor 1) -/
theorem cell_dims (m i c : ℕ) (hm : 1 ≤ m) (d : Dist Int) (f : BVec) :
    (siteT (cell (LL m) d f i c)).n = dN m i c ∧ (siteT (cell (LL m) d f i c)).e = dE m i c ∧
    (siteT (cell (LL m) d f i c)).s = dS m i c ∧ (siteT (cell (LL m) d f i c)).w = dW m i c := by
  have hk := kindShape_cell m i c hm f
  have hok := cellKind_ok m i c hm f
  unfold Color666Tn.cell
  cases hck : cellKind (LL m) f i c with
  | none =>
    rw [hck] at hk
    simp only [kindShape, Prod.mk.injEq] at hk
    exact ⟨hk.1, hk.2.1, hk.2.2.1, hk.2.2.2⟩
  | some k =>
    cases k with
    | inl dir =>
      rw [hck] at hk
      have := sNode_shape dir
      simp only [kindShape] at hk
      rw [hk, Prod.mk.injEq, Prod.mk.injEq, Prod.mk.injEq] at this
      exact this
    | inr p =>
      obtain ⟨dir, fs⟩ := p
      rw [hck] at hk
      have := qNode_shape d fs dir (hok dir fs hck)
      simp only [kindShape] at hk
      rw [hk, Prod.mk.injEq, Prod.mk.injEq, Prod.mk.injEq] at this
      exact this

theorem netF_colorTn (m : ℕ) (d : Dist Int) (f : BVec) (i c : ℕ) (hi : i ≤ 2 * m) (hc : c ≤ 3 * m) :
    netF (colorTn (LL m) d f) i c = toF (siteT (Color666Tn.cell (LL m) d f i c)) := by
  unfold netF; rw [site_colorTn m d f i c hi hc]

theorem netF_dims (m : ℕ) (hm : 1 ≤ m) (d : Dist Int) (f : BVec) (i c : ℕ) (hi : i ≤ 2 * m) (hc : c ≤ 3 * m) :
    (netF (colorTn (LL m) d f) i c).n = dN m i c ∧ (netF (colorTn (LL m) d f) i c).e = dE m i c ∧
    (netF (colorTn (LL m) d f) i c).s = dS m i c ∧ (netF (colorTn (LL m) d f) i c).w = dW m i c := by
  rw [netF_colorTn m d f i c hi hc]
  exact cell_dims m i c hm d f

theorem D4_cases (p : Prop) [Decidable p] : (D4 p = 4 ∧ p) ∨ (D4 p = 1 ∧ ¬ p) := by
  unfold D4; by_cases h : p
  · left; rw [if_pos h]; exact ⟨rfl, h⟩
  · right; rw [if_neg h]; exact ⟨rfl, h⟩

theorem compatible_colorTn (m : ℕ) (hm : 1 ≤ m) (d : Dist Int) (f : BVec) :
    compatible (colorTn (LL m) d f) = true := by
  have hnr := nrows_colorTn m d f
  have hnc := ncols_colorTn m d f
  simp only [compatible, Bool.and_eq_true, decide_eq_true_eq, List.all_eq_true, List.mem_range, Bool.or_eq_true,
    beq_iff_eq, hnr, hnc]
  refine ⟨⟨by omega, by omega⟩, fun r hr c hc => ?_⟩
  have key : ∀ r c, r ≤ 2 * m → c ≤ 3 * m →
      (siteT ((colorTn (LL m) d f).site r c)).n = dN m r c ∧ (siteT ((colorTn (LL m) d f).site r c)).e = dE m r c ∧
      (siteT ((colorTn (LL m) d f).site r c)).s = dS m r c ∧ (siteT ((colorTn (LL m) d f).site r c)).w = dW m r c :=
    fun r c hr hc => netF_dims m hm d f r c hr hc
  obtain ⟨k1, k2, k3, k4⟩ := key r c (by omega) (by omega)
  refine ⟨⟨⟨?_, ?_⟩, ?_⟩, ?_⟩
  · rw [k4]
    by_cases h0 : c = 0
    · subst h0; simp [dW, D4]
    · rw [if_neg h0, (key r (c - 1) (by omega) (by omega)).2.1]
      unfold dW dE D4 Pc
      rw [Nat.sub_add_cancel (by omega)]
      split_ifs <;> first | rfl | omega
  · rw [k1]
    by_cases h0 : r = 0
    · subst h0; simp [dN, D4]
    · rw [if_neg h0, (key (r - 1) c (by omega) (by omega)).2.2.1]
      unfold dN dS D4 Pc
      rw [Nat.sub_add_cancel (by omega)]
      split_ifs <;> first | rfl | omega
  · rw [k2]; unfold dE D4 Pc
    by_cases h : c + 1 < 3 * m + 1
    · left; exact h
    · right; rw [if_neg (by omega)]
  · rw [k3]; unfold dS D4 Pc
    by_cases h : r + 1 < 2 * m + 1
    · left; exact h
    · right; rw [if_neg (by omega)]

theorem compat_colorTn (m : ℕ) (hm : 1 ≤ m) (d : Dist Int) (f : BVec) :
    Compat (colorTn (LL m) d f) (2 * m) (3 * m) := by
  have := compat_of_compatible _ (compatible_colorTn m hm d f)
  rwa [nrows_colorTn, ncols_colorTn, Nat.add_sub_cancel, Nat.add_sub_cancel] at this

theorem cell_isSome (m i c : ℕ) (hm : 1 ≤ m) (d : Dist Int) (f : BVec) :
    (Color666Tn.cell (LL m) d f i c).isSome = true ↔ Pc m i c := by
  unfold Color666Tn.cell
  by_cases hP : Pc m i c
  · by_cases hpar : (i + c) % 2 = 1
    · rw [cellKind_odd m i c f hP hpar]; simp [hP]
    · obtain ⟨dir, h1, _⟩ := cellKind_even m i c hm f hP (by omega)
      rw [h1]; simp [hP]
  · rw [cellKind_none m i c f hP]; simp [hP]

/-- the first column holds a tensor in every row: the columns are padded with `None` at their ends only -/
theorem padded_colorTn (m : ℕ) (hm : 1 ≤ m) (d : Dist Int) (f : BVec) : PaddedRows (colorTn (LL m) d f) := by
  refine ⟨0, 2 * m + 1, by omega, by rw [nrows_colorTn], fun r hr => ?_⟩
  rw [nrows_colorTn] at hr
  refine ⟨fun _ => ⟨Nat.zero_le _, hr⟩, fun _ => ⟨0, by rw [ncols_colorTn]; omega, ?_⟩⟩
  rw [site_colorTn m d f r 0 (by omega) (by omega), cell_isSome m r 0 hm]
  unfold Pc; omega

/-! ### 4. plaquette cells, their legs, the bonds grouped by plaquette -/

/-- network cell of a lattice index -/
def toCell (p : ℤ × ℤ) : ℕ × ℕ := (((2 * p.1 - p.2) / 3).toNat, p.2.toNat)

/-- the plaquette cells in the order of `Color666.plaquetteIndices` -/
def cells (m : ℕ) : List (ℕ × ℕ) := (plaquetteIndices (LL m)).map toCell

theorem realP_LL (m : ℕ) (p : ℤ × ℤ) :
    RealP (LL m) p ↔ 0 ≤ p.2 ∧ p.2 ≤ p.1 ∧ p.1 ≤ 3 * (m : ℤ) ∧ (p.1 + p.2) % 3 = 2 := by
  unfold RealP; rw [bound_LL]

theorem mem_cells (m : ℕ) (q : ℕ × ℕ) : q ∈ cells m ↔ Pc m q.1 q.2 ∧ (q.1 + q.2) % 2 = 1 := by
  unfold cells Pc
  simp only [List.mem_map, mem_plaquetteIndices, realP_LL]
  constructor
  · rintro ⟨p, ⟨h1, h2, h3, h4⟩, rfl⟩
    simp only [toCell]
    omega
  · rintro ⟨⟨h1, h2⟩, h3⟩
    refine ⟨(prow q.1 q.2, (q.2 : ℤ)), ⟨?_, ?_, ?_, ?_⟩, ?_⟩ <;> simp only [prow] <;> try omega
    apply Prod.ext <;> simp only [toCell] <;> omega

theorem cells_nodup (m : ℕ) : (cells m).Nodup := by
  unfold cells
  refine List.Nodup.map_on ?_ (plaquetteIndices_nodup _)
  intro a ha b hb hab
  rw [mem_plaquetteIndices, realP_LL] at ha hb
  simp only [toCell, Prod.mk.injEq] at hab
  exact Prod.ext (by omega) (by omega)

/-- the summed (dimension 4) bonds of cell `p`, in the leg order n, e, s, w -/
def legs (m : ℕ) (p : ℕ × ℕ) : List Bond :=
  ([(dN m p.1 p.2, v p.1 p.2), (dE m p.1 p.2, h p.1 (p.2 + 1)), (dS m p.1 p.2, v (p.1 + 1) p.2),
    (dW m p.1 p.2, h p.1 p.2)].filter fun q => q.1 != 1).map (·.2)

theorem mem_legs (m r c : ℕ) (b : Bond) :
    b ∈ legs m (r, c) ↔ (dN m r c ≠ 1 ∧ b = v r c) ∨ (dE m r c ≠ 1 ∧ b = h r (c + 1)) ∨
      (dS m r c ≠ 1 ∧ b = v (r + 1) c) ∨ (dW m r c ≠ 1 ∧ b = h r c) := by
  unfold legs
  rw [PlanarTnLemmas.mem_filter4]

theorem legs_nodup (m : ℕ) (p : ℕ × ℕ) : (legs m p).Nodup := by
  unfold legs
  refine List.Nodup.sublist (List.Sublist.map _ List.filter_sublist) ?_
  simp

theorem legs_owner (m : ℕ) (p q : ℕ × ℕ) (b : Bond) (hp : b ∈ legs m p) (hq : b ∈ legs m q)
    (h1 : (p.1 + p.2) % 2 = 1) (h2 : (q.1 + q.2) % 2 = 1) : p = q := by
  obtain ⟨r, c⟩ := p
  obtain ⟨r', c'⟩ := q
  rw [mem_legs] at hp hq
  simp only at h1 h2
  rcases hp with ⟨_, rfl⟩ | ⟨_, rfl⟩ | ⟨_, rfl⟩ | ⟨_, rfl⟩ <;>
    rcases hq with ⟨_, hq⟩ | ⟨_, hq⟩ | ⟨_, hq⟩ | ⟨_, hq⟩ <;>
    first
      | (injection hq with e1 e2; rw [Prod.mk.injEq]; omega)
      | (exact absurd hq (by simp))

def stars (m : ℕ) : List (List Bond) := (cells m).map (legs m)

theorem stars_nodup (m : ℕ) : (stars m).flatten.Nodup := by
  unfold stars
  rw [List.nodup_flatten]
  refine ⟨fun l hl => ?_, ?_⟩
  · obtain ⟨p, _, rfl⟩ := List.mem_map.mp hl
    exact legs_nodup _ p
  · rw [List.pairwise_map]
    refine List.Pairwise.imp_of_mem ?_ (cells_nodup m)
    intro p q hp hq hne
    intro b hb1 hb2
    exact hne (legs_owner _ p q b hb1 hb2 ((mem_cells m p).mp hp).2 ((mem_cells m q).mp hq).2)

theorem D4_ne_one (p : Prop) [Decidable p] : D4 p ≠ 1 ↔ p := by
  unfold D4; by_cases h : p <;> simp [h]

theorem D4_eq_four (p : Prop) [Decidable p] : D4 p = 4 ↔ p := by
  unfold D4; by_cases h : p <;> simp [h]

/-- a vertical bond is summed (dimension 4) iff both cells it joins hold a tensor -/
theorem memS_v (m r c : ℕ) : v r c ∈ (stars m).flatten ↔ 1 ≤ r ∧ Pc m r c ∧ Pc m (r - 1) c := by
  unfold stars
  simp only [List.mem_flatten, List.mem_map, exists_exists_and_eq_and]
  constructor
  · rintro ⟨⟨i, j⟩, hq, hb⟩
    rcases (mem_legs m i j _).mp hb with ⟨h0, hh⟩ | ⟨h0, hh⟩ | ⟨h0, hh⟩ | ⟨h0, hh⟩
    · injection hh with e1 e2; subst e1; subst e2
      rw [dN, D4_ne_one] at h0; exact ⟨h0.2.1, h0.1, h0.2.2⟩
    · injection hh
    · injection hh with e1 e2; subst e1; subst e2
      rw [dS, D4_ne_one] at h0
      exact ⟨by omega, h0.2, by rw [Nat.add_sub_cancel]; exact h0.1⟩
    · injection hh
  · rintro ⟨h1, h2, h3⟩
    by_cases hpar : (r + c) % 2 = 1
    · exact ⟨(r, c), (mem_cells m _).mpr ⟨h2, hpar⟩,
        (mem_legs m r c _).mpr (Or.inl ⟨by rw [dN, D4_ne_one]; exact ⟨h2, h1, h3⟩, rfl⟩)⟩
    · refine ⟨(r - 1, c), (mem_cells m _).mpr ⟨h3, by simp only; omega⟩,
        (mem_legs m (r - 1) c _).mpr (Or.inr (Or.inr (Or.inl ⟨?_, ?_⟩)))⟩
      · rw [dS, D4_ne_one, Nat.sub_add_cancel h1]; exact ⟨h3, h2⟩
      · rw [Nat.sub_add_cancel h1]

/-- a horizontal bond is summed (dimension 4) iff both cells it joins hold a tensor -/
theorem memS_h (m r c : ℕ) : h r c ∈ (stars m).flatten ↔ 1 ≤ c ∧ Pc m r c ∧ Pc m r (c - 1) := by
  unfold stars
  simp only [List.mem_flatten, List.mem_map, exists_exists_and_eq_and]
  constructor
  · rintro ⟨⟨i, j⟩, hq, hb⟩
    rcases (mem_legs m i j _).mp hb with ⟨h0, hh⟩ | ⟨h0, hh⟩ | ⟨h0, hh⟩ | ⟨h0, hh⟩
    · injection hh
    · injection hh with e1 e2; subst e1; subst e2
      rw [dE, D4_ne_one] at h0
      exact ⟨by omega, h0.2, by rw [Nat.add_sub_cancel]; exact h0.1⟩
    · injection hh
    · injection hh with e1 e2; subst e1; subst e2
      rw [dW, D4_ne_one] at h0; exact ⟨h0.2.1, h0.1, h0.2.2⟩
  · rintro ⟨h1, h2, h3⟩
    by_cases hpar : (r + c) % 2 = 1
    · exact ⟨(r, c), (mem_cells m _).mpr ⟨h2, hpar⟩,
        (mem_legs m r c _).mpr (Or.inr (Or.inr (Or.inr ⟨by rw [dW, D4_ne_one]; exact ⟨h2, h1, h3⟩, rfl⟩)))⟩
    · refine ⟨(r, c - 1), (mem_cells m _).mpr ⟨h3, by simp only; omega⟩,
        (mem_legs m r (c - 1) _).mpr (Or.inr (Or.inl ⟨?_, ?_⟩))⟩
      · rw [dE, D4_ne_one, Nat.sub_add_cancel h1]; exact ⟨h3, h2⟩
      · rw [Nat.sub_add_cancel h1]

theorem stars_sub_gvars (m : ℕ) (b : Bond) (hb : b ∈ (stars m).flatten) : b ∈ gvars (2 * m) (3 * m) := by
  rw [mem_gvars]
  cases b with
  | h r c =>
    obtain ⟨h1, h2, h3⟩ := (memS_h m r c).mp hb
    unfold Pc at h2 h3
    exact Or.inl ⟨r, c, by omega, h1, by omega, rfl⟩
  | v r c =>
    obtain ⟨h1, h2, h3⟩ := (memS_v m r c).mp hb
    unfold Pc at h2 h3
    exact Or.inr ⟨r, c, h1, by omega, by omega, rfl⟩

/-- dimension of every bond of the grid: 4 on the summed bonds, 1 elsewhere -/
theorem bdim_colorTn (m : ℕ) (hm : 1 ≤ m) (d : Dist Int) (f : BVec) (b : Bond) (hb : b ∈ gvars (2 * m) (3 * m)) :
    TensorExact.bdim (netF (colorTn (LL m) d f)) b = if b ∈ (stars m).flatten then 4 else 1 := by
  rcases (mem_gvars _ _ b).mp hb with ⟨r, c, h1, h2, h3, rfl⟩ | ⟨r, c, h1, h2, h3, rfl⟩
  · obtain ⟨c', rfl⟩ : ∃ c', c = c' + 1 := ⟨c - 1, by omega⟩
    show (netF (colorTn (LL m) d f) r c').e = _
    rw [(netF_dims m hm d f r c' h1 (by omega)).2.1]
    by_cases hs : h r (c' + 1) ∈ (stars m).flatten
    · rw [if_pos hs]
      obtain ⟨_, a, b⟩ := (memS_h m r (c' + 1)).mp hs
      rw [Nat.add_sub_cancel] at b
      rw [dE, D4_eq_four]; exact ⟨b, a⟩
    · rw [if_neg hs]
      have : ¬ (Pc m r c' ∧ Pc m r (c' + 1)) := fun hh =>
        hs ((memS_h m r (c' + 1)).mpr ⟨by omega, hh.2, by rw [Nat.add_sub_cancel]; exact hh.1⟩)
      unfold dE D4; rw [if_neg this]
  · obtain ⟨r', rfl⟩ : ∃ r', r = r' + 1 := ⟨r - 1, by omega⟩
    show (netF (colorTn (LL m) d f) r' c).s = _
    rw [(netF_dims m hm d f r' c (by omega) h3).2.2.1]
    by_cases hs : v (r' + 1) c ∈ (stars m).flatten
    · rw [if_pos hs]
      obtain ⟨_, a, b⟩ := (memS_v m (r' + 1) c).mp hs
      rw [Nat.add_sub_cancel] at b
      rw [dS, D4_eq_four]; exact ⟨b, a⟩
    · rw [if_neg hs]
      have : ¬ (Pc m r' c ∧ Pc m (r' + 1) c) := fun hh =>
        hs ((memS_v m (r' + 1) c).mpr ⟨by omega, hh.2, by rw [Nat.add_sub_cancel]; exact hh.1⟩)
      unfold dS D4; rw [if_neg this]

/-- the dummy bonds of the grid -/
def units (m : ℕ) : List Bond := (gvars (2 * m) (3 * m)).filter fun b => decide (b ∉ (stars m).flatten)

theorem gvars_perm (m : ℕ) : (gvars (2 * m) (3 * m)).Perm (units m ++ (stars m).flatten) := by
  rw [List.perm_ext_iff_of_nodup (gvars_nodup _ _)]
  · intro b
    simp only [units, List.mem_append, List.mem_filter, decide_eq_true_eq]
    constructor
    · intro hb
      by_cases hs : b ∈ (stars m).flatten
      · exact Or.inr hs
      · exact Or.inl ⟨hb, hs⟩
    · rintro (⟨hb, _⟩ | hs)
      · exact hb
      · exact stars_sub_gvars m b hs
  · rw [List.nodup_append]
    refine ⟨(gvars_nodup _ _).filter _, stars_nodup m, ?_⟩
    intro a ha b hb hab
    subst hab
    simp only [units, List.mem_filter, decide_eq_true_eq] at ha
    exact ha.2 hb

theorem stars_ne_nil (m : ℕ) (hm : 1 ≤ m) : ∀ l ∈ stars m, l ≠ [] := by
  intro l hl
  obtain ⟨⟨r, c⟩, hq, rfl⟩ := List.mem_map.mp hl
  obtain ⟨hP, hpar⟩ := (mem_cells m _).mp hq
  simp only at hP hpar
  unfold Pc at hP
  -- an odd present cell has a present neighbour above or below
  by_cases h0 : 1 ≤ r ∧ Pc m (r - 1) c
  · exact List.ne_nil_of_mem ((mem_legs m r c _).mpr (Or.inl ⟨by rw [dN, D4_ne_one]; exact ⟨hP, h0.1, h0.2⟩, rfl⟩))
  · refine List.ne_nil_of_mem ((mem_legs m r c _).mpr (Or.inr (Or.inr (Or.inl ⟨?_, rfl⟩))))
    rw [dS, D4_ne_one]
    unfold Pc at h0 ⊢
    omega

/-! ### 5. the state sum: deltas and qubit tensors -/

/-- the assignments visited by the state sum over the summed bonds -/
structure Vis (m : ℕ) (t : Bond → ℕ) : Prop where
  lt : ∀ b ∈ (stars m).flatten, t b < 4
  zero : ∀ b, b ∉ (stars m).flatten → t b = 0

theorem D4_pos (p : Prop) [Decidable p] : 0 < D4 p := by unfold D4; split <;> decide

theorem vis_inRange (m : ℕ) (t : Bond → ℕ) (hv : Vis m t) (r c : ℕ) :
    t (v r c) < dN m r c ∧ t (h r (c + 1)) < dE m r c ∧ t (v (r + 1) c) < dS m r c ∧ t (h r c) < dW m r c := by
  refine ⟨?_, ?_, ?_, ?_⟩
  · by_cases hs : v r c ∈ (stars m).flatten
    · obtain ⟨a, b, c'⟩ := (memS_v m r c).mp hs
      rw [dN, (D4_eq_four _).mpr ⟨b, a, c'⟩]; exact hv.lt _ hs
    · rw [hv.zero _ hs]; exact D4_pos _
  · by_cases hs : h r (c + 1) ∈ (stars m).flatten
    · obtain ⟨a, b, c'⟩ := (memS_h m r (c + 1)).mp hs
      rw [Nat.add_sub_cancel] at c'
      rw [dE, (D4_eq_four _).mpr ⟨c', b⟩]; exact hv.lt _ hs
    · rw [hv.zero _ hs]; exact D4_pos _
  · by_cases hs : v (r + 1) c ∈ (stars m).flatten
    · obtain ⟨a, b, c'⟩ := (memS_v m (r + 1) c).mp hs
      rw [Nat.add_sub_cancel] at c'
      rw [dS, (D4_eq_four _).mpr ⟨c', b⟩]; exact hv.lt _ hs
    · rw [hv.zero _ hs]; exact D4_pos _
  · by_cases hs : h r c ∈ (stars m).flatten
    · obtain ⟨a, b, c'⟩ := (memS_h m r c).mp hs
      rw [dW, (D4_eq_four _).mpr ⟨b, a, c'⟩]; exact hv.lt _ hs
    · rw [hv.zero _ hs]; exact D4_pos _

theorem cw_colorTn (m : ℕ) (d : Dist Int) (f : BVec) (t : Bond → ℕ) (r c : ℕ) (hr : r ≤ 2 * m) (hc : c ≤ 3 * m) :
    cw (netF (colorTn (LL m) d f)) t r c
      = (siteT (Color666Tn.cell (LL m) d f r c)).get (t (v r c)) (t (h r (c + 1))) (t (v (r + 1) c)) (t (h r c)) := by
  unfold cw
  rw [netF_colorTn m d f r c hr hc]
  rfl

theorem one_get : T4.one.get 0 0 0 0 = 1 := by decide

/-- a `None` cell contributes the factor 1 -/
theorem cw_absent (m : ℕ) (d : Dist Int) (f : BVec) (t : Bond → ℕ) (hv : Vis m t) (r c : ℕ) (hr : r ≤ 2 * m)
    (hc : c ≤ 3 * m) (hP : ¬ Pc m r c) : cw (netF (colorTn (LL m) d f)) t r c = 1 := by
  obtain ⟨i1, i2, i3, i4⟩ := vis_inRange m t hv r c
  have e1 : dN m r c = 1 := by unfold dN D4; rw [if_neg (fun hh => hP hh.1)]
  have e2 : dE m r c = 1 := by unfold dE D4; rw [if_neg (fun hh => hP hh.1)]
  have e3 : dS m r c = 1 := by unfold dS D4; rw [if_neg (fun hh => hP hh.1)]
  have e4 : dW m r c = 1 := by unfold dW D4; rw [if_neg (fun hh => hP hh.1)]
  rw [cw_colorTn m d f t r c hr hc]
  unfold Color666Tn.cell
  rw [cellKind_none m r c f hP]
  have z1 : t (v r c) = 0 := by omega
  have z2 : t (h r (c + 1)) = 0 := by omega
  have z3 : t (v (r + 1) c) = 0 := by omega
  have z4 : t (h r c) = 0 := by omega
  rw [z1, z2, z3, z4]
  exact one_get

theorem deltaEntry_legs (m r c : ℕ) (t : Bond → ℕ) :
    PlanarTn.deltaEntry (dN m r c, dE m r c, dS m r c, dW m r c) (t (v r c)) (t (h r (c + 1))) (t (v (r + 1) c))
      (t (h r c)) = PlanarTnLemmas.deltaList ((legs m (r, c)).map t) := by
  have : (legs m (r, c)).map t
      = ([(dN m r c, t (v r c)), (dE m r c, t (h r (c + 1))), (dS m r c, t (v (r + 1) c)),
          (dW m r c, t (h r c))].filter fun q => q.1 != 1).map (·.2) := by
    unfold legs
    generalize dN m r c = a1
    generalize dE m r c = a2
    generalize dS m r c = a3
    generalize dW m r c = a4
    simp only [List.filter_cons, List.filter_nil]
    split_ifs <;> rfl
  rw [this]
  rfl

/-- a plaquette cell is the delta of its summed legs -/
theorem cw_star (m : ℕ) (hm : 1 ≤ m) (d : Dist Int) (f : BVec) (t : Bond → ℕ) (hv : Vis m t) (p : ℕ × ℕ)
    (hp : p ∈ cells m) :
    cw (netF (colorTn (LL m) d f)) t p.1 p.2 = (FactorGraph.star (legs m p) t : ℤ) := by
  obtain ⟨r, c⟩ := p
  obtain ⟨hP, hpar⟩ := (mem_cells m (r, c)).mp hp
  simp only at hP hpar ⊢
  have hr : r ≤ 2 * m := by unfold Pc at hP; omega
  have hc : c ≤ 3 * m := by unfold Pc at hP; omega
  obtain ⟨i1, i2, i3, i4⟩ := vis_inRange m t hv r c
  have hk := kindShape_cell m r c hm f
  rw [cellKind_odd m r c f hP hpar] at hk
  simp only [kindShape] at hk
  rw [cw_colorTn m d f t r c hr hc]
  unfold Color666Tn.cell
  rw [cellKind_odd m r c f hP hpar]
  show (sNode _).get _ _ _ _ = _
  unfold sNode
  rw [hk, ofShape_get _ _ _ _ _ _ i1 i2 i3 i4, deltaEntry_legs, PlanarTnLemmas.deltaList_map]

/-- a present qubit cell is the product of the values of its qubits -/
theorem cw_qcell (m : ℕ) (hm : 1 ≤ m) (d : Dist Int) (f : BVec) (t : Bond → ℕ) (hv : Vis m t) (r c : ℕ)
    (hP : Pc m r c) (hpar : (r + c) % 2 = 0) :
    cw (netF (colorTn (LL m) d f)) t r c
      = qVal d (fsOf m f r c) (t (v r c)) (t (h r (c + 1))) (t (v (r + 1) c)) (t (h r c)) := by
  have hr : r ≤ 2 * m := by unfold Pc at hP; omega
  have hc : c ≤ 3 * m := by unfold Pc at hP; omega
  obtain ⟨i1, i2, i3, i4⟩ := vis_inRange m t hv r c
  obtain ⟨dir, hck, hok⟩ := cellKind_even m r c hm f hP hpar
  have hk := kindShape_cell m r c hm f
  rw [hck] at hk
  simp only [kindShape] at hk
  rw [cw_colorTn m d f t r c hr hc]
  unfold Color666Tn.cell
  rw [hck]
  show (qNode d _ dir).get _ _ _ _ = _
  exact qNode_get d _ dir hok _ _ _ _ (by rw [hk]; exact i1) (by rw [hk]; exact i2) (by rw [hk]; exact i3)
    (by rw [hk]; exact i4)

/-- product of the qubit tensors (cells of even parity) under the assignment `t` -/
def qubitProd (m : ℕ) (d : Dist Int) (f : BVec) (t : Bond → ℕ) : ℤ :=
  ∏ c ∈ range (3 * m + 1), ∏ r ∈ range (2 * m + 1),
    if (r + c) % 2 = 1 then 1 else cw (netF (colorTn (LL m) d f)) t r c

theorem prod_cells (m : ℕ) (F : ℕ × ℕ → ℤ) :
    ∏ c ∈ range (3 * m + 1), ∏ r ∈ range (2 * m + 1), (if (r + c) % 2 = 1 ∧ Pc m r c then F (r, c) else 1)
      = ((cells m).map F).prod := by
  calc ∏ c ∈ range (3 * m + 1), ∏ r ∈ range (2 * m + 1), (if (r + c) % 2 = 1 ∧ Pc m r c then F (r, c) else 1)
      = ∏ r ∈ range (2 * m + 1), ∏ c ∈ range (3 * m + 1), (if (r + c) % 2 = 1 ∧ Pc m r c then F (r, c) else 1) :=
        prod_comm
    _ = ∏ x ∈ range (2 * m + 1) ×ˢ range (3 * m + 1), (if (x.1 + x.2) % 2 = 1 ∧ Pc m x.1 x.2 then F x else 1) :=
        (prod_product' _ _ (fun r c => if (r + c) % 2 = 1 ∧ Pc m r c then F (r, c) else 1)).symm
    _ = ∏ x ∈ (range (2 * m + 1) ×ˢ range (3 * m + 1)).filter (fun x => (x.1 + x.2) % 2 = 1 ∧ Pc m x.1 x.2), F x :=
        (prod_filter _ _).symm
    _ = ∏ x ∈ (cells m).toFinset, F x := by
        congr 1
        ext x
        rw [mem_filter, mem_product, mem_range, mem_range, List.mem_toFinset, mem_cells m x]
        unfold Pc
        constructor
        · rintro ⟨_, h1, h2⟩; exact ⟨h2, h1⟩
        · rintro ⟨h2, h1⟩; exact ⟨⟨by omega, by omega⟩, h1, h2⟩
    _ = ((cells m).map F).prod := List.prod_toFinset F (cells_nodup m)

theorem prod_split (m : ℕ) (hm : 1 ≤ m) (d : Dist Int) (f : BVec) (t : Bond → ℕ) (hv : Vis m t) :
    ∏ c ∈ range (3 * m + 1), ∏ r ∈ range (2 * m + 1), cw (netF (colorTn (LL m) d f)) t r c
      = ((stars m).map fun l => (FactorGraph.star l t : ℤ)).prod * qubitProd m d f t := by
  have e : ∀ c ∈ range (3 * m + 1), ∀ r ∈ range (2 * m + 1), cw (netF (colorTn (LL m) d f)) t r c
      = (if (r + c) % 2 = 1 ∧ Pc m r c then cw (netF (colorTn (LL m) d f)) t (r, c).1 (r, c).2 else 1)
        * (if (r + c) % 2 = 1 then 1 else cw (netF (colorTn (LL m) d f)) t r c) := by
    intro c hc r hr
    have hc := mem_range.mp hc
    have hr := mem_range.mp hr
    by_cases hpar : (r + c) % 2 = 1
    · by_cases hP : Pc m r c
      · rw [if_pos ⟨hpar, hP⟩, if_pos hpar, mul_one]
      · rw [if_neg (fun hh => hP hh.2), if_pos hpar, mul_one]
        exact cw_absent m d f t hv r c (by omega) (by omega) hP
    · rw [if_neg (fun hh => hpar hh.1), if_neg hpar, one_mul]
  rw [prod_congr rfl (fun c hc => prod_congr rfl (fun r hr => e c hc r hr))]
  simp only [prod_mul_distrib]
  rw [prod_cells m (fun p => cw (netF (colorTn (LL m) d f)) t p.1 p.2)]
  unfold qubitProd stars
  rw [List.map_map]
  congr 2
  apply List.map_congr_left
  intro p hp
  exact cw_star m hm d f t hv p hp

/-- **the exact value of the colour network is the sum over one Pauli index per plaquette of the product of the qubit
    tensors** -/
theorem exactValue_colorTn (m : ℕ) (hm : 1 ≤ m) (d : Dist Int) (f : BVec) :
    exactValue (colorTn (LL m) d f) = some (sumBk 4 (stars m) (qubitProd m d f) (fun _ => 0)) := by
  rw [PlanarTnLemmas.exactValue_eq_sumV _ _ _ (compat_colorTn m hm d f) (compatible_colorTn m hm d f)]
  congr 1
  have hdS : ∀ b ∈ (stars m).flatten, TensorExact.bdim (netF (colorTn (LL m) d f)) b = 4 := fun b hb => by
    rw [bdim_colorTn m hm d f b (stars_sub_gvars m b hb), if_pos hb]
  rw [sumV_perm _ (gvars_perm m) (gvars_nodup _ _),
    sumV_drop_unit _ (units m) _ _ _ (fun b hb => by
      simp only [units, List.mem_filter, decide_eq_true_eq] at hb
      rw [bdim_colorTn m hm d f b hb.1, if_neg hb.2]) (fun _ _ => rfl),
    sumV_congr_mem _ _ _ (fun t => ((stars m).map fun l => (FactorGraph.star l t : ℤ)).prod * qubitProd m d f t) _
      (fun t h1 h2 => prod_split m hm d f t ⟨fun b hb => by rw [← hdS b hb]; exact h1 b hb, h2⟩)]
  exact sumV_starsK 4 _ (stars m) (stars_nodup m) (stars_ne_nil m hm) hdS _ _

/-! ### 6. the qubit tensors at the assignment of one Pauli index per plaquette -/

theorem qNodeValue_bits_u (d : Dist Int) (op : P1) (a1 b1 a2 b2 a4 b4 : Bool) :
    qNodeValue d op (pidx a1 b1) (pidx a2 b2) 0 (pidx a4 b4)
      = d.at (op.xBit ^^ (a1 ^^ (a2 ^^ a4))) (op.zBit ^^ (b1 ^^ (b2 ^^ b4))) := by
  cases op <;> cases a1 <;> cases b1 <;> cases a2 <;> cases b2 <;> cases a4 <;> cases b4 <;> rfl

theorem qNodeValue_bits_l (d : Dist Int) (op : P1) (a2 b2 a3 b3 a4 b4 : Bool) :
    qNodeValue d op 0 (pidx a2 b2) (pidx a3 b3) (pidx a4 b4)
      = d.at (op.xBit ^^ (a2 ^^ (a3 ^^ a4))) (op.zBit ^^ (b2 ^^ (b3 ^^ b4))) := by
  cases op <;> cases a2 <;> cases b2 <;> cases a3 <;> cases b3 <;> cases a4 <;> cases b4 <;> rfl

open Qec.Symp in
/-- a sum over the (distinct) plaquettes of a term supported on three of them -/
theorem nb_sum3 {α : Type} [DecidableEq α] (l : List α) (hl : l.Nodup) (g k : α → Bool) (a b c : α) (hab : a ≠ b)
    (hac : a ≠ c) (hbc : b ≠ c) (ma mb mc : Bool) (hma : ma = true ↔ a ∈ l) (hmb : mb = true ↔ b ∈ l)
    (hmc : mc = true ↔ c ∈ l) (hk : ∀ p ∈ l, k p = decide (p = a ∨ p = b ∨ p = c)) :
    xorSum l (fun p => g p && k p) = ((ma && g a) ^^ ((mb && g b) ^^ (mc && g c))) := by
  have e1 : ma = decide (a ∈ l) := by rw [Bool.eq_iff_iff]; simp [hma]
  have e2 : mb = decide (b ∈ l) := by rw [Bool.eq_iff_iff]; simp [hmb]
  have e3 : mc = decide (c ∈ l) := by rw [Bool.eq_iff_iff]; simp [hmc]
  rw [e1, e2, e3, ← PlanarTnLemmas.xorSum_one l hl g a, ← PlanarTnLemmas.xorSum_one l hl g b,
    ← PlanarTnLemmas.xorSum_one l hl g c, ← PlanarTnLemmas.xorSum_xor, ← PlanarTnLemmas.xorSum_xor]
  apply xorSum_congr
  intro p hp
  rw [hk p hp]
  by_cases h1 : p = a
  · subst h1; simp [hab, hac]
  · by_cases h2 : p = b
    · subst h2; simp [h1, hbc]
    · simp [h1, h2]

/-- the bit of lattice plaquette `q`; `false` outside the lattice -/
def bq (m : ℕ) (B : ℤ × ℤ → Bool) (q : ℤ × ℤ) : Bool := decide (q ∈ plaquetteIndices (LL m)) && B q

/-- the coefficient of a generator -/
def genB (Bx Bz : ℤ × ℤ → Bool) (g : Gen) : Bool := if g.1 then Bz g.2 else Bx g.2

open Qec.Symp in
/-- bits of `Π Sᵢ^βᵢ` at a site with the three neighbouring plaquettes `a, b, c` -/
theorem comb_bits (m : ℕ) (hm : 1 ≤ m) (Bx Bz : ℤ × ℤ → Bool) (s a b c : ℤ × ℤ) (hs : (s.1 + s.2) % 3 ≠ 2)
    (hb : inBounds (LL m) s.1 s.2 = true) (hab : a ≠ b) (hac : a ≠ c) (hbc : b ≠ c)
    (hocc : ∀ p ∈ plaquetteIndices (LL m), occ (plaquetteSites p.1 p.2) s = decide (p = a ∨ p = b ∨ p = c)) :
    xorSum (gens (LL m)) (fun g => genB Bx Bz g && (stabOp (LL m) g).getD (fl s) false)
      = (bq m Bx a ^^ (bq m Bx b ^^ bq m Bx c)) ∧
    xorSum (gens (LL m)) (fun g => genB Bx Bz g && (stabOp (LL m) g).getD (nq (LL m) + fl s) false)
      = (bq m Bz a ^^ (bq m Bz b ^^ bq m Bz c)) := by
  have hodd : Odd3 (LL m) := by unfold Odd3 LL; omega
  have hnd := plaquetteIndices_nodup (LL m)
  have hall : ∀ p ∈ plaquetteIndices (LL m), AllSites (plaquetteSites p.1 p.2) := fun p hp =>
    allSites_plaq p.1 p.2 ((mem_plaquetteIndices _ p).mp hp).2.2.2
  have sx0 : ∀ p ∈ plaquetteIndices (LL m), (stabOp (LL m) (false, p)).getD (fl s) false
      = occ (plaquetteSites p.1 p.2) s := fun p hp => by
    have := getD_siteop_same (LL m) hodd false _ (hall p hp) s hs hb
    simp only [off, Bool.false_eq_true, if_false, Nat.zero_add] at this
    exact this
  have sx1 : ∀ p ∈ plaquetteIndices (LL m), (stabOp (LL m) (true, p)).getD (fl s) false = false := fun p hp => by
    have := getD_siteop_other (LL m) hodd true _ (hall p hp) s hs hb
    simp only [off, Bool.not_true, Bool.false_eq_true, if_false, Nat.zero_add] at this
    exact this
  have sz0 : ∀ p ∈ plaquetteIndices (LL m), (stabOp (LL m) (false, p)).getD (nq (LL m) + fl s) false = false :=
    fun p hp => by
      have := getD_siteop_other (LL m) hodd false _ (hall p hp) s hs hb
      simp only [off, Bool.not_false, if_true] at this
      exact this
  have sz1 : ∀ p ∈ plaquetteIndices (LL m), (stabOp (LL m) (true, p)).getD (nq (LL m) + fl s) false
      = occ (plaquetteSites p.1 p.2) s := fun p hp => by
    have := getD_siteop_same (LL m) hodd true _ (hall p hp) s hs hb
    simp only [off, if_true] at this
    exact this
  have zero : ∀ (l : List (ℤ × ℤ)), xorSum l (fun _ => false) = false := by
    intro l; induction l with
    | nil => rfl
    | cons x l ih => rw [xorSum_cons, ih]; rfl
  unfold gens bq
  simp only [xorSum_append, xorSum_map]
  constructor
  · have h1 : xorSum (plaquetteIndices (LL m))
        (fun p => genB Bx Bz (false, p) && (stabOp (LL m) (false, p)).getD (fl s) false)
        = xorSum (plaquetteIndices (LL m)) (fun p => Bx p && occ (plaquetteSites p.1 p.2) s) :=
      xorSum_congr _ _ _ (fun p hp => by rw [sx0 p hp]; rfl)
    have h2 : xorSum (plaquetteIndices (LL m))
        (fun p => genB Bx Bz (true, p) && (stabOp (LL m) (true, p)).getD (fl s) false) = false :=
      (xorSum_congr _ _ (fun _ => false) (fun p hp => by rw [sx1 p hp, Bool.and_false])).trans (zero _)
    rw [h1, h2, Bool.xor_false]
    exact nb_sum3 _ hnd Bx _ a b c hab hac hbc _ _ _ decide_eq_true_iff decide_eq_true_iff decide_eq_true_iff hocc
  · have h1 : xorSum (plaquetteIndices (LL m))
        (fun p => genB Bx Bz (false, p) && (stabOp (LL m) (false, p)).getD (nq (LL m) + fl s) false) = false :=
      (xorSum_congr _ _ (fun _ => false) (fun p hp => by rw [sz0 p hp, Bool.and_false])).trans (zero _)
    have h2 : xorSum (plaquetteIndices (LL m))
        (fun p => genB Bx Bz (true, p) && (stabOp (LL m) (true, p)).getD (nq (LL m) + fl s) false)
        = xorSum (plaquetteIndices (LL m)) (fun p => Bz p && occ (plaquetteSites p.1 p.2) s) :=
      xorSum_congr _ _ _ (fun p hp => by rw [sz1 p hp]; rfl)
    rw [h1, h2, Bool.false_xor]
    exact nb_sum3 _ hnd Bz _ a b c hab hac hbc _ _ _ decide_eq_true_iff decide_eq_true_iff decide_eq_true_iff hocc

theorem mem_P (m : ℕ) (p : ℤ × ℤ) :
    p ∈ plaquetteIndices (LL m) ↔ 0 ≤ p.2 ∧ p.2 ≤ p.1 ∧ p.1 ≤ 3 * (m : ℤ) ∧ (p.1 + p.2) % 3 = 2 := by
  rw [mem_plaquetteIndices, realP_LL]

theorem toCell_inj (m : ℕ) (p q : ℤ × ℤ) (hp : p ∈ plaquetteIndices (LL m)) (hq : q ∈ plaquetteIndices (LL m))
    (h : toCell p = toCell q) : p = q := by
  rw [mem_P] at hp hq
  simp only [toCell, Prod.mk.injEq] at h
  exact Prod.ext (by omega) (by omega)

/-- the assignment: every leg of plaquette `p` carries the Pauli index `pidx (Bx p) (Bz p)` -/
def tB (m : ℕ) (Bx Bz : ℤ × ℤ → Bool) : Bond → ℕ :=
  assignN (stars m) ((plaquetteIndices (LL m)).map fun p => pidx (Bx p) (Bz p)) (fun _ => 0)

theorem tB_in (m : ℕ) (Bx Bz : ℤ × ℤ → Bool) (b : Bond) (p : ℤ × ℤ) (hp : p ∈ plaquetteIndices (LL m))
    (hb : b ∈ legs m (toCell p)) : tB m Bx Bz b = pidx (bq m Bx p) (bq m Bz p) := by
  unfold tB stars cells
  rw [List.map_map, assignN_map_mem (plaquetteIndices (LL m)) (legs m ∘ toCell) _ _ b p hp hb
    (fun p' hp' hb' => toCell_inj m p' p hp' hp (legs_owner m _ _ b hb' hb
      ((mem_cells m _).mp (List.mem_map.mpr ⟨p', hp', rfl⟩)).2 ((mem_cells m _).mp (List.mem_map.mpr ⟨p, hp, rfl⟩)).2))]
  simp [bq, hp]

theorem tB_out (m : ℕ) (Bx Bz : ℤ × ℤ → Bool) (b : Bond) (q : ℤ × ℤ) (hq : q ∉ plaquetteIndices (LL m))
    (hb : b ∉ (stars m).flatten) : tB m Bx Bz b = pidx (bq m Bx q) (bq m Bz q) := by
  unfold tB
  rw [assignN_not_mem _ _ _ _ hb]
  simp [bq, hq, pidx]

theorem tB_vis (m : ℕ) (Bx Bz : ℤ × ℤ → Bool) : Vis m (tB m Bx Bz) := by
  refine ⟨fun b hb => ?_, fun b hb => assignN_not_mem _ _ _ _ hb⟩
  obtain ⟨l, hl, hbl⟩ := List.mem_flatten.mp hb
  obtain ⟨q, hq, rfl⟩ := List.mem_map.mp hl
  obtain ⟨p, hp, rfl⟩ := List.mem_map.mp hq
  rw [tB_in m Bx Bz b p hp hbl]
  exact pidx_lt _ _

theorem tB_bond (m : ℕ) (Bx Bz : ℤ × ℤ → Bool) (b : Bond) (q : ℤ × ℤ)
    (hin : q ∈ plaquetteIndices (LL m) → b ∈ legs m (toCell q))
    (hout : q ∉ plaquetteIndices (LL m) → b ∉ (stars m).flatten) :
    tB m Bx Bz b = pidx (bq m Bx q) (bq m Bz q) := by
  by_cases hq : q ∈ plaquetteIndices (LL m)
  · exact tB_in m Bx Bz b q hq (hin hq)
  · exact tB_out m Bx Bz b q hq (hout hq)

/-- the four leg indices of a present qubit cell are the Pauli indices of its four neighbouring plaquettes -/
theorem tB_legs (m : ℕ) (Bx Bz : ℤ × ℤ → Bool) (r c : ℕ) (hP : Pc m r c) (hpar : (r + c) % 2 = 0) :
    tB m Bx Bz (v r c) = pidx (bq m Bx (urow r c - 1, (c : ℤ))) (bq m Bz (urow r c - 1, (c : ℤ))) ∧
    tB m Bx Bz (h r (c + 1)) = pidx (bq m Bx (urow r c + 1, (c : ℤ) + 1)) (bq m Bz (urow r c + 1, (c : ℤ) + 1)) ∧
    tB m Bx Bz (v (r + 1) c) = pidx (bq m Bx (urow r c + 2, (c : ℤ))) (bq m Bz (urow r c + 2, (c : ℤ))) ∧
    tB m Bx Bz (h r c) = pidx (bq m Bx (urow r c, (c : ℤ) - 1)) (bq m Bz (urow r c, (c : ℤ) - 1)) := by
  have hu : 2 * urow r c = 3 * (r : ℤ) + (c : ℤ) := by unfold urow; omega
  have hP' := hP
  unfold Pc at hP'
  refine ⟨?_, ?_, ?_, ?_⟩
  · apply tB_bond
    · intro hq
      rw [mem_P] at hq
      simp only at hq
      have e : toCell (urow r c - 1, (c : ℤ)) = (r - 1, c) := by
        simp only [toCell, Prod.mk.injEq]; omega
      rw [e, mem_legs]
      refine Or.inr (Or.inr (Or.inl ⟨?_, by rw [Nat.sub_add_cancel (by omega)]⟩))
      rw [dS, D4_ne_one, Nat.sub_add_cancel (by omega)]
      exact ⟨by unfold Pc; omega, hP⟩
    · intro hq hb
      obtain ⟨a1, a2, a3⟩ := (memS_v m r c).mp hb
      apply hq
      rw [mem_P]; unfold Pc at a3; simp only; omega
  · apply tB_bond
    · intro hq
      rw [mem_P] at hq
      simp only at hq
      have e : toCell (urow r c + 1, (c : ℤ) + 1) = (r, c + 1) := by
        simp only [toCell, Prod.mk.injEq]; omega
      rw [e, mem_legs]
      refine Or.inr (Or.inr (Or.inr ⟨?_, rfl⟩))
      rw [dW, D4_ne_one, Nat.add_sub_cancel]
      exact ⟨by unfold Pc; omega, by omega, hP⟩
    · intro hq hb
      obtain ⟨a1, a2, a3⟩ := (memS_h m r (c + 1)).mp hb
      apply hq
      rw [mem_P]; unfold Pc at a2; simp only; omega
  · apply tB_bond
    · intro hq
      rw [mem_P] at hq
      simp only at hq
      have e : toCell (urow r c + 2, (c : ℤ)) = (r + 1, c) := by
        simp only [toCell, Prod.mk.injEq]; omega
      rw [e, mem_legs]
      refine Or.inl ⟨?_, rfl⟩
      rw [dN, D4_ne_one, Nat.add_sub_cancel]
      exact ⟨by unfold Pc; omega, by omega, hP⟩
    · intro hq hb
      obtain ⟨a1, a2, a3⟩ := (memS_v m (r + 1) c).mp hb
      apply hq
      rw [mem_P]; unfold Pc at a2; simp only; omega
  · apply tB_bond
    · intro hq
      rw [mem_P] at hq
      simp only at hq
      have e : toCell (urow r c, (c : ℤ) - 1) = (r, c - 1) := by
        simp only [toCell, Prod.mk.injEq]; omega
      rw [e, mem_legs]
      refine Or.inr (Or.inl ⟨?_, by rw [Nat.sub_add_cancel (by omega)]⟩)
      rw [dE, D4_ne_one, Nat.sub_add_cancel (by omega)]
      exact ⟨by unfold Pc; omega, hP⟩
    · intro hq hb
      obtain ⟨a1, a2, a3⟩ := (memS_h m r c).mp hb
      apply hq
      rw [mem_P]; unfold Pc at a3; simp only; omega

/-- value of the upper qubit of cell `(r, c)` at the assignment of the bits `Bx, Bz` -/
def upVal (m : ℕ) (d : Dist Int) (f : BVec) (Bx Bz : ℤ × ℤ → Bool) (r c : ℕ) : ℤ :=
  d.at (f.getD (fl (urow r c, (c : ℤ))) false ^^ (bq m Bx (urow r c - 1, (c : ℤ)) ^^
        (bq m Bx (urow r c + 1, (c : ℤ) + 1) ^^ bq m Bx (urow r c, (c : ℤ) - 1))))
    (f.getD (nq (LL m) + fl (urow r c, (c : ℤ))) false ^^ (bq m Bz (urow r c - 1, (c : ℤ)) ^^
        (bq m Bz (urow r c + 1, (c : ℤ) + 1) ^^ bq m Bz (urow r c, (c : ℤ) - 1))))

/-- value of the lower qubit of cell `(r, c)` -/
def loVal (m : ℕ) (d : Dist Int) (f : BVec) (Bx Bz : ℤ × ℤ → Bool) (r c : ℕ) : ℤ :=
  d.at (f.getD (fl (urow r c + 1, (c : ℤ))) false ^^ (bq m Bx (urow r c + 1, (c : ℤ) + 1) ^^
        (bq m Bx (urow r c + 2, (c : ℤ)) ^^ bq m Bx (urow r c, (c : ℤ) - 1))))
    (f.getD (nq (LL m) + fl (urow r c + 1, (c : ℤ))) false ^^ (bq m Bz (urow r c + 1, (c : ℤ) + 1) ^^
        (bq m Bz (urow r c + 2, (c : ℤ)) ^^ bq m Bz (urow r c, (c : ℤ) - 1))))

theorem cw_qubit (m : ℕ) (hm : 1 ≤ m) (d : Dist Int) (f : BVec) (Bx Bz : ℤ × ℤ → Bool) (r c : ℕ) (hP : Pc m r c)
    (hpar : (r + c) % 2 = 0) :
    cw (netF (colorTn (LL m) d f)) (tB m Bx Bz) r c
      = (if (c : ℤ) ≤ urow r c then upVal m d f Bx Bz r c else 1) *
        (if urow r c + 1 ≤ 3 * (m : ℤ) then loVal m d f Bx Bz r c else 1) := by
  obtain ⟨l1, l2, l3, l4⟩ := tB_legs m Bx Bz r c hP hpar
  rw [cw_qcell m hm d f _ (tB_vis m Bx Bz) r c hP hpar, l1, l2, l3, l4]
  unfold qVal fsOf
  congr 1
  · by_cases h : (c : ℤ) ≤ urow r c
    · simp only [if_pos h]
      rw [qNodeValue_bits_u, operatorAt_eq (LL m) f (urow r c, (c : ℤ)), PlanarTnLemmas.xBit_ofBits,
        PlanarTnLemmas.zBit_ofBits]
      rfl
    · simp only [if_neg h]
  · by_cases h : urow r c + 1 ≤ 3 * (m : ℤ)
    · simp only [if_pos h]
      rw [qNodeValue_bits_l, operatorAt_eq (LL m) f (urow r c + 1, (c : ℤ)), PlanarTnLemmas.xBit_ofBits,
        PlanarTnLemmas.zBit_ofBits]
      rfl
    · simp only [if_neg h]

/-- lattice site of the `k`-th qubit (`k = 0` upper, `k = 1` lower) of cell `x` -/
def qsite (y : ℕ × ℕ × ℕ) : ℤ × ℤ := (urow y.2.1 y.2.2 + (y.1 : ℤ), (y.2.2 : ℤ))

/-- the qubit exists -/
def qcond (m : ℕ) (y : ℕ × ℕ × ℕ) : Prop :=
  (y.2.1 + y.2.2) % 2 = 0 ∧ Pc m y.2.1 y.2.2 ∧ (y.1 = 0 → (y.2.2 : ℤ) ≤ urow y.2.1 y.2.2) ∧
    (y.1 = 1 → urow y.2.1 y.2.2 + 1 ≤ 3 * (m : ℤ))
instance (m : ℕ) (y : ℕ × ℕ × ℕ) : Decidable (qcond m y) := by unfold qcond; infer_instance

theorem nq_LL (m : ℕ) (hm : 1 ≤ m) : (nq (LL m) : ℤ) = nQubits (LL m) := by
  have hodd : Odd3 (LL m) := by unfold Odd3 LL; omega
  have := (nQubits_eq (LL m) hodd).1
  have hk2 : 0 ≤ (LL m - 1) / 2 := by unfold LL; omega
  have hk : 0 ≤ ((LL m - 1) / 2) * ((LL m - 1) / 2) := Int.mul_nonneg hk2 hk2
  unfold nq; omega

theorem prod_sites (m : ℕ) (hm : 1 ≤ m) (φ : ℕ → ℤ) :
    ∏ c ∈ range (3 * m + 1), ∏ r ∈ range (2 * m + 1),
        (if (r + c) % 2 = 1 then 1 else
          (if Pc m r c ∧ (c : ℤ) ≤ urow r c then φ (fl (urow r c, (c : ℤ))) else 1) *
          (if Pc m r c ∧ urow r c + 1 ≤ 3 * (m : ℤ) then φ (fl (urow r c + 1, (c : ℤ))) else 1))
      = ∏ q ∈ range (nq (LL m)), φ q := by
  have hodd : Odd3 (LL m) := by unfold Odd3 LL; omega
  have hnq := nq_LL m hm
  have h2 : ∀ g : ℕ → ℤ, ∏ k ∈ range 2, g k = g 0 * g 1 := fun g => by
    rw [prod_range_succ, prod_range_succ, prod_range_zero, one_mul]
  -- the right-hand side over the index set of existing qubits
  have hR : ∏ q ∈ range (nq (LL m)), φ q
      = ∏ y ∈ (range 2 ×ˢ (range (2 * m + 1) ×ˢ range (3 * m + 1))).filter (qcond m), φ (fl (qsite y)) := by
    symm
    apply prod_nbij (fun y => fl (qsite y))
    · intro y hy
      simp only [mem_filter, mem_product, mem_range, qcond, Pc] at hy
      obtain ⟨⟨h1, h2, h3⟩, h4, h5, h6, h7⟩ := hy
      have hu : 2 * urow y.2.1 y.2.2 = 3 * (y.2.1 : ℤ) + (y.2.2 : ℤ) := by unfold urow; omega
      rw [mem_range]
      apply fl_lt (LL m) hodd
      · simp only [qsite]; omega
      · rw [inBounds_iff, bound_LL]; simp only [qsite]; omega
    · intro y hy y' hy' he
      simp only [coe_filter, mem_product, mem_range, Set.mem_setOf_eq, qcond, Pc] at hy hy'
      obtain ⟨⟨h1, h2, h3⟩, h4, h5, h6, h7⟩ := hy
      obtain ⟨⟨h1', h2', h3'⟩, h4', h5', h6', h7'⟩ := hy'
      have hu : 2 * urow y.2.1 y.2.2 = 3 * (y.2.1 : ℤ) + (y.2.2 : ℤ) := by unfold urow; omega
      have hu' : 2 * urow y'.2.1 y'.2.2 = 3 * (y'.2.1 : ℤ) + (y'.2.2 : ℤ) := by unfold urow; omega
      have := fl_inj (LL m) hodd (qsite y') (qsite y) (by simp only [qsite]; omega)
        (by rw [inBounds_iff, bound_LL]; simp only [qsite]; omega) (by simp only [qsite]; omega)
        (by rw [inBounds_iff, bound_LL]; simp only [qsite]; omega) he
      simp only [qsite, Prod.mk.injEq] at this
      obtain ⟨k, i, c⟩ := y
      obtain ⟨k', i', c'⟩ := y'
      simp only at *
      simp only [Prod.mk.injEq]
      omega
    · intro q hq
      simp only [coe_range, Set.mem_Iio] at hq
      obtain ⟨r, c, hs, he⟩ := flatten_surj (LL m) hodd (q : ℤ) (by omega) (by omega)
      unfold SiteIn at hs
      rw [bound_LL] at hs
      obtain ⟨k, hk⟩ : ∃ k : ℕ, (k : ℤ) = (r + c) % 3 := ⟨((r + c) % 3).toNat, by omega⟩
      obtain ⟨i, hi⟩ : ∃ i : ℕ, 3 * (i : ℤ) = 2 * r - c - 2 * (k : ℤ) := ⟨((2 * r - c - 2 * (k : ℤ)) / 3).toNat, by omega⟩
      obtain ⟨c', hc'⟩ : ∃ c' : ℕ, (c' : ℤ) = c := ⟨c.toNat, by omega⟩
      have hu : urow i c' = r - (k : ℤ) := by unfold urow; omega
      refine ⟨(k, i, c'), ?_, ?_⟩
      · simp only [coe_filter, mem_product, mem_range, Set.mem_setOf_eq, qcond, Pc, hu]
        omega
      · show fl (qsite (k, i, c')) = q
        have : qsite (k, i, c') = (r, c) := by
          simp only [qsite, hu, Prod.mk.injEq]; omega
        rw [this]; unfold fl; simp only; omega
    · intro y _; rfl
  rw [hR, prod_filter, prod_product, h2, prod_product, prod_product]
  conv_lhs => rw [prod_comm]
  rw [← prod_mul_distrib]
  apply prod_congr rfl; intro r hr
  rw [← prod_mul_distrib]
  apply prod_congr rfl; intro c hc
  by_cases hpar : (r + c) % 2 = 1
  · rw [if_pos hpar, if_neg (by unfold qcond; simp only; omega), if_neg (by unfold qcond; simp only; omega), one_mul]
  · rw [if_neg hpar]
    congr 1
    · apply if_congr _ _ rfl
      · unfold qcond; simp only; constructor
        · rintro ⟨a, b⟩; exact ⟨by omega, a, fun _ => b, fun hh => by omega⟩
        · rintro ⟨_, a, b, _⟩; exact ⟨a, b trivial⟩
      · simp [qsite]
    · apply if_congr _ _ rfl
      · unfold qcond; simp only; constructor
        · rintro ⟨a, b⟩; exact ⟨by omega, a, fun hh => by omega, fun _ => b⟩
        · rintro ⟨_, a, _, b⟩; exact ⟨a, b trivial⟩
      · simp [qsite]

/-- the combination `Π Sᵢ^βᵢ` of the generators with the coefficients `Bx` (X-type) and `Bz` (Z-type) -/
def combB (m : ℕ) (Bx Bz : ℤ × ℤ → Bool) : BVec :=
  Symp.xorComb (2 * nq (LL m)) ((gens (LL m)).map (genB Bx Bz)) ((gens (LL m)).map (stabOp (LL m)))

theorem combB_length (m : ℕ) (Bx Bz : ℤ × ℤ → Bool) : (combB m Bx Bz).length = 2 * nq (LL m) := by
  unfold combB
  apply Symp.xorComb_length
  intro g hg
  obtain ⟨x, _, rfl⟩ := List.mem_map.mp hg
  exact stabOp_length _ x

theorem getD_combB (m : ℕ) (Bx Bz : ℤ × ℤ → Bool) (j : ℕ) :
    (combB m Bx Bz).getD j false
      = Symp.xorSum (gens (LL m)) (fun g => genB Bx Bz g && (stabOp (LL m) g).getD j false) := by
  unfold combB
  exact Symp.getD_xorComb_map _ _ _ _ (fun p _ => stabOp_length _ p) j

theorem phi_upper (m : ℕ) (hm : 1 ≤ m) (d : Dist Int) (f : BVec) (hf : f.length = 2 * nq (LL m))
    (Bx Bz : ℤ × ℤ → Bool) (r c : ℕ) (hP : Pc m r c) (hpar : (r + c) % 2 = 0) (h : (c : ℤ) ≤ urow r c) :
    d.at ((xorV f (combB m Bx Bz)).getD (fl (urow r c, (c : ℤ))) false)
        ((xorV f (combB m Bx Bz)).getD (nq (LL m) + fl (urow r c, (c : ℤ))) false) = upVal m d f Bx Bz r c := by
  have hu : 2 * urow r c = 3 * (r : ℤ) + (c : ℤ) := by unfold urow; omega
  unfold Pc at hP
  have hl := hf.trans (combB_length m Bx Bz).symm
  have hb := comb_bits m hm Bx Bz (urow r c, (c : ℤ)) (urow r c - 1, (c : ℤ)) (urow r c + 1, (c : ℤ) + 1)
    (urow r c, (c : ℤ) - 1) (by simp only; omega) (by rw [inBounds_iff, bound_LL]; simp only; omega)
    (by intro hh; injection hh; omega) (by intro hh; injection hh; omega) (by intro hh; injection hh; omega)
    (fun p hp => by
      rw [mem_P] at hp
      rw [occ_plaq]
      apply decide_eq_decide.mpr
      simp only [Prod.ext_iff]
      omega)
  unfold upVal
  rw [Symp.getD_xorV _ _ hl, Symp.getD_xorV _ _ hl, getD_combB, getD_combB, hb.1, hb.2]

theorem phi_lower (m : ℕ) (hm : 1 ≤ m) (d : Dist Int) (f : BVec) (hf : f.length = 2 * nq (LL m))
    (Bx Bz : ℤ × ℤ → Bool) (r c : ℕ) (hP : Pc m r c) (hpar : (r + c) % 2 = 0) (h : urow r c + 1 ≤ 3 * (m : ℤ)) :
    d.at ((xorV f (combB m Bx Bz)).getD (fl (urow r c + 1, (c : ℤ))) false)
        ((xorV f (combB m Bx Bz)).getD (nq (LL m) + fl (urow r c + 1, (c : ℤ))) false) = loVal m d f Bx Bz r c := by
  have hu : 2 * urow r c = 3 * (r : ℤ) + (c : ℤ) := by unfold urow; omega
  unfold Pc at hP
  have hl := hf.trans (combB_length m Bx Bz).symm
  have hb := comb_bits m hm Bx Bz (urow r c + 1, (c : ℤ)) (urow r c + 1, (c : ℤ) + 1) (urow r c + 2, (c : ℤ))
    (urow r c, (c : ℤ) - 1) (by simp only; omega) (by rw [inBounds_iff, bound_LL]; simp only; omega)
    (by intro hh; injection hh; omega) (by intro hh; injection hh; omega) (by intro hh; injection hh; omega)
    (fun p hp => by
      rw [mem_P] at hp
      rw [occ_plaq]
      apply decide_eq_decide.mpr
      simp only [Prod.ext_iff]
      omega)
  unfold loVal
  rw [Symp.getD_xorV _ _ hl, Symp.getD_xorV _ _ hl, getD_combB, getD_combB, hb.1, hb.2]

/-- **every qubit tensor entry indexed by the Pauli indices of the adjacent plaquettes is `dist((f · Π Sᵢ^βᵢ)_q)`**, hence
    the product of the qubit tensors at the assignment of the bits `βx ++ βz` is the probability of `f · Π Sᵢ^βᵢ` -/
theorem qubitProd_assign (m : ℕ) (hm : 1 ≤ m) (d : Dist Int) (f : BVec) (hf : f.length = 2 * nq (LL m))
    (βx βz : List Bool) (hβx : βx.length = (stars m).length) (hβz : βz.length = (stars m).length) :
    qubitProd m d f (assignN (stars m) (List.zipWith pidx βx βz) (fun _ => 0))
      = weight d (xorV f (Coset.xorComb f.length (βx ++ βz) (stabilizers (LL m)))) := by
  have hlen : (stars m).length = (plaquetteIndices (LL m)).length := by unfold stars cells; simp
  obtain ⟨Bx, rfl⟩ := exists_map_eq (plaquetteIndices (LL m)) (plaquetteIndices_nodup _) βx (by rw [hβx, hlen])
  obtain ⟨Bz, rfl⟩ := exists_map_eq (plaquetteIndices (LL m)) (plaquetteIndices_nodup _) βz (by rw [hβz, hlen])
  have hz : ∀ l : List (ℤ × ℤ), List.zipWith pidx (l.map Bx) (l.map Bz) = l.map (fun p => pidx (Bx p) (Bz p)) := by
    intro l; induction l with
    | nil => rfl
    | cons x l ih => simp only [List.map_cons, List.zipWith_cons_cons, ih]
  rw [hz]
  change qubitProd m d f (tB m Bx Bz) = _
  have hcomb : Coset.xorComb f.length ((plaquetteIndices (LL m)).map Bx ++ (plaquetteIndices (LL m)).map Bz)
      (stabilizers (LL m)) = combB m Bx Bz := by
    rw [PlanarTnLemmas.xorComb_eq, hf, stabilizers_eq_map]
    unfold combB gens
    simp only [List.map_append, List.map_map]
    rfl
  rw [hcomb, weight_eq_prod d (nq (LL m)) _ (xorV_len hf (combB_length m Bx Bz)), ← prod_sites m hm]
  unfold qubitProd
  apply prod_congr rfl; intro c hc
  apply prod_congr rfl; intro r hr
  have hc := Nat.lt_succ_iff.mp (mem_range.mp hc)
  have hr := Nat.lt_succ_iff.mp (mem_range.mp hr)
  by_cases hpar : (r + c) % 2 = 1
  · rw [if_pos hpar, if_pos hpar]
  · rw [if_neg hpar, if_neg hpar]
    by_cases hP : Pc m r c
    · rw [cw_qubit m hm d f Bx Bz r c hP (by omega)]
      congr 1
      · by_cases h : (c : ℤ) ≤ urow r c
        · rw [if_pos h, if_pos ⟨hP, h⟩]
          exact (phi_upper m hm d f hf Bx Bz r c hP (by omega) h).symm
        · rw [if_neg h, if_neg (fun hh => h hh.2)]
      · by_cases h : urow r c + 1 ≤ 3 * (m : ℤ)
        · rw [if_pos h, if_pos ⟨hP, h⟩]
          exact (phi_lower m hm d f hf Bx Bz r c hP (by omega) h).symm
        · rw [if_neg h, if_neg (fun hh => h hh.2)]
    · rw [cw_absent m d f _ (tB_vis m Bx Bz) r c hr hc hP, if_neg (fun hh => hP hh.1), if_neg (fun hh => hP hh.1),
        mul_one]

/-- **the colour network contracts to the coset probability** (as `exactValue`, the literal index sum) -/
theorem exactValue_colorTn_eq_cosetProb (m : ℕ) (hm : 1 ≤ m) (d : Dist Int) (f : BVec)
    (hf : f.length = 2 * (nQubits (LL m)).toNat) :
    exactValue (colorTn (LL m) d f) = some (cosetProb d (stabilizers (LL m)) f) := by
  rw [exactValue_colorTn m hm d f]
  have hlen : (stars m).length = (plaquetteIndices (LL m)).length := by unfold stars cells; simp
  have hf' : f.length = 2 * nq (LL m) := hf
  have key := sumB4_eq_span f.length (stars m)
    ((plaquetteIndices (LL m)).map fun rc => sites (LL m) P1.X (identity (LL m)) (plaquetteSites rc.1 rc.2))
    ((plaquetteIndices (LL m)).map fun rc => sites (LL m) P1.Z (identity (LL m)) (plaquetteSites rc.1 rc.2))
    (by rw [hlen, List.length_map]) (by rw [hlen, List.length_map]) (qubitProd m d f)
    (fun g => weight d (xorV f g)) (fun _ => 0)
    (fun βx βz h1 h2 => by
      have := qubitProd_assign m hm d f hf' βx βz h1 h2
      unfold stabilizers at this
      exact this)
  rw [key]
  unfold cosetProb stabilizers
  rfl

/-! ### 7. the decoder's evaluation -/

/-- `mps2d.contract(tn, stop=1)` is the first column with multiplier 1 -/
theorem contract_first_col (tn : Net) (hc : 2 ≤ tn.ncols) :
    contract tn none false none (some ((1 : ℕ) : ℤ)) none none = .ok (.part (some (tn.col 0)) 1) := by
  have hfull : (tn.ncols == 1) = false := by simp; omega
  simp only [contract, maskOK, Bool.not_true, Bool.false_eq_true, if_false, colRange_stop tn.ncols 1 (by omega),
    contractCols, List.range_succ, List.range_zero, List.nil_append, List.map_cons, List.map_nil, Option.map_none,
    List.length_cons, List.length_nil, sweep, finish, Nat.zero_add, hfull]

/-- the decoder's evaluation with ket and bra from the same network is the split-and-recombine value at column 1 -/
theorem cosetValue_self (tn : Net) (hc : 2 ≤ tn.ncols) (x : ℤ) (h : splitValue tn 1 none false none = .ok x) :
    cosetValue tn tn = .ok x := by
  unfold splitValue at h
  rw [contract_first_col tn hc] at h
  have e : ((1 : ℕ) : ℤ) - 1 = 0 := by norm_num
  rw [e] at h
  unfold cosetValue
  cases hr : contract tn none false (some (-1)) (some 0) (some (-1)) none with
  | error err => rw [hr] at h; simp [bind, Except.bind] at h
  | ok res =>
    rw [hr] at h
    cases res with
    | scalar v => simp [bind, Except.bind, throw, throwThe, MonadExceptOf.throw] at h
    | part r mult =>
      cases r with
      | none => simp [bind, Except.bind, throw, throwThe, MonadExceptOf.throw] at h
      | some ket =>
        simp only [bind, Except.bind] at h
        cases hip : innerProduct (tn.col 0) ket with
        | error err => rw [hip] at h; simp at h
        | ok ip =>
          rw [hip] at h
          simp only [pure, Except.pure, Except.ok.injEq, mul_one] at h
          simp only [hip, ← h]

end Qec.Color666TnLemmas








