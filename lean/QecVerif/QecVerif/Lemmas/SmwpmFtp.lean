/-
  Helper lemmas for Props/C03/Smwpm.lean — the length of the recovery returned by the modelled symmetry-matching
  decoders (`Smwpm.decode`, `Smwpm.Toric.decode` of Model/Smwpm.lean): whenever the model returns, the recovery is a
  bsf vector on the code's qubits (`2 · n` bits), whatever the matchings are.
-/
import QecVerif.Lemmas.SmwpmFinal
import QecVerif.Lemmas.SmwpmToric
import QecVerif.Lemmas.Lattice.RotatedToricCode
namespace Qec.SmwpmL
open Qec Qec.Smwpm Qec.Dec

/-! ### rotated planar -/

theorem pathOp_length (R C : Int) (a b : Idx2) (o : BVec) (h : pathOp R C a b = .ok o) :
    o.length = 2 * RotatedPlanarCode.nq R C := by
  unfold pathOp at h
  split at h
  · cases h
  · split at h
    · cases h
    · cases h; exact pathOpT_length R C a b

theorem applyPairs_length (R C : Int) (ps : List (TIdx × TIdx)) (v r : BVec)
    (hv : v.length = 2 * RotatedPlanarCode.nq R C) (h : applyPairs R C ps v = .ok r) :
    r.length = 2 * RotatedPlanarCode.nq R C := by
  induction ps generalizing v with
  | nil => unfold applyPairs at h; cases h; exact hv
  | cons x ps ih =>
    obtain ⟨a, b⟩ := x
    unfold applyPairs at h
    cases ho : pathOp R C (sp a) (sp b) with
    | error e => rw [ho] at h; cases h
    | ok o =>
      rw [ho] at h
      have hl := pathOp_length R C _ _ o ho
      exact ih (xorV v o) (by rw [xorV_length _ _ (by rw [hv, hl]), hv]) h

/-- whenever the modelled `decode_ftp` of `RotatedPlanarSMWPMDecoder` returns, the recovery has `2 · n` bits -/
theorem decode_length (R C : Int) (T : Nat) (ms : List (Node × Node)) (cms : List (Nat × Nat)) (r : BVec)
    (h : decode R C T ms cms = .ok r) : r.length = 2 * RotatedPlanarCode.nq R C := by
  have hid := RotatedPlanarCode.identity_length R C
  unfold decode at h
  cases hc : clusters ms with
  | error e => rw [hc] at h; cases h
  | ok cls =>
    rw [hc] at h; simp only at h
    cases h1 : recovery R C cls with
    | error e => rw [h1] at h; cases h
    | ok r1 =>
      rw [h1] at h; simp only at h
      cases hn : clusterNodes R C T cls with
      | error e => rw [hn] at h; cases h
      | ok ns =>
        rw [hn] at h; simp only at h
        cases h2 : clusterRecovery R C ns cms with
        | error e => rw [h2] at h; cases h
        | ok r2 =>
          rw [h2] at h; cases h
          have l1 : r1.length = 2 * RotatedPlanarCode.nq R C := by
            unfold recovery at h1
            split at h1
            · cases h1
            · exact applyPairs_length R C _ _ _ hid h1
          have l2 : r2.length = 2 * RotatedPlanarCode.nq R C := by
            unfold clusterRecovery at h2
            split at h2
            · cases h2
            · exact applyPairs_length R C _ _ _ hid h2
          rw [xorV_length _ _ (by rw [xorV_length _ _ (by rw [hid, l1]), hid, l2]),
            xorV_length _ _ (by rw [hid, l1]), hid]

/-! ### rotated toric -/
namespace T

theorem pathOp_length (R C : Int) (a b : Idx2) (o : BVec) (h : Smwpm.Toric.pathOp R C a b = .ok o) :
    o.length = 2 * RotatedToricCode.nq R C := by
  unfold Smwpm.Toric.pathOp at h
  split at h
  · rename_i v hv
    cases h
    unfold RotatedToric.path at hv
    split at hv
    · cases hv; exact RotatedToricCode.identity_length R C
    · split at hv
      · cases hv
      · cases hv; exact RotatedToricCode.siteop_length R C _ _
  · cases h

theorem applyPairs_length (R C : Int) (ps : List (TIdx × TIdx)) (v r : BVec)
    (hv : v.length = 2 * RotatedToricCode.nq R C) (h : Smwpm.Toric.applyPairs R C ps v = .ok r) :
    r.length = 2 * RotatedToricCode.nq R C := by
  induction ps generalizing v with
  | nil => unfold Smwpm.Toric.applyPairs at h; cases h; exact hv
  | cons x ps ih =>
    obtain ⟨a, b⟩ := x
    unfold Smwpm.Toric.applyPairs at h
    cases ho : Smwpm.Toric.pathOp R C (sp a) (sp b) with
    | error e => rw [ho] at h; cases h
    | ok o =>
      rw [ho] at h
      have hl := pathOp_length R C _ _ o ho
      exact ih (xorV v o) (by rw [xorV_length _ _ (by rw [hv, hl]), hv]) h

/-- whenever the modelled `decode_ftp` of `RotatedToricSMWPMDecoder` returns, the recovery has `2 · n` bits -/
theorem decode_length (R C : Int) (ms : List (Node × Node)) (cms : List (Nat × Nat)) (r : BVec)
    (h : Smwpm.Toric.decode R C ms cms = .ok r) : r.length = 2 * RotatedToricCode.nq R C := by
  have hid := RotatedToricCode.identity_length R C
  unfold Smwpm.Toric.decode at h
  cases hc : clusters ms with
  | error e => rw [hc] at h; cases h
  | ok cls =>
    rw [hc] at h; simp only at h
    cases h1 : Smwpm.Toric.recovery R C cls with
    | error e => rw [h1] at h; cases h
    | ok r1 =>
      rw [h1] at h; simp only at h
      cases hn : Smwpm.Toric.clusterNodes cls with
      | error e => rw [hn] at h; cases h
      | ok ns =>
        rw [hn] at h; simp only at h
        cases h2 : Smwpm.Toric.clusterRecovery R C ns cms with
        | error e => rw [h2] at h; cases h
        | ok r2 =>
          rw [h2] at h; cases h
          have l1 : r1.length = 2 * RotatedToricCode.nq R C := by
            unfold Smwpm.Toric.recovery at h1
            split at h1
            · cases h1
            · exact applyPairs_length R C _ _ _ hid h1
          have l2 : r2.length = 2 * RotatedToricCode.nq R C := by
            unfold Smwpm.Toric.clusterRecovery at h2
            split at h2
            · cases h2
            · exact applyPairs_length R C _ _ _ hid h2
          rw [xorV_length _ _ (by rw [xorV_length _ _ (by rw [hid, l1]), hid, l2]),
            xorV_length _ _ (by rw [hid, l1]), hid]

end T
end Qec.SmwpmL
