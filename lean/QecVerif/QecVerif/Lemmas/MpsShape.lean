/-
  Helper lemmas for C12 (shape model of qecsim.tensortools.mps, Model/MpsShape.lean).
-/
import QecVerif.Model.MpsShape
namespace Qec.MpsLemmas
open Qec.Mps

/-! ### inversion of one sweep step -/

theorem sweep_nil_ok {p : Params} {mk : Nat → Bool} {row : Nat} {cur : Shape} {orc : List Orc} {r : SweepRes}
    (h : sweep p mk row cur [] orc = .ok r) :
    (p.normalise = false ∧ r = ⟨.done [cur], [], orc⟩) ∨
    (p.normalise = true ∧ ∃ x orc', orc = .last x :: orc' ∧
      ((x = 0 ∧ r = ⟨.zero, [], orc'⟩) ∨ (x ≠ 0 ∧ r = ⟨.done [cur], [], orc'⟩))) := by
  unfold sweep at h
  split at h
  · right
    refine ⟨by assumption, ?_⟩
    split at h
    · rename_i x orc'
      refine ⟨x, orc', rfl, ?_⟩
      split at h
      · left; exact ⟨by assumption, by cases h; rfl⟩
      · right; exact ⟨by assumption, by cases h; rfl⟩
    · cases h
  · left
    refine ⟨by simpa using ‹¬ p.normalise = true›, by cases h; rfl⟩

theorem sweep_cons_ok {p : Params} {mk : Nat → Bool} {row : Nat} {cur nxt : Shape} {more : List Shape}
    {orc : List Orc} {r : SweepRes}
    (h : sweep p mk row cur (nxt :: more) orc = .ok r) :
    ∃ o orc', orc = o :: orc' ∧
      ((stepDecide p (p.qr || !(mk row)) (cur.n * cur.e * cur.w) cur.s o = .ok .zero ∧
          r = ⟨.zero, [⟨row, p.qr || !(mk row), cur.n * cur.e * cur.w, cur.s, none⟩], orc'⟩) ∨
       (∃ k r', stepDecide p (p.qr || !(mk row)) (cur.n * cur.e * cur.w) cur.s o = .ok (.keep k) ∧
          bondClash cur.s nxt.n = false ∧
          sweep p mk (row + 1) { nxt with n := k } more orc' = .ok r' ∧
          r = ⟨r'.flow.cons { cur with s := k },
               ⟨row, p.qr || !(mk row), cur.n * cur.e * cur.w, cur.s, some k⟩ :: r'.trace, r'.rest⟩)) := by
  unfold sweep at h
  simp only at h
  split at h
  · cases h
  · rename_i o orc'
    refine ⟨o, orc', rfl, ?_⟩
    split at h
    · cases h
    · left
      exact ⟨by assumption, by cases h; rfl⟩
    · rename_i k hk
      right
      split at h
      · cases h
      · split at h
        · cases h
        · rename_i r' hr'
          exact ⟨k, r', hk, by simpa using ‹¬ bondClash cur.s nxt.n = true›, hr', by cases h; rfl⟩

/-! ### facts about one decomposition -/

theorem keptSigmas_length_le_chi {c : Nat} (hc : c ≠ 0) (tol : Option Rat) (sig : List Rat) :
    (keptSigmas (some c) tol sig).length ≤ c := by
  unfold keptSigmas
  simp only [bne_iff_ne, ne_eq, hc, not_false_eq_true, ↓reduceIte, List.length_take]
  exact Nat.min_le_left _ _

theorem keptSigmas_length_le (chi : Option Nat) (tol : Option Rat) (sig : List Rat) :
    (keptSigmas chi tol sig).length ≤ sig.length := by
  unfold keptSigmas
  have h1 : ∀ t : Rat, (sig.filter (fun x => decide (t < x / sig.headD 0))).length ≤ sig.length :=
    fun t => List.length_filter_le _ _
  cases chi <;> cases tol <;> simp only <;> (repeat' split) <;>
    first
      | exact Nat.le_refl _
      | exact h1 _
      | (simp only [List.length_take]; exact Nat.le_trans (Nat.min_le_right _ _) (h1 _))
      | (simp only [List.length_take]; exact Nat.min_le_right _ _)

/-- NO singular value survives `s = s/s[0]; s = s[s > tol] if tol; s = s[:chi] if chi` exactly when there was none to
    begin with, or tol is on and no normalised value exceeds it (σ/σ₀ ≤ 1, so: tol ≥ 1, or σ₀ < 0 never met in
    practice); chi alone never empties the list -/
theorem keptSigmas_length_eq_zero_iff (chi : Option Nat) (tol : Option Rat) (sig : List Rat) :
    (keptSigmas chi tol sig).length = 0 ↔
      sig = [] ∨ ∃ t, tol = some t ∧ t ≠ 0 ∧ ∀ x ∈ sig, ¬ t < x / sig.headD 0 := by
  have htake : ∀ (c : Nat) (l : List Rat), c ≠ 0 → ((l.take c).length = 0 ↔ l = []) := by
    intro c l hc
    rw [List.length_take]
    cases l with
    | nil => simp
    | cons a l => simp only [List.length_cons, reduceCtorEq, iff_false]; omega
  have hfil : ∀ t : Rat, (sig.filter (fun x => decide (t < x / sig.headD 0))) = [] ↔
      ∀ x ∈ sig, ¬ t < x / sig.headD 0 := by
    intro t
    rw [List.filter_eq_nil_iff]
    constructor
    · intro h x hx; simpa using h x hx
    · intro h x hx; simpa using h x hx
  have hnil : sig = [] → ∀ t : Rat, ∀ x ∈ sig, ¬ t < x / sig.headD 0 := by
    intro h t x hx; rw [h] at hx; cases hx
  unfold keptSigmas
  cases tol with
  | none =>
    cases chi with
    | none => simp [List.length_eq_zero_iff]
    | some c =>
      by_cases hc : c = 0
      · simp [hc, List.length_eq_zero_iff]
      · simp only [bne_iff_ne, ne_eq, hc, not_false_eq_true, ↓reduceIte, htake c _ hc]
        simp
  | some t =>
    by_cases ht : t = 0
    · cases chi with
      | none => simp [ht, List.length_eq_zero_iff]
      | some c =>
        by_cases hc : c = 0
        · simp [ht, hc, List.length_eq_zero_iff]
        · simp only [ht, bne_self_eq_false, Bool.false_eq_true, ↓reduceIte, bne_iff_ne, ne_eq, hc,
            not_false_eq_true, htake c _ hc]
          simp
    · have key : (sig.filter (fun x => decide (t < x / sig.headD 0))) = [] ↔
          (sig = [] ∨ ∃ t', some t = some t' ∧ t' ≠ 0 ∧ ∀ x ∈ sig, ¬ t' < x / sig.headD 0) := by
        rw [hfil]
        constructor
        · intro h; exact Or.inr ⟨t, rfl, ht, h⟩
        · rintro (h | ⟨t', ht', _, h⟩)
          · exact hnil h t
          · cases ht'; exact h
      cases chi with
      | none =>
        simp only [bne_iff_ne, ne_eq, ht, not_false_eq_true, ↓reduceIte, List.length_eq_zero_iff]
        exact key
      | some c =>
        by_cases hc : c = 0
        · simp only [bne_iff_ne, ne_eq, ht, not_false_eq_true, ↓reduceIte, hc, not_true_eq_false,
            List.length_eq_zero_iff]
          exact key
        · simp only [bne_iff_ne, ne_eq, ht, not_false_eq_true, ↓reduceIte, hc, htake c _ hc]
          exact key

/-- with tol off (None or 0) a non-empty list of singular values never loses all its entries -/
theorem keptSigmas_length_ne_zero_of_tol_off (chi : Option Nat) (tol : Option Rat) (sig : List Rat)
    (htol : optOnRat tol = false) (hsig : sig ≠ []) : (keptSigmas chi tol sig).length ≠ 0 := by
  intro h
  rcases (keptSigmas_length_eq_zero_iff chi tol sig).mp h with h | ⟨t, rfl, ht, _⟩
  · exact hsig h
  · simp [optOnRat, ht] at htol

theorem stepDecide_keep_le {p : Params} {q : Bool} {rows cols : Nat} {o : Orc} {k : Nat}
    (h : stepDecide p q rows cols o = .ok (.keep k)) : k ≤ min rows cols := by
  unfold stepDecide at h
  split at h
  · split at h
    · split at h
      · cases h
      · cases h; exact Nat.le_refl _
    · cases h
  · split at h
    · cases h
    · split at h
      · cases h
      · split at h
        · cases h
        · split at h
          · cases h
          · cases h; exact Nat.min_le_left _ _
  · cases h

/-- a QR step keeps the full rank min(rows, cols): no truncation -/
theorem stepDecide_qr_keep {p : Params} {rows cols : Nat} {o : Orc} {k : Nat}
    (h : stepDecide p true rows cols o = .ok (.keep k)) : k = min rows cols := by
  unfold stepDecide at h
  split at h
  · simp only [↓reduceIte] at h
    split at h
    · cases h
    · cases h; rfl
  · simp only [↓reduceIte] at h; cases h
  · cases h

/-- an SVD step with chi on keeps at most chi -/
theorem stepDecide_svd_le_chi {p : Params} {rows cols : Nat} {o : Orc} {k c : Nat}
    (hc : p.chi = some c) (hc0 : c ≠ 0)
    (h : stepDecide p false rows cols o = .ok (.keep k)) : k ≤ c := by
  unfold stepDecide at h
  split at h
  · simp at h
  · simp only [Bool.false_eq_true, ↓reduceIte] at h
    split at h
    · cases h
    · split at h
      · cases h
      · split at h
        · cases h
        · cases h
          rw [hc]
          exact Nat.le_trans (Nat.min_le_right _ _) (keptSigmas_length_le_chi hc0 _ _)
  · cases h

/-- an SVD step keeps exactly min(rows, cols, #kept singular values) -/
theorem stepDecide_svd_keep {p : Params} {rows cols : Nat} {o : Orc} {k : Nat}
    (h : stepDecide p false rows cols o = .ok (.keep k)) :
    ∃ sig, o = .svd sig ∧ k = min (min rows cols) (keptSigmas p.chi p.tol sig).length ∧
      (keptSigmas p.chi p.tol sig).length ≠ 0 := by
  unfold stepDecide at h
  split at h
  · simp at h
  · rename_i sig
    simp only [Bool.false_eq_true, ↓reduceIte] at h
    split at h
    · cases h
    · split at h
      · cases h
      · split at h
        · cases h
        · rename_i hne
          cases h; exact ⟨_, rfl, rfl, hne⟩
  · cases h

/-- an SVD step raises the zero flag exactly when σ₀ = 0 or no singular value is kept (tol discards them all) -/
theorem stepDecide_svd_zero_iff {p : Params} {rows cols : Nat} {sig : List Rat} :
    stepDecide p false rows cols (.svd sig) = .ok .zero ↔
      sig ≠ [] ∧ (sig.headD 0 = 0 ∨ (keptSigmas p.chi p.tol sig).length = 0) := by
  cases sig with
  | nil => simp [stepDecide]
  | cons s0 rest =>
    simp only [stepDecide, Bool.false_eq_true, ↓reduceIte, ne_eq, reduceCtorEq, not_false_eq_true, List.headD_cons,
      true_and]
    by_cases h0 : s0 = 0
    · simp [h0]
    · by_cases hk : (keptSigmas p.chi p.tol (s0 :: rest)).length = 0
      · simp [h0, hk]
      · simp [h0, hk]

/-! ### the sweep: shapes -/

/-- consecutive tensors fit: S of each equals N of the next -/
def bondsOk : List Shape → Prop
  | a :: b :: rest => a.s = b.n ∧ bondsOk (b :: rest)
  | _ => True

def phys (t : Shape) : Nat × Nat := (t.e, t.w)

theorem flow_cons_done {t : Shape} {f : Flow} {out : List Shape} (h : f.cons t = .done out) :
    ∃ out', f = .done out' ∧ out = t :: out' := by
  cases f with
  | done o => simp only [Flow.cons] at h; cases h; exact ⟨o, rfl, rfl⟩
  | zero => simp [Flow.cons] at h

theorem sweep_done_shape (p : Params) (mk : Nat → Bool) :
    ∀ (more : List Shape) (row : Nat) (cur : Shape) (orc : List Orc) (r : SweepRes) (out : List Shape),
      sweep p mk row cur more orc = .ok r → r.flow = .done out →
      out.length = more.length + 1 ∧ bondsOk out ∧ out.map phys = (cur :: more).map phys ∧
      out.head?.map Shape.n = some cur.n ∧
      out.getLast?.map Shape.s = (cur :: more).getLast?.map Shape.s := by
  intro more
  induction more with
  | nil =>
    intro row cur orc r out h hf
    rcases sweep_nil_ok h with ⟨_, rfl⟩ | ⟨_, x, orc', _, ⟨_, rfl⟩ | ⟨_, rfl⟩⟩
    · cases hf; simp [bondsOk]
    · cases hf
    · cases hf; simp [bondsOk]
  | cons nxt more ih =>
    intro row cur orc r out h hf
    obtain ⟨o, orc', rfl, hz | ⟨k, r', hk, hb, hr', rfl⟩⟩ := sweep_cons_ok h
    · rw [hz.2] at hf; cases hf
    · obtain ⟨out', hf', rfl⟩ := flow_cons_done hf
      obtain ⟨hl, hbo, hp, hh, hlast⟩ := ih _ _ _ _ _ hr' hf'
      refine ⟨by simp [hl], ?_, ?_, by simp, ?_⟩
      · cases out' with
        | nil => simp at hl
        | cons b rest =>
          simp only [List.head?_cons, Option.map_some, Option.some.injEq] at hh
          exact ⟨hh.symm, hbo⟩
      · simp only [List.map_cons, hp, phys]
      · cases out' with
        | nil => simp at hl
        | cons b rest =>
          rw [List.getLast?_cons_cons, hlast, List.getLast?_cons_cons]
          cases more <;> simp

/-- with every visited site decomposed by SVD and chi = c on, every bond produced is ≤ c -/
theorem sweep_inner_le (p : Params) (mk : Nat → Bool) (c : Nat) (hc : p.chi = some c) (hc0 : c ≠ 0)
    (hq : p.qr = false) (hm : ∀ i, mk i = true) :
    ∀ (more : List Shape) (row : Nat) (cur : Shape) (orc : List Orc) (r : SweepRes) (out : List Shape),
      sweep p mk row cur more orc = .ok r → r.flow = .done out → ∀ t ∈ out.dropLast, t.s ≤ c := by
  intro more
  induction more with
  | nil =>
    intro row cur orc r out h hf
    rcases sweep_nil_ok h with ⟨_, rfl⟩ | ⟨_, x, orc', _, ⟨_, rfl⟩ | ⟨_, rfl⟩⟩
    · cases hf; simp
    · cases hf
    · cases hf; simp
  | cons nxt more ih =>
    intro row cur orc r out h hf
    obtain ⟨o, orc', rfl, hz | ⟨k, r', hk, hb, hr', rfl⟩⟩ := sweep_cons_ok h
    · rw [hz.2] at hf; cases hf
    · obtain ⟨out', hf', rfl⟩ := flow_cons_done hf
      have hk' : k ≤ c := by
        rw [hq, hm] at hk
        exact stepDecide_svd_le_chi hc hc0 hk
      have ih' := ih _ _ _ _ _ hr' hf'
      cases out' with
      | nil => simp
      | cons b rest =>
        intro t ht
        rw [List.dropLast_cons_cons] at ht
        rcases List.mem_cons.mp ht with rfl | ht
        · exact hk'
        · exact ih' t ht

/-! ### the sweep: trace (mask, zero flag) -/

theorem sweep_trace_spec (p : Params) (mk : Nat → Bool) :
    ∀ (more : List Shape) (row : Nat) (cur : Shape) (orc : List Orc) (r : SweepRes),
      sweep p mk row cur more orc = .ok r →
      ∀ st ∈ r.trace, row ≤ st.row ∧ st.row < row + more.length ∧
        st.isQr = (p.qr || !(mk st.row)) ∧
        (st.isQr = true → ∀ k, st.kept = some k → k = min st.rows st.cols) ∧
        (∀ k, st.kept = some k → k ≤ min st.rows st.cols) ∧
        (st.isQr = false → ∀ c, p.chi = some c → c ≠ 0 → ∀ k, st.kept = some k → k ≤ c) := by
  intro more
  induction more with
  | nil =>
    intro row cur orc r h st hst
    rcases sweep_nil_ok h with ⟨_, rfl⟩ | ⟨_, x, orc', _, ⟨_, rfl⟩ | ⟨_, rfl⟩⟩ <;> simp at hst
  | cons nxt more ih =>
    intro row cur orc r h st hst
    obtain ⟨o, orc', rfl, ⟨_, rfl⟩ | ⟨k, r', hk, hb, hr', rfl⟩⟩ := sweep_cons_ok h
    · simp only [List.mem_singleton] at hst
      subst hst
      simp
    · rcases List.mem_cons.mp hst with rfl | hst
      · refine ⟨Nat.le_refl _, by simp, rfl, ?_, ?_, ?_⟩
        · intro hq k' hk'
          simp only [Option.some.injEq] at hk'
          subst hk'
          simp only at hq
          rw [hq] at hk
          exact stepDecide_qr_keep hk
        · intro k' hk'
          simp only [Option.some.injEq] at hk'
          subst hk'
          exact stepDecide_keep_le hk
        · intro hq c hc hc0 k' hk'
          simp only [Option.some.injEq] at hk'
          subst hk'
          simp only at hq
          rw [hq] at hk
          exact stepDecide_svd_le_chi hc hc0 hk
      · obtain ⟨h1, h2, h3⟩ := ih _ _ _ _ hr' st hst
        refine ⟨by omega, by simp only [List.length_cons]; omega, h3⟩

/-- a step that does not raise the zero flag keeps at least rank 1 (for a non-empty matrix): QR keeps min(rows, cols),
    SVD keeps min(rows, cols, #kept) with #kept ≠ 0 — the tol that discards everything is a zero exit -/
theorem stepDecide_keep_pos {p : Params} {q : Bool} {rows cols : Nat} {o : Orc} {k : Nat}
    (h : stepDecide p q rows cols o = .ok (.keep k)) (hr : 0 < rows) (hc : 0 < cols) : 0 < k := by
  cases q with
  | true => rw [stepDecide_qr_keep h]; omega
  | false =>
    obtain ⟨sig, _, hk, hne⟩ := stepDecide_svd_keep h
    rw [hk]; omega

theorem sweep_trace_pos (p : Params) (mk : Nat → Bool) :
    ∀ (more : List Shape) (row : Nat) (cur : Shape) (orc : List Orc) (r : SweepRes),
      sweep p mk row cur more orc = .ok r →
      ∀ st ∈ r.trace, ∀ k, st.kept = some k → 0 < st.rows → 0 < st.cols → 0 < k := by
  intro more
  induction more with
  | nil =>
    intro row cur orc r h st hst
    rcases sweep_nil_ok h with ⟨_, rfl⟩ | ⟨_, x, orc', _, ⟨_, rfl⟩ | ⟨_, rfl⟩⟩ <;> simp at hst
  | cons nxt more ih =>
    intro row cur orc r h st hst
    obtain ⟨o, orc', rfl, ⟨_, rfl⟩ | ⟨k, r', hk, hb, hr', rfl⟩⟩ := sweep_cons_ok h
    · simp only [List.mem_singleton] at hst
      subst hst
      intro k hk; cases hk
    · rcases List.mem_cons.mp hst with rfl | hst
      · intro k' hk' hrows hcols
        simp only [Option.some.injEq] at hk'
        subst hk'
        exact stepDecide_keep_pos hk hrows hcols
      · exact ih _ _ _ _ hr' st hst

/-- the zero flag ends the sweep: a step with the flag is the last step, and the flow is `zero` -/
theorem sweep_zero_last (p : Params) (mk : Nat → Bool) :
    ∀ (more : List Shape) (row : Nat) (cur : Shape) (orc : List Orc) (r : SweepRes),
      sweep p mk row cur more orc = .ok r →
      (∀ pre st post, r.trace = pre ++ st :: post → st.kept = none → post = [] ∧ r.flow = .zero) := by
  intro more
  induction more with
  | nil =>
    intro row cur orc r h pre st post htr
    rcases sweep_nil_ok h with ⟨_, rfl⟩ | ⟨_, x, orc', _, ⟨_, rfl⟩ | ⟨_, rfl⟩⟩ <;> simp at htr
  | cons nxt more ih =>
    intro row cur orc r h pre st post htr hk0
    obtain ⟨o, orc', rfl, ⟨_, rfl⟩ | ⟨k, r', hk, hb, hr', rfl⟩⟩ := sweep_cons_ok h
    · cases pre with
      | nil => simp only [List.nil_append, List.cons.injEq] at htr; exact ⟨htr.2.symm, rfl⟩
      | cons a pre' => simp at htr
    · cases pre with
      | nil =>
        simp only [List.nil_append, List.cons.injEq] at htr
        rw [← htr.1] at hk0
        simp at hk0
      | cons a pre' =>
        simp only [List.cons_append, List.cons.injEq] at htr
        obtain ⟨hp, hfz⟩ := ih _ _ _ _ hr' pre' st post htr.2 hk0
        exact ⟨hp, by simp only [hfz, Flow.cons]⟩

/-- the sweep consumes exactly one oracle entry per trace step (plus the last-row norm when normalising and the
    flag was not raised before): after the zero flag nothing further is read, i.e. no later decomposition or
    division exists in the model -/
theorem sweep_oracle_consumed (p : Params) (mk : Nat → Bool) :
    ∀ (more : List Shape) (row : Nat) (cur : Shape) (orc : List Orc) (r : SweepRes),
      sweep p mk row cur more orc = .ok r →
      r.trace.length ≤ more.length ∧
      (orc.length = r.rest.length + r.trace.length ∨
       (p.normalise = true ∧ r.trace.length = more.length ∧ orc.length = r.rest.length + r.trace.length + 1)) := by
  intro more
  induction more with
  | nil =>
    intro row cur orc r h
    rcases sweep_nil_ok h with ⟨_, rfl⟩ | ⟨hn, x, orc', rfl, ⟨_, rfl⟩ | ⟨_, rfl⟩⟩
    · simp
    · exact ⟨by simp, Or.inr ⟨hn, by simp⟩⟩
    · exact ⟨by simp, Or.inr ⟨hn, by simp⟩⟩
  | cons nxt more ih =>
    intro row cur orc r h
    obtain ⟨o, orc', rfl, ⟨_, rfl⟩ | ⟨k, r', hk, hb, hr', rfl⟩⟩ := sweep_cons_ok h
    · simp
    · obtain ⟨h1, h2⟩ := ih _ _ _ _ hr'
      refine ⟨by simp only [List.length_cons]; omega, ?_⟩
      rcases h2 with h2 | ⟨hn, h2, h3⟩
      · left; simp only [List.length_cons]; omega
      · right; exact ⟨hn, by simp only [List.length_cons]; omega, by simp only [List.length_cons]; omega⟩

/-! ### `_mps_start_stop_indices` -/

theorem aux2_eq : ∀ (l : List Site) (i a b : Nat),
    startStopAux l i (some a) (some b) =
      if l.all Option.isNone then .ok (some a, some b) else .error .gap := by
  intro l
  induction l with
  | nil => intro i a b; simp [startStopAux]
  | cons t ts ih =>
    intro i a b
    cases t with
    | none => simp [startStopAux, ih]
    | some x => simp [startStopAux]

theorem aux1_eq : ∀ (l : List Site) (i a : Nat),
    startStopAux l i (some a) none =
      match l.dropWhile Option.isSome with
      | [] => .ok (some a, none)
      | _ :: rest =>
        if rest.all Option.isNone then .ok (some a, some (i + (l.takeWhile Option.isSome).length))
        else .error .gap := by
  intro l
  induction l with
  | nil => intro i a; simp [startStopAux]
  | cons t ts ih =>
    intro i a
    cases t with
    | none => simp [startStopAux, aux2_eq]
    | some x =>
      simp only [startStopAux, Option.isNone_some, Bool.false_eq_true, ↓reduceIte, ih, Option.isSome_some,
        List.dropWhile_cons_of_pos, List.takeWhile_cons_of_pos, List.length_cons]
      split <;> simp only [Nat.add_assoc, Nat.add_comm 1]

theorem aux0_eq : ∀ (l : List Site) (i : Nat),
    startStopAux l i none none =
      match l.dropWhile Option.isNone with
      | [] => .ok (none, none)
      | _ :: rest =>
        startStopAux rest (i + (l.takeWhile Option.isNone).length + 1)
          (some (i + (l.takeWhile Option.isNone).length)) none := by
  intro l
  induction l with
  | nil => intro i; simp [startStopAux]
  | cons t ts ih =>
    intro i
    cases t with
    | some x => simp [startStopAux]
    | none =>
      simp only [startStopAux, Option.isSome_none, Bool.false_eq_true, ↓reduceIte, ih, Option.isNone_none,
        List.dropWhile_cons_of_pos, List.takeWhile_cons_of_pos, List.length_cons]
      split <;> simp only [Nat.add_assoc, Nat.add_comm 1]

/-- a gap (tensor, later None, later tensor) makes phase 1 raise -/
theorem aux1_gap : ∀ (ys : List Site) (zs ws : List Site) (u : Shape) (i a : Nat),
    startStopAux (ys ++ none :: (zs ++ some u :: ws)) i (some a) none = .error .gap := by
  intro ys
  induction ys with
  | nil => intro zs ws u i a; simp [startStopAux, aux2_eq]
  | cons t ts ih =>
    intro zs ws u i a
    cases t with
    | none => simp [startStopAux, aux2_eq]
    | some x => simp [startStopAux, ih]

theorem aux0_gap : ∀ (xs : List Site) (t : Shape) (ys zs ws : List Site) (u : Shape) (i : Nat),
    startStopAux (xs ++ some t :: (ys ++ none :: (zs ++ some u :: ws))) i none none = .error .gap := by
  intro xs
  induction xs with
  | nil => intro t ys zs ws u i; simp [startStopAux, aux1_gap]
  | cons x xs ih =>
    intro t ys zs ws u i
    cases x with
    | none => simp [startStopAux, ih]
    | some s =>
      have := aux1_gap (xs ++ some t :: ys) zs ws u (i + 1) i
      simp only [List.append_assoc, List.cons_append] at this
      simp [startStopAux, this]

theorem dropWhile_head_false {α} (p : α → Bool) : ∀ (l : List α) (x : α) (rest : List α),
    l.dropWhile p = x :: rest → p x = false := by
  intro l
  induction l with
  | nil => intro x rest h; simp at h
  | cons a l ih =>
    intro x rest h
    by_cases hp : p a = true
    · rw [List.dropWhile_cons_of_pos hp] at h; exact ih _ _ h
    · rw [List.dropWhile_cons_of_neg hp] at h
      cases h; simpa using hp

theorem mem_takeWhile_true {α} (p : α → Bool) : ∀ (l : List α) (x : α), x ∈ l.takeWhile p → p x = true := by
  intro l
  induction l with
  | nil => intro x h; simp at h
  | cons a l ih =>
    intro x h
    by_cases hp : p a = true
    · rw [List.takeWhile_cons_of_pos hp] at h
      rcases List.mem_cons.mp h with rfl | h
      · exact hp
      · exact ih _ h
    · rw [List.takeWhile_cons_of_neg hp] at h; simp at h

theorem all_none_replicate : ∀ (l : List Site), (∀ t ∈ l, Option.isNone t = true) →
    l = List.replicate l.length none := by
  intro l
  induction l with
  | nil => intro _; rfl
  | cons a l ih =>
    intro h
    have ha := h a (List.mem_cons_self ..)
    cases a with
    | some x => simp at ha
    | none =>
      rw [List.length_cons, List.replicate_succ, ← ih (fun t ht => h t (List.mem_cons_of_mem _ ht))]

theorem all_some_map : ∀ (l : List Site), (∀ t ∈ l, Option.isSome t = true) →
    l = (l.filterMap id).map some := by
  intro l
  induction l with
  | nil => intro _; rfl
  | cons a l ih =>
    intro h
    have ha := h a (List.mem_cons_self ..)
    cases a with
    | none => simp at ha
    | some x =>
      have := ih (fun t ht => h t (List.mem_cons_of_mem _ ht))
      simp only [List.filterMap_cons, id_eq, List.map_cons]
      rw [← this]

/-- structure of `_mps_start_stop_indices`: the list is `k` Nones, a run of tensors, and a tail that is empty or
    starts with None; the function returns the run's bounds iff the tail is all None and raises otherwise -/
theorem startStop_struct (m : Mps) : ∃ (k : Nat) (run : List Shape) (tl : List Site),
    m = List.replicate k none ++ run.map some ++ tl ∧ (run = [] → tl = []) ∧
    (∀ x rest, tl = x :: rest → x = none) ∧
    startStop m = (if run = [] then .ok (0, 0)
                   else if tl.all Option.isNone then .ok (k, k + run.length) else .error .gap) := by
  have hm : m = m.takeWhile Option.isNone ++ m.dropWhile Option.isNone := (List.takeWhile_append_dropWhile).symm
  have hlead := all_none_replicate (m.takeWhile Option.isNone) (fun t ht => mem_takeWhile_true _ _ _ ht)
  generalize hk : (m.takeWhile Option.isNone).length = k at hlead
  cases hb : m.dropWhile Option.isNone with
  | nil =>
    refine ⟨k, [], [], ?_, fun _ => rfl, by simp, ?_⟩
    · rw [hb] at hm; rw [hlead] at hm; simpa using hm
    · simp only [startStop, aux0_eq, hb, ↓reduceIte]
  | cons x rest =>
    have hx := dropWhile_head_false _ _ _ _ hb
    cases x with
    | none => simp at hx
    | some t =>
      have hr : rest = rest.takeWhile Option.isSome ++ rest.dropWhile Option.isSome :=
        (List.takeWhile_append_dropWhile).symm
      have hrun := all_some_map (rest.takeWhile Option.isSome) (fun t ht => mem_takeWhile_true _ _ _ ht)
      refine ⟨k, t :: (rest.takeWhile Option.isSome).filterMap id, rest.dropWhile Option.isSome, ?_, by simp, ?_, ?_⟩
      · rw [hb, hlead] at hm
        rw [List.map_cons, ← hrun]
        rw [List.append_assoc, List.cons_append, ← hr]
        exact hm
      · intro y ys hy
        have := dropWhile_head_false _ _ _ _ hy
        cases y with
        | none => rfl
        | some s => simp at this
      · have hlen : ((rest.takeWhile Option.isSome).filterMap id).length = (rest.takeWhile Option.isSome).length := by
          conv => rhs; rw [hrun]
          simp
        cases hd : rest.dropWhile Option.isSome with
        | nil =>
          have : m.length = k + (1 + (rest.takeWhile Option.isSome).length) := by
            conv => lhs; rw [hm, hb, hr, hd]
            simp only [List.length_append, List.length_cons, List.length_nil, hk]
            omega
          simp only [startStop, aux0_eq, hb, hk, aux1_eq, hd, reduceCtorEq, ↓reduceIte, List.all_nil,
            List.length_cons, hlen, this]
          congr 2 <;> omega
        | cons y ys =>
          have hy := dropWhile_head_false _ _ _ _ hd
          cases y with
          | some s => simp at hy
          | none =>
            by_cases hall : ys.all Option.isNone = true
            · simp only [startStop, aux0_eq, hb, hk, aux1_eq, hd, hall, reduceCtorEq, ↓reduceIte, List.all_cons,
                Option.isNone_none, Bool.true_and, List.length_cons, hlen]
              congr 2 <;> omega
            · simp only [startStop, aux0_eq, hb, hk, aux1_eq, hd, hall, reduceCtorEq, ↓reduceIte, List.all_cons,
                Option.isNone_none, Bool.true_and, List.length_cons, hlen, Bool.false_eq_true]

theorem filterMap_id_map_some (l : List Shape) : (l.map some).filterMap id = l := by
  induction l with
  | nil => rfl
  | cons a l ih => simp only [List.map_cons, List.filterMap_cons, id_eq, ih]

theorem filterMap_id_replicate_none (k : Nat) : (List.replicate k (none : Site)).filterMap id = [] := by
  induction k with
  | zero => rfl
  | succ k ih => simp only [List.replicate_succ, List.filterMap_cons, id_eq, ih]

/-- `startStop` succeeds exactly on lists of the form Noneᵃ ++ tensors ++ Noneᶜ, returning the run's bounds -/
theorem startStop_ok {m : Mps} {a b : Nat} (h : startStop m = .ok (a, b)) :
    ∃ (run : List Shape) (c : Nat), m = List.replicate a none ++ (run.map some ++ List.replicate c none) ∧
      b = a + run.length ∧ (run = [] → a = 0) := by
  obtain ⟨k, run, tl, hm, hnil, hhd, hs⟩ := startStop_struct m
  rw [hs] at h
  by_cases hr : run = []
  · simp only [hr, ↓reduceIte, Except.ok.injEq, Prod.mk.injEq] at h
    refine ⟨[], k, ?_, by simp [← h.1, ← h.2], fun _ => h.1.symm⟩
    rw [hm, hr, hnil hr, ← h.1]; simp
  · simp only [hr, ↓reduceIte] at h
    by_cases hall : tl.all Option.isNone = true
    · simp only [hall, ↓reduceIte, Except.ok.injEq, Prod.mk.injEq] at h
      refine ⟨run, tl.length, ?_, by omega, fun h' => absurd h' hr⟩
      have := all_none_replicate tl (fun t ht => List.all_eq_true.mp hall t ht)
      rw [← this, ← h.1, ← List.append_assoc]; exact hm
    · simp [hall] at h

theorem split3 {α} {m A B C : List α} {a n : Nat} (hm : m = A ++ (B ++ C)) (ha : A.length = a) (hn : B.length = n) :
    m.take a = A ∧ (m.drop a).take n = B ∧ m.drop (a + n) = C := by
  refine ⟨?_, ?_, ?_⟩
  · rw [hm]; exact List.take_left' ha
  · rw [hm, List.drop_left' ha]; exact List.take_left' hn
  · rw [hm, ← List.append_assoc]; exact List.drop_left' (by simp [ha, hn])

/-- inversion of a successful `lcf` -/
theorem lcf_ok {p : Params} {m : Mps} {orc : List Orc} {r : Res} (h : lcf p m orc = .ok r) :
    ∃ (a c : Nat) (run : List Shape), m = List.replicate a none ++ (run.map some ++ List.replicate c none) ∧
      ((run = [] ∧ r = ⟨m, false, [], orc⟩) ∨
       (∃ cur more sr, run = cur :: more ∧ sweep p (maskAt p.mask) a cur more orc = .ok sr ∧
          ((sr.flow = .zero ∧ r = ⟨zerosLike m, true, sr.trace, sr.rest⟩) ∨
           (∃ out, sr.flow = .done out ∧
              r = ⟨List.replicate a none ++ (out.map some ++ List.replicate c none), false, sr.trace, sr.rest⟩)))) := by
  unfold lcf at h
  split at h; · cases h
  split at h; · cases h
  split at h; · cases h
  split at h
  · cases h
  · rename_i a b hss
    obtain ⟨run, c, hm, hb, _⟩ := startStop_ok hss
    have hba : b - a = (run.map some).length := by simp; omega
    obtain ⟨h1, h2, h3⟩ := split3 hm (List.length_replicate ..) hba.symm
    refine ⟨a, c, run, hm, ?_⟩
    have hab : a + (b - a) = b := by omega
    rw [hab] at h3
    rw [h2, filterMap_id_map_some, h3, h1] at h
    cases run with
    | nil => left; exact ⟨rfl, by simp only at h; cases h; rfl⟩
    | cons cur more =>
      right
      refine ⟨cur, more, ?_⟩
      simp only at h
      split at h
      · cases h
      · rename_i sr hsr
        refine ⟨sr, rfl, hsr, ?_⟩
        split at h
        · left; exact ⟨by assumption, by cases h; rfl⟩
        · rename_i out hout
          right; refine ⟨out, hout, ?_⟩
          cases h; simp [List.append_assoc]

theorem lcf_ok_asserts {p : Params} {m : Mps} {orc : List Orc} {r : Res} (h : lcf p m orc = .ok r) :
    (p.chiOn && p.qr) = false ∧ (p.tolOn && p.qr) = false ∧ maskLenBad p.mask m = false := by
  unfold lcf at h
  split at h; · cases h
  split at h; · cases h
  split at h; · cases h
  refine ⟨by simpa using ‹¬ (p.chiOn && p.qr) = true›, by simpa using ‹¬ (p.tolOn && p.qr) = true›,
    by simpa using ‹¬ maskLenBad p.mask m = true›⟩

/-! ### reverse, zeros_like, bond_dimension -/

theorem swap_swap (t : Shape) : t.swap.swap = t := rfl

theorem rev_rev (m : Mps) : rev (rev m) = m := by
  unfold rev
  rw [← List.map_reverse, List.reverse_reverse, List.map_map]
  have : (Option.map Shape.swap ∘ Option.map Shape.swap) = id := by
    funext x; cases x <;> rfl
  rw [this, List.map_id]

theorem rev_length (m : Mps) : (rev m).length = m.length := by simp [rev]

theorem zerosLike_rev (m : Mps) : zerosLike (rev m) = rev (zerosLike m) := by
  unfold rev zerosLike
  rw [List.map_map, ← List.map_reverse, List.map_map]
  congr 1
  funext x; cases x <;> rfl

theorem zerosLike_idem (m : Mps) : zerosLike (zerosLike m) = zerosLike m := by
  unfold zerosLike
  rw [List.map_map]
  congr 1
  funext x; cases x <;> rfl

theorem filterMap_id_rev (m : Mps) : (rev m).filterMap id = ((m.filterMap id).reverse).map Shape.swap := by
  unfold rev
  induction m with
  | nil => rfl
  | cons a m ih =>
    simp only [List.reverse_cons, List.map_append, List.filterMap_append, ih, List.map_cons, List.map_nil]
    cases a <;> simp

theorem mem_zerosLike_filterMap {m : Mps} {t : Shape} (h : t ∈ (zerosLike m).filterMap id) : t.n = 1 ∧ t.s = 1 := by
  unfold zerosLike at h
  simp only [List.mem_filterMap, List.mem_map, id_eq] at h
  obtain ⟨a, ⟨b, _, hb⟩, ha⟩ := h
  subst hb
  cases b with
  | none => simp at ha
  | some x => simp only [Option.map_some, Option.some.injEq] at ha; subst ha; exact ⟨rfl, rfl⟩

theorem foldl_max_le (l : List Site) : ∀ (acc c : Nat),
    l.foldl (fun acc t => max acc (siteN t)) acc ≤ c ↔ acc ≤ c ∧ ∀ t ∈ l, siteN t ≤ c := by
  induction l with
  | nil => intro acc c; simp
  | cons a l ih =>
    intro acc c
    simp only [List.foldl_cons, ih, List.mem_cons, forall_eq_or_imp]
    constructor
    · rintro ⟨h1, h2⟩; exact ⟨by omega, by omega, h2⟩
    · rintro ⟨h1, h2, h3⟩; exact ⟨by omega, h3⟩

/-- `bond_dimension(mps) ≤ c` iff every N dimension is ≤ c -/
theorem bondDim_le (m : Mps) (c : Nat) : bondDim m ≤ c ↔ ∀ t ∈ m, siteN t ≤ c := by
  unfold bondDim
  rw [foldl_max_le]; simp

theorem maskAt_reverse {l : List Bool} {i : Nat} (hi : i < l.length) :
    maskAt (some l.reverse) i = maskAt (some l) (l.length - 1 - i) := by
  simp only [maskAt, List.getD_eq_getElem?_getD, List.getElem?_reverse hi]

theorem maskAt_all_true {mask : Option (List Bool)} (h : ∀ l, mask = some l → ∀ b ∈ l, b = true) (i : Nat) :
    maskAt mask i = true := by
  cases mask with
  | none => rfl
  | some l =>
    simp only [maskAt, List.getD_eq_getElem?_getD]
    cases hl : l[i]? with
    | none => rfl
    | some b => exact h l rfl b (List.mem_of_getElem? hl)

end Qec.MpsLemmas
